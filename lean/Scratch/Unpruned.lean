import LoomVerif.Oracle.RC11Enum
open LoomVerif LoomVerif.RC11

def allMo (c : Candidate) : List (List (List Nat)) :=
  product ((List.range c.nLoc).map fun x =>
    permutations ((List.range c.evs.size).filter fun i =>
      let e := c.evs.getD i default
      (e.kind == .W || e.kind == .U) && e.loc == x))

partial def completeStates (p : Prog) : List PSt := Id.run do
  let mut seen : Std.HashSet PSt := {}
  let mut stack := [pinit p]
  let mut out := []
  seen := seen.insert (pinit p)
  while !stack.isEmpty do
    match stack with
    | [] => break
    | s :: rest =>
      stack := rest
      if s.bad then continue
      let ts := (List.range s.ths.length).filter (penabled p s)
      if ts.isEmpty then out := s :: out
      for t in ts do
        for s' in pstep p s t do
          if !seen.contains s' then
            seen := seen.insert s'
            stack := s' :: stack
  return out

def unpruned (p : Prog) (strong : Bool) : List String := Id.run do
  let mut outs : Std.HashSet String := {}
  for s in completeStates p do
    let c := candidate p s
    for mos in allMo c do
      let g := c.graph mos
      if g.consistent strong then outs := outs.insert (outcomeOf p s g)
  return outs.toList

def main (args : List String) : IO Unit := do
  let stdin ← IO.getStdin
  let mut go := true
  while go do
    let line ← stdin.getLine
    if line.isEmpty then go := false else
    match Prog.parse line.trimAscii.toString with
    | some p =>
      let a := (unpruned p true).toArray.qsort (· < ·)
      let b := ((explore p true 100000 100000).outcomes).toArray.qsort (· < ·)
      IO.println s!"{line.trimAscii}\n  unpruned {a.size} pruned {b.size} {if a == b then "SAME" else "DIFF"}"
      for o in a do
        if !b.contains o then IO.println s!"  only unpruned: {o}"
      for o in b do
        if !a.contains o then IO.println s!"  only pruned: {o}"
    | none => IO.println "parse error"

import LoomVerif.Props.Refine2
import LoomVerif.Model.Ckpt
open LoomVerif
def main : IO Unit := IO.println (Refine2.Counter.pathOf [1,0,1,1,0]).render

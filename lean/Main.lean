/-
lvdriver: line-protocol driver of the Lean twin.

  lvdriver explore [maxIters]   stdin: program lines; stdout: the same records as `lv-harness run`
  lvdriver replay               stdin: `PROG <line>` / `S <path json>` pairs; runs ONE iteration of
                                the twin from that path and prints its records
  lvdriver step                 stdin: `<cap> <path json>` lines; prints `S <json>` of `Path.step`
                                or `NONE`
  lvdriver rc11 strong|doc [maxStates maxGraphs]
                                stdin: litmus programs; prints the RC11 outcomes computed by the
                                total, verified enumerator `RC11.exploreV` (`Props/OracleRC11.lean`)
  lvdriver rc11-old …           the same with the original `partial def RC11.explore` (cross-check)
-/
import LoomVerif.Model.Check
import LoomVerif.Model.Render
import LoomVerif.Model.AtomicRun
import LoomVerif.Spec.StdAtomic
import LoomVerif.Oracle.SCEnum
import LoomVerif.Oracle.SCEnumV
import LoomVerif.Oracle.RC11Enum
import LoomVerif.Oracle.RC11EnumV

open LoomVerif

def outcomeStr : Outcome → String
  | .completed => "ok" | .limit => "ok" | .panicked p => p.render | .fuel => "capped"

structure Opts where
  full : Bool := false      -- print S/P/H/O lines instead of the two digests
  starts : Bool := false    -- in digest mode, also print the start path of every iteration
  maxIters : Nat := 1000000

partial def exploreLoop (o : Opts) (prog : Prog) (maxIters : Nat) (i : Nat) (e : Exec) : IO Unit := do
  if i > maxIters then
    IO.println s!"DONE {i - 1} capped"; return
  if Check.limitHit prog.cfg i then
    IO.println s!"DONE {i - 1} ok"; return
  IO.println s!"IT {i}"
  if o.full || o.starts then IO.println s!"S {e.path.render}"
  let r := runIter prog e
  for l in (if o.full then r.lines else r.digestLines e.path) do IO.println l
  match r.term with
  | some p => IO.println s!"DONE {i} {p.render}"
  | none =>
    match r.exec.step with
    | none => IO.println s!"DONE {i} ok"
    | some e' => exploreLoop o prog maxIters (i + 1) e'

partial def exploreMain (o : Opts) : IO Unit := do
  let maxIters := o.maxIters
  let stdin ← IO.getStdin
  let line ← stdin.getLine
  if line.isEmpty then return
  let line := line.trimAscii.toString
  if line.isEmpty || line.startsWith "#" then exploreMain o else
  IO.println s!"PROG {line}"
  match Prog.parse line with
  | none => IO.println "DONE 0 parseError"
  | some prog => exploreLoop o prog maxIters 1 (Check.initExec prog.cfg)
  (← IO.getStdout).flush
  exploreMain o

partial def replayMain (full : Bool) (prog : Option Prog) : IO Unit := do
  let stdin ← IO.getStdin
  let line ← stdin.getLine
  if line.isEmpty then return
  let line := line.trimAscii.toString
  if line.startsWith "PROG " then
    replayMain full (Prog.parse (line.drop 5).toString)
  else if line.startsWith "S " then
    match prog with
    | none => IO.println "ERR no program"
    | some pr =>
      match Path.parse pr.cfg.maxBranches (line.drop 2).toString with
      | none => IO.println "ERR bad path"
      | some p =>
        let e := { Check.initExec pr.cfg with path := p }
        for l in (if full then (runIter pr e).lines else (runIter pr e).digestLines p) do
          IO.println l
        IO.println "END"
    (← IO.getStdout).flush
    replayMain full prog
  else replayMain full prog

partial def stepMain : IO Unit := do
  let stdin ← IO.getStdin
  let line ← stdin.getLine
  if line.isEmpty then return
  let line := line.trimAscii.toString
  match line.splitOn " " with
  | cap :: rest =>
    match cap.toNat?, Path.parse 0 (" ".intercalate rest) with
    | some c, some p =>
      match ({ p with cap := c }).step with
      | some p' => IO.println s!"S {p'.render}"
      | none => IO.println "NONE"
    | _, _ => IO.println "ERR"
  | _ => IO.println "ERR"
  stepMain

/-- C12: one single-thread program per line; prints the returns + final content computed by the
layered model (`atomicRunAll`, every candidate choice) and by the reference semantics `Std.run` -/
partial def c12Main : IO Unit := do
  let stdin ← IO.getStdin
  let line ← stdin.getLine
  if line.isEmpty then return
  let line := line.trimAscii.toString
  if line.isEmpty then c12Main else
  IO.println s!"PROG {line}"
  match Prog.parse line with
  | some { cfg, threads := [ops] } =>
    let aops := ops.filterMap fun | .atom 0 a => some a | _ => none
    if aops.length != ops.length then IO.println "DONE 0 parseError" else
    let valid := aops.all (·.valid cfg.ty)
    let (rs, fin) := Std.run cfg.ty 0 aops
    IO.println s!"STD {" ".intercalate (rs.map Ret.render)} | {fin}"
    match atomicRunAll cfg.ty 0 aops with
    | .ok outs =>
      for (rs, fin) in outs do
        IO.println s!"MODEL {" ".intercalate (rs.map Ret.render)} | {fin}"
    | .error e => IO.println s!"MODEL panic {e.render}"
    IO.println s!"DONE 1 {if valid then "valid" else "invalid"}"
  | _ => IO.println "DONE 0 parseError"
  (← IO.getStdout).flush
  c12Main

/-- reference outcomes: one program per line; prints every outcome of the interleaving semantics -/
partial def scMain (maxStates : Nat) : IO Unit := do
  let stdin ← IO.getStdin
  let line ← stdin.getLine
  if line.isEmpty then return
  let line := line.trimAscii.toString
  if line.isEmpty then scMain maxStates else
  IO.println s!"PROG {line}"
  match Prog.parse line with
  | some prog =>
    let r := SC.exploreV prog maxStates
    for o in r.outcomes do IO.println s!"OUT {o.render}"
    IO.println s!"DONE {r.states} {r.transitions} {if r.capped then "capped" else "ok"}"
  | none => IO.println "DONE 0 0 parseError"
  (← IO.getStdout).flush
  scMain maxStates

/-- RC11 outcomes: one litmus program per line; `strong` = SeqCst accesses really SC -/
partial def rc11Main (verified : Bool) (strong : Bool) (maxStates maxGraphs : Nat) : IO Unit := do
  let stdin ← IO.getStdin
  let line ← stdin.getLine
  if line.isEmpty then return
  let line := line.trimAscii.toString
  if line.isEmpty then rc11Main verified strong maxStates maxGraphs else
  IO.println s!"PROG {line}"
  match Prog.parse line with
  | some prog =>
    -- `rc11`: the total, verified enumerator (`Props/OracleRC11.lean`); `rc11-old`: the original
    -- `partial def`, kept for cross-checking
    let r := if verified then RC11.exploreV prog strong maxStates maxGraphs
             else RC11.explore prog strong maxStates maxGraphs
    for o in r.outcomes do IO.println s!"OUT {o}"
    let st := if r.unsupported then "unsupported" else if r.capped then "capped" else "ok"
    IO.println s!"DONE {r.candidates} {r.graphs} {r.consistent} {st}"
  | none => IO.println "DONE 0 0 0 parseError"
  (← IO.getStdout).flush
  rc11Main verified strong maxStates maxGraphs

def parseOpts : List String → Opts → Opts
  | [], o => o
  | "--full" :: r, o => parseOpts r { o with full := true }
  | "--starts" :: r, o => parseOpts r { o with starts := true }
  | "--max" :: n :: r, o => parseOpts r { o with maxIters := n.toNat?.getD o.maxIters }
  | _ :: r, o => parseOpts r o

def main (args : List String) : IO Unit := do
  match args with
  | "explore" :: rest => exploreMain (parseOpts rest {})
  | "replay" :: rest => replayMain (parseOpts rest {}).full none
  | ["step"] => stepMain
  | ["c12"] => c12Main
  | ["rc11", "strong"] => rc11Main true true 30000 6000
  | ["rc11", "doc"] => rc11Main true false 30000 6000
  | ["rc11", "strong", st, gr] => rc11Main true true (st.toNat?.getD 30000) (gr.toNat?.getD 6000)
  | ["rc11", "doc", st, gr] => rc11Main true false (st.toNat?.getD 30000) (gr.toNat?.getD 6000)
  | ["rc11-old", "strong"] => rc11Main false true 30000 6000
  | ["rc11-old", "doc"] => rc11Main false false 30000 6000
  | ["rc11-old", "strong", st, gr] => rc11Main false true (st.toNat?.getD 30000) (gr.toNat?.getD 6000)
  | ["rc11-old", "doc", st, gr] => rc11Main false false (st.toNat?.getD 30000) (gr.toNat?.getD 6000)
  | ["sc"] => scMain 200000
  | ["sc", n] => scMain (n.toNat?.getD 200000)
  | _ => IO.eprintln "usage: lvdriver explore [--full] [--starts] [--max n] | replay [--full] | step"

/-
lvdriver: line-protocol driver of the Lean twin.

  lvdriver explore [maxIters]   stdin: program lines; stdout: the same records as `lv-harness run`
  lvdriver replay               stdin: `PROG <line>` / `S <path json>` pairs; runs ONE iteration of
                                the twin from that path and prints its records
  lvdriver step                 stdin: `<cap> <path json>` lines; prints `S <json>` of `Path.step`
                                or `NONE`
-/
import LoomVerif.Model.Check
import LoomVerif.Model.Render

open LoomVerif

def outcomeStr : Outcome → String
  | .completed => "ok" | .limit => "ok" | .panicked p => p.render | .fuel => "capped"

partial def exploreLoop (prog : Prog) (maxIters : Nat) (i : Nat) (e : Exec) : IO Unit := do
  if i > maxIters then
    IO.println s!"DONE {i - 1} capped"; return
  if Check.limitHit prog.cfg i then
    IO.println s!"DONE {i - 1} ok"; return
  IO.println s!"IT {i}"
  IO.println s!"S {e.path.render}"
  let r := runIter prog e
  for l in r.lines do IO.println l
  match r.term with
  | some p => IO.println s!"DONE {i} {p.render}"
  | none =>
    match r.exec.step with
    | none => IO.println s!"DONE {i} ok"
    | some e' => exploreLoop prog maxIters (i + 1) e'

partial def exploreMain (maxIters : Nat) : IO Unit := do
  let stdin ← IO.getStdin
  let line ← stdin.getLine
  if line.isEmpty then return
  let line := line.trimAscii.toString
  if line.isEmpty || line.startsWith "#" then exploreMain maxIters else
  IO.println s!"PROG {line}"
  match Prog.parse line with
  | none => IO.println "DONE 0 parseError"
  | some prog => exploreLoop prog maxIters 1 (Check.initExec prog.cfg)
  (← IO.getStdout).flush
  exploreMain maxIters

partial def replayMain (prog : Option Prog) : IO Unit := do
  let stdin ← IO.getStdin
  let line ← stdin.getLine
  if line.isEmpty then return
  let line := line.trimAscii.toString
  if line.startsWith "PROG " then
    replayMain (Prog.parse (line.drop 5).toString)
  else if line.startsWith "S " then
    match prog with
    | none => IO.println "ERR no program"
    | some pr =>
      match Path.parse pr.cfg.maxBranches (line.drop 2).toString with
      | none => IO.println "ERR bad path"
      | some p =>
        let e := { Check.initExec pr.cfg with path := p }
        IO.println s!"S {p.render}"
        for l in (runIter pr e).lines do IO.println l
        IO.println "END"
    (← IO.getStdout).flush
    replayMain prog
  else replayMain prog

partial def stepMain : IO Unit := do
  let stdin ← IO.getStdin
  let line ← stdin.getLine
  if line.isEmpty then return
  let line := line.trimAscii.toString
  match line.splitOn " " with
  | cap :: rest =>
    match cap.toNat?, Path.parse 0 (" ".intercalate rest) with
    | some c, some p =>
      match ({ p with cap := c }).step with
      | some p' => IO.println s!"S {p'.render}"
      | none => IO.println "NONE"
    | _, _ => IO.println "ERR"
  | _ => IO.println "ERR"
  stepMain

def main (args : List String) : IO Unit := do
  match args with
  | ["explore"] => exploreMain 1000000
  | ["explore", n] => exploreMain (n.toNat?.getD 1000000)
  | ["replay"] => replayMain none
  | ["step"] => stepMain
  | _ => IO.eprintln "usage: lvdriver explore [maxIters] | replay | step"

/-
Model of `src/rt/path.rs`: the DFS stack of scheduling / load / spurious decisions.

Every function mirrors the Rust function of the same name.  `&mut self` becomes state passing,
`panic!`/`assert!` becomes `Except Panic`.  Import-free.
-/
import LoomVerif.Model.VV

namespace LoomVerif

/-- classes of panics (the implementation's message is mapped to a class by prefix). -/
inductive Panic
  | branchLimit        -- "Model exceeded maximum number of branches…"
  | deadlock           -- "deadlock; threads = …"
  | threadLimit        -- `assert!(self.threads.len() < self.max())`
  | nondet             -- "Reached unexpected exploration state…"
  | notCritical        -- "not in critical state"
  | notExploring       -- "not in exploring state"
  | causality (kind : Nat)   -- "Causality violation: …" (kind = index in `Panic.causalityMsgs`)
  | leakArc | leakAlloc | leakMsg
  | expectedLock       -- "expected to be able to acquire lock"
  | expectedRead | expectedWrite
  | notNotified        -- `assert!(state.notified)`
  | invalidRw          -- "invalid internal loom state"
  | arcReleased        -- "Arc is released" / "Arc is already released"
  | cellBusy           -- "currently writing to cell" / "currently reading from cell"
  | atomicMutating     -- "atomic cell is in `with_mut` call"
  | lazyShutdown       -- "attempted to access lazy_static during shutdown"
  | tlsDestroyed       -- "cannot access a (mock) TLS value during or after it is destroyed"
  | notifyTwoWaiters   -- "only a single thread may wait on `Notify`"
  | msgUnderflow       -- "expected to be able to read the message"
  | user               -- the DSL's `panic` operation
  | internal (code : Nat)    -- any other `[loom internal bug]` assertion
  | fuel               -- model-only: interpreter fuel exhausted (never compared equal)
deriving DecidableEq, Repr, Inhabited

/-- `path::Thread` -/
inductive ThSt | disabled | skip | yield | pending | active | visited
deriving DecidableEq, Repr, Inhabited

namespace ThSt
def isActive : ThSt → Bool | active => true | _ => false
def isPending : ThSt → Bool | pending => true | _ => false
def isEnabled : ThSt → Bool | disabled => false | _ => true
/-- `Thread::explore` -/
def explore : ThSt → ThSt | skip => pending | s => s
def letter : ThSt → Char
  | disabled => 'D' | skip => 'S' | yield => 'Y' | pending => 'P' | active => 'A' | visited => 'V'
end ThSt

/-- `path::Schedule` -/
structure Sched where
  preemptions : Nat
  initialActive : Option Nat
  threads : List ThSt
  prev : Option Nat
  exploring : Bool
deriving DecidableEq, Repr, Inhabited

/-- `path::Load` -/
structure Load where
  values : List Nat
  pos : Nat
  len : Nat
  exploring : Bool
deriving DecidableEq, Repr, Inhabited

/-- `path::Spurious` -/
structure Spur where
  spur : Bool
  exploring : Bool
deriving DecidableEq, Repr, Inhabited

inductive Entry
  | sched (s : Sched) | load (l : Load) | spur (p : Spur)
deriving DecidableEq, Repr, Inhabited

/-- `path::Path`.  `branches` is root first; `cap` is the capacity of the `branches` vector
(`max_branches` for a fresh run). -/
structure Path where
  bound : Option Nat
  pos : Nat
  branches : List Entry
  cap : Nat
  exploring : Bool
  skipping : Bool
  exploringOnStart : Bool
deriving DecidableEq, Repr, Inhabited

/-- index of the first element satisfying `p` -/
def findIdx? {α} (p : α → Bool) : List α → Option Nat
  | [] => none
  | a :: as => if p a then some 0 else (findIdx? p as).map (· + 1)

/-- replace the first element satisfying `p` by `v`; `none` if there is none -/
def setFirst? {α} (p : α → Bool) (v : α) : List α → Option (List α)
  | [] => none
  | a :: as => if p a then some (v :: as) else (setFirst? p v as).map (a :: ·)

namespace Sched

/-- `Schedule::active_thread_index` -/
def activeIdx (s : Sched) : Option Nat := findIdx? ThSt.isActive s.threads

/-- `Schedule::preemptions()` -/
def preemptionsNow (s : Sched) : Nat :=
  if s.initialActive.isSome && s.initialActive != s.activeIdx then s.preemptions + 1
  else s.preemptions

/-- `Schedule::backtrack` (caller guarantees `exploring`). -/
def backtrack (s : Sched) (tid : Nat) (bound : Option Nat) : Except Panic Sched :=
  if !s.exploring then .error (.internal 1) else
  match bound with
  | some b =>
    if s.preemptions > b then .error (.internal 2)
    else if s.preemptions == b then .ok s
    else .ok (mark s)
  | none => .ok (mark s)
where
  mark (s : Sched) : Sched :=
    match s.threads[tid]? with
    | none => s
    | some st =>
      if st.isEnabled then { s with threads := s.threads.set tid st.explore }
      else { s with threads := s.threads.map ThSt.explore }

/-- the per-entry part of `Path::step`: the active thread becomes `Visited`, the first pending
thread becomes `Active`; `none` when no thread is pending. -/
def advance (s : Sched) : Option Sched :=
  let ths := (setFirst? ThSt.isActive .visited s.threads).getD s.threads
  (setFirst? ThSt.isPending .active ths).map (fun t => { s with threads := t })

end Sched

namespace Entry
def exploring : Entry → Bool
  | sched s => s.exploring | load l => l.exploring | spur p => p.exploring

/-- advance an entry to its next alternative, if it has one (body of the loop of `Path::step`) -/
def advance : Entry → Option Entry
  | sched s => if s.exploring then s.advance.map sched else none
  | load l =>
    if l.exploring then
      if l.pos + 1 < l.len then some (load { l with pos := l.pos + 1 }) else none
    else none
  | spur p =>
    if p.exploring then
      if !p.spur then some (spur { p with spur := true }) else none
    else none
end Entry

namespace Path

/-- `Path::new` -/
def new (maxBranches : Nat) (bound : Option Nat) (exploring : Bool) : Path :=
  { bound, pos := 0, branches := [], cap := maxBranches, exploring, skipping := false,
    exploringOnStart := exploring }

/-- `Path::explore_state` -/
def exploreState (p : Path) : Except Panic Path :=
  if !p.skipping then
    if p.exploring then .error .notCritical else .ok { p with exploring := true }
  else .ok p

/-- `Path::critical` -/
def critical (p : Path) : Except Panic Path :=
  if !p.skipping then
    if !p.exploring then .error .notExploring else .ok { p with exploring := false }
  else .ok p

/-- `Path::skip_branch` -/
def skipBranch (p : Path) : Path := { p with exploring := false, skipping := true }

/-- `Path::is_traversed` -/
def isTraversed (p : Path) : Bool := p.pos == p.branches.length

/-- `assert_path_len!` -/
def assertLen (p : Path) (panicking : Bool) : Except Panic Unit :=
  if p.branches.length < p.cap || panicking then .ok () else .error .branchLimit

/-- pad a list to length `n` with `d` (fixed-size arrays of the code) -/
def padTo {α} (l : List α) (n : Nat) (d : α) : List α := l ++ List.replicate (n - l.length) d

/-- `Path::push_load` -/
def pushLoad (p : Path) (seed : List Nat) (panicking : Bool := false) : Except Panic Path := do
  assertLen p panicking
  if seed.any (fun s => s ≥ NH) || seed.length > NH then .error (.internal 3) else
  .ok { p with branches := p.branches ++
      [.load { values := padTo seed NH 0, pos := 0, len := seed.length, exploring := p.exploring }] }

/-- `Path::branch_load` -/
def branchLoad (p : Path) : Except Panic (Path × Nat) :=
  if p.isTraversed then .error (.internal 4) else
  match p.branches[p.pos]? with
  | some (.load l) => .ok ({ p with pos := p.pos + 1 }, l.values.getD l.pos 0)
  | _ => .error .nondet

/-- `Path::branch_spurious` -/
def branchSpurious (p : Path) (panicking : Bool := false) : Except Panic (Path × Bool) := do
  let p ← if p.isTraversed then do
      assertLen p panicking
      pure { p with branches := p.branches ++ [.spur { spur := false, exploring := p.exploring }] }
    else pure p
  match p.branches[p.pos]? with
  | some (.spur s) => .ok ({ p with pos := p.pos + 1 }, s.spur)
  | _ => .error .nondet

/-- index of the last `Schedule` entry (`Path::last_schedule`) -/
def lastScheduleAux : List Entry → Nat → Option Nat → Option Nat
  | [], _, acc => acc
  | .sched _ :: es, i, _ => lastScheduleAux es (i + 1) (some i)
  | _ :: es, i, acc => lastScheduleAux es (i + 1) acc

def lastSchedule (p : Path) : Option Nat := lastScheduleAux p.branches 0 none

def schedAt (p : Path) (i : Nat) : Option Sched :=
  match p.branches[i]? with
  | some (.sched s) => some s
  | _ => none

/-- `Path::branch_thread`.  `seed` gives the state of every existing thread. -/
def branchThread (p : Path) (seed : List ThSt) (panicking : Bool := false) :
    Except Panic (Path × Option Nat) := do
  let p ← if p.isTraversed then do
      assertLen p panicking
      let prev := p.lastSchedule
      if seed.length > NT then throw (.internal 5)
      if (seed.filter ThSt.isActive).length > 1 then throw (.internal 6)
      let ths := padTo seed NT .disabled
      let active := findIdx? ThSt.isActive ths
      -- no active thread: toggle the first yielded thread
      let (ths, active) := match active with
        | some a => (ths, some a)
        | none =>
          match findIdx? (· == ThSt.yield) ths with
          | some y => (ths.set y .active, some y)
          | none => (ths, none)
      let prevS := prev.bind p.schedAt
      let initialActive := match prevS with
        | some ps => if active != ps.activeIdx then none else active
        | none => active
      let preemptions := match prevS with
        | some ps => ps.preemptionsNow
        | none => 0
      pure { p with branches := p.branches ++
        [.sched { preemptions, initialActive, threads := ths, prev, exploring := p.exploring }] }
    else pure p
  match p.branches[p.pos]? with
  | some (.sched s) => .ok ({ p with pos := p.pos + 1 }, s.activeIdx)
  | _ => .error .nondet

def setSched (p : Path) (i : Nat) (s : Sched) : Path :=
  { p with branches := p.branches.set i (.sched s) }

/-- first loop of `Path::backtrack`: walk down from `point` to the nearest exploring schedule -/
def findExploringSched (p : Path) : Nat → Option (Nat × Sched)
  | 0 => match p.schedAt 0 with
    | some s => if s.exploring then some (0, s) else none
    | none => none
  | n + 1 => match p.schedAt (n + 1) with
    | some s => if s.exploring then some (n + 1, s) else findExploringSched p n
    | none => findExploringSched p n

/-- second loop of `Path::backtrack` (only with a preemption bound); `fuel` bounds the walk
along `prev` links, which strictly decrease. -/
def backtrackConservative (p : Path) (tid : Nat) : Nat → Nat → Except Panic Path
  | 0, _ => .ok p
  | fuel + 1, curr =>
    match p.schedAt curr with
    | none => .error (.internal 7)
    | some cs =>
      match cs.prev with
      | some prev =>
        match p.schedAt prev with
        | none => .error (.internal 7)
        | some ps =>
          if cs.activeIdx != ps.activeIdx && cs.exploring then do
            let cs' ← cs.backtrack tid p.bound
            pure (p.setSched curr cs')
          else backtrackConservative p tid fuel prev
      | none =>
        if cs.exploring then do
          let cs' ← cs.backtrack tid p.bound
          pure (p.setSched curr cs')
        else .ok p

/-- `Path::backtrack` -/
def backtrack (p : Path) (point : Nat) (tid : Nat) : Except Panic Path :=
  if point ≥ p.branches.length then .error (.internal 8) else
  match p.findExploringSched point with
  | none => .ok p
  | some (i, s) => do
    let s' ← s.backtrack tid p.bound
    let p := p.setSched i s'
    match s'.prev with
    | none => .ok p
    | some curr =>
      if p.bound.isSome then backtrackConservative p tid (p.branches.length + 1) curr
      else .ok p

/-- the DFS loop of `Path::step` on the reversed stack (deepest entry first): drop entries until
one can be advanced -/
def stepR : List Entry → Option (List Entry)
  | [] => none
  | e :: rest =>
    match e.advance with
    | some e' => some (e' :: rest)
    | none => stepR rest

/-- `Path::step`: `none` means exploration is finished (`false` in the code). -/
def step (p : Path) : Option Path :=
  (stepR p.branches.reverse).map fun r =>
    { p with pos := 0, exploring := p.exploringOnStart, skipping := false, branches := r.reverse }

end Path
end LoomVerif

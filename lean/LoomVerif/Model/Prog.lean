/-
The DSL of test programs (`Prog`), shared by the Rust harness (which interprets it against the
real loom API) and the Lean twin.  One program per text line; see `Prog.parse`.  Import-free.
-/
import LoomVerif.Model.AtomicApi

namespace LoomVerif

/-- DSL operations.  Object arguments are indices into the per-kind object tables declared in
the configuration; thread arguments are thread indices. -/
inductive Op
  | atom (x : Nat) (op : AOp)
  | fence (o : Ord)
  | cellRead (c : Nat) | cellWrite (c : Nat) (v : Int)
  /-- a read / write section of a cell that stays open across other operations: `let p = cell.get()` … `drop(p)` -/
  | cellReadBegin (c : Nat) | cellReadEnd (c : Nat) | cellWriteBegin (c : Nat) (v : Int) | cellWriteEnd (c : Nat)
  | lock (m : Nat) | tryLock (m : Nat) | unlock (m : Nat)
  | read (l : Nat) | tryRead (l : Nat) | write (l : Nat) | tryWrite (l : Nat)
  | unread (l : Nat) | unwrite (l : Nat)
  | cvWait (v m : Nat) | cvOne (v : Nat) | cvAll (v : Nat)
  | nWait (n : Nat) | nNotify (n : Nat)
  | park | unpark (t : Nat)
  | spawn (t : Nat) | join (t : Nat)
  | yield
  | await (x : Nat) (v : Int) (o : Ord)
  | ifEq (i : Nat) (r : Ret) (n : Nat)
  | send (q : Nat) (v : Int) | recv (q : Nat) | tryRecv (q : Nat) | dropRx (q : Nat)
  | arcNew (h : Nat) | arcClone (h h2 : Nat) | arcDrop (h : Nat) | arcCount (h : Nat)
  | arcGetMut (h : Nat) | arcUnwrap (h : Nat) | arcIntoRaw (h : Nat) | arcFromRaw (h : Nat)
  | arcInc (h : Nat) | arcDec (h : Nat) | arcPtrEq (h h2 : Nat)
  | trackNew (k : Nat) | trackDrop (k : Nat) | alloc (k : Nat) | dealloc (k : Nat)
  | tls (k : Nat) | tlsTry (k : Nat) | lazy (z : Nat)
  | tlsNest (k j : Nat)            -- `K_k.with(|_| K_j.with(|v| v.id))`
  | tlsStat (k : Nat)              -- inits*100 + drops of key `k` in this iteration (harness counters)
  | tlsObs (k : Nat)               -- what the destructor of key `k` observed (`tlsdtor=2`)
  | lazyStat (z : Nat)             -- number of live instances of lazy static `z` (inits − drops, whole process)
  /-- `future::block_on` of scripted future `f`.  mode 0: waker slot, ready iff `x_f == 1` (Acquire);
  1: `AtomicWaker`, same test, the registration is taken back when `block_on` returns; 2: waker slot, ready iff
  `x_f == 2` read Relaxed (two wakers each add 1: what they publish reaches the future only through the wake);
  3: like 1 but the registration stays in the `AtomicWaker` (shared state that outlives the call);
  4: like 3 but `block_on(poll_once(future))`: one poll, returns 0 if the future is still pending;
  5: a `yield_now`-shaped future: its first poll wakes itself by reference through the borrowed waker (no clone
  of the waker exists at that moment) and returns Pending, every later poll is Ready -/
  | blockOn (f : Nat) (mode : Nat)
  | wake (f : Nat) | wakeRef (f : Nat) | dropWaker (f : Nat) | awWake (f : Nat)
  | wakeQ (f : Nat)                -- `wake_by_ref` on the waker in the slot, without touching the flag
  | awTake (f : Nat)               -- `drop(atomic_waker.take_waker())`
  | wClone (f : Nat)               -- keep a clone of the waker registered in the slot (1) if there is one (else 0)
  | wakeH (f : Nat)                -- `wake()` the clone this thread keeps (nothing if it keeps none)
  | stop | explore | skip | panic
deriving DecidableEq, Repr, Inhabited

/-- configuration of `loom::model::Builder` plus the object declarations -/
structure Cfg where
  bound : Option Nat := none
  maxBranches : Nat := 1000
  maxThreads : Nat := 5
  maxPerm : Option Nat := none
  interval : Nat := 20000
  explicit : Bool := false
  ty : ATy := .usize
  nAtomics : Nat := 0
  nCells : Nat := 0
  nMutexes : Nat := 0
  nRwlocks : Nat := 0
  nCondvars : Nat := 0
  nNotifies : Nat := 0
  nChans : Nat := 0
  /-- number of scripted futures (each: flag = atomic `f`, a waker slot, an `AtomicWaker`) -/
  nFutures : Nat := 0
  /-- what a thread-local destructor does: 0 nothing, 1 `x0.store(10+key)`, 2 `try_with` on the other key -/
  tlsDtor : Nat := 0
  /-- `max_duration` was given as zero: the time budget has expired at every checkpoint boundary.  (Other values of
  `max_duration` are time-dependent; the DSL only uses values far beyond any run, which never cut.)  `parseCfg`
  turns it into `maxPerm := some 0`, which cuts at exactly the same places. -/
  durZero : Bool := false
deriving DecidableEq, Repr, Inhabited

structure Prog where
  cfg : Cfg
  threads : List (List Op)
deriving DecidableEq, Repr, Inhabited

/-! ### text format -/

namespace Ord
def render : Ord → String
  | rlx => "rlx" | acq => "acq" | rel => "rel" | ar => "ar" | sc => "sc"
def parse : String → Option Ord
  | "rlx" => some rlx | "acq" => some acq | "rel" => some rel | "ar" => some ar | "sc" => some sc
  | _ => none
end Ord

namespace ATy
def parse : String → Option ATy
  | "u8" => some u8 | "u16" => some u16 | "u32" => some u32 | "u64" => some u64
  | "usize" => some usize | "i8" => some i8 | "i16" => some i16 | "i32" => some i32
  | "i64" => some i64 | "isize" => some isize | "bool" => some bool | "ptr" => some ptr
  | _ => none
end ATy

namespace Ret
def render : Ret → String
  | unit => "-"
  | val v => s!"v:{v}"
  | ok v => s!"ok:{v}"
  | err v => s!"err:{v}"
  | empty => "empty"
  | accessError => "aerr"
def parse (s : String) : Option Ret :=
  match s.splitOn ":" with
  | ["-"] => some unit
  | ["empty"] => some empty
  | ["aerr"] => some accessError
  | ["v", n] => n.toInt?.map val
  | ["ok", n] => n.toInt?.map ok
  | ["err", n] => n.toInt?.map err
  | _ => none
end Ret

def parseFupd (s : String) : Option FupdFn :=
  match s.splitOn ":" with
  | ["none"] => some .none
  | ["add", k] => k.toInt?.map .add
  | ["addiflt", k, lim] => do some (.addIfLt (← k.toInt?) (← lim.toInt?))
  | _ => none

def parseOp (toks : List String) : Option Op :=
  match toks with
  | ["ld", x, o] => do some (.atom (← x.toNat?) (.load (← Ord.parse o)))
  | ["st", x, v, o] => do some (.atom (← x.toNat?) (.store (← v.toInt?) (← Ord.parse o)))
  | ["swap", x, v, o] => do some (.atom (← x.toNat?) (.swap (← v.toInt?) (← Ord.parse o)))
  | ["cas", x, c, n, so, fo] => do
    some (.atom (← x.toNat?) (.cas (← c.toInt?) (← n.toInt?) (← Ord.parse so) (← Ord.parse fo)))
  | ["cswp", x, c, n, o] => do
    some (.atom (← x.toNat?) (.cswp (← c.toInt?) (← n.toInt?) (← Ord.parse o)))
  | ["fadd", x, v, o] => do some (.atom (← x.toNat?) (.fetch (.add (← v.toInt?)) (← Ord.parse o)))
  | ["fsub", x, v, o] => do some (.atom (← x.toNat?) (.fetch (.sub (← v.toInt?)) (← Ord.parse o)))
  | ["fand", x, v, o] => do some (.atom (← x.toNat?) (.fetch (.and (← v.toInt?)) (← Ord.parse o)))
  | ["fnand", x, v, o] => do some (.atom (← x.toNat?) (.fetch (.nand (← v.toInt?)) (← Ord.parse o)))
  | ["for", x, v, o] => do some (.atom (← x.toNat?) (.fetch (.or (← v.toInt?)) (← Ord.parse o)))
  | ["fxor", x, v, o] => do some (.atom (← x.toNat?) (.fetch (.xor (← v.toInt?)) (← Ord.parse o)))
  | ["fmax", x, v, o] => do some (.atom (← x.toNat?) (.fetch (.max (← v.toInt?)) (← Ord.parse o)))
  | ["fmin", x, v, o] => do some (.atom (← x.toNat?) (.fetch (.min (← v.toInt?)) (← Ord.parse o)))
  | ["fupd", x, f, so, fo] => do
    some (.atom (← x.toNat?) (.fupd (← parseFupd f) (← Ord.parse so) (← Ord.parse fo)))
  | ["uld", x] => do some (.atom (← x.toNat?) .unsyncLoad)
  | ["wmut", x, v] => do some (.atom (← x.toNat?) (.withMut (← v.toInt?)))
  | ["fence", o] => do some (.fence (← Ord.parse o))
  | ["crd", c] => do some (.cellRead (← c.toNat?))
  | ["cwr", c, v] => do some (.cellWrite (← c.toNat?) (← v.toInt?))
  | ["crdb", c] => do some (.cellReadBegin (← c.toNat?))
  | ["crde", c] => do some (.cellReadEnd (← c.toNat?))
  | ["cwrb", c, v] => do some (.cellWriteBegin (← c.toNat?) (← v.toInt?))
  | ["cwre", c] => do some (.cellWriteEnd (← c.toNat?))
  | ["lock", m] => do some (.lock (← m.toNat?))
  | ["trylock", m] => do some (.tryLock (← m.toNat?))
  | ["unlock", m] => do some (.unlock (← m.toNat?))
  | ["rd", l] => do some (.read (← l.toNat?))
  | ["tryrd", l] => do some (.tryRead (← l.toNat?))
  | ["wr", l] => do some (.write (← l.toNat?))
  | ["trywr", l] => do some (.tryWrite (← l.toNat?))
  | ["unrd", l] => do some (.unread (← l.toNat?))
  | ["unwr", l] => do some (.unwrite (← l.toNat?))
  | ["cvwait", v, m] => do some (.cvWait (← v.toNat?) (← m.toNat?))
  | ["cvone", v] => do some (.cvOne (← v.toNat?))
  | ["cvall", v] => do some (.cvAll (← v.toNat?))
  | ["nwait", n] => do some (.nWait (← n.toNat?))
  | ["nnotify", n] => do some (.nNotify (← n.toNat?))
  | ["park"] => some .park
  | ["unpark", t] => do some (.unpark (← t.toNat?))
  | ["spawn", t] => do some (.spawn (← t.toNat?))
  -- the spawned closure owns Arc handle `h` until the thread starts: no difference for the model
  | ["spawnown", t, _h] => do some (.spawn (← t.toNat?))
  | ["join", t] => do some (.join (← t.toNat?))
  | ["yield"] => some .yield
  | ["await", x, v, o] => do some (.await (← x.toNat?) (← v.toInt?) (← Ord.parse o))
  | ["ifeq", i, r, n] => do some (.ifEq (← i.toNat?) (← Ret.parse r) (← n.toNat?))
  | ["send", q, v] => do some (.send (← q.toNat?) (← v.toInt?))
  | ["recv", q] => do some (.recv (← q.toNat?))
  | ["tryrecv", q] => do some (.tryRecv (← q.toNat?))
  | ["droprx", q] => do some (.dropRx (← q.toNat?))
  -- dropping the (only) `Sender` of channel `q`: loom's `Sender` has no `Drop` and the channel object is not told, so
  -- for the model nothing happens (an `ifeq` that skips nothing: no scheduling point, no event); the harness really
  -- drops the sender, so that what `try_recv`/`recv` do once every sender is gone is exercised
  | ["droptx", _q] => some (.ifEq 0 .unit 0)
  | ["anew", h] => do some (.arcNew (← h.toNat?))
  | ["aclone", h, h2] => do some (.arcClone (← h.toNat?) (← h2.toNat?))
  | ["adrop", h] => do some (.arcDrop (← h.toNat?))
  | ["acount", h] => do some (.arcCount (← h.toNat?))
  | ["agetmut", h] => do some (.arcGetMut (← h.toNat?))
  | ["aunwrap", h] => do some (.arcUnwrap (← h.toNat?))
  | ["araw", h] => do some (.arcIntoRaw (← h.toNat?))
  | ["afromraw", h] => do some (.arcFromRaw (← h.toNat?))
  | ["ainc", h] => do some (.arcInc (← h.toNat?))
  | ["adec", h] => do some (.arcDec (← h.toNat?))
  | ["apeq", h, h2] => do some (.arcPtrEq (← h.toNat?) (← h2.toNat?))
  | ["tnew", k] => do some (.trackNew (← k.toNat?))
  | ["tdrop", k] => do some (.trackDrop (← k.toNat?))
  | ["alloc", k] => do some (.alloc (← k.toNat?))
  | ["dealloc", k] => do some (.dealloc (← k.toNat?))
  | ["tls", k] => do some (.tls (← k.toNat?))
  | ["tlstry", k] => do some (.tlsTry (← k.toNat?))
  | ["lazy", z] => do some (.lazy (← z.toNat?))
  | ["tlsnest", k, j] => do some (.tlsNest (← k.toNat?) (← j.toNat?))
  | ["tlsstat", k] => do some (.tlsStat (← k.toNat?))
  | ["tlsobs", k] => do some (.tlsObs (← k.toNat?))
  | ["lazystat", z] => do some (.lazyStat (← z.toNat?))
  | ["blockon", f, m] => do some (.blockOn (← f.toNat?) (← m.toNat?))
  | ["wake", f] => do some (.wake (← f.toNat?))
  | ["wakeref", f] => do some (.wakeRef (← f.toNat?))
  | ["dropwaker", f] => do some (.dropWaker (← f.toNat?))
  | ["awwake", f] => do some (.awWake (← f.toNat?))
  | ["wakeq", f] => do some (.wakeQ (← f.toNat?))
  | ["awtake", f] => do some (.awTake (← f.toNat?))
  | ["wclone", f] => do some (.wClone (← f.toNat?))
  | ["wakeh", f] => do some (.wakeH (← f.toNat?))
  | ["stop"] => some .stop
  | ["explore"] => some .explore
  | ["skip"] => some .skip
  | ["panic"] => some .panic
  | _ => none

def words (s : String) : List String := (s.splitOn " ").filter (· ≠ "")

def parseOptNat (s : String) : Option (Option Nat) :=
  if s == "none" then some none else s.toNat?.map some

def parseCfgItem (c : Cfg) (item : String) : Option Cfg :=
  match item.splitOn "=" with
  | ["bound", v] => do some { c with bound := ← parseOptNat v }
  | ["maxbr", v] => do some { c with maxBranches := ← v.toNat? }
  | ["maxth", v] => do some { c with maxThreads := ← v.toNat? }
  | ["perm", v] => do some { c with maxPerm := ← parseOptNat v }
  | ["intv", v] => do some { c with interval := ← v.toNat? }
  | ["dur", v] => do some { c with durZero := c.durZero || (← v.toNat?) == 0 }
  | ["explicit", v] => do some { c with explicit := (← v.toNat?) != 0 }
  | ["ty", v] => do some { c with ty := ← ATy.parse v }
  | ["x", v] => do some { c with nAtomics := ← v.toNat? }
  | ["c", v] => do some { c with nCells := ← v.toNat? }
  | ["m", v] => do some { c with nMutexes := ← v.toNat? }
  | ["l", v] => do some { c with nRwlocks := ← v.toNat? }
  | ["v", v] => do some { c with nCondvars := ← v.toNat? }
  | ["n", v] => do some { c with nNotifies := ← v.toNat? }
  | ["q", v] => do some { c with nChans := ← v.toNat? }
  | ["f", v] => do some { c with nFutures := ← v.toNat? }
  | ["tlsdtor", v] => do some { c with tlsDtor := ← v.toNat? }
  | ["ckpt", _] => some c          -- checkpoint file name: used by the harness only
  | ["unwind", _] => some c        -- what the harness drops while a panic unwinds: not modelled
  | _ => none

def parseCfg (s : String) : Option Cfg :=
  match words s with
  | "cfg" :: items => do
    let c ← items.foldlM parseCfgItem {}
    -- an expired `max_duration` ends the run wherever `max_permutations = 0` would
    some (if c.durZero then { c with maxPerm := some 0 } else c)
  | _ => none

def parseThread (s : String) : Option (List Op) :=
  -- "T<k>: op; op; …"
  match s.splitOn ":" with
  | _ :: rest =>
    let body := ":".intercalate rest
    ((body.splitOn ";").map words).filter (· ≠ []) |>.mapM parseOp
  | _ => none

/-- `cfg k=v … | T0: op; op | T1: …` -/
def Prog.parse (line : String) : Option Prog :=
  match line.splitOn "|" with
  | c :: ths => do
    let cfg ← parseCfg c
    let threads ← ths.mapM parseThread
    some { cfg, threads }
  | _ => none

end LoomVerif

/-
Model of `src/model.rs`: `Builder::check` — the loop over iterations with the permutation limit
and the checkpoint cadence.  Import-free.
-/
import LoomVerif.Model.Interp

namespace LoomVerif

/-- one iteration of the exploration as the twin sees it -/
structure Iteration where
  idx : Nat
  start : Path
  result : IterResult
deriving Repr, Inhabited

/-- how `Builder::check` ends -/
inductive Outcome
  | completed            -- `Path::step` returned `false`: every path explored
  | limit                -- `max_permutations` reached at a checkpoint boundary
  | panicked (p : Panic) -- an iteration panicked; `check` unwinds with it
  | fuel                 -- model-only: iteration fuel exhausted
deriving DecidableEq, Repr, Inhabited

namespace Check

/-- `Execution::new` as called by `Builder::check` -/
def initExec (c : Cfg) : Exec := Exec.new c.maxThreads c.maxBranches c.bound (!c.explicit)

/-- is the run cut off before iteration `i` (`i % checkpoint_interval == 0 && i >= max`)? -/
def limitHit (c : Cfg) (i : Nat) : Bool :=
  i % c.interval == 0 && (match c.maxPerm with | some m => i ≥ m | none => false)

/-- does `Builder::check` store a checkpoint before iteration `i`? -/
def storesCheckpoint (c : Cfg) (i : Nat) : Bool := i % c.interval == 0

/-- the loop of `Builder::check`, from iteration `i` with execution `e` -/
def loop (prog : Prog) : Nat → Nat → Exec → List Iteration × Outcome
  | 0, _, _ => ([], .fuel)
  | fuel + 1, i, e =>
    if limitHit prog.cfg i then ([], .limit) else
    let r := runIter prog e
    let it : Iteration := { idx := i, start := e.path, result := r }
    match r.term with
    | some p => ([it], .panicked p)
    | none =>
      match r.exec.step with
      | none => ([it], .completed)
      | some e' =>
        let (rest, o) := loop prog fuel (i + 1) e'
        (it :: rest, o)

/-- `Builder::check` on a fresh execution -/
def run (prog : Prog) (fuel : Nat := 1000000) : List Iteration × Outcome :=
  loop prog fuel 1 (initExec prog.cfg)

end Check
end LoomVerif

/-
Model of `src/rt/execution.rs`: the execution state, `new_thread`, `schedule` (DPOR race
detection + choice of the next thread) and `step`.  Import-free.
-/
import LoomVerif.Model.Objs

namespace LoomVerif

/-- `lazy_static::StaticValue` (the value itself is a model-level instance id) -/
structure LazyVal where
  sync : Sync := Sync.new
  inst : Nat := 0
  /-- object index of the `UnsafeCell` inside the value (the DSL's lazy values carry one) -/
  cell : Nat := 0
deriving DecidableEq, Repr, Inhabited

/-- `Execution` (ids, tracing and flags dropped; `raw_allocations`/`arc_objs` are kept by the
interpreter because they are keyed by addresses) -/
structure Exec where
  path : Path
  threads : Threads
  objs : Objs := []
  /-- `lazy_statics.statics`: `none` after `Set::drop` (shutdown) -/
  lazyStatics : Option (List (Nat × LazyVal)) := some []
  maxThreads : Nat := 5
deriving Repr, Inhabited

namespace Exec

/-- `Execution::new` -/
def new (maxThreads maxBranches : Nat) (bound : Option Nat) (exploring : Bool) : Exec :=
  { path := Path.new maxBranches bound exploring, threads := Threads.new maxThreads, maxThreads }

/-- `Execution::new_thread` -/
def newThread (e : Exec) : Except Panic (Exec × Nat) := do
  let (ths, id) ← e.threads.newThread
  let aid := ths.activeId
  let act := ths.activeT
  let ths := ths.modify id fun n =>
    { n with causality := (n.causality.join act.causality).inc id
             dporVV := n.dporVV.join act.dporVV }
  let ths := ths.modify aid fun a => { a with causality := a.causality.inc aid }
  pure ({ e with threads := ths }, id)

/-- the DPOR loop at the head of `schedule`: for every thread with a pending operation whose
last dependent access does not happen-before it, add a backtrack point -/
def dporMarks (e : Exec) : Except Panic Path :=
  go e.threads.threads 0 e.path
where
  go : List Thread → Nat → Path → Except Panic Path
    | [], _, p => .ok p
    | th :: rest, i, p =>
      match th.operation with
      | none => go rest (i + 1) p
      | some op =>
        match e.objs.lastDependentAccess op with
        | .error err => .error err
        | .ok none => go rest (i + 1) p
        | .ok (some acc) =>
          if acc.happensBefore th.dporVV then go rest (i + 1) p
          else
            match p.backtrack acc.pathId i with
            | .error err => .error err
            | .ok p' => go rest (i + 1) p'

/-- the thread `schedule` prefers when the active thread cannot continue: the runnable thread with
the smallest `yield_count` (first among equals) -/
def pickInitial (ths : List Thread) : Option Nat :=
  go ths 0 none
where
  go : List Thread → Nat → Option Nat → Option Nat
    | [], _, acc => acc
    | th :: rest, i, acc =>
      if !th.isRunnable then go rest (i + 1) acc
      else match acc with
        | none => go rest (i + 1) (some i)
        | some init =>
          if th.yieldCount < (ths.getD init {}).yieldCount then go rest (i + 1) (some i)
          else go rest (i + 1) (some init)

/-- the seed passed to `branch_thread` -/
def seed (ths : List Thread) (initial : Option Nat) : List ThSt :=
  (go ths 0 initial).1
where
  go : List Thread → Nat → Option Nat → List ThSt × Option Nat
    | [], _, ini => ([], ini)
    | th :: rest, i, ini =>
      let ini := if ini.isNone && th.isRunnable then some i else ini
      let st := if ini == some i then ThSt.active
        else if th.isYield then .yield
        else if !th.isRunnable then .disabled
        else .skip
      let (l, ini') := go rest (i + 1) ini
      (st :: l, ini')

/-- `Execution::schedule`; the result flag is "a switch is required". -/
def schedule (e : Exec) (panicking : Bool := false) : Except Panic (Exec × Bool) := do
  -- `self.threads.active_id()` unwraps
  if !e.threads.isActive then throw (.internal 30)
  let curr := e.threads.activeId
  let path ← e.dporMarks
  let initial := if e.threads.activeT.isRunnable then some curr else pickInitial e.threads.threads
  let pathId := path.pos
  let (path, next) ← path.branchThread (seed e.threads.threads initial) panicking
  let ths := { e.threads with active := next }
  match next with
  | none =>
    if ths.threads.all Thread.isTerminated then pure ({ e with path, threads := ths }, true)
    else throw .deadlock
  | some nid =>
    -- (`self.threads.active()` indexes the thread table: a path entry that names a thread that does not exist
    -- — possible only in a hand-made checkpoint — panics "index out of bounds")
    if nid ≥ ths.threads.length then throw (.internal 31)
    let act := ths.get nid
    let (ths, objs) ← match act.operation with
      | none => pure (ths, e.objs)
      | some op => do
        let acc ← e.objs.lastDependentAccess op
        let d := match acc with | some a => act.dporVV.join a.vv | none => act.dporVV
        let d := d.inc nid
        let objs ← e.objs.setLastAccess op pathId d
        pure (ths.modify nid (fun t => { t with dporVV := d }), objs)
    let ths := { ths with threads := ths.threads.mapIdx fun i th =>
      if th.isYield && i != nid then th.setRunnable else th }
    pure ({ e with path, threads := ths, objs }, curr != nid)

/-- `Execution::step`: everything but the path is reset -/
def step (e : Exec) : Option Exec :=
  e.path.step.map fun p =>
    { path := p, threads := Threads.new e.maxThreads, maxThreads := e.maxThreads }

end Exec
end LoomVerif

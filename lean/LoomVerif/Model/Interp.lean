/-
The twin: an interpreter of DSL programs over the model of loom's runtime.  Each DSL operation is
*defined* as the sequence of `rt` calls the API glue of `/repo/src/{sync,thread.rs,cell,alloc.rs}`
makes, split into *stages* at the branch points (`rt::branch` → `Execution::schedule`).  A step
of the interpreter runs one stage of the active thread, exactly as `Scheduler::run` always resumes
`execution.threads.active_id()`.  Import-free.
-/
import LoomVerif.Model.Exec
import LoomVerif.Model.Prog

namespace LoomVerif

structure Event where
  tid : Nat
  pc : Nat
  ret : Ret
  caus : VV
deriving DecidableEq, Repr, Inhabited

/-- interpreter control state of one loom thread -/
structure TCtl where
  body : Nat := 0                 -- index of the DSL thread body it runs
  pc : Nat := 0
  stage : Nat := 0
  prim : Option Prim := none      -- atomic primitive in flight
  results : List (Nat × Ret) := []
  fin : Nat := 0                  -- stage of the thread epilogue
  guards : List Nat := []         -- (unused by the semantics; bookkeeping of held mutexes)
  /-- thread-locals of this thread: key ↦ `some id` (live) / `none` (destroyed) -/
  locals : List (Nat × Option Nat) := []
  /-- keys whose destructor still has to perform its loom operation (`tlsdtor=1`) -/
  dtorQueue : List Nat := []
  /-- the waker this thread has taken out of an `AtomicWaker` and is about to wake / drop: the index (in
  `World.arcs`) of its `Arc` and the object index of its `rt::Notify` -/
  taken : Nat := 0
  takenNotify : Nat := 0
  /-- waker clones this thread keeps (`wclone`): future ↦ (index of the waker's `Arc`, its `rt::Notify`) -/
  held : List (Nat × Nat × Nat) := []
deriving Repr, Inhabited

/-- state of a scripted future (C20) -/
structure FutSt where
  slotMutex : Nat := 0            -- the loom `Mutex` around its hand-rolled waker slot
  awMutex : Nat := 0              -- the `rt::Mutex` of its `AtomicWaker`
  notify : Nat := 0               -- the `rt::Notify` of the `block_on` in progress
  arc : Nat := 0                  -- index (in `World.arcs`) of the `Arc<rt::Notify>` of that `block_on`
  slot : Bool := false            -- a waker clone sits in the plain slot
  awWaker : Bool := false         -- a waker clone sits in the `AtomicWaker`
  awArc : Nat := 0                -- … which `block_on` it belongs to: its `Arc` (index in `World.arcs`)
  awNotify : Nat := 0             -- … and its `rt::Notify`
deriving Repr, Inhabited

structure HandleSt where
  arc : Nat
  raw : Bool := false
deriving DecidableEq, Repr, Inhabited

structure ArcInfo where
  obj : Nat
  stdCount : Nat := 1
  registered : Bool := true
deriving DecidableEq, Repr, Inhabited

structure World where
  prog : Prog
  exec : Exec
  ctl : List TCtl := [{}]
  /-- DSL thread index ↦ (loom thread id, object index of the `JoinHandle`'s `Notify`) -/
  spawned : List (Nat × Nat × Nat) := []
  notifyWaiting : List Bool := []
  handles : List (Nat × HandleSt) := []
  arcs : List ArcInfo := []
  tracks : List (Nat × Nat) := []
  rawAllocs : List (Nat × Nat) := []
  events : List Event := []
  panicking : Bool := false
  tlsInits : List Nat := [0, 0]
  tlsDrops : List Nat := [0, 0]
  tlsObs : List Nat := [0, 0]
  lazyInits : List Nat := [0, 0]
  futs : List FutSt := []
deriving Repr, Inhabited

namespace World

def cfg (w : World) : Cfg := w.prog.cfg
def atomObj (_w : World) (i : Nat) : Nat := i
def cellObj (w : World) (i : Nat) : Nat := w.cfg.nAtomics + i
def mutexObj (w : World) (i : Nat) : Nat := w.cfg.nAtomics + w.cfg.nCells + i
def rwObj (w : World) (i : Nat) : Nat := w.mutexObj w.cfg.nMutexes + i
def cvObj (w : World) (i : Nat) : Nat := w.rwObj w.cfg.nRwlocks + i
def notifyObj (w : World) (i : Nat) : Nat := w.cvObj w.cfg.nCondvars + i
def chanObj (w : World) (i : Nat) : Nat := w.notifyObj w.cfg.nNotifies + i

def ths (w : World) : Threads := w.exec.threads
def setThs (w : World) (t : Threads) : World := { w with exec := { w.exec with threads := t } }
def setObjs (w : World) (o : Objs) : World := { w with exec := { w.exec with objs := o } }
def setPath (w : World) (p : Path) : World := { w with exec := { w.exec with path := p } }
def pushObj (w : World) (o : Obj) : World × Nat := (w.setObjs (w.exec.objs ++ [o]), w.exec.objs.length)
def tid (w : World) : Nat := w.ths.activeId
def ctlOf (w : World) (t : Nat) : TCtl := w.ctl.getD t {}
def modCtl (w : World) (t : Nat) (f : TCtl → TCtl) : World := { w with ctl := w.ctl.modify t f }
def setStage (w : World) (n : Nat) : World := w.modCtl w.tid fun c => { c with stage := n }

/-- objects created by the main thread before its first operation, in this fixed order -/
def init (prog : Prog) (exec : Exec) : Except Panic World := do
  let c := prog.cfg
  let mut objs : Objs := []
  for _ in List.range c.nAtomics do
    let a ← Atomic.new exec.threads (c.ty.intoU64 0)
    objs := objs ++ [.atomic a]
  for _ in List.range c.nCells do
    objs := objs ++ [.cell { readAccess := exec.threads.caus, writeAccess := exec.threads.caus }]
  for _ in List.range c.nMutexes do objs := objs ++ [.mutex {}]
  for _ in List.range c.nRwlocks do objs := objs ++ [.rwlock {}]
  for _ in List.range c.nCondvars do objs := objs ++ [.condvar {}]
  for _ in List.range c.nNotifies do objs := objs ++ [.notify { spurious := true, seqCst := false }]
  for _ in List.range c.nChans do objs := objs ++ [.chan {}]
  -- one `AtomicWaker` (an `rt::Mutex::new(false)`) per scripted future
  let mut futs : List FutSt := []
  for _ in List.range c.nFutures do
    futs := futs ++ [{ slotMutex := objs.length, awMutex := objs.length + 1 }]
    objs := objs ++ [.mutex { seqCst := true }, .mutex { seqCst := false }]
  pure { prog, exec := { exec with objs }, notifyWaiting := List.replicate c.nNotifies false, futs }

/-! ### helpers mirroring `object.rs` branch functions -/

/-- `set_action` + optional `set_blocked` + `schedule` (`branch_action`, `branch_acquire`,
`branch_disable`, `branch_opaque`) -/
def branch (w : World) (obj : Nat) (act : Action) (block : Bool := false) (wait : Bool := false) :
    Except Panic World := do
  let ths := w.ths.modifyActive fun t =>
    let t := { t with operation := some ⟨obj, act, wait⟩ }
    if block then t.setBlocked else t
  let (e, _) ← ({ w.exec with threads := ths }).schedule w.panicking
  pure { w with exec := e }

/-- record the completion of the current operation of the active thread -/
def complete (w : World) (r : Ret) : World :=
  let t := w.tid
  let c := w.ctlOf t
  { w.modCtl t (fun c => { c with pc := c.pc + 1, stage := 0, prim := none,
                                    results := (c.pc, r) :: c.results }) with
    events := ⟨c.body, c.pc, r, (w.ths.get t).causality⟩ :: w.events }

/-- `rt::synchronize` prologue -/
def sync (w : World) : World := w.setThs w.ths.activeCausalityInc

def getAtomic (w : World) (o : Nat) : Except Panic Atomic :=
  match w.exec.objs[o]? with | some (.atomic a) => .ok a | _ => .error (.internal 50)
def getMutex (w : World) (o : Nat) : Except Panic MutexSt :=
  match w.exec.objs[o]? with | some (.mutex a) => .ok a | _ => .error (.internal 51)
def getRw (w : World) (o : Nat) : Except Panic RwSt :=
  match w.exec.objs[o]? with | some (.rwlock a) => .ok a | _ => .error (.internal 52)
def getCv (w : World) (o : Nat) : Except Panic CondvarSt :=
  match w.exec.objs[o]? with | some (.condvar a) => .ok a | _ => .error (.internal 53)
def getNotify (w : World) (o : Nat) : Except Panic NotifySt :=
  match w.exec.objs[o]? with | some (.notify a) => .ok a | _ => .error (.internal 54)
def getChan (w : World) (o : Nat) : Except Panic ChanSt :=
  match w.exec.objs[o]? with | some (.chan a) => .ok a | _ => .error (.internal 55)
def getArc (w : World) (o : Nat) : Except Panic ArcSt :=
  match w.exec.objs[o]? with | some (.arc a) => .ok a | _ => .error (.internal 56)
def getCell (w : World) (o : Nat) : Except Panic CellSt :=
  match w.exec.objs[o]? with | some (.cell a) => .ok a | _ => .error (.internal 57)
def setObj (w : World) (o : Nat) (v : Obj) : World := w.setObjs (w.exec.objs.set o v)

/-- apply `f` to every thread other than the active one whose pending operation satisfies `p` -/
def forOthers (w : World) (p : Operation → Bool) (f : Thread → Thread) : World :=
  let me := w.tid
  w.setThs { w.ths with threads := w.ths.threads.mapIdx fun i th =>
    if i == me then th else
      match th.operation with
      | some op => if p op then f th else th
      | none => th }

/-! ### atomics -/

/-- start an atomic primitive: branch if it is a branch point -/
def primStart (w : World) (x : Nat) (p : Prim) (next : Nat := 1) : Except Panic World :=
  match p.action with
  | some act => do
    let w := (w.modCtl w.tid fun c => { c with prim := some p }).setStage next
    w.branch (w.atomObj x) act
  | none => .ok ((w.modCtl w.tid fun c => { c with prim := some p }).setStage next)

/-- the part of an atomic primitive after its branch point; returns the primitive's result -/
def primEffect (w : World) (x : Nat) (p : Prim) : Except Panic (World × Ret) := do
  let w := if p.synchronizes then w.sync else w
  let a ← w.getAtomic (w.atomObj x)
  let (w, idx) ← match ← p.candidates a w.ths with
    | some l => do
      let path ← if w.exec.path.isTraversed then w.exec.path.pushLoad l w.panicking
                 else pure w.exec.path
      let (path, idx) ← path.branchLoad
      pure (w.setPath path, idx)
    | none => pure (w, 0)
  let (a, ths, r) ← p.effect w.cfg.ty a w.ths idx
  pure ((w.setObj (w.atomObj x) (.atomic a)).setThs ths, r)

/-- `rt::yield_now` -/
def yieldNow (w : World) : Except Panic World := do
  let t := w.tid
  let ths := w.ths.modifyActive fun th => { th.setYield t with operation := none }
  let (e, _) ← ({ w.exec with threads := ths }).schedule w.panicking
  pure { w with exec := e }

/-- `fence_acq` -/
def fenceAcq (w : World) : World :=
  w.setThs (w.exec.objs.foldl (fun ths o =>
    match o with | .atomic a => a.fenceAcq ths | _ => ths) w.ths)
/-- `fence_rel` -/
def fenceRel (w : World) : World :=
  w.setThs (w.ths.modifyActive fun t => { t with released := t.causality })

/-! ### mutex (`rt/mutex.rs`) -/

/-- `Mutex::post_acquire` -/
def postAcquire (w : World) (o : Nat) : Except Panic (World × Bool) := do
  let m ← w.getMutex o
  if m.lock.isSome then return (w, false)
  let w := w.setObj o (.mutex { m with lock := some w.tid })
  let w := w.setThs (w.ths.syncLoad m.sync .acq)
  pure (w.forOthers (fun op => op.obj == o && op.blocking) Thread.setBlocked, true)

/-- `Mutex::release_lock` -/
def releaseLock (w : World) (o : Nat) : Except Panic World := do
  let m ← w.getMutex o
  let w := w.setObj o (.mutex { m with lock := none })
  if !w.ths.isActive then return w
  let sy := w.ths.syncStore m.sync .rel
  let w := w.setObj o (.mutex { m with lock := none, sync := sy })
  pure (w.forOthers (fun op => op.obj == o) Thread.wake)

/-! ### rwlock (`rt/rwlock.rs`) -/

def insertSorted (x : Nat) : List Nat → List Nat
  | [] => [x]
  | y :: ys => if x < y then x :: y :: ys else if x == y then y :: ys else y :: insertSorted x ys

def postAcquireRead (w : World) (o : Nat) : Except Panic (World × Bool) := do
  let s ← w.getRw o
  let lock ← match s.lock with
    | none => pure (some (RwLocked.read [w.tid]))
    | some (.read rs) => pure (some (RwLocked.read (insertSorted w.tid rs)))
    | some (.write _) => return (w, false)
  let w := w.setObj o (.rwlock { s with lock })
  let w := w.setThs (w.ths.syncLoad s.sync .acq)
  pure (w.forOthers (fun op => op.obj == o && op.action == .rwWrite && op.blocking) Thread.setBlocked, true)

def postAcquireWrite (w : World) (o : Nat) : Except Panic (World × Bool) := do
  let s ← w.getRw o
  if s.lock.isSome then return (w, false)
  let w := w.setObj o (.rwlock { s with lock := some (.write w.tid) })
  let w := w.setThs (w.ths.syncLoad s.sync .acq)
  pure (w.forOthers (fun op => op.obj == o && op.blocking) Thread.setBlocked, true)

def releaseRead (w : World) (o : Nat) : Except Panic World := do
  let s ← w.getRw o
  let sy := w.ths.syncStore s.sync .rel
  match s.lock with
  | some (.read rs) =>
    let rs := rs.filter (· != w.tid)
    if rs.isEmpty then
      let w := w.setObj o (.rwlock { s with sync := sy, lock := none })
      pure (w.forOthers (fun op => op.obj == o) Thread.wake)
    else pure (w.setObj o (.rwlock { s with sync := sy, lock := some (.read rs) }))
  | _ => throw .invalidRw

def releaseWrite (w : World) (o : Nat) : Except Panic World := do
  let s ← w.getRw o
  let sy := w.ths.syncStore s.sync .rel
  let w := w.setObj o (.rwlock { s with sync := sy, lock := none })
  pure (w.forOthers (fun op => op.obj == o) Thread.wake)

/-! ### park, notify -/

/-- `rt::park`; returns `true` if the thread actually parked (a schedule happened) -/
def parkNow (w : World) : Except Panic World := do
  if w.ths.activeT.token then
    -- a stored unpark is consumed instead of parking
    pure (w.setThs (w.ths.modifyActive fun th => ({ th with token := false }).acquireUnpark))
  else
    let ths := w.ths.modifyActive fun th => { th.setParked with operation := none }
    let (e, _) ← ({ w.exec with threads := ths }).schedule w.panicking
    pure { w with exec := e }

/-- `rt::block`: the thread blocks itself until `Set::wake`; the unpark token is not looked at -/
def blockNow (w : World) : Except Panic World := do
  let ths := w.ths.modifyActive fun th => { th.setBlocked with operation := none }
  let (e, _) ← ({ w.exec with threads := ths }).schedule w.panicking
  pure { w with exec := e }

/-- first half of `rt::Notify::wait`: decide spurious / notified and branch.
Returns the stage to continue with: 1 = woken normally, 2 = spurious return. -/
def notifyWait1 (w : World) (o : Nat) : Except Panic (World × Nat) := do
  let s ← w.getNotify o
  let (w, spurious) ← if s.spurious && !s.didSpur then do
      let (p, b) ← w.exec.path.branchSpurious w.panicking
      pure (w.setPath p, b)
    else pure (w, false)
  let s := if spurious then { s with didSpur := true } else s
  let w := w.setObj o (.notify s)
  if spurious then
    let w ← w.yieldNow
    pure (w, 2)
  else
    let w ← w.branch o .opaque (block := !s.notified) (wait := !s.notified)
    pure (w, 1)

/-- second half of `rt::Notify::wait` -/
def notifyWait2 (w : World) (o : Nat) : Except Panic World := do
  let s ← w.getNotify o
  if !s.notified then throw .notNotified
  let w := w.setThs (w.ths.syncLoad s.sync .acq)
  pure (w.setObj o (.notify { s with notified := false }))

/-- effect of `rt::Notify::notify` after its branch point -/
def notifyEffect (w : World) (o : Nat) : Except Panic World := do
  let s ← w.getNotify o
  let sy := w.ths.syncStore s.sync .rel
  let w := w.setObj o (.notify { s with sync := sy, notified := true })
  -- the waiter is woken (this is not `Thread::unpark`: a thread that is not blocked gets no `park` token; and
  -- nothing is acquired here: the waiter synchronises with the notifiers when it returns from `wait`, a thread
  -- whose pending operation is its own `notify` on this object acquires nothing — repair of finding F26)
  pure (w.forOthers (fun op => op.obj == o) Thread.wake)

/-! ### channel -/

def sendEffect (w : World) (o : Nat) (v : Int) : Except Panic World := do
  let s ← w.getChan o
  let sy := w.ths.syncStore s.senderSync .rel
  let s := { s with msgCnt := s.msgCnt + 1, senderSync := sy,
                    receiverSync := s.receiverSync ++ [sy], queue := s.queue ++ [v] }
  let w := w.setObj o (.chan s)
  if s.msgCnt == 1 then pure (w.forOthers (fun op => op.obj == o) Thread.wake)
  else pure w

def recvEffect (w : World) (o : Nat) : Except Panic (World × Int) := do
  let s ← w.getChan o
  if s.msgCnt == 0 then throw .msgUnderflow
  match s.receiverSync, s.queue with
  | sy :: rest, v :: q =>
    let s := { s with msgCnt := s.msgCnt - 1, receiverSync := rest, queue := q }
    let w := w.setObj o (.chan s)
    let w := w.setThs (w.ths.syncLoad sy .acq)
    let w := if s.msgCnt == 0 then
        w.forOthers (fun op => op.obj == o && op.action == .chanRecv) Thread.setBlocked
      else w
    pure (w, v)
  | _, _ => throw (.internal 60)

/-! ### arc -/

def handle (w : World) (h : Nat) : Except Panic HandleSt :=
  match w.handles.lookup h with | some x => .ok x | none => .error (.internal 70)
def setHandle (w : World) (h : Nat) (x : Option HandleSt) : World :=
  let hs := w.handles.filter (·.1 != h)
  { w with handles := match x with | some x => (h, x) :: hs | none => hs }
def arcInfo (w : World) (a : Nat) : ArcInfo := w.arcs.getD a { obj := 0 }
def modArc (w : World) (a : Nat) (f : ArcInfo → ArcInfo) : World := { w with arcs := w.arcs.modify a f }

/-- effect of `rt::Arc::ref_dec`; returns whether the count reached zero -/
def refDecEffect (w : World) (o : Nat) : Except Panic (World × Bool) := do
  let s ← w.getArc o
  if s.refCnt < 1 then throw .arcReleased
  let sy := w.ths.syncStore s.sync .rel
  let s := { s with refCnt := s.refCnt - 1, sync := sy }
  let w := w.setObj o (.arc s)
  if s.refCnt == 0 then pure (w.setThs (w.ths.syncLoad s.sync .acq), true)
  else pure (w, false)

/-- `Drop for Arc` after `ref_dec` returned `last` -/
def afterDec (w : World) (a : Nat) (last : Bool) : Except Panic World := do
  let info := w.arcInfo a
  if last then
    if info.stdCount != 1 then throw (.internal 71)
    if !info.registered then throw (.internal 72)
    pure (w.modArc a fun i => { i with stdCount := 0, registered := false })
  else pure (w.modArc a fun i => { i with stdCount := i.stdCount - 1 })

/-! ### the step function -/

def threadOf (w : World) (body : Nat) : Except Panic Nat :=
  if body == 0 then .ok 0 else
  match w.spawned.find? (·.1 == body) with
  | some (_, tid, _) => .ok tid
  | none => .error (.internal 80)

def lookupSpawn (w : World) (body : Nat) : Except Panic (Nat × Nat) :=
  match w.spawned.find? (·.1 == body) with
  | some (_, tid, n) => .ok (tid, n)
  | none => .error (.internal 80)

def boolRet (b : Bool) : Ret := .val (if b then 1 else 0)

/-! ### thread-locals and lazy statics (`src/thread.rs` `LocalKey`, `src/lazy_static.rs`) -/

/-- `LocalKey::try_with` on the active thread: the value's id (initialising it on first access),
or `none` when it has been destroyed -/
def tlsGet (w : World) (k : Nat) : World × Option Nat :=
  let t := w.tid
  match (w.ctlOf t).locals.lookup k with
  | some (some id) => (w, some id)
  | some none => (w, none)
  | none =>
    -- the harness' instance id names the owning thread (first initialisation by this thread: t*10 + 1)
    let id := t * 10 + 1
    let w := { w with tlsInits := w.tlsInits.set k (w.tlsInits.getD k 0 + 1) }
    (w.modCtl t fun c => { c with locals := (k, some id) :: c.locals }, some id)

/-- `try_get` on a registered static followed by a read of the cell inside the value; returns
`id*100 + content` -/
def lazyRead (w : World) (sv : LazyVal) : Except Panic (World × Int) := do
  -- `try_get`: `sync_load(Acquire)`
  let w := w.setThs (w.ths.syncLoad sv.sync .acq)
  -- `cell.with(|p| *p)`
  let w := w.sync
  let cs ← w.getCell sv.cell
  if cs.isWriting then throw .cellBusy
  if (w.ths.caus.ahead cs.writeAccess).isSome then throw (.causality 9)
  let w := w.setObj sv.cell (.cell { cs with readAccess := cs.readAccess.join w.ths.caus })
  pure (w, (sv.inst : Int) * 100 + cs.value)

/-- the registered statics (`Set::get_static` panics after `Set::drop`) -/
def lazyStatics (w : World) : Except Panic (List (Nat × LazyVal)) :=
  match w.exec.lazyStatics with
  | none => throw .lazyShutdown
  | some l => pure l

/-- the part of `Lazy::get` after the initialiser's scheduling point: the rest of the initialiser (a fresh
`UnsafeCell` written once), the second `try_get` (another thread may have registered a value meanwhile:
ours is dropped), else `init_static` + `sync_store(AcqRel)`; then `try_get` and the read of the cell.
`id` is the instance id the initialiser drew when it started. -/
def lazyInitFinish (w : World) (z id : Nat) : Except Panic (World × Int) := do
  let (w, co) := w.pushObj (.cell { readAccess := w.ths.caus, writeAccess := w.ths.caus })
  let w := w.sync
  let cs ← w.getCell co
  if (w.ths.caus.ahead cs.writeAccess).isSome then throw (.causality 10)
  if (w.ths.caus.ahead cs.readAccess).isSome then throw (.causality 11)
  let w := w.setObj co (.cell { cs with writeAccess := cs.writeAccess.join w.ths.caus, value := 40 + z })
  let statics ← w.lazyStatics
  match statics.lookup z with
  | some sv => w.lazyRead sv
  | none =>
    -- `init_static` + `sync_store(AcqRel)`
    let sv : LazyVal := { sync := w.ths.syncStore Sync.new .ar, inst := id, cell := co }
    let w := { w with exec := { w.exec with lazyStatics := some ((z, sv) :: statics) } }
    w.lazyRead sv

/-- `Lazy::get` + read of the cell, as a staged operation.  Stage 0: `try_get`; when the static is not
registered the initialiser starts: it draws its instance id (`lazyInits[z] + 1`) and reaches its scheduling
point (`x0.fetch_add(1, Relaxed)`: it counts the runs of the initialiser; absent when the program declares no
atomic).  The stage
number after the branch IS the instance id (≥ 1). -/
def lazyStage (w : World) (c : TCtl) (z : Nat) : Except Panic World := do
  match c.stage with
  | 0 =>
    let statics ← w.lazyStatics
    match statics.lookup z with
    | some sv =>
      let (w, v) ← w.lazyRead sv
      pure (w.complete (.val v))
    | none =>
      let id := w.lazyInits.getD z 0 + 1
      let w := { w with lazyInits := w.lazyInits.set z id }
      if w.cfg.nAtomics == 0 then do
        let (w, v) ← w.lazyInitFinish z id
        pure (w.complete (.val v))
      else w.primStart 0 (.rmw (.add 1) .rlx .rlx) (next := id)
  | id =>
    let (w, _) ← w.primEffect 0 (.rmw (.add 1) .rlx .rlx)
    let (w, v) ← w.lazyInitFinish z id
    pure (w.complete (.val v))

/-- `fence(SeqCst)` (not a branch point) -/
def fenceSC (w : World) : World :=
  let w := w.sync.fenceAcq.fenceRel
  w.setThs w.ths.seqCstFence

/-! ### scripted futures: `future::block_on`, `AtomicWaker` (`src/future/*.rs`) -/

def modFut (w : World) (f : Nat) (g : FutSt → FutSt) : World := { w with futs := w.futs.modify f g }

/-- effect of `ref_inc` on the waker's `Arc` (a waker clone) -/
def wakerClone (w : World) (a : Nat) : Except Panic World := do
  let o := (w.arcInfo a).obj
  let s ← w.getArc o
  let w := w.setObj o (.arc { s with refCnt := s.refCnt + 1 })
  pure (w.modArc a fun i => { i with stdCount := i.stdCount + 1 })

/-- effect of dropping a waker clone (`drop_arc_raw` → `Arc::drop`) -/
def wakerDrop (w : World) (a : Nat) : Except Panic World := do
  let (w, last) ← w.refDecEffect (w.arcInfo a).obj
  w.afterDec a last

/-- the scripted future's readiness test: the flag load's ordering and the value that means "ready" -/
def pollPrim (mode : Nat) : Prim := .load (if mode == 2 then .rlx else .acq)
def pollTarget (mode : Nat) : Ret := .val (if mode == 2 then 2 else 1)
/-- does the future register its waker in the mutex-protected slot (else: in the `AtomicWaker`)? -/
def slotMode (mode : Nat) : Bool := mode == 0 || mode == 2

/-- the stages of `block_on(Scripted{f, mode})` followed by dropping what the future still owns -/
def blockOnStage (w : World) (c : TCtl) (f mode : Nat) : Except Panic World := do
  let fs := w.futs.getD f {}
  let ao := (w.arcInfo fs.arc).obj
  match c.stage with
  | 0 =>
    -- `Arc::new(rt::Notify::new(false, true))`
    let (w, n) := w.pushObj (.notify { seqCst := false, spurious := true })
    let (w, o) := w.pushObj (.arc {})
    let a := w.arcs.length
    let w := { w with arcs := w.arcs ++ [({ obj := o } : ArcInfo)] }
    pure ((w.modFut f fun s => { s with notify := n, arc := a }).setStage (if mode == 5 then 50 else 10))
  -- mode 5: first poll = `cx.waker().wake_by_ref()` (`notify.notify()`: branch point, then its effect), Pending;
  -- `notify.wait()`; the second poll is Ready
  | 50 => (w.setStage 51).branch fs.notify .opaque
  | 51 => do
    let w ← w.notifyEffect fs.notify
    let t := w.tid
    let (w, st) ← w.notifyWait1 fs.notify
    pure (w.modCtl t fun c => { c with stage := if st == 1 then 53 else 52 })
  | 53 => do
    let w ← w.notifyWait2 fs.notify
    pure (w.setStage 52)
  | 52 => (w.setStage 40).branch ao .arcDec
  | 10 => w.primStart f (pollPrim mode) 11
  | 11 => do
    -- first flag check of `poll`
    let (w, r) ← w.primEffect f (pollPrim mode)
    if r == pollTarget mode then (w.setStage 40).branch ao .arcDec
    else (w.setStage (if slotMode mode then 12 else 20)).branch ao .arcInc
  | 12 => do
    -- slot modes: `let mut g = slot.lock(); *g = Some(waker); drop(g)`
    let w ← w.wakerClone fs.arc
    let m ← w.getMutex fs.slotMutex
    (w.setStage 30).branch fs.slotMutex .opaque (block := m.lock.isSome) (wait := true)
  | 30 => do
    let (w, okk) ← w.postAcquire fs.slotMutex
    if !okk then throw .expectedLock
    let had := (w.futs.getD f {}).slot
    let w := w.modFut f fun s => { s with slot := true }
    if had then (w.setStage 13).branch ao .arcDec
    else do
      let w ← w.releaseLock fs.slotMutex
      pure (w.setStage 14)
  | 13 => do
    let w ← w.wakerDrop fs.arc
    let w ← w.releaseLock fs.slotMutex
    pure (w.setStage 14)
  | 14 => w.primStart f (pollPrim mode) 15
  | 15 => do
    let (w, r) ← w.primEffect f (pollPrim mode)
    if r == pollTarget mode then (w.setStage 40).branch ao .arcDec
    else if mode == 4 then
      -- `block_on(poll_once(future))`: the future is polled once; `block_on` returns although it is pending
      (w.setStage 41).branch ao .arcDec
    else
      let t := w.tid
      let (w, st) ← w.notifyWait1 fs.notify
      pure (w.modCtl t fun c => { c with stage := if st == 1 then 16 else 10 })
  | 16 => do
    let w ← w.notifyWait2 fs.notify
    pure (w.setStage 10)
  | 20 => do
    let w ← w.wakerClone fs.arc
    (w.setStage 21).branch fs.awMutex .opaque
  | 21 => do
    let (w, okk) ← w.postAcquire fs.awMutex
    if !okk then (w.setStage 22).branch fs.notify .opaque
    else
      let had := fs.awWaker
      let w := w.modFut f fun s => { s with awWaker := true, awArc := fs.arc, awNotify := fs.notify }
      if had then
        -- the waker that was registered (possibly of an earlier `block_on`) is dropped
        let w := w.modCtl w.tid fun c => { c with taken := fs.awArc }
        (w.setStage 25).branch (w.arcInfo fs.awArc).obj .arcDec
      else do
        let w ← w.releaseLock fs.awMutex
        pure (w.setStage 14)
  | 22 => do
    let w ← w.notifyEffect fs.notify
    (w.setStage 23).branch ao .arcDec
  | 23 => do
    let w ← w.wakerDrop fs.arc
    (w.setStage 14).yieldNow
  | 25 => do
    let w ← w.wakerDrop c.taken
    let w ← w.releaseLock fs.awMutex
    pure (w.setStage 14)
  | 40 => do
    -- `block_on` returns: its own `Arc` handle is dropped
    let w ← w.wakerDrop fs.arc
    if slotMode mode then
      let m ← w.getMutex fs.slotMutex
      (w.setStage 45).branch fs.slotMutex .opaque (block := m.lock.isSome) (wait := true)
    else if mode == 3 || mode == 4 || mode == 5 then pure (w.complete (.val 7))
    else
      let m ← w.getMutex fs.awMutex
      (w.setStage 44).branch fs.awMutex .opaque (block := m.lock.isSome) (wait := true)
  | 41 => do
    let w ← w.wakerDrop fs.arc
    pure (w.complete (.val 0))
  | 45 => do
    let (w, okk) ← w.postAcquire fs.slotMutex
    if !okk then throw .expectedLock
    let had := (w.futs.getD f {}).slot
    let w := w.modFut f fun s => { s with slot := false }
    let w ← w.releaseLock fs.slotMutex
    if had then (w.setStage 43).branch ao .arcDec else pure (w.complete (.val 7))
  | 43 => do
    let w ← w.wakerDrop fs.arc
    pure (w.complete (.val 7))
  | 44 => do
    let (w, okk) ← w.postAcquire fs.awMutex
    if !okk then throw .expectedLock
    let had := (w.futs.getD f {}).awWaker
    let w := w.modFut f fun s => { s with awWaker := false }
    let w ← w.releaseLock fs.awMutex
    if had then
      let w := w.modCtl w.tid fun c => { c with taken := fs.awArc }
      (w.setStage 46).branch (w.arcInfo fs.awArc).obj .arcDec
    else pure (w.complete (.val 7))
  | 46 => do
    let w ← w.wakerDrop c.taken
    pure (w.complete (.val 7))
  | _ => throw (.internal 90)

/-- `AtomicWaker::take_waker` followed by `f` on the waker taken (stages `base`, `base+1`, …): lock, take, unlock.
Returns to the caller through `found` (a waker was registered: its `Arc` index and `Notify`) or `none`. -/
def awTakeStage (w : World) (c : TCtl) (f : Nat) : Except Panic World := do
  let fs := w.futs.getD f {}
  match c.stage with
  | 0 => do
    let m ← w.getMutex fs.awMutex
    (w.setStage 1).branch fs.awMutex .opaque (block := m.lock.isSome) (wait := true)
  | 1 => do
    let (w, okk) ← w.postAcquire fs.awMutex
    if !okk then throw .expectedLock
    let had := (w.futs.getD f {}).awWaker
    let w := w.modFut f fun s => { s with awWaker := false }
    let w ← w.releaseLock fs.awMutex
    if had then
      let w := w.modCtl w.tid fun c => { c with taken := fs.awArc }
      (w.setStage 2).branch (w.arcInfo fs.awArc).obj .arcDec
    else pure (w.complete .unit)
  | _ => do
    let w ← w.wakerDrop c.taken
    pure (w.complete .unit)

/-- `wake f`: `flag.store(1, Release); let w = slot.lock().take(); w.wake()`;
`wakeref f`: `flag.store(1, Release); let g = slot.lock(); g.as_ref().wake_by_ref(); drop(g)` -/
def wakeStage (w : World) (c : TCtl) (f : Nat) (byValue : Bool) (store : Bool := true) : Except Panic World := do
  let fs := w.futs.getD f {}
  match c.stage with
  | 0 =>
    if store then w.primStart f (.store 1 .rel)
    else do
      -- `wakeq`: no flag store
      let m ← w.getMutex fs.slotMutex
      (w.setStage 2).branch fs.slotMutex .opaque (block := m.lock.isSome) (wait := true)
  | 1 => do
    let (w, _) ← w.primEffect f (.store 1 .rel)
    let m ← w.getMutex fs.slotMutex
    (w.setStage 2).branch fs.slotMutex .opaque (block := m.lock.isSome) (wait := true)
  | 2 => do
    let (w, okk) ← w.postAcquire fs.slotMutex
    if !okk then throw .expectedLock
    let had := (w.futs.getD f {}).slot
    -- (a registered waker belongs to the `block_on` in progress: the slot is emptied when it returns)
    let w := w.modCtl w.tid fun c => { c with taken := fs.arc, takenNotify := fs.notify }
    if byValue then
      let w := w.modFut f fun s => { s with slot := false }
      let w ← w.releaseLock fs.slotMutex
      if had then (w.setStage 3).branch fs.notify .opaque else pure (w.complete .unit)
    else
      if had then (w.setStage 5).branch fs.notify .opaque
      else do
        let w ← w.releaseLock fs.slotMutex
        pure (w.complete .unit)
  | 3 => do
    let w ← w.notifyEffect c.takenNotify
    (w.setStage 4).branch (w.arcInfo c.taken).obj .arcDec
  | 4 => do
    let w ← w.wakerDrop c.taken
    pure (w.complete .unit)
  | _ => do
    -- by reference: notify while the guard is held, then unlock
    let w ← w.notifyEffect c.takenNotify
    let w ← w.releaseLock fs.slotMutex
    pure (w.complete .unit)

/-- one stage of operation `op` of the active thread -/
def runOp (w : World) (c : TCtl) (op : Op) : Except Panic World := do
  match op with
  | .atom x aop =>
    if c.stage == 0 then w.primStart x aop.first
    else
      let p ← match c.prim with | some p => pure p | none => throw (.internal 81)
      let (w, r) ← w.primEffect x p
      match aop.next w.cfg.ty r with
      | .inl ret => pure (w.complete ret)
      | .inr p' => w.primStart x p'
  | .fence o =>
    let w := w.sync
    match o with
    | .acq => pure (w.fenceAcq.complete .unit)
    | .rel => pure (w.fenceRel.complete .unit)
    | .ar => pure (w.fenceAcq.fenceRel.complete .unit)
    | .sc => let w := w.fenceAcq.fenceRel; pure ((w.setThs w.ths.seqCstFence).complete .unit)
    | .rlx => throw (.internal 82)
  | .cellRead ci =>
    let o := w.cellObj ci
    let w := w.sync
    let s ← w.getCell o
    if s.isWriting then throw .cellBusy
    if (w.ths.caus.ahead s.writeAccess).isSome then throw (.causality 9)
    -- `track_read` at `start_read` and again when the `Reading` guard drops
    let s := { s with readAccess := s.readAccess.join w.ths.caus }
    pure ((w.setObj o (.cell s)).complete (.val s.value))
  | .cellWrite ci v =>
    let o := w.cellObj ci
    let w := w.sync
    let s ← w.getCell o
    if s.isReading != 0 || s.isWriting then throw .cellBusy
    if (w.ths.caus.ahead s.writeAccess).isSome then throw (.causality 10)
    if (w.ths.caus.ahead s.readAccess).isSome then throw (.causality 11)
    let s := { s with writeAccess := s.writeAccess.join w.ths.caus, value := v }
    pure ((w.setObj o (.cell s)).complete .unit)
  | .cellReadBegin ci =>
    -- `Cell::start_read` (inside `rt::synchronize`)
    let o := w.cellObj ci
    let w := w.sync
    let s ← w.getCell o
    if s.isWriting then throw .cellBusy
    if (w.ths.caus.ahead s.writeAccess).isSome then throw (.causality 9)
    let s := { s with isReading := s.isReading + 1, readAccess := s.readAccess.join w.ths.caus }
    pure ((w.setObj o (.cell s)).complete (.val s.value))
  | .cellReadEnd ci =>
    -- `Reading::drop` (no causality increment)
    let o := w.cellObj ci
    let s ← w.getCell o
    if s.isReading == 0 || s.isWriting then throw (.internal 86)
    if (w.ths.caus.ahead s.writeAccess).isSome then throw (.causality 9)
    let s := { s with isReading := s.isReading - 1, readAccess := s.readAccess.join w.ths.caus }
    pure ((w.setObj o (.cell s)).complete .unit)
  | .cellWriteBegin ci v =>
    -- `Cell::start_write`
    let o := w.cellObj ci
    let w := w.sync
    let s ← w.getCell o
    if s.isReading != 0 || s.isWriting then throw .cellBusy
    if (w.ths.caus.ahead s.writeAccess).isSome then throw (.causality 10)
    if (w.ths.caus.ahead s.readAccess).isSome then throw (.causality 11)
    let s := { s with isWriting := true, writeAccess := s.writeAccess.join w.ths.caus, value := v }
    pure ((w.setObj o (.cell s)).complete .unit)
  | .cellWriteEnd ci =>
    -- `Writing::drop`
    let o := w.cellObj ci
    let s ← w.getCell o
    if !s.isWriting || s.isReading != 0 then throw (.internal 87)
    if (w.ths.caus.ahead s.writeAccess).isSome then throw (.causality 10)
    if (w.ths.caus.ahead s.readAccess).isSome then throw (.causality 11)
    let s := { s with isWriting := false, writeAccess := s.writeAccess.join w.ths.caus }
    pure ((w.setObj o (.cell s)).complete .unit)
  | .lock mi =>
    let o := w.mutexObj mi
    if c.stage == 0 then
      let m ← w.getMutex o
      (w.setStage 1).branch o .opaque (block := m.lock.isSome) (wait := true)
    else
      let (w, okk) ← w.postAcquire o
      if !okk then throw .expectedLock
      pure (w.complete .unit)
  | .tryLock mi =>
    let o := w.mutexObj mi
    if c.stage == 0 then (w.setStage 1).branch o .opaque
    else
      let (w, okk) ← w.postAcquire o
      pure (w.complete (boolRet okk))
  | .unlock mi => do
    let w ← w.releaseLock (w.mutexObj mi)
    pure (w.complete .unit)
  | .read li =>
    let o := w.rwObj li
    if c.stage == 0 then
      let s ← w.getRw o
      let wl := match s.lock with | some (.write _) => true | _ => false
      (w.setStage 1).branch o .rwRead (block := wl) (wait := true)
    else
      let (w, okk) ← w.postAcquireRead o
      if !okk then throw .expectedRead
      pure (w.complete .unit)
  | .write li =>
    let o := w.rwObj li
    if c.stage == 0 then
      let s ← w.getRw o
      (w.setStage 1).branch o .rwWrite (block := s.lock.isSome) (wait := true)
    else
      let (w, okk) ← w.postAcquireWrite o
      if !okk then throw .expectedWrite
      pure (w.complete .unit)
  | .tryRead li =>
    let o := w.rwObj li
    if c.stage == 0 then (w.setStage 1).branch o .rwRead
    else
      let (w, okk) ← w.postAcquireRead o
      pure (w.complete (boolRet okk))
  | .tryWrite li =>
    let o := w.rwObj li
    if c.stage == 0 then (w.setStage 1).branch o .rwWrite
    else
      let (w, okk) ← w.postAcquireWrite o
      pure (w.complete (boolRet okk))
  | .unread li => do
    let w ← w.releaseRead (w.rwObj li)
    pure (w.complete .unit)
  | .unwrite li => do
    let w ← w.releaseWrite (w.rwObj li)
    pure (w.complete .unit)
  | .cvWait vi mi =>
    let o := w.cvObj vi
    let mo := w.mutexObj mi
    match c.stage with
    | 0 => (w.setStage 1).branch o .opaque
    | 1 =>
      let s ← w.getCv o
      let w := w.setObj o (.condvar { s with waiters := s.waiters ++ [w.tid] })
      let w ← w.releaseLock mo
      -- (not through `park`: a stored unpark is not a notification — repair of finding F15)
      (w.setStage 2).blockNow
    | 2 =>
      let m ← w.getMutex mo
      (w.setStage 3).branch mo .opaque (block := m.lock.isSome) (wait := true)
    | _ =>
      let (w, okk) ← w.postAcquire mo
      if !okk then throw .expectedLock
      pure (w.complete .unit)
  | .cvOne vi =>
    let o := w.cvObj vi
    if c.stage == 0 then (w.setStage 1).branch o .opaque
    else
      let s ← w.getCv o
      match s.waiters with
      | [] => pure (w.complete .unit)
      | t :: rest =>
        let w := w.setObj o (.condvar { s with waiters := rest })
        pure ((w.setThs (w.ths.wake t)).complete .unit)
  | .cvAll vi =>
    let o := w.cvObj vi
    if c.stage == 0 then (w.setStage 1).branch o .opaque
    else
      let s ← w.getCv o
      let w := w.setObj o (.condvar { s with waiters := [] })
      pure ((w.setThs (s.waiters.foldl (fun ths t => ths.wake t) w.ths)).complete .unit)
  | .nWait ni =>
    let o := w.notifyObj ni
    match c.stage with
    | 0 =>
      if w.notifyWaiting.getD ni false then throw .notifyTwoWaiters
      let w := { w with notifyWaiting := w.notifyWaiting.set ni true }
      -- the stage must be recorded before the branch inside `notifyWait1` switches threads
      let t := w.tid
      let (w, st) ← w.notifyWait1 o
      pure (w.modCtl t fun c => { c with stage := st })
    | 1 =>
      let w ← w.notifyWait2 o
      pure ({ w with notifyWaiting := w.notifyWaiting.set ni false }.complete .unit)
    | _ => pure ({ w with notifyWaiting := w.notifyWaiting.set ni false }.complete .unit)
  | .nNotify ni =>
    let o := w.notifyObj ni
    if c.stage == 0 then (w.setStage 1).branch o .opaque
    else
      let w ← w.notifyEffect o
      pure (w.complete .unit)
  | .park =>
    if c.stage == 0 then (w.setStage 1).parkNow else pure (w.complete .unit)
  | .unpark b => do
    let t ← w.threadOf b
    pure ((w.setThs (w.ths.unpark t)).complete .unit)
  | .spawn b =>
    -- `spawn_internal`: `rt::Notify::new(true, false)` first, then `rt::spawn` → `new_thread`
    let (w, n) := w.pushObj (.notify { seqCst := true, spurious := false })
    let (e, id) ← w.exec.newThread
    let w := { w with exec := e, ctl := w.ctl ++ [({ body := b } : TCtl)],
                      spawned := (b, id, n) :: w.spawned }
    pure (w.complete .unit)
  | .join b =>
    let (_, n) ← w.lookupSpawn b
    match c.stage with
    | 0 =>
      let t := w.tid
      let (w, st) ← w.notifyWait1 n
      pure (w.modCtl t fun c => { c with stage := st })
    | 1 => do
      let w ← w.notifyWait2 n
      pure (w.complete .unit)
    | _ => pure (w.complete .unit)
  | .yield =>
    if c.stage == 0 then (w.setStage 1).yieldNow else pure (w.complete .unit)
  | .await x v o =>
    match c.stage with
    | 0 => w.primStart x (.load o)
    | 1 =>
      let (w, r) ← w.primEffect x (.load o)
      if r == .val v then pure (w.complete r) else (w.setStage 2).yieldNow
    | _ => w.primStart x (.load o)
  | .ifEq i r n =>
    let t := w.tid
    if c.results.lookup (c.pc - i) == some r then pure (w.modCtl t fun c => { c with pc := c.pc + 1 })
    else pure (w.modCtl t fun c => { c with pc := c.pc + 1 + n })
  | .send qi v =>
    let o := w.chanObj qi
    if c.stage == 0 then (w.setStage 1).branch o .chanSend
    else
      let w ← w.sendEffect o v
      pure (w.complete .unit)
  | .recv qi =>
    let o := w.chanObj qi
    if c.stage == 0 then
      let s ← w.getChan o
      (w.setStage 1).branch o .chanRecv (block := s.msgCnt == 0) (wait := true)
    else
      let (w, v) ← w.recvEffect o
      pure (w.complete (.val v))
  | .tryRecv qi =>
    let o := w.chanObj qi
    if c.stage == 0 then
      let s ← w.getChan o
      if s.msgCnt == 0 then pure (w.complete .empty)
      else (w.setStage 1).branch o .chanRecv
    else
      let (w, v) ← w.recvEffect o
      pure (w.complete (.val v))
  | .dropRx qi =>
    let o := w.chanObj qi
    if c.stage == 0 then
      let s ← w.getChan o
      if s.msgCnt == 0 then pure (w.complete .unit)
      else (w.setStage 1).branch o .chanRecv
    else
      let (w, _) ← w.recvEffect o
      pure (w.setStage 0)
  | .arcNew h =>
    let (w, o) := w.pushObj (.arc {})
    let a := w.arcs.length
    let w := { w with arcs := w.arcs ++ [({ obj := o } : ArcInfo)] }
    pure ((w.setHandle h (some { arc := a })).complete .unit)
  | .arcClone h h2 =>
    let hs ← w.handle h
    let o := (w.arcInfo hs.arc).obj
    if c.stage == 0 then (w.setStage 1).branch o .arcInc
    else
      let s ← w.getArc o
      let w := w.setObj o (.arc { s with refCnt := s.refCnt + 1 })
      let w := w.modArc hs.arc fun i => { i with stdCount := i.stdCount + 1 }
      pure ((w.setHandle h2 (some { arc := hs.arc })).complete .unit)
  | .arcDrop h =>
    let hs ← w.handle h
    let o := (w.arcInfo hs.arc).obj
    if c.stage == 0 then (w.setStage 1).branch o .arcDec
    else
      let (w, last) ← w.refDecEffect o
      let w ← w.afterDec hs.arc last
      pure ((w.setHandle h none).complete (boolRet last))
  | .arcCount h =>
    let hs ← w.handle h
    let o := (w.arcInfo hs.arc).obj
    if c.stage == 0 then (w.setStage 1).branch o .arcInspect
    else
      let s ← w.getArc o
      if s.refCnt == 0 then throw .arcReleased
      let w := w.setThs (w.ths.syncLoad s.sync .sc)
      pure (w.complete (.val s.refCnt))
  | .arcGetMut h =>
    let hs ← w.handle h
    let o := (w.arcInfo hs.arc).obj
    if c.stage == 0 then (w.setStage 1).branch o .arcDec
    else
      let s ← w.getArc o
      if s.refCnt < 1 then throw .arcReleased
      let w := w.setThs (w.ths.syncLoad s.sync .acq)
      if s.refCnt == 1 && (w.arcInfo hs.arc).stdCount != 1 then throw (.internal 73)
      pure (w.complete (boolRet (s.refCnt == 1)))
  | .arcUnwrap h =>
    let hs ← w.handle h
    let o := (w.arcInfo hs.arc).obj
    match c.stage with
    | 0 => (w.setStage 1).branch o .arcDec
    | 1 =>
      let s ← w.getArc o
      if s.refCnt < 1 then throw .arcReleased
      let w := w.setThs (w.ths.syncLoad s.sync .acq)
      if s.refCnt != 1 then pure (w.complete (.err 0))
      else
        if (w.arcInfo hs.arc).stdCount != 1 then throw (.internal 73)
        (w.setStage 2).branch o .arcDec
    | _ =>
      let (w, _) ← w.refDecEffect o
      if !(w.arcInfo hs.arc).registered then throw (.internal 72)
      let w := w.modArc hs.arc fun i => { i with stdCount := 0, registered := false }
      pure ((w.setHandle h none).complete (.ok 0))
  | .arcIntoRaw h =>
    let hs ← w.handle h
    pure ((w.setHandle h (some { hs with raw := true })).complete .unit)
  | .arcFromRaw h =>
    let hs ← w.handle h
    if !(w.arcInfo hs.arc).registered then throw (.internal 74)
    pure ((w.setHandle h (some { hs with raw := false })).complete .unit)
  | .arcInc h =>
    let hs ← w.handle h
    let o := (w.arcInfo hs.arc).obj
    if c.stage == 0 then
      if !(w.arcInfo hs.arc).registered then throw (.internal 74)
      (w.setStage 1).branch o .arcInc
    else
      let s ← w.getArc o
      let w := w.setObj o (.arc { s with refCnt := s.refCnt + 1 })
      let w := w.modArc hs.arc fun i => { i with stdCount := i.stdCount + 1 }
      pure (w.complete .unit)
  | .arcDec h =>
    let hs ← w.handle h
    let o := (w.arcInfo hs.arc).obj
    if c.stage == 0 then
      if !(w.arcInfo hs.arc).registered then throw (.internal 74)
      (w.setStage 1).branch o .arcDec
    else
      let (w, last) ← w.refDecEffect o
      let w ← w.afterDec hs.arc last
      pure (w.complete (boolRet last))
  | .arcPtrEq h h2 =>
    let a ← w.handle h
    let b ← w.handle h2
    pure (w.complete (boolRet (a.arc == b.arc)))
  | .trackNew k =>
    let (w, o) := w.pushObj (.alloc {})
    pure ({ w with tracks := (k, o) :: w.tracks }.complete .unit)
  | .trackDrop k =>
    match w.tracks.lookup k with
    | some o => pure ((w.setObj o (.alloc { isDropped := true })).complete .unit)
    | none => throw (.internal 75)
  | .alloc k =>
    if (w.rawAllocs.lookup k).isSome then throw (.internal 76)
    let (w, o) := w.pushObj (.alloc {})
    pure ({ w with rawAllocs := (k, o) :: w.rawAllocs }.complete .unit)
  | .dealloc k =>
    match w.rawAllocs.lookup k with
    | some o =>
      let w := { w with rawAllocs := w.rawAllocs.filter (·.1 != k) }
      pure ((w.setObj o (.alloc { isDropped := true })).complete .unit)
    | none => throw (.internal 77)
  | .tls k =>
    match w.tlsGet k with
    | (_, none) => throw .tlsDestroyed
    | (w, some id) => pure (w.complete (.val id))
  | .tlsTry k =>
    match w.tlsGet k with
    | (w, none) => pure (w.complete .accessError)
    | (w, some id) => pure (w.complete (.val id))
  | .tlsNest k j =>
    match w.tlsGet k with
    | (_, none) => throw .tlsDestroyed
    | (w, some _) =>
      match w.tlsGet j with
      | (_, none) => throw .tlsDestroyed
      | (w, some id) => pure (w.complete (.val id))
  | .tlsStat k => pure (w.complete (.val (w.tlsInits.getD k 0 * 100 + w.tlsDrops.getD k 0)))
  | .tlsObs k => pure (w.complete (.val (w.tlsObs.getD k 0)))
  | .lazyStat z =>
    -- live instances: a value that lost the initialisation race is dropped at once
    pure (w.complete (.val (match w.exec.lazyStatics with
      | some l => if (l.lookup z).isSome then 1 else 0
      | none => 0)))
  | .lazy z => w.lazyStage c z
  | .blockOn f mode => w.blockOnStage c f mode
  | .wake f => w.wakeStage c f true
  | .wakeRef f => w.wakeStage c f false
  | .dropWaker f =>
    let fs := w.futs.getD f {}
    match c.stage with
    | 0 => do
      let m ← w.getMutex fs.slotMutex
      (w.setStage 1).branch fs.slotMutex .opaque (block := m.lock.isSome) (wait := true)
    | 1 => do
      let (w, okk) ← w.postAcquire fs.slotMutex
      if !okk then throw .expectedLock
      let had := (w.futs.getD f {}).slot
      let w := w.modFut f fun s => { s with slot := false }
      let w ← w.releaseLock fs.slotMutex
      if had then
        -- (the waker taken here is dropped in the next stage, whatever `block_on` call is current by then)
        let w := w.modCtl w.tid fun c => { c with taken := fs.arc }
        (w.setStage 2).branch (w.arcInfo fs.arc).obj .arcDec
      else pure (w.complete .unit)
    | _ => do
      let w ← w.wakerDrop c.taken
      pure (w.complete .unit)
  | .awWake f =>
    let fs := w.futs.getD f {}
    match c.stage with
    | 0 => w.primStart f (.store 1 .rel)
    | 1 => do
      let (w, _) ← w.primEffect f (.store 1 .rel)
      let m ← w.getMutex fs.awMutex
      (w.setStage 2).branch fs.awMutex .opaque (block := m.lock.isSome) (wait := true)
    | 2 => do
      let (w, okk) ← w.postAcquire fs.awMutex
      if !okk then throw .expectedLock
      let had := (w.futs.getD f {}).awWaker
      let w := w.modFut f fun s => { s with awWaker := false }
      let w ← w.releaseLock fs.awMutex
      -- the waker taken is the one registered last; it notifies the `block_on` it was cloned from
      if had then
        let w := w.modCtl w.tid fun c => { c with taken := fs.awArc, takenNotify := fs.awNotify }
        (w.setStage 3).branch fs.awNotify .opaque
      else pure (w.complete .unit)
    | 3 => do
      let w ← w.notifyEffect c.takenNotify
      (w.setStage 4).branch (w.arcInfo c.taken).obj .arcDec
    | _ => do
      let w ← w.wakerDrop c.taken
      pure (w.complete .unit)
  | .wakeQ f => w.wakeStage c f false (store := false)
  | .wClone f =>
    let fs := w.futs.getD f {}
    match c.stage with
    | 0 => do
      let m ← w.getMutex fs.slotMutex
      (w.setStage 1).branch fs.slotMutex .opaque (block := m.lock.isSome) (wait := true)
    | 1 => do
      let (w, okk) ← w.postAcquire fs.slotMutex
      if !okk then throw .expectedLock
      if (w.futs.getD f {}).slot then
        -- `Waker::clone` → `Arc` ref_inc (a branch point) while the guard is held
        (w.setStage 2).branch (w.arcInfo fs.arc).obj .arcInc
      else do
        let w ← w.releaseLock fs.slotMutex
        pure (w.complete (.val 0))
    | _ => do
      let w ← w.wakerClone fs.arc
      let w := w.modCtl w.tid fun c => { c with held := (f, fs.arc, fs.notify) :: c.held.filter (·.1 != f) }
      let w ← w.releaseLock fs.slotMutex
      pure (w.complete (.val 1))
  | .wakeH f =>
    match c.held.lookup f with
    | none => pure (w.complete .unit)
    | some (a, n) =>
      match c.stage with
      | 0 => (w.setStage 1).branch n .opaque
      | 1 => do
        let w ← w.notifyEffect n
        (w.setStage 2).branch (w.arcInfo a).obj .arcDec
      | _ => do
        let w ← w.wakerDrop a
        let w := w.modCtl w.tid fun c => { c with held := c.held.filter (·.1 != f) }
        pure (w.complete .unit)
  | .awTake f => w.awTakeStage c f
  | .stop => do
    let p ← w.exec.path.critical
    pure ((w.setPath p).complete .unit)
  | .explore => do
    let p ← w.exec.path.exploreState
    pure ((w.setPath p).complete .unit)
  | .skip => pure ((w.setPath w.exec.path.skipBranch).complete .unit)
  | .panic => throw .user

/-- `Thread::drop_locals` + dropping the values outside the execution: every live thread-local of
the active thread is taken out (later accesses get `AccessError`), then dropped.  The destructors'
effects follow `cfg.tlsDtor`; the keys whose destructor performs a loom operation are queued.
The values are dropped in the order in which the thread initialised them (`Thread::locals` is a
vector in initialisation order since the repair of finding F14; it was a `HashMap` before). -/
def dropLocals (w : World) : World :=
  let t := w.tid
  let c := w.ctlOf t
  -- `locals` is consed: initialisation order is the reverse
  let live := (c.locals.reverse.filterMap fun (k, v) => v.map fun _ => k)
  let w := w.modCtl t fun c => { c with locals := c.locals.map fun (k, _) => (k, none) }
  let w := live.foldl (fun w k => { w with tlsDrops := w.tlsDrops.set k (w.tlsDrops.getD k 0 + 1) }) w
  match w.cfg.tlsDtor with
  | 1 => w.modCtl t fun c => { c with dtorQueue := live }
  | 2 =>
    -- the destructor of `k` calls `try_with` on the other key: destroyed → 2; never initialised by this
    -- thread → it is initialised now → 1 (the new value is destroyed by the next `drop_locals` pass, which
    -- only spawned threads have)
    -- (only key 0's destructor probes, see the harness)
    if live.contains 0 then
      match (w.ctlOf t).locals.lookup 1 with
      | some _ => { w with tlsObs := w.tlsObs.set 0 (w.tlsObs.getD 0 0 ||| 2) }
      | none =>
        let (w, _) := w.tlsGet 1
        { w with tlsObs := w.tlsObs.set 0 (w.tlsObs.getD 0 0 ||| 1) }
    else w
  | _ => w

/-- `rt::thread_done` after `drop_locals` -/
def threadDone (w : World) : Except Panic World := do
  let ths := w.ths.modifyActive fun th => { th.setTerminated with operation := none }
  let (e, _) ← ({ w.exec with threads := ths }).schedule w.panicking
  pure { w with exec := e }

/-- one pass of `rt::drop_locals` with the destructors' loom operations.  `base` is the stage at which the
pass starts (`drop_locals` itself), `base+1` the head of the destructor loop, `base+2` the effect of a
destructor's store.  `done` is what happens when the pass is over. -/
def dropPass (w : World) (c : TCtl) (base : Nat) (done : World → Except Panic World) : Except Panic World := do
  let t := w.tid
  if c.fin == base then
    let w := w.dropLocals
    pure (w.modCtl t fun c => { c with fin := base + 1 })
  else if c.fin == base + 1 then
    match c.dtorQueue with
    | [] => done w
    | k :: _ =>
      -- the destructor of key `k`: `x0.store(10 + k, Relaxed)`
      let w := w.modCtl t fun c => { c with fin := base + 2 }
      w.primStart 0 (.store (10 + (k : Int)) .rlx) c.stage
  else
    match c.dtorQueue with
    | [] => throw (.internal 84)
    | k :: rest =>
      let (w, _) ← w.primEffect 0 (.store (10 + (k : Int)) .rlx)
      pure (w.modCtl t fun c => { c with fin := base + 1, dtorQueue := rest })

/-- the tail of every thread (`rt::thread_done`): `drop_locals`, the destructors' loom operations,
termination -/
def finishThread (w : World) (c : TCtl) : Except Panic World :=
  if c.fin < 10 ∨ c.fin > 12 then throw (.internal 85)
  else w.dropPass c 10 fun w => (w.modCtl w.tid fun c => { c with fin := 99 }).threadDone

/-- what a thread does after its last DSL operation.

main closure (`model.rs`): `lazy_statics.drop()` (the values are dropped outside the execution), then
`thread_done()`.

spawned thread (`thread.rs spawn_internal`, since the repair of finding F20): `rt::drop_locals()` — the
thread-local destructors run before the thread is reported as finished — (stages 3, 4, 5), then
`notify.notify()` (stage 0→1: its branch point, 1: its effect), then `thread_done()` (stages 10, 11, 12: a
second `drop_locals` finds only values that were initialised during the first one). -/
def runEpilogue (w : World) (c : TCtl) : Except Panic World := do
  let t := w.tid
  if c.fin ≥ 10 then w.finishThread c
  else if t == 0 then
    let w := { w with exec := { w.exec with lazyStatics := none } }
    pure (w.modCtl t fun c => { c with fin := 10 })
  else
    match w.spawned.find? (·.2.1 == t) with
    | none => throw (.internal 83)
    | some (_, _, n) =>
      if c.fin == 0 then
        -- start of the first `drop_locals` pass
        w.dropPass { c with fin := 3 } 3 (fun w => pure w)
      else if c.fin ≥ 3 then
        -- when the pass is over: `notify.notify(location)`: branch point first
        w.dropPass c 3 fun w => (w.modCtl t fun c => { c with fin := 1 }).branch n .opaque
      else do
        let w ← w.notifyEffect n
        pure (w.modCtl t fun c => { c with fin := 10 })

/-- one step: run one stage of the active thread -/
def stepActive (w : World) : Except Panic World :=
  let t := w.tid
  let c := w.ctlOf t
  match (w.prog.threads.getD c.body [])[c.pc]? with
  | some op => w.runOp c op
  | none => w.runEpilogue c

/-- run until no thread is active (`Set::is_complete`) or a panic unwinds the iteration; the
world reached before the panicking stage is returned with the panic -/
def runLoop : Nat → World → World × Option Panic
  | 0, w => (w, some .fuel)
  | fuel + 1, w =>
    if !w.ths.isActive then (w, none)
    else
      match w.stepActive with
      | .error e => (w, some e)
      | .ok w' => runLoop fuel w'

end World

/-- result of one iteration of `Builder::check` -/
structure IterResult where
  events : List Event
  term : Option Panic            -- `none` = completed and passed the leak check
  exec : Exec                    -- state at the end (meaningful when `term = none`)
deriving Repr, Inhabited

/-- one iteration: run the program from the given execution (whose `path` holds the decisions to
replay), then `check_for_leaks`. -/
def runIter (prog : Prog) (exec : Exec) (fuel : Nat := 200000) : IterResult :=
  match World.init prog exec with
  | .error e => { events := [], term := some e, exec }
  | .ok w0 =>
    match World.runLoop fuel w0 with
    | (w, some e) => { events := w.events.reverse, term := some e, exec := w.exec }
    | (w, none) =>
      match w.exec.objs.checkForLeaks with
      | .error e => { events := w.events.reverse, term := some e, exec := w.exec }
      | .ok () => { events := w.events.reverse, term := none, exec := w.exec }

end LoomVerif

/-
Model of `src/rt/thread.rs` (`Thread`, `Set`) and `src/rt/access.rs` (`Access`), and of the
`Operation`/`Action` records of `src/rt/object.rs`.  Import-free.
-/
import LoomVerif.Model.Path

namespace LoomVerif

/-- `thread::State` (the `Location` payload of `Blocked` is dropped) -/
inductive TState
  | runnable | blocked | yield | terminated
deriving DecidableEq, Repr, Inhabited

/-- `object::Action` with the per-kind actions flattened -/
inductive Action
  | arcInc | arcDec | arcInspect
  | atomLoad | atomStore | atomRmw
  | chanSend | chanRecv
  | rwRead | rwWrite
  | opaque
deriving DecidableEq, Repr, Inhabited

/-- `object::Operation` (location dropped) -/
structure Operation where
  obj : Nat
  action : Action
  /-- the operation waits until the object is available (`lock`, `read`, `write`, `recv`, an unnotified
  `Notify::wait`) as opposed to an attempt that fails when it is not (`try_lock`, …): only a waiting thread is
  blocked when another thread takes the object first (repair of finding F9) -/
  blocking : Bool := false
deriving DecidableEq, Repr, Inhabited

/-- `access::Access` -/
structure Access where
  pathId : Nat
  vv : VV
deriving DecidableEq, Repr, Inhabited

namespace Access
/-- `Access::happens_before`: `self.dpor_vv <= *version` -/
def happensBefore (a : Access) (v : VV) : Bool := a.vv.ble v
/-- `Access::set_or_create` -/
def setOrCreate (_ : Option Access) (pathId : Nat) (v : VV) : Option Access := some ⟨pathId, v⟩
end Access

/-- `thread::Thread` (tracing span, `critical` flag and thread-local map are kept elsewhere) -/
structure Thread where
  state : TState := .runnable
  /-- an `unpark` that no `park` has consumed yet (kept apart from `state`: blocking on something else in
  between does not lose it — repair of findings F5/F18) -/
  token : Bool := false
  /-- blocked in `park` (as opposed to blocked on a lock, a join, …): only then does `unpark` wake it -/
  parked : Bool := false
  /-- what the threads that called `unpark` had done up to then; acquired by the `park` that consumes the unpark
  or is woken by it, not before (repair of finding F17) -/
  unparkCaus : VV := VV.zero
  operation : Option Operation := none
  causality : VV := VV.zero
  released : VV := VV.zero
  dporVV : VV := VV.zero
  lastYield : Option Nat := none
  yieldCount : Nat := 0
deriving DecidableEq, Repr, Inhabited

namespace Thread
def isRunnable (t : Thread) : Bool := t.state == .runnable
def isBlocked (t : Thread) : Bool := t.state == .blocked
def isYield (t : Thread) : Bool := t.state == .yield
def isTerminated (t : Thread) : Bool := t.state == .terminated
def setRunnable (t : Thread) : Thread := { t with state := .runnable, parked := false }
/-- `Thread::set_parked`: blocked in `park` -/
def setParked (t : Thread) : Thread := { t with state := .blocked, parked := true }
def setBlocked (t : Thread) : Thread := { t with state := .blocked }
def setTerminated (t : Thread) : Thread := { t with state := .terminated }
/-- what a release does to a thread whose pending `operation` names the released object: it is woken only if
it is blocked (the field may be left over from an earlier operation: repair of finding F18) -/
def wake (t : Thread) : Thread := if t.isBlocked then t.setRunnable else t
/-- `Thread::set_yield` (`id` is the thread's own index) -/
def setYield (t : Thread) (id : Nat) : Thread :=
  { t with state := .yield, lastYield := some (t.causality.get id), yieldCount := t.yieldCount + 1 }
/-- `Thread::acquire_unpark`: the `park` call returns because of an `unpark`: synchronise with the unparkers -/
def acquireUnpark (t : Thread) : Thread :=
  { t with causality := t.causality.join t.unparkCaus, unparkCaus := VV.zero }
/-- `Thread::set_unparked`: a thread blocked in `park` is woken (and acquires); any other live thread (running,
yielded, blocked on something else) stores the unpark for a future `park` -/
def setUnparked (t : Thread) : Thread :=
  if t.parked then t.setRunnable.acquireUnpark
  else if !t.isTerminated then { t with token := true }
  else t
/-- `Thread::unpark` -/
def unpark (t : Thread) (unparker : Thread) : Thread :=
  ({ t with unparkCaus := t.unparkCaus.join unparker.causality }).setUnparked
/-- what `thread::Set::wake` does to the woken thread: the waker's past happens-before its continuation; it
becomes runnable if it blocked itself with `rt::block` (blocked, not parked) -/
def wakeFrom (t : Thread) (waker : Thread) : Thread :=
  let t := { t with causality := t.causality.join waker.causality }
  if t.isBlocked && !t.parked then t.setRunnable else t
end Thread

/-- `thread::Set` -/
structure Threads where
  threads : List Thread := [{}]
  active : Option Nat := some 0
  seqCst : VV := VV.zero
  max : Nat := 5
deriving DecidableEq, Repr, Inhabited

namespace Threads

/-- `Set::new` / `Set::clear` -/
def new (max : Nat) : Threads := { max }

def get (s : Threads) (i : Nat) : Thread := s.threads.getD i {}
def modify (s : Threads) (i : Nat) (f : Thread → Thread) : Threads :=
  { s with threads := s.threads.modify i f }
/-- `active_id` (`unwrap` on `None` panics in the code; callers only use it with an active
thread — see `Exec`, which checks) -/
def activeId (s : Threads) : Nat := s.active.getD 0
def activeT (s : Threads) : Thread := s.get s.activeId
def modifyActive (s : Threads) (f : Thread → Thread) : Threads := s.modify s.activeId f
def isActive (s : Threads) : Bool := s.active.isSome
def caus (s : Threads) : VV := s.activeT.causality
def setCaus (s : Threads) (v : VV) : Threads := s.modifyActive fun t => { t with causality := v }

/-- `Set::new_thread` -/
def newThread (s : Threads) : Except Panic (Threads × Nat) :=
  if s.threads.length < s.max then .ok ({ s with threads := s.threads ++ [{}] }, s.threads.length)
  else .error .threadLimit

/-- `Set::active_causality_inc` -/
def activeCausalityInc (s : Threads) : Threads :=
  s.modifyActive fun t => { t with causality := t.causality.inc s.activeId }

/-- `Set::active_atomic_version` -/
def activeAtomicVersion (s : Threads) : Nat := s.caus.get s.activeId

/-- `Set::unpark` -/
def unpark (s : Threads) (id : Nat) : Threads :=
  if id == s.activeId then s.modifyActive Thread.setUnparked
  else s.modify id fun t => t.unpark s.activeT

/-- `Set::wake` -/
def wake (s : Threads) (id : Nat) : Threads :=
  if id == s.activeId then s else s.modify id fun t => t.wakeFrom s.activeT

/-- `Set::seq_cst_fence` -/
def seqCstFence (s : Threads) : Threads :=
  let c := s.caus.join s.seqCst
  { (s.setCaus c) with seqCst := s.seqCst.join c }

/-- `Synchronize::sync_load` applied to the active thread -/
def syncLoad (s : Threads) (sy : Sync) (o : Ord) : Threads := s.setCaus (sy.load s.caus o)
/-- `Synchronize::sync_store` by the active thread -/
def syncStore (s : Threads) (sy : Sync) (o : Ord) : Sync := sy.store s.activeT.released s.caus o

end Threads
end LoomVerif

/-
Model of `src/rt/vv.rs` (`VersionVec`) and `src/rt/synchronize.rs` (`Synchronize`).

A version vector has `MAX_THREADS = 5` slots.  The code uses `u16`; the model uses `Nat`
(overflow needs 65 536 increments of one slot, unreachable below `max_branches`; see DESIGN §7).
Import-free: this file is linked into the native driver.
-/
namespace LoomVerif

/-- `MAX_THREADS` of `src/rt/mod.rs`. -/
def NT : Nat := 5

/-- `MAX_ATOMIC_HISTORY` of `src/rt/mod.rs`. -/
def NH : Nat := 7

/-- `VersionVec`. -/
structure VV where
  v : Vector Nat 5
deriving DecidableEq, Repr

namespace VV

def zero : VV := ⟨Vector.replicate 5 0⟩

instance : Inhabited VV := ⟨zero⟩

/-- slot `i` (0 when out of range; the code would panic on an out-of-range thread id, which
cannot occur because thread ids are `< MAX_THREADS`). -/
def get (a : VV) (i : Nat) : Nat := if h : i < 5 then a.v[i] else 0

/-- `VersionVec::inc` / `vv[id] += 1`. -/
def inc (a : VV) (i : Nat) : VV := if h : i < 5 then ⟨a.v.set i (a.v[i] + 1)⟩ else a

def set (a : VV) (i : Nat) (x : Nat) : VV := if h : i < 5 then ⟨a.v.set i x⟩ else a

/-- `VersionVec::join`: pointwise maximum. -/
def join (a b : VV) : VV := ⟨Vector.zipWith max a.v b.v⟩

/-- pointwise order -/
def le (a b : VV) : Prop := ∀ i, (h : i < 5) → a.v[i] ≤ b.v[i]

instance (a b : VV) : Decidable (le a b) :=
  inferInstanceAs (Decidable (∀ i, (h : i < 5) → a.v[i] ≤ b.v[i]))

def ble (a b : VV) : Bool := decide (le a b)

/-- strict order as produced by `partial_cmp == Some(Less)` -/
def blt (a b : VV) : Bool := ble a b && !(a == b)

/-- `VersionVec::ahead`: first slot in which `other` is strictly larger than `self`. -/
def ahead (self other : VV) : Option Nat :=
  (List.range 5).find? (fun i => self.get i < other.get i)

def toList (a : VV) : List Nat := a.v.toList

def ofList (l : List Nat) : VV :=
  ⟨Vector.ofFn (fun i : Fin 5 => l.getD i.val 0)⟩

def render (a : VV) : String :=
  "[" ++ ",".intercalate (a.toList.map toString) ++ "]"

end VV

/-- memory orderings -/
inductive Ord | rlx | acq | rel | ar | sc
deriving DecidableEq, Repr, Inhabited

namespace Ord
def isSC : Ord → Bool | sc => true | _ => false
/-- `sync_load` acquires for these orderings -/
def acquires : Ord → Bool | acq | ar | sc => true | _ => false
/-- `sync_store` releases for these orderings -/
def releases : Ord → Bool | rel | ar | sc => true | _ => false
end Ord

/-- `Synchronize` -/
structure Sync where
  hb : VV
deriving DecidableEq, Repr, Inhabited

namespace Sync
def new : Sync := ⟨VV.zero⟩
/-- `sync_load`: returns the new causality of the active thread. (`threads.seq_cst()` is a no-op
in the code.) -/
def load (s : Sync) (caus : VV) (o : Ord) : VV :=
  if o.acquires then caus.join s.hb else caus
/-- `sync_store`: `released` and `causality` of the active thread. -/
def store (s : Sync) (released caus : VV) (o : Ord) : Sync :=
  let hb := s.hb.join released
  if o.releases then ⟨hb.join caus⟩ else ⟨hb⟩
end Sync

end LoomVerif

/-
Model of `src/rt/atomic.rs`: the atomic cell (`State`, `Store`, `FirstSeen`), candidate selection
for loads and RMWs, coherence bookkeeping, race tracking, fences.  Import-free.
-/
import LoomVerif.Model.Threads

namespace LoomVerif

/-- `FirstSeen([u16; MAX_THREADS])`, `none` = `u16::MAX` -/
abbrev FirstSeen := List (Option Nat)

namespace FirstSeen
def new : FirstSeen := List.replicate NT none
/-- `FirstSeen::touch` -/
def touch (fs : FirstSeen) (ths : Threads) : FirstSeen :=
  match fs.getD ths.activeId none with
  | none => fs.set ths.activeId (some ths.activeAtomicVersion)
  | some _ => fs
/-- `FirstSeen::is_seen_by_current` -/
def isSeenBy (fs : FirstSeen) (caus : VV) : Bool :=
  (List.range NT).any fun i =>
    match fs.getD i none with
    | none => false
    | some v => v ≤ caus.get i
def isSeenByCurrent (fs : FirstSeen) (ths : Threads) : Bool := isSeenBy fs ths.caus
/-- `FirstSeen::is_seen_before_yield` -/
def isSeenBeforeYield (fs : FirstSeen) (ths : Threads) : Bool :=
  match ths.activeT.lastYield with
  | none => false
  | some ly =>
    match fs.getD ths.activeId none with
    | none => false
    | some v => v ≤ ly
end FirstSeen

/-- `atomic::Store` -/
structure AStore where
  value : Nat := 0
  hb : VV := VV.zero
  mo : VV := VV.zero
  sync : Sync := Sync.new
  firstSeen : FirstSeen := FirstSeen.new
  seqCst : Bool := false
deriving DecidableEq, Repr, Inhabited

/-- `atomic::State` (locations dropped) -/
structure Atomic where
  loadedAt : VV := VV.zero
  unsyncLoadedAt : VV := VV.zero
  storedAt : VV := VV.zero
  unsyncMutAt : VV := VV.zero
  isMutating : Bool := false
  lastAccess : Option Access := none
  lastNonLoad : Option Access := none
  stores : List AStore := List.replicate NH {}
  cnt : Nat := 0
deriving DecidableEq, Repr, Inhabited

namespace Atomic

/-- `index(cnt)` -/
def index (cnt : Nat) : Nat := cnt % NH

/-- `range(cnt)` -/
def range (cnt : Nat) : Nat × Nat :=
  let start := index (cnt - NH)
  let e := index (min cnt NH)
  (start, if e == 0 then NH else e)

/-- indices visited by `stores_mut()`, in order -/
def storesMutOrder (cnt : Nat) : List Nat :=
  let (s, e) := range cnt
  (List.range' s (e - s)) ++ List.range s

def storeAt (a : Atomic) (i : Nat) : AStore := a.stores.getD i {}

def modifyStore (a : Atomic) (i : Nat) (f : AStore → AStore) : Atomic :=
  { a with stores := a.stores.modify i f }

def mutatingCheck (a : Atomic) : Except Panic Unit :=
  if a.isMutating then .error .atomicMutating else .ok ()

/-- `track_load` -/
def trackLoad (a : Atomic) (ths : Threads) : Except Panic Atomic := do
  mutatingCheck a
  if (ths.caus.ahead a.unsyncMutAt).isSome then throw (.causality 0)
  pure { a with loadedAt := a.loadedAt.join ths.caus }

/-- `track_unsync_load` -/
def trackUnsyncLoad (a : Atomic) (ths : Threads) : Except Panic Atomic := do
  mutatingCheck a
  if (ths.caus.ahead a.unsyncMutAt).isSome then throw (.causality 1)
  if (ths.caus.ahead a.storedAt).isSome then throw (.causality 2)
  pure { a with unsyncLoadedAt := a.unsyncLoadedAt.join ths.caus }

/-- `track_store` -/
def trackStore (a : Atomic) (ths : Threads) : Except Panic Atomic := do
  mutatingCheck a
  if (ths.caus.ahead a.unsyncMutAt).isSome then throw (.causality 3)
  if (ths.caus.ahead a.unsyncLoadedAt).isSome then throw (.causality 4)
  pure { a with storedAt := a.storedAt.join ths.caus }

/-- `track_unsync_mut` -/
def trackUnsyncMut (a : Atomic) (ths : Threads) : Except Panic Atomic := do
  mutatingCheck a
  if (ths.caus.ahead a.loadedAt).isSome then throw (.causality 5)
  if (ths.caus.ahead a.unsyncLoadedAt).isSome then throw (.causality 6)
  if (ths.caus.ahead a.storedAt).isSome then throw (.causality 7)
  if (ths.caus.ahead a.unsyncMutAt).isSome then throw (.causality 8)
  pure { a with unsyncMutAt := a.unsyncMutAt.join ths.caus }

/-- `State::store` -/
def store (a : Atomic) (ths : Threads) (sync : Sync) (value : Nat) (o : Ord) : Atomic :=
  let idx := index a.cnt
  let hb := ths.caus
  let mo := a.stores.foldl
    (fun mo s => if s.firstSeen.isSeenByCurrent ths then mo.join s.mo else mo) hb
  let sync := ths.syncStore sync o
  let fs := FirstSeen.new.touch ths
  { a with
    cnt := a.cnt + 1
    stores := a.stores.set idx
      { value, hb, mo, sync, firstSeen := fs, seqCst := o.isSC } }

/-- `State::new` (`Atomic::new` runs it inside `rt::execution`, no clock increment) -/
def new (ths : Threads) (value : Nat) : Except Panic Atomic := do
  let a ← trackUnsyncMut {} ths
  pure (a.store ths Sync.new value .rel)

/-- `apply_load_coherence` -/
def applyLoadCoherence (a : Atomic) (ths : Threads) (idx : Nat) : Atomic :=
  let mo := (List.range NH).foldl (fun mo i =>
    if i == idx then mo else
      let s := a.storeAt i
      let mo := if s.firstSeen.isSeenByCurrent ths then mo.join s.mo else mo
      if s.hb.blt ths.caus then mo.join s.mo else mo) (a.storeAt idx).mo
  a.modifyStore idx fun s => { s with mo }

/-- `State::load`; returns the loaded value -/
def load (a : Atomic) (ths : Threads) (idx : Nat) (o : Ord) :
    Except Panic (Atomic × Threads × Nat) := do
  let a ← a.trackLoad ths
  let a := a.applyLoadCoherence ths idx
  let a := a.modifyStore idx fun s => { s with firstSeen := s.firstSeen.touch ths }
  let s := a.storeAt idx
  pure (a, ths.syncLoad s.sync o, s.value)

/-- `State::rmw`.  `f prev = some next` is `Ok(next)`, `none` is `Err`.  Returns `prev`. -/
def rmw (a : Atomic) (ths : Threads) (idx : Nat) (success failure : Ord)
    (f : Nat → Option Nat) : Except Panic (Atomic × Threads × Nat × Bool) := do
  let a ← a.trackLoad ths
  let a := a.applyLoadCoherence ths idx
  let a := a.modifyStore idx fun s => { s with firstSeen := s.firstSeen.touch ths }
  let prev := (a.storeAt idx).value
  match f prev with
  | some next =>
    let a ← a.trackStore ths
    let sync := (a.storeAt idx).sync
    let ths := ths.syncLoad sync success
    pure (a.store ths sync next success, ths, prev, true)
  | none =>
    pure (a, ths.syncLoad (a.storeAt idx).sync failure, prev, false)

/-- the three reasons for which `match_load_to_stores` withholds store `i` because of store `j`
(evaluated only when `mo_i < mo_j`) -/
def loadBlocked (a : Atomic) (ths : Threads) (o : Ord) (i j : Nat) : Bool :=
  let si := a.storeAt i
  let sj := a.storeAt j
  sj.firstSeen.isSeenByCurrent ths
    || si.firstSeen.isSeenBeforeYield ths
    || (o.isSC && si.seqCst && sj.seqCst)

/-- inner loop of `match_load_to_stores`/`match_rmw_to_stores` for a fixed `i`:
`blocked i j` is consulted only when `mo_i < mo_j`; equal clocks trip `assert_ne!`.
Returns whether `i` is kept. -/
def matchInner (a : Atomic) (blocked : Nat → Nat → Bool) (i : Nat) : List Nat → Except Panic Bool
  | [] => .ok true
  | j :: js =>
    if i == j || j ≥ a.cnt then matchInner a blocked i js
    else if (a.storeAt i).mo == (a.storeAt j).mo then .error (.internal 10)
    else if (a.storeAt i).mo.blt (a.storeAt j).mo && blocked i j then .ok false
    else matchInner a blocked i js

/-- outer loop -/
def matchOuter (a : Atomic) (blocked : Nat → Nat → Bool) : List Nat → Except Panic (List Nat)
  | [] => .ok []
  | i :: is =>
    if i ≥ a.cnt then matchOuter a blocked is
    else
      match matchInner a blocked i (List.range NH) with
      | .error e => .error e
      | .ok keep =>
        match matchOuter a blocked is with
        | .error e => .error e
        | .ok rest => .ok (if keep then i :: rest else rest)

/-- `match_load_to_stores`: the slots a load may read, in slot order -/
def matchLoadToStores (a : Atomic) (ths : Threads) (o : Ord) : Except Panic (List Nat) :=
  matchOuter a (loadBlocked a ths o) (List.range NH)

/-- `match_rmw_to_stores`: only clock-maximal stores -/
def matchRmwToStores (a : Atomic) : Except Panic (List Nat) :=
  matchOuter a (fun _ _ => true) (List.range NH)

/-- value of the most recent store (`unsync_load`, `with_mut`) -/
def latestValue (a : Atomic) : Nat := (a.storeAt (index (a.cnt - 1))).value

/-- the part of `fence_acq` for one cell: acquire from every store seen by the current thread -/
def fenceAcq (a : Atomic) (ths : Threads) : Threads :=
  (storesMutOrder a.cnt).foldl (fun ths i =>
    let s := a.storeAt i
    if s.firstSeen.isSeenByCurrent ths then ths.syncLoad s.sync .acq else ths) ths

/-- `last_dependent_access` -/
def lastDependentAccess (a : Atomic) : Action → Option Access
  | .atomLoad => a.lastNonLoad
  | _ => a.lastAccess

/-- `set_last_access` -/
def setLastAccess (a : Atomic) (act : Action) (pathId : Nat) (v : VV) : Atomic :=
  let a := { a with lastAccess := some ⟨pathId, v⟩ }
  match act with
  | .atomLoad => a
  | _ => { a with lastNonLoad := some ⟨pathId, v⟩ }

end Atomic
end LoomVerif

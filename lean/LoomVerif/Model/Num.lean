/-
Model of `src/rt/num.rs` (`Numeric`: every atomic value is stored as a `u64`) and of the typed
closures of `src/sync/atomic/{int,bool,ptr}.rs`.

A typed value is an `Int` in the range of its type (`bool` is 0/1, pointers are `usize`).
Import-free.
-/
import LoomVerif.Model.VV

namespace LoomVerif

/-- the loom atomic types (`AtomicPtr<T>` behaves as `usize`: `as u64` / `as *mut T`) -/
inductive ATy | u8 | u16 | u32 | u64 | usize | i8 | i16 | i32 | i64 | isize | bool | ptr
deriving DecidableEq, Repr, Inhabited

namespace ATy

def bits : ATy → Nat
  | u8 | i8 => 8 | u16 | i16 => 16 | u32 | i32 => 32
  | u64 | i64 | usize | isize | ptr => 64
  | bool => 1

def signed : ATy → Bool
  | i8 | i16 | i32 | i64 | isize => true
  | _ => false

/-- `x as T` for an integer `x`: truncate to the width, reinterpret (two's complement) -/
def wrap (t : ATy) (x : Int) : Int :=
  let m : Int := 2 ^ t.bits
  if t.signed then ((x + m / 2) % m) - m / 2 else x % m

/-- is `x` a value of type `t` -/
def inRange (t : ATy) (x : Int) : Bool :=
  if t.signed then decide (-(2 ^ (t.bits - 1) : Int) ≤ x) && decide (x < 2 ^ (t.bits - 1))
  else decide (0 ≤ x) && decide (x < 2 ^ t.bits)

/-- `Numeric::into_u64`: `self as u64` (sign extension for signed types; `bool` ↦ 0/1) -/
def intoU64 (_t : ATy) (v : Int) : Nat := (v % (2 ^ 64 : Int)).toNat

/-- `Numeric::from_u64`: `src as T`; `src != 0` for `bool` -/
def fromU64 (t : ATy) (u : Nat) : Int :=
  match t with
  | bool => if u != 0 then 1 else 0
  | _ => t.wrap u

/-- the bit pattern of a typed value within its width -/
def toBits (t : ATy) (v : Int) : Nat := (v % (2 ^ t.bits : Int)).toNat

end ATy

/-- the closure passed to `rt::Atomic::rmw`, as data -/
inductive RmwFn
  | const (v : Int)            -- swap
  | add (v : Int) | sub (v : Int)
  | and (v : Int) | nand (v : Int) | or (v : Int) | xor (v : Int)
  | max (v : Int) | min (v : Int)
  | casEq (cur new : Int)      -- compare_exchange
deriving DecidableEq, Repr, Inhabited

namespace RmwFn

/-- the closure applied to the decoded previous value: `some next` = `Ok(next)`, `none` = `Err` -/
def apply (t : ATy) (f : RmwFn) (prev : Int) : Option Int :=
  match f with
  | const v => some v
  | add v => some (t.wrap (prev + v))                       -- `wrapping_add`
  | sub v => some (t.wrap (prev - v))                       -- `wrapping_sub`
  | and v => some (t.wrap (Nat.land (t.toBits prev) (t.toBits v)))
  | nand v => some (t.wrap (Nat.xor (2 ^ t.bits - 1) (Nat.land (t.toBits prev) (t.toBits v))))
  | or v => some (t.wrap (Nat.lor (t.toBits prev) (t.toBits v)))
  | xor v => some (t.wrap (Nat.xor (t.toBits prev) (t.toBits v)))
  | max v => some (if prev ≤ v then v else prev)            -- `v.max(val)` in the typed order
  | min v => some (if prev ≤ v then prev else v)
  | casEq cur new => if prev == cur then some new else none

end RmwFn

/-- the closure passed to `fetch_update`, as data (scripts used by the DSL) -/
inductive FupdFn
  | none                       -- `|_| None`
  | add (k : Int)              -- `|v| Some(v.wrapping_add(k))`
  | addIfLt (k lim : Int)      -- `|v| if v < lim { Some(v.wrapping_add(k)) } else { None }`
deriving DecidableEq, Repr, Inhabited

def FupdFn.apply (t : ATy) : FupdFn → Int → Option Int
  | .none, _ => Option.none
  | .add k, v => some (t.wrap (v + k))
  | .addIfLt k lim, v => if v < lim then some (t.wrap (v + k)) else Option.none

end LoomVerif

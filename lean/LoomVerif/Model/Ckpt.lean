/-
Model of loom's checkpoint format: the serde-JSON form of `rt::Path` (`#[derive(Serialize,
Deserialize)]` on `Path`, `Schedule`, `Load`, `Spurious`, `Entry`, `Thread`, `object::Store`,
`object::Ref`).  `Path.toJson`/`Path.ofJson` are the structural encoder/decoder; `Json.render`
gives the bytes `serde_json::to_string` writes.  The capacity of the `branches` vector is not
part of the file (`Builder::check` re-reserves `max_branches` after loading).  Import-free.
-/
import LoomVerif.Model.Path
import LoomVerif.Model.Json

namespace LoomVerif

namespace ThSt
def name : ThSt → String
  | disabled => "Disabled" | skip => "Skip" | yield => "Yield"
  | pending => "Pending" | active => "Active" | visited => "Visited"
def ofName : String → Option ThSt
  | "Disabled" => some disabled | "Skip" => some skip | "Yield" => some yield
  | "Pending" => some pending | "Active" => some active | "Visited" => some visited
  | _ => none
end ThSt

def optNatJson : Option Nat → Json
  | none => .null
  | some n => .num n

def refJson : Option Nat → Json
  | none => .null
  | some n => .obj [("index", .num n), ("_p", .null)]

namespace Entry
def toJson : Entry → Json
  | sched s => .obj [("Schedule", .obj [
      ("preemptions", .num s.preemptions),
      ("initial_active", optNatJson s.initialActive),
      ("threads", .arr (s.threads.map fun t => .str t.name)),
      ("prev", refJson s.prev),
      ("exploring", .bool s.exploring)])]
  | load l => .obj [("Load", .obj [
      ("values", .arr (l.values.map .num)),
      ("pos", .num l.pos),
      ("len", .num l.len),
      ("exploring", .bool l.exploring)])]
  | spur p => .obj [("Spurious", .obj [
      ("spur", .bool p.spur),
      ("exploring", .bool p.exploring)])]
end Entry

def Path.toJson (p : Path) : Json :=
  .obj [("preemption_bound", optNatJson p.bound),
        ("pos", .num p.pos),
        ("branches", .obj [("entries", .arr (p.branches.map Entry.toJson))]),
        ("exploring", .bool p.exploring),
        ("skipping", .bool p.skipping),
        ("exploring_on_start", .bool p.exploringOnStart)]

def Path.render (p : Path) : String := p.toJson.render

/-! ### decoding -/

def Json.asNat : Json → Option Nat | .num n => some n | _ => none
def Json.asBool : Json → Option Bool | .bool b => some b | _ => none
def Json.asOptNat : Json → Option (Option Nat)
  | .null => some none | .num n => some (some n) | _ => none
def Json.asRef : Json → Option (Option Nat)
  | .null => some none
  | .obj [("index", .num n), ("_p", .null)] => some (some n)
  | _ => none
def Json.asArr : Json → Option (List Json) | .arr l => some l | _ => none
def Json.asThSt : Json → Option ThSt | .str s => ThSt.ofName s | _ => none

def Entry.ofJson : Json → Option Entry
  | .obj [("Schedule", .obj [("preemptions", pre), ("initial_active", ia), ("threads", ths),
      ("prev", prev), ("exploring", ex)])] => do
    let ths ← (← ths.asArr).mapM Json.asThSt
    some (.sched { preemptions := ← pre.asNat, initialActive := ← ia.asOptNat, threads := ths,
                   prev := ← prev.asRef, exploring := ← ex.asBool })
  | .obj [("Load", .obj [("values", vs), ("pos", pos), ("len", len), ("exploring", ex)])] => do
    let vs ← (← vs.asArr).mapM Json.asNat
    some (.load { values := vs, pos := ← pos.asNat, len := ← len.asNat, exploring := ← ex.asBool })
  | .obj [("Spurious", .obj [("spur", sp), ("exploring", ex)])] => do
    some (.spur { spur := ← sp.asBool, exploring := ← ex.asBool })
  | _ => none

/-- decode a checkpoint; `cap` is the capacity given to the vector afterwards
(`set_max_branches`) -/
def Path.ofJson (cap : Nat) : Json → Option Path
  | .obj [("preemption_bound", b), ("pos", pos), ("branches", .obj [("entries", es)]),
      ("exploring", ex), ("skipping", sk), ("exploring_on_start", eos)] => do
    let es ← (← es.asArr).mapM Entry.ofJson
    some { bound := ← b.asOptNat, pos := ← pos.asNat, branches := es, cap,
           exploring := ← ex.asBool, skipping := ← sk.asBool, exploringOnStart := ← eos.asBool }
  | _ => none

def Path.parse (cap : Nat) (s : String) : Option Path := (Json.parse s).bind (Path.ofJson cap)

end LoomVerif

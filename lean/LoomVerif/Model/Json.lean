/-
A minimal JSON value type with the compact rendering `serde_json::to_string` produces and a
parser for the subset loom's checkpoint files use (objects, arrays, strings without escapes,
non-negative integers, booleans, null).  Import-free.
-/
namespace LoomVerif

inductive Json
  | null
  | bool (b : Bool)
  | num (n : Nat)
  | str (s : String)
  | arr (l : List Json)
  | obj (kvs : List (String × Json))
deriving Repr, Inhabited

namespace Json

mutual
  partial def render : Json → String
    | null => "null"
    | bool b => if b then "true" else "false"
    | num n => toString n
    | str s => "\"" ++ s ++ "\""
    | arr l => "[" ++ ",".intercalate (l.map render) ++ "]"
    | obj kvs => "{" ++ ",".intercalate (kvs.map fun (k, v) => "\"" ++ k ++ "\":" ++ render v) ++ "}"
end

def get? (j : Json) (k : String) : Option Json :=
  match j with
  | obj kvs => kvs.lookup k
  | _ => none

/-! ### parser (recursive descent over a `List Char`, fuel = input length) -/

def skipWs : List Char → List Char
  | c :: cs => if c == ' ' || c == '\n' || c == '\t' || c == '\r' then skipWs cs else c :: cs
  | [] => []

def parseNat (acc : Nat) : List Char → Nat × List Char
  | c :: cs => if c.isDigit then parseNat (acc * 10 + (c.toNat - '0'.toNat)) cs else (acc, c :: cs)
  | [] => (acc, [])

def parseStr (acc : List Char) : List Char → Option (String × List Char)
  | '"' :: cs => some (String.ofList acc.reverse, cs)
  | '\\' :: _ => none
  | c :: cs => parseStr (c :: acc) cs
  | [] => none

def dropPrefix (p : List Char) (s : List Char) : Option (List Char) :=
  if p.isPrefixOf s then some (s.drop p.length) else none

mutual
  def parseVal : Nat → List Char → Option (Json × List Char)
    | 0, _ => none
    | fuel + 1, s =>
      match skipWs s with
      | 'n' :: cs => (dropPrefix "ull".toList cs).map (null, ·)
      | 't' :: cs => (dropPrefix "rue".toList cs).map (bool true, ·)
      | 'f' :: cs => (dropPrefix "alse".toList cs).map (bool false, ·)
      | '"' :: cs => (parseStr [] cs).map fun (s, r) => (str s, r)
      | '[' :: cs =>
        match skipWs cs with
        | ']' :: r => some (arr [], r)
        | cs => (parseArr fuel cs []).map fun (l, r) => (arr l, r)
      | '{' :: cs =>
        match skipWs cs with
        | '}' :: r => some (obj [], r)
        | cs => (parseObj fuel cs []).map fun (l, r) => (obj l, r)
      | c :: cs =>
        if c.isDigit then
          let (n, r) := parseNat 0 (c :: cs)
          some (num n, r)
        else none
      | [] => none
  def parseArr : Nat → List Char → List Json → Option (List Json × List Char)
    | 0, _, _ => none
    | fuel + 1, s, acc =>
      match parseVal fuel s with
      | none => none
      | some (v, r) =>
        match skipWs r with
        | ',' :: r => parseArr fuel r (v :: acc)
        | ']' :: r => some ((v :: acc).reverse, r)
        | _ => none
  def parseObj : Nat → List Char → List (String × Json) → Option (List (String × Json) × List Char)
    | 0, _, _ => none
    | fuel + 1, s, acc =>
      match skipWs s with
      | '"' :: cs =>
        match parseStr [] cs with
        | none => none
        | some (k, r) =>
          match skipWs r with
          | ':' :: r =>
            match parseVal fuel r with
            | none => none
            | some (v, r) =>
              match skipWs r with
              | ',' :: r => parseObj fuel r ((k, v) :: acc)
              | '}' :: r => some (((k, v) :: acc).reverse, r)
              | _ => none
          | _ => none
      | _ => none
end

def parse (s : String) : Option Json :=
  let cs := s.toList
  match parseVal (cs.length + 1) cs with
  | some (v, r) => if (skipWs r).isEmpty then some v else none
  | none => none

end Json
end LoomVerif

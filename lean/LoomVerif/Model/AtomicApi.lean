/-
Model of the API glue `src/sync/atomic/atomic.rs` (+ `int.rs`, `bool.rs`, `ptr.rs`) on top of
`rt::Atomic<T>` (`src/rt/atomic.rs`, `impl<T: Numeric> Atomic<T>`): which `rt` primitive an API
call performs, with which orderings and which closure, and how the `u64` result is decoded.
The branch point that precedes `load`/`store`/`rmw` (`self.branch(..)`) is performed by the
interpreter (`Model/Interp.lean`); this file describes what happens *after* the branch.
Import-free.
-/
import LoomVerif.Model.Num
import LoomVerif.Model.Atomic

namespace LoomVerif

/-- results of DSL operations -/
inductive Ret
  | unit
  | val (v : Int)
  | ok (v : Int)
  | err (v : Int)
  | empty               -- `try_recv` on an empty channel
  | accessError         -- `LocalKey::try_with` after destruction
deriving DecidableEq, Repr, Inhabited

/-- the `rt::Atomic<T>` primitives -/
inductive Prim
  | load (o : Ord)
  | store (v : Int) (o : Ord)
  | rmw (f : RmwFn) (success failure : Ord)
  | unsyncLoad
  | withMut (v : Int)          -- `with_mut(|p| { let old = *p; *p = v; old })`
deriving DecidableEq, Repr, Inhabited

namespace Prim

/-- does the primitive run inside `rt::synchronize` (causality increment first)? -/
def synchronizes : Prim → Bool
  | load _ | store _ _ | rmw _ _ _ => true
  | _ => false

/-- the action recorded by `self.branch(action, ..)`; `none`: not a branch point -/
def action : Prim → Option Action
  | load _ => some .atomLoad
  | store _ _ => some .atomStore
  | rmw _ _ _ => some .atomRmw
  | _ => none

/-- the candidate stores the primitive permutes through (`push_load` seed), if it reads through
the path.  To be evaluated *after* the causality increment of `synchronize`. -/
def candidates (a : Atomic) (ths : Threads) : Prim → Except Panic (Option (List Nat))
  | load o => (a.matchLoadToStores ths o).map some
  | rmw _ _ _ => a.matchRmwToStores.map some
  | _ => .ok none

/-- the effect of the primitive once the store index `idx` has been chosen (`idx` is ignored by
primitives that do not read through the path).  To be evaluated after the causality increment. -/
def effect (t : ATy) (a : Atomic) (ths : Threads) (p : Prim) (idx : Nat) :
    Except Panic (Atomic × Threads × Ret) :=
  match p with
  | load o => do
    let (a, ths, u) ← a.load ths idx o
    pure (a, ths, .val (t.fromU64 u))
  | store v o => do
    let a ← a.trackStore ths
    pure (a.store ths Sync.new (t.intoU64 v) o, ths, .unit)
  | rmw f so fo => do
    let (a, ths, prev, okk) ← a.rmw ths idx so fo
      (fun u => (f.apply t (t.fromU64 u)).map t.intoU64)
    pure (a, ths, if okk then .ok (t.fromU64 prev) else .err (t.fromU64 prev))
  | unsyncLoad => do
    let a ← a.trackUnsyncLoad ths
    pure (a, ths, .val (t.fromU64 a.latestValue))
  | withMut v => do
    -- entry: track, set `is_mutating`, read the latest value
    let a ← a.trackUnsyncMut ths
    let old := t.fromU64 a.latestValue
    -- `Reset::drop`: clear the flag, write the value back, track again
    let a := a.modifyStore (Atomic.index (a.cnt - 1)) fun s => { s with value := t.intoU64 v }
    let a ← a.trackUnsyncMut ths
    pure (a, ths, .val old)

end Prim

/-- the atomic operations of the DSL = the public API of `loom::sync::atomic::*` -/
inductive AOp
  | load (o : Ord)
  | store (v : Int) (o : Ord)
  | swap (v : Int) (o : Ord)
  | cas (cur new : Int) (so fo : Ord)        -- compare_exchange and compare_exchange_weak
  | cswp (cur new : Int) (o : Ord)           -- compare_and_swap
  | fetch (f : RmwFn) (o : Ord)              -- fetch_add … fetch_min (`f` is not `casEq`/`const`)
  | fupd (f : FupdFn) (so fo : Ord)          -- fetch_update(set_order, fetch_order, f)
  | unsyncLoad                               -- unsync_load / into_inner
  | withMut (v : Int)
deriving DecidableEq, Repr, Inhabited

/-- failure ordering chosen by `compare_and_swap` -/
def cswpFailure : Ord → Ord
  | .rlx | .rel => .rlx
  | .acq | .ar => .acq
  | .sc => .sc

/-- the first primitive an API call performs -/
def AOp.first : AOp → Prim
  | .load o => .load o
  | .store v o => .store v o
  | .swap v o => .rmw (.const v) o o
  | .cas c n so fo => .rmw (.casEq c n) so fo
  | .cswp c n o => .rmw (.casEq c n) o (cswpFailure o)
  | .fetch f o => .rmw f o o
  | .fupd _ _ fo => .load fo
  | .unsyncLoad => .unsyncLoad
  | .withMut v => .withMut v

/-- what an API call does with the result `r` of a primitive: either it returns (`inl`), or it
performs another primitive (`inr`) — only `fetch_update` loops. -/
def AOp.next (t : ATy) (op : AOp) (r : Ret) : Ret ⊕ Prim :=
  match op with
  | .swap _ _ | .fetch _ _ =>
    match r with | .ok v => .inl (.val v) | r => .inl r      -- `rmw(..).unwrap()`
  | .cswp _ _ _ =>
    match r with | .ok v | .err v => .inl (.val v) | r => .inl r
  | .fupd f so fo =>
    -- `prev` is the value loaded first, or the `Err(next_prev)` of a failed CAS
    match r with
    | .ok v => .inl (.ok v)
    | .val prev | .err prev =>
      match f.apply t prev with
      | none => .inl (.err prev)
      | some next => .inr (.rmw (.casEq prev next) so fo)
    | r => .inl r
  | _ => .inl r

end LoomVerif

/-
Model of the non-atomic object states of `src/rt/`: `mutex.rs`, `rwlock.rs`, `condvar.rs`,
`notify.rs`, `mpsc.rs`, `arc.rs`, `alloc.rs`, `cell.rs`, and of the object store of
`object.rs` (`Entry`, `last_dependent_access`, `set_last_access`, `check_for_leaks`).
Import-free.
-/
import LoomVerif.Model.Atomic

namespace LoomVerif

/-- `mutex::State` -/
structure MutexSt where
  seqCst : Bool := true
  lock : Option Nat := none
  lastAccess : Option Access := none
  sync : Sync := Sync.new
deriving DecidableEq, Repr, Inhabited

/-- `rwlock::Locked` (readers kept sorted, the code uses a `HashSet`) -/
inductive RwLocked
  | read (readers : List Nat) | write (w : Nat)
deriving DecidableEq, Repr, Inhabited

/-- `rwlock::State` -/
structure RwSt where
  lock : Option RwLocked := none
  lastAccess : Option Access := none
  sync : Sync := Sync.new
deriving DecidableEq, Repr, Inhabited

/-- `condvar::State` -/
structure CondvarSt where
  lastAccess : Option Access := none
  waiters : List Nat := []
deriving DecidableEq, Repr, Inhabited

/-- `notify::State` -/
structure NotifySt where
  spurious : Bool := false
  didSpur : Bool := false
  seqCst : Bool := false
  notified : Bool := false
  lastAccess : Option Access := none
  sync : Sync := Sync.new
deriving DecidableEq, Repr, Inhabited

/-- `mpsc::State`; `queue` is the content of the wrapped `std::sync::mpsc` channel, which the
API glue (`src/sync/mpsc.rs`) feeds in the same step -/
structure ChanSt where
  msgCnt : Nat := 0
  lastSend : Option Access := none
  lastRecv : Option Access := none
  senderSync : Sync := Sync.new
  receiverSync : List Sync := []
  queue : List Int := []
deriving DecidableEq, Repr, Inhabited

/-- `arc::RefModify` -/
inductive RefModify | inc | dec
deriving DecidableEq, Repr, Inhabited

/-- `arc::State` -/
structure ArcSt where
  refCnt : Nat := 1
  sync : Sync := Sync.new
  lastInc : Option Access := none
  lastDec : Option Access := none
  lastInspect : Option Access := none
  lastMod : Option RefModify := none
deriving DecidableEq, Repr, Inhabited

/-- `alloc::State` -/
structure AllocSt where
  isDropped : Bool := false
deriving DecidableEq, Repr, Inhabited

/-- `cell::State`; `value` is the content of the wrapped `std::cell::UnsafeCell` -/
structure CellSt where
  isReading : Nat := 0
  isWriting : Bool := false
  readAccess : VV := VV.zero
  writeAccess : VV := VV.zero
  value : Int := 0
deriving DecidableEq, Repr, Inhabited

/-- `object::Entry` -/
inductive Obj
  | alloc (s : AllocSt)
  | arc (s : ArcSt)
  | atomic (s : Atomic)
  | mutex (s : MutexSt)
  | condvar (s : CondvarSt)
  | notify (s : NotifySt)
  | rwlock (s : RwSt)
  | chan (s : ChanSt)
  | cell (s : CellSt)
deriving DecidableEq, Repr, Inhabited

namespace ArcSt
/-- `arc::State::last_dependent_access` -/
def lastDependentAccess (s : ArcSt) : Action → Option Access
  | .arcInc => s.lastInspect
  | .arcDec =>
    -- the later of the last decrement and the last inspection (repair of finding F10)
    match s.lastDec, s.lastInspect with
    | some d, some i => if i.pathId > d.pathId then some i else some d
    | some d, none => some d
    | none, i => i
  | .arcInspect =>
    match s.lastMod with
    | some .inc => s.lastInc
    | some .dec => s.lastDec
    | none => none
  | _ => none
/-- `arc::State::set_last_access` -/
def setLastAccess (s : ArcSt) (act : Action) (pid : Nat) (v : VV) : ArcSt :=
  match act with
  | .arcInc => { s with lastMod := some .inc, lastInc := some ⟨pid, v⟩ }
  | .arcDec => { s with lastMod := some .dec, lastDec := some ⟨pid, v⟩ }
  | .arcInspect => { s with lastInspect := some ⟨pid, v⟩ }
  | _ => s
end ArcSt

namespace ChanSt
def lastDependentAccess (s : ChanSt) : Action → Option Access
  | .chanSend => s.lastSend
  | .chanRecv => s.lastRecv
  | _ => none
def setLastAccess (s : ChanSt) (act : Action) (pid : Nat) (v : VV) : ChanSt :=
  match act with
  | .chanSend => { s with lastSend := some ⟨pid, v⟩ }
  | .chanRecv => { s with lastRecv := some ⟨pid, v⟩ }
  | _ => s
end ChanSt

/-- `object::Store` -/
abbrev Objs := List Obj

namespace Objs

/-- `Store::last_dependent_access`; `.error` = "object is not branchable" -/
def lastDependentAccess (os : Objs) (op : Operation) : Except Panic (Option Access) :=
  match os[op.obj]? with
  | some (.arc s) => .ok (s.lastDependentAccess op.action)
  | some (.atomic s) => .ok (s.lastDependentAccess op.action)
  | some (.mutex s) => .ok s.lastAccess
  | some (.condvar s) => .ok s.lastAccess
  | some (.notify s) => .ok s.lastAccess
  | some (.rwlock s) => .ok s.lastAccess
  | some (.chan s) => .ok (s.lastDependentAccess op.action)
  | _ => .error (.internal 20)

/-- `Store::set_last_access` -/
def setLastAccess (os : Objs) (op : Operation) (pid : Nat) (v : VV) : Except Panic Objs :=
  match os[op.obj]? with
  | some (.arc s) => .ok (os.set op.obj (.arc (s.setLastAccess op.action pid v)))
  | some (.atomic s) => .ok (os.set op.obj (.atomic (s.setLastAccess op.action pid v)))
  | some (.mutex s) => .ok (os.set op.obj (.mutex { s with lastAccess := some ⟨pid, v⟩ }))
  | some (.condvar s) => .ok (os.set op.obj (.condvar { s with lastAccess := some ⟨pid, v⟩ }))
  | some (.notify s) => .ok (os.set op.obj (.notify { s with lastAccess := some ⟨pid, v⟩ }))
  | some (.rwlock s) => .ok (os.set op.obj (.rwlock { s with lastAccess := some ⟨pid, v⟩ }))
  | some (.chan s) => .ok (os.set op.obj (.chan (s.setLastAccess op.action pid v)))
  | _ => .error (.internal 21)

/-- `Store::check_for_leaks`: the first leaking entry decides the message -/
def checkForLeaks : Objs → Except Panic Unit
  | [] => .ok ()
  | .alloc s :: os => if !s.isDropped then .error .leakAlloc else checkForLeaks os
  | .arc s :: os => if s.refCnt != 0 then .error .leakArc else checkForLeaks os
  | .chan s :: os => if s.msgCnt != 0 then .error .leakMsg else checkForLeaks os
  | _ :: os => checkForLeaks os

end Objs
end LoomVerif

/-
Text rendering of the twin's state in exactly the formats of loom's `verif-hooks` dumps
(`Set::verif_dump`, `Store::verif_dump`) and of the harness' record lines.  Import-free.
-/
import LoomVerif.Model.Interp
import LoomVerif.Model.Ckpt

namespace LoomVerif

def optNat : Option Nat → String
  | none => "-"
  | some n => toString n

def Action.render : Action → String
  | .arcInc => "Arc(RefInc)" | .arcDec => "Arc(RefDec)" | .arcInspect => "Arc(Inspect)"
  | .atomLoad => "Atomic(Load)" | .atomStore => "Atomic(Store)" | .atomRmw => "Atomic(Rmw)"
  | .chanSend => "Channel(MsgSend)" | .chanRecv => "Channel(MsgRecv)"
  | .rwRead => "RwLock(Read)" | .rwWrite => "RwLock(Write)"
  | .opaque => "Opaque"

def Access.render : Option Access → String
  | none => "-"
  | some a => s!"{a.pathId}:{a.vv.render}"

def b01 (b : Bool) : String := if b then "1" else "0"

def Thread.render (i : Nat) (t : Thread) : String :=
  let st := match t.state with
    | .runnable => "R" | .blocked => "B" | .yield => "Y"
    | .terminated => "T"
  let st := st ++ (if t.token then "u" else "") ++ (if t.parked then "p" else "")
  let op := match t.operation with
    | some o => s!"{o.obj}:{o.action.render}" ++ (if o.blocking then "!" else "")
    | none => "-"
  s!"t{i} st={st} c={t.causality.render} r={t.released.render} d={t.dporVV.render} uc={t.unparkCaus.render} " ++
  s!"ly={optNat t.lastYield} yc={t.yieldCount} op={op} crit=0"

def Threads.render (s : Threads) : String :=
  let hd := s!"active={optNat s.active} sc={s.seqCst.render}"
  let rec go (i : Nat) : List Thread → List String
    | [] => []
    | t :: ts => t.render i :: go (i + 1) ts
  " | ".intercalate (hd :: go 0 s.threads)

def AStore.render (s : AStore) : String :=
  let fs := ",".intercalate (s.firstSeen.map optNat)
  "{" ++ s!"v={s.value} hb={s.hb.render} mo={s.mo.render} sync={s.sync.hb.render} fs=[{fs}] sc={b01 s.seqCst}" ++ "}"

def Obj.render : Obj → String
  | .alloc s => s!"Alloc dropped={b01 s.isDropped}"
  | .arc s =>
    let m := match s.lastMod with | some .inc => "inc" | some .dec => "dec" | none => "-"
    s!"Arc cnt={s.refCnt} sync={s.sync.hb.render} inc={Access.render s.lastInc} " ++
    s!"dec={Access.render s.lastDec} insp={Access.render s.lastInspect} mod={m}"
  | .atomic a =>
    s!"Atomic cnt={a.cnt} la={Access.render a.lastAccess} lnl={Access.render a.lastNonLoad} " ++
    s!"loaded={a.loadedAt.render} uloaded={a.unsyncLoadedAt.render} stored={a.storedAt.render} " ++
    s!"umut={a.unsyncMutAt.render} mutating={b01 a.isMutating} stores=" ++
    ";".intercalate (a.stores.map AStore.render)
  | .mutex s =>
    s!"Mutex sc={b01 s.seqCst} lock={optNat s.lock} la={Access.render s.lastAccess} sync={s.sync.hb.render}"
  | .condvar s =>
    s!"Condvar la={Access.render s.lastAccess} waiters=[{",".intercalate (s.waiters.map toString)}]"
  | .notify s =>
    s!"Notify spurious={b01 s.spurious} did_spur={b01 s.didSpur} sc={b01 s.seqCst} " ++
    s!"notified={b01 s.notified} la={Access.render s.lastAccess} sync={s.sync.hb.render}"
  | .rwlock s =>
    let l := match s.lock with
      | none => "-"
      | some (.write w) => s!"W{w}"
      | some (.read rs) => "R" ++ "+".intercalate (rs.map toString)
    s!"RwLock lock={l} la={Access.render s.lastAccess} sync={s.sync.hb.render}"
  | .chan s =>
    s!"Channel cnt={s.msgCnt} ls={Access.render s.lastSend} lr={Access.render s.lastRecv} " ++
    s!"ssync={s.senderSync.hb.render} rsync=[{";".intercalate (s.receiverSync.map (·.hb.render))}]"
  | .cell s =>
    s!"Cell reading={s.isReading} writing={b01 s.isWriting} rd={s.readAccess.render} wr={s.writeAccess.render}"

def Panic.render : Panic → String
  | .branchLimit => "branchLimit" | .deadlock => "deadlock" | .threadLimit => "threadLimit"
  | .nondet => "nondet" | .notCritical => "notCritical" | .notExploring => "notExploring"
  | .causality k => s!"causality:{k}"
  | .leakArc => "leakArc" | .leakAlloc => "leakAlloc" | .leakMsg => "leakMsg"
  | .expectedLock => "expectedLock" | .expectedRead => "expectedRead"
  | .expectedWrite => "expectedWrite" | .notNotified => "notNotified" | .invalidRw => "invalidRw"
  | .arcReleased => "arcReleased" | .cellBusy => "cellBusy" | .atomicMutating => "atomicMutating"
  | .lazyShutdown => "lazyShutdown" | .tlsDestroyed => "tlsDestroyed"
  | .notifyTwoWaiters => "notifyTwoWaiters" | .msgUnderflow => "msgUnderflow" | .user => "user"
  | .internal c => s!"internal:{c}" | .fuel => "fuel"

def Event.render (e : Event) : String :=
  s!"E {e.tid} {e.pc} {e.ret.render} {e.caus.render}"

/-- the record lines of one iteration, as the harness prints them -/
def IterResult.lines (r : IterResult) : List String :=
  let evs := r.events.map Event.render
  match r.term with
  | some p => evs ++ [s!"T {p.render}"]
  | none =>
    let rec objs (i : Nat) : List Obj → List String
      | [] => []
      | o :: os => s!"O {i} {o.render}" :: objs (i + 1) os
    evs ++ ["T ok", s!"P {r.exec.path.render}", s!"H {r.exec.threads.render}"] ++ objs 0 r.exec.objs


/-! ### views and digests

The *safety view* of an iteration drops everything that belongs to the exploration bookkeeping
(DPOR clocks and access slots, backtrack marks, preemption counters), so that it can be compared
between the implementation and a replay of the same decisions on the twin even when the
exploration itself differs. -/

/-- drop the space-separated tokens that start with one of the given prefixes -/
def dropTokens (pfx : List String) (line : String) : String :=
  " ".intercalate ((line.splitOn " ").filter fun t => !pfx.any fun p => t.startsWith p)

def threadsSafety (line : String) : String := dropTokens ["d="] line

def objSafety (line : String) : String :=
  dropTokens ["la=", "lnl=", "ls=", "lr=", "inc=", "dec=", "insp=", "mod="] line

def ThSt.safetyLetter : ThSt → Char
  | .disabled => 'D' | .yield => 'Y' | .active => 'A' | _ => 'S'

/-- decisions and enabledness recorded in a path, without marks and counters -/
def Path.safetyView (p : Path) : String :=
  " ".intercalate (p.branches.map fun
    | .sched s => String.ofList (s.threads.map ThSt.safetyLetter)
    | .load l => "L" ++ ",".intercalate ((l.values.take l.len).map toString) ++ s!"@{l.pos}"
    | .spur u => if u.spur then "U1" else "U0")

def fnv1a (s : String) : UInt64 :=
  s.toUTF8.foldl (fun h b => (h ^^^ b.toUInt64) * 0x100000001B3) 0xCBF29CE484222325

def hex64 (x : UInt64) : String :=
  let digits := "0123456789abcdef".toList
  String.ofList ((List.range 16).reverse.map fun i =>
    digits.getD ((x >>> (UInt64.ofNat (4 * i))) &&& 0xF).toNat '0')

/-- record lines of one iteration in digest mode: events, termination, and two hashes -/
def IterResult.digestLines (start : Path) (r : IterResult) : List String :=
  let evs := r.events.map Event.render
  match r.term with
  | some p => evs ++ [s!"T {p.render}"]
  | none =>
    let rec objs (i : Nat) : List Obj → List String
      | [] => []
      | o :: os => s!"O {i} {o.render}" :: objs (i + 1) os
    let full := [s!"S {start.render}", s!"P {r.exec.path.render}", s!"H {r.exec.threads.render}"]
      ++ objs 0 r.exec.objs
    let safe := [s!"V {r.exec.path.safetyView}", threadsSafety s!"H {r.exec.threads.render}"]
      ++ (objs 0 r.exec.objs).map objSafety
    evs ++ ["T ok", s!"V {r.exec.path.safetyView}", s!"XS {hex64 (fnv1a ("\n".intercalate safe))}",
            s!"XE {hex64 (fnv1a ("\n".intercalate full))}"]

end LoomVerif

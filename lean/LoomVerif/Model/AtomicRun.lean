/-
The single-thread run of the loom atomic model: one thread (thread 0) creates an atomic cell of
type `t` and applies a sequence of API operations to it.

Every API call performs `op.first` and then follows `AOp.next` until it returns.  A primitive that
runs inside `rt::synchronize` first increments the thread's own clock; a primitive that reads
through the path (`load`, `rmw`) asks `match_load_to_stores` / `match_rmw_to_stores` for the
candidate stores, and the model checker explores EVERY candidate — therefore the run returns the
list of all possible outcomes.  Import-free besides the model files.
-/
import LoomVerif.Model.AtomicApi

namespace LoomVerif

/-- run `f` on every element of `l` and concatenate the outcomes; the first panic wins (the model
checker reports a panic of any explored execution) -/
def forAll {α β : Type} (l : List α) (f : α → Except Panic (List β)) : Except Panic (List β) :=
  match l with
  | [] => .ok []
  | x :: xs =>
    match f x with
    | .error e => .error e
    | .ok ys =>
      match forAll xs f with
      | .error e => .error e
      | .ok zs => .ok (ys ++ zs)

/-- fuel given to one API call (number of primitives it may perform; `fetch_update` loops) -/
def opFuel : Nat := 4

namespace Prim

/-- all outcomes of one `rt` primitive -/
def runAll (t : ATy) (a : Atomic) (ths : Threads) (p : Prim) :
    Except Panic (List (Atomic × Threads × Ret)) :=
  let ths := if p.synchronizes then ths.activeCausalityInc else ths
  match p.candidates a ths with
  | .error e => .error e
  | .ok cands =>
    let idxs := match cands with | some l => l | none => [0]
    forAll idxs fun idx =>
      match p.effect t a ths idx with
      | .error e => .error e
      | .ok out => .ok [out]

end Prim

namespace AOp

/-- all outcomes of an API call that is about to perform primitive `p` -/
def runFrom (t : ATy) (op : AOp) : Nat → Atomic → Threads → Prim →
    Except Panic (List (Atomic × Threads × Ret))
  | 0, _, _, _ => .error .fuel
  | fuel + 1, a, ths, p =>
    match p.runAll t a ths with
    | .error e => .error e
    | .ok outs =>
      forAll outs fun out =>
        match op.next t out.2.2 with
        | .inl ret => .ok [(out.1, out.2.1, ret)]
        | .inr p' => runFrom t op fuel out.1 out.2.1 p'

/-- all outcomes of one API call -/
def runAll (t : ATy) (op : AOp) (a : Atomic) (ths : Threads) :
    Except Panic (List (Atomic × Threads × Ret)) :=
  op.runFrom t opFuel a ths op.first

end AOp

/-- all outcomes (returned values, final content) of a sequence of API calls from state
`(a, ths)` -/
def atomicRunFrom (t : ATy) : List AOp → Atomic → Threads → Except Panic (List (List Ret × Int))
  | [], a, _ => .ok [([], t.fromU64 a.latestValue)]
  | op :: ops, a, ths =>
    match op.runAll t a ths with
    | .error e => .error e
    | .ok outs =>
      forAll outs fun out =>
        match atomicRunFrom t ops out.1 out.2.1 with
        | .error e => .error e
        | .ok tails => .ok (tails.map fun tl => (out.2.2 :: tl.1, tl.2))

/-- the single-thread program `let a = Atomic::<t>::new(init); ops…; a.unsync_load()`:
all outcomes -/
def atomicRunAll (t : ATy) (init : Int) (ops : List AOp) :
    Except Panic (List (List Ret × Int)) :=
  let ths := Threads.new 5
  match Atomic.new ths (t.intoU64 init) with
  | .error e => .error e
  | .ok a => atomicRunFrom t ops a ths

end LoomVerif

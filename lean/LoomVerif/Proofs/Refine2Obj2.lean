/-
Refinement, WAIT fragment, part 4: transport of the condvar part, the general update of one `Notify`, and the
bundle `RO` of the object parts with its transport lemmas.
-/
import LoomVerif.Proofs.Refine2Obj

namespace LoomVerif
namespace Refine2
open Refine Sy

/-! ### condvars: transport -/

/-- the declared condvars look the same in `objs'` -/
def CvViews (p : Prog) (objs objs' : List Obj) : Prop :=
  ∀ v ws, v < p.cfg.nCondvars → objView2 objs (cvIdx p v) = some (.condvar ws) →
    objView2 objs' (cvIdx p v) = some (.condvar ws)

theorem RCv.views {p ctl objs objs' ths cq} (h : RCv p ctl objs ths cq) (hv : CvViews p objs objs') :
    RCv p ctl objs' ths cq := by
  refine ⟨h.len, ?_, ?_⟩
  · intro v hv'
    obtain ⟨ws, h1, h2⟩ := h.q v hv'
    exact ⟨ws, hv _ _ hv' h1, h2⟩
  · intro i hi
    obtain ⟨a1, a2⟩ := h.th i hi
    refine ⟨a1, ?_⟩
    intro v m ws hp hvn hview
    obtain ⟨ws0, h1, _⟩ := h.q v hvn
    have := hv _ _ hvn h1
    rw [this] at hview
    cases hview
    exact a2 v m ws hp hvn h1

theorem RCv.setOther {p ctl objs ths cq} (h : RCv p ctl objs ths cq) {o : Nat} {v0 : OV2}
    (hv0 : objView2 objs o = some v0) (x : Obj) (k : ∀ ws, v0 ≠ .condvar ws) :
    RCv p ctl (objs.set o x) ths cq :=
  h.views fun _ _ _ hv => objView2_set_keep x hv0 hv (fun e => k _ e.symm)

/-- the control table changes at `t`: same body, same `cvWait` status, and a queued thread stays at stage 2 -/
theorem RCv.modify {p ctl objs ths cq} (h : RCv p ctl objs ths cq) (t : Nat) (f : TCtl → TCtl)
    (hbody : (f (ctl.getD t {})).body = (ctl.getD t {}).body)
    (hcv : pendCv p (f (ctl.getD t {})) = pendCv p (ctl.getD t {}))
    (hst : ∀ v ws, v < p.cfg.nCondvars → objView2 objs (cvIdx p v) = some (.condvar ws) → t ∈ ws →
      (f (ctl.getD t {})).stage = 2) :
    RCv p (ctl.modify t f) objs ths cq := by
  have hlen : (ctl.modify t f).length = ctl.length := by simp
  have body_eq : ∀ i, i < ctl.length → ((ctl.modify t f).getD i {}).body = (ctl.getD i {}).body := by
    intro i hi
    by_cases hit : i = t
    · subst hit; rw [getD_modify_self _ _ _ _ hi]; exact hbody
    · rw [getD_modify_ne _ _ _ _ _ hit]
  have cv_eq : ∀ i, i < ctl.length → pendCv p ((ctl.modify t f).getD i {}) = pendCv p (ctl.getD i {}) := by
    intro i hi
    by_cases hit : i = t
    · subst hit; rw [getD_modify_self _ _ _ _ hi]; exact hcv
    · rw [getD_modify_ne _ _ _ _ _ hit]
  refine ⟨h.len, ?_, ?_⟩
  · intro v hv
    obtain ⟨ws, h1, h2, h3, h4⟩ := h.q v hv
    refine ⟨ws, h1, ?_, h3, ?_⟩
    · rw [h2]
      apply List.map_congr_left
      intro i hi
      exact (body_eq i (h4 i hi).1).symm
    · intro i hi
      obtain ⟨b1, b2, m, b3⟩ := h4 i hi
      refine ⟨by rw [hlen]; exact b1, ?_, m, by rw [cv_eq i b1]; exact b3⟩
      by_cases hit : i = t
      · subst hit; rw [getD_modify_self _ _ _ _ b1]; exact hst v ws hv h1 hi
      · rw [getD_modify_ne _ _ _ _ _ hit]; exact b2
  · intro i hi
    rw [hlen] at hi
    have := h.th i hi
    unfold CvTh at this ⊢
    rw [cv_eq i hi, body_eq i hi]
    exact this

theorem RCv.modifyPlain {p ctl objs ths cq} (h : RCv p ctl objs ths cq) (t : Nat) (f : TCtl → TCtl)
    (hbody : (f (ctl.getD t {})).body = (ctl.getD t {}).body)
    (h0 : pendCv p (ctl.getD t {}) = none) (h1 : pendCv p (f (ctl.getD t {})) = none) :
    RCv p (ctl.modify t f) objs ths cq := by
  refine h.modify t f hbody (h1.trans h0.symm) ?_
  intro v ws hv hview ht
  obtain ⟨ws0, a1, _, _, a4⟩ := h.q v hv
  rw [a1] at hview; cases hview
  obtain ⟨_, _, m, hm⟩ := a4 t ht
  rw [h0] at hm; cases hm

theorem RCv.append {p ctl objs ths cq} (h : RCv p ctl objs ths cq) (c : TCtl) (hc : c.stage = 0)
    (hth : (ths.getD c.body {}).cvWaiting = none ∧ (ths.getD c.body {}).cvNotified = none) :
    RCv p (ctl ++ [c]) objs ths cq := by
  have hnew : pendCv p c = none := by
    unfold pendCv
    split
    · rw [if_neg (by omega)]
    · rfl
  refine ⟨h.len, ?_, ?_⟩
  · intro v hv
    obtain ⟨ws, h1, h2, h3, h4⟩ := h.q v hv
    refine ⟨ws, h1, ?_, h3, ?_⟩
    · rw [h2]
      apply List.map_congr_left
      intro i hi
      rw [getD_append_left _ _ _ _ (h4 i hi).1]
    · intro i hi
      obtain ⟨b1, b2, m, b3⟩ := h4 i hi
      rw [getD_append_left _ _ _ _ b1]
      exact ⟨by simp; omega, b2, m, b3⟩
  · intro i hi
    by_cases hin : i < ctl.length
    · rw [getD_append_left _ _ _ _ hin]; exact h.th i hin
    · have : i = ctl.length := by simp at hi; omega
      subst this
      rw [getD_append_new]
      refine ⟨fun _ => hth, ?_⟩
      intro v m ws hp
      rw [hnew] at hp; cases hp

/-! ### one `Notify` changes -/

/-- `Notify` `n` changes on both sides, together with the control record of thread `t`, which is at an
operation on `n` (or at none on a `Notify`) -/
theorem RN.setN {p ctl objs nw nf ns} (h : RN p ctl objs nw nf ns) {n : Nat} (hn : n < p.cfg.nNotifies)
    (t : Nat) (f : TCtl → TCtl) (x : Obj) (fl ds b us : Bool) (hx : view2 x = .notify true fl ds)
    (hoth : ∀ n' st, n' ≠ n → pendN p (ctl.getD t {}) ≠ some (n', st) ∧
      pendN p (f (ctl.getD t {})) ≠ some (n', st))
    (h2 : ∀ i st, i < ctl.length → pendN p ((ctl.modify t f).getD i {}) = some (n, st) → b = true)
    (h3 : ∀ i j st st', i < ctl.length → j < ctl.length → pendN p ((ctl.modify t f).getD i {}) = some (n, st) →
      pendN p ((ctl.modify t f).getD j {}) = some (n, st') → i = j)
    (h4 : ∀ i, i < ctl.length → pendN p ((ctl.modify t f).getD i {}) = some (n, 2) → ds = true ∧ us = false)
    (h5 : (∀ i, i < ctl.length → pendN p ((ctl.modify t f).getD i {}) ≠ some (n, 2)) → ds = us) :
    RN p (ctl.modify t f) (objs.set (notifyIdx p n) x) (nw.set n b) (nf.set n fl) (ns.set n us) := by
  obtain ⟨ds0, hv0, _⟩ := h.n n hn
  have hlt : notifyIdx p n < objs.length := objView2_lt hv0
  have hlen : (ctl.modify t f).length = ctl.length := by simp
  have lF : n < nf.length := by rw [h.lenF]; exact hn
  have lS : n < ns.length := by rw [h.lenS]; exact hn
  have lW : n < nw.length := by rw [h.lenW]; exact hn
  refine ⟨by simpa using h.lenF, by simpa using h.lenS, by simpa using h.lenW, fun n' hn' => ?_⟩
  by_cases e : n' = n
  · subst e
    refine ⟨ds, ?_, ?_, ?_, ?_, ?_⟩
    · rw [objView2_set_self _ hlt, hx, getD_set_self' _ _ _ _ lF]
    · intro i st hi hp
      rw [hlen] at hi
      rw [getD_set_self' _ _ _ _ lW]; exact h2 i st hi hp
    · intro i j st st' hi hj hp hp'
      rw [hlen] at hi hj
      exact h3 i j st st' hi hj hp hp'
    · intro i hi hp
      rw [hlen] at hi
      rw [getD_set_self' _ _ _ _ lS]; exact h4 i hi hp
    · intro hall
      rw [getD_set_self' _ _ _ _ lS]
      apply h5
      intro i hi
      exact hall i (by rw [hlen]; exact hi)
  · have key : ∀ i st, i < ctl.length →
        (pendN p ((ctl.modify t f).getD i {}) = some (n', st) ↔ pendN p (ctl.getD i {}) = some (n', st)) := by
      intro i st hi
      by_cases hit : i = t
      · subst hit
        rw [getD_modify_self _ _ _ _ hi]
        constructor
        · intro hh; exact absurd hh (hoth n' st e).2
        · intro hh; exact absurd hh (hoth n' st e).1
      · rw [getD_modify_ne _ _ _ _ _ hit]
    obtain ⟨ds', a1, a2, a3, a4, a5⟩ := h.n n' hn'
    refine ⟨ds', ?_, ?_, ?_, ?_, ?_⟩
    · rw [objView2_set_ne _ _ (by unfold notifyIdx; omega), getD_set_ne _ _ _ _ _ e]; exact a1
    · intro i st hi hp
      rw [hlen] at hi
      rw [getD_set_ne _ _ _ _ _ e]
      exact a2 i st hi ((key i st hi).1 hp)
    · intro i j st st' hi hj hp hp'
      rw [hlen] at hi hj
      exact a3 i j st st' hi hj ((key i st hi).1 hp) ((key j st' hj).1 hp')
    · intro i hi hp
      rw [hlen] at hi
      rw [getD_set_ne _ _ _ _ _ e]
      exact a4 i hi ((key i 2 hi).1 hp)
    · intro hall
      rw [getD_set_ne _ _ _ _ _ e]
      apply a5
      intro i hi hp
      exact hall i (by rw [hlen]; exact hi) ((key i 2 hi).2 hp)

/-! ### the bundle -/

/-- the object parts of the relation -/
structure RO (p : Prog) (ctl : List TCtl) (sp : List (Nat × Nat × Nat)) (objs : List Obj) (nw : List Bool)
    (s : SCData2) : Prop where
  y : RY2 p ctl sp objs s.cells s.mutex
  ch : RCh p ctl objs s.chan s.rxDropped s.chanLeft
  n : RN p ctl objs nw s.nFlag s.nSpurUsed
  cv : RCv p ctl objs s.ths s.cvQueue

theorem RO.viewLe {p ctl sp objs objs' nw s} (h : RO p ctl sp objs nw s) (hv : ViewLe2 objs objs') :
    RO p ctl sp objs' nw s :=
  ⟨h.y.viewLe hv, h.ch.viewLe hv, h.n.viewLe hv, h.cv.views fun _ _ _ hh => hv _ _ hh⟩

/-- the reference threads change, but not in the condvar fields -/
theorem RO.ths {p ctl sp objs nw s} (h : RO p ctl sp objs nw s) (ths' : List DTh2) (hs : CvSame s.ths ths') :
    RO p ctl sp objs nw { s with ths := ths' } :=
  ⟨h.y, h.ch, h.n, h.cv.same hs⟩

/-- the active thread `t` moves inside or completes an operation that is not in the middle of an `nWait`, a
`cvWait`, and is not a `dropRx` -/
theorem RO.modifyPlain {p ctl sp objs nw s} (h : RO p ctl sp objs nw s) (t : Nat) (f : TCtl → TCtl)
    (hbody : (f (ctl.getD t {})).body = (ctl.getD t {}).body)
    (hpc : (ctl.getD t {}).pc ≤ (f (ctl.getD t {})).pc)
    (hfin : 10 ≤ (ctl.getD t {}).fin → 10 ≤ (f (ctl.getD t {})).fin)
    (hN : pendN p (f (ctl.getD t {})) = pendN p (ctl.getD t {}))
    (hC0 : pendCv p (ctl.getD t {}) = none) (hC1 : pendCv p (f (ctl.getD t {})) = none)
    (hD : ∀ q, pendD p (ctl.getD t {}) = some q → pendD p (f (ctl.getD t {})) = some q) :
    RO p (ctl.modify t f) sp objs nw s :=
  ⟨h.y.modify t f hbody hfin, h.ch.modify t f hbody hpc hD, h.n.modify t f hN, h.cv.modifyPlain t f hbody hC0 hC1⟩

theorem RO.setCell {p ctl sp objs nw s} (h : RO p ctl sp objs nw s) {c : Nat}
    (hc : c < p.cfg.nCells) (x : Obj) (v : Int) (hx : view2 x = .cell v) :
    RO p ctl sp (objs.set (cellIdx p c) x) nw { s with cells := s.cells.set c v } := by
  have hv0 := h.y.cell c hc
  exact ⟨h.y.setCell hc x v hx, h.ch.setOther hv0 x (by intro _ _ e; cases e),
    h.n.setOther hv0 x (by intro _ _ e; cases e), h.cv.setOther hv0 x (by intro _ e; cases e)⟩

theorem RO.setMutex {p ctl sp objs nw s} (h : RO p ctl sp objs nw s) {m : Nat}
    (hm : m < p.cfg.nMutexes) (x : Obj) (l : Option Nat) (hx : view2 x = .mutex l)
    (hl : ∀ i, l = some i → i < ctl.length) :
    RO p ctl sp (objs.set (mutexIdx p m) x) nw
      { s with mutex := s.mutex.set m (l.map fun i => (ctl.getD i {}).body) } := by
  obtain ⟨l0, hv0, _, _⟩ := h.y.mtx m hm
  exact ⟨h.y.setMutex hm x l hx hl, h.ch.setOther hv0 x (by intro _ _ e; cases e),
    h.n.setOther hv0 x (by intro _ _ e; cases e), h.cv.setOther hv0 x (by intro _ e; cases e)⟩

theorem RO.setJoinNotify {p ctl sp objs nw s} (h : RO p ctl sp objs nw s) {o : Nat} {nt0 ds0 : Bool}
    (ho : objView2 objs o = some (.notify false nt0 ds0)) (x : Obj) (nt' ds' : Bool)
    (hx : view2 x = .notify false nt' ds')
    (hfin : nt' = true → ∀ b i, (b, i, o) ∈ sp → 10 ≤ (ctl.getD i {}).fin) :
    RO p ctl sp (objs.set o x) nw s :=
  ⟨h.y.setNotify ho x nt' ds' hx hfin, h.ch.setOther ho x (by intro _ _ e; cases e),
    h.n.setOther ho x (by intro _ _ e; cases e), h.cv.setOther ho x (by intro _ e; cases e)⟩

/-- `spawn b`: a fresh `JoinHandle` notify, a new control record at stage 0, a new entry of `spawned` -/
theorem RO.spawn {p ctl sp objs nw s} (h : RO p ctl sp objs nw s) (b : Nat) (x : Obj)
    (hx : view2 x = .notify false false false)
    (hth : (s.ths.getD b {}).cvWaiting = none ∧ (s.ths.getD b {}).cvNotified = none) :
    RO p (ctl ++ [({ body := b } : TCtl)]) ((b, ctl.length, objs.length) :: sp) (objs ++ [x]) nw s :=
  ⟨h.y.spawn b _ rfl x hx, (h.ch.append _).viewLe (ViewLe2.append _ _),
    (h.n.append _ rfl).viewLe (ViewLe2.append _ _),
    (h.cv.append _ rfl hth).views fun _ _ _ hh => ViewLe2.append _ _ _ _ hh⟩

end Refine2
end LoomVerif

/-
Refinement, WAIT fragment, part 26: a verified checker for "is this trace the trace of a run of the data
semantics?".  `saturate` computes the set of pairs (length of the prefix of the trace matched, state) reachable by
runs whose trace is a prefix of the given trace; if the set is closed under the steps (checked by computation) it
contains every such run (`Run2_in_closed`), so a trace none of whose full matches is in the set is not the trace of
any run (`not_trace`).
-/
import LoomVerif.Proofs.Refine2Data

namespace LoomVerif
namespace Refine2
open Refine

namespace Check

abbrev Trace := List (Nat × Nat × Ret)

/-- the successors of `(k, d)`: unlabelled steps keep `k`, a labelled step must record the `k`-th entry of `τ` -/
def succs (p : Prog) (T : Nat) (τ : Trace) (x : Nat × SCData2) : List (Nat × SCData2) :=
  (List.range T).flatMap fun t =>
    ((if SCData2.enabled p x.2 t then SCData2.stepL p x.2 t else []) ++ SCData2.spuriousL p x.2 t).filterMap
      fun ld =>
        match ld.1 with
        | none => some (x.1, ld.2)
        | some (pc, r) => if τ[x.1]? = some (t, pc, r) then some (x.1 + 1, ld.2) else none

/-- one round of saturation -/
def round (p : Prog) (T : Nat) (τ : Trace) (S : List (Nat × SCData2)) : List (Nat × SCData2) :=
  S.foldl (fun acc x => (succs p T τ x).foldl (fun acc y => if acc.contains y then acc else acc ++ [y]) acc) S

def saturate (p : Prog) (T : Nat) (τ : Trace) : Nat → List (Nat × SCData2) → List (Nat × SCData2)
  | 0, S => S
  | n + 1, S => saturate p T τ n (round p T τ S)

/-- `S` is closed under the steps, contains only states with at most `T` threads -/
def closed (p : Prog) (T : Nat) (τ : Trace) (S : List (Nat × SCData2)) : Bool :=
  S.all fun x => decide (x.2.ths.length ≤ T) && (succs p T τ x).all fun y => S.contains y

theorem label_length (t : Nat) (l : Option (Nat × Ret)) : (SCData.label t l).length ≤ 1 := by
  cases l <;> simp [SCData.label]

/-- a thread outside the thread table is neither enabled nor can it return spuriously -/
theorem not_started {d : SCData2} {t : Nat} (h : d.ths.length ≤ t) : (d.th t).started = false := by
  unfold SCData2.th
  simp [List.getD, List.getElem?_eq_none h]

theorem prefix_getElem {τ tr : Trace} {x : Nat × Nat × Ret} (h : tr ++ [x] <+: τ) : τ[tr.length]? = some x := by
  obtain ⟨rest, rfl⟩ := h
  simp

/-- **every run whose trace is a prefix of `τ` stays in a closed set that contains the initial state** -/
theorem Run2_in_closed {p : Prog} {T : Nat} {τ : Trace} {S : List (Nat × SCData2)} {d0 : SCData2}
    (hc : closed p T τ S = true) (h0 : (0, d0) ∈ S) {tr : Trace} {d : SCData2}
    (hr : SCData2.Run2 p d0 tr d) (hp : tr <+: τ) : (tr.length, d) ∈ S := by
  induction hr with
  | nil => exact h0
  | step hrun hen hst ih =>
    rename_i d1 d2 tr1 t l
    have hp1 : tr1 <+: τ := List.IsPrefix.trans (List.prefix_append _ _) hp
    have hin := ih hp1
    unfold closed at hc
    rw [List.all_eq_true] at hc
    have hx := hc _ hin
    simp only [Bool.and_eq_true, decide_eq_true_eq, List.all_eq_true] at hx
    have ht : t < T := by
      apply Classical.byContradiction
      intro hge
      have : (d1.th t).started = false := not_started (by have := hx.1; omega)
      unfold SCData2.enabled at hen
      rw [this] at hen
      simp at hen
    have hy : ((tr1 ++ SCData.label t l).length, d2) ∈ succs p T τ (tr1.length, d1) := by
      unfold succs
      rw [List.mem_flatMap]
      refine ⟨t, List.mem_range.2 ht, ?_⟩
      rw [List.mem_filterMap]
      refine ⟨(l, d2), ?_, ?_⟩
      · simp only [hen, if_true]
        exact List.mem_append_left _ hst
      · cases l with
        | none => simp [SCData.label]
        | some x =>
          obtain ⟨pc, r⟩ := x
          have := prefix_getElem (tr := tr1) (x := (t, pc, r)) (by simpa [SCData.label] using hp)
          simp [SCData.label, this]
    have := hx.2 _ hy
    exact List.contains_iff_mem.1 this |> fun h => by simpa using h
  | spur hrun hsp ih =>
    rename_i d1 d2 tr1 t l
    have hp1 : tr1 <+: τ := List.IsPrefix.trans (List.prefix_append _ _) hp
    have hin := ih hp1
    unfold closed at hc
    rw [List.all_eq_true] at hc
    have hx := hc _ hin
    simp only [Bool.and_eq_true, decide_eq_true_eq, List.all_eq_true] at hx
    have ht : t < T := by
      apply Classical.byContradiction
      intro hge
      have : (d1.th t).started = false := not_started (by have := hx.1; omega)
      unfold SCData2.spuriousL at hsp
      simp only [this] at hsp
      simp at hsp
    have hy : ((tr1 ++ SCData.label t l).length, d2) ∈ succs p T τ (tr1.length, d1) := by
      unfold succs
      rw [List.mem_flatMap]
      refine ⟨t, List.mem_range.2 ht, ?_⟩
      rw [List.mem_filterMap]
      refine ⟨(l, d2), List.mem_append_right _ hsp, ?_⟩
      cases l with
      | none => simp [SCData.label]
      | some x =>
        obtain ⟨pc, r⟩ := x
        have := prefix_getElem (tr := tr1) (x := (t, pc, r)) (by simpa [SCData.label] using hp)
        simp [SCData.label, this]
    have := hx.2 _ hy
    exact List.contains_iff_mem.1 this |> fun h => by simpa using h

/-- **`τ` is not the trace of any run** when no element of a closed set containing the initial state has matched
all of `τ` -/
theorem not_trace {p : Prog} {T : Nat} {τ : Trace} {S : List (Nat × SCData2)} {d0 : SCData2}
    (hc : closed p T τ S = true) (h0 : S.contains (0, d0) = true)
    (hn : (S.all fun x => x.1 != τ.length) = true) : ¬ ∃ d, SCData2.Run2 p d0 τ d := by
  rintro ⟨d, hr⟩
  have h0' : (0, d0) ∈ S := by simpa using h0
  have := Run2_in_closed hc h0' hr (List.prefix_refl _)
  rw [List.all_eq_true] at hn
  have := hn _ this
  simp at this

end Check

end Refine2
end LoomVerif

/-
C12, value layer: `Numeric` round trips, the typed closures stay in range, and the closures of the
model compute the machine-word operations of the std reference semantics.
-/
import LoomVerif.Model.Num
import LoomVerif.Spec.StdAtomic

namespace LoomVerif
namespace C12

theorem inRange_iff (t : ATy) (v : Int) : t.inRange v = true ↔
    (if t.signed then -(2 ^ (t.bits - 1) : Int) ≤ v ∧ v < 2 ^ (t.bits - 1)
     else 0 ≤ v ∧ v < 2 ^ t.bits) := by
  unfold ATy.inRange; split <;> simp

/-- `T::from_u64(v.into_u64()) == v` -/
theorem roundtrip (t : ATy) (v : Int) (h : t.inRange v = true) :
    t.fromU64 (t.intoU64 v) = v := by
  rw [inRange_iff] at h
  cases t <;>
    simp [ATy.fromU64, ATy.intoU64, ATy.wrap, ATy.bits, ATy.signed] at h ⊢ <;> omega

theorem intoU64_lt (t : ATy) (v : Int) : t.intoU64 v < 2 ^ 64 := by
  simp [ATy.intoU64]; omega

theorem wrap_inRange (t : ATy) (x : Int) : t.inRange (t.wrap x) = true := by
  rw [inRange_iff]
  cases t <;> simp [ATy.wrap, ATy.bits, ATy.signed] <;> omega

/-- decoding any `u64` gives a value of the type -/
theorem fromU64_inRange (t : ATy) (u : Nat) : t.inRange (t.fromU64 u) = true := by
  cases t
  case bool => simp only [ATy.fromU64]; split <;> decide
  all_goals exact wrap_inRange _ _

/-- the closure handed to `rt::Atomic::rmw` produces values of the type -/
theorem rmw_apply_inRange (t : ATy) (f : RmwFn) (prev next : Int)
    (hp : t.inRange prev = true) (hf : f.operandsInRange t = true)
    (h : f.apply t prev = some next) : t.inRange next = true := by
  cases f <;> simp only [RmwFn.apply, Option.some.injEq] at h <;>
    simp only [RmwFn.operandsInRange, Bool.and_eq_true] at hf
  case max v => subst h; split <;> assumption
  case min v => subst h; split <;> assumption
  case const v => subst h; exact hf
  case casEq c n =>
    split at h
    · cases h; exact hf.2
    · cases h
  all_goals (subst h; exact wrap_inRange _ _)

/-- the user closures of the DSL produce values of the type -/
theorem fupd_apply_inRange (t : ATy) (f : FupdFn) (prev next : Int)
    (h : f.apply t prev = some next) : t.inRange next = true := by
  cases f <;> simp only [FupdFn.apply] at h
  case none => cases h
  case add k => cases h; exact wrap_inRange _ _
  case addIfLt k lim =>
    split at h
    · cases h; exact wrap_inRange _ _
    · cases h

/-! ### the model's closures are the machine-word operations of the reference semantics -/

theorem dec_eq_wrap (t : ATy) (b : BitVec t.bits) : Std.dec t b = t.wrap (b.toNat : Int) := by
  have hb := b.isLt
  unfold Std.dec
  rw [BitVec.toInt_eq_toNat_cond]
  cases t <;> simp [ATy.wrap, ATy.bits, ATy.signed] at hb ⊢ <;> omega

theorem enc_toNat (t : ATy) (v : Int) : (Std.enc t v).toNat = t.toBits v := by
  simp [Std.enc, ATy.toBits, BitVec.toNat_ofInt]

theorem wadd_eq (t : ATy) (c v : Int) : Std.wadd t c v = t.wrap (c + v) := by
  unfold Std.wadd
  rw [dec_eq_wrap, BitVec.toNat_add, enc_toNat, enc_toNat]
  cases t <;> simp [ATy.wrap, ATy.bits, ATy.signed, ATy.toBits] <;> omega

theorem wsub_eq (t : ATy) (c v : Int) : Std.wsub t c v = t.wrap (c - v) := by
  unfold Std.wsub
  rw [dec_eq_wrap, BitVec.toNat_sub, enc_toNat, enc_toNat]
  cases t <;> simp [ATy.wrap, ATy.bits, ATy.signed, ATy.toBits] <;> omega

theorem band_eq (t : ATy) (c v : Int) :
    Std.band t c v = t.wrap (Nat.land (t.toBits c) (t.toBits v)) := by
  unfold Std.band
  rw [dec_eq_wrap, BitVec.toNat_and, enc_toNat, enc_toNat]; rfl

theorem bor_eq (t : ATy) (c v : Int) :
    Std.bor t c v = t.wrap (Nat.lor (t.toBits c) (t.toBits v)) := by
  unfold Std.bor
  rw [dec_eq_wrap, BitVec.toNat_or, enc_toNat, enc_toNat]; rfl

theorem bxor_eq (t : ATy) (c v : Int) :
    Std.bxor t c v = t.wrap (Nat.xor (t.toBits c) (t.toBits v)) := by
  unfold Std.bxor
  rw [dec_eq_wrap, BitVec.toNat_xor, enc_toNat, enc_toNat]; rfl

theorem bnand_eq (t : ATy) (c v : Int) :
    Std.bnand t c v
      = t.wrap (Nat.xor (2 ^ t.bits - 1) (Nat.land (t.toBits c) (t.toBits v))) := by
  unfold Std.bnand
  rw [dec_eq_wrap, ← BitVec.allOnes_xor, BitVec.toNat_xor, BitVec.toNat_allOnes,
    BitVec.toNat_and, enc_toNat, enc_toNat]; rfl

/-- every `fetch_*` closure of the model computes the std operation, for ALL operand values -/
theorem apply_eq_fetchNew (t : ATy) (f : RmwFn) (c : Int) (hf : f.isFetchOf t = true) :
    f.apply t c = some (Std.fetchNew t f c) := by
  cases f <;> simp [RmwFn.isFetchOf] at hf <;>
    simp [RmwFn.apply, Std.fetchNew, wadd_eq, wsub_eq, band_eq, bor_eq, bxor_eq, bnand_eq]
  all_goals (split <;> omega)

end C12
end LoomVerif

/-
Refinement, FUTURES fragment, part 2: the steps of the reference semantics `Spec/SC.lean` on the operations of the
fragment, spelled out on the data projection `data4`: for each operation (and each phase of `blockOn`) the successor
state of `SC.step` and its data; `SC.enabled` on the data; the spurious return `SC.spurious` of a `blockOn`.
-/
import LoomVerif.Proofs.Refine4Data

namespace LoomVerif
namespace Refine4
open Refine

/-- the thread is not inside a `cvwait` and owns no thread-local -/
def Plain (h : SC.Th) : Prop := h.cvWaiting = none ∧ h.cvNotified = none ∧ h.locals = []

theorem plain_of {h : SC.Th} (hp : (dth4 h).plain = true) : Plain h := by
  simp only [dth4, Bool.and_eq_true, Option.isNone_iff_eq_none, List.isEmpty_iff] at hp
  exact ⟨hp.1.1, hp.1.2, hp.2⟩

theorem data4_ext' {s : SC.St} {d : SCData4} (h1 : s.ths.map dth4 = d.ths) (h2 : s.atoms = d.atoms)
    (h3 : s.futs.map dfut = d.futs) (h4 : s.verdict = d.verdict) : data4 s = d := by
  cases d
  simp only [data4, SCData4.mk.injEq]
  exact ⟨h1, h2, h3, h4⟩

theorem ths_tick (s : SC.St) (t : Nat) : (s.tick t).ths.map dth4 = s.ths.map dth4 :=
  congrArg SCData4.ths (data4_tick s t)

theorem ths_acquire (s : SC.St) (t : Nat) (c : VV) : (s.acquire t c).ths.map dth4 = s.ths.map dth4 :=
  congrArg SCData4.ths (data4_acquire s t c)

theorem getD_of_getElem? {α} {l : List α} {f : Nat} {a d : α} (h : l[f]? = some a) : l.getD f d = a := by
  simp [List.getD, h]

/-- `modify` at an index, seen through `map`, when the two functions agree on the element at that index -/
theorem map_modify_at {α β} (l : List α) (f : Nat) (F : α → α) (G : β → β) (pr : α → β)
    (h : ∀ a, l[f]? = some a → pr (F a) = G (pr a)) :
    (l.modify f F).map pr = (l.map pr).modify f G := by
  apply List.ext_getElem?
  intro i
  simp only [List.getElem?_map, List.getElem?_modify]
  cases hi : l[i]? with
  | none => rfl
  | some a =>
    by_cases e : f = i
    · subst e
      simp [h a hi]
    · simp [e]

/-- no change at an index, seen as a `modify` by a function that fixes the element at that index -/
theorem map_eq_modify_at {α β} (l : List α) (f : Nat) (G : β → β) (pr : α → β)
    (h : ∀ a, l[f]? = some a → G (pr a) = pr a) :
    l.map pr = (l.map pr).modify f G := by
  have := map_modify_at l f id G pr (by intro a e; rw [h a e]; rfl)
  rw [← this]
  congr 1
  exact (modify_id' _ _ id (fun _ => rfl)).symm

/-- the element at an index has the property the default-returning lookup has -/
theorem slot_of {l : List SC.Fut} {f : Nat} {a : SC.Fut} {b : Bool} (ha : l[f]? = some a)
    (hs : (l.getD f {}).slot = b) : a.slot = b := by
  rw [getD_of_getElem? ha] at hs; exact hs

/-! ### `wake`, `awWake` -/

/-- what `wake` / `awWake` do to the future's record: the registered waker is taken and woken -/
def wakeF (u : DFut) : DFut :=
  if u.slot then { u with slot := false, wakers := u.wakers - 1, notified := u.notified || u.slotGen == u.gen }
  else u

/-- `wakeRef` / `wakeQ`: the registered waker is woken by reference -/
def wakeRefF (u : DFut) : DFut :=
  if u.slot then { u with notified := u.notified || u.slotGen == u.gen } else u

/-- `dropWaker` / `awTake`: the registered waker is taken and dropped -/
def takeF (u : DFut) : DFut :=
  if u.slot then { u with slot := false, wakers := u.wakers - 1 } else u

theorem sc_step_wake {p : Prog} {s : SC.St} {t f : Nat} {op : Op} (hpl : Plain (s.th t))
    (hop : SC.opOf p s t = some op) (hk : op = .wake f ∨ op = .awWake f) :
    ∃ s', SC.step p s t = [s'] ∧ data4 s' = (((data4 s).setAtom f 1).modFut f wakeF).ret t .unit := by
  unfold SC.step
  rcases hk with rfl | rfl <;>
  · simp only [hpl.2.1, hop]
    split
    · next hs =>
      refine ⟨_, rfl, ?_⟩
      rw [data4_ret]
      congr 1
      refine data4_ext' (ths_tick s t) rfl ?_ rfl
      refine map_modify_at _ _ _ _ _ ?_
      intro a ha
      have hs' : a.slot = true := slot_of ha hs
      simp [wakeF, dfut, hs']
    · next hs =>
      refine ⟨_, rfl, ?_⟩
      rw [data4_ret]
      congr 1
      refine data4_ext' (ths_tick s t) rfl ?_ rfl
      refine map_eq_modify_at _ _ _ _ ?_
      intro a ha
      have hs' : a.slot = false := slot_of ha (by simpa using hs)
      simp [wakeF, dfut, hs']

theorem sc_step_wakeRef {p : Prog} {s : SC.St} {t f : Nat} (hpl : Plain (s.th t))
    (hop : SC.opOf p s t = some (.wakeRef f)) :
    ∃ s', SC.step p s t = [s'] ∧ data4 s' = (((data4 s).setAtom f 1).modFut f wakeRefF).ret t .unit := by
  unfold SC.step
  simp only [hpl.2.1, hop]
  split
  · next hs =>
    refine ⟨_, rfl, ?_⟩
    rw [data4_ret]
    congr 1
    refine data4_ext' (ths_tick s t) rfl ?_ rfl
    refine map_modify_at _ _ _ _ _ ?_
    intro a ha
    have hs' : a.slot = true := slot_of ha hs
    simp [wakeRefF, dfut, hs']
  · next hs =>
    refine ⟨_, rfl, ?_⟩
    rw [data4_ret]
    congr 1
    refine data4_ext' (ths_tick s t) rfl ?_ rfl
    refine map_eq_modify_at _ _ _ _ ?_
    intro a ha
    have hs' : a.slot = false := slot_of ha (by simpa using hs)
    simp [wakeRefF, dfut, hs']

theorem sc_step_wakeQ {p : Prog} {s : SC.St} {t f : Nat} (hpl : Plain (s.th t))
    (hop : SC.opOf p s t = some (.wakeQ f)) :
    ∃ s', SC.step p s t = [s'] ∧ data4 s' = ((data4 s).modFut f wakeRefF).ret t .unit := by
  unfold SC.step
  simp only [hpl.2.1, hop]
  split
  · next hs =>
    refine ⟨_, rfl, ?_⟩
    rw [data4_ret]
    congr 1
    refine data4_ext' (ths_tick s t) rfl ?_ rfl
    refine map_modify_at _ _ _ _ _ ?_
    intro a ha
    have hs' : a.slot = true := slot_of ha hs
    simp [wakeRefF, dfut, hs']
  · next hs =>
    refine ⟨_, rfl, ?_⟩
    rw [data4_ret]
    congr 1
    refine data4_ext' (ths_tick s t) rfl ?_ rfl
    refine map_eq_modify_at _ _ _ _ ?_
    intro a ha
    have hs' : a.slot = false := slot_of ha (by simpa using hs)
    simp [wakeRefF, dfut, hs']

theorem sc_step_take {p : Prog} {s : SC.St} {t f : Nat} {op : Op} (hpl : Plain (s.th t))
    (hop : SC.opOf p s t = some op) (hk : op = .dropWaker f ∨ op = .awTake f) :
    ∃ s', SC.step p s t = [s'] ∧ data4 s' = ((data4 s).modFut f takeF).ret t .unit := by
  unfold SC.step
  rcases hk with rfl | rfl <;>
  · simp only [hpl.2.1, hop]
    split
    · next hs =>
      refine ⟨_, rfl, ?_⟩
      rw [data4_ret]
      congr 1
      refine data4_ext' (ths_tick s t) rfl ?_ rfl
      refine map_modify_at _ _ _ _ _ ?_
      intro a ha
      have hs' : a.slot = true := slot_of ha hs
      simp [takeF, dfut, hs']
    · next hs =>
      refine ⟨_, rfl, ?_⟩
      rw [data4_ret]
      congr 1
      refine data4_ext' (ths_tick s t) rfl ?_ rfl
      refine map_eq_modify_at _ _ _ _ ?_
      intro a ha
      have hs' : a.slot = false := slot_of ha (by simpa using hs)
      simp [takeF, dfut, hs']

/-! ### `spawn`, `join`, `ifEq`, the flag store, the end of a thread -/

theorem sc_step_spawn {p : Prog} {s : SC.St} {t b : Nat} (hpl : Plain (s.th t))
    (hop : SC.opOf p s t = some (.spawn b)) :
    ∃ s', SC.step p s t = [s'] ∧
      data4 s' = ((data4 s).modTh b fun h => { h with started := true }).ret t .unit := by
  unfold SC.step
  simp only [hpl.2.1, hop]
  refine ⟨_, rfl, ?_⟩
  rw [data4_ret, data4_modTh _ _ _ (fun h => { h with started := true }) (fun _ => rfl), data4_tick]

theorem sc_step_join {p : Prog} {s : SC.St} {t b : Nat} (hpl : Plain (s.th t))
    (hop : SC.opOf p s t = some (.join b)) :
    ∃ s', SC.step p s t = [s'] ∧ data4 s' = (data4 s).ret t .unit := by
  unfold SC.step
  simp only [hpl.2.1, hop]
  refine ⟨_, rfl, ?_⟩
  rw [data4_ret, data4_acquire, data4_tick]

theorem sc_step_ifEq {p : Prog} {s : SC.St} {t i n : Nat} {r : Ret} (hpl : Plain (s.th t))
    (hop : SC.opOf p s t = some (.ifEq i r n)) :
    ∃ s', SC.step p s t = [s'] ∧
      data4 s' = (data4 s).modTh t fun h =>
        { h with pc := h.pc + 1 +
            if ((data4 s).th t).rets.lookup (((data4 s).th t).pc - i) == some r then 0 else n } := by
  unfold SC.step
  simp only [hpl.2.1, hop]
  rw [data4_th]
  split
  · next hc =>
    refine ⟨_, rfl, ?_⟩
    have hc' : ((dth4 (s.th t)).rets.lookup ((dth4 (s.th t)).pc - i) == some r) = true := hc
    rw [hc']
    exact data4_modTh _ _ _ _ (fun _ => rfl)
  · next hc =>
    refine ⟨_, rfl, ?_⟩
    have hc' : ((dth4 (s.th t)).rets.lookup ((dth4 (s.th t)).pc - i) == some r) = false := by
      show ((s.th t).rets.lookup ((s.th t).pc - i) == some r) = false
      simpa using hc
    rw [hc']
    refine (data4_modTh _ _ _ (fun h => { h with pc := h.pc + 1 + n }) (fun _ => rfl)).trans ?_
    rfl

/-- the flag store -/
theorem sc_step_store {p : Prog} {s : SC.St} {t x : Nat} (hpl : Plain (s.th t))
    (hop : SC.opOf p s t = some (.atom x (.store 1 .rel))) :
    ∃ s', SC.step p s t = [s'] ∧ data4 s' = ((data4 s).setAtom x 1).ret t .unit := by
  unfold SC.step
  simp only [hpl.2.1, hop]
  refine ⟨_, rfl, ?_⟩
  rw [data4_ret]
  congr 1
  simp only [Std.step, SC.acquiresOf, SC.releasesOf, SC.isRmw]
  exact data4_ext' (ths_tick s t) rfl rfl rfl

/-- the end of a thread -/
theorem sc_step_end {p : Prog} {s : SC.St} {t : Nat} (hpl : Plain (s.th t)) (hph : (s.th t).phase = 0)
    (hop : SC.opOf p s t = none) :
    ∃ s', SC.step p s t = [s'] ∧ data4 s' = (data4 s).modTh t fun h => { h with finished := true } := by
  have key : SC.finish p s t =
      [(if t == 0 then { s with lazyDropped := true } else s).modTh t fun h => { h with finished := true }] := by
    unfold SC.finish
    simp only [hpl.2.2, hph, List.map_nil, List.contains_nil, List.filter_cons, List.filter_nil,
      Bool.false_eq_true, if_false, List.isEmpty_nil, if_true, SC.perms2, List.map_cons, List.foldl_nil]
    split
    · simp
    · rfl
  unfold SC.step
  simp only [hpl.2.1, hop, key]
  refine ⟨_, rfl, ?_⟩
  rw [data4_modTh _ _ _ (fun h => { h with finished := true }) (fun _ => rfl)]
  congr 1
  split <;> rfl

/-! ### `blockOn`, phase by phase -/

/-- phase 0: a new call -/
def newCallF (u : DFut) : DFut :=
  { u with wakers := u.wakers + 1, gen := u.gen + 1, notified := false, spurUsed := false, polled := false }
/-- phase 1 of a self-waking future (mode 5), first poll: it wakes itself -/
def selfWakeF (u : DFut) : DFut := { u with polled := true, notified := true }
/-- phase 2: the waker is registered -/
def regF (u : DFut) : DFut :=
  { u with slot := true, slotGen := u.gen, wakers := if u.slot then u.wakers else u.wakers + 1 }
/-- the call's own reference is dropped -/
def decF (u : DFut) : DFut := { u with wakers := u.wakers - 1 }
/-- phase 4: the notification is consumed -/
def consumeF (u : DFut) : DFut := { u with notified := false }
/-- phase 5, modes 0 / 1: the registration is taken back -/
def retF (u : DFut) : DFut := { u with slot := false, wakers := u.wakers - 1 - (if u.slot then 1 else 0) }
/-- the one spurious return -/
def spurF (u : DFut) : DFut := { u with spurUsed := true }

theorem sc_step_bo0 {p : Prog} {s : SC.St} {t f mode : Nat} (hpl : Plain (s.th t))
    (hop : SC.opOf p s t = some (.blockOn f mode)) (hph : (s.th t).phase = 0) :
    ∃ s', SC.step p s t = [s'] ∧
      data4 s' = ((data4 s).modFut f newCallF).modTh t fun h => { h with phase := 1 } := by
  unfold SC.step
  simp only [hpl.2.1, hop, hph]
  refine ⟨_, rfl, ?_⟩
  rw [data4_modTh _ _ _ (fun h => { h with phase := 1 }) (fun _ => rfl)]
  congr 1
  exact data4_ext' (ths_tick s t) rfl (map_modify _ _ _ _ dfut (fun _ => rfl)) rfl

theorem sc_step_bo1_self {p : Prog} {s : SC.St} {t f : Nat} (hpl : Plain (s.th t))
    (hop : SC.opOf p s t = some (.blockOn f 5)) (hph : (s.th t).phase = 1) :
    ∃ s', SC.step p s t = [s'] ∧
      data4 s' = if ((data4 s).fut f).polled then (data4 s).modTh t fun h => { h with phase := 5 }
        else ((data4 s).modFut f selfWakeF).modTh t fun h => { h with phase := 4 } := by
  unfold SC.step
  simp only [hpl.2.1, hop, hph]
  rw [data4_fut]
  have e : (dfut (s.futs.getD f {})).polled = ((s.tick t).futs.getD f {}).polled := rfl
  rw [e]
  simp only [beq_self_eq_true, if_true]
  split
  · refine ⟨_, rfl, ?_⟩
    rw [data4_modTh _ _ _ (fun h => { h with phase := 5 }) (fun _ => rfl), data4_tick]
  · refine ⟨_, rfl, ?_⟩
    rw [data4_modTh _ _ _ (fun h => { h with phase := 4 }) (fun _ => rfl)]
    congr 1
    exact data4_ext' (ths_tick s t) rfl (map_modify _ _ _ _ dfut (fun _ => rfl)) rfl

theorem sc_step_bo1 {p : Prog} {s : SC.St} {t f mode : Nat} (hpl : Plain (s.th t))
    (hop : SC.opOf p s t = some (.blockOn f mode)) (hph : (s.th t).phase = 1) (h5 : mode ≠ 5) (h2 : mode ≠ 2) :
    ∃ s', SC.step p s t = [s'] ∧
      data4 s' = (data4 s).modTh t fun h => { h with phase := if (data4 s).atom f == 1 then 5 else 2 } := by
  unfold SC.step
  have e5 : (mode == 5) = false := by simpa using h5
  have e2 : (mode == 2) = false := by simpa using h2
  simp only [hpl.2.1, hop, hph, e5, e2, Bool.false_eq_true, if_false]
  refine ⟨_, rfl, ?_⟩
  rw [data4_modTh _ _ _ (fun h => { h with phase := if (data4 s).atom f == 1 then 5 else 2 }) (fun _ => rfl),
    data4_acquire, data4_tick]

theorem sc_step_bo2 {p : Prog} {s : SC.St} {t f mode : Nat} (hpl : Plain (s.th t))
    (hop : SC.opOf p s t = some (.blockOn f mode)) (hph : (s.th t).phase = 2) :
    ∃ s', SC.step p s t = [s'] ∧
      data4 s' = ((data4 s).modFut f regF).modTh t fun h => { h with phase := 3 } := by
  unfold SC.step
  simp only [hpl.2.1, hop, hph]
  refine ⟨_, rfl, ?_⟩
  rw [data4_modTh _ _ _ (fun h => { h with phase := 3 }) (fun _ => rfl)]
  congr 1
  exact data4_ext' (ths_tick s t) rfl (map_modify _ _ _ _ dfut (fun _ => rfl)) rfl

theorem sc_step_bo3 {p : Prog} {s : SC.St} {t f mode : Nat} (hpl : Plain (s.th t))
    (hop : SC.opOf p s t = some (.blockOn f mode)) (hph : (s.th t).phase = 3) (h2 : mode ≠ 2) :
    ∃ s', SC.step p s t = [s'] ∧
      data4 s' = if (!((data4 s).atom f == 1) && mode == 4) then
          (((data4 s).modFut f decF).modTh t fun h => { h with phase := 0 }).ret t (.val 0)
        else (data4 s).modTh t fun h => { h with phase := if (data4 s).atom f == 1 then 5 else 4 } := by
  unfold SC.step
  have e2 : (mode == 2) = false := by simpa using h2
  simp only [hpl.2.1, hop, hph, e2, Bool.false_eq_true, if_false]
  have ea : (data4 s).atom f = (s.tick t).atoms.getD f 0 := rfl
  rw [ea]
  split
  · refine ⟨_, rfl, ?_⟩
    rw [data4_ret, data4_modTh _ _ _ (fun h => { h with phase := 0 }) (fun _ => rfl)]
    congr 2
    exact data4_ext' ((ths_acquire _ _ _).trans (ths_tick s t)) rfl (map_modify _ _ _ _ dfut (fun _ => rfl)) rfl
  · refine ⟨_, rfl, ?_⟩
    rw [data4_modTh _ _ _ (fun h => { h with phase := if (s.tick t).atoms.getD f 0 == 1 then 5 else 4 })
      (fun _ => rfl), data4_acquire, data4_tick]

theorem sc_step_bo4 {p : Prog} {s : SC.St} {t f mode : Nat} (hpl : Plain (s.th t))
    (hop : SC.opOf p s t = some (.blockOn f mode)) (hph : (s.th t).phase = 4) :
    ∃ s', SC.step p s t = [s'] ∧
      data4 s' = ((data4 s).modFut f consumeF).modTh t fun h => { h with phase := 1 } := by
  unfold SC.step
  simp only [hpl.2.1, hop, hph]
  refine ⟨_, rfl, ?_⟩
  rw [data4_modTh _ _ _ (fun h => { h with phase := 1 }) (fun _ => rfl), data4_acquire]
  congr 1
  exact data4_ext' (ths_tick s t) rfl (map_modify _ _ _ _ dfut (fun _ => rfl)) rfl

theorem sc_step_bo5 {p : Prog} {s : SC.St} {t f mode : Nat} (hpl : Plain (s.th t))
    (hop : SC.opOf p s t = some (.blockOn f mode)) (hph : (s.th t).phase = 5) :
    ∃ s', SC.step p s t = [s'] ∧
      data4 s' = (((data4 s).modFut f (if mode == 3 || mode == 4 || mode == 5 then decF else retF)).modTh t
        fun h => { h with phase := 0 }).ret t (.val 7) := by
  unfold SC.step
  simp only [hpl.2.1, hop, hph]
  cases hm : (mode == 3 || mode == 4 || mode == 5)
  · simp only [Bool.false_eq_true, if_false]
    refine ⟨_, rfl, ?_⟩
    rw [data4_ret, data4_modTh _ _ _ (fun h => { h with phase := 0 }) (fun _ => rfl)]
    congr 2
    exact data4_ext' (ths_tick s t) rfl (map_modify _ _ _ _ dfut (fun _ => rfl)) rfl
  · simp only [if_true]
    refine ⟨_, rfl, ?_⟩
    rw [data4_ret, data4_modTh _ _ _ (fun h => { h with phase := 0 }) (fun _ => rfl)]
    congr 2
    exact data4_ext' (ths_tick s t) rfl (map_modify _ _ _ _ dfut (fun _ => rfl)) rfl

/-- the one modelled spurious return of the `Notify` inside `block_on` -/
theorem sc_spurious_bo {p : Prog} {s : SC.St} {t f mode : Nat} (hv : s.verdict = none) (hpl : Plain (s.th t))
    (hst : (s.th t).started = true) (hnf : (s.th t).finished = false)
    (hop : SC.opOf p s t = some (.blockOn f mode)) (hph : (s.th t).phase = 4)
    (hsp : (s.futs.getD f {}).spurUsed = false) :
    ∃ s', SC.spurious p s t = [s'] ∧
      data4 s' = ((data4 s).modFut f spurF).modTh t fun h => { h with phase := 1 } := by
  unfold SC.spurious
  simp only [hv, hst, hnf, hpl.1, hpl.2.1, hop, hph, hsp, Option.isSome_none, Bool.not_true, Bool.or_false,
    Bool.false_eq_true, if_false, beq_self_eq_true, Bool.not_false, Bool.and_self, if_true]
  refine ⟨_, rfl, ?_⟩
  rw [data4_modTh _ _ _ (fun h => { h with phase := 1 }) (fun _ => rfl)]
  congr 1
  exact data4_ext' rfl rfl (map_modify _ _ _ _ dfut (fun _ => rfl)) hv.symm

/-! ### `SC.enabled` -/

/-- when a fragment operation can take a step -/
def enabledOp (s : SC.St) (t : Nat) : Op → Bool
  | .join b => (s.th b).finished
  | .blockOn f _ => (s.th t).phase != 4 || (s.futs.getD f {}).notified
  | _ => true

theorem sc_enabled_end {p : Prog} {s : SC.St} {t : Nat} (hv : s.verdict = none) (hpl : Plain (s.th t))
    (hst : (s.th t).started = true) (hnf : (s.th t).finished = false) (hop : SC.opOf p s t = none) :
    SC.enabled p s t = true := by
  unfold SC.enabled
  simp only [hv, hst, hnf, hpl.1, hpl.2.1, hop, Option.isNone_none, Bool.not_false, Bool.and_self]

theorem sc_enabled_op {p : Prog} {s : SC.St} {t : Nat} {op : Op} (hv : s.verdict = none) (hpl : Plain (s.th t))
    (hst : (s.th t).started = true) (hnf : (s.th t).finished = false) (hop : SC.opOf p s t = some op)
    (hok : opOk4 p op = true) (hen : enabledOp s t op = true) : SC.enabled p s t = true := by
  unfold SC.enabled
  simp only [hv, hst, hnf, hpl.1, hpl.2.1, hop, Option.isNone_none, Bool.not_false, Bool.and_self, Bool.true_and]
  cases op <;> simp only [opOk4, Bool.false_eq_true] at hok <;> first | rfl | exact hen

end Refine4
end LoomVerif

/-
C11: the effect stages of the Arc operations against the reference counter, and the bookkeeping
invariant `std strong count = ref_cnt`, `registered ↔ ref_cnt ≠ 0`.
-/
import LoomVerif.Proofs.C11Arc

namespace LoomVerif
namespace C11
open World WB C12

/-- bookkeeping of the `loom::sync::Arc` allocation `a` whose `rt::Arc` object is in state `s`:
the strong count of the wrapped `std::sync::Arc` (on which loom asserts) equals `ref_cnt`, and the
allocation is registered in `arc_objs` exactly while the count is positive -/
structure ArcInv (w : World) (a : Nat) (s : ArcSt) : Prop where
  known : a < w.arcs.length
  obj : w.getArc (w.arcInfo a).obj = .ok s
  std : (w.arcInfo a).stdCount = s.refCnt
  reg : (w.arcInfo a).registered = true ↔ s.refCnt ≠ 0

/-- a fresh `Arc::new` satisfies the invariant -/
theorem runOp_arcNew (w : World) (c : TCtl) (h : Nat) :
    w.runOp c (.arcNew h) =
      .ok ((({ (w.pushObj (.arc {})).1 with
                arcs := w.arcs ++ [({ obj := w.exec.objs.length } : ArcInfo)] }).setHandle h
              (some { arc := w.arcs.length })).complete .unit) := by
  simp [World.runOp, World.pushObj]
  rfl

theorem arcNew_effect (w : World) (c : TCtl) (h : Nat) :
    ∃ w', w.runOp c (.arcNew h) = .ok w' ∧
      w'.exec.objs = w.exec.objs ++ [.arc {}] ∧
      w'.handle h = .ok { arc := w.arcs.length } ∧
      ArcInv w' w.arcs.length {} ∧ retOf w' = some .unit := by
  refine ⟨_, runOp_arcNew w c h, ?_, ?_, ?_, rfl⟩
  · simp [World.pushObj, World.setObjs]
  · exact handle_setHandle_self _ _ _
  · have hai : ∀ (w1 : World), w1.arcs = w.arcs ++ [({ obj := w.exec.objs.length } : ArcInfo)] →
        w1.arcInfo w.arcs.length = { obj := w.exec.objs.length } := by
      intro w1 h1; simp [World.arcInfo, h1]
    have h1 := hai ((({ (w.pushObj (.arc {})).1 with
                arcs := w.arcs ++ [({ obj := w.exec.objs.length } : ArcInfo)] }).setHandle h
              (some { arc := w.arcs.length })).complete .unit) (by simp)
    refine ⟨by simp, ?_, by rw [h1], by rw [h1]; simp⟩
    rw [h1, getArc_ok_iff]
    simp [World.pushObj, World.setObjs]

section effects
variable {w : World} {c : TCtl} {h : Nat} {hs : HandleSt} {s : ArcSt}

/-- `clone` / `increment_strong_count`: +1 -/
theorem arcClone_effect (h2 : Nat) (hh : w.handle h = .ok hs) (hc : c.stage ≠ 0)
    (hg : w.getArc (w.arcInfo hs.arc).obj = .ok s) :
    ∃ w', w.runOp c (.arcClone h h2) = .ok w' ∧
      w'.getArc (w.arcInfo hs.arc).obj = .ok { s with refCnt := s.refCnt + 1 } ∧
      (∀ o', o' ≠ (w.arcInfo hs.arc).obj → w'.exec.objs[o']? = w.exec.objs[o']?) ∧
      w'.ths = w.ths ∧ w'.exec.path = w.exec.path ∧
      w'.handle h2 = .ok { arc := hs.arc } ∧ retOf w' = some .unit ∧
      (ArcInv w hs.arc s → s.refCnt ≠ 0 → ArcInv w' hs.arc { s with refCnt := s.refCnt + 1 }) := by
  refine ⟨_, runOp_arcClone_stage1 w c h hs h2 s hh hc hg, ?_, ?_, rfl, rfl, ?_, rfl, ?_⟩
  · rw [getArc_ok_iff, exec_complete, exec_setHandle, exec_modArc, ← getArc_ok_iff]
    exact getArc_setObj hg _
  · intro o' ho
    rw [exec_complete, exec_setHandle, exec_modArc]
    exact objs_setObj_ne w _ o' _ ho
  · exact handle_setHandle_self _ _ _
  · intro hi live
    have hai := arcInfo_modArc_self (w.setObj (w.arcInfo hs.arc).obj
      (.arc { s with refCnt := s.refCnt + 1 })) hs.arc
      (fun i => { i with stdCount := i.stdCount + 1 }) hi.known
    have hai' : ∀ w1 : World, w1.arcs = (((w.setObj (w.arcInfo hs.arc).obj
        (.arc { s with refCnt := s.refCnt + 1 })).modArc hs.arc
          fun i => { i with stdCount := i.stdCount + 1 })).arcs →
        w1.arcInfo hs.arc = { (w.arcInfo hs.arc) with stdCount := (w.arcInfo hs.arc).stdCount + 1 } :=
      fun w1 h1 => (arcInfo_congr h1 hs.arc).trans hai
    have h1 := hai' ((((w.setObj (w.arcInfo hs.arc).obj (.arc { s with refCnt := s.refCnt + 1 })).modArc
        hs.arc fun i => { i with stdCount := i.stdCount + 1 }).setHandle h2
          (some { arc := hs.arc })).complete .unit) (by simp)
    refine ⟨by simpa using hi.known, ?_, by rw [h1]; simp [hi.std], by rw [h1]; simp [hi.reg, live]⟩
    rw [h1, getArc_ok_iff, exec_complete, exec_setHandle, exec_modArc, ← getArc_ok_iff]
    exact getArc_setObj hg _

theorem arcInc_effect (hh : w.handle h = .ok hs) (hc : c.stage ≠ 0)
    (hg : w.getArc (w.arcInfo hs.arc).obj = .ok s) :
    ∃ w', w.runOp c (.arcInc h) = .ok w' ∧
      w'.getArc (w.arcInfo hs.arc).obj = .ok { s with refCnt := s.refCnt + 1 } ∧
      (∀ o', o' ≠ (w.arcInfo hs.arc).obj → w'.exec.objs[o']? = w.exec.objs[o']?) ∧
      w'.ths = w.ths ∧ w'.exec.path = w.exec.path ∧ retOf w' = some .unit ∧
      (ArcInv w hs.arc s → s.refCnt ≠ 0 → ArcInv w' hs.arc { s with refCnt := s.refCnt + 1 }) := by
  refine ⟨_, runOp_arcInc_stage1 w c h hs s hh hc hg, ?_, ?_, rfl, rfl, rfl, ?_⟩
  · rw [getArc_ok_iff, exec_complete, exec_modArc, ← getArc_ok_iff]
    exact getArc_setObj hg _
  · intro o' ho
    rw [exec_complete, exec_modArc]
    exact objs_setObj_ne w _ o' _ ho
  · intro hi live
    have hai := arcInfo_modArc_self (w.setObj (w.arcInfo hs.arc).obj
      (.arc { s with refCnt := s.refCnt + 1 })) hs.arc
      (fun i => { i with stdCount := i.stdCount + 1 }) hi.known
    have h1 : (((w.setObj (w.arcInfo hs.arc).obj (.arc { s with refCnt := s.refCnt + 1 })).modArc
        hs.arc fun i => { i with stdCount := i.stdCount + 1 }).complete .unit).arcInfo hs.arc =
        { (w.arcInfo hs.arc) with stdCount := (w.arcInfo hs.arc).stdCount + 1 } :=
      (arcInfo_congr (by simp) hs.arc).trans hai
    refine ⟨by simpa using hi.known, ?_, by rw [h1]; simp [hi.std], by rw [h1]; simp [hi.reg, live]⟩
    rw [h1, getArc_ok_iff, exec_complete, exec_modArc, ← getArc_ok_iff]
    exact getArc_setObj hg _

/-- the common part of `drop` and `decrement_strong_count`: `ref_dec` then the `Drop` glue, under
the invariant -/
theorem dec_then_afterDec (hg : w.getArc (w.arcInfo hs.arc).obj = .ok s) (h0 : s.refCnt ≠ 0)
    (hi : ArcInv w hs.arc s) :
    ∃ w1 w2, w.refDecEffect (w.arcInfo hs.arc).obj = .ok (w1, decide (s.refCnt = 1)) ∧
      w1.afterDec hs.arc (decide (s.refCnt = 1)) = .ok w2 ∧
      DecFacts w w1 (w.arcInfo hs.arc).obj s (decide (s.refCnt = 1)) ∧
      w2.exec = w1.exec ∧ w2.handles = w1.handles ∧
      ArcInv w2 hs.arc (arcDecSt s w.ths.activeT.released w.ths.caus) ∧
      ((w2.arcInfo hs.arc).registered = false ↔ s.refCnt = 1) := by
  obtain ⟨w1, h1⟩ := refDecEffect_ok w _ s hg h0
  have f := refDecEffect_inv hg h1
  have hai : w1.arcInfo hs.arc = w.arcInfo hs.arc := arcInfo_congr f.arcs _
  have hk1 : hs.arc < w1.arcs.length := by rw [f.arcs]; exact hi.known
  by_cases hl : s.refCnt = 1
  · have hreg : (w.arcInfo hs.arc).registered = true := hi.reg.2 h0
    have hstd : (w.arcInfo hs.arc).stdCount = 1 := by rw [hi.std, hl]
    have h2 := arcInfo_modArc_self w1 hs.arc
      (fun i => { i with stdCount := 0, registered := false }) hk1
    refine ⟨w1, w1.modArc hs.arc fun i => { i with stdCount := 0, registered := false }, h1, ?_, f,
      rfl, rfl, ?_, ?_⟩
    · rw [afterDec_eq, hai]; simp [hl, hstd, hreg]
    · refine ⟨by simpa using hk1, ?_, by rw [h2]; simp [arcDecSt, hl], by rw [h2]; simp [arcDecSt, hl]⟩
      rw [h2, hai]
      exact (getArc_congr (by simp) _).trans f.arc
    · rw [h2]; simp [hl]
  · have h2 := arcInfo_modArc_self w1 hs.arc (fun i => { i with stdCount := i.stdCount - 1 }) hk1
    refine ⟨w1, w1.modArc hs.arc fun i => { i with stdCount := i.stdCount - 1 }, h1, ?_, f,
      rfl, rfl, ?_, ?_⟩
    · rw [afterDec_eq]; simp [hl]
    · refine ⟨by simpa using hk1, ?_, by rw [h2, hai]; simp [arcDecSt, hi.std], ?_⟩
      · rw [h2, hai]
        exact (getArc_congr (by simp) _).trans f.arc
      · rw [h2, hai]
        have := hi.reg
        simp only [arcDecSt, this]
        constructor <;> intro <;> omega
    · rw [h2, hai]
      have := hi.reg.2 h0
      simp [this, hl]

/-- `drop`: "Arc is already released" iff the count is 0 -/
theorem arcDrop_released (hh : w.handle h = .ok hs) (hc : c.stage ≠ 0)
    (hg : w.getArc (w.arcInfo hs.arc).obj = .ok s) (h0 : s.refCnt = 0) :
    w.runOp c (.arcDrop h) = .error .arcReleased := by
  rw [runOp_arcDrop_stage1 w c h hs hh hc, refDecEffect_eq w _ s hg]
  simp [h0]

theorem arcDec_released (hh : w.handle h = .ok hs) (hc : c.stage ≠ 0)
    (hg : w.getArc (w.arcInfo hs.arc).obj = .ok s) (h0 : s.refCnt = 0) :
    w.runOp c (.arcDec h) = .error .arcReleased := by
  rw [runOp_arcDec_stage1 w c h hs hh hc, refDecEffect_eq w _ s hg]
  simp [h0]

/-- `drop`: −1, returns "was the last one"; under the invariant no internal assertion fires -/
theorem arcDrop_effect (hh : w.handle h = .ok hs) (hc : c.stage ≠ 0)
    (hg : w.getArc (w.arcInfo hs.arc).obj = .ok s) (h0 : s.refCnt ≠ 0) (hi : ArcInv w hs.arc s) :
    ∃ w', w.runOp c (.arcDrop h) = .ok w' ∧
      w'.getArc (w.arcInfo hs.arc).obj = .ok (arcDecSt s w.ths.activeT.released w.ths.caus) ∧
      (∀ o', o' ≠ (w.arcInfo hs.arc).obj → w'.exec.objs[o']? = w.exec.objs[o']?) ∧
      w'.exec.path = w.exec.path ∧
      w'.handle h = .error (.internal 70) ∧
      retOf w' = some (boolRet (decide (s.refCnt = 1))) ∧
      ArcInv w' hs.arc (arcDecSt s w.ths.activeT.released w.ths.caus) ∧
      ((w'.arcInfo hs.arc).registered = false ↔ s.refCnt = 1) := by
  obtain ⟨w1, w2, h1, h2, f, he, hh2, hi2, hr2⟩ := dec_then_afterDec hg h0 hi
  refine ⟨(w2.setHandle h none).complete (boolRet (decide (s.refCnt = 1))), ?_, ?_, ?_, ?_, ?_, rfl,
    ?_, ?_⟩
  · rw [runOp_arcDrop_stage1 w c h hs hh hc, h1]
    simp only [ok_bind, h2, pure_eq_ok]
  · rw [getArc_ok_iff, exec_complete, exec_setHandle, he, ← getArc_ok_iff]; exact f.arc
  · intro o' ho; rw [exec_complete, exec_setHandle, he]; exact f.others o' ho
  · rw [exec_complete, exec_setHandle, he]; exact f.path
  · exact handle_setHandle_none _ _
  · have hai : ((w2.setHandle h none).complete (boolRet (decide (s.refCnt = 1)))).arcInfo hs.arc =
        w2.arcInfo hs.arc := arcInfo_congr (by simp) _
    refine ⟨by simpa using hi2.known, ?_, by rw [hai]; exact hi2.std, by rw [hai]; exact hi2.reg⟩
    rw [hai]
    exact (getArc_congr (by simp) _).trans hi2.obj
  · have hai : ((w2.setHandle h none).complete (boolRet (decide (s.refCnt = 1)))).arcInfo hs.arc =
        w2.arcInfo hs.arc := arcInfo_congr (by simp) _
    rw [hai]; exact hr2

theorem arcDec_effect (hh : w.handle h = .ok hs) (hc : c.stage ≠ 0)
    (hg : w.getArc (w.arcInfo hs.arc).obj = .ok s) (h0 : s.refCnt ≠ 0) (hi : ArcInv w hs.arc s) :
    ∃ w', w.runOp c (.arcDec h) = .ok w' ∧
      w'.getArc (w.arcInfo hs.arc).obj = .ok (arcDecSt s w.ths.activeT.released w.ths.caus) ∧
      (∀ o', o' ≠ (w.arcInfo hs.arc).obj → w'.exec.objs[o']? = w.exec.objs[o']?) ∧
      w'.exec.path = w.exec.path ∧
      retOf w' = some (boolRet (decide (s.refCnt = 1))) ∧
      ArcInv w' hs.arc (arcDecSt s w.ths.activeT.released w.ths.caus) ∧
      ((w'.arcInfo hs.arc).registered = false ↔ s.refCnt = 1) := by
  obtain ⟨w1, w2, h1, h2, f, he, hh2, hi2, hr2⟩ := dec_then_afterDec hg h0 hi
  refine ⟨w2.complete (boolRet (decide (s.refCnt = 1))), ?_, ?_, ?_, ?_, rfl, ?_, ?_⟩
  · rw [runOp_arcDec_stage1 w c h hs hh hc, h1]
    simp only [ok_bind, h2, pure_eq_ok]
  · rw [getArc_ok_iff, exec_complete, he, ← getArc_ok_iff]; exact f.arc
  · intro o' ho; rw [exec_complete, he]; exact f.others o' ho
  · rw [exec_complete, he]; exact f.path
  · have hai : (w2.complete (boolRet (decide (s.refCnt = 1)))).arcInfo hs.arc =
        w2.arcInfo hs.arc := arcInfo_congr (by simp) _
    refine ⟨by simpa using hi2.known, ?_, by rw [hai]; exact hi2.std, by rw [hai]; exact hi2.reg⟩
    rw [hai]
    exact (getArc_congr (by simp) _).trans hi2.obj
  · have hai : (w2.complete (boolRet (decide (s.refCnt = 1)))).arcInfo hs.arc =
        w2.arcInfo hs.arc := arcInfo_congr (by simp) _
    rw [hai]; exact hr2

/-- `strong_count`: returns the count (panics on a released Arc), acquires with `SeqCst` -/
theorem arcCount_effect (hh : w.handle h = .ok hs) (hc : c.stage ≠ 0)
    (hg : w.getArc (w.arcInfo hs.arc).obj = .ok s) :
    (s.refCnt = 0 → w.runOp c (.arcCount h) = .error .arcReleased) ∧
    (s.refCnt ≠ 0 → ∃ w', w.runOp c (.arcCount h) = .ok w' ∧
      retOf w' = some (.val s.refCnt) ∧ w'.exec.objs = w.exec.objs ∧ w'.arcs = w.arcs ∧
      w'.exec.path = w.exec.path ∧
      (ActiveOk w.ths → w'.ths.caus = w.ths.caus.join s.sync.hb)) := by
  rw [runOp_arcCount_stage1 w c h hs s hh hc hg]
  refine ⟨fun h0 => by simp [h0], fun h0 => ?_⟩
  refine ⟨(w.setThs (w.ths.syncLoad s.sync .sc)).complete (.val s.refCnt),
    by simp only [h0, if_false], rfl, rfl, rfl, rfl, ?_⟩
  intro hact
  rw [ths_complete, ths_setThs, caus_syncLoad hact, load_sc]

/-- `get_mut`: returns `count = 1`, acquires -/
theorem arcGetMut_effect (hh : w.handle h = .ok hs) (hc : c.stage ≠ 0)
    (hg : w.getArc (w.arcInfo hs.arc).obj = .ok s) :
    (s.refCnt = 0 → w.runOp c (.arcGetMut h) = .error .arcReleased) ∧
    (s.refCnt ≠ 0 → (w.arcInfo hs.arc).stdCount = s.refCnt →
      ∃ w', w.runOp c (.arcGetMut h) = .ok w' ∧
      retOf w' = some (boolRet (s.refCnt == 1)) ∧ w'.exec.objs = w.exec.objs ∧ w'.arcs = w.arcs ∧
      w'.exec.path = w.exec.path ∧
      (ActiveOk w.ths → w'.ths.caus = w.ths.caus.join s.sync.hb)) := by
  rw [runOp_arcGetMut_stage1 w c h hs s hh hc hg]
  refine ⟨fun h0 => by simp [h0], fun h0 hstd => ?_⟩
  have : ¬ (s.refCnt = 1 ∧ (w.arcInfo hs.arc).stdCount ≠ 1) := by rw [hstd]; omega
  refine ⟨(w.setThs (w.ths.syncLoad s.sync .acq)).complete (boolRet (s.refCnt == 1)),
    by simp only [h0, this, if_false], rfl, rfl, rfl, rfl, ?_⟩
  intro hact
  rw [ths_complete, ths_setThs, caus_syncLoad hact, load_acq]

/-- `try_unwrap`, first half: fails with `Err` iff `count ≠ 1`, otherwise a second branch point -/
theorem arcUnwrap_effect1 (hh : w.handle h = .ok hs) (hc : c.stage = 1)
    (hg : w.getArc (w.arcInfo hs.arc).obj = .ok s) :
    (s.refCnt = 0 → w.runOp c (.arcUnwrap h) = .error .arcReleased) ∧
    (s.refCnt ≠ 0 → s.refCnt ≠ 1 → ∃ w', w.runOp c (.arcUnwrap h) = .ok w' ∧
      retOf w' = some (.err 0) ∧ w'.exec.objs = w.exec.objs ∧ w'.arcs = w.arcs ∧
      w'.handles = w.handles ∧ w'.exec.path = w.exec.path) ∧
    (s.refCnt = 1 → (w.arcInfo hs.arc).stdCount = s.refCnt →
      w.runOp c (.arcUnwrap h) =
        ((w.setThs (w.ths.syncLoad s.sync .acq)).setStage 2).branch (w.arcInfo hs.arc).obj .arcDec) := by
  rw [runOp_arcUnwrap_stage1 w c h hs s hh hc hg]
  refine ⟨fun h0 => by simp [h0], fun h0 h1 => ?_, fun h1 hstd => ?_⟩
  · exact ⟨(w.setThs (w.ths.syncLoad s.sync .acq)).complete (.err 0),
      by simp only [h0, h1, if_false, ne_eq, not_false_eq_true, if_true], rfl, rfl, rfl, rfl, rfl⟩
  · have : (w.arcInfo hs.arc).stdCount = 1 := by rw [hstd, h1]
    simp [h1, this]

/-- `try_unwrap`, second half: the decrement -/
theorem arcUnwrap_effect2 (hh : w.handle h = .ok hs) (hc : c.stage = 2)
    (hg : w.getArc (w.arcInfo hs.arc).obj = .ok s) (h1 : s.refCnt = 1) (hi : ArcInv w hs.arc s) :
    ∃ w', w.runOp c (.arcUnwrap h) = .ok w' ∧
      w'.getArc (w.arcInfo hs.arc).obj = .ok (arcDecSt s w.ths.activeT.released w.ths.caus) ∧
      (arcDecSt s w.ths.activeT.released w.ths.caus).refCnt = 0 ∧
      (∀ o', o' ≠ (w.arcInfo hs.arc).obj → w'.exec.objs[o']? = w.exec.objs[o']?) ∧
      w'.handle h = .error (.internal 70) ∧
      retOf w' = some (.ok 0) ∧
      ArcInv w' hs.arc (arcDecSt s w.ths.activeT.released w.ths.caus) ∧
      (w'.arcInfo hs.arc).registered = false := by
  have h0 : s.refCnt ≠ 0 := by omega
  obtain ⟨w1, hd⟩ := refDecEffect_ok w _ s hg h0
  have f := refDecEffect_inv hg hd
  have hai : w1.arcInfo hs.arc = w.arcInfo hs.arc := arcInfo_congr f.arcs _
  have hk1 : hs.arc < w1.arcs.length := by rw [f.arcs]; exact hi.known
  have hreg : (w.arcInfo hs.arc).registered = true := hi.reg.2 h0
  have h2 := arcInfo_modArc_self w1 hs.arc
    (fun i => { i with stdCount := 0, registered := false }) hk1
  have hai2 : (((w1.modArc hs.arc fun i => { i with stdCount := 0, registered := false }).setHandle
      h none).complete (.ok 0)).arcInfo hs.arc =
      { (w.arcInfo hs.arc) with stdCount := 0, registered := false } := by
    rw [← hai, ← h2]; exact arcInfo_congr (by simp) _
  refine ⟨((w1.modArc hs.arc fun i => { i with stdCount := 0, registered := false }).setHandle
      h none).complete (.ok 0), ?_, ?_, by simp [arcDecSt, h1], ?_, handle_setHandle_none _ _, rfl,
      ?_, ?_⟩
  · rw [runOp_arcUnwrap_stage2 w c h hs hh hc, hd]
    simp only [ok_bind, hai, hreg, Bool.true_eq_false, if_false, pure_eq_ok]
  · rw [getArc_ok_iff, exec_complete, exec_setHandle, exec_modArc, ← getArc_ok_iff]; exact f.arc
  · intro o' ho; rw [exec_complete, exec_setHandle, exec_modArc]; exact f.others o' ho
  · refine ⟨by simpa using hk1, ?_, by rw [hai2]; simp [arcDecSt, h1], by rw [hai2]; simp [arcDecSt, h1]⟩
    rw [hai2]
    exact (getArc_congr (by simp) _).trans f.arc
  · rw [hai2]

end effects

end C11
end LoomVerif

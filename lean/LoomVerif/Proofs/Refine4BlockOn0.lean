/-
Refinement, FUTURES fragment, part 11: the simulation for the set-up stage 0 of `blockOn f mode`: a new call (its own
`Notify`, its own waker) — phase 0 → 1 of the reference.
-/
import LoomVerif.Proofs.Refine4Ok

set_option linter.unusedSimpArgs false
set_option linter.unusedVariables false

namespace LoomVerif
namespace Refine4
open Refine Sy Refine2 C20

theorem notify_kept_append (objs rest : List OV4) :
    ∀ (n : Nat) (nt ds : Bool), objs[n]? = some (OV4.notify false nt ds) →
      (objs ++ rest)[n]? = some (OV4.notify false nt ds) := by
  intro n nt ds hn
  have hlt : n < objs.length := (List.getElem?_eq_some_iff.1 hn).1
  rw [List.getElem?_append_left hlt]; exact hn

section
variable {w w' : World} {s : SC.St}

theorem view4_setUp (w : World) (f : Nat) :
    view4 (setUp w f) = { view4 w with
      futs := w.futs.modify f (fun s => { s with notify := w.exec.objs.length, arc := w.arcs.length }),
      objs := (view4 w).objs ++ [.notify true false false, .other] } := by
  obtain ⟨h1, _, h3, _, h5⟩ := setUp_facts w f
  show ({ prog := (setUp w f).prog, ctl := (setUp w f).ctl, spawned := (setUp w f).spawned,
          nth := (setUp w f).exec.threads.threads.length, futs := (setUp w f).futs,
          objs := (setUp w f).exec.objs.map ov4 } : View) = _
  rw [h1, h3, h5]
  simp only [view4, List.map_append, List.map_cons, List.map_nil, ov4]
  rfl

theorem sim_blockOn0 (hwf : WF4 w.prog) (hR : R4 w s) (hact : w.tid < w.ctl.length) {f mode : Nat}
    (hop : opAt w = some (.blockOn f mode)) (hst : (w.ctlOf w.tid).stage = 0)
    (h : w.stepActive = .ok w') : Sim4 w s w' := by
  rw [stepActive_op hop] at h
  have h' : w.blockOnStage (w.ctlOf w.tid) f mode = .ok w' := by
    simp only [World.runOp] at h; exact h
  rw [blockOn_stage0 w _ f mode hst] at h'
  clear h
  cases h'
  obtain ⟨hf, hfa⟩ := fut_lt hwf hop rfl
  have hlen : w.ctl.length = w.exec.threads.threads.length := hR.lenCtl
  have hopc : opOfCtl w.prog (w.ctlOf w.tid) = some (.blockOn f mode) := hop
  have hrel := rel4 hR hact
  obtain ⟨_, _, hpl, _, _⟩ := act4 hR hact
  have hsy := sync4 hR hact (by rw [hop, hst]; rfl)
  obtain ⟨hrun1, hrun2⟩ := running4 hR hact hop
  have hph : (s.th (w.ctlOf w.tid).body).phase = 0 := by rw [hsy.2.2.2, hop, hst]; rfl
  -- the reference step: phase 0 → 1
  obtain ⟨s', hstep, hdata⟩ := sc_step_bo0 (f := f) (mode := mode) hpl (hsy.1.trans hop) hph
  have hen : SC.enabled w.prog s (w.ctlOf w.tid).body = true :=
    sc_enabled_op hR.verdict hpl hrun1 hrun2 (hsy.1.trans hop) (hwf.opOk hop) (by
      show ((s.th _).phase != 4 || _) = true
      rw [hph]; rfl)
  have hex : SCExec2 w.prog s s' := exec_step hen hstep
  refine ⟨rfl, ⟨s', hex, ?_⟩, inRange_of (w := w) rfl (Nat.le_refl _) (by rw [← hlen]; exact hact)⟩
  -- the new stage
  generalize hstn : (if mode = 5 then 50 else 10 : Nat) = st
  have hstOk : boStageOk mode st = true ∧ phaseOfStage st = 1 ∧ polledSt st = false ∧ (st = 10 ∨ st = 50) := by
    by_cases h5 : mode = 5
    · subst h5; simp at hstn; subst hstn; exact ⟨rfl, rfl, rfl, .inr rfl⟩
    · simp [h5] at hstn; subst hstn
      refine ⟨?_, rfl, rfl, .inl rfl⟩
      show (mode != 5) = true
      simpa using h5
  have hv : view4 ((setUp w f).setStage st) = { view4 w with
      ctl := w.ctl.modify w.tid (fun c => { c with stage := st }),
      futs := w.futs.modify f (fun s => { s with notify := w.exec.objs.length, arc := w.arcs.length }),
      objs := (view4 w).objs ++ [.notify true false false, .other] } := by
    rw [view4_setStage, view4_setUp]
    rfl
  have hopc' : opOfCtl w.prog { w.ctlOf w.tid with stage := st } = some (.blockOn f mode) := hop
  have hdf : (data4 s').futs = (data4 s).futs.modify f newCallF := by rw [hdata]; rfl
  have hda : (data4 s').atoms = (data4 s).atoms := by rw [hdata]; rfl
  have hdt : (data4 s').ths = (data4 s).ths.modify (w.ctlOf w.tid).body (fun h => { h with phase := 1 }) := by
    rw [hdata]; rfl
  have hdv : (data4 s').verdict = none := by rw [hdata]; exact hR.verdict
  have r9 := hrel.2.2.2.2.2.2.2.2
  rw [hopc, hst] at r9
  have r9' : ((data4 s).ths.getD (w.ctlOf w.tid).body {}).pc = (w.ctlOf w.tid).pc ∧
      ((data4 s).ths.getD (w.ctlOf w.tid).body {}).rets = (w.ctlOf w.tid).results ∧
      ((data4 s).ths.getD (w.ctlOf w.tid).body {}).phase = 0 := r9
  -- the attributes of the active thread, before
  have hca : caOf w.prog w.ctl w.tid = none := by
    show callOf w.prog (w.ctlOf w.tid) = none
    simp only [callOf, hopc, hst]; rfl
  have hnoc := no_other_call hwf hR hact hop hca
  -- no waker sits in the slot: it would belong to a call in progress
  have hslot0 : (w.futs.getD f {}).slot = false := by
    cases hs : (w.futs.getD f {}).slot with
    | false => rfl
    | true =>
      obtain ⟨i, m, b, hi, hc⟩ := hR.f.c.slotCall f hf hs
      exact absurd hc (hnoc i m b hi)
  have happ := view_append_notify (view4 w).objs true false false [.other] (by
    intro x hx; simpa using hx)
  have hklen : (view4 w).objs.length = w.exec.objs.length := by simp [view4]
  rw [hklen] at happ
  have hk0 : nvOf (view4 w).objs w.exec.objs.length = none := by
    unfold nvOf
    rw [List.getElem?_eq_none (by rw [hklen]; exact Nat.le_refl _)]
  have hnvmono : ∀ k x, nvOf (view4 w).objs k = some x →
      upd (nvOf (view4 w).objs) w.exec.objs.length (some (true, false, false)) k = some x := by
    intro k x hx
    have : k ≠ w.exec.objs.length := by intro e; subst e; rw [hk0] at hx; cases hx
    rw [upd_ne _ _ this]; exact hx
  unfold R4
  refine R4_step hR hact (fun c => { c with stage := st }) (fun h => { h with phase := 1 }) _ _ hv hdt hdv rfl
    (Nat.le_refl _) ?_ ?_ id (notify_kept_append _ _) ?_
  · refine hrel.of rfl rfl rfl rfl rfl rfl rfl (by rw [hopc']; exact hstOk.1)
      (by rw [hopc']; intro x hx; cases hx) ?_
    rw [hopc']
    have hah : aheadOf (some (Op.blockOn f mode)) st = none := by
      by_cases h5 : mode = 5
      · subst h5; simp at hstn; subst hstn; rfl
      · simp [h5] at hstn; subst hstn; rfl
    show match aheadOf (some (Op.blockOn f mode)) st with | none => _ | some r => _
    rw [hah]
    exact ⟨r9'.1, r9'.2.1, by show (1 : Nat) = phaseOfStage st; rw [hstOk.2.1]⟩
  · intro hne
    exact absurd (fin_zero4 hR hact hop) hne
  · refine RF.ofGroups' (x1 := none) (x2 := none) (x3 := some (f, mode, false)) (x4 := none) hact _
      (by show inflS w.prog { w.ctlOf w.tid with stage := st } = _
          simp only [inflS, hopc'])
      (by show pendN w.prog { w.ctlOf w.tid with stage := st } = _
          simp only [pendN, hopc'])
      (by show callOf w.prog { w.ctlOf w.tid with stage := st } = _
          simp only [callOf, hopc', hstOk.2.1, hstOk.2.2.1, Bool.and_false]; rfl)
      (by show aw25 w.prog { w.ctlOf w.tid with stage := st } = _
          rcases hstOk.2.2.2 with e | e <;> subst e <;> simp only [aw25, hopc']) ?_ ?_ ?_ ?_
    · rw [hdf, happ.1]
      refine hR.f.s.step hf _ newCallF ⟨rfl, rfl⟩ (hR.f.s.slot f hf) (hR.f.s.kindS f hf) (hR.f.s.kindA f hf) ?_ ?_ ?_
        (fun k nt ds hk => ⟨nt, ds, hnvmono _ _ hk⟩)
      · have := hR.f.s.genLe f hf
        show ((data4 s).futs.getD f {}).slotGen ≤ ((data4 s).futs.getD f {}).gen + 1
        omega
      · intro e
        have e' : (w.futs.getD f {}).slot = true := e
        rw [hslot0] at e'; cases e'
      · intro e
        have e' : (w.futs.getD f {}).awWaker = true := e
        obtain ⟨_, nt, ds, hx0⟩ := hR.f.s.genA f hf e'
        have hx : nvOf (view4 w).objs (w.futs.getD f {}).awNotify = some (true, nt, ds) := hx0
        have hne : (w.futs.getD f {}).awNotify ≠ w.exec.objs.length := by
          intro e2; rw [e2] at hx; rw [hk0] at hx; cases hx
        refine ⟨?_, nt, ds, hnvmono _ _ hx⟩
        have hle := hR.f.s.genLe f hf
        show ((data4 s).futs.getD f {}).slotGen = ((data4 s).futs.getD f {}).gen + 1 ↔
          (w.futs.getD f {}).awNotify = w.exec.objs.length
        constructor
        · intro e3; omega
        · intro e3; exact absurd e3 hne
    · rw [hdf, happ.1]
      have hpa : upd (paOf w.prog w.ctl) w.tid none = paOf w.prog w.ctl := by
        have : paOf w.prog w.ctl w.tid = none := by
          show pendN w.prog (w.ctlOf w.tid) = none
          simp only [pendN, hopc, hst]
        rw [← this]; exact upd_same _ _
      rw [hpa]
      refine hR.f.c.newCall hact hf hR.f.s.lenF hR.f.s.lenDF hca (fun i m b hi => hnoc i m b hi) hk0 _
        ⟨rfl, rfl, rfl, rfl⟩ ?_
      intro g hg hw e
      obtain ⟨_, nt, ds, hx0⟩ := hR.f.s.genA g hg hw
      have hx : nvOf (view4 w).objs (w.futs.getD g {}).awNotify = some (true, nt, ds) := hx0
      have e' : nvOf (view4 w).objs (w.futs.getD g {}).awNotify = none := e
      rw [e'] at hx; cases hx
    · rw [hda, happ.2.2]
      exact hR.f.a.same (by show inflS w.prog (w.ctlOf w.tid) = none; simp only [inflS, hopc, hst])
    · rw [happ.2.1]
      exact (hR.f.w.same (by show aw25 w.prog (w.ctlOf w.tid) = none; simp only [aw25, hopc, hst])).futs

end

end Refine4
end LoomVerif

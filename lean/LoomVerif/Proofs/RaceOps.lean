/-
Race exactness, part 6: the stages of `cellRead`, `cellWrite`, `lock`, `tryLock`, `unlock`, `ifEq` keep `RC`; the
race check of the twin (`ahead`) fires exactly when the race check of the reference (`ble`) fails.
-/
import LoomVerif.Proofs.RaceStep

namespace LoomVerif
namespace Race
open Refine Sy C07 C08 Clocks

/-! ### plumbing -/

theorem ctlOf_complete_ne (w0 : World) (r : Ret) {i : Nat} (h : i ≠ w0.tid) :
    (w0.complete r).ctlOf i = w0.ctlOf i := by
  unfold World.ctlOf
  rw [ctl_complete', getD_modify_ne _ _ _ _ _ h]

theorem ctlOf_complete_self (w0 : World) (r : Ret) (h : w0.tid < w0.ctl.length) :
    (w0.complete r).ctlOf w0.tid = completeF r (w0.ctlOf w0.tid) := by
  unfold World.ctlOf
  rw [ctl_complete', getD_modify_self _ _ _ _ h]

/-- the control records after `complete`, for a world whose active thread is (definitionally) `t` -/
theorem complete_ctlOf (w w0 : World) (r : Ret) (i : Nat) (ht : w0.tid = w.tid) (hc : w0.ctl = w.ctl)
    (h : w.tid < w.ctl.length) :
    (w0.complete r).ctlOf i = if i = w.tid then completeF r (w.ctlOf w.tid) else w.ctlOf i := by
  have e1 : ∀ j, w0.ctlOf j = w.ctlOf j := by intro j; unfold World.ctlOf; rw [hc]
  rw [← ht, ← e1]
  by_cases e : i = w0.tid
  · subst e; rw [if_pos rfl]; exact ctlOf_complete_self w0 r (by rw [hc, ht]; exact h)
  · rw [if_neg e, ← e1]; exact ctlOf_complete_ne w0 r e

theorem ctlOf_modCtl_ne (w0 : World) (t : Nat) (f : TCtl → TCtl) {i : Nat} (h : i ≠ t) :
    (w0.modCtl t f).ctlOf i = w0.ctlOf i := by
  unfold World.ctlOf World.modCtl
  exact getD_modify_ne _ _ _ _ _ h

theorem ctlOf_modCtl_self (w0 : World) (t : Nat) (f : TCtl → TCtl) (h : t < w0.ctl.length) :
    (w0.modCtl t f).ctlOf t = f (w0.ctlOf t) := by
  unfold World.ctlOf World.modCtl
  exact getD_modify_self _ _ _ _ h

theorem ctl_len_complete (w0 : World) (r : Ret) : (w0.complete r).ctl.length = w0.ctl.length := by
  rw [ctl_complete']; simp

theorem ctl_len_modCtl (w0 : World) (t : Nat) (f : TCtl → TCtl) : (w0.modCtl t f).ctl.length = w0.ctl.length := by
  simp [World.modCtl]

/-- `rt::synchronize`: the active thread's own component advances -/
theorem sync_get (w : World) (i : Nat) :
    w.sync.ths.get i =
      if w.tid = i ∧ i < nthr w then
        { w.ths.get i with causality := (w.ths.get i).causality.inc w.tid }
      else w.ths.get i := by
  show (w.ths.activeCausalityInc).get i = _
  unfold Threads.activeCausalityInc Threads.modifyActive
  rw [WB.get_modify]
  rfl

theorem sync_tcaus_self (w : World) (h : w.tid < nthr w) : tcaus w.sync w.tid = (tcaus w w.tid).inc w.tid := by
  unfold tcaus; rw [sync_get, if_pos ⟨rfl, h⟩]

theorem sync_tcaus_ne (w : World) {i : Nat} (h : i ≠ w.tid) : tcaus w.sync i = tcaus w i := by
  unfold tcaus; rw [sync_get, if_neg (fun hh => h hh.1.symm)]

theorem sync_trel (w : World) (i : Nat) : trel w.sync i = trel w i := by
  unfold trel; rw [sync_get]; split <;> rfl

theorem sync_topo (w : World) (i : Nat) : topo w.sync i = topo w i := by
  unfold topo; rw [sync_get]; split <;> rfl

theorem sync_caus (w : World) (h : w.tid < nthr w) : w.sync.ths.caus = (tcaus w w.tid).inc w.tid :=
  sync_tcaus_self w h

theorem cellObj_inj (w : World) {c c' : Nat} (h : w.cellObj c = w.cellObj c') : c = c' := by
  unfold World.cellObj at h; omega

theorem cell_ne_mtx (w : World) {c m : Nat} (hc : c < w.prog.cfg.nCells) : w.mutexObj m ≠ w.cellObj c := by
  unfold World.mutexObj World.cellObj World.cfg; omega

theorem mutexObj_inj (w : World) {m m' : Nat} (h : w.mutexObj m = w.mutexObj m') : m = m' := by
  unfold World.mutexObj at h; omega

/-! ### the parts of `RC`, unpacked for the stepping thread -/

section
variable {w : World} {s : SC.St}

theorem nthr_tid (hRC : RC w s) (hact : w.tid < w.ctl.length) : w.tid < nthr w := by
  rw [← nthr_eq hRC.r]; exact hact

/-- the stepping thread is at an operation: it is not past the branch point of a `join` unless that is the
operation; its epilogue has not begun -/
theorem pend_none_of_op (hRC : RC w s) (hact : w.tid < w.ctl.length) {op : Op} (hop : opAt w = some op)
    (hj : ∀ b, op ≠ .join b) : pend w w.tid = none := by
  apply pend_notJoin
  intro b hb
  rw [opAtI_tid, hop] at hb
  exact hj b (by cases hb; rfl)

theorem eq_caus (hRC : RC w s) (hact : w.tid < w.ctl.length) {σT : CS} (hL : LinkT w σT)
    (hp : pend w w.tid = none) : σT.thr w.tid = tcaus w w.tid :=
  hL.eq_of_pend_none (nthr_tid hRC hact) hp

end

/-! ### cell accesses -/

section
variable {w w' : World} {s : SC.St}

/-- `cellRead`, spelled out on a world whose cells are idle -/
theorem runOp_cellRead_eq (hRC : RC w s) {ci : Nat} (hci : ci < w.prog.cfg.nCells) :
    ∃ cs, w.exec.objs[w.cellObj ci]? = some (.cell cs) ∧ cs.isReading = 0 ∧ cs.isWriting = false ∧
      w.runOp (w.ctlOf w.tid) (.cellRead ci) =
        if (w.sync.ths.caus.ahead cs.writeAccess).isSome then .error (.causality 9)
        else .ok ((w.sync.setObj (w.cellObj ci)
          (.cell { cs with readAccess := cs.readAccess.join w.sync.ths.caus })).complete (.val cs.value)) := by
  obtain ⟨cs, h1, h2, h3⟩ := hRC.inv.cb ci hci
  refine ⟨cs, h1, h2, h3, ?_⟩
  rw [runOp_cellRead]
  have hg : w.sync.getCell (w.cellObj ci) = .ok cs := by
    have h1' : w.sync.exec.objs[w.cellObj ci]? = some (.cell cs) := h1
    unfold World.getCell
    rw [h1']
  rw [hg]
  simp only [bind, Except.bind, h3, Bool.false_eq_true, if_false, pure, Except.pure, throw, throwThe,
    MonadExceptOf.throw]

theorem runOp_cellWrite_eq (hRC : RC w s) {ci : Nat} (v : Int) (hci : ci < w.prog.cfg.nCells) :
    ∃ cs, w.exec.objs[w.cellObj ci]? = some (.cell cs) ∧ cs.isReading = 0 ∧ cs.isWriting = false ∧
      w.runOp (w.ctlOf w.tid) (.cellWrite ci v) =
        if (w.sync.ths.caus.ahead cs.writeAccess).isSome then .error (.causality 10)
        else if (w.sync.ths.caus.ahead cs.readAccess).isSome then .error (.causality 11)
        else .ok ((w.sync.setObj (w.cellObj ci)
          (.cell { cs with writeAccess := cs.writeAccess.join w.sync.ths.caus, value := v })).complete .unit) := by
  obtain ⟨cs, h1, h2, h3⟩ := hRC.inv.cb ci hci
  refine ⟨cs, h1, h2, h3, ?_⟩
  rw [runOp_cellWrite]
  have hg : w.sync.getCell (w.cellObj ci) = .ok cs := by
    have h1' : w.sync.exec.objs[w.cellObj ci]? = some (.cell cs) := h1
    unfold World.getCell
    rw [h1']
  rw [hg]
  simp only [bind, Except.bind, h2, h3, bne_self_eq_false, Bool.or_self, Bool.false_eq_true, if_false, pure,
    Except.pure, throw, throwThe, MonadExceptOf.throw]

end

/-! ### no more loom threads than bodies -/

/-- pigeonhole: an injection of `[0, n)` into `[0, m)` -/
theorem inj_le : ∀ (n m : Nat) (β : Nat → Nat), (∀ i, i < n → β i < m) → Inj n β → n ≤ m := by
  intro n
  induction n with
  | zero => intro m β _ _; exact Nat.zero_le _
  | succ n ih =>
    intro m β hlt hinj
    have hv := hlt n (Nat.lt_succ_self n)
    cases m with
    | zero => omega
    | succ m =>
      have := ih m (fun i => if β i < β n then β i else β i - 1) ?_ ?_
      · omega
      · intro i hi
        have h1 := hlt i (by omega)
        have hne : β i ≠ β n := fun e => by have := hinj i n (by omega) (by omega) e; omega
        show (if β i < β n then β i else β i - 1) < m
        split <;> omega
      · intro i j hi hj e
        have hni : β i ≠ β n := fun e => by have := hinj i n (by omega) (by omega) e; omega
        have hnj : β j ≠ β n := fun e => by have := hinj j n (by omega) (by omega) e; omega
        apply hinj i j (by omega) (by omega)
        simp only at e
        split at e <;> split at e <;> omega

section
variable {w w' : World} {s : SC.St}

theorem ctl_le (hR : R w (data s)) : w.ctl.length ≤ w.prog.threads.length :=
  inj_le _ _ (body w) (fun _ hi => body_lt hR hi) (inj_body hR)

/-- the clock systems after the tick both sides perform at a cell access -/
theorem ticked_pack (hRC : RC w s) (hact : w.tid < w.ctl.length) {σT σR : CS} (hLT : LinkT w σT)
    (hLR : LinkR w.prog s σR) (hGT : Good σT) (hGR : Good σR) (hX : XInv w.ctl.length (body w) σT σR)
    (hp : pend w w.tid = none) :
    Good (σT.tick w.tid) ∧ Good (σR.tick (body w w.tid)) ∧
    XInv w.ctl.length (body w) (σT.tick w.tid) (σR.tick (body w w.tid)) ∧
    Strict (σT.tick w.tid) w.tid ∧ Strict (σR.tick (body w w.tid)) (body w w.tid) ∧
    (σT.tick w.tid).thr w.tid = w.sync.ths.caus ∧
    LinkR w.prog (s.tick (body w w.tid)) (σR.tick (body w w.tid)) := by
  have hle := ctl_le hRC.r
  have ht5 : w.tid < 5 := by have := hRC.nt; omega
  have hb5 : body w w.tid < 5 := by have := body_lt hRC.r hact; have := hRC.nt; omega
  have hX1 := hX.tickT hGT hGR w.tid hact
  have hX2 := hX1.tickR (hGT.tick _) hGR (inj_body hRC.r) w.tid hact
  refine ⟨hGT.tick _, hGR.tick _, hX2, hGT.strict_tick _ ht5, hGR.strict_tick _ hb5, ?_,
    hLR.tick (body_lt_ths hRC.r hact)⟩
  rw [sync_caus w (nthr_tid hRC hact), ← eq_caus hRC hact hLT hp]
  exact upd_self _ _ _

/-! ### the shapes of the outcome of a stage -/

/-- the stage does not move the thread and changes no clock -/
def QuietOut (w w' : World) : Prop :=
  w'.prog = w.prog ∧ w'.ctl.length = w.ctl.length ∧ (∀ i, body w' i = body w i) ∧
  (w'.ctlOf w.tid).pc = (w.ctlOf w.tid).pc ∧ (10 ≤ fin w' w.tid ↔ 10 ≤ fin w w.tid) ∧
  TwinInv w' ∧ ∀ σT, LinkT w σT → LinkT w' σT

/-- the stage takes the reference step of the thread, to the state `s'` that is THE successor of the reference
step -/
def RealOut (w : World) (s : SC.St) (w' : World) : Prop :=
  w'.prog = w.prog ∧ w.tid < w'.ctl.length ∧ body w' w.tid = body w w.tid ∧
  ((w'.ctlOf w.tid).pc ≠ (w.ctlOf w.tid).pc ∨ (¬ 10 ≤ fin w w.tid ∧ 10 ≤ fin w' w.tid)) ∧
  ∃ s', SC.step w.prog s (body w w.tid) = [s'] ∧ s'.verdict = none ∧ TwinInv w' ∧
    ∃ σT' σR', LinkT w' σT' ∧ LinkR w.prog s' σR' ∧ Good σT' ∧ Good σR' ∧
      XInv w'.ctl.length (body w') σT' σR'

theorem simC_of_quiet (hRC : RC w s) (hact : w.tid < w.ctl.length) (hsim : Sim w (data s) w')
    (h : QuietOut w w') : SimC w s w' := by
  obtain ⟨hp, hl, hb, hpc, hfin, hI, hL⟩ := h
  obtain ⟨hR', hev⟩ := quiet_finish hRC hact hsim (by rw [hl]; exact hact) (hb _) hpc hfin
  obtain ⟨σT, σR, h1, h2, h3, h4, h5⟩ := hRC.clk
  refine ⟨hp, .inl ⟨⟨hR', hRC.fs, by rw [hp]; exact hRC.nt, hI, σT, σR, hL σT h1, by rw [hp]; exact h2, h3, h4, ?_⟩,
    hev⟩⟩
  rw [hl]
  exact h5.congr (fun i _ => hb i)

theorem simC_of_real (hwf : WF w.prog) (hRC : RC w s) (hact : w.tid < w.ctl.length)
    (hsim : Sim w (data s) w') (h : RealOut w s w') : SimC w s w' := by
  obtain ⟨hp, hl, hb, hmv, s', hstep, hv, hI, σT', σR', h1, h2, h3, h4, h5⟩ := h
  obtain ⟨hen, hfs, hR', l, hst, hev⟩ := real_finish hwf hRC hact hsim hl hb hmv hstep hv
  refine ⟨hp, .inr ⟨s', hen, by rw [hstep]; exact List.mem_singleton.2 rfl,
    ⟨hR', hfs, by rw [hp]; exact hRC.nt, hI, σT', σR', h1, by rw [hp]; exact h2, h3, h4, h5⟩, l, hst, hev⟩⟩

end

/-! ### `cellRead` -/

section
variable {w w' : World} {s : SC.St}

theorem cellIdle_set (os : List Obj) {o n : Nat} {cs cs' : CellSt} (ho : os[o]? = some (.cell cs))
    (h1 : cs'.isReading = cs.isReading) (h2 : cs'.isWriting = cs.isWriting) (h : cellIdle os n) :
    cellIdle (os.set o (.cell cs')) n := by
  by_cases e : n = o
  · subst e
    obtain ⟨c0, hc0, h3, h4⟩ := h
    rw [ho] at hc0; cases hc0
    exact ⟨cs', getElem?_set_self' _ _ _ _ ho, by rw [h1]; exact h3, by rw [h2]; exact h4⟩
  · obtain ⟨c0, hc0, h3, h4⟩ := h
    exact ⟨c0, by rw [getElem?_set_ne' _ _ _ _ e]; exact hc0, h3, h4⟩

/-- the twin-side transfer for a cell access: the thread ticks, the cell `ci` becomes `cs'` -/
theorem cell_transfer (hRC : RC w s) (hact : w.tid < w.ctl.length) {op : Op} (hop : opAt w = some op)
    (hnj : ∀ b, op ≠ .join b) {σT : CS} (hLT : LinkT w σT) {ci : Nat} (hci : ci < w.prog.cfg.nCells)
    {cs cs' : CellSt} (hobj : w.exec.objs[w.cellObj ci]? = some (.cell cs))
    (h1 : cs'.isReading = cs.isReading) (h2 : cs'.isWriting = cs.isWriting) (k : Bool)
    (hk : accOf k (.cell cs') = (accOf k (.cell cs)).join w.sync.ths.caus)
    (hk' : accOf (!k) (.cell cs') = accOf (!k) (.cell cs)) (r : Ret)
    (hσt : (σT.tick w.tid).thr w.tid = w.sync.ths.caus) :
    TwinInv ((w.sync.setObj (w.cellObj ci) (.cell cs')).complete r) ∧
    LinkT ((w.sync.setObj (w.cellObj ci) (.cell cs')).complete r) ((σT.tick w.tid).record k w.tid ci) := by
  have ht := nthr_tid hRC hact
  have hpn := pend_none_of_op hRC hact hop hnj
  have hf0 : fin w w.tid = 0 := fin_zero hRC.r hact hop
  refine active_transfer hRC.r hRC.inv hLT w.tid rfl rfl (sync_len w) ?_ ?_ hf0 ?_ ?_ ?_ ?_ ?_ ?_ ?_ ?_ ?_ ?_ ?_ ?_
  · intro i hi
    rw [complete_ctlOf w _ r i (by rfl) (by rfl) hact, if_neg hi]
  · rw [complete_ctlOf w _ r w.tid (by rfl) (by rfl) hact, if_pos rfl]; rfl
  · show ((((w.sync.setObj (w.cellObj ci) (.cell cs')).complete r)).ctlOf w.tid).fin = 0
    rw [complete_ctlOf w _ r w.tid (by rfl) (by rfl) hact, if_pos rfl]; exact hf0
  · intro i hi; exact sync_tcaus_ne w hi
  · intro i; exact sync_trel w i
  · intro i; exact sync_topo w i
  · show (w.exec.objs.set _ _).length = _
    simp
  · intro b j n _
    exact objHb_set_same _ hobj (x' := .cell cs') rfl n
  · intro i hi
    show upd σT.thr w.tid _ i = _
    rw [upd_ne _ _ hi]
  · show (σT.tick w.tid).thr w.tid = _
    rw [hσt]; rfl
  · intro m hm
    show σT.mtx m = objHb (w.exec.objs.set _ _) _
    rw [objHb_set_same _ hobj (x' := .cell cs') rfl, hLT.mtx m hm]
  · intro k' c hc
    show (if k' = k ∧ c = ci then ((σT.tick w.tid).acc k ci).join ((σT.tick w.tid).thr w.tid)
      else (σT.tick w.tid).acc k' c) = objAcc (w.exec.objs.set _ _) k' (w.cellObj c)
    have hacc : ∀ k'' c'', (σT.tick w.tid).acc k'' c'' = σT.acc k'' c'' := fun _ _ => rfl
    by_cases ec : c = ci
    · subst ec
      rw [objAcc_set_self _ _ _ (List.getElem?_eq_some_iff.1 hobj).1]
      by_cases ek : k' = k
      · subst ek
        rw [if_pos ⟨rfl, rfl⟩, hk, hσt, hacc, hLT.acc k' c hc, objAcc_of k' hobj]
      · rw [if_neg (fun hh => ek hh.1), hacc, hLT.acc k' c hc, objAcc_of k' hobj]
        have : k' = !k := by cases k' <;> cases k <;> simp_all
        rw [this, hk']
    · rw [if_neg (fun hh => ec hh.2), hacc, hLT.acc k' c hc]
      rw [objAcc_set_ne _ _ _ (fun e => ec (cellObj_inj w e))]
  · intro c hc
    exact cellIdle_set _ hobj h1 h2 (hRC.inv.cb c hc)
  · intro n hn
    rw [hpn] at hn; cases hn

theorem clk_cellRead (hRC : RC w s) (hact : w.tid < w.ctl.length) {ci : Nat}
    (hop : opAt w = some (.cellRead ci)) (hci : ci < w.prog.cfg.nCells) :
    (w.runOp (w.ctlOf w.tid) (.cellRead ci) = .error (.causality 9) ∧
      SC.step w.prog s (body w w.tid) = [(s.tick (body w w.tid)).stop (.race 9)]) ∨
    (∃ w', w.runOp (w.ctlOf w.tid) (.cellRead ci) = .ok w' ∧ RealOut w s w') := by
  obtain ⟨σT, σR, hLT, hLR, hGT, hGR, hX⟩ := hRC.clk
  have hpn := pend_none_of_op hRC hact hop (by intro b; simp)
  obtain ⟨hGT1, hGR1, hX1, hsT, hsR, hσt, hLR1⟩ := ticked_pack hRC hact hLT hLR hGT hGR hX hpn
  obtain ⟨cs, hobj, hr0, hw0, heq⟩ := runOp_cellRead_eq hRC hci
  have hcv : (s.th (body w w.tid)).cvNotified = none := (hRC.fs.2 _).2.1
  have ho : SC.opOf w.prog s (body w w.tid) = some (.cellRead ci) := (opOf_eq hRC.r hact).trans hop
  have hstep := step_cellRead hcv ho
  rw [hLR.opnW ci] at hstep
  simp only [Bool.false_eq_true, if_false] at hstep
  -- the two race checks agree
  have hagree := race_agree hGT1 hGR1 hX1 true ci w.tid hact
  have hTacc : (σT.tick w.tid).acc true ci = cs.writeAccess := by
    show σT.acc true ci = _
    rw [hLT.acc true ci hci, objAcc_of true hobj]; rfl
  have hRacc : (σR.tick (body w w.tid)).acc true ci = s.cellW.getD ci VV.zero := hLR.accW ci
  have hRthr : (σR.tick (body w w.tid)).thr (body w w.tid) = (s.tick (body w w.tid)).vc (body w w.tid) :=
    hLR1.thr _
  rw [hTacc, hσt, hRacc, hRthr] at hagree
  by_cases hA : cs.writeAccess.le w.sync.ths.caus
  · right
    have h1 : (w.sync.ths.caus.ahead cs.writeAccess).isSome = false := (ahead_isSome_eq_false_iff _ _).2 hA
    have h2 : (s.cellW.getD ci VV.zero).ble ((s.tick (body w w.tid)).vc (body w w.tid)) = true :=
      (ble_iff _ _).2 (hagree.1 hA)
    rw [h1] at heq
    rw [h2] at hstep
    simp only [Bool.false_eq_true, if_false, Bool.not_true] at heq hstep
    refine ⟨_, heq, rfl, ?_, ?_, .inl ?_, _, hstep, hRC.fs.1, ?_⟩
    · show w.tid < ((w.sync.setObj _ _).complete _).ctl.length
      rw [ctl_len_complete]; exact hact
    · show (((w.sync.setObj _ _).complete _).ctlOf w.tid).body = _
      rw [complete_ctlOf w _ _ w.tid (by rfl) (by rfl) hact, if_pos rfl]; rfl
    · rw [complete_ctlOf w _ _ w.tid (by rfl) (by rfl) hact, if_pos rfl]
      show (w.ctlOf w.tid).pc + 1 ≠ _
      omega
    · obtain ⟨hI', hL'⟩ := cell_transfer hRC hact hop (by intro b; simp) hLT hci hobj
        (cs' := { cs with readAccess := cs.readAccess.join w.sync.ths.caus }) rfl rfl false rfl rfl
        (.val cs.value) hσt
      refine ⟨hI', _, (σR.tick (body w w.tid)).record false (body w w.tid) ci, hL', ?_,
        hGT1.record false w.tid ci hsT, hGR1.record false _ ci hsR, ?_⟩
      · exact (hLR1.recordR hci).ret _ _
      · rw [ctl_len_complete]
        refine (hX1.record (inj_body hRC.r) false w.tid ci hact hsT hsR).congr ?_
        intro i _
        show (((w.sync.setObj _ _).complete _).ctlOf i).body = (w.ctlOf i).body
        rw [complete_ctlOf w _ _ i (by rfl) (by rfl) hact]
        split
        · next e => rw [e]; rfl
        · rfl
  · left
    have h1 : (w.sync.ths.caus.ahead cs.writeAccess).isSome = true := (ahead_isSome_iff _ _).2 hA
    have h2 : (s.cellW.getD ci VV.zero).ble ((s.tick (body w w.tid)).vc (body w w.tid)) = false := by
      cases hb : (s.cellW.getD ci VV.zero).ble ((s.tick (body w w.tid)).vc (body w w.tid))
      · rfl
      · exact absurd (hagree.2 ((ble_iff _ _).1 hb)) hA
    rw [h1] at heq
    rw [h2] at hstep
    exact ⟨heq, hstep⟩

/-! ### `cellWrite` -/

theorem clk_cellWrite (hRC : RC w s) (hact : w.tid < w.ctl.length) {ci : Nat} {v : Int}
    (hop : opAt w = some (.cellWrite ci v)) (hci : ci < w.prog.cfg.nCells) :
    (w.runOp (w.ctlOf w.tid) (.cellWrite ci v) = .error (.causality 10) ∧
      SC.step w.prog s (body w w.tid) = [(s.tick (body w w.tid)).stop (.race 10)]) ∨
    (w.runOp (w.ctlOf w.tid) (.cellWrite ci v) = .error (.causality 11) ∧
      SC.step w.prog s (body w w.tid) = [(s.tick (body w w.tid)).stop (.race 11)]) ∨
    (∃ w', w.runOp (w.ctlOf w.tid) (.cellWrite ci v) = .ok w' ∧ RealOut w s w') := by
  obtain ⟨σT, σR, hLT, hLR, hGT, hGR, hX⟩ := hRC.clk
  have hpn := pend_none_of_op hRC hact hop (by intro b; simp)
  obtain ⟨hGT1, hGR1, hX1, hsT, hsR, hσt, hLR1⟩ := ticked_pack hRC hact hLT hLR hGT hGR hX hpn
  obtain ⟨cs, hobj, hr0, hw0, heq⟩ := runOp_cellWrite_eq hRC v hci
  have hcv : (s.th (body w w.tid)).cvNotified = none := (hRC.fs.2 _).2.1
  have ho : SC.opOf w.prog s (body w w.tid) = some (.cellWrite ci v) := (opOf_eq hRC.r hact).trans hop
  have hstep := step_cellWrite hcv ho
  rw [hLR.opnW ci, hLR.opnR ci] at hstep
  simp only [Bool.false_eq_true, if_false, bne_self_eq_false] at hstep
  have hagW := race_agree hGT1 hGR1 hX1 true ci w.tid hact
  have hagR := race_agree hGT1 hGR1 hX1 false ci w.tid hact
  have hTaccW : (σT.tick w.tid).acc true ci = cs.writeAccess := by
    show σT.acc true ci = _
    rw [hLT.acc true ci hci, objAcc_of true hobj]; rfl
  have hTaccR : (σT.tick w.tid).acc false ci = cs.readAccess := by
    show σT.acc false ci = _
    rw [hLT.acc false ci hci, objAcc_of false hobj]; rfl
  have hRaccW : (σR.tick (body w w.tid)).acc true ci = s.cellW.getD ci VV.zero := hLR.accW ci
  have hRaccR : (σR.tick (body w w.tid)).acc false ci = s.cellR.getD ci VV.zero := hLR.accR ci
  have hRthr : (σR.tick (body w w.tid)).thr (body w w.tid) = (s.tick (body w w.tid)).vc (body w w.tid) :=
    hLR1.thr _
  rw [hTaccW, hσt, hRaccW, hRthr] at hagW
  rw [hTaccR, hσt, hRaccR, hRthr] at hagR
  have bleF : ∀ a b : VV, ¬ a.le b → a.ble b = false := by
    intro a b h
    cases hb : a.ble b
    · rfl
    · exact absurd ((ble_iff _ _).1 hb) h
  by_cases hA : cs.writeAccess.le w.sync.ths.caus
  · have h1 : (w.sync.ths.caus.ahead cs.writeAccess).isSome = false := (ahead_isSome_eq_false_iff _ _).2 hA
    have h2 : (s.cellW.getD ci VV.zero).ble ((s.tick (body w w.tid)).vc (body w w.tid)) = true :=
      (ble_iff _ _).2 (hagW.1 hA)
    rw [h1] at heq
    rw [h2] at hstep
    simp only [Bool.false_eq_true, if_false, Bool.not_true] at heq hstep
    by_cases hB : cs.readAccess.le w.sync.ths.caus
    · right; right
      have h3 : (w.sync.ths.caus.ahead cs.readAccess).isSome = false := (ahead_isSome_eq_false_iff _ _).2 hB
      have h4 : (s.cellR.getD ci VV.zero).ble ((s.tick (body w w.tid)).vc (body w w.tid)) = true :=
        (ble_iff _ _).2 (hagR.1 hB)
      rw [h3] at heq
      rw [h4] at hstep
      simp only [Bool.false_eq_true, if_false, Bool.not_true] at heq hstep
      refine ⟨_, heq, rfl, ?_, ?_, .inl ?_, _, hstep, hRC.fs.1, ?_⟩
      · show w.tid < ((w.sync.setObj _ _).complete _).ctl.length
        rw [ctl_len_complete]; exact hact
      · show (((w.sync.setObj _ _).complete _).ctlOf w.tid).body = _
        rw [complete_ctlOf w _ _ w.tid (by rfl) (by rfl) hact, if_pos rfl]; rfl
      · rw [complete_ctlOf w _ _ w.tid (by rfl) (by rfl) hact, if_pos rfl]
        show (w.ctlOf w.tid).pc + 1 ≠ _
        omega
      · obtain ⟨hI', hL'⟩ := cell_transfer hRC hact hop (by intro b; simp) hLT hci hobj
          (cs' := { cs with writeAccess := cs.writeAccess.join w.sync.ths.caus, value := v }) rfl rfl true rfl rfl
          .unit hσt
        refine ⟨hI', _, (σR.tick (body w w.tid)).record true (body w w.tid) ci, hL', ?_,
          hGT1.record true w.tid ci hsT, hGR1.record true _ ci hsR, ?_⟩
        · exact (hLR1.recordW hci _).ret _ _
        · rw [ctl_len_complete]
          refine (hX1.record (inj_body hRC.r) true w.tid ci hact hsT hsR).congr ?_
          intro i _
          show (((w.sync.setObj _ _).complete _).ctlOf i).body = (w.ctlOf i).body
          rw [complete_ctlOf w _ _ i (by rfl) (by rfl) hact]
          split
          · next e => rw [e]; rfl
          · rfl
    · right; left
      have h3 : (w.sync.ths.caus.ahead cs.readAccess).isSome = true := (ahead_isSome_iff _ _).2 hB
      have h4 := bleF _ _ (fun h => hB (hagR.2 h))
      rw [h3] at heq
      rw [h4] at hstep
      exact ⟨heq, hstep⟩
  · left
    have h1 : (w.sync.ths.caus.ahead cs.writeAccess).isSome = true := (ahead_isSome_iff _ _).2 hA
    have h2 := bleF _ _ (fun h => hA (hagW.2 h))
    rw [h1] at heq
    rw [h2] at hstep
    exact ⟨heq, hstep⟩

end

end Race
end LoomVerif

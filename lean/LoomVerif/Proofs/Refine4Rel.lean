/-
Refinement, FUTURES fragment, part 4: the abstraction relation `R4` between a world of the twin and (the data of) a
state of the reference semantics.

Where the reference takes its step.  The reference semantics performs `wake f` (flag store, take the registered
waker, notify the call it belongs to, drop it) in ONE step; the twin in five stages.  The reference step is taken at
the stage that takes the waker under the slot's mutex (the LINEARISATION point); after it the twin thread is `ahead`
of … rather BEHIND the reference: the reference thread has already recorded the result of the operation (`aheadOf`),
the notification is still in flight (`pendN`), and between the flag store and the linearisation point the store is in
flight (`inflS`).  Likewise for the other operations on a future, and for the return stages of `blockOn`.
-/
import LoomVerif.Proofs.Refine4Twin
import LoomVerif.Proofs.Refine3Rel

set_option linter.unusedSimpArgs false
set_option linter.unusedVariables false

namespace LoomVerif
namespace Refine4
open Refine Sy

/-- the operation a control record is at -/
abbrev opOfCtl (p : Prog) (c : TCtl) : Option Op := Refine3.opOfCtl p c

/-! ### the stages of the twin and the phases of the reference -/

/-- the phase of the reference `blockOn` a stage of the twin's `blockOnStage` corresponds to -/
def phaseOfStage : Nat → Nat
  | 10 | 11 | 50 | 51 | 52 => 1
  | 12 | 30 | 20 | 21 => 2
  | 13 | 25 | 14 | 15 => 3
  | 16 | 53 => 4
  | 40 | 44 | 45 => 5
  | _ => 0

/-- the stages of a mode-5 call after its first poll -/
def polledSt : Nat → Bool
  | 53 | 52 | 40 => true
  | _ => false

/-- the stages a `blockOn f mode` can be in -/
def boStageOk (mode : Nat) : Nat → Bool
  | 0 | 40 => true
  | 10 | 11 | 14 | 15 | 16 => mode != 5
  | 12 | 30 | 13 | 45 | 43 => mode == 0
  | 20 | 21 | 25 => mode == 1 || mode == 3 || mode == 4
  | 41 => mode == 4
  | 44 | 46 => mode == 1
  | 50 | 51 | 52 | 53 => mode == 5
  | _ => false

/-- the stages an operation can be in -/
def stageOk : Option Op → Nat → Bool
  | some (.blockOn _ m), st => boStageOk m st
  | some (.wake _), st | some (.awWake _), st => decide (st ≤ 4)
  | some (.wakeRef _), st => st == 0 || st == 1 || st == 2 || st == 5
  | some (.wakeQ _), st => st == 0 || st == 2 || st == 5
  | some (.dropWaker _), st | some (.awTake _), st => decide (st ≤ 2)
  | some (.spawn _), st | some (.ifEq ..), st => st == 0
  | some _, st => decide (st ≤ 1)
  | none, st => st == 0

/-- the result the reference thread has ALREADY recorded for the operation the twin thread is still finishing -/
def aheadOf : Option Op → Nat → Option Ret
  | some (.blockOn _ _), 41 => some (.val 0)
  | some (.blockOn _ _), 43 => some (.val 7)
  | some (.blockOn _ _), 46 => some (.val 7)
  | some (.wake _), 3 => some .unit
  | some (.wake _), 4 => some .unit
  | some (.awWake _), 3 => some .unit
  | some (.awWake _), 4 => some .unit
  | some (.wakeRef _), 5 => some .unit
  | some (.wakeQ _), 5 => some .unit
  | some (.dropWaker _), 2 => some .unit
  | some (.awTake _), 2 => some .unit
  | _, _ => none

/-- the phase of the reference thread -/
def phaseOf : Option Op → Nat → Nat
  | some (.blockOn _ _), st => phaseOfStage st
  | _, _ => 0

/-- the flag store of the thread has taken effect, its reference step has not been taken yet -/
def inflS (p : Prog) (c : TCtl) : Option Nat :=
  match opOfCtl p c, c.stage with
  | some (.wake f), 2 => some f
  | some (.wakeRef f), 2 => some f
  | some (.awWake f), 2 => some f
  | _, _ => none

/-- the thread has taken its reference step and is about to notify the `Notify` `n` -/
def pendN (p : Prog) (c : TCtl) : Option Nat :=
  match opOfCtl p c, c.stage with
  | some (.wake _), 3 => some c.takenNotify
  | some (.awWake _), 3 => some c.takenNotify
  | some (.wakeRef _), 5 => some c.takenNotify
  | some (.wakeQ _), 5 => some c.takenNotify
  | _, _ => none

/-- the thread is inside a call `blockOn f mode` (the reference thread's phase is not 0); the flag says whether a
mode-5 call has polled its future -/
def callOf (p : Prog) (c : TCtl) : Option (Nat × Nat × Bool) :=
  match opOfCtl p c with
  | some (.blockOn f m) => if phaseOfStage c.stage != 0 then some (f, m, m == 5 && polledSt c.stage) else none
  | _ => none

/-- the thread holds the `AtomicWaker`'s mutex of future `f` across a stage boundary -/
def aw25 (p : Prog) (c : TCtl) : Option Nat :=
  match opOfCtl p c, c.stage with
  | some (.blockOn f _), 25 => some f
  | _, _ => none

/-- what the futures part of the relation reads of a control record -/
def fattr (p : Prog) (c : TCtl) : Option Nat × Option Nat × Option (Nat × Nat × Bool) × Option Nat :=
  (inflS p c, pendN p c, callOf p c, aw25 p c)

/-! ### the control part of the relation -/

/-- twin control record `c` of a thread ↔ data `h` of the body it runs -/
def ThRel4 (p : Prog) (c : TCtl) (h : DTh4) : Prop :=
  h.started = true ∧ h.finished = decide (10 ≤ c.fin) ∧ h.plain = true ∧ h.held = [] ∧
  c.locals = [] ∧ c.dtorQueue = [] ∧ stageOk (opOfCtl p c) c.stage = true ∧
  (∀ x, opOfCtl p c = some (.atom x (.store 1 .rel)) → c.stage = 1 → c.prim = some (.store 1 .rel)) ∧
  match aheadOf (opOfCtl p c) c.stage with
  | none => h.pc = c.pc ∧ h.rets = c.results ∧ h.phase = phaseOf (opOfCtl p c) c.stage
  | some r => h.pc = c.pc + 1 ∧ h.rets = (c.pc, r) :: c.results ∧ h.phase = 0

structure RX4 (p : Prog) (ctl : List TCtl) (ths : List DTh4) : Prop where
  len : ths.length = p.threads.length
  main : 0 < ctl.length ∧ (ctl.getD 0 {}).body = 0
  thr : ∀ i, i < ctl.length →
    (ctl.getD i {}).body < p.threads.length ∧ ThRel4 p (ctl.getD i {}) (ths.getD (ctl.getD i {}).body {})
  epi : ∀ i, i < ctl.length → (ctl.getD i {}).fin ≠ 0 → opOfCtl p (ctl.getD i {}) = none
  inj : ∀ i j, i < ctl.length → j < ctl.length → (ctl.getD i {}).body = (ctl.getD j {}).body → i = j
  idle : ∀ b, b < p.threads.length → (∀ i, i < ctl.length → (ctl.getD i {}).body ≠ b) → ths.getD b {} = {}
  past : ∀ i, 0 < i → i < ctl.length → ∃ j k, j < ctl.length ∧ k < (ctl.getD j {}).pc ∧
    (p.threads.getD (ctl.getD j {}).body [])[k]? = some (.spawn (ctl.getD i {}).body)

theorem RX4.modify {p : Prog} {ctl : List TCtl} {ths : List DTh4} (h : RX4 p ctl ths) {t : Nat}
    (ht : t < ctl.length) (f : TCtl → TCtl) (g : DTh4 → DTh4)
    (hbody : (f (ctl.getD t {})).body = (ctl.getD t {}).body)
    (hpc : (ctl.getD t {}).pc ≤ (f (ctl.getD t {})).pc)
    (hrel : ThRel4 p (f (ctl.getD t {})) (g (ths.getD (ctl.getD t {}).body {})))
    (hepi : (f (ctl.getD t {})).fin ≠ 0 → opOfCtl p (f (ctl.getD t {})) = none) :
    RX4 p (ctl.modify t f) (ths.modify (ctl.getD t {}).body g) := by
  have hlen : (ctl.modify t f).length = ctl.length := by simp
  have hbl : (ctl.getD t {}).body < ths.length := by rw [h.len]; exact (h.thr t ht).1
  have body_eq : ∀ i, ((ctl.modify t f).getD i {}).body = (ctl.getD i {}).body := by
    intro i
    by_cases hi : i = t
    · subst hi; rw [getD_modify_self _ _ _ _ ht]; exact hbody
    · rw [getD_modify_ne _ _ _ _ _ hi]
  have pc_le : ∀ i, (ctl.getD i {}).pc ≤ ((ctl.modify t f).getD i {}).pc := by
    intro i
    by_cases hi : i = t
    · subst hi; rw [getD_modify_self _ _ _ _ ht]; exact hpc
    · rw [getD_modify_ne _ _ _ _ _ hi]; exact Nat.le_refl _
  refine ⟨by simpa using h.len, ⟨by rw [hlen]; exact h.main.1, by rw [body_eq]; exact h.main.2⟩, ?_, ?_, ?_, ?_, ?_⟩
  · intro i hi
    rw [hlen] at hi
    rw [body_eq]
    refine ⟨(h.thr i hi).1, ?_⟩
    by_cases hit : i = t
    · subst hit
      rw [getD_modify_self _ _ _ _ ht, getD_modify_self _ _ _ _ hbl]
      exact hrel
    · have hne : (ctl.getD i {}).body ≠ (ctl.getD t {}).body := fun e => hit (h.inj i t hi ht e)
      rw [getD_modify_ne _ _ _ _ _ hit, getD_modify_ne _ _ _ _ _ hne]
      exact (h.thr i hi).2
  · intro i hi
    rw [hlen] at hi
    by_cases hit : i = t
    · subst hit
      rw [getD_modify_self _ _ _ _ ht]
      exact hepi
    · rw [getD_modify_ne _ _ _ _ _ hit]
      exact h.epi i hi
  · intro i j hi hj
    rw [hlen] at hi hj
    rw [body_eq, body_eq]
    exact h.inj i j hi hj
  · intro b hb hidle
    have hidle' : ∀ i, i < ctl.length → (ctl.getD i {}).body ≠ b := by
      intro i hi
      have := hidle i (by rw [hlen]; exact hi)
      rw [body_eq] at this; exact this
    have hne : b ≠ (ctl.getD t {}).body := fun e => hidle' t ht e.symm
    rw [getD_modify_ne _ _ _ _ _ hne]
    exact h.idle b hb hidle'
  · intro i hi0 hi
    rw [hlen] at hi
    obtain ⟨j, k, hj, hk, hop⟩ := h.past i hi0 hi
    refine ⟨j, k, by rw [hlen]; exact hj, Nat.lt_of_lt_of_le hk (pc_le j), ?_⟩
    rw [body_eq, body_eq]; exact hop

theorem RX4.stutter {p : Prog} {ctl : List TCtl} {ths : List DTh4} (h : RX4 p ctl ths) {t : Nat}
    (ht : t < ctl.length) (f : TCtl → TCtl)
    (hbody : (f (ctl.getD t {})).body = (ctl.getD t {}).body)
    (hpc : (ctl.getD t {}).pc ≤ (f (ctl.getD t {})).pc)
    (hrel : ThRel4 p (f (ctl.getD t {})) (ths.getD (ctl.getD t {}).body {}))
    (hepi : (f (ctl.getD t {})).fin ≠ 0 → opOfCtl p (f (ctl.getD t {})) = none) :
    RX4 p (ctl.modify t f) ths := by
  have := h.modify ht f id hbody hpc hrel hepi
  rwa [modify_id' _ _ id (fun _ => rfl)] at this

/-- `spawn b`: a new twin thread running body `b`, which no thread ran before -/
theorem RX4.append {p : Prog} {ctl : List TCtl} {ths : List DTh4} (h : RX4 p ctl ths) {b : Nat}
    (hb : b < p.threads.length)
    (hidle : ∀ i, i < ctl.length → (ctl.getD i {}).body ≠ b)
    (hpast : ∃ j k, j < ctl.length ∧ k < (ctl.getD j {}).pc ∧
      (p.threads.getD (ctl.getD j {}).body [])[k]? = some (.spawn b))
    (hok : stageOk (opOfCtl p { body := b }) 0 = true) :
    RX4 p (ctl ++ [({ body := b } : TCtl)]) (ths.modify b fun h => { h with started := true }) := by
  have hlen : (ctl ++ [({ body := b } : TCtl)]).length = ctl.length + 1 := by simp
  have old : ∀ i, i < ctl.length → (ctl ++ [({ body := b } : TCtl)]).getD i {} = ctl.getD i {} :=
    fun i hi => getD_append_left _ _ _ _ hi
  have new : (ctl ++ [({ body := b } : TCtl)]).getD ctl.length {} = { body := b } := getD_append_new _ _ _
  have hbl : b < ths.length := by rw [h.len]; exact hb
  refine ⟨by simpa using h.len, ⟨by omega, by rw [old 0 h.main.1]; exact h.main.2⟩, ?_, ?_, ?_, ?_, ?_⟩
  · intro i hi
    rw [hlen] at hi
    by_cases hin : i < ctl.length
    · rw [old i hin]
      refine ⟨(h.thr i hin).1, ?_⟩
      rw [getD_modify_ne _ _ _ _ _ (hidle i hin)]
      exact (h.thr i hin).2
    · have : i = ctl.length := by omega
      subst this
      rw [new]
      refine ⟨hb, ?_⟩
      rw [getD_modify_self _ _ _ _ hbl, h.idle b hb hidle]
      refine ⟨rfl, rfl, rfl, rfl, rfl, rfl, hok, ?_, ?_⟩
      · intro x _ h1; cases h1
      · have : aheadOf (opOfCtl p { body := b }) ({ body := b } : TCtl).stage = none := by
          show aheadOf (opOfCtl p { body := b }) 0 = none
          cases opOfCtl p { body := b } with
          | none => rfl
          | some op => cases op <;> rfl
        rw [this]
        refine ⟨rfl, rfl, ?_⟩
        show (0 : Nat) = phaseOf (opOfCtl p { body := b }) 0
        cases opOfCtl p { body := b } with
        | none => rfl
        | some op => cases op <;> rfl
  · intro i hi
    rw [hlen] at hi
    by_cases hin : i < ctl.length
    · rw [old i hin]; exact h.epi i hin
    · have : i = ctl.length := by omega
      subst this
      rw [new]
      intro hne; exact absurd rfl hne
  · intro i j hi hj
    rw [hlen] at hi hj
    by_cases hin : i < ctl.length <;> by_cases hjn : j < ctl.length
    · rw [old i hin, old j hjn]; exact h.inj i j hin hjn
    · have : j = ctl.length := by omega
      subst this
      rw [old i hin, new]; intro e; exact absurd e (hidle i hin)
    · have : i = ctl.length := by omega
      subst this
      rw [old j hjn, new]; intro e; exact absurd e.symm (hidle j hjn)
    · omega
  · intro b' hb' hidle'
    have hne : b' ≠ b := by
      intro e
      have := hidle' ctl.length (by omega)
      rw [new] at this; exact this e.symm
    rw [getD_modify_ne _ _ _ _ _ hne]
    apply h.idle b' hb'
    intro i hi
    have := hidle' i (by omega)
    rwa [old i hi] at this
  · intro i hi0 hi
    rw [hlen] at hi
    by_cases hin : i < ctl.length
    · obtain ⟨j, k, hj, hk, hop⟩ := h.past i hi0 hin
      refine ⟨j, k, by omega, ?_, ?_⟩
      · rw [old j hj]; exact hk
      · rw [old j hj, old i hin]; exact hop
    · have : i = ctl.length := by omega
      subst this
      obtain ⟨j, k, hj, hk, hop⟩ := hpast
      refine ⟨j, k, by omega, ?_, ?_⟩
      · rw [old j hj]; exact hk
      · rw [old j hj, new]; exact hop

theorem RX4.spawn_fresh {p : Prog} {ctl : List TCtl} {ths : List DTh4} (h : RX4 p ctl ths) (hwf : WF4 p)
    {t b : Nat} (ht : t < ctl.length)
    (hop : opOfCtl p (ctl.getD t {}) = some (.spawn b)) :
    0 < b ∧ b < p.threads.length ∧ ∀ i, i < ctl.length → (ctl.getD i {}).body ≠ b := by
  have hok := hwf.opOk hop
  simp only [opOk4, Bool.and_eq_true, decide_eq_true_eq] at hok
  refine ⟨hok.1, hok.2, ?_⟩
  intro i hi e
  by_cases hi0 : i = 0
  · subst hi0
    rw [h.main.2] at e
    omega
  · obtain ⟨j, k, hj, hk, hop'⟩ := h.past i (by omega) hi
    rw [e] at hop'
    obtain ⟨e1, e2⟩ := hwf.spawn_unique hop hop'
    have := h.inj t j ht hj e1
    subst this
    omega

/-! ### the join handles -/

/-- `World.spawned`: body ↦ (twin thread, `JoinHandle` notify).  The notify is never spurious, and it is notified
only after the thread's epilogue has passed the notification -/
structure RSp (ctl : List TCtl) (spawned : List (Nat × Nat × Nat)) (objs : List OV4) : Prop where
  sp : ∀ b i n, (b, i, n) ∈ spawned → i < ctl.length ∧ (ctl.getD i {}).body = b ∧
    ∃ nt ds, objs[n]? = some (.notify false nt ds) ∧ (nt = true → 10 ≤ (ctl.getD i {}).fin)
  spn : ∀ e1 e2, e1 ∈ spawned → e2 ∈ spawned → e1.2.2 = e2.2.2 → e1.2.1 = e2.2.1

theorem RSp.ctl {ctl ctl' sp objs} (h : RSp ctl sp objs) (hc : CtlLe ctl ctl') : RSp ctl' sp objs := by
  refine ⟨?_, h.spn⟩
  intro b i n hmem
  obtain ⟨h1, h2, nt, ds, h3, h4⟩ := h.sp b i n hmem
  exact ⟨Nat.lt_of_lt_of_le h1 hc.1, by rw [(hc.2 i h1).1]; exact h2, nt, ds, h3,
    fun e => (hc.2 i h1).2 (h4 e)⟩

/-- the objects the join handles name look as before -/
theorem RSp.objs {ctl sp} {objs objs' : List OV4} (h : RSp ctl sp objs)
    (hv : ∀ (n : Nat) (nt ds : Bool), objs[n]? = some (OV4.notify false nt ds) → objs'[n]? = some (OV4.notify false nt ds)) :
    RSp ctl sp objs' := by
  refine ⟨?_, h.spn⟩
  intro b i n hmem
  obtain ⟨h1, h2, nt, ds, h3, h4⟩ := h.sp b i n hmem
  exact ⟨h1, h2, nt, ds, hv _ _ _ h3, h4⟩

/-! ### the futures part of the relation -/

/-- the object index of the first of the two mutexes of future 0 -/
def mbase (p : Prog) : Nat :=
  p.cfg.nAtomics + p.cfg.nCells + p.cfg.nMutexes + p.cfg.nRwlocks + p.cfg.nCondvars + p.cfg.nNotifies + p.cfg.nChans

/-- some operation of the program text uses future `f` in way `k` -/
def isKind (p : Prog) (f k : Nat) : Prop :=
  ∃ (a i : Nat) (op : Op), (p.threads.getD a [])[i]? = some op ∧ futKind op = some (f, k)

/-! #### views of the objects and of the control table, as functions -/

/-- the `Notify` view of object `n`: `(spurious, notified, didSpur)` -/
def nvOf (objs : List OV4) (n : Nat) : Option (Bool × Bool × Bool) :=
  match objs[n]? with
  | some (.notify a b c) => some (a, b, c)
  | _ => none

/-- the mutex view of object `n`: the owner -/
def mvOf (objs : List OV4) (n : Nat) : Option (Option Nat) :=
  match objs[n]? with
  | some (.mutex l) => some l
  | _ => none

/-- the atomic view of object `n`: the most recent value, whether the store ring has its full length, the number
of stores -/
def avOf (objs : List OV4) (n : Nat) : Option (Nat × Bool × Nat) :=
  match objs[n]? with
  | some (.atomic v b c) => some (v, b, c)
  | _ => none

/-- the number of threads (among the first `n`) whose flag store to atomic `x` is in flight -/
def nInfl (ia : Nat → Option Nat) (x : Nat) : Nat → Nat
  | 0 => 0
  | k + 1 => nInfl ia x k + (if ia k = some x then 1 else 0)

def iaOf (p : Prog) (ctl : List TCtl) (i : Nat) : Option Nat := inflS p (ctl.getD i {})
def paOf (p : Prog) (ctl : List TCtl) (i : Nat) : Option Nat := pendN p (ctl.getD i {})
def caOf (p : Prog) (ctl : List TCtl) (i : Nat) : Option (Nat × Nat × Bool) := callOf p (ctl.getD i {})
def waOf (p : Prog) (ctl : List TCtl) (i : Nat) : Option Nat := aw25 p (ctl.getD i {})

/-- the static part: registration, and which call it belongs to -/
structure GS (p : Prog) (futs : List FutSt) (nv : Nat → Option (Bool × Bool × Bool)) (df : List DFut) : Prop where
  lenF : futs.length = p.cfg.nFutures
  lenDF : df.length = p.cfg.nFutures
  /-- the two mutexes of a future -/
  mtx : ∀ f, f < p.cfg.nFutures →
    (futs.getD f {}).slotMutex = mbase p + 2 * f ∧ (futs.getD f {}).awMutex = mbase p + 2 * f + 1
  /-- a waker clone is registered ⟺ `slot` -/
  slot : ∀ f, f < p.cfg.nFutures → (df.getD f {}).slot = ((futs.getD f {}).slot || (futs.getD f {}).awWaker)
  kindS : ∀ f, f < p.cfg.nFutures → (futs.getD f {}).slot = true → isKind p f 0
  kindA : ∀ f, f < p.cfg.nFutures → (futs.getD f {}).awWaker = true → isKind p f 1
  /-- the registered clone belongs to the current call ⟺ `slotGen = gen` -/
  genLe : ∀ f, f < p.cfg.nFutures → (df.getD f {}).slotGen ≤ (df.getD f {}).gen
  genS : ∀ f, f < p.cfg.nFutures → (futs.getD f {}).slot = true → (df.getD f {}).slotGen = (df.getD f {}).gen
  genA : ∀ f, f < p.cfg.nFutures → (futs.getD f {}).awWaker = true →
    ((df.getD f {}).slotGen = (df.getD f {}).gen ↔ (futs.getD f {}).awNotify = (futs.getD f {}).notify) ∧
    ∃ nt ds, nv (futs.getD f {}).awNotify = some (true, nt, ds)

/-- the calls in progress -/
structure GC (p : Prog) (n : Nat) (pa : Nat → Option Nat) (ca : Nat → Option (Nat × Nat × Bool))
    (futs : List FutSt) (nv : Nat → Option (Bool × Bool × Bool)) (df : List DFut) : Prop where
  /-- a call in progress: its `Notify` (flag ⟺ `notified`, up to the notifications in flight; spurious budget
  ⟺ `spurUsed`) -/
  call : ∀ i f m b, i < n → ca i = some (f, m, b) → f < p.cfg.nFutures ∧
    ∃ nt ds, nv (futs.getD f {}).notify = some (true, nt, ds) ∧ (df.getD f {}).spurUsed = ds ∧
      ((df.getD f {}).notified = true ↔ (nt = true ∨ ∃ j, j < n ∧ pa j = some (futs.getD f {}).notify)) ∧
      (m = 5 → (df.getD f {}).polled = b)
  /-- a waker in the plain slot belongs to a call in progress -/
  slotCall : ∀ f, f < p.cfg.nFutures → (futs.getD f {}).slot = true → ∃ i m b, i < n ∧ ca i = some (f, m, b)
  /-- calls in progress have distinct `Notify` objects -/
  callInj : ∀ i j f g m m' b b', i < n → j < n → ca i = some (f, m, b) → ca j = some (g, m', b') →
    (futs.getD f {}).notify = (futs.getD g {}).notify → f = g
  /-- a waker registered in an `AtomicWaker` does not belong to a call on ANOTHER future -/
  awOther : ∀ g i f m b, g < p.cfg.nFutures → (futs.getD g {}).awWaker = true → i < n →
    ca i = some (f, m, b) → (futs.getD f {}).notify = (futs.getD g {}).awNotify → f = g
  /-- a notification in flight goes to the `Notify` of a call -/
  pendOk : ∀ j k, j < n → pa j = some k → ∃ nt ds, nv k = some (true, nt, ds)

/-- the flag atomics.  Every store to one of them stores 1; the reference performs the store of a `wake` at the
stage that takes the waker: `atoms[x] = 1` ⟺ more stores have been performed than are still in flight -/
structure GA (p : Prog) (n : Nat) (ia : Nat → Option Nat) (av : Nat → Option (Nat × Bool × Nat)) (atoms : List Int) :
    Prop where
  lenA : atoms.length = p.cfg.nAtomics
  atom : ∀ x, x < p.cfg.nAtomics → ∃ v c, av x = some (v, true, c) ∧ 1 ≤ c ∧
    (atoms.getD x 0 = 0 ∨ atoms.getD x 0 = 1) ∧ nInfl ia x n ≤ c - 1 ∧
    (atoms.getD x 0 = 1 ↔ nInfl ia x n < c - 1) ∧
    p.cfg.ty.fromU64 v = (if 1 < c then 1 else 0)

/-- the `AtomicWaker`'s mutex is free, except while the registering call drops the waker it has replaced -/
structure GW (p : Prog) (n : Nat) (wa : Nat → Option Nat) (futs : List FutSt) (mv : Nat → Option (Option Nat)) :
    Prop where
  awFree : ∀ f, f < p.cfg.nFutures → ∃ l, mv (mbase p + 2 * f + 1) = some l ∧
    ∀ t, l = some t → t < n ∧ wa t = some f

/-- the futures part of the relation -/
structure RF (p : Prog) (ctl : List TCtl) (futs : List FutSt) (objs : List OV4) (d : SCData4) : Prop where
  s : GS p futs (nvOf objs) d.futs
  c : GC p ctl.length (paOf p ctl) (caOf p ctl) futs (nvOf objs) d.futs
  a : GA p ctl.length (iaOf p ctl) (avOf objs) d.atoms
  w : GW p ctl.length (waOf p ctl) futs (mvOf objs)

/-- **the abstraction relation** between a world of the twin and the data of a reference state -/
structure RV (v : View) (d : SCData4) : Prop where
  /-- one control record per loom thread -/
  lenCtl : v.ctl.length = v.nth
  verdict : d.verdict = none
  x : RX4 v.prog v.ctl d.ths
  sp : RSp v.ctl v.spawned v.objs
  f : RF v.prog v.ctl v.futs v.objs d

/-- **the abstraction relation** between a world of the twin and a state of the reference semantics -/
def R4 (w : World) (s : SC.St) : Prop := RV (view4 w) (data4 s)

end Refine4
end LoomVerif

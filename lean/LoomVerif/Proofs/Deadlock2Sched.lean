/-
Deadlock soundness, WAIT fragment, part 2: `Exec.schedule` seen from the thread entries, with `yield` states
(the spurious return of `nWait` yields): a successful `schedule` keeps every entry but for `dporVV` and for the
yielded threads it makes runnable again; it panics with "deadlock" only when no thread is runnable OR YIELDED.
The five scheduling points of the fragment (`branch`, `yieldNow`, `parkNow`, `blockNow`, `threadDone`) as
instances of `Deadlock.schedOn`.
-/
import LoomVerif.Proofs.Deadlock2Defs

namespace LoomVerif
namespace Deadlock2
open Refine Refine2 Sy Deadlock

/-! ### the entries across `schedule` -/

/-- what `schedule` may do to an entry: nothing the invariant reads, except that a yielded thread may become
runnable -/
structure SchedKeep (t t' : Thread) : Prop where
  op : t'.operation = t.operation
  tok : t'.token = t.token
  st : t.state ≠ .yield → t'.state = t.state ∧ t'.parked = t.parked
  yl : t.state = .yield → t'.state = .yield ∨ t'.state = .runnable

theorem SchedKeep.refl (t : Thread) : SchedKeep t t := ⟨rfl, rfl, fun _ => ⟨rfl, rfl⟩, fun h => .inl h⟩

theorem schedKeep_dpor (t : Thread) (d : VV) : SchedKeep t { t with dporVV := d } :=
  ⟨rfl, rfl, fun _ => ⟨rfl, rfl⟩, fun h => .inl h⟩

theorem schedKeep_react (t : Thread) (c : Bool) : SchedKeep t (if t.isYield && c then t.setRunnable else t) := by
  by_cases h : (t.isYield && c) = true
  · rw [if_pos h]
    simp only [Bool.and_eq_true, Thread.isYield, beq_iff_eq] at h
    exact ⟨rfl, rfl, fun hn => absurd h.1 hn, fun _ => .inr rfl⟩
  · rw [if_neg h]; exact SchedKeep.refl t

theorem SchedKeep.trans_dpor {t t' : Thread} (d : VV) (c : Bool)
    (h : t' = (if ({ t with dporVV := d } : Thread).isYield && c then
      ({ t with dporVV := d } : Thread).setRunnable else { t with dporVV := d })) : SchedKeep t t' := by
  have h1 := schedKeep_react ({ t with dporVV := d } : Thread) c
  rw [← h] at h1
  exact ⟨h1.op, h1.tok, fun hn => h1.st hn, fun hy => h1.yl hy⟩

theorem reactivate_getD (l : List Thread) (nid i : Nat) :
    (Exec.reactivate l nid).getD i {} =
      if (l.getD i {}).isYield && i != nid then (l.getD i {}).setRunnable else l.getD i {} := by
  unfold Exec.reactivate
  by_cases hi : i < l.length
  · simp only [List.getD, List.getElem?_mapIdx, List.getElem?_eq_getElem hi, Option.map_some,
      Option.getD_some]
  · have hn : l[i]? = none := List.getElem?_eq_none (Nat.le_of_not_lt hi)
    simp only [List.getD, List.getElem?_mapIdx, hn, Option.map_none, Option.getD_none]
    have : (({} : Thread).isYield) = false := rfl
    simp [this]

/-- **a successful `schedule` keeps every entry**, except that yielded threads may become runnable -/
theorem schedule_keep {e e' : Exec} {pk b : Bool} (h : e.schedule pk = .ok (e', b)) (i : Nat) :
    SchedKeep (e.threads.get i) (e'.threads.get i) := by
  obtain ⟨_, p1, next, _, _, _, hm⟩ := Exec.schedule_ok h
  cases next with
  | none =>
    obtain ⟨_, _, he⟩ := hm
    rw [he]; exact SchedKeep.refl _
  | some nid =>
    obtain ⟨ths, objs, hf, he, _⟩ := Exec.finish_ok hm
    obtain ⟨_, _, _, hcase⟩ := Exec.finishOp_ok hf
    rw [he]
    show SchedKeep (e.threads.threads.getD i {}) ((Exec.reactivate ths.threads nid).getD i {})
    rw [reactivate_getD]
    rcases hcase with ⟨ht, _, _⟩ | ⟨op, d, _, ht, _⟩
    · rw [ht]; exact schedKeep_react _ _
    · rw [ht]
      by_cases hi : i = nid
      · subst hi
        by_cases hl : i < e.threads.threads.length
        · rw [getD_modify_self _ _ _ _ hl]
          exact SchedKeep.trans_dpor d _ rfl
        · have : (e.threads.threads.modify i fun t => { t with dporVV := d }).getD i {} =
              e.threads.threads.getD i {} := by
            simp [List.getD, List.getElem?_eq_none (Nat.le_of_not_lt hl)]
          rw [this]; exact schedKeep_react _ _
      · rw [getD_modify_ne _ _ _ _ _ hi]; exact schedKeep_react _ _

/-! ### the scheduling points -/

theorem yieldNow_schedOn (w : World) :
    w.yieldNow =
      (schedOn w fun th => { th.setYield w.tid with operation := none }) >>= fun x =>
        pure { w with exec := x.1 } := rfl

theorem blockNow_schedOn (w : World) :
    w.blockNow =
      (schedOn w fun th => { th.setBlocked with operation := none }) >>= fun x =>
        pure { w with exec := x.1 } := rfl

theorem parkNow_schedOn (w : World) (h : w.ths.activeT.token = false) :
    w.parkNow =
      (schedOn w fun th => { th.setParked with operation := none }) >>= fun x =>
        pure { w with exec := x.1 } := by
  unfold World.parkNow
  rw [h]; rfl

/-- a successful scheduling point: every entry — the active thread's rewritten by `f` — is kept -/
theorem schedOn_keep {w : World} {f : Thread → Thread} {e : Exec} {b : Bool} (h : schedOn w f = .ok (e, b))
    (hin : w.tid < w.exec.threads.threads.length) (i : Nat) :
    SchedKeep (entryOn w f i) (e.threads.get i) := by
  have := schedule_keep h i
  rw [show ({ w.exec with threads := w.ths.modifyActive f } : Exec).threads.get i =
    (w.ths.modifyActive f).get i from rfl, get_modifyActive w f i hin] at this
  exact this

/-- **a scheduling point of the twin panics with "deadlock" only when, the active thread's entry rewritten, no
thread is runnable or yielded and some thread is not terminated** -/
theorem schedOn_deadlock2 {w : World} {f : Thread → Thread} (h : schedOn w f = .error .deadlock)
    (hp : ReplayOK w.exec.path) (hin : w.tid < w.exec.threads.threads.length) :
    (∀ i, i < w.exec.threads.threads.length →
      (entryOn w f i).state ≠ .runnable ∧ (entryOn w f i).state ≠ .yield) ∧
    ∃ i, i < w.exec.threads.threads.length ∧ (entryOn w f i).state ≠ .terminated := by
  have hlen : (w.ths.modifyActive f).threads.length = w.exec.threads.threads.length := by
    simp [Threads.modifyActive, Threads.modify, World.ths]
  obtain ⟨h1, _⟩ := schedule_deadlock h hp (by
    show (w.ths.modifyActive f).activeId < (w.ths.modifyActive f).threads.length
    rw [hlen]; exact hin)
  have hget : ∀ i, i < w.exec.threads.threads.length →
      (w.ths.modifyActive f).threads[i]? = some (entryOn w f i) := by
    intro i hi
    rw [← get_modifyActive w f i hin]
    unfold Threads.get
    rw [List.getD_eq_getElem?_getD, List.getElem?_eq_getElem (by rw [hlen]; exact hi)]
    rfl
  refine ⟨fun i hi => ?_, (schedOn_deadlock h hp hin).2⟩
  have := h1 _ (List.mem_of_getElem? (hget i hi))
  constructor
  · intro hr; simp [Thread.isRunnable, hr] at this
  · intro hy; simp [Thread.isYield, hy] at this

end Deadlock2
end LoomVerif

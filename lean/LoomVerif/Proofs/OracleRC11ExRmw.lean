/-
Kernel-evaluated example for the RC11 enumerator: the program on which the pruning of the
modification orders turned out NOT to be lossless for the former definition of `Graph.atomicity`
(an RMW could read from an `mo`-later write).  (Imports the other examples only so that the kernel
evaluations, which need a lot of memory, are built one after the other.)
-/
import LoomVerif.Proofs.OracleRC11ExMP

namespace LoomVerif.RC11

/-- `Graph.atomicity` as it was: only "no write between an RMW and its source" -/
def Graph.atomicityOld (g : Graph) : Bool :=
  (List.range g.n).all fun u => !g.isU u ||
    (List.range g.n).all fun w => !(g.fr.get u w && g.mo.get w u)

/-- `Graph.consistent` with the former atomicity axiom -/
def Graph.consistentOld (g : Graph) (strong : Bool) : Bool :=
  g.wellFormed && g.coherent && g.atomicityOld && g.scAxiom strong && g.noThinAir

namespace Example

/-- `cfg x=1 | T0: spawn 1; st 0 1 rlx | T1: fadd 0 1 rlx; ld 0 rlx` -/
def rmw : Prog :=
  { cfg := { nAtomics := 1 },
    threads := [[.spawn 1, .atom 0 (.store 1 .rlx)],
                [.atom 0 (.fetch (.add 1) .rlx), .atom 0 (.load .rlx)]] }

/-- the `fadd` reads the store (returns 1, writes 2), the later load of the same thread still
reads 1 -/
def rmwStale : Option (List (Nat × Nat × Ret)) :=
  some [(0, 0, .unit), (0, 1, .unit), (1, 0, .val 1), (1, 1, .val 1)]

/-- events: 0 initial write; 1 spawn, 2 the store, 3 end of T0; 4 start of T1, 5 the `fadd`,
6 the load, 7 end of T1.  The modification order that puts the RMW BEFORE the store it reads
from: -/
def rmwMo : List (List Nat) := [[0, 5, 2]]

/-- kernel-evaluated: with the present `atomicity`, `rmwStale` is not an outcome … -/
theorem rmw_kernel : (completeNaive rmw 10 (pinit rmw)).map
    (fun L => refHas (outcomeData rmw) rmw true L.eraseDups rmwStale) = some false := by
  decide +kernel

/-- … with the former one there is a reachable complete state with a "consistent" graph for
`rmwMo` that has this outcome, and `rmwMo` is one of `allMo` but not one of the pruned orders -/
theorem rmw_old_kernel : (completeNaive rmw 10 (pinit rmw)).map
    (fun L => L.eraseDups.any fun s =>
      decide (outcomeData rmw s ((candidate rmw s).graph rmwMo) = rmwStale) &&
      (allMo (candidate rmw s)).contains rmwMo &&
      !(prunedMos (candidate rmw s)).contains rmwMo &&
      ((candidate rmw s).graph rmwMo).consistentOld true) = some true := by
  decide +kernel

end Example
end LoomVerif.RC11

/-
Race exactness, part 7: the scheduling points and `lock`, `tryLock`, `unlock`, `ifEq` keep `RC`.
-/
import LoomVerif.Proofs.RaceOps

namespace LoomVerif
namespace Race
open Refine Sy C07 C08 Clocks

/-! ### worlds in the normal form of `postAcquire` / `releaseLock` / `notifyEffect` -/

/-- the object table becomes `O`, every thread entry `th` at index `i` becomes `F i th` -/
def W2 (w : World) (O : List Obj) (F : Nat → Thread → Thread) : World :=
  { w with exec := { w.exec with objs := O, threads := { w.exec.threads with
      threads := w.exec.threads.threads.mapIdx F } } }

theorem W2_get (w : World) (O : List Obj) (F : Nat → Thread → Thread) (i : Nat) :
    (W2 w O F).ths.get i = if i < nthr w then F i (w.ths.get i) else w.ths.get i := by
  by_cases h : i < nthr w
  · rw [if_pos h]; exact Sy.get_mapIdx _ _ _ h
  · rw [if_neg h]
    have h' : w.exec.threads.threads.length ≤ i := by unfold nthr at h; omega
    show ((w.exec.threads.threads.mapIdx F).getD i {}) = w.exec.threads.threads.getD i {}
    simp [List.getD, List.getElem?_eq_none h']

theorem W2_nthr (w : World) (O : List Obj) (F : Nat → Thread → Thread) : nthr (W2 w O F) = nthr w := by
  simp [nthr, W2]

theorem cellIdle_set_ne (os : List Obj) {o n : Nat} (x : Obj) (hne : n ≠ o) (h : cellIdle os n) :
    cellIdle (os.set o x) n := by
  obtain ⟨c0, hc0, h3, h4⟩ := h
  exact ⟨c0, by rw [getElem?_set_ne' _ _ _ _ hne]; exact hc0, h3, h4⟩

section
variable {w w' : World} {s : SC.St}

/-! ### quiet stages -/

/-- a stage of the active thread that changes no clock, no object (up to access tracking), and moves only the
stage / epilogue counter of its control record -/
theorem quiet_core (hRC : RC w s) (hact : w.tid < w.ctl.length) (hpend : pend w w.tid = none) (F : TCtl → TCtl)
    (hp : w'.prog = w.prog) (hs : w'.spawned = w.spawned) (hn : nthr w' = nthr w)
    (hobjs : ObjsTouched w.exec.objs w'.exec.objs) (hc : w'.ctl = w.ctl.modify w.tid F)
    (hFb : (F (w.ctlOf w.tid)).body = (w.ctlOf w.tid).body) (hFpc : (F (w.ctlOf w.tid)).pc = (w.ctlOf w.tid).pc)
    (hFfin : 10 ≤ (F (w.ctlOf w.tid)).fin ↔ 10 ≤ (w.ctlOf w.tid).fin)
    (hthr : ∀ i, tcaus w' i = tcaus w i ∧ trel w' i = trel w i)
    (htopo : ∀ i, i ≠ w.tid → topo w' i = topo w i)
    (hop : ∀ o, topo w' w.tid = some o → o < w.exec.objs.length ∧
      (topo w w.tid = some o ∨ ∀ b j n, (b, j, n) ∈ w.spawned → o = n → w.tid ≠ j → pend w' w.tid = some n)) :
    QuietOut w w' := by
  have hself : w'.ctlOf w.tid = F (w.ctlOf w.tid) := by
    unfold World.ctlOf; rw [hc]; exact getD_modify_self _ _ _ _ hact
  have hne : ∀ i, i ≠ w.tid → w'.ctlOf i = w.ctlOf i := by
    intro i hi; unfold World.ctlOf; rw [hc]; exact getD_modify_ne _ _ _ _ _ hi
  refine ⟨hp, by rw [hc]; simp, ?_, by rw [hself]; exact hFpc, by unfold fin; rw [hself]; exact hFfin, ?_⟩
  · intro i
    unfold body
    by_cases e : i = w.tid
    · subst e; rw [hself]; exact hFb
    · rw [hne i e]
  · have key : ∀ σT, LinkT w σT → TwinInv w' ∧ LinkT w' σT := by
      intro σT hLT
      refine quiet_transfer hRC.r hRC.inv hLT w.tid hp hs hn hobjs hne hthr htopo hpend ?_ ?_ hop
      · unfold fin; rw [hself]; exact hFfin.2
      · intro h; left; unfold fin at h ⊢; rw [hself] at h; exact hFfin.1 h
    obtain ⟨σT, _, hLT, _⟩ := hRC.clk
    exact ⟨(key σT hLT).1, fun σ hσ => (key σ hσ).2⟩

/-- a branch point of the active thread on object `o`; the control record is rewritten by `F` -/
theorem quiet_branch (hRC : RC w s) (hact : w.tid < w.ctl.length) (hpend : pend w w.tid = none) (F : TCtl → TCtl)
    {w0 w1 : World} {o : Nat} {a : Action} {blk wt : Bool}
    (h0 : w0.exec = w.exec) (hb : w0.branch o a blk wt = .ok w1)
    (h1 : w'.exec = w1.exec) (hp : w'.prog = w.prog) (hs : w'.spawned = w.spawned)
    (hc : w'.ctl = w.ctl.modify w.tid F)
    (hFb : (F (w.ctlOf w.tid)).body = (w.ctlOf w.tid).body) (hFpc : (F (w.ctlOf w.tid)).pc = (w.ctlOf w.tid).pc)
    (hFfin : 10 ≤ (F (w.ctlOf w.tid)).fin ↔ 10 ≤ (w.ctlOf w.tid).fin)
    (ho : o < w.exec.objs.length)
    (hoJ : ∀ b j n, (b, j, n) ∈ w.spawned → o = n → w.tid ≠ j → pend w' w.tid = some n) :
    QuietOut w w' := by
  have ht0 : w0.tid = w.tid := by unfold World.tid World.ths; rw [h0]
  have hin : w0.tid < nthr w0 := by
    rw [ht0]; unfold nthr; rw [h0]; exact nthr_tid hRC hact
  have hk := branch_ckey hb hin
  have e0 : ∀ i, tcaus w0 i = tcaus w i ∧ trel w0 i = trel w i ∧ topo w0 i = topo w i := by
    intro i; unfold tcaus trel topo World.ths; rw [h0]; exact ⟨rfl, rfl, rfl⟩
  have e1 : ∀ i, tcaus w' i = tcaus w1 i ∧ trel w' i = trel w1 i ∧ topo w' i = topo w1 i := by
    intro i; unfold tcaus trel topo World.ths; rw [h1]; exact ⟨rfl, rfl, rfl⟩
  refine quiet_core hRC hact hpend F hp hs ?_ ?_ hc hFb hFpc hFfin ?_ ?_ ?_
  · have := (branch_quiet hb).1.len
    unfold nthr; rw [h1, this, h0]
  · have := branch_objs hb
    rw [h0] at this; rw [h1]; exact this
  · intro i
    rw [(e1 i).1, (e1 i).2.1, (hk i).1, (hk i).2.1, (e0 i).1, (e0 i).2.1]
    exact ⟨rfl, rfl⟩
  · intro i hi
    rw [(e1 i).2.2, (hk i).2.2, ht0, if_neg hi, (e0 i).2.2]
  · intro o' ho'
    rw [(e1 _).2.2, (hk _).2.2, ht0, if_pos rfl] at ho'
    cases ho'
    exact ⟨ho, .inr hoJ⟩

/-! ### completing an operation -/

/-- what `complete` does to the control table, for `RealOut` -/
theorem complete_real (w w1 : World) (r : Ret) (ht : w1.tid = w.tid) (hc : w1.ctl = w.ctl)
    (hact : w.tid < w.ctl.length) :
    w.tid < (w1.complete r).ctl.length ∧ body (w1.complete r) w.tid = body w w.tid ∧
    ((w1.complete r).ctlOf w.tid).pc ≠ (w.ctlOf w.tid).pc ∧
    (w1.complete r).ctl.length = w.ctl.length ∧ ∀ i, body (w1.complete r) i = body w i := by
  have key := fun i => complete_ctlOf w w1 r i ht hc hact
  refine ⟨by rw [ctl_len_complete, hc]; exact hact, ?_, ?_, by rw [ctl_len_complete, hc], ?_⟩
  · unfold body; rw [key, if_pos rfl]; rfl
  · rw [key, if_pos rfl]; show (w.ctlOf w.tid).pc + 1 ≠ _; omega
  · intro i
    unfold body; rw [key]
    split
    · next e => rw [e]; rfl
    · rfl

/-- the thread entries of a world in normal form, after `complete` -/
theorem W2c_get (w : World) (O : List Obj) (F : Nat → Thread → Thread) (r : Ret) (i : Nat) :
    ((W2 w O F).complete r).ths.get i = if i < nthr w then F i (w.ths.get i) else w.ths.get i :=
  W2_get w O F i

/-! ### `lock`, `tryLock` -/

/-- the thread entries after a successful `post_acquire` of a mutex with clock `hb` -/
def acqF (w : World) (o : Nat) (hb : VV) : Nat → Thread → Thread := fun i th =>
  if i = w.tid then { th with causality := th.causality.join hb }
  else if th.operation.any (fun op => op.obj == o && op.blocking) then th.setBlocked else th

/-- a successful acquisition of mutex `mi`, on both sides -/
theorem acq_parts (hRC : RC w s) (hact : w.tid < w.ctl.length) {op : Op} (hop : opAt w = some op)
    (hnj : ∀ b, op ≠ .join b) {mi : Nat} (hmi : mi < w.prog.cfg.nMutexes) {ms : MutexSt}
    (hobj : w.exec.objs[w.mutexObj mi]? = some (.mutex ms)) (r r' : Ret) (mx : List (Option Nat)) :
    TwinInv ((W2 w (w.exec.objs.set (w.mutexObj mi) (.mutex { ms with lock := some w.tid }))
      (acqF w (w.mutexObj mi) ms.sync.hb)).complete r) ∧
    ∃ σT' σR', LinkT ((W2 w (w.exec.objs.set (w.mutexObj mi) (.mutex { ms with lock := some w.tid }))
        (acqF w (w.mutexObj mi) ms.sync.hb)).complete r) σT' ∧
      LinkR w.prog ((({ s.tick (body w w.tid) with mutex := mx } : SC.St).acquire (body w w.tid)
        (s.mutexRel.getD mi VV.zero)).ret (body w w.tid) r') σR' ∧
      Good σT' ∧ Good σR' ∧ XInv w.ctl.length (body w) σT' σR' := by
  obtain ⟨σT, σR, hLT, hLR, hGT, hGR, hX⟩ := hRC.clk
  have ht := nthr_tid hRC hact
  have hpn := pend_none_of_op hRC hact hop hnj
  have hf0 : fin w w.tid = 0 := fin_zero hRC.r hact hop
  have hbt := body_lt_ths hRC.r hact
  have hmh : σT.mtx mi = ms.sync.hb := by rw [hLT.mtx mi hmi, objHb_of hobj]; rfl
  have hget := W2c_get w (w.exec.objs.set (w.mutexObj mi) (.mutex { ms with lock := some w.tid }))
    (acqF w (w.mutexObj mi) ms.sync.hb) r
  have hT : TwinInv ((W2 w (w.exec.objs.set (w.mutexObj mi) (.mutex { ms with lock := some w.tid }))
      (acqF w (w.mutexObj mi) ms.sync.hb)).complete r) ∧
      LinkT ((W2 w (w.exec.objs.set (w.mutexObj mi) (.mutex { ms with lock := some w.tid }))
        (acqF w (w.mutexObj mi) ms.sync.hb)).complete r) (σT.acq w.tid (σT.mtx mi)) := by
    refine active_transfer hRC.r hRC.inv hLT w.tid rfl rfl (W2_nthr _ _ _) ?_ ?_ hf0 ?_ ?_ ?_ ?_ ?_ ?_ ?_ ?_ ?_ ?_
      ?_ ?_
    · intro i hi
      rw [complete_ctlOf w _ r i (by rfl) (by rfl) hact, if_neg hi]
    · rw [complete_ctlOf w _ r w.tid (by rfl) (by rfl) hact, if_pos rfl]; rfl
    · unfold fin
      rw [complete_ctlOf w _ r w.tid (by rfl) (by rfl) hact, if_pos rfl]; exact hf0
    · intro i hi
      unfold tcaus; rw [hget]
      split
      · unfold acqF; rw [if_neg hi]; split <;> rfl
      · rfl
    · intro i
      unfold trel; rw [hget]
      split
      · unfold acqF; split
        · rfl
        · split <;> rfl
      · rfl
    · intro i
      unfold topo; rw [hget]
      split
      · unfold acqF; split
        · rfl
        · split <;> rfl
      · rfl
    · show (w.exec.objs.set _ _).length = _
      simp
    · intro b j n _
      exact objHb_set_same _ hobj (x' := .mutex { ms with lock := some w.tid }) rfl n
    · intro i hi
      show upd σT.thr w.tid _ i = _
      rw [upd_ne _ _ hi]
    · show upd σT.thr w.tid _ w.tid = _
      rw [upd_self, eq_caus hRC hact hLT hpn, hmh]
      unfold tcaus; rw [hget, if_pos ht]
      unfold acqF; rw [if_pos rfl]
    · intro m hm
      show σT.mtx m = objHb (w.exec.objs.set _ _) _
      rw [objHb_set_same _ hobj (x' := .mutex { ms with lock := some w.tid }) rfl, hLT.mtx m hm]
    · intro k c hc
      show σT.acc k c = objAcc (w.exec.objs.set _ _) k _
      rw [objAcc_set_ne _ _ _ (Ne.symm (cell_ne_mtx w hc)), hLT.acc k c hc]
    · intro c hc
      exact cellIdle_set_ne _ _ (Ne.symm (cell_ne_mtx w hc)) (hRC.inv.cb c hc)
    · intro n hn
      rw [hpn] at hn; cases hn
  have hX1 := hX.tickR hGT hGR (inj_body hRC.r) w.tid hact
  refine ⟨hT.1, σT.acq w.tid (σT.mtx mi), (σR.tick (body w w.tid)).acq (body w w.tid)
    ((σR.tick (body w w.tid)).mtx mi), hT.2, ?_, hGT.acqM _ _, (hGR.tick _).acqM _ _,
    hX1.acqM (inj_body hRC.r) w.tid hact mi⟩
  have e : (σR.tick (body w w.tid)).mtx mi = s.mutexRel.getD mi VV.zero := hLR.mtx mi
  rw [e]
  refine LinkR.ret ?_ _ _
  exact LinkR.acquire (s := { s.tick (body w w.tid) with mutex := mx })
    ((hLR.tick hbt).same _ (fun _ => rfl) rfl rfl rfl rfl rfl)
    (by show body w w.tid < (s.tick (body w w.tid)).ths.length
        simpa [SC.St.tick, SC.St.modTh] using hbt) _

theorem clk_lock (hRC : RC w s) (hact : w.tid < w.ctl.length) {mi : Nat}
    (hop : opAt w = some (.lock mi)) (hmi : mi < w.prog.cfg.nMutexes)
    (h : w.runOp (w.ctlOf w.tid) (.lock mi) = .ok w') : QuietOut w w' ∨ RealOut w s w' := by
  obtain ⟨ms, hobj⟩ := mtx_obj hRC.r hmi
  have hpn := pend_none_of_op hRC hact hop (by intro b; simp)
  rw [runOp_lock] at h
  split at h
  · left
    simp only [getMutex_of hobj, bind, Except.bind] at h
    obtain ⟨hq, hc⟩ := branch_quiet h
    refine quiet_branch hRC hact hpn (fun c => { c with stage := 1 }) (w0 := w.setStage 1) rfl h rfl
      hq.prog hq.spawned hc rfl rfl Iff.rfl (mtx_lt hRC.r hmi) ?_
    intro b j n hm e
    exact absurd e.symm (sp_ne_mtx hRC.r hm hmi)
  · right
    obtain ⟨⟨w1, okk⟩, hpa, h⟩ := bind_ok h
    cases hl : ms.lock with
    | some i =>
      rw [postAcquire_held hobj (by rw [hl]; rfl)] at hpa
      cases hpa
      simp [bind, Except.bind, throw, throwThe, MonadExceptOf.throw] at h
    | none =>
      rw [postAcquire_free hobj hl] at hpa
      obtain ⟨rfl, rfl⟩ : w1 = W2 w (w.exec.objs.set (w.mutexObj mi) (.mutex { ms with lock := some w.tid }))
          (acqF w (w.mutexObj mi) ms.sync.hb) ∧ okk = true := by
        cases hpa; exact ⟨rfl, rfl⟩
      simp only [Bool.not_true, Bool.false_eq_true, if_false, bind, Except.bind, pure, Except.pure] at h
      cases h
      have hcv : (s.th (body w w.tid)).cvNotified = none := (hRC.fs.2 _).2.1
      have ho : SC.opOf w.prog s (body w w.tid) = some (.lock mi) := (opOf_eq hRC.r hact).trans hop
      obtain ⟨c1, c2, c3, c4, c5⟩ := complete_real w
        (W2 w (w.exec.objs.set (w.mutexObj mi) (.mutex { ms with lock := some w.tid }))
          (acqF w (w.mutexObj mi) ms.sync.hb)) .unit rfl rfl hact
      obtain ⟨hI, σT', σR', h1, h2, h3, h4, h5⟩ := acq_parts hRC hact hop (by intro b; simp) hmi hobj .unit .unit
        (s.mutex.set mi (some (body w w.tid)))
      exact ⟨rfl, c1, c2, .inl c3, _, step_lock hcv ho, hRC.fs.1, hI, σT', σR', h1, h2, h3, h4,
        by rw [c4]; exact h5.congr (fun i _ => c5 i)⟩

/-- an operation that completes without touching any clock of the twin (a failed `tryLock`) -/
theorem noop_parts (hRC : RC w s) (hact : w.tid < w.ctl.length) {op : Op} (hop : opAt w = some op)
    (hnj : ∀ b, op ≠ .join b) (r : Ret) {σT : CS} (hLT : LinkT w σT) :
    TwinInv (w.complete r) ∧ LinkT (w.complete r) σT := by
  have hpn := pend_none_of_op hRC hact hop hnj
  have hf0 : fin w w.tid = 0 := fin_zero hRC.r hact hop
  refine active_transfer hRC.r hRC.inv hLT w.tid rfl rfl rfl ?_ ?_ hf0 ?_ (fun _ _ => rfl) (fun _ => rfl)
    (fun _ => rfl) rfl (fun _ _ _ _ => rfl) (fun _ _ => rfl) ?_ hLT.mtx hLT.acc hRC.inv.cb ?_
  · intro i hi
    rw [complete_ctlOf w _ r i (by rfl) (by rfl) hact, if_neg hi]
  · rw [complete_ctlOf w _ r w.tid (by rfl) (by rfl) hact, if_pos rfl]; rfl
  · unfold fin
    rw [complete_ctlOf w _ r w.tid (by rfl) (by rfl) hact, if_pos rfl]; exact hf0
  · exact eq_caus hRC hact hLT hpn
  · intro n hn
    rw [hpn] at hn; cases hn

theorem tick_len (s : SC.St) (t : Nat) : (s.tick t).ths.length = s.ths.length := by
  simp [SC.St.tick, SC.St.modTh]

theorem clk_tryLock (hRC : RC w s) (hact : w.tid < w.ctl.length) {mi : Nat}
    (hop : opAt w = some (.tryLock mi)) (hmi : mi < w.prog.cfg.nMutexes)
    (h : w.runOp (w.ctlOf w.tid) (.tryLock mi) = .ok w') : QuietOut w w' ∨ RealOut w s w' := by
  obtain ⟨l, hv, hmap, _⟩ := hRC.r.y.mtx mi hmi
  obtain ⟨ms, hobj0, hlock⟩ := objView_mutex hv
  have hobj : w.exec.objs[w.mutexObj mi]? = some (.mutex ms) := hobj0
  have hpn := pend_none_of_op hRC hact hop (by intro b; simp)
  have hcv : (s.th (body w w.tid)).cvNotified = none := (hRC.fs.2 _).2.1
  have ho : SC.opOf w.prog s (body w w.tid) = some (.tryLock mi) := (opOf_eq hRC.r hact).trans hop
  have hbt := body_lt_ths hRC.r hact
  have hmx : s.mutex.getD mi none = l.map fun i => (w.ctl.getD i {}).body := hmap.symm
  rw [runOp_tryLock] at h
  split at h
  · left
    obtain ⟨hq, hc⟩ := branch_quiet h
    refine quiet_branch hRC hact hpn (fun c => { c with stage := 1 }) (w0 := w.setStage 1) rfl h rfl
      hq.prog hq.spawned hc rfl rfl Iff.rfl (mtx_lt hRC.r hmi) ?_
    intro b j n hm e
    exact absurd e.symm (sp_ne_mtx hRC.r hm hmi)
  · right
    obtain ⟨⟨w1, okk⟩, hpa, h⟩ := bind_ok h
    simp only [pure, Except.pure] at h
    cases hl : ms.lock with
    | some i =>
      rw [postAcquire_held hobj (by rw [hl]; rfl)] at hpa
      obtain ⟨e1, e2⟩ : w = w1 ∧ false = okk := by cases hpa; exact ⟨rfl, rfl⟩
      subst e1; subst e2
      cases h
      obtain ⟨σT, σR, hLT, hLR, hGT, hGR, hX⟩ := hRC.clk
      obtain ⟨c1, c2, c3, c4, c5⟩ := complete_real w w (World.boolRet false) rfl rfl hact
      obtain ⟨hI, hL'⟩ := noop_parts hRC hact hop (by intro b; simp) (World.boolRet false) hLT
      have hst := step_tryLock hcv ho
      have hfree : (s.mutex.getD mi none).isNone = false := by
        rw [hmx, ← hlock, hl]; rfl
      rw [hfree] at hst
      simp only [Bool.false_eq_true, if_false] at hst
      refine ⟨rfl, c1, c2, .inl c3, _, hst, hRC.fs.1, hI, σT, σR.tick (body w w.tid), hL',
        (hLR.tick hbt).ret _ _, hGT, hGR.tick _, ?_⟩
      rw [c4]
      exact (hX.tickR hGT hGR (inj_body hRC.r) w.tid hact).congr (fun i _ => c5 i)
    | none =>
      rw [postAcquire_free hobj hl] at hpa
      obtain ⟨rfl, rfl⟩ : w1 = W2 w (w.exec.objs.set (w.mutexObj mi) (.mutex { ms with lock := some w.tid }))
          (acqF w (w.mutexObj mi) ms.sync.hb) ∧ okk = true := by
        cases hpa; exact ⟨rfl, rfl⟩
      cases h
      obtain ⟨c1, c2, c3, c4, c5⟩ := complete_real w
        (W2 w (w.exec.objs.set (w.mutexObj mi) (.mutex { ms with lock := some w.tid }))
          (acqF w (w.mutexObj mi) ms.sync.hb)) (World.boolRet true) rfl rfl hact
      obtain ⟨hI, σT', σR', h1, h2, h3, h4, h5⟩ := acq_parts hRC hact hop (by intro b; simp) hmi hobj
        (World.boolRet true) (SC.bool01 true) (s.mutex.set mi (some (body w w.tid)))
      have hst := step_tryLock hcv ho
      have hfree : (s.mutex.getD mi none).isNone = true := by
        rw [hmx, ← hlock, hl]; rfl
      rw [hfree] at hst
      simp only [if_true] at hst
      exact ⟨rfl, c1, c2, .inl c3, _, hst, hRC.fs.1, hI, σT', σR', h1, h2, h3, h4,
        by rw [c4]; exact h5.congr (fun i _ => c5 i)⟩

/-! ### `unlock` -/

/-- the thread entries after `release_lock` of object `o` -/
def relF (w : World) (o : Nat) : Nat → Thread → Thread := fun i th =>
  if i = w.tid then th else if th.operation.any (fun op => op.obj == o) then th.wake else th

theorem wake_ckey (th : Thread) : ckey th.wake = ckey th := by
  unfold Thread.wake; split <;> rfl

theorem clk_unlock (hRC : RC w s) (hact : w.tid < w.ctl.length) (hactive : w.ths.isActive = true) {mi : Nat}
    (hop : opAt w = some (.unlock mi)) (hmi : mi < w.prog.cfg.nMutexes)
    (h : w.runOp (w.ctlOf w.tid) (.unlock mi) = .ok w') : RealOut w s w' := by
  obtain ⟨ms, hobj⟩ := mtx_obj hRC.r hmi
  have hpn := pend_none_of_op hRC hact hop (by intro b; simp)
  have hcv : (s.th (body w w.tid)).cvNotified = none := (hRC.fs.2 _).2.1
  have ho : SC.opOf w.prog s (body w w.tid) = some (.unlock mi) := (opOf_eq hRC.r hact).trans hop
  have hbt := body_lt_ths hRC.r hact
  have ht := nthr_tid hRC hact
  have hf0 : fin w w.tid = 0 := fin_zero hRC.r hact hop
  rw [runOp_unlock] at h
  obtain ⟨w1, hrl, h⟩ := bind_ok h
  rw [releaseLock_active hobj hactive] at hrl
  obtain rfl : w1 = W2 w (w.exec.objs.set (w.mutexObj mi) (.mutex { ms with
      lock := none, sync := ms.sync.store w.ths.activeT.released w.ths.caus .rel })) (relF w (w.mutexObj mi)) := by
    cases hrl; rfl
  simp only [pure, Except.pure] at h
  cases h
  obtain ⟨σT, σR, hLT, hLR, hGT, hGR, hX⟩ := hRC.clk
  obtain ⟨c1, c2, c3, c4, c5⟩ := complete_real w
    (W2 w (w.exec.objs.set (w.mutexObj mi) (.mutex { ms with
      lock := none, sync := ms.sync.store w.ths.activeT.released w.ths.caus .rel })) (relF w (w.mutexObj mi)))
    .unit rfl rfl hact
  have hget := W2c_get w (w.exec.objs.set (w.mutexObj mi) (.mutex { ms with
      lock := none, sync := ms.sync.store w.ths.activeT.released w.ths.caus .rel })) (relF w (w.mutexObj mi)) .unit
  have hkey : ∀ i, ckey (((W2 w (w.exec.objs.set (w.mutexObj mi) (.mutex { ms with
      lock := none, sync := ms.sync.store w.ths.activeT.released w.ths.caus .rel }))
      (relF w (w.mutexObj mi))).complete .unit).ths.get i) = ckey (w.ths.get i) := by
    intro i
    rw [hget]
    split
    · unfold relF; split
      · rfl
      · split
        · exact wake_ckey _
        · rfl
    · rfl
  have hnew : hbOf (.mutex { ms with lock := none, sync := ms.sync.store w.ths.activeT.released w.ths.caus .rel }) =
      (σT.mtx mi).join (σT.thr w.tid) := by
    show (ms.sync.store w.ths.activeT.released w.ths.caus .rel).hb = _
    rw [Clocks.Sync.store_of_releases _ _ _ (by rfl)]
    have hr : w.ths.activeT.released = VV.zero := hRC.inv.rel w.tid ht
    rw [hr, join_zero, hLT.mtx mi hmi, objHb_of hobj, eq_caus hRC hact hLT hpn]
    rfl
  have hT : TwinInv ((W2 w (w.exec.objs.set (w.mutexObj mi) (.mutex { ms with
      lock := none, sync := ms.sync.store w.ths.activeT.released w.ths.caus .rel }))
      (relF w (w.mutexObj mi))).complete .unit) ∧
      LinkT ((W2 w (w.exec.objs.set (w.mutexObj mi) (.mutex { ms with
      lock := none, sync := ms.sync.store w.ths.activeT.released w.ths.caus .rel }))
      (relF w (w.mutexObj mi))).complete .unit) (σT.rel w.tid mi) := by
    refine active_transfer hRC.r hRC.inv hLT w.tid rfl rfl (W2_nthr _ _ _) ?_ ?_ hf0 ?_ ?_ ?_ ?_ ?_ ?_ ?_ ?_ ?_ ?_
      ?_ ?_
    · intro i hi
      rw [complete_ctlOf w _ .unit i (by rfl) (by rfl) hact, if_neg hi]
    · rw [complete_ctlOf w _ .unit w.tid (by rfl) (by rfl) hact, if_pos rfl]; rfl
    · unfold fin
      rw [complete_ctlOf w _ .unit w.tid (by rfl) (by rfl) hact, if_pos rfl]; exact hf0
    · intro i _
      exact congrArg (·.1) (hkey i)
    · intro i
      exact congrArg (·.2.1) (hkey i)
    · intro i
      unfold topo
      rw [show ∀ a b : Thread, ckey a = ckey b → a.operation = b.operation from
        fun a b e => congrArg (·.2.2) e]
      exact hkey i
    · show (w.exec.objs.set _ _).length = _
      simp
    · intro b j n hm
      exact objHb_set_ne _ _ (sp_ne_mtx hRC.r hm hmi)
    · intro i _; rfl
    · show σT.thr w.tid = _
      rw [eq_caus hRC hact hLT hpn]
      exact (congrArg (·.1) (hkey w.tid)).symm
    · intro m hm
      show upd σT.mtx mi _ m = objHb (w.exec.objs.set _ _) _
      by_cases e : m = mi
      · subst e
        rw [upd_self, objHb_set_self _ _ (List.getElem?_eq_some_iff.1 hobj).1, hnew]
      · rw [upd_ne _ _ e, objHb_set_ne _ _ (fun hh => e (mutexObj_inj w hh)), hLT.mtx m hm]
    · intro k c hc
      show σT.acc k c = objAcc (w.exec.objs.set _ _) k _
      rw [objAcc_set_ne _ _ _ (Ne.symm (cell_ne_mtx w hc)), hLT.acc k c hc]
    · intro c hc
      exact cellIdle_set_ne _ _ (Ne.symm (cell_ne_mtx w hc)) (hRC.inv.cb c hc)
    · intro n hn
      rw [hpn] at hn; cases hn
  have hX1 := hX.tickR hGT hGR (inj_body hRC.r) w.tid hact
  refine ⟨rfl, c1, c2, .inl c3, _, step_unlock hcv ho, hRC.fs.1, hT.1, σT.rel w.tid mi,
    (σR.tick (body w w.tid)).rel (body w w.tid) mi, hT.2, ?_, hGT.rel _ _, (hGR.tick _).rel _ _, ?_⟩
  · exact ((hLR.tick hbt).release hmi _).ret _ _
  · rw [c4]
    exact (hX1.rel w.tid hact mi).congr (fun i _ => c5 i)

/-! ### `ifEq` -/

theorem clk_ifEq (hRC : RC w s) (hact : w.tid < w.ctl.length) {i n : Nat} {r : Ret}
    (hop : opAt w = some (.ifEq i r n))
    (h : w.runOp (w.ctlOf w.tid) (.ifEq i r n) = .ok w') : RealOut w s w' := by
  have hpn := pend_none_of_op hRC hact hop (by intro b; simp)
  have hcv : (s.th (body w w.tid)).cvNotified = none := (hRC.fs.2 _).2.1
  have ho : SC.opOf w.prog s (body w w.tid) = some (.ifEq i r n) := (opOf_eq hRC.r hact).trans hop
  have hf0 : fin w w.tid = 0 := fin_zero hRC.r hact hop
  obtain ⟨σT, σR, hLT, hLR, hGT, hGR, hX⟩ := hRC.clk
  obtain ⟨_, hrel, _⟩ := base hRC.r hact
  have hrets : (s.th (body w w.tid)).rets = (w.ctlOf w.tid).results := by
    have := hrel.2.2.1; rw [data_th] at this; exact this
  have hpc : (s.th (body w w.tid)).pc = (w.ctlOf w.tid).pc := by
    have := hrel.2.1; rw [data_th] at this; exact this
  -- any move of the pc alone
  have key : ∀ k : Nat, k ≠ 0 → ∀ s' : SC.St,
      s' = s.modTh (body w w.tid) (fun h => { h with pc := h.pc + k }) →
      SC.step w.prog s (body w w.tid) = [s'] →
      RealOut w s (w.modCtl w.tid fun c => { c with pc := c.pc + k }) := by
    intro k hk s' hs' hst
    have hq : QuietOut w (w.modCtl w.tid fun c => { c with pc := c.pc + k }) ∨ True := .inr trivial
    have hself := ctlOf_modCtl_self w w.tid (fun c => { c with pc := c.pc + k }) hact
    have hne := fun j (hj : j ≠ w.tid) => ctlOf_modCtl_ne w w.tid (fun c => { c with pc := c.pc + k }) hj
    have hT := quiet_transfer (w' := w.modCtl w.tid fun c => { c with pc := c.pc + k }) hRC.r hRC.inv hLT w.tid
      rfl rfl rfl (ObjsTouched.refl _) hne (fun _ => ⟨rfl, rfl⟩) (fun _ _ => rfl) hpn
      (by unfold fin; rw [hself]; exact id)
      (by intro h; left; unfold fin at h ⊢; rw [hself] at h; exact h)
      (by
        intro o ho'
        have ho'' : topo w w.tid = some o := ho'
        exact ⟨hRC.inv.ob w.tid o (nthr_tid hRC hact) ho'', .inl ho''⟩)
    have hbody : ∀ j, body (w.modCtl w.tid fun c => { c with pc := c.pc + k }) j = body w j := by
      intro j
      unfold body
      by_cases e : j = w.tid
      · subst e; rw [hself]
      · rw [hne j e]
    refine ⟨rfl, by rw [ctl_len_modCtl]; exact hact, hbody _, .inl ?_, s', hst, ?_, hT.1, σT, σR, hT.2, ?_, hGT, hGR,
      ?_⟩
    · rw [hself]; show (w.ctlOf w.tid).pc + k ≠ _; omega
    · rw [hs']; exact hRC.fs.1
    · rw [hs']; exact hLR.modTh _ _ (fun _ => rfl)
    · rw [ctl_len_modCtl]
      exact hX.congr (fun j _ => hbody j)
  have hst := step_ifEq hcv ho
  rw [runOp_ifEq] at h
  rw [hrets, hpc] at hst
  split at h
  · next hc =>
    cases h
    rw [if_pos hc] at hst
    exact key 1 (by omega) _ rfl hst
  · next hc =>
    cases h
    rw [if_neg hc] at hst
    have := key (1 + n) (by omega) (s.modTh (body w w.tid) fun h => { h with pc := h.pc + 1 + n })
      (by simp [Nat.add_assoc]) hst
    simpa [Nat.add_assoc] using this

end

end Race
end LoomVerif

/-
Refinement, FUTURES fragment: the one-step simulation for the operations of the fragment that do not work on a
future — the flag store `Op.atom x (.store 1 .rel)`, `ifEq`, `spawn`, `join` — and for the epilogue of a thread.
-/
import LoomVerif.Proofs.Refine4Ok

set_option linter.unusedSimpArgs false
set_option linter.unusedVariables false

namespace LoomVerif
namespace Refine4
open Refine Sy Refine2 C20 C07 C08

section
variable {w w' : World} {s : SC.St}

/-! ### the flag store -/

/-- stage 0: the branch point of the store -/
theorem sim_store0 (hR : R4 w s) (hact : w.tid < w.ctl.length) {x : Nat}
    (hop : opAt w = some (.atom x (.store 1 .rel))) (hst : (w.ctlOf w.tid).stage = 0)
    (h : w.stepActive = .ok w') : Sim4 w s w' := by
  rw [stepActive_op hop] at h
  have h' : w.primStart x (.store 1 .rel) = .ok w' := by
    simp only [World.runOp, hst] at h
    exact h
  obtain ⟨hp, hr, hv⟩ := primStart_view (act := .atomStore) rfl h'
  refine ⟨hp, ⟨s, .nil s, ?_⟩, hr⟩
  have hopc : opOfCtl w.prog (w.ctlOf w.tid) = some (.atom x (.store 1 .rel)) := hop
  refine R4_quiet hR hact _ hv rfl rfl rfl rfl rfl rfl ?_ ?_ ?_ ?_ ?_
  · rw [hop]; rfl
  · rw [hop, hst]; rfl
  · rw [hop]; rfl
  · have hopc' : opOfCtl w.prog { w.ctlOf w.tid with prim := some (.store 1 .rel), stage := 1 } =
        some (.atom x (.store 1 .rel)) := hop
    simp only [fattr, inflS, pendN, callOf, aw25, hopc, hopc', hst]
  · intro _ _ _; rfl

/-- stage 1: the store takes effect and the operation completes: the reference step -/
theorem sim_store1 (hwf : WF4 w.prog) (hR : R4 w s) (hact : w.tid < w.ctl.length) {x : Nat}
    (hop : opAt w = some (.atom x (.store 1 .rel))) (hst : (w.ctlOf w.tid).stage = 1)
    (h : w.stepActive = .ok w') : Sim4 w s w' := by
  rw [stepActive_op hop] at h
  have hrel := rel4 hR hact
  have hopc : opOfCtl w.prog (w.ctlOf w.tid) = some (.atom x (.store 1 .rel)) := hop
  have hprim : (w.ctlOf w.tid).prim = some (.store 1 .rel) := hrel.2.2.2.2.2.2.2.1 x hopc hst
  simp only [World.runOp, hst, hprim] at h
  have h2 : (w.primEffect x (.store 1 .rel) >>= fun y => (pure (y.1.complete y.2) : Except Panic World)) = .ok w' := h
  clear h
  obtain ⟨⟨w1, r⟩, h1, h3⟩ := Refine.bind_ok h2
  clear h2
  simp only [pure, Except.pure] at h3
  cases h3
  have hx : x < w.prog.cfg.nAtomics := by
    have := hwf.opOk hop
    simp only [opOk4, Bool.and_eq_true, decide_eq_true_eq] at this
    exact this.2
  -- the store
  obtain ⟨l, full, c0, hvo, hk1, hr, hv1⟩ := primEffect_store_view h1
  subst hr
  obtain ⟨v0, c1, hav, _⟩ := hR.f.a.atom x hx
  have hfull : full = true := by
    rw [avOf_some] at hav
    rw [hav] at hvo
    cases hvo; rfl
  have hv1' := hv1 hfull
  have hlen : w.ctl.length = w.exec.threads.threads.length := hR.lenCtl
  obtain ⟨_, _, hpl, _, _⟩ := act4 hR hact
  have hsy := sync4 hR hact (by rw [hop, hst]; rfl)
  obtain ⟨hrun1, hrun2⟩ := running4 hR hact hop
  -- the reference step
  obtain ⟨s', hstep, hdata⟩ := sc_step_store (x := x) hpl (hsy.1.trans hop)
  have hen : SC.enabled w.prog s (w.ctlOf w.tid).body = true :=
    sc_enabled_op hR.verdict hpl hrun1 hrun2 (hsy.1.trans hop) (hwf.opOk hop) rfl
  have hex : SCExec2 w.prog s s' := exec_step hen hstep
  refine ⟨hk1.1.1, ⟨s', hex, ?_⟩,
    inRange_of (w := w) hk1.2.1 (Nat.le_of_eq hk1.2.2.symm) (by rw [← hlen]; exact hact)⟩
  have hv : view4 (w1.complete .unit) = { view4 w with
      ctl := w.ctl.modify w.tid (completeF .unit),
      objs := (view4 w).objs.set x (.atomic (w.cfg.ty.intoU64 1) true (c0 + 1)) } := by
    rw [view4_complete, hv1', hk1.1.2.1, hk1.2.1]
  have hdf : (data4 s').futs = (data4 s).futs := by rw [hdata]; rfl
  have hda : (data4 s').atoms = (data4 s).atoms.set x 1 := by rw [hdata]; rfl
  have hdt : (data4 s').ths = (data4 s).ths.modify (w.ctlOf w.tid).body
      (fun h => { h with rets := (h.pc, Ret.unit) :: h.rets, pc := h.pc + 1 }) := by rw [hdata]; rfl
  have hdv : (data4 s').verdict = none := by rw [hdata]; exact hR.verdict
  have r9 := hrel.2.2.2.2.2.2.2.2
  rw [hopc, hst] at r9
  have r9' : ((data4 s).ths.getD (w.ctlOf w.tid).body {}).pc = (w.ctlOf w.tid).pc ∧
      ((data4 s).ths.getD (w.ctlOf w.tid).body {}).rets = (w.ctlOf w.tid).results ∧
      ((data4 s).ths.getD (w.ctlOf w.tid).body {}).phase = 0 := r9
  have hset := view_set_atomic (v' := w.cfg.ty.intoU64 1) (b' := true) (c' := c0 + 1) hvo
  unfold R4
  refine R4_step hR hact _ (fun h => { h with rets := (h.pc, Ret.unit) :: h.rets, pc := h.pc + 1 })
    (view4 w).futs _ hv hdt hdv rfl (Nat.le_succ _) ?_ ?_ id
    (notify_kept_set _ hvo (by intro nt ds e; cases e)) ?_
  · refine hrel.of rfl rfl rfl rfl rfl rfl rfl (stageOk_zero _) (by intro x _ h1; cases h1) ?_
    show match aheadOf _ 0 with | none => _ | some r => _
    rw [aheadOf_zero]
    show _ = (w.ctlOf w.tid).pc + 1 ∧ _ = ((w.ctlOf w.tid).pc, Ret.unit) :: (w.ctlOf w.tid).results ∧ _ = phaseOf _ 0
    rw [r9'.1, r9'.2.1, phaseOf_zero]
    exact ⟨rfl, rfl, r9'.2.2⟩
  · intro hne
    exact absurd (fin_zero4 hR hact hop) hne
  · obtain ⟨e1, e2, e3, e4⟩ := fattr_stage0 w.prog (completeF .unit (w.ctlOf w.tid)) rfl
    refine RF.ofGroups' hact _ e1 e2 e3 e4 ?_ ?_ ?_ ?_
    · rw [hdf, hset.2.1]; exact hR.f.s
    · rw [hdf, hset.2.1]
      exact hR.f.c.same (by show pendN w.prog (w.ctlOf w.tid) = none; simp only [pendN, hopc, hst])
        (by show callOf w.prog (w.ctlOf w.tid) = none; simp only [callOf, hopc])
    · rw [hda, hset.1]
      exact (hR.f.a.store hx (avOf_some.2 hvo)).same
        (by show inflS w.prog (w.ctlOf w.tid) = none; simp only [inflS, hopc, hst])
    · rw [hset.2.2]
      exact hR.f.w.same (by show aw25 w.prog (w.ctlOf w.tid) = none; simp only [aw25, hopc, hst])

/-! ### `ifEq` -/

theorem sim_ifEq (hwf : WF4 w.prog) (hR : R4 w s) (hact : w.tid < w.ctl.length) {i n : Nat} {r : Ret}
    (hop : opAt w = some (.ifEq i r n)) (hst : (w.ctlOf w.tid).stage = 0)
    (h : w.stepActive = .ok w') : Sim4 w s w' := by
  rw [stepActive_op hop, runOp_ifEq] at h
  have hin : w.tid < w.exec.threads.threads.length := by
    have hlen : w.ctl.length = w.exec.threads.threads.length := hR.lenCtl
    rw [← hlen]; exact hact
  have hrel := rel4 hR hact
  have hopc : opOfCtl w.prog (w.ctlOf w.tid) = some (.ifEq i r n) := hop
  obtain ⟨_, _, hpl, _, _⟩ := act4 hR hact
  have hsy := sync4 hR hact (by rw [hop, hst]; rfl)
  obtain ⟨hrun1, hrun2⟩ := running4 hR hact hop
  obtain ⟨s', hstep, hdata⟩ := sc_step_ifEq (i := i) (n := n) (r := r) hpl (hsy.1.trans hop)
  have hen : SC.enabled w.prog s (w.ctlOf w.tid).body = true :=
    sc_enabled_op hR.verdict hpl hrun1 hrun2 (hsy.1.trans hop) (hwf.opOk hop) rfl
  have hex : SCExec2 w.prog s s' := exec_step hen hstep
  have r9 := hrel.2.2.2.2.2.2.2.2
  rw [hopc, hst] at r9
  have r9' : ((data4 s).ths.getD (w.ctlOf w.tid).body {}).pc = (w.ctlOf w.tid).pc ∧
      ((data4 s).ths.getD (w.ctlOf w.tid).body {}).rets = (w.ctlOf w.tid).results ∧
      ((data4 s).ths.getD (w.ctlOf w.tid).body {}).phase = 0 := r9
  -- the condition is the same on both sides
  have hcond : (((data4 s).th (w.ctlOf w.tid).body).rets.lookup (((data4 s).th (w.ctlOf w.tid).body).pc - i) == some r) =
      ((w.ctlOf w.tid).results.lookup ((w.ctlOf w.tid).pc - i) == some r) := by
    show (((data4 s).ths.getD (w.ctlOf w.tid).body {}).rets.lookup
      (((data4 s).ths.getD (w.ctlOf w.tid).body {}).pc - i) == some r) = _
    rw [r9'.1, r9'.2.1]
  rw [hcond] at hdata
  have key : ∀ k : Nat, data4 s' = (data4 s).modTh (w.ctlOf w.tid).body (fun h => { h with pc := h.pc + 1 + k }) →
      R4 (w.modCtl w.tid fun c => { c with pc := c.pc + 1 + k }) s' := by
    intro k hd
    have hdf : (data4 s').futs = (data4 s).futs := by rw [hd]; rfl
    have hda : (data4 s').atoms = (data4 s).atoms := by rw [hd]; rfl
    have hdt : (data4 s').ths = (data4 s).ths.modify (w.ctlOf w.tid).body
        (fun h => { h with pc := h.pc + 1 + k }) := by rw [hd]; rfl
    have hdv : (data4 s').verdict = none := by rw [hd]; exact hR.verdict
    have hst' : ({ w.ctlOf w.tid with pc := (w.ctlOf w.tid).pc + 1 + k } : TCtl).stage = 0 := hst
    unfold R4
    refine R4_step hR hact (fun c => { c with pc := c.pc + 1 + k }) (fun h => { h with pc := h.pc + 1 + k })
      (view4 w).futs (view4 w).objs rfl hdt hdv rfl (by show (w.ctlOf w.tid).pc ≤ (w.ctlOf w.tid).pc + 1 + k; omega)
      ?_ ?_ id (fun _ _ _ h => h) ?_
    · refine hrel.of rfl rfl rfl rfl rfl rfl rfl (by rw [hst']; exact stageOk_zero _)
        (by intro x _ h1; rw [hst'] at h1; cases h1) ?_
      rw [hst', aheadOf_zero]
      show _ = (w.ctlOf w.tid).pc + 1 + k ∧ _ = (w.ctlOf w.tid).results ∧ _ = phaseOf _ 0
      rw [r9'.1, r9'.2.1, phaseOf_zero]
      exact ⟨rfl, rfl, r9'.2.2⟩
    · intro hne
      exact absurd (fin_zero4 hR hact hop) hne
    · refine (RF.sameAttrs hact _ hR.f ?_).congr_d hdf hda
      obtain ⟨e1, e2, e3, e4⟩ := fattr_stage0 w.prog _ hst'
      obtain ⟨d1, d2, d3, d4⟩ := fattr_stage0 w.prog _ hst
      show fattr w.prog { w.ctlOf w.tid with pc := (w.ctlOf w.tid).pc + 1 + k } = fattr w.prog (w.ctlOf w.tid)
      simp only [fattr, e1, e2, e3, e4, d1, d2, d3, d4]
  split at h
  · next hc =>
    cases h
    rw [hc] at hdata
    exact ⟨rfl, ⟨s', hex, key 0 hdata⟩, inRange_of rfl (Nat.le_refl _) hin⟩
  · next hc =>
    cases h
    have hc' : ((w.ctlOf w.tid).results.lookup ((w.ctlOf w.tid).pc - i) == some r) = false := by
      simpa using hc
    rw [hc'] at hdata
    exact ⟨rfl, ⟨s', hex, key n hdata⟩, inRange_of rfl (Nat.le_refl _) hin⟩

/-! ### `join` -/

theorem lookupSpawn_mem {w : World} {b tid' n : Nat} (hl : w.lookupSpawn b = .ok (tid', n)) :
    (b, tid', n) ∈ w.spawned := by
  unfold World.lookupSpawn at hl
  split at hl
  · next b'' t'' n'' hf =>
    cases hl
    have := List.find?_some hf
    have e : b'' = b := by simpa using this
    subst e
    exact List.mem_of_find?_eq_some hf
  · cases hl

/-- the flags of a join handle's `Notify` change; if the flag is raised, the threads it belongs to have passed their
notification -/
theorem RSp.setNotify {ctl : List TCtl} {sp : List (Nat × Nat × Nat)} {objs : List OV4} (h : RSp ctl sp objs)
    {o : Nat} {x : OV4} (ho : objs[o]? = some x) (nt' ds' : Bool)
    (hfin : nt' = true → ∀ b i, (b, i, o) ∈ sp → 10 ≤ (ctl.getD i {}).fin) :
    RSp ctl sp (objs.set o (.notify false nt' ds')) := by
  have hlt : o < objs.length := (List.getElem?_eq_some_iff.1 ho).1
  refine ⟨?_, h.spn⟩
  intro b i n hmem
  obtain ⟨h1, h2, nt, ds, h3, h4⟩ := h.sp b i n hmem
  by_cases e : n = o
  · subst e
    refine ⟨h1, h2, nt', ds', ?_, fun e' => hfin e' b i hmem⟩
    rw [List.getElem?_set]
    simp [hlt]
  · refine ⟨h1, h2, nt, ds, ?_, h4⟩
    rw [List.getElem?_set]
    have : ¬ o = n := fun e' => e e'.symm
    simp [this, h3]

/-- the `Notify` objects of the calls are as before -/
theorem GC.nvTrue {p : Prog} {n : Nat} {pa : Nat → Option Nat} {ca : Nat → Option (Nat × Nat × Bool)}
    {futs : List FutSt} {nv nv' : Nat → Option (Bool × Bool × Bool)} {df : List DFut}
    (hnv : ∀ k nt ds, nv k = some (true, nt, ds) → nv' k = some (true, nt, ds))
    (h : GC p n pa ca futs nv df) : GC p n pa ca futs nv' df := by
  refine ⟨?_, h.slotCall, h.callInj, h.awOther, ?_⟩
  · intro i f m b hi hc
    obtain ⟨hf, nt, ds, h1, h2⟩ := h.call i f m b hi hc
    exact ⟨hf, nt, ds, hnv _ _ _ h1, h2⟩
  · intro j k hj hk
    obtain ⟨nt, ds, h1⟩ := h.pendOk j k hj hk
    exact ⟨nt, ds, hnv _ _ _ h1⟩

/-- the general assembly, when the objects of the join handles change: the join handles' part is given -/
theorem R4_step' (hR : R4 w s) (hact : w.tid < w.ctl.length) (F : TCtl → TCtl) (g : DTh4 → DTh4)
    (futs' : List FutSt) (objs' : List OV4) {d' : SCData4}
    (hv : view4 w' = { view4 w with ctl := w.ctl.modify w.tid F, futs := futs', objs := objs' })
    (hd : d'.ths = (data4 s).ths.modify (w.ctlOf w.tid).body g) (hver : d'.verdict = none)
    (hbody : (F (w.ctlOf w.tid)).body = (w.ctlOf w.tid).body)
    (hpc : (w.ctlOf w.tid).pc ≤ (F (w.ctlOf w.tid)).pc)
    (hrel : ThRel4 w.prog (F (w.ctlOf w.tid)) (g ((data4 s).ths.getD (w.ctlOf w.tid).body {})))
    (hepi : (F (w.ctlOf w.tid)).fin ≠ 0 → opOfCtl w.prog (F (w.ctlOf w.tid)) = none)
    (hsp : RSp (w.ctl.modify w.tid F) w.spawned objs')
    (hf : RF w.prog (w.ctl.modify w.tid F) futs' objs' d') : RV (view4 w') d' := by
  refine RV.mk' hv (by rw [List.length_modify]; exact hR.lenCtl) hver ?_ hsp hf
  show RX4 w.prog (w.ctl.modify w.tid F) d'.ths
  rw [hd]
  exact hR.x.modify hact F g hbody hpc hrel hepi

/-- stage 0: the first half of the wait on the join handle's `Notify`, which never returns spuriously -/
theorem sim_join0 (hR : R4 w s) (hact : w.tid < w.ctl.length) {b : Nat}
    (hop : opAt w = some (.join b)) (hst : (w.ctlOf w.tid).stage = 0)
    (h : w.stepActive = .ok w') : Sim4 w s w' := by
  rw [stepActive_op hop, runOp_join] at h
  obtain ⟨⟨tid', n⟩, hl, h2⟩ := Refine.bind_ok h
  clear h
  have hmem := lookupSpawn_mem hl
  obtain ⟨hlt, hbody, nt, ds, hvo, hnt⟩ := hR.sp.sp b tid' n hmem
  simp only [hst] at h2
  obtain ⟨⟨w1, st⟩, h1, h3⟩ := Refine.bind_ok h2
  clear h2
  simp only [pure, Except.pure] at h3
  cases h3
  obtain ⟨sp', nt', ds', hvo', hfr, hr, hcase⟩ := notifyWait1_view h1
  rw [hvo] at hvo'
  cases hvo'
  have hopc : opOfCtl w.prog (w.ctlOf w.tid) = some (.join b) := hop
  rcases hcase with ⟨rfl, hv1⟩ | ⟨_, hsp, _⟩
  · refine ⟨hfr.1, ⟨s, .nil s, ?_⟩, hr⟩
    have hv : view4 (w1.modCtl w.tid fun c => { c with stage := 1 }) =
        { view4 w with ctl := w.ctl.modify w.tid fun c => { c with stage := 1 } } := by
      rw [view4_modCtl, hv1, hfr.2.1]
    refine R4_quiet hR hact _ hv rfl rfl rfl rfl rfl rfl ?_ ?_ ?_ ?_ ?_
    · rw [hop]; rfl
    · rw [hop, hst]; rfl
    · rw [hop]; rfl
    · have hopc' : opOfCtl w.prog { w.ctlOf w.tid with stage := 1 } = some (.join b) := hop
      simp only [fattr, inflS, pendN, callOf, aw25, hopc, hopc', hst]
    · intro x hx; rw [hop] at hx; cases hx
  · cases hsp

/-- stage 1: the second half of the wait: the joined thread has finished — the reference step -/
theorem sim_join1 (hwf : WF4 w.prog) (hR : R4 w s) (hact : w.tid < w.ctl.length) {b : Nat}
    (hop : opAt w = some (.join b)) (hst : (w.ctlOf w.tid).stage = 1)
    (h : w.stepActive = .ok w') : Sim4 w s w' := by
  rw [stepActive_op hop, runOp_join] at h
  obtain ⟨⟨tid', n⟩, hl, h2⟩ := Refine.bind_ok h
  clear h
  have hmem := lookupSpawn_mem hl
  obtain ⟨hlt, hbody, nt, ds, hvo, hnt⟩ := hR.sp.sp b tid' n hmem
  simp only [hst] at h2
  obtain ⟨w1, h1, h3⟩ := Refine.bind_ok h2
  clear h2
  simp only [pure, Except.pure] at h3
  cases h3
  obtain ⟨sp', ds', hvo', hk1, hv1⟩ := notifyWait2_view h1
  rw [hvo] at hvo'
  cases hvo'
  have hlen : w.ctl.length = w.exec.threads.threads.length := hR.lenCtl
  have hopc : opOfCtl w.prog (w.ctlOf w.tid) = some (.join b) := hop
  have hrel := rel4 hR hact
  obtain ⟨_, _, hpl, _, _⟩ := act4 hR hact
  have hsy := sync4 hR hact (by rw [hop, hst]; rfl)
  obtain ⟨hrun1, hrun2⟩ := running4 hR hact hop
  -- the joined thread has finished
  have hfinished : (s.th b).finished = true := by
    have h10 : 10 ≤ ((view4 w).ctl.getD tid' {}).fin := hnt rfl
    have hth := (hR.x.thr tid' hlt).2.2.1
    rw [hbody] at hth
    have e : (data4 s).ths.getD b {} = dth4 (s.th b) := data4_th s b
    rw [e] at hth
    have : (s.th b).finished = decide (10 ≤ ((view4 w).ctl.getD tid' {}).fin) := hth
    rw [this]
    simpa using h10
  -- the reference step
  obtain ⟨s', hstep, hdata⟩ := sc_step_join (b := b) hpl (hsy.1.trans hop)
  have hen : SC.enabled w.prog s (w.ctlOf w.tid).body = true :=
    sc_enabled_op hR.verdict hpl hrun1 hrun2 (hsy.1.trans hop) (hwf.opOk hop) hfinished
  have hex : SCExec2 w.prog s s' := exec_step hen hstep
  refine ⟨hk1.1.1, ⟨s', hex, ?_⟩,
    inRange_of (w := w) hk1.2.1 (Nat.le_of_eq hk1.2.2.symm) (by rw [← hlen]; exact hact)⟩
  have hv : view4 (w1.complete .unit) = { view4 w with
      ctl := w.ctl.modify w.tid (completeF .unit),
      objs := (view4 w).objs.set n (.notify false false ds) } := by
    rw [view4_complete, hv1, hk1.1.2.1, hk1.2.1]
  have hdf : (data4 s').futs = (data4 s).futs := by rw [hdata]; rfl
  have hda : (data4 s').atoms = (data4 s).atoms := by rw [hdata]; rfl
  have hdt : (data4 s').ths = (data4 s).ths.modify (w.ctlOf w.tid).body
      (fun h => { h with rets := (h.pc, Ret.unit) :: h.rets, pc := h.pc + 1 }) := by rw [hdata]; rfl
  have hdv : (data4 s').verdict = none := by rw [hdata]; exact hR.verdict
  have r9 := hrel.2.2.2.2.2.2.2.2
  rw [hopc, hst] at r9
  have r9' : ((data4 s).ths.getD (w.ctlOf w.tid).body {}).pc = (w.ctlOf w.tid).pc ∧
      ((data4 s).ths.getD (w.ctlOf w.tid).body {}).rets = (w.ctlOf w.tid).results ∧
      ((data4 s).ths.getD (w.ctlOf w.tid).body {}).phase = 0 := r9
  have hset := view_set_notify (a' := false) (b' := false) (c' := ds) hvo
  have hnvT : ∀ k nt1 ds1, nvOf (view4 w).objs k = some (true, nt1, ds1) →
      upd (nvOf (view4 w).objs) n (some (false, false, ds)) k = some (true, nt1, ds1) := by
    intro k nt1 ds1 hk
    have hne : k ≠ n := by
      intro e; subst e
      rw [nvOf_some, hvo] at hk
      cases hk
    rw [upd_ne _ _ hne]; exact hk
  unfold R4
  refine R4_step' hR hact _ (fun h => { h with rets := (h.pc, Ret.unit) :: h.rets, pc := h.pc + 1 })
    (view4 w).futs _ hv hdt hdv rfl (Nat.le_succ _) ?_ ?_ ?_ ?_
  · refine hrel.of rfl rfl rfl rfl rfl rfl rfl (stageOk_zero _) (by intro x _ h1; cases h1) ?_
    show match aheadOf _ 0 with | none => _ | some r => _
    rw [aheadOf_zero]
    show _ = (w.ctlOf w.tid).pc + 1 ∧ _ = ((w.ctlOf w.tid).pc, Ret.unit) :: (w.ctlOf w.tid).results ∧ _ = phaseOf _ 0
    rw [r9'.1, r9'.2.1, phaseOf_zero]
    exact ⟨rfl, rfl, r9'.2.2⟩
  · intro hne
    exact absurd (fin_zero4 hR hact hop) hne
  · exact (hR.sp.ctl (CtlLe.modify _ _ _ rfl id)).setNotify hvo false ds (by intro e; cases e)
  · obtain ⟨e1, e2, e3, e4⟩ := fattr_stage0 w.prog (completeF .unit (w.ctlOf w.tid)) rfl
    refine RF.ofGroups' hact _ e1 e2 e3 e4 ?_ ?_ ?_ ?_
    · rw [hdf, hset.1]
      exact hR.f.s.nv (fun k nt1 ds1 hk => ⟨nt1, ds1, hnvT k nt1 ds1 hk⟩)
    · rw [hdf, hset.1]
      exact (GC.nvTrue hnvT hR.f.c).same
        (by show pendN w.prog (w.ctlOf w.tid) = none; simp only [pendN, hopc, hst])
        (by show callOf w.prog (w.ctlOf w.tid) = none; simp only [callOf, hopc])
    · rw [hda, hset.2.2]
      exact hR.f.a.same (by show inflS w.prog (w.ctlOf w.tid) = none; simp only [inflS, hopc, hst])
    · rw [hset.2.1]
      exact hR.f.w.same (by show aw25 w.prog (w.ctlOf w.tid) = none; simp only [aw25, hopc, hst])

/-! ### the epilogue -/

theorem stepActive_none {w : World} (hnone : opAt w = none) : w.stepActive = w.runEpilogue (w.ctlOf w.tid) := by
  unfold World.stepActive
  have : (w.prog.threads.getD (w.ctlOf w.tid).body [])[(w.ctlOf w.tid).pc]? = none := hnone
  simp only [this]

/-- an epilogue stage that only moves `fin`, on the same side of the notification -/
theorem R4_fin (hR : R4 w s) (hact : w.tid < w.ctl.length) (hnone : opAt w = none) (k : Nat)
    (hv : view4 w' = { view4 w with ctl := w.ctl.modify w.tid fun c => { c with fin := k } })
    (hk : 10 ≤ k ↔ 10 ≤ (w.ctlOf w.tid).fin) : R4 w' s := by
  obtain ⟨h1, h2, h3, h4, h5, h6, h7, h8, h9⟩ := rel4 hR hact
  unfold R4
  refine R4_step hR hact (fun c => { c with fin := k }) id (view4 w).futs (view4 w).objs hv
    (by rw [modify_id' _ _ id (fun _ => rfl)]) hR.verdict rfl (Nat.le_refl _) ?_ (fun _ => hnone) hk.2
    (fun _ _ _ h => h) (RF.sameAttrs hact _ hR.f rfl)
  exact ⟨h1, h2.trans (decide_eq_decide.2 hk.symm), h3, h4, h5, h6, h7, h8, h9⟩

theorem sim_epilogue (hR : R4 w s) (hact : w.tid < w.ctl.length) (hnone : opAt w = none)
    (h : w.stepActive = .ok w') : Sim4 w s w' := by
  rw [stepActive_none hnone] at h
  have hlen : w.ctl.length = w.exec.threads.threads.length := hR.lenCtl
  have hin : w.tid < w.exec.threads.threads.length := by rw [← hlen]; exact hact
  have hrel := rel4 hR hact
  have hloc : (w.ctlOf w.tid).locals = [] := hrel.2.2.2.2.1
  have hdq : (w.ctlOf w.tid).dtorQueue = [] := hrel.2.2.2.2.2.1
  have hdl : w.dropLocals = w := dropLocals_frag w hloc hdq
  by_cases h10 : 10 ≤ (w.ctlOf w.tid).fin
  · -- the common tail
    rw [runEpilogue_finish w _ h10] at h
    unfold World.finishThread at h
    split at h
    · cases h
    · next hrange =>
      rw [dropPass_eq, hdl] at h
      split at h
      · next e =>
        cases h
        exact ⟨rfl, ⟨s, .nil s, R4_fin hR hact hnone (10 + 1) rfl (by omega)⟩, inRange_of rfl (Nat.le_refl _) hin⟩
      · split at h
        · next e =>
          rw [hdq] at h
          simp only at h
          have hs := threadDone_sched h
          refine ⟨hs.fr.1, ⟨s, .nil s, R4_fin hR hact hnone 99 ?_ (by omega)⟩, hs.inRange⟩
          rw [hs.view]; rfl
        · rw [hdq] at h
          cases h
  · have hlt : (w.ctlOf w.tid).fin < 10 := by omega
    have hopc : opOfCtl w.prog (w.ctlOf w.tid) = none := hnone
    have hst0 : (w.ctlOf w.tid).stage = 0 := by
      have := hrel.2.2.2.2.2.2.1
      rw [hopc] at this
      simpa [stageOk] using this
    obtain ⟨_, _, hpl, hstd, hfinr⟩ := act4 hR hact
    have hsy := sync4 hR hact (by rw [hnone, hst0]; rfl)
    have hnf : (s.th (w.ctlOf w.tid).body).finished = false := by
      rw [hfinr]; simp; omega
    have hph : (s.th (w.ctlOf w.tid).body).phase = 0 := by rw [hsy.2.2.2, hnone]; rfl
    -- the reference step: the thread is finished
    obtain ⟨s', hstep, hdata⟩ := sc_step_end hpl hph (hsy.1.trans hnone)
    have hen : SC.enabled w.prog s (w.ctlOf w.tid).body = true :=
      sc_enabled_end hR.verdict hpl hstd hnf (hsy.1.trans hnone)
    have hex : SCExec2 w.prog s s' := exec_step hen hstep
    have hdf : (data4 s').futs = (data4 s).futs := by rw [hdata]; rfl
    have hda : (data4 s').atoms = (data4 s).atoms := by rw [hdata]; rfl
    have hdt : (data4 s').ths = (data4 s).ths.modify (w.ctlOf w.tid).body
        (fun h => { h with finished := true }) := by rw [hdata]; rfl
    have hdv : (data4 s').verdict = none := by rw [hdata]; exact hR.verdict
    have hrel10 : ThRel4 w.prog { w.ctlOf w.tid with fin := 10 }
        ((fun h : DTh4 => { h with finished := true }) ((data4 s).ths.getD (w.ctlOf w.tid).body {})) := by
      obtain ⟨h1, h2, h3, h4, h5, h6, h7, h8, h9⟩ := hrel
      exact ⟨h1, rfl, h3, h4, h5, h6, h7, h8, h9⟩
    by_cases ht0 : w.tid = 0
    · -- the main thread
      rw [runEpilogue_main w _ ht0 hlt] at h
      cases h
      refine ⟨rfl, ⟨s', hex, ?_⟩, inRange_of rfl (Nat.le_refl _) hin⟩
      unfold R4
      exact R4_step hR hact (fun c => { c with fin := 10 }) (fun h => { h with finished := true })
        (view4 w).futs (view4 w).objs rfl hdt hdv rfl (Nat.le_refl _) hrel10 (fun _ => hnone)
        (fun _ => Nat.le_refl _) (fun _ _ _ h => h) ((RF.sameAttrs hact _ hR.f rfl).congr_d hdf hda)
    · -- a spawned thread
      have hfind : ∃ b n, w.spawned.find? (·.2.1 == w.tid) = some (b, w.tid, n) := by
        cases hf : w.spawned.find? (·.2.1 == w.tid) with
        | none =>
          unfold World.runEpilogue at h
          simp [h10, ht0, hf, throw, throwThe, MonadExceptOf.throw] at h
        | some e =>
          obtain ⟨b, t, n⟩ := e
          have := List.find?_some hf
          simp only [beq_iff_eq] at this
          subst this
          exact ⟨b, n, rfl⟩
      obtain ⟨b, n, hf⟩ := hfind
      have hmem := List.mem_of_find?_eq_some hf
      rw [runEpilogue_spawned w _ b n ht0 hf hlt] at h
      split at h
      · next e =>
        rw [hdl] at h
        cases h
        exact ⟨rfl, ⟨s, .nil s, R4_fin hR hact hnone 4 rfl (by omega)⟩, inRange_of rfl (Nat.le_refl _) hin⟩
      · split at h
        · next e3 =>
          rw [dropPass_eq, hdl] at h
          split at h
          · cases h
            exact ⟨rfl, ⟨s, .nil s, R4_fin hR hact hnone (3 + 1) rfl (by omega)⟩,
              inRange_of rfl (Nat.le_refl _) hin⟩
          · split at h
            · rw [hdq] at h
              simp only at h
              have hs := branch_sched h
              refine ⟨hs.fr.1, ⟨s, .nil s, R4_fin hR hact hnone 1 ?_ (by omega)⟩, hs.inRange⟩
              rw [hs.view]; rfl
            · rw [hdq] at h
              cases h
        · -- the notification: the thread becomes joinable
          obtain ⟨hlt', hbody, nt, ds, hvo, hnt⟩ := hR.sp.sp b w.tid n hmem
          obtain ⟨w1, h1, h⟩ := Refine.bind_ok h
          simp only [pure, Except.pure] at h
          cases h
          obtain ⟨sp', nt', ds', hvo', hk1, hv1⟩ := notifyEffect_view h1
          rw [hvo] at hvo'
          cases hvo'
          refine ⟨hk1.1.1, ⟨s', hex, ?_⟩,
            inRange_of (w := w) hk1.2.1 (Nat.le_of_eq hk1.2.2.symm) hin⟩
          have hv : view4 (w1.modCtl w.tid fun c => { c with fin := 10 }) = { view4 w with
              ctl := w.ctl.modify w.tid (fun c => { c with fin := 10 }),
              objs := (view4 w).objs.set n (.notify false true ds) } := by
            rw [view4_modCtl, hv1, hk1.1.2.1]
          have hset := view_set_notify (a' := false) (b' := true) (c' := ds) hvo
          have hnvT : ∀ k nt1 ds1, nvOf (view4 w).objs k = some (true, nt1, ds1) →
              upd (nvOf (view4 w).objs) n (some (false, true, ds)) k = some (true, nt1, ds1) := by
            intro k nt1 ds1 hk
            have hne : k ≠ n := by
              intro e; subst e
              rw [nvOf_some, hvo] at hk
              cases hk
            rw [upd_ne _ _ hne]; exact hk
          unfold R4
          refine R4_step' hR hact (fun c => { c with fin := 10 }) (fun h => { h with finished := true })
            (view4 w).futs _ hv hdt hdv rfl (Nat.le_refl _) hrel10 (fun _ => hnone) ?_ ?_
          · refine (hR.sp.ctl (CtlLe.modify _ _ _ rfl (fun _ => Nat.le_refl _))).setNotify hvo true ds ?_
            intro _ b' i hmem'
            have := hR.sp.spn _ _ hmem' hmem rfl
            simp only at this
            subst this
            show 10 ≤ ((w.ctl.modify w.tid _).getD w.tid {}).fin
            rw [getD_modify_self _ _ _ _ hact]
            exact Nat.le_refl _
          · refine RF.ofGroups' (x1 := inflS w.prog (w.ctlOf w.tid)) (x2 := pendN w.prog (w.ctlOf w.tid))
              (x3 := callOf w.prog (w.ctlOf w.tid)) (x4 := aw25 w.prog (w.ctlOf w.tid)) hact _ rfl rfl rfl rfl
              ?_ ?_ ?_ ?_
            · rw [hdf, hset.1]
              exact hR.f.s.nv (fun k nt1 ds1 hk => ⟨nt1, ds1, hnvT k nt1 ds1 hk⟩)
            · rw [hdf, hset.1]
              exact (GC.nvTrue hnvT hR.f.c).same rfl rfl
            · rw [hda, hset.2.2]
              exact hR.f.a.same rfl
            · rw [hset.2.1]
              exact hR.f.w.same rfl

/-! ### `spawn` -/

theorem modify_append_left4 {α} (l x : List α) (t : Nat) (f : α → α) (h : t < l.length) :
    (l ++ x).modify t f = l.modify t f ++ x := by
  apply List.ext_getElem?
  intro i
  simp only [List.getElem?_modify]
  by_cases hi : i < l.length
  · rw [List.getElem?_append_left hi, List.getElem?_append_left (by simpa using hi), List.getElem?_modify]
  · have hi' : l.length ≤ i := by omega
    have hne : ¬ t = i := by omega
    rw [List.getElem?_append_right hi', List.getElem?_append_right (by simpa using hi')]
    simp [hne]

theorem modify_comm4 {α} (l : List α) (a b : Nat) (f g : α → α) (h : a ≠ b) :
    (l.modify a f).modify b g = (l.modify b g).modify a f := by
  apply List.ext_getElem?
  intro i
  simp only [List.getElem?_modify]
  cases l[i]? with
  | none => rfl
  | some x =>
    by_cases ha : a = i <;> by_cases hb : b = i
    · omega
    · simp [ha, hb]
    · simp [ha, hb]
    · simp [ha, hb]

theorem notify_kept_append4 (objs rest : List OV4) :
    ∀ (n : Nat) (nt ds : Bool), objs[n]? = some (OV4.notify false nt ds) →
      (objs ++ rest)[n]? = some (OV4.notify false nt ds) := by
  intro n nt ds hn
  have hlt : n < objs.length := (List.getElem?_eq_some_iff.1 hn).1
  rw [List.getElem?_append_left hlt]; exact hn

/-- `spawn`: a fresh, non-spurious, unnotified `Notify`; a new control record; a new entry -/
theorem RSp.spawn {ctl : List TCtl} {sp : List (Nat × Nat × Nat)} {objs : List OV4} (h : RSp ctl sp objs)
    (b : Nat) (c : TCtl) (hc : c.body = b) :
    RSp (ctl ++ [c]) ((b, ctl.length, objs.length) :: sp) (objs ++ [.notify false false false]) := by
  have h1 := (h.ctl (CtlLe.append ctl [c])).objs (notify_kept_append4 objs [.notify false false false])
  refine ⟨?_, ?_⟩
  · intro b' i n hmem
    rcases List.mem_cons.1 hmem with e | hmem
    · cases e
      refine ⟨by simp, by rw [getD_append_new]; exact hc, false, false, ?_, fun e => by cases e⟩
      simp
    · exact h1.sp b' i n hmem
  · intro e1 e2 h1' h2' e
    rcases List.mem_cons.1 h1' with a1 | a1 <;> rcases List.mem_cons.1 h2' with a2 | a2
    · rw [a1, a2]
    · exfalso
      obtain ⟨b2, i2, n2⟩ := e2
      obtain ⟨_, _, nt, ds, hv, _⟩ := h.sp b2 i2 n2 a2
      have := (List.getElem?_eq_some_iff.1 hv).1
      rw [a1] at e; simp only at e; omega
    · exfalso
      obtain ⟨b1, i1, n1⟩ := e1
      obtain ⟨_, _, nt, ds, hv, _⟩ := h.sp b1 i1 n1 a1
      have := (List.getElem?_eq_some_iff.1 hv).1
      rw [a2] at e; simp only at e; omega
    · exact h.spn e1 e2 a1 a2 e

/-- a new thread, without attributes -/
theorem GA.succ {p : Prog} {n : Nat} {ia : Nat → Option Nat} {av : Nat → Option (Nat × Bool × Nat)}
    {atoms : List Int} (h : GA p n ia av atoms) (hn : ia n = none) : GA p (n + 1) ia av atoms := by
  refine ⟨h.lenA, ?_⟩
  intro x hx
  obtain ⟨v, c, h0, hc, h2, h3, h4, h5⟩ := h.atom x hx
  rw [nInfl_succ ia x n hn]
  exact ⟨v, c, h0, hc, h2, h3, h4, h5⟩

theorem GW.succ {p : Prog} {n : Nat} {wa : Nat → Option Nat} {futs : List FutSt} {mv : Nat → Option (Option Nat)}
    (h : GW p n wa futs mv) : GW p (n + 1) wa futs mv := by
  refine ⟨?_⟩
  intro f hf
  obtain ⟨l, h1, h2⟩ := h.awFree f hf
  exact ⟨l, h1, fun t ht => ⟨by have := (h2 t ht).1; omega, (h2 t ht).2⟩⟩

theorem spawn_futs {w w' : World} {c : TCtl} {b : Nat} (h : w.runOp c (.spawn b) = .ok w') : w'.futs = w.futs := by
  rw [runOp_spawn] at h
  simp only [World.pushObj, bind, Except.bind, pure, Except.pure] at h
  split at h
  · cases h
  · cases h; rfl

theorem sim_spawn (hwf : WF4 w.prog) (hR : R4 w s) (hact : w.tid < w.ctl.length) {b : Nat}
    (hop : opAt w = some (.spawn b)) (hst : (w.ctlOf w.tid).stage = 0)
    (h : w.stepActive = .ok w') : Sim4 w s w' := by
  rw [stepActive_op hop] at h
  have hlen : w.ctl.length = w.exec.threads.threads.length := hR.lenCtl
  have hin : w.tid < w.exec.threads.threads.length := by rw [← hlen]; exact hact
  have hopc : opOfCtl w.prog (w.ctlOf w.tid) = some (.spawn b) := hop
  have hrel := rel4 hR hact
  obtain ⟨_, hb, hidle⟩ : 0 < b ∧ b < w.prog.threads.length ∧ ∀ i, i < w.ctl.length → (w.ctl.getD i {}).body ≠ b :=
    hR.x.spawn_fresh hwf hact hop
  have hne : (w.ctlOf w.tid).body ≠ b := hidle w.tid hact
  have hfu := spawn_futs h
  obtain ⟨w2, rfl, hp, ht, hev, hc, hsp, hobjs, hlen2⟩ := spawn_obs h
  have hfu2 : w2.futs = w.futs := hfu
  obtain ⟨_, _, hpl, _, _⟩ := act4 hR hact
  have hsy := sync4 hR hact (by rw [hop, hst]; rfl)
  obtain ⟨hrun1, hrun2⟩ := running4 hR hact hop
  -- the reference step
  obtain ⟨s', hstep, hdata⟩ := sc_step_spawn (b := b) hpl (hsy.1.trans hop)
  have hen : SC.enabled w.prog s (w.ctlOf w.tid).body = true :=
    sc_enabled_op hR.verdict hpl hrun1 hrun2 (hsy.1.trans hop) (hwf.opOk hop) rfl
  have hex : SCExec2 w.prog s s' := exec_step hen hstep
  refine ⟨hp, ⟨s', hex, ?_⟩, inRange_of (w' := w2.complete .unit) ht (by
    show _ ≤ w2.exec.threads.threads.length
    rw [hlen2]; omega) hin⟩
  have hdf : (data4 s').futs = (data4 s).futs := by rw [hdata]; rfl
  have hda : (data4 s').atoms = (data4 s).atoms := by rw [hdata]; rfl
  have hdt : (data4 s').ths = ((data4 s).ths.modify b fun h => { h with started := true }).modify
      (w.ctlOf w.tid).body (fun h => { h with rets := (h.pc, Ret.unit) :: h.rets, pc := h.pc + 1 }) := by
    rw [hdata]; rfl
  have hdv : (data4 s').verdict = none := by rw [hdata]; exact hR.verdict
  have r9 := hrel.2.2.2.2.2.2.2.2
  rw [hopc, hst] at r9
  have r9' : ((data4 s).ths.getD (w.ctlOf w.tid).body {}).pc = (w.ctlOf w.tid).pc ∧
      ((data4 s).ths.getD (w.ctlOf w.tid).body {}).rets = (w.ctlOf w.tid).results ∧
      ((data4 s).ths.getD (w.ctlOf w.tid).body {}).phase = 0 := r9
  -- the view of the new world
  have hv : view4 (w2.complete .unit) =
      { prog := w.prog, ctl := w.ctl.modify w.tid (completeF .unit) ++ [({ body := b } : TCtl)],
        spawned := (b, w.ctl.length, (view4 w).objs.length) :: w.spawned,
        nth := w.exec.threads.threads.length + 1, futs := w.futs,
        objs := (view4 w).objs ++ [.notify false false false] } := by
    rw [view4_complete]
    show ({ prog := w2.prog, ctl := w2.ctl.modify w2.tid _, spawned := w2.spawned,
            nth := w2.exec.threads.threads.length, futs := w2.futs, objs := w2.exec.objs.map ov4 } : View) = _
    rw [hp, hc, ht, hsp, hfu2, hobjs, hlen2, List.map_append, modify_append_left4 _ _ _ _ hact, hlen]
    simp [view4, ov4]
  -- the record of the spawning thread, and the control table
  have hrelF : ThRel4 w.prog (completeF .unit (w.ctlOf w.tid))
      ((fun h : DTh4 => { h with rets := (h.pc, Ret.unit) :: h.rets, pc := h.pc + 1 })
        ((data4 s).ths.getD (w.ctlOf w.tid).body {})) := by
    refine hrel.of rfl rfl rfl rfl rfl rfl rfl (stageOk_zero _) (by intro x _ h1; cases h1) ?_
    show match aheadOf _ 0 with | none => _ | some r => _
    rw [aheadOf_zero]
    show ((data4 s).ths.getD (w.ctlOf w.tid).body {}).pc + 1 = (w.ctlOf w.tid).pc + 1 ∧
      (((data4 s).ths.getD (w.ctlOf w.tid).body {}).pc, Ret.unit) :: ((data4 s).ths.getD (w.ctlOf w.tid).body {}).rets =
        ((w.ctlOf w.tid).pc, Ret.unit) :: (w.ctlOf w.tid).results ∧
      ((data4 s).ths.getD (w.ctlOf w.tid).body {}).phase = phaseOf _ 0
    rw [r9'.1, r9'.2.1, phaseOf_zero]
    exact ⟨rfl, rfl, r9'.2.2⟩
  have X1 : RX4 w.prog (w.ctl.modify w.tid (completeF .unit)) ((data4 s).ths.modify (w.ctlOf w.tid).body
      (fun h => { h with rets := (h.pc, Ret.unit) :: h.rets, pc := h.pc + 1 })) :=
    hR.x.modify hact (completeF .unit)
      (fun h => { h with rets := (h.pc, Ret.unit) :: h.rets, pc := h.pc + 1 }) rfl (Nat.le_succ _) hrelF
      (by intro hne'; exact absurd (fin_zero4 hR hact hop) hne')
  have hlenm : (w.ctl.modify w.tid (completeF .unit)).length = w.ctl.length := by simp
  have body_eq : ∀ i, ((w.ctl.modify w.tid (completeF .unit)).getD i {}).body = (w.ctl.getD i {}).body := by
    intro i
    by_cases hi : i = w.tid
    · subst hi; rw [getD_modify_self _ _ _ _ hact]; rfl
    · rw [getD_modify_ne _ _ _ _ _ hi]
  have X2 := X1.append hb
    (by intro i hi; rw [body_eq]; exact hidle i (by rw [hlenm] at hi; exact hi))
    ⟨w.tid, (w.ctlOf w.tid).pc, by rw [hlenm]; exact hact,
      by rw [getD_modify_self _ _ _ _ hact]; exact Nat.lt_succ_self _,
      by rw [body_eq]; exact hop⟩ (stageOk_zero _)
  -- the futures part for the old table
  have hattr : fattr w.prog (completeF .unit (w.ctlOf w.tid)) = fattr w.prog (w.ctlOf w.tid) := by
    obtain ⟨e1, e2, e3, e4⟩ := fattr_stage0 w.prog (completeF .unit (w.ctlOf w.tid)) rfl
    obtain ⟨d1, d2, d3, d4⟩ := fattr_stage0 w.prog (w.ctlOf w.tid) hst
    simp only [fattr, e1, e2, e3, e4, d1, d2, d3, d4]
  have hRF1 : RF w.prog (w.ctl.modify w.tid (completeF .unit)) w.futs (view4 w).objs (data4 s') :=
    (RF.sameAttrs hact _ hR.f hattr).congr_d hdf hda
  have hths : (data4 s').ths = ((data4 s).ths.modify (w.ctlOf w.tid).body
      (fun h => { h with rets := (h.pc, Ret.unit) :: h.rets, pc := h.pc + 1 })).modify b
      (fun h => { h with started := true }) := by
    rw [hdt, modify_comm4 _ _ _ _ _ (Ne.symm hne)]
  -- the new object
  have happ := view_append_notify (view4 w).objs false false false [] (by intro x hx; cases hx)
  have hk0 : nvOf (view4 w).objs (view4 w).objs.length = none := by
    unfold nvOf
    rw [List.getElem?_eq_none (Nat.le_refl _)]
  have hnvmono : ∀ k x, nvOf (view4 w).objs k = some x →
      upd (nvOf (view4 w).objs) (view4 w).objs.length (some (false, false, false)) k = some x := by
    intro k x hx
    have : k ≠ (view4 w).objs.length := by intro e; subst e; rw [hk0] at hx; cases hx
    rw [upd_ne _ _ this]; exact hx
  -- the new thread
  have hattrs := attrs_append w.prog (w.ctl.modify w.tid (completeF .unit)) ({ body := b } : TCtl) rfl
  have hdef : (w.ctl.modify w.tid (completeF .unit)).getD (w.ctl.modify w.tid (completeF .unit)).length {} =
      ({} : TCtl) := by
    unfold List.getD
    rw [List.getElem?_eq_none (Nat.le_refl _)]; rfl
  obtain ⟨d1, d2, d3, d4⟩ := fattr_stage0 w.prog ({} : TCtl) rfl
  unfold R4
  rw [hv]
  refine ⟨?_, hdv, ?_, ?_, ?_, ?_, ?_, ?_⟩
  · show (w.ctl.modify w.tid (completeF .unit) ++ [({ body := b } : TCtl)]).length =
      w.exec.threads.threads.length + 1
    rw [List.length_append, hlenm, hlen]; rfl
  · show RX4 w.prog (w.ctl.modify w.tid (completeF .unit) ++ [({ body := b } : TCtl)]) (data4 s').ths
    rw [hths]; exact X2
  · have hsp1 : RSp (w.ctl.modify w.tid (completeF .unit)) w.spawned (view4 w).objs :=
      hR.sp.ctl (CtlLe.modify _ w.tid (completeF .unit) rfl id)
    have := hsp1.spawn b ({ body := b } : TCtl) rfl
    rw [hlenm] at this
    exact this
  · show GS w.prog w.futs (nvOf ((view4 w).objs ++ [.notify false false false])) (data4 s').futs
    rw [happ.1]
    exact hRF1.s.nv (fun k nt ds hk => ⟨nt, ds, hnvmono _ _ hk⟩)
  · show GC w.prog (w.ctl.modify w.tid (completeF .unit) ++ [({ body := b } : TCtl)]).length
      (paOf w.prog (w.ctl.modify w.tid (completeF .unit) ++ [({ body := b } : TCtl)]))
      (caOf w.prog (w.ctl.modify w.tid (completeF .unit) ++ [({ body := b } : TCtl)])) w.futs
      (nvOf ((view4 w).objs ++ [.notify false false false])) (data4 s').futs
    rw [hattrs.2.1, hattrs.2.2.1, happ.1, List.length_append]
    exact (hRF1.c.nvMono hnvmono).succ (by show pendN w.prog _ = none; rw [hdef]; exact d2)
      (by show callOf w.prog _ = none; rw [hdef]; exact d3)
  · show GA w.prog (w.ctl.modify w.tid (completeF .unit) ++ [({ body := b } : TCtl)]).length
      (iaOf w.prog (w.ctl.modify w.tid (completeF .unit) ++ [({ body := b } : TCtl)]))
      (avOf ((view4 w).objs ++ [.notify false false false])) (data4 s').atoms
    rw [hattrs.1, happ.2.2, List.length_append]
    exact hRF1.a.succ (by show inflS w.prog _ = none; rw [hdef]; exact d1)
  · show GW w.prog (w.ctl.modify w.tid (completeF .unit) ++ [({ body := b } : TCtl)]).length
      (waOf w.prog (w.ctl.modify w.tid (completeF .unit) ++ [({ body := b } : TCtl)])) w.futs
      (mvOf ((view4 w).objs ++ [.notify false false false]))
    rw [hattrs.2.2.2, happ.2.1, List.length_append]
    exact hRF1.w.succ

end

end Refine4
end LoomVerif

/-
Deadlock soundness, WAIT fragment, part 15: **a stage of a fragment operation (or of the epilogue) that panics with
"deadlock" does so at a scheduling point, in a deadlocked reference state** — the state the world is related to,
or, when the panic comes from the `rt::block` at the end of the first half of `cvWait`, its successor by that first
half (a step that records nothing).
-/
import LoomVerif.Proofs.Deadlock2Err

namespace LoomVerif
namespace Deadlock2
open Refine Refine2 Sy Deadlock C07 C08

/-- `enabled` only reads the thread's own record, the `finished` flags, the `Notify` flags, the channels and the
mutex the thread waits for -/
theorem enabled_frame {p : Prog} {s s' : SCData2} {t : Nat} (hth : s'.th t = s.th t)
    (hfin : ∀ b, (s'.th b).finished = (s.th b).finished) (hn : s'.nFlag = s.nFlag) (hc : s'.chan = s.chan)
    (hm : ∀ m, (SCData2.opOf p s t = some (.lock m) ∨ (s.th t).cvNotified = some m) →
      s'.mutex.getD m none = s.mutex.getD m none) :
    SCData2.enabled p s' t = SCData2.enabled p s t := by
  have hop : SCData2.opOf p s' t = SCData2.opOf p s t := by unfold SCData2.opOf; rw [hth]
  unfold SCData2.enabled
  rw [hop, hth]
  cases hw : (s.th t).cvWaiting with
  | some x => rfl
  | none =>
    cases hnn : (s.th t).cvNotified with
    | some m =>
      simp only
      rw [hm m (.inr hnn)]
    | none =>
      simp only
      cases ho : SCData2.opOf p s t with
      | none => rfl
      | some op =>
        cases op <;> simp only <;> try rfl
        case lock m => rw [hm m (.inl ho)]
        case join b => rw [hfin b]
        case nWait n => rw [hn]
        case recv q => rw [hc]

theorem branchSpurious_notDL {p : Path} {pk : Bool} {e : Panic} (h : p.branchSpurious pk = .error e) :
    e ≠ .deadlock := by
  unfold Path.branchSpurious at h
  by_cases ht : p.isTraversed = true
  · simp only [ht, if_true, bind, Except.bind, pure, Except.pure] at h
    split at h
    · next e' he =>
      cases h
      unfold Path.assertLen at he
      split at he <;> cases he
      simp
    · split at h
      · cases h
      · cases h; simp
  · simp only [ht, if_false, bind, Except.bind, pure, Except.pure, Bool.false_eq_true] at h
    split at h
    · cases h
    · cases h; simp

theorem point_error {w : World} {F : Thread → Thread} {e : Panic}
    (h : (schedOn w F >>= fun x => (pure { w with exec := x.1 } : Except Panic World)) = .error e) :
    schedOn w F = .error e := bind_pure_error h

section
variable {w : World} {s : SCData2}

/-- the conclusion of the one-stage theorem: a deadlocked reference state, reached from `s` by no step or by a step
of the active thread's body that records nothing -/
def DeadAt (w : World) (s : SCData2) : Prop :=
  ∃ s', (s' = s ∨ (SCData2.enabled w.prog s (w.ctlOf w.tid).body = true ∧
      (none, s') ∈ SCData2.stepL w.prog s (w.ctlOf w.tid).body)) ∧ Dead2 w.prog s'

theorem DeadAt.here (h : Dead2 w.prog s) : DeadAt w s := ⟨s, .inl rfl, h⟩

/-- a branch point that panics with "deadlock" -/
theorem dead_branch (hwf : WFD w.prog) (hRB : RB2 w s) (hact : w.tid < w.ctl.length) {wb : World}
    (hth : wb.exec.threads = w.exec.threads) (hpath : ReplayOK wb.exec.path) {o : Nat} {a : Action} {blk wt : Bool}
    (h : wb.branch o a blk wt = .error .deadlock)
    (hF : blk = true → (w.ths.get w.tid).state ≠ .blocked →
      SCData2.enabled w.prog s (w.ctlOf w.tid).body = false ∧
        (s.th (w.ctlOf w.tid).body).started = true ∧ (s.th (w.ctlOf w.tid).body).finished = false) :
    DeadAt w s := by
  rw [branch_point] at h
  refine DeadAt.here (dead_of_schedOn2 hwf hRB hact hth hpath (point_error h) (fun _ _ hne => ?_))
  rw [branchF_state] at hne
  cases blk with
  | false => exact absurd rfl hne
  | true =>
    obtain ⟨h1, h2, h3⟩ := hF rfl (fun e => hne (by rw [e]; rfl))
    exact ⟨h1, fun _ => ⟨h2, h3⟩⟩

/-- **the `rt::block` at the end of the first half of `cvWait` panics with "deadlock"**: the reference state
reached by that first half (the mutex released, the thread queued on the condvar) is deadlocked -/
theorem dead_cvWait (hwf : WFD w.prog) (hRB : RB2 w s) (hactive : w.ths.isActive = true)
    (hact : w.tid < w.ctl.length) {vi mi : Nat} (hm : mi < w.prog.cfg.nMutexes)
    (hop : opAt2 w = some (.cvWait vi mi)) (hs1 : (w.ctlOf w.tid).stage = 1) {cs : CondvarSt}
    (hobj : w.exec.objs[w.cvObj vi]? = some (.condvar cs)) {w2 : World}
    (hrl : (w.setObj (w.cvObj vi) (.condvar { cs with waiters := cs.waiters ++ [w.tid] })).releaseLock
      (w.mutexObj mi) = .ok w2)
    (hb : schedOn w2 blockF = .error .deadlock) : DeadAt w s := by
  have hR := hRB.r.c
  have hop' : opOfCtl w.prog (w.ctlOf w.tid) = some (.cvWait vi mi) := hop
  obtain ⟨ms, hmobj⟩ := mutex_obj hR hm
  have hview : objView2 w.exec.objs (w.cvObj vi) = some (.condvar cs.waiters) := objView2_of hobj
  have hmview : objView2 w.exec.objs (mutexIdx w.prog mi) = some (.mutex ms.lock) := objView2_of hmobj
  have hne : w.mutexObj mi ≠ w.cvObj vi := by
    intro e
    have : objView2 w.exec.objs (w.mutexObj mi) = some (.mutex ms.lock) := hmview
    rw [e, hview] at this; cases this
  let wA : World := w.setObj (w.cvObj vi) (.condvar { cs with waiters := cs.waiters ++ [w.tid] })
  have hmobjA : wA.exec.objs[w.mutexObj mi]? = some (.mutex ms) := by
    show (w.exec.objs.set (w.cvObj vi) _)[w.mutexObj mi]? = _
    rw [getElem?_set_ne' _ _ _ _ hne]; exact hmobj
  obtain ⟨hc1, ht1, hp1, hs1', hpath1, _, _, hself1, hlen1, hths1⟩ := release_desc hmobjA hactive hrl
  have hin : w.tid < w.exec.threads.threads.length := by rw [← hR.lenCtl]; exact hact
  have htid2 : w2.tid = w.tid := ht1
  obtain ⟨hno, i0, hi0, hnt⟩ := schedOn_deadlock2 hb (by rw [hpath1]; exact hRB.path)
    (by rw [htid2, hlen1]; exact hin)
  -- the reference state after the first half
  have hpcv : pendCv w.prog (w.ctlOf w.tid) = none := pendCv_lt (by rw [hs1]; decide)
  obtain ⟨c1, c2⟩ := cv_none_of hR hact hpcv
  obtain ⟨a1, a2⟩ := alive_of_op2 hR hact hop'
  have hen : SCData2.enabled w.prog s (w.ctlOf w.tid).body = true := by
    rw [enabled_plain_eq hR hact hop' hpcv]; rfl
  have hopb := opOf_body2 hR hact
  have hbl0 : (w.ctlOf w.tid).body < s.ths.length := by rw [hR.x.len]; exact (hR.x.thr w.tid hact).1
  have hbinj : ∀ i, i < w.ctl.length → i ≠ w.tid → (w.ctlOf i).body ≠ (w.ctlOf w.tid).body :=
    fun i hi e eb => e (hR.x.inj i w.tid hi hact eb)
  have hx0 := hR.x
  unfold DeadAt
  obtain ⟨b, hb0⟩ : ∃ b, b = (w.ctlOf w.tid).body := ⟨_, rfl⟩
  have hb0' : (w.ctl.getD w.tid {}).body = b := hb0.symm
  rw [← hb0] at c1 c2 a1 a2 hen hopb hbl0 hbinj ⊢
  let s0 : SCData2 :=
    { s with mutex := s.mutex.set mi none, cvQueue := s.cvQueue.set vi (s.cvQueue.getD vi [] ++ [b]) }
  let s' : SCData2 := s0.modTh b fun h => { h with cvWaiting := some (vi, mi) }
  have hbl : b < s.ths.length := hbl0
  have hstep : (none, s') ∈ SCData2.stepL w.prog s b := by
    unfold SCData2.stepL
    simp only [c2, hopb, hop']
    exact List.mem_singleton.2 rfl
  have hthb : s'.th b = { s.th b with cvWaiting := some (vi, mi) } := by
    show (SCData2.modTh _ b _).th b = _
    rw [SCData2.th_modTh, if_pos ⟨rfl, hbl⟩]; rfl
  have hthne : ∀ t, t ≠ b → s'.th t = s.th t := by
    intro t e
    show (SCData2.modTh _ b _).th t = _
    rw [SCData2.th_modTh, if_neg (fun hh => e hh.1.symm)]; rfl
  have hfin : ∀ t, (s'.th t).finished = (s.th t).finished := by
    intro t
    by_cases e : t = b
    · rw [e, hthb]
    · rw [hthne t e]
  have hx' : RX2 w.prog w.ctl s'.ths := by
    have := hx0.modRef hact (fun h => { h with cvWaiting := some (vi, mi) }) (fun x => ⟨rfl, rfl, rfl, rfl⟩)
    rw [hb0'] at this
    exact this
  refine ⟨s', .inr ⟨hen, hstep⟩, none_enabled2 hx' rfl (fun i hi => ?_), b, by rw [hthb]; exact a1,
    by rw [hfin]; exact a2⟩
  by_cases e : i = w.tid
  · subst e
    rw [hb0']
    unfold SCData2.enabled
    rw [hthb]; simp
  · have hbne : (w.ctlOf i).body ≠ b := hbinj i hi e
    have hil : i < w.exec.threads.threads.length := by rw [← hR.lenCtl]; exact hi
    have hE : entryOn w2 blockF i = w2.ths.get i := by unfold entryOn; rw [htid2, if_neg e]
    obtain ⟨hnr, hny⟩ := hno i (by rw [hlen1]; exact hil)
    rw [hE] at hnr hny
    -- the entry of thread `i` in `w`: not woken
    have hcase := hths1 i hil e
    have hsame : (w2.ths.get i).state = (w.ths.get i).state ∧
        ((w.ths.get i).state = .blocked → ¬ ∃ op, (w.ths.get i).operation = some op ∧ op.obj = w.mutexObj mi) := by
      rcases hcase with ⟨hno', heq⟩ | ⟨hyes, v, heq⟩
      · exact ⟨by rw [heq]; rfl, fun _ => hno'⟩
      · by_cases hbk : (w.ths.get i).state = .blocked
        · exfalso
          have hbk' : (({ wA.ths.get i with causality := v } : Thread)).state = .blocked := hbk
          have h2 := congrArg Thread.state heq
          rw [wake_state, if_pos hbk'] at h2
          exact hnr h2
        · have hbk' : (wA.ths.get i).state ≠ .blocked := hbk
          exact ⟨by rw [heq]; exact (wake_same hbk' v).st, fun hb' => absurd hb' hbk⟩
    rw [hsame.1] at hnr hny
    show SCData2.enabled w.prog s' (w.ctlOf i).body = false
    rw [enabled_frame (s := s) (s' := s') (hthne _ hbne) hfin rfl rfl ?_]
    · exact (stuck_disabled2 hwf hRB hi hnr hny).1
    · -- the mutex the thread waits for is not the one released
      intro m hmm
      show (s.mutex.set mi none).getD m none = s.mutex.getD m none
      by_cases em : m = mi
      · exfalso
        subst em
        cases hst : (w.ths.get i).state with
        | runnable => exact hnr hst
        | yield => exact hny hst
        | terminated =>
          have h99 := (hRB.j.thr i hi).term hst
          have hnone : opOfCtl w.prog (w.ctlOf i) = none := hR.x.epi i hi (by
            show (w.ctlOf i).fin ≠ 0
            omega)
          rcases hmm with h1 | h1
          · rw [opOf_body2 hR hi, hnone] at h1; cases h1
          · have := (cv_none_of hR hi (pend_none hnone).2.1).2
            rw [this] at h1; cases h1
        | blocked =>
          have hnot := hsame.2 hst
          cases (hRB.j.thr i hi).blk hst with
          | lock m' l a b' x d =>
            rcases hmm with h1 | h1
            · rw [opOf_body2 hR hi, a] at h1
              cases h1
              exact hnot ⟨_, x, rfl⟩
            · have := (cv_none_of hR hi (pendCv_of_op a (by intro v m e; cases e))).2
              rw [this] at h1; cases h1
          | cvRe v' m' l a b' x d =>
            rcases hmm with h1 | h1
            · rw [opOf_body2 hR hi, a] at h1; cases h1
            · have hok := hwf.1.opOk (show (w.prog.threads.getD (w.ctlOf i).body [])[(w.ctlOf i).pc]? = _ from a)
              simp only [Refine2.opOk, Bool.and_eq_true, decide_eq_true_eq] at hok
              obtain ⟨ws, hws, _⟩ := hR.o.cv.q v' hok.1
              have hp : pendCv w.prog (w.ctlOf i) = some (v', m') := pendCv_at a (by omega)
              obtain ⟨ha, hb'⟩ := (hR.o.cv.th i hi).2 v' m' ws hp hok.1 hws
              by_cases hmem : i ∈ ws
              · have := (ha hmem).2
                have h1' : (s.ths.getD (w.ctl.getD i {}).body {}).cvNotified = some m := h1
                rw [this] at h1'; cases h1'
              · have := (hb' hmem).2
                have h1' : (s.ths.getD (w.ctl.getD i {}).body {}).cvNotified = some m := h1
                rw [this] at h1'
                cases h1'
                exact hnot ⟨_, x, rfl⟩
          | recv q bl qu a b' x d =>
            rcases hmm with h1 | h1
            · rw [opOf_body2 hR hi, a] at h1; cases h1
            · have := (cv_none_of hR hi (pendCv_of_op a (by intro v m e; cases e))).2
              rw [this] at h1; cases h1
          | nWait n bl a' d' a b' x d =>
            rcases hmm with h1 | h1
            · rw [opOf_body2 hR hi, a] at h1; cases h1
            · have := (cv_none_of hR hi (pendCv_of_op a (by intro v m e; cases e))).2
              rw [this] at h1; cases h1
          | join b0 t n bl a' d' a b' m0 x d =>
            rcases hmm with h1 | h1
            · rw [opOf_body2 hR hi, a] at h1; cases h1
            · have := (cv_none_of hR hi (pendCv_of_op a (by intro v m e; cases e))).2
              rw [this] at h1; cases h1
          | park a b' x y z =>
            rcases hmm with h1 | h1
            · rw [opOf_body2 hR hi, a] at h1; cases h1
            · have := (cv_none_of hR hi (pendCv_of_op a (by intro v m e; cases e))).2
              rw [this] at h1; cases h1
          | cvQ v' m' ws a b' x y d e' =>
            rcases hmm with h1 | h1
            · rw [opOf_body2 hR hi, a] at h1; cases h1
            · have hok := hwf.1.opOk (show (w.prog.threads.getD (w.ctlOf i).body [])[(w.ctlOf i).pc]? = _ from a)
              simp only [Refine2.opOk, Bool.and_eq_true, decide_eq_true_eq] at hok
              have hp : pendCv w.prog (w.ctlOf i) = some (v', m') := pendCv_at a (by omega)
              have := (((hR.o.cv.th i hi).2 v' m' ws hp hok.1 d).1 e').2
              have h1' : (s.ths.getD (w.ctl.getD i {}).body {}).cvNotified = some m := h1
              rw [this] at h1'; cases h1'
      · simp [List.getD, Ne.symm em]

end

end Deadlock2
end LoomVerif

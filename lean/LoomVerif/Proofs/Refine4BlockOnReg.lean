/-
Refinement, FUTURES fragment: the simulation for the REGISTRATION stages of `blockOn f mode`: 12, 30, 13 (the waker
slot, mode 0) and 20, 21, 25 (the `AtomicWaker`, modes 1, 3, 4).  The reference step (phase 2 → 3, `regF`) is taken at
the stage that registers the waker under the mutex (30 / 21).
-/
import LoomVerif.Proofs.Refine4BlockOn0

set_option linter.unusedSimpArgs false
set_option linter.unusedVariables false

namespace LoomVerif
namespace Refine4
open Refine Sy Refine2 C20

section
variable {w w' : World} {s : SC.St}

/-- the `stageOk` clause of the active thread, for a `blockOn` -/
theorem bo_stageOk (hR : R4 w s) (hact : w.tid < w.ctl.length) {f mode : Nat}
    (hop : opAt w = some (.blockOn f mode)) : boStageOk mode (w.ctlOf w.tid).stage = true := by
  have := (rel4 hR hact).2.2.2.2.2.2.1
  rw [opOfCtl_active, hop] at this
  exact this

/-- stage 12: clone the waker, branch point of the slot mutex's lock: a stutter -/
theorem sim_blockOn12 (hwf : WF4 w.prog) (hR : R4 w s) (hact : w.tid < w.ctl.length) {f mode : Nat}
    (hop : opAt w = some (.blockOn f mode)) (hst : (w.ctlOf w.tid).stage = 12)
    (h : w.stepActive = .ok w') : Sim4 w s w' := by
  rw [stepActive_op hop] at h
  have h' : w.blockOnStage (w.ctlOf w.tid) f mode = .ok w' := by
    simp only [World.runOp] at h; exact h
  rw [blockOn_stage12 w _ f mode hst] at h'
  clear h
  obtain ⟨w1, h1, h2⟩ := Refine.bind_ok h'
  obtain ⟨m, h3, h4⟩ := Refine.bind_ok h2
  clear h' h2
  obtain ⟨hk1, hv1⟩ := wakerClone_view h1
  have hs := branch_sched h4
  have hm0 := bo_stageOk hR hact hop
  rw [hst] at hm0
  refine ⟨hs.fr.1.trans hk1.1.1, ⟨s, .nil s, ?_⟩, hs.inRange⟩
  have hv : view4 w' = { view4 w with ctl := w.ctl.modify w.tid (fun c => { c with stage := 30 }) } := by
    rw [hs.view, view4_setStage, hv1, hk1.1.2.1, hk1.2.1]
  have hopc : opOfCtl w.prog (w.ctlOf w.tid) = some (.blockOn f mode) := hop
  have hopc' : opOfCtl w.prog { w.ctlOf w.tid with stage := 30 } = some (.blockOn f mode) := hop
  refine R4_quiet hR hact _ hv rfl rfl rfl rfl rfl rfl ?_ ?_ ?_ ?_ ?_
  · rw [hop]; exact hm0
  · rw [hop, hst]; rfl
  · rw [hop, hst]; rfl
  · simp only [fattr, inflS, pendN, callOf, aw25, hopc, hopc', hst]
    rfl
  · intro x hx; rw [hop] at hx; cases hx

/-- stage 20: clone the waker, branch point of the `AtomicWaker`'s try-lock: a stutter -/
theorem sim_blockOn20 (hwf : WF4 w.prog) (hR : R4 w s) (hact : w.tid < w.ctl.length) {f mode : Nat}
    (hop : opAt w = some (.blockOn f mode)) (hst : (w.ctlOf w.tid).stage = 20)
    (h : w.stepActive = .ok w') : Sim4 w s w' := by
  rw [stepActive_op hop] at h
  have h' : w.blockOnStage (w.ctlOf w.tid) f mode = .ok w' := by
    simp only [World.runOp] at h; exact h
  rw [blockOn_stage20 w _ f mode hst] at h'
  clear h
  obtain ⟨w1, h1, h4⟩ := Refine.bind_ok h'
  clear h'
  obtain ⟨hk1, hv1⟩ := wakerClone_view h1
  have hs := branch_sched h4
  have hm0 := bo_stageOk hR hact hop
  rw [hst] at hm0
  refine ⟨hs.fr.1.trans hk1.1.1, ⟨s, .nil s, ?_⟩, hs.inRange⟩
  have hv : view4 w' = { view4 w with ctl := w.ctl.modify w.tid (fun c => { c with stage := 21 }) } := by
    rw [hs.view, view4_setStage, hv1, hk1.1.2.1, hk1.2.1]
  have hopc : opOfCtl w.prog (w.ctlOf w.tid) = some (.blockOn f mode) := hop
  have hopc' : opOfCtl w.prog { w.ctlOf w.tid with stage := 21 } = some (.blockOn f mode) := hop
  refine R4_quiet hR hact _ hv rfl rfl rfl rfl rfl rfl ?_ ?_ ?_ ?_ ?_
  · rw [hop]; exact hm0
  · rw [hop, hst]; rfl
  · rw [hop, hst]; rfl
  · simp only [fattr, inflS, pendN, callOf, aw25, hopc, hopc', hst]
    rfl
  · intro x hx; rw [hop] at hx; cases hx

/-- stage 13: the replaced clone is dropped, the slot's mutex released: a stutter of the reference -/
theorem sim_blockOn13 (hwf : WF4 w.prog) (hR : R4 w s) (hact : w.tid < w.ctl.length) {f mode : Nat}
    (hop : opAt w = some (.blockOn f mode)) (hst : (w.ctlOf w.tid).stage = 13)
    (h : w.stepActive = .ok w') : Sim4 w s w' := by
  rw [stepActive_op hop] at h
  have h' : w.blockOnStage (w.ctlOf w.tid) f mode = .ok w' := by
    simp only [World.runOp] at h; exact h
  rw [blockOn_stage13 w _ f mode hst] at h'
  clear h
  obtain ⟨w1, h1, h2⟩ := Refine.bind_ok h'
  obtain ⟨w2, h3, h4⟩ := Refine.bind_ok h2
  clear h' h2
  simp only [pure, Except.pure] at h4
  cases h4
  obtain ⟨hf, hfa⟩ := fut_lt hwf hop rfl
  have hm0 := bo_stageOk hR hact hop
  rw [hst] at hm0
  have hmode : mode = 0 := by simpa [boStageOk] using hm0
  subst hmode
  obtain ⟨hk1, hv1⟩ := wakerDrop_view h1
  obtain ⟨l, hvo, hk2, hv2⟩ := releaseLock_view h3
  rw [hv1] at hvo hv2
  have hlen : w.ctl.length = w.exec.threads.threads.length := hR.lenCtl
  have htid2 : w2.tid = w.tid := hk2.2.1.trans hk1.2.1
  refine ⟨hk2.1.1.trans hk1.1.1, ⟨s, .nil s, ?_⟩,
    inRange_of (w := w) htid2 (Nat.le_of_eq (hk2.2.2.trans hk1.2.2).symm) (by rw [← hlen]; exact hact)⟩
  have hv : view4 (w2.setStage 14) = { view4 w with
      ctl := w.ctl.modify w.tid (fun c => { c with stage := 14 }),
      objs := (view4 w).objs.set (w.futs.getD f {}).slotMutex (.mutex none) } := by
    rw [view4_setStage, hv2, hk2.1.2.1, hk1.1.2.1, htid2]
  have hopc : opOfCtl w.prog (w.ctlOf w.tid) = some (.blockOn f 0) := hop
  have hopc' : opOfCtl w.prog { w.ctlOf w.tid with stage := 14 } = some (.blockOn f 0) := hop
  have hrel := rel4 hR hact
  have hset := view_set_mutex (l' := none) hvo
  have hmx : (w.futs.getD f {}).slotMutex = mbase w.prog + 2 * f := (hR.f.s.mtx f hf).1
  unfold R4
  refine R4_step hR hact (fun c => { c with stage := 14 }) id (view4 w).futs _ hv
    (by rw [modify_id' _ _ id (fun _ => rfl)]) hR.verdict rfl (Nat.le_refl _) ?_ ?_ id
    (notify_kept_set _ hvo (by intro nt ds e; cases e)) ?_
  · refine hrel.of rfl rfl rfl rfl rfl rfl rfl (by rw [hopc']; rfl) (by rw [hopc']; intro x hx; cases hx) ?_
    have r9 := hrel.2.2.2.2.2.2.2.2
    rw [hopc, hst] at r9
    rw [hopc']
    exact r9
  · intro hne
    exact absurd (fin_zero4 hR hact hop) hne
  · refine RF.ofGroups' (x1 := inflS w.prog (w.ctlOf w.tid)) (x2 := pendN w.prog (w.ctlOf w.tid))
      (x3 := callOf w.prog (w.ctlOf w.tid)) (x4 := aw25 w.prog (w.ctlOf w.tid)) hact _
      (by show inflS w.prog { w.ctlOf w.tid with stage := 14 } = _; simp only [inflS, hopc', hopc, hst])
      (by show pendN w.prog { w.ctlOf w.tid with stage := 14 } = _; simp only [pendN, hopc', hopc, hst])
      (by show callOf w.prog { w.ctlOf w.tid with stage := 14 } = _; simp only [callOf, hopc', hopc, hst]; rfl)
      (by show aw25 w.prog { w.ctlOf w.tid with stage := 14 } = _; simp only [aw25, hopc', hopc, hst]) ?_ ?_ ?_ ?_
    · rw [hset.2.1]; exact hR.f.s
    · rw [hset.2.1]; exact hR.f.c.same rfl rfl
    · rw [hset.2.2]; exact hR.f.a.same rfl
    · rw [hset.1, hmx]; exact (hR.f.w.same rfl).other _

/-- stage 30: the waker is registered in the slot under the slot's mutex: THE REFERENCE STEP, phase 2 → 3 -/
theorem sim_blockOn30 (hwf : WF4 w.prog) (hR : R4 w s) (hact : w.tid < w.ctl.length) {f mode : Nat}
    (hop : opAt w = some (.blockOn f mode)) (hst : (w.ctlOf w.tid).stage = 30)
    (h : w.stepActive = .ok w') : Sim4 w s w' := by
  rw [stepActive_op hop] at h
  have h' : w.blockOnStage (w.ctlOf w.tid) f mode = .ok w' := by
    simp only [World.runOp] at h; exact h
  rw [blockOn_stage30 w _ f mode hst] at h'
  clear h
  obtain ⟨⟨w1, okk⟩, h1, h2⟩ := Refine.bind_ok h'
  clear h'
  have hm0 := bo_stageOk hR hact hop
  rw [hst] at hm0
  have hmode : mode = 0 := by simpa [boStageOk] using hm0
  subst hmode
  obtain ⟨hf, hfa⟩ := fut_lt hwf hop rfl
  have hnoaw := noAw hwf hR hop rfl (by decide)
  -- the lock
  obtain ⟨l, hvo, hokk, hk1, _, hv1⟩ := postAcquire_view h1
  cases okk with
  | false => simp [bind, Except.bind, throw, throwThe, MonadExceptOf.throw] at h2
  | true =>
  simp only [Bool.not_true, Bool.false_eq_true, if_false, if_true, bind, Except.bind, pure, Except.pure] at h2
  have hl : l = none := by cases l <;> simp at hokk ⊢
  subst hl
  have hv1' := hv1 rfl
  have hctl1 : w1.ctl = w.ctl := hk1.1.2.1
  have htid1 : w1.tid = w.tid := hk1.2.1
  have hfuts1 : w1.futs = w.futs := hk1.1.2.2.2.1
  rw [hfuts1] at h2
  have hlen : w.ctl.length = w.exec.threads.threads.length := hR.lenCtl
  have hopc : opOfCtl w.prog (w.ctlOf w.tid) = some (.blockOn f 0) := hop
  have hrel := rel4 hR hact
  obtain ⟨_, _, hpl, _, _⟩ := act4 hR hact
  have hsy := sync4 hR hact (by rw [hop, hst]; rfl)
  obtain ⟨hrun1, hrun2⟩ := running4 hR hact hop
  have hph : (s.th (w.ctlOf w.tid).body).phase = 2 := by rw [hsy.2.2.2, hop, hst]; rfl
  -- the reference step: phase 2 → 3
  obtain ⟨s', hstep, hdata⟩ := sc_step_bo2 (f := f) (mode := 0) hpl (hsy.1.trans hop) hph
  have hen : SC.enabled w.prog s (w.ctlOf w.tid).body = true :=
    sc_enabled_op hR.verdict hpl hrun1 hrun2 (hsy.1.trans hop) (hwf.opOk hop) (by
      show ((s.th _).phase != 4 || _) = true
      rw [hph]; rfl)
  have hex : SCExec2 w.prog s s' := exec_step hen hstep
  have hdf : (data4 s').futs = (data4 s).futs.modify f regF := by rw [hdata]; rfl
  have hda : (data4 s').atoms = (data4 s).atoms := by rw [hdata]; rfl
  have hdt : (data4 s').ths = (data4 s).ths.modify (w.ctlOf w.tid).body (fun h => { h with phase := 3 }) := by
    rw [hdata]; rfl
  have hdv : (data4 s').verdict = none := by rw [hdata]; exact hR.verdict
  have r9 := hrel.2.2.2.2.2.2.2.2
  rw [hopc, hst] at r9
  have r9' : ((data4 s).ths.getD (w.ctlOf w.tid).body {}).pc = (w.ctlOf w.tid).pc ∧
      ((data4 s).ths.getD (w.ctlOf w.tid).body {}).rets = (w.ctlOf w.tid).results ∧
      ((data4 s).ths.getD (w.ctlOf w.tid).body {}).phase = 2 := r9
  have hca : caOf w.prog w.ctl w.tid = some (f, 0, false) := by
    show callOf w.prog (w.ctlOf w.tid) = _
    simp only [callOf, hopc, hst]; rfl
  have hmx : (w.futs.getD f {}).slotMutex = mbase w.prog + 2 * f := (hR.f.s.mtx f hf).1
  -- the registration
  have hGS : GS w.prog (w.futs.modify f fun s => { s with slot := true }) (nvOf (view4 w).objs)
      ((data4 s).futs.modify f regF) := by
    refine hR.f.s.step hf _ regF ⟨rfl, rfl⟩ rfl
      (fun _ => ⟨(w.ctlOf w.tid).body, (w.ctlOf w.tid).pc, .blockOn f 0, hop, rfl⟩) ?_ (Nat.le_refl _)
      (fun _ => rfl) ?_ (fun k nt ds hk => ⟨nt, ds, hk⟩)
    · intro e
      have e' : (w.futs.getD f {}).awWaker = true := e
      rw [hnoaw] at e'; cases e'
    · intro e
      have e' : (w.futs.getD f {}).awWaker = true := e
      rw [hnoaw] at e'; cases e'
  have hGC : GC w.prog w.ctl.length (paOf w.prog w.ctl) (caOf w.prog w.ctl)
      (w.futs.modify f fun s => { s with slot := true }) (nvOf (view4 w).objs) ((data4 s).futs.modify f regF) := by
    refine hR.f.c.futStep hf hR.f.s.lenF hR.f.s.lenDF _ regF rfl ⟨rfl, rfl, rfl⟩
      (fun _ => ⟨w.tid, 0, false, hact, hca⟩) ?_
    intro e
    have e' : (w.futs.getD f {}).awWaker = true := e
    rw [hnoaw] at e'; cases e'
  cases hhad : (w.futs.getD f {}).slot with
  | true =>
    -- a waker was in the slot: it is dropped at stage 13, WITH THE MUTEX HELD
    rw [hhad] at h2
    simp only [if_true] at h2
    have hs := branch_sched h2
    refine ⟨hs.fr.1.trans hk1.1.1, ⟨s', hex, ?_⟩, hs.inRange⟩
    have hv : view4 w' = { view4 w with
        ctl := w.ctl.modify w.tid (fun c => { c with stage := 13 }),
        futs := w.futs.modify f (fun s => { s with slot := true }),
        objs := (view4 w).objs.set (w.futs.getD f {}).slotMutex (.mutex (some w.tid)) } := by
      rw [hs.view, view4_setStage, view4_modFut, hv1']
      show ({ view4 w with
        ctl := w1.ctl.modify w1.tid _, futs := w1.futs.modify f _, objs := _ } : View) = _
      rw [hctl1, htid1, hfuts1]
    have hopc' : opOfCtl w.prog { w.ctlOf w.tid with stage := 13 } = some (.blockOn f 0) := hop
    have hset := view_set_mutex (l' := some w.tid) hvo
    unfold R4
    refine R4_step hR hact _ (fun h => { h with phase := 3 }) _ _ hv hdt hdv rfl (Nat.le_refl _) ?_ ?_ id
      (notify_kept_set _ hvo (by intro nt ds e; cases e)) ?_
    · refine hrel.of rfl rfl rfl rfl rfl rfl rfl (by rw [hopc']; rfl) (by rw [hopc']; intro x hx; cases hx) ?_
      rw [hopc']
      exact ⟨r9'.1, r9'.2.1, rfl⟩
    · intro hne
      exact absurd (fin_zero4 hR hact hop) hne
    · refine RF.ofGroups' (x1 := inflS w.prog (w.ctlOf w.tid)) (x2 := pendN w.prog (w.ctlOf w.tid))
        (x3 := callOf w.prog (w.ctlOf w.tid)) (x4 := aw25 w.prog (w.ctlOf w.tid)) hact _
        (by show inflS w.prog { w.ctlOf w.tid with stage := 13 } = _; simp only [inflS, hopc', hopc, hst])
        (by show pendN w.prog { w.ctlOf w.tid with stage := 13 } = _; simp only [pendN, hopc', hopc, hst])
        (by show callOf w.prog { w.ctlOf w.tid with stage := 13 } = _; simp only [callOf, hopc', hopc, hst]; rfl)
        (by show aw25 w.prog { w.ctlOf w.tid with stage := 13 } = _; simp only [aw25, hopc', hopc, hst]) ?_ ?_ ?_ ?_
      · rw [hdf, hset.2.1]; exact hGS
      · rw [hdf, hset.2.1]; exact hGC.same rfl rfl
      · rw [hda, hset.2.2]; exact hR.f.a.same rfl
      · rw [hset.1, hmx]; exact ((hR.f.w.same rfl).other _).futs
  | false =>
    -- the slot was empty: unlock, go on to the second poll
    rw [hhad] at h2
    simp only [Bool.false_eq_true, if_false] at h2
    obtain ⟨w3, h3, h4⟩ := Refine.bind_ok h2
    cases h4
    obtain ⟨l2, _, hk3, hv3⟩ := releaseLock_view h3
    have htid3 : w3.tid = w.tid := hk3.2.1.trans htid1
    refine ⟨hk3.1.1.trans hk1.1.1, ⟨s', hex, ?_⟩,
      inRange_of (w := w) htid3 (Nat.le_of_eq (hk3.2.2.trans hk1.2.2).symm) (by rw [← hlen]; exact hact)⟩
    have hv : view4 (w3.setStage 14) = { view4 w with
        ctl := w.ctl.modify w.tid (fun c => { c with stage := 14 }),
        futs := w.futs.modify f (fun s => { s with slot := true }) } := by
      rw [view4_setStage, hv3, view4_modFut, hv1', hk3.1.2.1, hk3.2.1]
      show ({ view4 w with
        ctl := w1.ctl.modify w1.tid _, futs := w1.futs.modify f _,
        objs := (((view4 w).objs.set _ _).set _ _) } : View) = _
      rw [lock_unlock_objs hvo, hctl1, htid1, hfuts1]
    have hopc' : opOfCtl w.prog { w.ctlOf w.tid with stage := 14 } = some (.blockOn f 0) := hop
    unfold R4
    refine R4_step hR hact _ (fun h => { h with phase := 3 }) _ (view4 w).objs hv hdt hdv rfl (Nat.le_refl _) ?_ ?_ id
      (fun _ _ _ h => h) ?_
    · refine hrel.of rfl rfl rfl rfl rfl rfl rfl (by rw [hopc']; rfl) (by rw [hopc']; intro x hx; cases hx) ?_
      rw [hopc']
      exact ⟨r9'.1, r9'.2.1, rfl⟩
    · intro hne
      exact absurd (fin_zero4 hR hact hop) hne
    · refine RF.ofGroups' (x1 := inflS w.prog (w.ctlOf w.tid)) (x2 := pendN w.prog (w.ctlOf w.tid))
        (x3 := callOf w.prog (w.ctlOf w.tid)) (x4 := aw25 w.prog (w.ctlOf w.tid)) hact _
        (by show inflS w.prog { w.ctlOf w.tid with stage := 14 } = _; simp only [inflS, hopc', hopc, hst])
        (by show pendN w.prog { w.ctlOf w.tid with stage := 14 } = _; simp only [pendN, hopc', hopc, hst])
        (by show callOf w.prog { w.ctlOf w.tid with stage := 14 } = _; simp only [callOf, hopc', hopc, hst]; rfl)
        (by show aw25 w.prog { w.ctlOf w.tid with stage := 14 } = _; simp only [aw25, hopc', hopc, hst]) ?_ ?_ ?_ ?_
      · rw [hdf]; exact hGS
      · rw [hdf]; exact hGC.same rfl rfl
      · rw [hda]; exact hR.f.a.same rfl
      · exact (hR.f.w.same rfl).futs

/-- the modes that register in the `AtomicWaker` are not the self-waking mode -/
theorem aw_mode {f mode : Nat} (h : (mode == 1 || mode == 3 || mode == 4) = true) :
    (mode != 5) = true ∧ futKind (.blockOn f mode) = some (f, 1) := by
  simp only [Bool.or_eq_true, beq_iff_eq] at h
  rcases h with (rfl | rfl) | rfl <;> exact ⟨rfl, rfl⟩

/-- stage 25: the replaced waker is dropped, the `AtomicWaker`'s mutex released: a stutter of the reference -/
theorem sim_blockOn25 (hwf : WF4 w.prog) (hR : R4 w s) (hact : w.tid < w.ctl.length) {f mode : Nat}
    (hop : opAt w = some (.blockOn f mode)) (hst : (w.ctlOf w.tid).stage = 25)
    (h : w.stepActive = .ok w') : Sim4 w s w' := by
  rw [stepActive_op hop] at h
  have h' : w.blockOnStage (w.ctlOf w.tid) f mode = .ok w' := by
    simp only [World.runOp] at h; exact h
  rw [blockOn_stage25 w _ f mode hst] at h'
  clear h
  obtain ⟨w1, h1, h2⟩ := Refine.bind_ok h'
  obtain ⟨w2, h3, h4⟩ := Refine.bind_ok h2
  clear h' h2
  simp only [pure, Except.pure] at h4
  cases h4
  obtain ⟨hf, hfa⟩ := fut_lt hwf hop rfl
  have hm0 := bo_stageOk hR hact hop
  rw [hst] at hm0
  obtain ⟨hm5, _⟩ := aw_mode (f := f) hm0
  obtain ⟨hk1, hv1⟩ := wakerDrop_view h1
  obtain ⟨l, hvo, hk2, hv2⟩ := releaseLock_view h3
  rw [hv1] at hvo hv2
  have hlen : w.ctl.length = w.exec.threads.threads.length := hR.lenCtl
  have htid2 : w2.tid = w.tid := hk2.2.1.trans hk1.2.1
  refine ⟨hk2.1.1.trans hk1.1.1, ⟨s, .nil s, ?_⟩,
    inRange_of (w := w) htid2 (Nat.le_of_eq (hk2.2.2.trans hk1.2.2).symm) (by rw [← hlen]; exact hact)⟩
  have hv : view4 (w2.setStage 14) = { view4 w with
      ctl := w.ctl.modify w.tid (fun c => { c with stage := 14 }),
      objs := (view4 w).objs.set (w.futs.getD f {}).awMutex (.mutex none) } := by
    rw [view4_setStage, hv2, hk2.1.2.1, hk1.1.2.1, htid2]
  have hopc : opOfCtl w.prog (w.ctlOf w.tid) = some (.blockOn f mode) := hop
  have hopc' : opOfCtl w.prog { w.ctlOf w.tid with stage := 14 } = some (.blockOn f mode) := hop
  have hrel := rel4 hR hact
  have hset := view_set_mutex (l' := none) hvo
  have hmx : (w.futs.getD f {}).awMutex = mbase w.prog + 2 * f + 1 := (hR.f.s.mtx f hf).2
  have hwa : waOf w.prog w.ctl w.tid = some f := by
    show aw25 w.prog (w.ctlOf w.tid) = _
    simp only [aw25, hopc, hst]
  unfold R4
  refine R4_step hR hact (fun c => { c with stage := 14 }) id (view4 w).futs _ hv
    (by rw [modify_id' _ _ id (fun _ => rfl)]) hR.verdict rfl (Nat.le_refl _) ?_ ?_ id
    (notify_kept_set _ hvo (by intro nt ds e; cases e)) ?_
  · refine hrel.of rfl rfl rfl rfl rfl rfl rfl (by rw [hopc']; exact hm5)
      (by rw [hopc']; intro x hx; cases hx) ?_
    have r9 := hrel.2.2.2.2.2.2.2.2
    rw [hopc, hst] at r9
    rw [hopc']
    exact r9
  · intro hne
    exact absurd (fin_zero4 hR hact hop) hne
  · refine RF.ofGroups' (x1 := inflS w.prog (w.ctlOf w.tid)) (x2 := pendN w.prog (w.ctlOf w.tid))
      (x3 := callOf w.prog (w.ctlOf w.tid)) (x4 := none) hact _
      (by show inflS w.prog { w.ctlOf w.tid with stage := 14 } = _; simp only [inflS, hopc', hopc, hst])
      (by show pendN w.prog { w.ctlOf w.tid with stage := 14 } = _; simp only [pendN, hopc', hopc, hst])
      (by show callOf w.prog { w.ctlOf w.tid with stage := 14 } = _; simp only [callOf, hopc', hopc, hst]; rfl)
      (by show aw25 w.prog { w.ctlOf w.tid with stage := 14 } = _; simp only [aw25, hopc']) ?_ ?_ ?_ ?_
    · rw [hset.2.1]; exact hR.f.s
    · rw [hset.2.1]; exact hR.f.c.same rfl rfl
    · rw [hset.2.2]; exact hR.f.a.same rfl
    · rw [hset.1, hmx]; exact hR.f.w.unlock hf hwa

/-- a thread with the `aw25` attribute is at stage 25 of a `blockOn` on that future -/
theorem aw25_some {p : Prog} {c : TCtl} {f : Nat} (h : aw25 p c = some f) :
    c.stage = 25 ∧ ∃ m, opOfCtl p c = some (.blockOn f m) := by
  unfold aw25 at h
  split at h
  · next f' m' ho hs => cases h; exact ⟨hs, m', ho⟩
  · cases h

/-- stage 21: the waker is registered in the `AtomicWaker` under its mutex (the try-lock succeeds): THE REFERENCE
STEP, phase 2 → 3 -/
theorem sim_blockOn21 (hwf : WF4 w.prog) (hR : R4 w s) (hact : w.tid < w.ctl.length) {f mode : Nat}
    (hop : opAt w = some (.blockOn f mode)) (hst : (w.ctlOf w.tid).stage = 21)
    (h : w.stepActive = .ok w') : Sim4 w s w' := by
  rw [stepActive_op hop] at h
  have h' : w.blockOnStage (w.ctlOf w.tid) f mode = .ok w' := by
    simp only [World.runOp] at h; exact h
  rw [blockOn_stage21 w _ f mode hst] at h'
  clear h
  obtain ⟨⟨w1, okk⟩, h1, h2⟩ := Refine.bind_ok h'
  clear h'
  have hm0 := bo_stageOk hR hact hop
  rw [hst] at hm0
  obtain ⟨hm5, hkind⟩ := aw_mode (f := f) hm0
  obtain ⟨hf, hfa⟩ := fut_lt hwf hop hkind
  have hnoslot := noSlot hwf hR hop hkind (by decide)
  have hopc : opOfCtl w.prog (w.ctlOf w.tid) = some (.blockOn f mode) := hop
  have hmx : (w.futs.getD f {}).awMutex = mbase w.prog + 2 * f + 1 := (hR.f.s.mtx f hf).2
  -- the try-lock succeeds: a holder would be at stage 25 of a `blockOn f`, hence the active thread itself
  obtain ⟨l, hvo, hokk, hk1, _, hv1⟩ := postAcquire_view h1
  have hfree : mvOf (view4 w).objs (mbase w.prog + 2 * f + 1) = some none := by
    refine hR.f.w.free hf ?_
    intro t ht e
    obtain ⟨h25, m', hm'⟩ := aw25_some e
    have hb := hwf.blockOn_body hm' hop
    have := hR.x.inj t w.tid ht hact hb
    subst this
    have h25' : (w.ctlOf w.tid).stage = 25 := h25
    rw [hst] at h25'
    cases h25'
  have hl : l = none := by
    rw [mvOf_some, ← hmx, hvo] at hfree
    cases hfree; rfl
  subst hl
  have hokk' : okk = true := hokk
  subst hokk'
  simp only [Bool.not_true, Bool.false_eq_true, if_false, if_true, bind, Except.bind, pure, Except.pure] at h2
  have hv1' := hv1 rfl
  have hctl1 : w1.ctl = w.ctl := hk1.1.2.1
  have htid1 : w1.tid = w.tid := hk1.2.1
  have hfuts1 : w1.futs = w.futs := hk1.1.2.2.2.1
  have hlen : w.ctl.length = w.exec.threads.threads.length := hR.lenCtl
  have hrel := rel4 hR hact
  obtain ⟨_, _, hpl, _, _⟩ := act4 hR hact
  have hsy := sync4 hR hact (by rw [hop, hst]; rfl)
  obtain ⟨hrun1, hrun2⟩ := running4 hR hact hop
  have hph : (s.th (w.ctlOf w.tid).body).phase = 2 := by rw [hsy.2.2.2, hop, hst]; rfl
  -- the reference step: phase 2 → 3
  obtain ⟨s', hstep, hdata⟩ := sc_step_bo2 (f := f) (mode := mode) hpl (hsy.1.trans hop) hph
  have hen : SC.enabled w.prog s (w.ctlOf w.tid).body = true :=
    sc_enabled_op hR.verdict hpl hrun1 hrun2 (hsy.1.trans hop) (hwf.opOk hop) (by
      show ((s.th _).phase != 4 || _) = true
      rw [hph]; rfl)
  have hex : SCExec2 w.prog s s' := exec_step hen hstep
  have hdf : (data4 s').futs = (data4 s).futs.modify f regF := by rw [hdata]; rfl
  have hda : (data4 s').atoms = (data4 s).atoms := by rw [hdata]; rfl
  have hdt : (data4 s').ths = (data4 s).ths.modify (w.ctlOf w.tid).body (fun h => { h with phase := 3 }) := by
    rw [hdata]; rfl
  have hdv : (data4 s').verdict = none := by rw [hdata]; exact hR.verdict
  have r9 := hrel.2.2.2.2.2.2.2.2
  rw [hopc, hst] at r9
  have r9' : ((data4 s).ths.getD (w.ctlOf w.tid).body {}).pc = (w.ctlOf w.tid).pc ∧
      ((data4 s).ths.getD (w.ctlOf w.tid).body {}).rets = (w.ctlOf w.tid).results ∧
      ((data4 s).ths.getD (w.ctlOf w.tid).body {}).phase = 2 := r9
  have hca : caOf w.prog w.ctl w.tid = some (f, mode, false) := by
    show callOf w.prog (w.ctlOf w.tid) = _
    simp only [callOf, hopc, hst]
    show some (f, mode, mode == 5 && false) = _
    rw [Bool.and_false]
  have hwa0 : waOf w.prog w.ctl w.tid = none := by
    show aw25 w.prog (w.ctlOf w.tid) = _
    simp only [aw25, hopc, hst]
  -- the `Notify` of the call in progress
  obtain ⟨_, nt0, ds0, hnv0, _⟩ := hR.f.c.call w.tid f mode false hact hca
  -- the registration
  have hGS : GS w.prog
      (w.futs.modify f fun s => { s with awWaker := true, awArc := (w.futs.getD f {}).arc,
                                         awNotify := (w.futs.getD f {}).notify })
      (nvOf (view4 w).objs) ((data4 s).futs.modify f regF) := by
    refine hR.f.s.step hf _ regF ⟨rfl, rfl⟩ ?_ ?_
      (fun _ => ⟨(w.ctlOf w.tid).body, (w.ctlOf w.tid).pc, .blockOn f mode, hop, hkind⟩) (Nat.le_refl _)
      ?_ (fun _ => ⟨⟨fun _ => rfl, fun _ => rfl⟩, nt0, ds0, hnv0⟩) (fun k nt ds hk => ⟨nt, ds, hk⟩)
    · show true = ((w.futs.getD f {}).slot || true)
      rw [Bool.or_true]
    · intro e
      have e' : (w.futs.getD f {}).slot = true := e
      rw [hnoslot] at e'; cases e'
    · intro e
      have e' : (w.futs.getD f {}).slot = true := e
      rw [hnoslot] at e'; cases e'
  have hGC : GC w.prog w.ctl.length (paOf w.prog w.ctl) (caOf w.prog w.ctl)
      (w.futs.modify f fun s => { s with awWaker := true, awArc := (w.futs.getD f {}).arc,
                                         awNotify := (w.futs.getD f {}).notify })
      (nvOf (view4 w).objs) ((data4 s).futs.modify f regF) := by
    refine hR.f.c.futStep hf hR.f.s.lenF hR.f.s.lenDF _ regF rfl ⟨rfl, rfl, rfl⟩ ?_
      (fun _ => .inl ⟨rfl, w.tid, mode, false, hact, hca⟩)
    intro e
    have e' : (w.futs.getD f {}).slot = true := e
    rw [hnoslot] at e'; cases e'
  cases hhad : (w.futs.getD f {}).awWaker with
  | true =>
    -- a waker was registered: it is dropped at stage 25, WITH THE MUTEX HELD
    rw [hhad] at h2
    simp only [if_true] at h2
    have hs := branch_sched h2
    refine ⟨hs.fr.1.trans hk1.1.1, ⟨s', hex, ?_⟩, hs.inRange⟩
    have hv : view4 w' = { view4 w with
        ctl := w.ctl.modify w.tid (fun c => { c with taken := (w.futs.getD f {}).awArc, stage := 25 }),
        futs := w.futs.modify f (fun s => { s with awWaker := true, awArc := (w.futs.getD f {}).arc,
                                                   awNotify := (w.futs.getD f {}).notify }),
        objs := (view4 w).objs.set (w.futs.getD f {}).awMutex (.mutex (some w.tid)) } := by
      rw [hs.view, view4_setStage, view4_modCtl, view4_modFut, hv1']
      show ({ view4 w with
        ctl := (w1.ctl.modify w1.tid _).modify w1.tid _, futs := w1.futs.modify f _, objs := _ } : View) = _
      rw [hctl1, htid1, hfuts1, modify_modify']
    have hopc' : opOfCtl w.prog { w.ctlOf w.tid with taken := (w.futs.getD f {}).awArc, stage := 25 } =
        some (.blockOn f mode) := hop
    have hset := view_set_mutex (l' := some w.tid) hvo
    unfold R4
    refine R4_step hR hact _ (fun h => { h with phase := 3 }) _ _ hv hdt hdv rfl (Nat.le_refl _) ?_ ?_ id
      (notify_kept_set _ hvo (by intro nt ds e; cases e)) ?_
    · refine hrel.of rfl rfl rfl rfl rfl rfl rfl (by rw [hopc']; exact hm0)
        (by rw [hopc']; intro x hx; cases hx) ?_
      rw [hopc']
      exact ⟨r9'.1, r9'.2.1, rfl⟩
    · intro hne
      exact absurd (fin_zero4 hR hact hop) hne
    · refine RF.ofGroups' (x1 := inflS w.prog (w.ctlOf w.tid)) (x2 := pendN w.prog (w.ctlOf w.tid))
        (x3 := callOf w.prog (w.ctlOf w.tid)) (x4 := some f) hact _
        (by show inflS w.prog { w.ctlOf w.tid with taken := _, stage := 25 } = _
            simp only [inflS, hopc', hopc, hst])
        (by show pendN w.prog { w.ctlOf w.tid with taken := _, stage := 25 } = _
            simp only [pendN, hopc', hopc, hst])
        (by show callOf w.prog { w.ctlOf w.tid with taken := _, stage := 25 } = _
            simp only [callOf, hopc', hopc, hst]; rfl)
        (by show aw25 w.prog { w.ctlOf w.tid with taken := _, stage := 25 } = _
            simp only [aw25, hopc']) ?_ ?_ ?_ ?_
      · rw [hdf, hset.2.1]; exact hGS
      · rw [hdf, hset.2.1]; exact hGC.same rfl rfl
      · rw [hda, hset.2.2]; exact hR.f.a.same rfl
      · rw [hset.1, hmx]; exact (hR.f.w.lock hact hwa0).futs
  | false =>
    -- nothing was registered: unlock, go on to the second poll
    rw [hhad] at h2
    simp only [Bool.false_eq_true, if_false] at h2
    obtain ⟨w3, h3, h4⟩ := Refine.bind_ok h2
    cases h4
    obtain ⟨l2, _, hk3, hv3⟩ := releaseLock_view h3
    have htid3 : w3.tid = w.tid := hk3.2.1.trans htid1
    refine ⟨hk3.1.1.trans hk1.1.1, ⟨s', hex, ?_⟩,
      inRange_of (w := w) htid3 (Nat.le_of_eq (hk3.2.2.trans hk1.2.2).symm) (by rw [← hlen]; exact hact)⟩
    have hv : view4 (w3.setStage 14) = { view4 w with
        ctl := w.ctl.modify w.tid (fun c => { c with stage := 14 }),
        futs := w.futs.modify f (fun s => { s with awWaker := true, awArc := (w.futs.getD f {}).arc,
                                                   awNotify := (w.futs.getD f {}).notify }) } := by
      rw [view4_setStage, hv3, view4_modFut, hv1', hk3.1.2.1, hk3.2.1]
      show ({ view4 w with
        ctl := w1.ctl.modify w1.tid _, futs := w1.futs.modify f _,
        objs := (((view4 w).objs.set _ _).set _ _) } : View) = _
      rw [lock_unlock_objs hvo, hctl1, htid1, hfuts1]
    have hopc' : opOfCtl w.prog { w.ctlOf w.tid with stage := 14 } = some (.blockOn f mode) := hop
    unfold R4
    refine R4_step hR hact _ (fun h => { h with phase := 3 }) _ (view4 w).objs hv hdt hdv rfl (Nat.le_refl _) ?_ ?_ id
      (fun _ _ _ h => h) ?_
    · refine hrel.of rfl rfl rfl rfl rfl rfl rfl (by rw [hopc']; exact hm5)
        (by rw [hopc']; intro x hx; cases hx) ?_
      rw [hopc']
      exact ⟨r9'.1, r9'.2.1, rfl⟩
    · intro hne
      exact absurd (fin_zero4 hR hact hop) hne
    · refine RF.ofGroups' (x1 := inflS w.prog (w.ctlOf w.tid)) (x2 := pendN w.prog (w.ctlOf w.tid))
        (x3 := callOf w.prog (w.ctlOf w.tid)) (x4 := aw25 w.prog (w.ctlOf w.tid)) hact _
        (by show inflS w.prog { w.ctlOf w.tid with stage := 14 } = _; simp only [inflS, hopc', hopc, hst])
        (by show pendN w.prog { w.ctlOf w.tid with stage := 14 } = _; simp only [pendN, hopc', hopc, hst])
        (by show callOf w.prog { w.ctlOf w.tid with stage := 14 } = _; simp only [callOf, hopc', hopc, hst]; rfl)
        (by show aw25 w.prog { w.ctlOf w.tid with stage := 14 } = _; simp only [aw25, hopc', hopc, hst]) ?_ ?_ ?_ ?_
      · rw [hdf]; exact hGS
      · rw [hdf]; exact hGC.same rfl rfl
      · rw [hda]; exact hR.f.a.same rfl
      · exact (hR.f.w.same rfl).futs

end

end Refine4
end LoomVerif

/-
Refinement, FUTURES fragment (property C20), part 1: the fragment (`spawn`, `join`, `ifEq`, the flag store
`Op.atom x (.store 1 .rel)`, `blockOn f mode` for the modes 0, 1, 3, 4, 5, `wake`, `wakeRef`, `wakeQ`, `dropWaker`,
`awWake`, `awTake`), the well-formedness predicate `WF4` on programs (decidable), and the DATA PROJECTION `data4` of
a state of the reference semantics `Spec/SC.lean`: what the fragment can observe of it, without the clocks — per
thread `pc`, `started`, `finished`, `rets`, `phase` (progress inside `block_on`), `held`; the values of the atomics;
per future `slot`, `notified`, `spurUsed`, `wakers`, `polled`, `gen`, `slotGen`; the verdict.
-/
import LoomVerif.Spec.SC
import LoomVerif.Proofs.Refine3Data
import LoomVerif.Proofs.Refine2Lift2

namespace LoomVerif
namespace Refine4
open Refine

/-! ### the fragment and the well-formedness of programs -/

/-- the future an operation works on and HOW it uses it: 0 = through the mutex-protected waker slot, 1 = through the
`AtomicWaker`, 2 = neither (the self-waking future of mode 5) -/
def futKind : Op → Option (Nat × Nat)
  | .blockOn f m => some (f, if m == 0 then 0 else if m == 5 then 2 else 1)
  | .wake f | .wakeRef f | .wakeQ f | .dropWaker f => some (f, 0)
  | .awWake f | .awTake f => some (f, 1)
  | _ => none

/-- operation `op` is in the fragment and its arguments are in range for program `p` -/
def opOk4 (p : Prog) : Op → Bool
  | .spawn b => decide (0 < b) && decide (b < p.threads.length)
  | .join _ | .ifEq .. => true
  | .atom x (.store v .rel) => decide (v = 1) && decide (x < p.cfg.nAtomics)
  | .blockOn f m => (m == 0 || m == 1 || m == 3 || m == 4 || m == 5) && decide (f < p.cfg.nFutures)
  | .wake f | .wakeRef f | .wakeQ f | .dropWaker f | .awWake f | .awTake f => decide (f < p.cfg.nFutures)
  | _ => false

/-- every operation of every body is a fragment operation with arguments in range -/
def OpsOk4 (p : Prog) : Prop :=
  ∀ a, a < p.threads.length → ∀ k, k < (p.threads.getD a []).length →
    ((p.threads.getD a [])[k]?.all (opOk4 p)) = true

instance (p : Prog) : Decidable (OpsOk4 p) := by unfold OpsOk4; infer_instance

def kindPairOk (op op' : Op) : Bool :=
  match futKind op, futKind op' with
  | some (f, k), some (f', k') => f != f' || k == k'
  | _, _ => true

/-- every future is used in ONE way by the whole program text: through the waker slot (`blockOn f 0`, `wake`,
`wakeRef`, `wakeQ`, `dropWaker`), through the `AtomicWaker` (`blockOn f 1/3/4`, `awWake`, `awTake`), or as a
self-waking future (`blockOn f 5`).  (The reference semantics keeps ONE registration flag `slot` per future, the
twin two: `FutSt.slot`, `FutSt.awWaker`.) -/
def KindsOk (p : Prog) : Prop := ∀ op ∈ Refine3.allOps p, ∀ op' ∈ Refine3.allOps p, kindPairOk op op' = true

instance (p : Prog) : Decidable (KindsOk p) := by unfold KindsOk; infer_instance

/-- the future blocked on by the operation at position `k` of body `a` -/
def boAt (p : Prog) (a k : Nat) : Option Nat :=
  match (p.threads.getD a [])[k]? with
  | some (.blockOn f _) => some f
  | _ => none

def boPairOk (p : Prog) (a k a' k' : Nat) : Bool :=
  !(boAt p a k).isSome || boAt p a k != boAt p a' k' || a == a'

/-- all the `blockOn` operations of a future are in ONE body (the calls of `block_on` on a future are sequential) -/
def BlockOnce (p : Prog) : Prop :=
  ∀ a, a < p.threads.length → ∀ k, k < (p.threads.getD a []).length →
  ∀ a', a' < p.threads.length → ∀ k', k' < (p.threads.getD a' []).length → boPairOk p a k a' k' = true

instance (p : Prog) : Decidable (BlockOnce p) := by unfold BlockOnce; infer_instance

/-- well-formed programs of the futures fragment -/
def WF4 (p : Prog) : Prop :=
  0 < p.threads.length ∧ OpsOk4 p ∧ SpawnOnce p ∧ KindsOk p ∧ BlockOnce p ∧ p.cfg.nFutures ≤ p.cfg.nAtomics

instance (p : Prog) : Decidable (WF4 p) := by unfold WF4; infer_instance

theorem WF4.opOk {p : Prog} (h : WF4 p) {a k : Nat} {op : Op}
    (hop : (p.threads.getD a [])[k]? = some op) : opOk4 p op = true := by
  obtain ⟨ha, hk⟩ := Refine3.pos_bound hop
  have := h.2.1 a ha k hk
  rw [hop] at this
  simpa using this

theorem WF4.spawn_unique {p : Prog} (h : WF4 p) {a k a' k' b : Nat}
    (h1 : (p.threads.getD a [])[k]? = some (.spawn b))
    (h2 : (p.threads.getD a' [])[k']? = some (.spawn b)) : a = a' ∧ k = k' := by
  obtain ⟨ha, hk⟩ := Refine3.pos_bound h1
  obtain ⟨ha', hk'⟩ := Refine3.pos_bound h2
  have e1 : spawnAt p a k = some b := by simp only [spawnAt, h1]
  have e2 : spawnAt p a' k' = some b := by simp only [spawnAt, h2]
  have := h.2.2.1 a ha k hk a' ha' k' hk'
  simpa [spawnPairOk, e1, e2] using this

/-- two `blockOn` operations on the same future are in the same body -/
theorem WF4.blockOn_body {p : Prog} (h : WF4 p) {a k a' k' f m m' : Nat}
    (h1 : (p.threads.getD a [])[k]? = some (.blockOn f m))
    (h2 : (p.threads.getD a' [])[k']? = some (.blockOn f m')) : a = a' := by
  obtain ⟨ha, hk⟩ := Refine3.pos_bound h1
  obtain ⟨ha', hk'⟩ := Refine3.pos_bound h2
  have e1 : boAt p a k = some f := by simp only [boAt, h1]
  have e2 : boAt p a' k' = some f := by simp only [boAt, h2]
  have := h.2.2.2.2.1 a ha k hk a' ha' k' hk'
  simpa [boPairOk, e1, e2] using this

/-- two operations of the program text on the same future use it in the same way -/
theorem WF4.kind_unique {p : Prog} (h : WF4 p) {a k a' k' : Nat} {op op' : Op} {f c c' : Nat}
    (h1 : (p.threads.getD a [])[k]? = some op) (h2 : (p.threads.getD a' [])[k']? = some op')
    (e1 : futKind op = some (f, c)) (e2 : futKind op' = some (f, c')) : c = c' := by
  have := h.2.2.2.1 op (Refine3.mem_allOps h1) op' (Refine3.mem_allOps h2)
  simpa [kindPairOk, e1, e2] using this

/-! ### the data of a reference state -/

/-- a thread of the reference semantics without its clocks -/
structure DTh4 where
  pc : Nat := 0
  started : Bool := false
  finished : Bool := false
  rets : List (Nat × Ret) := []
  /-- progress inside `blockOn` -/
  phase : Nat := 0
  held : List (Nat × Nat) := []
  /-- not inside a `cvwait`, no thread-locals, no unpark token (invariant of the fragment) -/
  plain : Bool := true
deriving DecidableEq, Repr, Inhabited

/-- a future of the reference semantics without its release clock -/
structure DFut where
  slot : Bool := false
  notified : Bool := false
  spurUsed : Bool := false
  wakers : Nat := 0
  polled : Bool := false
  gen : Nat := 0
  slotGen : Nat := 0
deriving DecidableEq, Repr, Inhabited

/-- the data of a reference state the futures fragment can observe: no clocks -/
structure SCData4 where
  ths : List DTh4
  atoms : List Int
  futs : List DFut
  verdict : Option SC.Verdict
deriving DecidableEq, Repr, Inhabited

def dth4 (h : SC.Th) : DTh4 :=
  { pc := h.pc, started := h.started, finished := h.finished, rets := h.rets, phase := h.phase, held := h.held,
    plain := h.cvWaiting.isNone && h.cvNotified.isNone && h.locals.isEmpty }

def dfut (u : SC.Fut) : DFut :=
  { slot := u.slot, notified := u.notified, spurUsed := u.spurUsed, wakers := u.wakers, polled := u.polled,
    gen := u.gen, slotGen := u.slotGen }

/-- **the data-only projection of a reference state** -/
def data4 (s : SC.St) : SCData4 :=
  { ths := s.ths.map dth4, atoms := s.atoms, futs := s.futs.map dfut, verdict := s.verdict }

namespace SCData4

def th (d : SCData4) (t : Nat) : DTh4 := d.ths.getD t {}
def fut (d : SCData4) (f : Nat) : DFut := d.futs.getD f {}
def atom (d : SCData4) (x : Nat) : Int := d.atoms.getD x 0
def modTh (d : SCData4) (t : Nat) (g : DTh4 → DTh4) : SCData4 := { d with ths := d.ths.modify t g }
def modFut (d : SCData4) (f : Nat) (g : DFut → DFut) : SCData4 := { d with futs := d.futs.modify f g }
def setAtom (d : SCData4) (x : Nat) (v : Int) : SCData4 := { d with atoms := d.atoms.set x v }
/-- the operation completes with result `r` (`SC.St.ret`) -/
def ret (d : SCData4) (t : Nat) (r : Ret) : SCData4 :=
  d.modTh t fun h => { h with rets := (h.pc, r) :: h.rets, pc := h.pc + 1 }
def opOf (p : Prog) (d : SCData4) (t : Nat) : Option Op := (p.threads.getD t [])[(d.th t).pc]?

end SCData4

theorem dth4_default : dth4 ({} : SC.Th) = {} := rfl
theorem dfut_default : dfut ({} : SC.Fut) = {} := rfl

theorem data4_th (s : SC.St) (t : Nat) : (data4 s).th t = dth4 (s.th t) := by
  simp only [SCData4.th, data4, SC.St.th, List.getD, List.getElem?_map]
  cases s.ths[t]? <;> rfl

theorem data4_fut (s : SC.St) (f : Nat) : (data4 s).fut f = dfut (s.futs.getD f {}) := by
  simp only [SCData4.fut, data4, List.getD, List.getElem?_map]
  cases s.futs[f]? <;> rfl

theorem data4_atom (s : SC.St) (x : Nat) : (data4 s).atom x = s.atoms.getD x 0 := rfl

theorem data4_opOf (p : Prog) (s : SC.St) (t : Nat) : SCData4.opOf p (data4 s) t = SC.opOf p s t := by
  simp only [SCData4.opOf, SC.opOf, data4_th]; rfl

theorem data4_modTh (s : SC.St) (t : Nat) (F : SC.Th → SC.Th) (G : DTh4 → DTh4)
    (h : ∀ a, dth4 (F a) = G (dth4 a)) : data4 (s.modTh t F) = (data4 s).modTh t G := by
  simp only [data4, SC.St.modTh, SCData4.modTh]
  rw [map_modify _ _ _ G dth4 h]

theorem data4_modTh_id (s : SC.St) (t : Nat) (F : SC.Th → SC.Th) (h : ∀ a, dth4 (F a) = dth4 a) :
    data4 (s.modTh t F) = data4 s := by
  rw [data4_modTh s t F id h]
  simp only [SCData4.modTh]
  rw [modify_id' _ _ id (fun _ => rfl)]

theorem data4_tick (s : SC.St) (t : Nat) : data4 (s.tick t) = data4 s := data4_modTh_id _ _ _ fun _ => rfl
theorem data4_acquire (s : SC.St) (t : Nat) (c : VV) : data4 (s.acquire t c) = data4 s :=
  data4_modTh_id _ _ _ fun _ => rfl
theorem data4_ret (s : SC.St) (t : Nat) (r : Ret) : data4 (s.ret t r) = (data4 s).ret t r :=
  data4_modTh _ _ _ _ fun _ => rfl

theorem data4_setFuts (s : SC.St) (f : Nat) (F : SC.Fut → SC.Fut) (G : DFut → DFut)
    (h : ∀ u, dfut (F u) = G (dfut u)) :
    data4 { s with futs := s.futs.modify f F } = (data4 s).modFut f G := by
  simp only [data4, SCData4.modFut]
  rw [map_modify _ _ _ G dfut h]

theorem data4_setAtoms (s : SC.St) (a : List Int) (r : List VV) :
    data4 { s with atoms := a, atomRel := r } = { data4 s with atoms := a } := rfl

end Refine4
end LoomVerif

/-
Refinement, FUTURES fragment, part 13: the one-step simulation `step_sim4`: the case analysis over the operation
and the stage of the active thread.
-/
import LoomVerif.Proofs.Refine4WakeRef
import LoomVerif.Proofs.Refine4Aw
import LoomVerif.Proofs.Refine4Basic
import LoomVerif.Proofs.Refine4BlockOnPoll
import LoomVerif.Proofs.Refine4BlockOnReg
import LoomVerif.Proofs.Refine4BlockOnRet
import LoomVerif.Proofs.Refine4BlockOnSelf

set_option linter.unusedSimpArgs false
set_option linter.unusedVariables false

namespace LoomVerif
namespace Refine4
open Refine Sy Refine2 C20

theorem boStage_cases {m st : Nat} (h : boStageOk m st = true) :
    st = 0 ∨ st = 40 ∨ st = 10 ∨ st = 11 ∨ st = 14 ∨ st = 15 ∨ st = 16 ∨ st = 12 ∨ st = 30 ∨ st = 13 ∨ st = 45 ∨
    st = 43 ∨ st = 20 ∨ st = 21 ∨ st = 25 ∨ st = 41 ∨ st = 44 ∨ st = 46 ∨ st = 50 ∨ st = 51 ∨ st = 52 ∨ st = 53 := by
  unfold boStageOk at h
  split at h <;> simp_all

section
variable {w w' : World} {s : SC.St}

/-- **the one-step simulation** -/
theorem step_sim4 (hwf : WF4 w.prog) (hR : R4 w s) (hact : w.tid < w.ctl.length) (hok : resumeOk4 w = true)
    (h : w.stepActive = .ok w') : Sim4 w s w' := by
  cases hop : opAt w with
  | none => exact sim_epilogue hR hact hop h
  | some op =>
    have hopok := hwf.opOk hop
    have hso : stageOk (some op) (w.ctlOf w.tid).stage = true := by
      have := (rel4 hR hact).2.2.2.2.2.2.1
      rw [opOfCtl_active, hop] at this
      exact this
    cases op <;> simp only [opOk4, Bool.false_eq_true] at hopok
    case spawn b =>
      have hst : (w.ctlOf w.tid).stage = 0 := by simpa [stageOk] using hso
      exact sim_spawn hwf hR hact hop hst h
    case ifEq i r n =>
      have hst : (w.ctlOf w.tid).stage = 0 := by simpa [stageOk] using hso
      exact sim_ifEq hwf hR hact hop hst h
    case join b =>
      have hst : (w.ctlOf w.tid).stage ≤ 1 := by simpa [stageOk] using hso
      have : (w.ctlOf w.tid).stage = 0 ∨ (w.ctlOf w.tid).stage = 1 := by omega
      rcases this with e | e
      · exact sim_join0 hR hact hop e h
      · exact sim_join1 hwf hR hact hop e h
    case atom x aop =>
      cases aop <;> try (simp only [opOk4, Bool.false_eq_true] at hopok; done)
      case store v o =>
        cases o <;> try (simp only [opOk4, Bool.false_eq_true] at hopok; done)
        simp only [opOk4, Bool.and_eq_true, decide_eq_true_eq] at hopok
        obtain ⟨rfl, _⟩ := hopok
        have hst : (w.ctlOf w.tid).stage ≤ 1 := by simpa [stageOk] using hso
        have : (w.ctlOf w.tid).stage = 0 ∨ (w.ctlOf w.tid).stage = 1 := by omega
        rcases this with e | e
        · exact sim_store0 hR hact hop e h
        · exact sim_store1 hwf hR hact hop e h
    case wake f =>
      have hst : (w.ctlOf w.tid).stage ≤ 4 := by simpa [stageOk] using hso
      have : (w.ctlOf w.tid).stage = 0 ∨ (w.ctlOf w.tid).stage = 1 ∨ (w.ctlOf w.tid).stage = 2 ∨
          (w.ctlOf w.tid).stage = 3 ∨ (w.ctlOf w.tid).stage = 4 := by omega
      rcases this with e | e | e | e | e
      · exact sim_wake0 hR hact hop e h
      · exact sim_wake1 hwf hR hact hop e h
      · exact sim_wake2 hwf hR hact hop e h
      · exact sim_wake3 hR hact hop e h
      · exact sim_wake4 hR hact hop e h
    case awWake f =>
      have hst : (w.ctlOf w.tid).stage ≤ 4 := by simpa [stageOk] using hso
      have : (w.ctlOf w.tid).stage = 0 ∨ (w.ctlOf w.tid).stage = 1 ∨ (w.ctlOf w.tid).stage = 2 ∨
          (w.ctlOf w.tid).stage = 3 ∨ (w.ctlOf w.tid).stage = 4 := by omega
      rcases this with e | e | e | e | e
      · exact sim_awWake0 hR hact hop e h
      · exact sim_awWake1 hwf hR hact hop e h
      · exact sim_awWake2 hwf hR hact hop e h
      · exact sim_awWake3 hR hact hop e h
      · exact sim_awWake4 hR hact hop e h
    case wakeRef f =>
      have : (w.ctlOf w.tid).stage = 0 ∨ (w.ctlOf w.tid).stage = 1 ∨ (w.ctlOf w.tid).stage = 2 ∨
          (w.ctlOf w.tid).stage = 5 := by simpa [stageOk, or_assoc] using hso
      rcases this with e | e | e | e
      · exact sim_wakeRef0 hR hact hop e h
      · exact sim_wakeRef1 hwf hR hact hop e h
      · exact sim_wakeRef2 hwf hR hact hop e h
      · exact sim_wakeRef5 hwf hR hact hop e h
    case wakeQ f =>
      have : (w.ctlOf w.tid).stage = 0 ∨ (w.ctlOf w.tid).stage = 2 ∨ (w.ctlOf w.tid).stage = 5 := by
        simpa [stageOk, or_assoc] using hso
      rcases this with e | e | e
      · exact sim_wakeQ0 hR hact hop e h
      · exact sim_wakeQ2 hwf hR hact hop e h
      · exact sim_wakeQ5 hwf hR hact hop e h
    case dropWaker f =>
      have hst : (w.ctlOf w.tid).stage ≤ 2 := by simpa [stageOk] using hso
      have : (w.ctlOf w.tid).stage = 0 ∨ (w.ctlOf w.tid).stage = 1 ∨ (w.ctlOf w.tid).stage = 2 := by omega
      rcases this with e | e | e
      · exact sim_dropWaker0 hR hact hop e h
      · exact sim_dropWaker1 hwf hR hact hop e h
      · exact sim_dropWaker2 hR hact hop e h
    case awTake f =>
      have hst : (w.ctlOf w.tid).stage ≤ 2 := by simpa [stageOk] using hso
      have : (w.ctlOf w.tid).stage = 0 ∨ (w.ctlOf w.tid).stage = 1 ∨ (w.ctlOf w.tid).stage = 2 := by omega
      rcases this with e | e | e
      · exact sim_awTake0 hR hact hop e h
      · exact sim_awTake1 hwf hR hact hop e h
      · exact sim_awTake2 hR hact hop e h
    case blockOn f mode =>
      have hbo : boStageOk mode (w.ctlOf w.tid).stage = true := hso
      rcases boStage_cases hbo with e | e | e | e | e | e | e | e | e | e | e | e | e | e | e | e | e | e | e | e | e | e
      · exact sim_blockOn0 hwf hR hact hop e h
      · exact sim_blockOn40 hwf hR hact hop e h
      · exact sim_blockOn10 hR hact hop e h
      · exact sim_blockOn11 hwf hR hact hop e hok h
      · exact sim_blockOn14 hR hact hop e h
      · exact sim_blockOn15 hwf hR hact hop e hok h
      · exact sim_blockOn16 hwf hR hact hop e hok h
      · exact sim_blockOn12 hwf hR hact hop e h
      · exact sim_blockOn30 hwf hR hact hop e h
      · exact sim_blockOn13 hwf hR hact hop e h
      · exact sim_blockOn45 hwf hR hact hop e h
      · exact sim_blockOn43 hR hact hop e h
      · exact sim_blockOn20 hwf hR hact hop e h
      · exact sim_blockOn21 hwf hR hact hop e h
      · exact sim_blockOn25 hwf hR hact hop e h
      · exact sim_blockOn41 hR hact hop e h
      · exact sim_blockOn44 hwf hR hact hop e h
      · exact sim_blockOn46 hR hact hop e h
      · exact sim_blockOn50 hwf hR hact hop e h
      · exact sim_blockOn51 hwf hR hact hop e h
      · exact sim_blockOn52 hwf hR hact hop e h
      · exact sim_blockOn53 hwf hR hact hop e hok h

end

end Refine4
end LoomVerif

/-
C17, lazy statics: the staged operation `World.lazyStage` (`Lazy::get` + a read of the cell inside the
value; the initialiser has a scheduling point), its parts `World.lazyStatics`, `World.lazyRead`,
`World.lazyInitFinish`, the main thread's epilogue (`lazy_statics.drop()`), `World.init`.
-/
import LoomVerif.Proofs.WorldBasics
import LoomVerif.Proofs.SyncRunOp
import LoomVerif.Proofs.C12VV
import LoomVerif.Proofs.InterpMaxTh
import LoomVerif.Proofs.C08Notify

namespace LoomVerif
namespace C17
open World

/-! ### `lazyStatics`, the staged operation `lazyStage` -/

theorem lazyStatics_none {w : World} (hs : w.exec.lazyStatics = none) :
    w.lazyStatics = .error .lazyShutdown := by
  unfold World.lazyStatics; rw [hs]; rfl

theorem lazyStatics_some {w : World} {l : List (Nat × LazyVal)} (hs : w.exec.lazyStatics = some l) :
    w.lazyStatics = .ok l := by
  unfold World.lazyStatics; rw [hs]; rfl

/-- the world in which the initialiser of `z` starts: its run is counted, it draws the instance id -/
def bumped (w : World) (z : Nat) : World :=
  { w with lazyInits := w.lazyInits.set z (w.lazyInits.getD z 0 + 1) }

/-- stage 0 after `Set::drop`: "attempted to access lazy_static during shutdown" -/
theorem lazyStage0_shutdown {w : World} {c : TCtl} (z : Nat) (hc : c.stage = 0)
    (hs : w.exec.lazyStatics = none) : w.lazyStage c z = .error .lazyShutdown := by
  unfold World.lazyStage
  simp only [hc, lazyStatics_none hs]; rfl

/-- stage 0, the static is registered: `try_get` succeeds, the cell in the value is read, the operation
completes -/
theorem lazyStage0_found {w : World} {c : TCtl} {z : Nat} {l : List (Nat × LazyVal)} {sv : LazyVal}
    (hc : c.stage = 0) (hs : w.exec.lazyStatics = some l) (hz : l.lookup z = some sv) :
    w.lazyStage c z = (w.lazyRead sv).map fun r => r.1.complete (.val r.2) := by
  unfold World.lazyStage
  simp only [hc, lazyStatics_some hs, hz, bind, Except.bind, pure, Except.pure]
  cases w.lazyRead sv <;> rfl

/-- stage 0, the static is not registered, the program declares no atomic: the initialiser runs to its end
in this stage (instance id `lazyInits[z] + 1`) -/
theorem lazyStage0_init_now {w : World} {c : TCtl} {z : Nat} {l : List (Nat × LazyVal)}
    (hc : c.stage = 0) (hs : w.exec.lazyStatics = some l) (hz : l.lookup z = none)
    (hx : w.cfg.nAtomics = 0) :
    w.lazyStage c z =
      ((bumped w z).lazyInitFinish z (w.lazyInits.getD z 0 + 1)).map
        fun r => r.1.complete (.val r.2) := by
  unfold World.lazyStage
  have hx2 : w.prog.cfg.nAtomics = 0 := hx
  simp only [hc, lazyStatics_some hs, hz, bind, Except.bind, pure, Except.pure, World.cfg, hx2,
    beq_self_eq_true, if_true, bumped]
  generalize World.lazyInitFinish _ z _ = r
  cases r <;> rfl

/-- stage 0, the static is not registered, the program declares an atomic: the initialiser starts, draws
its instance id and reaches its scheduling point (`x0.fetch_add(1, Relaxed)`); the stage it continues with
IS the instance id -/
theorem lazyStage0_init_branch {w : World} {c : TCtl} {z : Nat} {l : List (Nat × LazyVal)}
    (hc : c.stage = 0) (hs : w.exec.lazyStatics = some l) (hz : l.lookup z = none)
    (hx : w.cfg.nAtomics ≠ 0) :
    w.lazyStage c z =
      (bumped w z).primStart 0 (.rmw (.add 1) .rlx .rlx) (w.lazyInits.getD z 0 + 1) := by
  unfold World.lazyStage
  have hx2 : (w.prog.cfg.nAtomics == 0) = false := by
    have : w.prog.cfg.nAtomics ≠ 0 := hx
    simpa using this
  simp only [hc, lazyStatics_some hs, hz, bind, Except.bind, pure, Except.pure, World.cfg, hx2,
    Bool.false_eq_true, if_false, bumped]

/-- a later stage `id`: the effect of the `fetch_add`, then the rest of the initialiser with instance id
`id` -/
theorem lazyStage_later {w : World} {c : TCtl} (z : Nat) (hc : c.stage ≠ 0) :
    w.lazyStage c z = (do
      let (w1, _) ← w.primEffect 0 (.rmw (.add 1) .rlx .rlx)
      let (w2, v) ← w1.lazyInitFinish z c.stage
      pure (w2.complete (.val v))) := by
  unfold World.lazyStage
  split
  · next h0 => exact absurd h0 hc
  · rfl

/-! ### the rest of the initialiser: `lazyInitFinish` -/

/-- the fresh cell the initialiser creates -/
def initCell (w : World) : CellSt := { readAccess := w.ths.caus, writeAccess := w.ths.caus }

/-- the world in which the initialiser writes the cell: cell pushed, `synchronize` -/
def initW3 (w : World) : World := (w.pushObj (.cell (initCell w))).1.sync

/-- the world after the initialiser wrote its cell (before the second `try_get`) -/
def initWritten (w : World) (z : Nat) : World :=
  (initW3 w).setObj w.exec.objs.length
    (.cell { initCell w with
      writeAccess := (initCell w).writeAccess.join (initW3 w).ths.caus, value := 40 + z })

/-- the `StaticValue` an initialiser with instance id `id` publishes if it wins -/
def initVal (w : World) (id : Nat) : LazyVal :=
  { sync := (initW3 w).ths.syncStore Sync.new .ar, inst := id, cell := w.exec.objs.length }

/-- the world after `init_static` by the initialiser with instance id `id` -/
def initWorld (w : World) (z id : Nat) (l : List (Nat × LazyVal)) : World :=
  { initWritten w z with
    exec := { (initWritten w z).exec with lazyStatics := some ((z, initVal w id) :: l) } }

theorem caus_le_inc (ths : Threads) : ths.caus.le ths.activeCausalityInc.caus := by
  unfold Threads.activeCausalityInc Threads.modifyActive Threads.caus Threads.activeT
  rw [WB.activeId_modify, WB.get_modify]
  split
  · exact C12.VV.le_inc _ _
  · exact C12.VV.le_refl _

theorem initW3_objs (w : World) :
    (initW3 w).exec.objs = w.exec.objs ++ [.cell (initCell w)] := rfl

theorem initW3_getCell (w : World) :
    (initW3 w).getCell w.exec.objs.length = .ok (initCell w) := by
  unfold World.getCell
  rw [initW3_objs]
  simp

theorem initW3_ahead (w : World) :
    ((initW3 w).ths.caus.ahead w.ths.caus).isSome = false :=
  C12.VV.ahead_none (caus_le_inc w.ths)

theorem initWritten_statics (w : World) (z : Nat) :
    (initWritten w z).exec.lazyStatics = w.exec.lazyStatics := rfl

/-- the initialiser's own cell accesses never fail; what remains is the second `try_get` -/
theorem lazyInitFinish_eq (w : World) (z id : Nat) :
    w.lazyInitFinish z id = (do
      let statics ← (initWritten w z).lazyStatics
      match statics.lookup z with
      | some sv => (initWritten w z).lazyRead sv
      | none => (initWorld w z id statics).lazyRead (initVal w id)) := by
  unfold World.lazyInitFinish
  show ((initW3 w).getCell w.exec.objs.length >>= _) = _
  rw [initW3_getCell]
  have hn : ¬ ((initW3 w).ths.caus.ahead w.ths.caus).isSome = true := by
    rw [initW3_ahead]; exact Bool.false_ne_true
  show (if ((initW3 w).ths.caus.ahead w.ths.caus).isSome = true then _ else _) = _
  rw [if_neg hn]
  show (if ((initW3 w).ths.caus.ahead w.ths.caus).isSome = true then _ else _) = _
  rw [if_neg hn]
  rfl

/-- after `Set::drop` the second `try_get` panics -/
theorem lazyInitFinish_shutdown {w : World} (z id : Nat) (hs : w.exec.lazyStatics = none) :
    w.lazyInitFinish z id = .error .lazyShutdown := by
  rw [lazyInitFinish_eq, lazyStatics_none (w := initWritten w z) hs]; rfl

/-- another thread registered a value for `z` meanwhile: ours is dropped, nothing is registered, the
registered value is read -/
theorem lazyInitFinish_found {w : World} {z : Nat} (id : Nat) {l : List (Nat × LazyVal)} {sv : LazyVal}
    (hs : w.exec.lazyStatics = some l) (hz : l.lookup z = some sv) :
    w.lazyInitFinish z id = (initWritten w z).lazyRead sv := by
  rw [lazyInitFinish_eq, lazyStatics_some (w := initWritten w z) hs]
  simp only [bind, Except.bind, hz]

/-- no value is registered for `z`: `init_static` + `sync_store(AcqRel)`, then the value is read -/
theorem lazyInitFinish_init {w : World} {z : Nat} (id : Nat) {l : List (Nat × LazyVal)}
    (hs : w.exec.lazyStatics = some l) (hz : l.lookup z = none) :
    w.lazyInitFinish z id = (initWorld w z id l).lazyRead (initVal w id) := by
  rw [lazyInitFinish_eq, lazyStatics_some (w := initWritten w z) hs]
  simp only [bind, Except.bind, hz]

theorem getCell_ok {w : World} {o : Nat} {cs : CellSt} (h : w.getCell o = .ok cs) :
    w.exec.objs[o]? = some (.cell cs) := by
  unfold World.getCell at h; split at h <;> cases h; assumption

/-- the world a successful `lazyRead` produces -/
def readWorld (w : World) (sv : LazyVal) (cs : CellSt) : World :=
  (w.setThs (w.ths.syncLoad sv.sync .acq)).sync.setObj sv.cell
    (.cell { cs with readAccess :=
      cs.readAccess.join (w.setThs (w.ths.syncLoad sv.sync .acq)).sync.ths.caus })

theorem lazyRead_ok {w w' : World} {sv : LazyVal} {v : Int} (h : w.lazyRead sv = .ok (w', v)) :
    ∃ cs, w.exec.objs[sv.cell]? = some (.cell cs) ∧ cs.isWriting = false ∧
      ((w.ths.syncLoad sv.sync .acq).activeCausalityInc.caus.ahead cs.writeAccess).isSome = false ∧
      v = (sv.inst : Int) * 100 + cs.value ∧ w' = readWorld w sv cs := by
  unfold World.lazyRead at h
  simp only [bind, Except.bind, pure, Except.pure] at h
  split at h
  · cases h
  · next cs hcs =>
    have hcs := getCell_ok hcs
    split at h
    · cases h
    · next hw =>
      split at h
      · cases h
      · next ha =>
        cases h
        exact ⟨cs, hcs, Bool.eq_false_iff.2 hw, Bool.eq_false_iff.2 ha, rfl, rfl⟩

/-- when the cell is there, not being written, and its last write happens-before the reader,
`lazyRead` succeeds -/
theorem lazyRead_of {w : World} {sv : LazyVal} {cs : CellSt}
    (hc : w.exec.objs[sv.cell]? = some (.cell cs)) (hw : cs.isWriting = false)
    (ha : ((w.ths.syncLoad sv.sync .acq).activeCausalityInc.caus.ahead cs.writeAccess).isSome = false) :
    w.lazyRead sv = .ok (readWorld w sv cs, (sv.inst : Int) * 100 + cs.value) := by
  unfold World.lazyRead
  have hg : (w.setThs (w.ths.syncLoad sv.sync .acq)).sync.getCell sv.cell = .ok cs := by
    unfold World.getCell
    show (match w.exec.objs[sv.cell]? with | some (.cell a) => _ | _ => _) = _
    rw [hc]
  show ((w.setThs (w.ths.syncLoad sv.sync .acq)).sync.getCell sv.cell >>= _) = _
  rw [hg]
  show (if cs.isWriting = true then _ else _) = _
  rw [if_neg (by rw [hw]; exact Bool.false_ne_true)]
  show (if ((w.ths.syncLoad sv.sync .acq).activeCausalityInc.caus.ahead cs.writeAccess).isSome
    = true then _ else _) = _
  rw [if_neg (by rw [ha]; exact Bool.false_ne_true)]
  rfl

theorem readWorld_statics (w : World) (sv : LazyVal) (cs : CellSt) :
    (readWorld w sv cs).exec.lazyStatics = w.exec.lazyStatics := rfl
theorem readWorld_lazyInits (w : World) (sv : LazyVal) (cs : CellSt) :
    (readWorld w sv cs).lazyInits = w.lazyInits := rfl
theorem readWorld_objs (w : World) (sv : LazyVal) (cs : CellSt) :
    (readWorld w sv cs).exec.objs = w.exec.objs.set sv.cell
      (.cell { cs with readAccess :=
        cs.readAccess.join (w.ths.syncLoad sv.sync .acq).activeCausalityInc.caus }) := rfl
theorem readWorld_ths (w : World) (sv : LazyVal) (cs : CellSt) :
    (readWorld w sv cs).ths = (w.ths.syncLoad sv.sync .acq).activeCausalityInc := rfl

/-- the reader acquires the value's clock -/
theorem readWorld_caus (w : World) (sv : LazyVal) (cs : CellSt)
    (hact : w.tid < w.ths.threads.length) :
    sv.sync.hb.le (readWorld w sv cs).ths.caus ∧ w.ths.caus.le (readWorld w sv cs).ths.caus := by
  rw [readWorld_ths]
  have hA : WB.ActiveOk w.ths := hact
  have h1 : (w.ths.syncLoad sv.sync .acq).caus = w.ths.caus.join sv.sync.hb := by
    rw [WB.caus_syncLoad hA]; rfl
  have h2 := caus_le_inc (w.ths.syncLoad sv.sync .acq)
  rw [h1] at h2
  exact ⟨C12.VV.le_trans (C12.VV.le_join_right _ _) h2,
    C12.VV.le_trans (C12.VV.le_join_left _ _) h2⟩

/-! ### the initialiser -/

theorem initWorld_statics (w : World) (z id : Nat) (l : List (Nat × LazyVal)) :
    (initWorld w z id l).exec.lazyStatics = some ((z, initVal w id) :: l) := rfl
theorem initWorld_lazyInits (w : World) (z id : Nat) (l : List (Nat × LazyVal)) :
    (initWorld w z id l).lazyInits = w.lazyInits := rfl
theorem initWorld_ths (w : World) (z id : Nat) (l : List (Nat × LazyVal)) :
    (initWorld w z id l).ths = w.ths.activeCausalityInc := rfl
theorem initWritten_ths (w : World) (z : Nat) :
    (initWritten w z).ths = w.ths.activeCausalityInc := rfl
theorem initWritten_lazyInits (w : World) (z : Nat) : (initWritten w z).lazyInits = w.lazyInits := rfl
theorem initWritten_objs (w : World) (z : Nat) :
    (initWritten w z).exec.objs = w.exec.objs ++
      [.cell { initCell w with
        writeAccess := w.ths.caus.join w.ths.activeCausalityInc.caus, value := 40 + z }] := by
  show (w.exec.objs ++ [Obj.cell (initCell w)]).set w.exec.objs.length _ = _
  simp
  rfl
theorem initWorld_objs (w : World) (z id : Nat) (l : List (Nat × LazyVal)) :
    (initWorld w z id l).exec.objs = w.exec.objs ++
      [.cell { initCell w with
        writeAccess := w.ths.caus.join w.ths.activeCausalityInc.caus, value := 40 + z }] :=
  initWritten_objs w z

/-- the published clock is above the initialiser's causality -/
theorem initVal_hb (w : World) (id : Nat) : w.ths.caus.le (initVal w id).sync.hb :=
  C12.VV.le_trans (caus_le_inc w.ths) (C12.VV.le_join_right _ _)

/-- the registering initialiser always succeeds (its own write happens-before its read) and returns its
instance `id`, content `40 + z` -/
theorem lazyInitFinish_init_ok {w : World} {z : Nat} (id : Nat) {l : List (Nat × LazyVal)}
    (hs : w.exec.lazyStatics = some l) (hz : l.lookup z = none)
    (hact : w.tid < w.ths.threads.length) :
    w.lazyInitFinish z id = .ok (readWorld (initWorld w z id l) (initVal w id)
        { initCell w with
          writeAccess := w.ths.caus.join w.ths.activeCausalityInc.caus, value := 40 + z },
      ((id : Nat) : Int) * 100 + (40 + z)) := by
  rw [lazyInitFinish_init id hs hz]
  refine lazyRead_of (cs := { initCell w with
      writeAccess := w.ths.caus.join w.ths.activeCausalityInc.caus, value := 40 + z }) ?_ rfl ?_
  · rw [initWorld_objs]
    show (w.exec.objs ++ _)[w.exec.objs.length]? = _
    simp
  · apply C12.VV.ahead_none
    rw [initWorld_ths]
    show (w.ths.caus.join w.ths.activeCausalityInc.caus).le _
    have hA : WB.ActiveOk w.ths.activeCausalityInc := by
      unfold WB.ActiveOk Threads.activeCausalityInc Threads.modifyActive
      rw [WB.length_modify, WB.activeId_modify]; exact hact
    have h1 : (w.ths.activeCausalityInc.syncLoad (initVal w id).sync .acq).caus =
        w.ths.activeCausalityInc.caus.join (initVal w id).sync.hb := by
      rw [WB.caus_syncLoad hA]; rfl
    have h2 := caus_le_inc (w.ths.activeCausalityInc.syncLoad (initVal w id).sync .acq)
    rw [h1] at h2
    refine C12.VV.le_trans ?_ h2
    exact C12.VV.join_le
      (C12.VV.le_trans (caus_le_inc w.ths) (C12.VV.le_join_left _ _)) (C12.VV.le_join_left _ _)

/-! ### registered entries are never replaced -/

/-- the statics table after a step is the table before it, or the table before it with ONE new entry for a
key `z` that had none -/
def StaticsGrow (z : Nat) (s s' : Option (List (Nat × LazyVal))) : Prop :=
  s' = s ∨ ∃ l sv, s = some l ∧ l.lookup z = none ∧ s' = some ((z, sv) :: l)

theorem StaticsGrow.keeps {z : Nat} {s s' : Option (List (Nat × LazyVal))} (h : StaticsGrow z s s')
    {l : List (Nat × LazyVal)} (hs : s = some l) :
    ∃ l', s' = some l' ∧ ∀ z' sv, l.lookup z' = some sv → l'.lookup z' = some sv := by
  rcases h with rfl | ⟨l0, sv0, e, hz, rfl⟩
  · exact ⟨l, hs, fun _ _ h => h⟩
  · rw [hs] at e; cases e
    refine ⟨_, rfl, fun z' sv h => ?_⟩
    by_cases e : z' = z
    · subst e; rw [hz] at h; cases h
    · have : (z' == z) = false := by simpa using e
      simp only [List.lookup, this]; exact h

theorem lazyRead_statics {w w' : World} {sv : LazyVal} {v : Int} (h : w.lazyRead sv = .ok (w', v)) :
    w'.exec.lazyStatics = w.exec.lazyStatics ∧ w'.lazyInits = w.lazyInits := by
  obtain ⟨cs, _, _, _, _, rfl⟩ := lazyRead_ok h
  exact ⟨rfl, rfl⟩

/-- `lazyInitFinish` never replaces a registered entry -/
theorem lazyInitFinish_statics {w w' : World} {z id : Nat} {v : Int}
    (h : w.lazyInitFinish z id = .ok (w', v)) :
    StaticsGrow z w.exec.lazyStatics w'.exec.lazyStatics ∧ w'.lazyInits = w.lazyInits := by
  rcases hs : w.exec.lazyStatics with _ | l
  · rw [lazyInitFinish_shutdown z id hs] at h; cases h
  · rcases hz : l.lookup z with _ | sv
    · rw [lazyInitFinish_init id hs hz] at h
      obtain ⟨e1, e2⟩ := lazyRead_statics h
      exact ⟨.inr ⟨l, initVal w id, rfl, hz, by rw [e1]; rfl⟩, by rw [e2]; rfl⟩
    · rw [lazyInitFinish_found id hs hz] at h
      obtain ⟨e1, e2⟩ := lazyRead_statics h
      exact ⟨.inl (by rw [e1, initWritten_statics, hs]), by rw [e2]; rfl⟩

/-! ### the scheduling point of the initialiser keeps the table -/

theorem schedule_statics {e : Exec} {p : Bool} {r : Exec × Bool} (h : e.schedule p = .ok r) :
    r.1.lazyStatics = e.lazyStatics := by
  unfold Exec.schedule at h
  mt_split h
  all_goals first
    | (cases h; done)
    | (cases h; rfl)

theorem branch_statics {w w' : World} {o : Nat} {a : Action} {b wt : Bool}
    (h : w.branch o a b wt = .ok w') :
    w'.exec.lazyStatics = w.exec.lazyStatics ∧ w'.lazyInits = w.lazyInits := by
  unfold World.branch at h
  simp only [bind, Except.bind, pure, Except.pure] at h
  split at h
  · cases h
  · next r hr =>
    cases h
    have := schedule_statics hr
    exact ⟨this, rfl⟩

theorem primStart_statics {w w' : World} {x : Nat} {p : Prim} {next : Nat}
    (h : w.primStart x p next = .ok w') :
    w'.exec.lazyStatics = w.exec.lazyStatics ∧ w'.lazyInits = w.lazyInits := by
  unfold World.primStart at h
  split at h
  · dsimp only at h
    have := branch_statics h
    exact this
  · cases h; exact ⟨rfl, rfl⟩

theorem primEffect_statics {w : World} {x : Nat} {p : Prim} {r : World × Ret}
    (h : w.primEffect x p = .ok r) :
    r.1.exec.lazyStatics = w.exec.lazyStatics ∧ r.1.lazyInits = w.lazyInits := by
  unfold World.primEffect at h
  mt_split h
  all_goals first
    | (cases h; done)
    | (cases h; exact ⟨rfl, rfl⟩)

/-- every stage of `lazy z`: the table keeps its entries; at most one entry, for `z`, is added, and only
if `z` had none -/
theorem lazyStage_statics {w w' : World} {c : TCtl} {z : Nat} (h : w.lazyStage c z = .ok w') :
    StaticsGrow z w.exec.lazyStatics w'.exec.lazyStatics := by
  by_cases hc : c.stage = 0
  · rcases hs : w.exec.lazyStatics with _ | l
    · rw [lazyStage0_shutdown z hc hs] at h; cases h
    · rcases hz : l.lookup z with _ | sv
      · by_cases hx : w.cfg.nAtomics = 0
        · rw [lazyStage0_init_now hc hs hz hx] at h
          obtain ⟨⟨w1, v⟩, h1, h2⟩ := C08.map_ok h
          cases h2
          have := (lazyInitFinish_statics h1).1
          rw [show (bumped w z).exec.lazyStatics = some l from hs] at this
          exact this
        · rw [lazyStage0_init_branch hc hs hz hx] at h
          exact .inl ((primStart_statics h).1.trans hs)
      · rw [lazyStage0_found hc hs hz] at h
        obtain ⟨⟨w1, v⟩, h1, h2⟩ := C08.map_ok h
        cases h2
        exact .inl ((lazyRead_statics h1).1.trans hs)
  · rw [lazyStage_later z hc] at h
    obtain ⟨⟨w1, r⟩, h1, h2⟩ := WB.bind_eq_ok h
    obtain ⟨⟨w2, v⟩, h3, h4⟩ := WB.bind_eq_ok h2
    cases h4
    have e1 := (primEffect_statics h1).1
    have := (lazyInitFinish_statics h3).1
    rw [show w1.exec.lazyStatics = w.exec.lazyStatics from e1] at this
    exact this

/-! ### `World.init` -/

theorem init_facts {prog : Prog} {e : Exec} {w : World} (h : World.init prog e = .ok w) :
    w.exec.lazyStatics = e.lazyStatics ∧ w.exec.threads = e.threads ∧ w.lazyInits = [0, 0] ∧
    w.tlsInits = [0, 0] ∧ w.tlsDrops = [0, 0] ∧ w.tlsObs = [0, 0] ∧ w.ctl = [{}] ∧ w.prog = prog := by
  unfold World.init at h
  simp only [Except.bind_eq_ok'] at h
  obtain ⟨_, _, _, _, _, _, _, _, _, _, _, _, _, _, _, _, h⟩ := h
  cases h
  exact ⟨rfl, rfl, rfl, rfl, rfl, rfl, rfl, rfl⟩

end C17
end LoomVerif

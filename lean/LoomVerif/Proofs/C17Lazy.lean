/-
C17, lazy statics: `World.lazyGet` (`Lazy::get` + a read of the cell inside the value), the main
thread's epilogue (`lazy_statics.drop()`), `World.init`.
-/
import LoomVerif.Proofs.WorldBasics
import LoomVerif.Proofs.SyncRunOp
import LoomVerif.Proofs.C12VV
import LoomVerif.Proofs.InterpMaxTh

namespace LoomVerif
namespace C17
open World

/-- `try_get` (`sync_load(Acquire)`) + `cell.with(|p| *p)` on the value `sv` -/
def lazyRead (w : World) (sv : LazyVal) : Except Panic (World × Int) := do
  let w := w.setThs (w.ths.syncLoad sv.sync .acq)
  let w := w.sync
  let cs ← w.getCell sv.cell
  if cs.isWriting then throw .cellBusy
  if (w.ths.caus.ahead cs.writeAccess).isSome then throw (.causality 9)
  let w := w.setObj sv.cell (.cell { cs with readAccess := cs.readAccess.join w.ths.caus })
  pure (w, (sv.inst : Int) * 100 + cs.value)

theorem lazyGet_shutdown {w : World} (z : Nat) (hs : w.exec.lazyStatics = none) :
    w.lazyGet z = .error .lazyShutdown := by
  unfold World.lazyGet
  simp only [hs]; rfl

theorem lazyGet_found {w : World} {z : Nat} {l : List (Nat × LazyVal)} {sv : LazyVal}
    (hs : w.exec.lazyStatics = some l) (hz : l.lookup z = some sv) :
    w.lazyGet z = lazyRead w sv := by
  unfold World.lazyGet
  simp only [hs, pure_bind, hz]; rfl

/-- the fresh cell the initialiser creates -/
def initCell (w : World) : CellSt := { readAccess := w.ths.caus, writeAccess := w.ths.caus }

/-- the world in which the initialiser writes the cell: counter bumped, cell pushed, `synchronize` -/
def initW3 (w : World) (z : Nat) : World :=
  (({ w with lazyInits := w.lazyInits.set z (w.lazyInits.getD z 0 + 1) } : World).pushObj
    (.cell (initCell w))).1.sync

/-- the `StaticValue` the initialiser publishes -/
def initVal (w : World) (z : Nat) : LazyVal :=
  { sync := (initW3 w z).ths.syncStore Sync.new .ar, inst := w.lazyInits.getD z 0 + 1,
    cell := w.exec.objs.length }

/-- the world after `init_static` -/
def initWorld (w : World) (z : Nat) (l : List (Nat × LazyVal)) : World :=
  let w3 := initW3 w z
  let w4 := w3.setObj w.exec.objs.length
    (.cell { initCell w with writeAccess := (initCell w).writeAccess.join w3.ths.caus, value := 40 + z })
  { w4 with exec := { w4.exec with lazyStatics := some ((z, initVal w z) :: l) } }

theorem caus_le_inc (ths : Threads) : ths.caus.le ths.activeCausalityInc.caus := by
  unfold Threads.activeCausalityInc Threads.modifyActive Threads.caus Threads.activeT
  rw [WB.activeId_modify, WB.get_modify]
  split
  · exact C12.VV.le_inc _ _
  · exact C12.VV.le_refl _

theorem initW3_objs (w : World) (z : Nat) :
    (initW3 w z).exec.objs = w.exec.objs ++ [.cell (initCell w)] := rfl

theorem initW3_getCell (w : World) (z : Nat) :
    (initW3 w z).getCell w.exec.objs.length = .ok (initCell w) := by
  unfold World.getCell
  rw [initW3_objs]
  simp

theorem initW3_ahead (w : World) (z : Nat) :
    ((initW3 w z).ths.caus.ahead w.ths.caus).isSome = false :=
  C12.VV.ahead_none (caus_le_inc w.ths)

theorem lazyGet_init {w : World} {z : Nat} {l : List (Nat × LazyVal)}
    (hs : w.exec.lazyStatics = some l) (hz : l.lookup z = none) :
    w.lazyGet z = lazyRead (initWorld w z l) (initVal w z) := by
  unfold World.lazyGet
  simp only [hs, pure_bind, hz]
  show ((initW3 w z).getCell w.exec.objs.length >>= _) = _
  rw [initW3_getCell]
  have hn : ¬ ((initW3 w z).ths.caus.ahead w.ths.caus).isSome = true := by
    rw [initW3_ahead]; exact Bool.false_ne_true
  show (if ((initW3 w z).ths.caus.ahead w.ths.caus).isSome = true then _ else _) = _
  rw [if_neg hn]
  show (if ((initW3 w z).ths.caus.ahead w.ths.caus).isSome = true then _ else _) = _
  rw [if_neg hn]
  rfl

theorem getCell_ok {w : World} {o : Nat} {cs : CellSt} (h : w.getCell o = .ok cs) :
    w.exec.objs[o]? = some (.cell cs) := by
  unfold World.getCell at h; split at h <;> cases h; assumption

/-- the world a successful `lazyRead` produces -/
def readWorld (w : World) (sv : LazyVal) (cs : CellSt) : World :=
  (w.setThs (w.ths.syncLoad sv.sync .acq)).sync.setObj sv.cell
    (.cell { cs with readAccess :=
      cs.readAccess.join (w.setThs (w.ths.syncLoad sv.sync .acq)).sync.ths.caus })

theorem lazyRead_ok {w w' : World} {sv : LazyVal} {v : Int} (h : lazyRead w sv = .ok (w', v)) :
    ∃ cs, w.exec.objs[sv.cell]? = some (.cell cs) ∧ cs.isWriting = false ∧
      ((w.ths.syncLoad sv.sync .acq).activeCausalityInc.caus.ahead cs.writeAccess).isSome = false ∧
      v = (sv.inst : Int) * 100 + cs.value ∧ w' = readWorld w sv cs := by
  unfold lazyRead at h
  simp only [bind, Except.bind, pure, Except.pure] at h
  split at h
  · cases h
  · next cs hcs =>
    have hcs := getCell_ok hcs
    split at h
    · cases h
    · next hw =>
      split at h
      · cases h
      · next ha =>
        cases h
        exact ⟨cs, hcs, Bool.eq_false_iff.2 hw, Bool.eq_false_iff.2 ha, rfl, rfl⟩

/-- when the cell is there, not being written, and its last write happens-before the reader,
`lazyRead` succeeds -/
theorem lazyRead_of {w : World} {sv : LazyVal} {cs : CellSt}
    (hc : w.exec.objs[sv.cell]? = some (.cell cs)) (hw : cs.isWriting = false)
    (ha : ((w.ths.syncLoad sv.sync .acq).activeCausalityInc.caus.ahead cs.writeAccess).isSome = false) :
    lazyRead w sv = .ok (readWorld w sv cs, (sv.inst : Int) * 100 + cs.value) := by
  unfold lazyRead
  have hg : (w.setThs (w.ths.syncLoad sv.sync .acq)).sync.getCell sv.cell = .ok cs := by
    unfold World.getCell
    show (match w.exec.objs[sv.cell]? with | some (.cell a) => _ | _ => _) = _
    rw [hc]
  show ((w.setThs (w.ths.syncLoad sv.sync .acq)).sync.getCell sv.cell >>= _) = _
  rw [hg]
  show (if cs.isWriting = true then _ else _) = _
  rw [if_neg (by rw [hw]; exact Bool.false_ne_true)]
  show (if ((w.ths.syncLoad sv.sync .acq).activeCausalityInc.caus.ahead cs.writeAccess).isSome
    = true then _ else _) = _
  rw [if_neg (by rw [ha]; exact Bool.false_ne_true)]
  rfl

theorem readWorld_statics (w : World) (sv : LazyVal) (cs : CellSt) :
    (readWorld w sv cs).exec.lazyStatics = w.exec.lazyStatics := rfl
theorem readWorld_lazyInits (w : World) (sv : LazyVal) (cs : CellSt) :
    (readWorld w sv cs).lazyInits = w.lazyInits := rfl
theorem readWorld_objs (w : World) (sv : LazyVal) (cs : CellSt) :
    (readWorld w sv cs).exec.objs = w.exec.objs.set sv.cell
      (.cell { cs with readAccess :=
        cs.readAccess.join (w.ths.syncLoad sv.sync .acq).activeCausalityInc.caus }) := rfl
theorem readWorld_ths (w : World) (sv : LazyVal) (cs : CellSt) :
    (readWorld w sv cs).ths = (w.ths.syncLoad sv.sync .acq).activeCausalityInc := rfl

/-- the reader acquires the value's clock -/
theorem readWorld_caus (w : World) (sv : LazyVal) (cs : CellSt)
    (hact : w.tid < w.ths.threads.length) :
    sv.sync.hb.le (readWorld w sv cs).ths.caus ∧ w.ths.caus.le (readWorld w sv cs).ths.caus := by
  rw [readWorld_ths]
  have hA : WB.ActiveOk w.ths := hact
  have h1 : (w.ths.syncLoad sv.sync .acq).caus = w.ths.caus.join sv.sync.hb := by
    rw [WB.caus_syncLoad hA]; rfl
  have h2 := caus_le_inc (w.ths.syncLoad sv.sync .acq)
  rw [h1] at h2
  exact ⟨C12.VV.le_trans (C12.VV.le_join_right _ _) h2,
    C12.VV.le_trans (C12.VV.le_join_left _ _) h2⟩

/-! ### the initialiser -/

theorem initWorld_statics (w : World) (z : Nat) (l : List (Nat × LazyVal)) :
    (initWorld w z l).exec.lazyStatics = some ((z, initVal w z) :: l) := rfl
theorem initWorld_lazyInits (w : World) (z : Nat) (l : List (Nat × LazyVal)) :
    (initWorld w z l).lazyInits = w.lazyInits.set z (w.lazyInits.getD z 0 + 1) := rfl
theorem initWorld_ths (w : World) (z : Nat) (l : List (Nat × LazyVal)) :
    (initWorld w z l).ths = w.ths.activeCausalityInc := rfl
theorem initWorld_objs (w : World) (z : Nat) (l : List (Nat × LazyVal)) :
    (initWorld w z l).exec.objs = w.exec.objs ++
      [.cell { initCell w with
        writeAccess := w.ths.caus.join w.ths.activeCausalityInc.caus, value := 40 + z }] := by
  show (w.exec.objs ++ [Obj.cell (initCell w)]).set w.exec.objs.length _ = _
  simp
  rfl

/-- the published clock is above the initialiser's causality -/
theorem initVal_hb (w : World) (z : Nat) : w.ths.caus.le (initVal w z).sync.hb :=
  C12.VV.le_trans (caus_le_inc w.ths) (C12.VV.le_join_right _ _)

/-- the initialising access always succeeds (the initialiser's own write happens-before its
read) and returns instance `lazyInits[z] + 1`, content `40 + z` -/
theorem lazyGet_init_ok {w : World} {z : Nat} {l : List (Nat × LazyVal)}
    (hs : w.exec.lazyStatics = some l) (hz : l.lookup z = none)
    (hact : w.tid < w.ths.threads.length) :
    w.lazyGet z = .ok (readWorld (initWorld w z l) (initVal w z)
        { initCell w with
          writeAccess := w.ths.caus.join w.ths.activeCausalityInc.caus, value := 40 + z },
      ((w.lazyInits.getD z 0 + 1 : Nat) : Int) * 100 + (40 + z)) := by
  rw [lazyGet_init hs hz]
  refine lazyRead_of (cs := { initCell w with
      writeAccess := w.ths.caus.join w.ths.activeCausalityInc.caus, value := 40 + z }) ?_ rfl ?_
  · rw [initWorld_objs]
    show (w.exec.objs ++ _)[w.exec.objs.length]? = _
    simp
  · apply C12.VV.ahead_none
    rw [initWorld_ths]
    show (w.ths.caus.join w.ths.activeCausalityInc.caus).le _
    have hA : WB.ActiveOk w.ths.activeCausalityInc := by
      unfold WB.ActiveOk Threads.activeCausalityInc Threads.modifyActive
      rw [WB.length_modify, WB.activeId_modify]; exact hact
    have h1 : (w.ths.activeCausalityInc.syncLoad (initVal w z).sync .acq).caus =
        w.ths.activeCausalityInc.caus.join (initVal w z).sync.hb := by
      rw [WB.caus_syncLoad hA]; rfl
    have h2 := caus_le_inc (w.ths.activeCausalityInc.syncLoad (initVal w z).sync .acq)
    rw [h1] at h2
    refine C12.VV.le_trans ?_ h2
    exact C12.VV.join_le
      (C12.VV.le_trans (caus_le_inc w.ths) (C12.VV.le_join_left _ _)) (C12.VV.le_join_left _ _)

/-! ### `World.init` -/

theorem init_facts {prog : Prog} {e : Exec} {w : World} (h : World.init prog e = .ok w) :
    w.exec.lazyStatics = e.lazyStatics ∧ w.exec.threads = e.threads ∧ w.lazyInits = [0, 0] ∧
    w.tlsInits = [0, 0] ∧ w.tlsDrops = [0, 0] ∧ w.tlsObs = [0, 0] ∧ w.ctl = [{}] := by
  unfold World.init at h
  simp only [Except.bind_eq_ok'] at h
  obtain ⟨_, _, _, _, _, _, _, _, _, _, _, _, _, _, _, _, h⟩ := h
  cases h
  exact ⟨rfl, rfl, rfl, rfl, rfl, rfl, rfl⟩

end C17
end LoomVerif

/-
Refinement, WAIT fragment, part 6: the core relation `R2c` (control part + object parts; the `park` token is
related separately, `Refine2Park.lean`), the shape of the conclusion of the simulation (`Sim2c`), and the
generic transport lemmas (`R2c_complete`, `R2c_stutter`, `R2c_finish`).
-/
import LoomVerif.Proofs.Refine2Twin
import LoomVerif.Proofs.RefineStep2

namespace LoomVerif
namespace Refine2
open Refine Sy C07 C08

/-- the operation the active thread is at -/
def opAt2 (w : World) : Option Op := opOfCtl w.prog (w.ctlOf w.tid)

/-- **the core of the abstraction relation** between a world of the twin and the data of a reference state -/
structure R2c (w : World) (s : SCData2) : Prop where
  lenCtl : w.ctl.length = w.exec.threads.threads.length
  x : RX2 w.prog w.ctl s.ths
  o : RO w.prog w.ctl w.spawned w.exec.objs w.notifyWaiting s

/-- what a stage does to the control table: the records of the other threads are kept, new records start at
stage 0, the active thread keeps its body and either stays at its operation or is at stage 0 of another one -/
structure CtlStep (w w' : World) : Prop where
  len : w.ctl.length ≤ w'.ctl.length
  other : ∀ i, i < w.ctl.length → i ≠ w.tid → w'.ctl.getD i {} = w.ctl.getD i {}
  new : ∀ i, w.ctl.length ≤ i → i < w'.ctl.length →
    (w'.ctl.getD i {}).stage = 0 ∧ (w'.ctl.getD i {}).fin = 0
  body : (w'.ctl.getD w.tid {}).body = (w.ctl.getD w.tid {}).body
  fin : 10 ≤ (w.ctl.getD w.tid {}).fin → 10 ≤ (w'.ctl.getD w.tid {}).fin
  pos : (w'.ctl.getD w.tid {}).pc = (w.ctl.getD w.tid {}).pc ∨ (w'.ctl.getD w.tid {}).stage = 0

theorem CtlStep.of_modify {w w' : World} (f : TCtl → TCtl) (hact : w.tid < w.ctl.length)
    (hctl : w'.ctl = w.ctl.modify w.tid f)
    (hbody : (f (w.ctlOf w.tid)).body = (w.ctlOf w.tid).body)
    (hfin : 10 ≤ (w.ctlOf w.tid).fin → 10 ≤ (f (w.ctlOf w.tid)).fin)
    (hpos : (f (w.ctlOf w.tid)).pc = (w.ctlOf w.tid).pc ∨ (f (w.ctlOf w.tid)).stage = 0) : CtlStep w w' := by
  have hs : w'.ctl.getD w.tid {} = f (w.ctlOf w.tid) := by
    rw [hctl, getD_modify_self _ _ _ _ hact]; rfl
  refine ⟨by rw [hctl]; simp, ?_, ?_, ?_, ?_, ?_⟩
  · intro i _ hi
    rw [hctl, getD_modify_ne _ _ _ _ _ hi]
  · intro i h1 h2
    rw [hctl] at h2
    simp at h2; omega
  · rw [hs]; exact hbody
  · rw [hs]; exact hfin
  · rw [hs]; exact hpos

/-- a step of the reference: a step of `SC.step` of an enabled thread, or a spurious return -/
def RefStep (p : Prog) (s : SCData2) (b : Nat) (l : Option (Nat × Ret)) (s' : SCData2) : Prop :=
  (SCData2.enabled p s b = true ∧ (l, s') ∈ SCData2.stepL p s b) ∨ (l, s') ∈ SCData2.spuriousL p s b

/-- the conclusion of the simulation for the core relation -/
def Sim2c (w : World) (s : SCData2) (w' : World) : Prop :=
  w'.prog = w.prog ∧ CtlStep w w' ∧
  ((R2c w' s ∧ w'.events = w.events) ∨
   ∃ l s', RefStep w.prog s (w.ctlOf w.tid).body l s' ∧ R2c w' s' ∧
     w'.events.map triple = SCData.label (w.ctlOf w.tid).body l ++ w.events.map triple)

theorem R2c.mk' {w' : World} {s' : SCData2} {p : Prog} {ctl : List TCtl} {sp : List (Nat × Nat × Nat)}
    (hp : w'.prog = p) (hc : w'.ctl = ctl) (hs : w'.spawned = sp)
    (hl : ctl.length = w'.exec.threads.threads.length) (hx : RX2 p ctl s'.ths)
    (ho : RO p ctl sp w'.exec.objs w'.notifyWaiting s') : R2c w' s' := by
  subst hp hc hs
  exact ⟨hl, hx, ho⟩

/-! ### `pend*` of plain operations -/

theorem pendN_stage0 (p : Prog) (c : TCtl) (h : c.stage = 0) : pendN p c = none := by
  unfold pendN
  split
  · rw [if_pos h]
  · rfl

theorem pendCv_stage0 (p : Prog) (c : TCtl) (h : c.stage = 0) : pendCv p c = none := by
  unfold pendCv
  split
  · rw [if_neg (by omega)]
  · rfl

theorem pendN_of_op {p : Prog} {c : TCtl} {op : Op} (h : opOfCtl p c = some op) (hn : ∀ n, op ≠ .nWait n) :
    pendN p c = none := by
  unfold pendN
  rw [h]
  cases op <;> first | rfl | exact absurd rfl (hn _)

theorem pendCv_of_op {p : Prog} {c : TCtl} {op : Op} (h : opOfCtl p c = some op)
    (hn : ∀ v m, op ≠ .cvWait v m) : pendCv p c = none := by
  unfold pendCv
  rw [h]
  cases op <;> first | rfl | exact absurd rfl (hn _ _)

theorem pendD_of_op {p : Prog} {c : TCtl} {op : Op} (h : opOfCtl p c = some op) (hn : ∀ q, op ≠ .dropRx q) :
    pendD p c = none := by
  unfold pendD
  rw [h]
  cases op <;> first | rfl | exact absurd rfl (hn _)

theorem pend_none {p : Prog} {c : TCtl} (h : opOfCtl p c = none) :
    pendN p c = none ∧ pendCv p c = none ∧ pendD p c = none := by
  unfold pendN pendCv pendD
  rw [h]; exact ⟨rfl, rfl, rfl⟩

/-- an operation that is not `nWait`, `cvWait`, `dropRx` -/
def plainOp : Op → Bool
  | .nWait _ | .cvWait .. | .dropRx _ => false
  | _ => true

theorem plain_pend {p : Prog} {c : TCtl} {op : Op} (h : opOfCtl p c = some op) (hp : plainOp op = true) :
    pendN p c = none ∧ pendCv p c = none ∧ pendD p c = none :=
  ⟨pendN_of_op h (by intro n e; rw [e] at hp; cases hp), pendCv_of_op h (by intro v m e; rw [e] at hp; cases hp),
    pendD_of_op h (by intro q e; rw [e] at hp; cases hp)⟩

section
variable {w : World} {s : SCData2}

/-- what the relation says about the active thread -/
theorem base2 (hR : R2c w s) (hact : w.tid < w.ctl.length) :
    (w.ctlOf w.tid).body < w.prog.threads.length ∧
    ThRel2 w.prog (w.ctlOf w.tid) (s.th (w.ctlOf w.tid).body) ∧
    SCData2.opOf w.prog s (w.ctlOf w.tid).body = opAt2 w := by
  obtain ⟨h1, h2⟩ := hR.x.thr w.tid hact
  refine ⟨h1, h2, ?_⟩
  unfold SCData2.opOf opAt2 opOfCtl
  have : (s.th (w.ctlOf w.tid).body).pc = (w.ctlOf w.tid).pc := h2.2.1
  rw [this]

theorem fin_zero2 (hR : R2c w s) (hact : w.tid < w.ctl.length) {op : Op} (hop : opAt2 w = some op) :
    (w.ctlOf w.tid).fin = 0 := by
  apply Classical.byContradiction
  intro hne
  have := hR.x.epi w.tid hact hne
  unfold opAt2 at hop
  rw [show w.ctl.getD w.tid {} = w.ctlOf w.tid from rfl] at this
  rw [this] at hop; cases hop

theorem started_running2 (hR : R2c w s) (hact : w.tid < w.ctl.length) (hfin : (w.ctlOf w.tid).fin < 10) :
    (s.th (w.ctlOf w.tid).body).started = true ∧ (s.th (w.ctlOf w.tid).body).finished = false := by
  obtain ⟨_, h2, _⟩ := base2 hR hact
  refine ⟨h2.1, ?_⟩
  rw [h2.2.2.2.1]
  simp; omega

/-- outside stages 2, 3 of a `cvWait` the reference thread is not inside a `cvWait` -/
theorem cv_none (hR : R2c w s) (hact : w.tid < w.ctl.length)
    (hcv : pendCv w.prog (w.ctlOf w.tid) = none) :
    (s.th (w.ctlOf w.tid).body).cvWaiting = none ∧ (s.th (w.ctlOf w.tid).body).cvNotified = none :=
  (hR.o.cv.th w.tid hact).1 hcv

/-- the operation completes with result `r`; the objects and the reference data (other than the threads) have
changed consistently.  For operations that are not `nWait`, `cvWait`, `dropRx`. -/
theorem R2c_complete {w0 : World} {op : Op} (hR : R2c w s) (hact : w.tid < w.ctl.length)
    (hop : opAt2 w = some op) (hpl : plainOp op = true)
    (hctl : w0.ctl = w.ctl) (htid : w0.tid = w.tid) (hprog : w0.prog = w.prog) (hsp : w0.spawned = w.spawned)
    (hlen : w0.exec.threads.threads.length = w.exec.threads.threads.length)
    {d : SCData2} (hths : d.ths = s.ths)
    (ho : RO w.prog w.ctl w.spawned w0.exec.objs w0.notifyWaiting d) (r : Ret) :
    R2c (w0.complete r) (d.ret (w.ctlOf w.tid).body r) ∧ CtlStep w (w0.complete r) := by
  obtain ⟨_, hrel, _⟩ := base2 hR hact
  have hf0 := fin_zero2 hR hact hop
  obtain ⟨hN, hC, hD⟩ := plain_pend (c := w.ctlOf w.tid) hop hpl
  obtain ⟨h1, h2, h3, h4, h5, h6, h7⟩ := hrel
  have hcc : (w0.complete r).ctl = w.ctl.modify w.tid (completeF r) := by rw [ctl_complete', hctl, htid]
  refine ⟨?_, CtlStep.of_modify (completeF r) hact hcc rfl id (.inr rfl)⟩
  simp only [World.ctlOf, SCData2.th] at *
  refine R2c.mk' (p := w.prog) (ctl := w.ctl.modify w.tid (completeF r)) (sp := w.spawned)
    hprog hcc hsp ?_ ?_ ?_
  · show _ = w0.exec.threads.threads.length
    rw [hlen, ← hR.lenCtl]; simp
  · show RX2 _ _ (d.ths.modify _ _)
    rw [hths]
    refine hR.x.modify hact (completeF r) _ rfl (Nat.le_succ _) ?_ ?_
    · refine ⟨h1, ?_, ?_, h4, Nat.zero_le _, h6, h7⟩
      · show (s.ths.getD _ {}).pc + 1 = (w.ctl.getD w.tid {}).pc + 1
        rw [h2]
      · show ((s.ths.getD _ {}).pc, r) :: (s.ths.getD _ {}).rets =
          ((w.ctl.getD w.tid {}).pc, r) :: (w.ctl.getD w.tid {}).results
        rw [h2, h3]
    · intro hne
      exact absurd hf0 hne
  · have := (ho.modifyPlain w.tid (completeF r) rfl (Nat.le_succ _) id
      ((pendN_stage0 _ _ rfl).trans hN.symm) hC (pendCv_stage0 _ _ rfl)
      (by intro q hq; rw [hD] at hq; cases hq)).ths
        (d.ths.modify (w.ctl.getD w.tid {}).body fun h => { h with rets := (h.pc, r) :: h.rets, pc := h.pc + 1 })
        (CvSame.modify _ _ _ fun _ => ⟨rfl, rfl⟩)
    exact this

/-- a stuttering stage: only the active thread's stage / epilogue counter moves -/
theorem R2c_stutter {w' : World} (hR : R2c w s) (hact : w.tid < w.ctl.length) (f : TCtl → TCtl)
    (hq : Quiet2 w w') (hctl : w'.ctl = w.ctl.modify w.tid f)
    (hbody : (f (w.ctlOf w.tid)).body = (w.ctlOf w.tid).body)
    (hpc : (f (w.ctlOf w.tid)).pc = (w.ctlOf w.tid).pc)
    (hres : (f (w.ctlOf w.tid)).results = (w.ctlOf w.tid).results)
    (hloc : (f (w.ctlOf w.tid)).locals = (w.ctlOf w.tid).locals)
    (hdq : (f (w.ctlOf w.tid)).dtorQueue = (w.ctlOf w.tid).dtorQueue)
    (hst : (f (w.ctlOf w.tid)).stage ≤ maxStage (opAt2 w))
    (hfin : 10 ≤ (f (w.ctlOf w.tid)).fin ↔ 10 ≤ (w.ctlOf w.tid).fin)
    (hepi : (f (w.ctlOf w.tid)).fin ≠ 0 → opAt2 w = none)
    (hN : pendN w.prog (f (w.ctlOf w.tid)) = pendN w.prog (w.ctlOf w.tid))
    (hC0 : pendCv w.prog (w.ctlOf w.tid) = none) (hC1 : pendCv w.prog (f (w.ctlOf w.tid)) = none) :
    R2c w' s ∧ CtlStep w w' := by
  obtain ⟨_, hrel, _⟩ := base2 hR hact
  obtain ⟨h1, h2, h3, h4, h5, h6, h7⟩ := hrel
  have hop : opOfCtl w.prog (f (w.ctlOf w.tid)) = opAt2 w := by
    unfold opOfCtl opAt2; rw [hbody, hpc]; rfl
  refine ⟨?_, CtlStep.of_modify f hact hctl hbody hfin.2 (.inl hpc)⟩
  unfold opAt2 at hepi hst
  simp only [World.ctlOf, SCData2.th] at *
  refine R2c.mk' (p := w.prog) (ctl := w.ctl.modify w.tid f) (sp := w.spawned) hq.prog hctl hq.spawned ?_ ?_ ?_
  · rw [hq.len, ← hR.lenCtl]; simp
  · refine hR.x.stutter hact f hbody (by rw [hpc]; exact Nat.le_refl _) ?_ ?_
    · refine ⟨h1, by rw [hpc]; exact h2, by rw [hres]; exact h3, ?_, ?_, by rw [hloc]; exact h6,
        by rw [hdq]; exact h7⟩
      · rw [h4]
        exact decide_eq_decide.2 hfin.symm
      · rw [hop]; exact hst
    · intro hne
      rw [hop]
      exact hepi hne
  · rw [hq.nw]
    refine (hR.o.modifyPlain w.tid f hbody (by rw [hpc]; exact Nat.le_refl _) hfin.2 hN hC0 hC1 ?_).viewLe hq.view
    intro q hq'
    unfold pendD at hq' ⊢
    rw [hop]; exact hq'

/-- the stage of the epilogue that makes the thread joinable -/
theorem R2c_finish {w0 : World} (hR : R2c w s) (hact : w.tid < w.ctl.length)
    (hnone : opAt2 w = none)
    (hctl : w0.ctl = w.ctl) (hprog : w0.prog = w.prog) (hsp : w0.spawned = w.spawned)
    (hlen : w0.exec.threads.threads.length = w.exec.threads.threads.length)
    (ho : RO w.prog (w.ctl.modify w.tid fun c => { c with fin := 10 }) w.spawned w0.exec.objs
      w0.notifyWaiting s) :
    R2c (w0.modCtl w.tid fun c => { c with fin := 10 })
      (s.modTh (w.ctlOf w.tid).body fun h => { h with finished := true }) ∧
    CtlStep w (w0.modCtl w.tid fun c => { c with fin := 10 }) := by
  obtain ⟨_, hrel, _⟩ := base2 hR hact
  obtain ⟨h1, h2, h3, h4, h5, h6, h7⟩ := hrel
  have hcc : (w0.modCtl w.tid fun c => { c with fin := 10 }).ctl =
      w.ctl.modify w.tid fun c => { c with fin := 10 } := by
    show w0.ctl.modify _ _ = _; rw [hctl]
  refine ⟨?_, CtlStep.of_modify _ hact hcc rfl (fun _ => Nat.le_refl _) (.inl rfl)⟩
  unfold opAt2 at hnone
  simp only [World.ctlOf, SCData2.th] at *
  refine R2c.mk' (p := w.prog) (ctl := w.ctl.modify w.tid fun c => { c with fin := 10 }) (sp := w.spawned)
    hprog hcc hsp ?_ ?_ ?_
  · show _ = w0.exec.threads.threads.length
    rw [hlen, ← hR.lenCtl]; simp
  · refine hR.x.modify hact _ _ rfl (Nat.le_refl _) ?_ ?_
    · exact ⟨h1, h2, h3, rfl, h5, h6, h7⟩
    · intro _
      exact hnone
  · exact ho.ths _ (CvSame.modify _ _ _ fun _ => ⟨rfl, rfl⟩)

theorem events_complete2 (w : World) (r : Ret) :
    (w.complete r).events.map triple = ((w.ctlOf w.tid).body, (w.ctlOf w.tid).pc, r) :: w.events.map triple := rfl

/-- a plain operation (not blocking in the reference) of a running thread is enabled -/
theorem enabled_plain2 (hR : R2c w s) (hact : w.tid < w.ctl.length) {op : Op} (hop : opAt2 w = some op)
    (hcv : pendCv w.prog (w.ctlOf w.tid) = none)
    (hl : ∀ m, op ≠ .lock m) (hj : ∀ b, op ≠ .join b) (hn : ∀ n, op ≠ .nWait n) (hp : op ≠ .park)
    (hr : ∀ q, op ≠ .recv q) :
    SCData2.enabled w.prog s (w.ctlOf w.tid).body = true := by
  obtain ⟨_, _, hof⟩ := base2 hR hact
  obtain ⟨h1, h2⟩ := started_running2 hR hact (by rw [fin_zero2 hR hact hop]; omega)
  obtain ⟨c1, c2⟩ := cv_none hR hact hcv
  unfold SCData2.enabled
  rw [hof, hop, h1, h2, c1, c2]
  cases op <;> first
    | rfl
    | (exfalso; exact hl _ rfl)
    | (exfalso; exact hj _ rfl)
    | (exfalso; exact hn _ rfl)
    | (exfalso; exact hp rfl)
    | (exfalso; exact hr _ rfl)

/-- completion of an operation with result `r`, the object parts given for the new control table -/
theorem R2c_complete' {w0 : World} {op : Op} (hR : R2c w s) (hact : w.tid < w.ctl.length)
    (hop : opAt2 w = some op)
    (hctl : w0.ctl = w.ctl) (htid : w0.tid = w.tid) (hprog : w0.prog = w.prog) (hsp : w0.spawned = w.spawned)
    (hlen : w0.exec.threads.threads.length = w.exec.threads.threads.length)
    {d : SCData2} (hths : d.ths = s.ths) (r : Ret)
    (ho : RO w.prog (w.ctl.modify w.tid (completeF r)) w.spawned w0.exec.objs w0.notifyWaiting
      (d.ret (w.ctlOf w.tid).body r)) :
    R2c (w0.complete r) (d.ret (w.ctlOf w.tid).body r) ∧ CtlStep w (w0.complete r) := by
  obtain ⟨_, hrel, _⟩ := base2 hR hact
  have hf0 := fin_zero2 hR hact hop
  obtain ⟨h1, h2, h3, h4, h5, h6, h7⟩ := hrel
  have hcc : (w0.complete r).ctl = w.ctl.modify w.tid (completeF r) := by rw [ctl_complete', hctl, htid]
  refine ⟨?_, CtlStep.of_modify (completeF r) hact hcc rfl id (.inr rfl)⟩
  simp only [World.ctlOf, SCData2.th] at *
  refine R2c.mk' (p := w.prog) (ctl := w.ctl.modify w.tid (completeF r)) (sp := w.spawned)
    hprog hcc hsp ?_ ?_ ho
  · show _ = w0.exec.threads.threads.length
    rw [hlen, ← hR.lenCtl]; simp
  · show RX2 _ _ (d.ths.modify _ _)
    rw [hths]
    refine hR.x.modify hact (completeF r) _ rfl (Nat.le_succ _) ?_ ?_
    · refine ⟨h1, ?_, ?_, h4, Nat.zero_le _, h6, h7⟩
      · show (s.ths.getD _ {}).pc + 1 = (w.ctl.getD w.tid {}).pc + 1
        rw [h2]
      · show ((s.ths.getD _ {}).pc, r) :: (s.ths.getD _ {}).rets =
          ((w.ctl.getD w.tid {}).pc, r) :: (w.ctl.getD w.tid {}).results
        rw [h2, h3]
    · intro hne
      exact absurd hf0 hne

/-- completion of an operation with result `r`: the reference threads may have changed in fields the control part
does not read (given: `RX2` for the data before `ret`), the object parts are given for the new control table -/
theorem R2c_complete'' {w0 : World} {op : Op} (hR : R2c w s) (hact : w.tid < w.ctl.length)
    (hop : opAt2 w = some op)
    (hctl : w0.ctl = w.ctl) (htid : w0.tid = w.tid) (hprog : w0.prog = w.prog) (hsp : w0.spawned = w.spawned)
    (hlen : w0.exec.threads.threads.length = w.exec.threads.threads.length)
    {d : SCData2} (hx : RX2 w.prog w.ctl d.ths) (r : Ret)
    (ho : RO w.prog (w.ctl.modify w.tid (completeF r)) w.spawned w0.exec.objs w0.notifyWaiting
      (d.ret (w.ctlOf w.tid).body r)) :
    R2c (w0.complete r) (d.ret (w.ctlOf w.tid).body r) ∧ CtlStep w (w0.complete r) := by
  have hf0 := fin_zero2 hR hact hop
  obtain ⟨_, h1, h2, h3, h4, h5, h6, h7⟩ := hx.thr w.tid hact
  have hcc : (w0.complete r).ctl = w.ctl.modify w.tid (completeF r) := by rw [ctl_complete', hctl, htid]
  refine ⟨?_, CtlStep.of_modify (completeF r) hact hcc rfl id (.inr rfl)⟩
  simp only [World.ctlOf, SCData2.th] at *
  refine R2c.mk' (p := w.prog) (ctl := w.ctl.modify w.tid (completeF r)) (sp := w.spawned)
    hprog hcc hsp ?_ ?_ ho
  · show _ = w0.exec.threads.threads.length
    rw [hlen, ← hR.lenCtl]; simp
  · show RX2 _ _ (d.ths.modify _ _)
    refine hx.modify hact (completeF r) _ rfl (Nat.le_succ _) ?_ ?_
    · refine ⟨h1, ?_, ?_, h4, Nat.zero_le _, h6, h7⟩
      · show (d.ths.getD _ {}).pc + 1 = (w.ctl.getD w.tid {}).pc + 1
        rw [h2]
      · show ((d.ths.getD _ {}).pc, r) :: (d.ths.getD _ {}).rets =
          ((w.ctl.getD w.tid {}).pc, r) :: (w.ctl.getD w.tid {}).results
        rw [h2, h3]
    · intro hne
      exact absurd hf0 hne

/-- a stage that keeps the active thread at its operation (only `stage` moves), the reference threads changing
at most in fields the control part does not read; the object parts are given for the new control table -/
theorem R2c_stage' {w' : World} {op : Op} {s' : SCData2} (hR : R2c w s) (hact : w.tid < w.ctl.length)
    (hop : opAt2 w = some op) (k : Nat) (hk : k ≤ maxStage (some op))
    (hprog : w'.prog = w.prog) (hsp : w'.spawned = w.spawned)
    (hlen : w'.exec.threads.threads.length = w.exec.threads.threads.length)
    (hctl : w'.ctl = w.ctl.modify w.tid fun c => { c with stage := k })
    (hx : RX2 w.prog w.ctl s'.ths)
    (ho : RO w.prog (w.ctl.modify w.tid fun c => { c with stage := k }) w.spawned w'.exec.objs
      w'.notifyWaiting s') :
    R2c w' s' ∧ CtlStep w w' := by
  have hf0 := fin_zero2 hR hact hop
  have hop' : opOfCtl w.prog (w.ctl.getD w.tid {}) = some op := hop
  refine ⟨?_, CtlStep.of_modify (fun c => { c with stage := k }) hact hctl rfl id (.inl rfl)⟩
  refine R2c.mk' (p := w.prog) (ctl := w.ctl.modify w.tid fun c => { c with stage := k }) (sp := w.spawned)
    hprog hctl hsp ?_ ?_ ho
  · rw [hlen, ← hR.lenCtl]; simp
  · obtain ⟨_, h1, h2, h3, h4, h5, h6, h7⟩ := hx.thr w.tid hact
    refine hx.stutter hact _ rfl (Nat.le_refl _) ?_ ?_
    · refine ⟨h1, h2, h3, h4, ?_, h6, h7⟩
      show k ≤ maxStage (opOfCtl w.prog { w.ctl.getD w.tid {} with stage := k })
      rw [show opOfCtl w.prog { w.ctl.getD w.tid {} with stage := k } = some op from hop']
      exact hk
    · intro hne
      exact absurd hf0 hne

end

end Refine2
end LoomVerif

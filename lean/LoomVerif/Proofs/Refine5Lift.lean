/-
Refinement, STATICS fragment: the data semantics `SCData5` and the reference semantics proper.  Every step of
`SCData5.stepL` from the data of a reference state is the data of a step of `SC.step` of the same thread, unless
that step stops with a data-race verdict (`step_lift5`); hence every run of the data semantics from the initial
state is the data of an execution of `Spec/SC.lean` (`Run.lift5`).  Conversely a step of `SC.step` on an operation
of the fragment either stops with a verdict or is `SCData5.step` on the data (`step_data5`).

Threads own thread-locals here, so the invariant is `FragTh5` (`Refine.FragTh` without `locals = []`); programs
have `tlsDtor ≠ 1` (the destructors are not separate steps, `phase` stays `0`).
-/
import LoomVerif.Proofs.Refine5Data

namespace LoomVerif
namespace Refine5
open Refine

/-! ### the invariant -/

/-- invariant of the threads of statics-fragment programs (tlsDtor ≠ 1): not inside a cvwait, no multi-phase operation -/
def FragTh5 (h : SC.Th) : Prop := h.cvWaiting = none ∧ h.cvNotified = none ∧ h.phase = 0

def FragSt5 (s : SC.St) : Prop := s.verdict = none ∧ ∀ t, FragTh5 (s.th t)

theorem fragTh5_default : FragTh5 ({} : SC.Th) := ⟨rfl, rfl, rfl⟩

theorem fragSt5_init (p : Prog) : FragSt5 (SC.init p) := by
  refine ⟨rfl, fun t => ?_⟩
  unfold SC.St.th SC.init
  simp only [List.getD, List.getElem?_map]
  cases (List.range p.threads.length)[t]? with
  | none => exact fragTh5_default
  | some i => exact ⟨rfl, rfl, rfl⟩

/-- a change of a thread that keeps the three invariant fields keeps the invariant -/
theorem fragTh5_modTh {s : SC.St} {t : Nat} {f : SC.Th → SC.Th} (h : ∀ u, FragTh5 (s.th u))
    (hf : ∀ a, FragTh5 a → FragTh5 (f a)) (u : Nat) : FragTh5 ((s.modTh t f).th u) := by
  rw [th_modTh _ _ _ _ (.inr trivial)]
  split
  · exact hf _ (h u)
  · exact h u

theorem fragTh5_keep {a b : SC.Th} (ha : FragTh5 a) (h1 : b.cvWaiting = a.cvWaiting)
    (h2 : b.cvNotified = a.cvNotified) (h4 : b.phase = a.phase) : FragTh5 b :=
  ⟨h1.trans ha.1, h2.trans ha.2.1, h4.trans ha.2.2⟩

macro "frag5_mod " h:term : tactic =>
  `(tactic| (refine fragTh5_modTh $h ?_ _; intro a ha; exact fragTh5_keep ha rfl rfl rfl))

theorem fragTh5_tick {s : SC.St} {t : Nat} (h : ∀ u, FragTh5 (s.th u)) (u : Nat) : FragTh5 ((s.tick t).th u) := by
  unfold SC.St.tick
  frag5_mod h
theorem fragTh5_acquire {s : SC.St} {t : Nat} {c : VV} (h : ∀ u, FragTh5 (s.th u)) (u : Nat) :
    FragTh5 ((s.acquire t c).th u) := by
  unfold SC.St.acquire
  frag5_mod h
theorem fragTh5_ret {s : SC.St} {t : Nat} {r : Ret} (h : ∀ u, FragTh5 (s.th u)) (u : Nat) :
    FragTh5 ((s.ret t r).th u) := by
  unfold SC.St.ret
  frag5_mod h

/-! ### projection lemmas -/

theorem data5_modTh' (s : SC.St) (t : Nat) (f : SC.Th → SC.Th) (g : DTh → DTh)
    (gl : List (Nat × Nat) → List (Nat × Nat))
    (h : ∀ a, dth (f a) = g (dth a)) (hl : ∀ a, (f a).locals = gl a.locals) :
    data5 (s.modTh t f) = ((data5 s).modTh t g).modLoc t gl := by
  simp only [data5, SC.St.modTh, SCData5.modTh, SCData5.modLoc]
  rw [map_modify _ _ _ g dth h, map_modify _ _ f gl (·.locals) hl]

theorem data5_modTh (s : SC.St) (t : Nat) (f : SC.Th → SC.Th) (g : DTh → DTh)
    (h : ∀ a, dth (f a) = g (dth a)) (hl : ∀ a, (f a).locals = a.locals) :
    data5 (s.modTh t f) = (data5 s).modTh t g := by
  rw [data5_modTh' s t f g id h hl]
  simp only [SCData5.modLoc]
  rw [modify_id' _ _ id (fun _ => rfl)]

theorem data5_modLoc (s : SC.St) (t : Nat) (f : SC.Th → SC.Th) (gl : List (Nat × Nat) → List (Nat × Nat))
    (h : ∀ a, dth (f a) = dth a) (hl : ∀ a, (f a).locals = gl a.locals) :
    data5 (s.modTh t f) = (data5 s).modLoc t gl := by
  rw [data5_modTh' s t f id gl h hl]
  simp only [SCData5.modTh]
  rw [modify_id' _ _ id (fun _ => rfl)]

theorem data5_modTh_id (s : SC.St) (t : Nat) (f : SC.Th → SC.Th) (h : ∀ a, dth (f a) = dth a)
    (hl : ∀ a, (f a).locals = a.locals) : data5 (s.modTh t f) = data5 s := by
  rw [data5_modTh s t f id h hl]
  simp only [SCData5.modTh]
  rw [modify_id' _ _ id (fun _ => rfl)]

theorem data5_tick (s : SC.St) (t : Nat) : data5 (s.tick t) = data5 s :=
  data5_modTh_id _ _ _ (fun _ => rfl) (fun _ => rfl)
theorem data5_acquire (s : SC.St) (t : Nat) (c : VV) : data5 (s.acquire t c) = data5 s :=
  data5_modTh_id _ _ _ (fun _ => rfl) (fun _ => rfl)
theorem data5_ret (s : SC.St) (t : Nat) (r : Ret) : data5 (s.ret t r) = (data5 s).ret t r :=
  data5_modTh _ _ _ _ (fun _ => rfl) (fun _ => rfl)

theorem data5_finished (s : SC.St) (t : Nat) :
    data5 (s.modTh t fun h => { h with finished := true }) = (data5 s).modTh t fun h => { h with finished := true } :=
  data5_modTh s t (fun h => { h with finished := true }) _ (fun _ => rfl) (fun _ => rfl)
theorem data5_started (s : SC.St) (t : Nat) (c : VV) :
    data5 (s.modTh t fun h => { h with started := true, vc := (h.vc.join c).inc t }) =
      (data5 s).modTh t fun h => { h with started := true } :=
  data5_modTh s t (fun h => { h with started := true, vc := (h.vc.join c).inc t }) _ (fun _ => rfl) (fun _ => rfl)
theorem data5_pc (s : SC.St) (t n : Nat) :
    data5 (s.modTh t fun h => { h with pc := h.pc + n }) = (data5 s).modTh t fun h => { h with pc := h.pc + n } :=
  data5_modTh s t (fun h => { h with pc := h.pc + n }) _ (fun _ => rfl) (fun _ => rfl)

theorem data5_setCells (s : SC.St) (c : List Int) (w : List VV) :
    data5 { s with cells := c, cellW := w } = { data5 s with cells := c } := rfl
theorem data5_setMutex (s : SC.St) (m : List (Option Nat)) :
    data5 { s with mutex := m } = { data5 s with mutex := m } := rfl
theorem data5_setMutexRel (s : SC.St) (m : List (Option Nat)) (r : List VV) :
    data5 { s with mutex := m, mutexRel := r } = { data5 s with mutex := m } := rfl
theorem data5_setCellR (s : SC.St) (r : List VV) : data5 { s with cellR := r } = data5 s := rfl

theorem data5_th (s : SC.St) (t : Nat) : (data5 s).th t = dth (s.th t) := data_th s t

theorem data5_loc (s : SC.St) (t : Nat) : (data5 s).loc t = (s.th t).locals := by
  simp only [SCData5.loc, data5, SC.St.th, List.getD, List.getElem?_map]
  cases s.ths[t]? <;> rfl

theorem data5_opOf (p : Prog) (s : SC.St) (t : Nat) : SCData5.opOf p (data5 s) t = SC.opOf p s t :=
  data_opOf p s t

/-! ### `SC.enabled` on the data -/

theorem enabled_data5 {p : Prog} {s : SC.St} {t : Nat} (hv : s.verdict = none) (hf : FragTh5 (s.th t))
    (hop : ∀ op, SC.opOf p s t = some op → isFrag5 op = true) :
    SC.enabled p s t = SCData5.enabled p (data5 s) t := by
  unfold SC.enabled SCData5.enabled SCData.enabled
  rw [data5_base, data_opOf, data_th]
  simp only [hv, hf.1, hf.2.1, Option.isNone_none, Bool.true_and, dth]
  cases ho : SC.opOf p s t with
  | none => rfl
  | some op =>
    have := hop op ho
    cases op <;> simp only [isFrag5, isFrag, isStatOp, Bool.or_false, Bool.false_eq_true] at this
    case join b => simp only [data_th, dth]
    all_goals rfl

/-! ### `tlsGet` -/

theorem tlsGet_fst (s : SC.St) (t k : Nat) : data5 (SC.tlsGet s t k).1 = (SCData5.tlsGet (data5 s) t k).1 := by
  unfold SC.tlsGet SCData5.tlsGet
  rw [data5_loc]
  cases (s.th t).locals.lookup k with
  | some id => rfl
  | none =>
    simp only
    exact data5_modLoc { s with tlsInits := s.tlsInits.set k (s.tlsInits.getD k 0 + 1) } t
      (fun h => { h with locals := (k, t * 10 + 1) :: h.locals }) (fun l => (k, t * 10 + 1) :: l)
      (fun _ => rfl) (fun _ => rfl)

theorem tlsGet_snd (s : SC.St) (t k : Nat) : (SC.tlsGet s t k).2 = (SCData5.tlsGet (data5 s) t k).2 := by
  unfold SC.tlsGet SCData5.tlsGet
  rw [data5_loc]
  cases (s.th t).locals.lookup k <;> rfl

theorem tlsGet_verdict (s : SC.St) (t k : Nat) : (SC.tlsGet s t k).1.verdict = s.verdict := by
  unfold SC.tlsGet
  split <;> rfl

theorem fragTh5_tlsGet {s : SC.St} {t k : Nat} (h : ∀ u, FragTh5 (s.th u)) (u : Nat) :
    FragTh5 ((SC.tlsGet s t k).1.th u) := by
  unfold SC.tlsGet
  split
  · exact h u
  · simp only
    have h' : ∀ u, FragTh5 (({ s with tlsInits := s.tlsInits.set k (s.tlsInits.getD k 0 + 1) } : SC.St).th u) := h
    frag5_mod h'

/-! ### the end of a thread -/

/-- the keys (0, 1) thread `t` owns -/
def liveSC (s : SC.St) (t : Nat) : List Nat := [0, 1].filter fun k => ((s.th t).locals.map (·.1)).contains k

/-- the fold function inside `SC.finish` -/
def dtorSC (p : Prog) (live : List Nat) (t : Nat) (s : SC.St) (k : Nat) : SC.St :=
  let s := { s with tlsDrops := s.tlsDrops.set k (s.tlsDrops.getD k 0 + 1) }
  match p.cfg.tlsDtor with
  | 2 =>
    if k != 0 then s
    else if live.contains 1 then { s with tlsObs := s.tlsObs.set 0 (s.tlsObs.getD 0 0 ||| 2) }
    else
      { (SC.tlsGet s t 1).1 with
          tlsObs := (SC.tlsGet s t 1).1.tlsObs.set 0 ((SC.tlsGet s t 1).1.tlsObs.getD 0 0 ||| 1),
          tlsDrops := (SC.tlsGet s t 1).1.tlsDrops.set 1 ((SC.tlsGet s t 1).1.tlsDrops.getD 1 0 + 1) }
  | _ => s

/-- the state in which the destructors of thread `t` start -/
def dropSC (s : SC.St) (t : Nat) : SC.St := if t == 0 then { s with lazyDropped := true } else s

theorem finish_eq {p : Prog} (hd : p.cfg.tlsDtor ≠ 1) (s : SC.St) (t : Nat) :
    SC.finish p s t = (SC.perms2 (liveSC s t)).map fun order =>
      (order.foldl (dtorSC p (liveSC s t) t) (dropSC s t)).modTh t fun h => { h with finished := true } := by
  have h1 : (p.cfg.tlsDtor == 1) = false := by simpa using hd
  unfold SC.finish
  simp only [h1]
  rfl

theorem liveOf_data5 (s : SC.St) (t : Nat) : SCData5.liveOf (data5 s) t = liveSC s t := by
  unfold SCData5.liveOf liveSC
  rw [data5_loc]

theorem data5_dtorSC (p : Prog) (live : List Nat) (t : Nat) (s : SC.St) (k : Nat) :
    data5 (dtorSC p live t s k) = SCData5.dtorStep p live t (data5 s) k := by
  unfold dtorSC SCData5.dtorStep
  by_cases h2 : p.cfg.tlsDtor = 2
  · simp only [h2]
    split
    · rfl
    · split
      · rfl
      · have e := tlsGet_fst { s with tlsDrops := s.tlsDrops.set k (s.tlsDrops.getD k 0 + 1) } t 1
        have key : ∀ (x : SC.St) (y : SCData5), data5 x = y →
            data5 { x with tlsObs := x.tlsObs.set 0 (x.tlsObs.getD 0 0 ||| 1),
                           tlsDrops := x.tlsDrops.set 1 (x.tlsDrops.getD 1 0 + 1) } =
              { y with tlsObs := y.tlsObs.set 0 (y.tlsObs.getD 0 0 ||| 1),
                       tlsDrops := y.tlsDrops.set 1 (y.tlsDrops.getD 1 0 + 1) } := by
          intro x y h; subst h; rfl
        exact key _ _ e
  · split
    · exact absurd (by assumption) h2
    · split
      · exact absurd (by assumption) h2
      · rfl

theorem dtorSC_verdict (p : Prog) (live : List Nat) (t : Nat) (s : SC.St) (k : Nat) :
    (dtorSC p live t s k).verdict = s.verdict := by
  unfold dtorSC
  repeat' split
  all_goals first
    | rfl
    | exact tlsGet_verdict { s with tlsDrops := s.tlsDrops.set k (s.tlsDrops.getD k 0 + 1) } t 1

theorem fragTh5_dtorSC {p : Prog} {live : List Nat} {t : Nat} {s : SC.St} {k : Nat}
    (h : ∀ u, FragTh5 (s.th u)) (u : Nat) : FragTh5 ((dtorSC p live t s k).th u) := by
  unfold dtorSC
  repeat' split
  all_goals first
    | exact h u
    | exact fragTh5_tlsGet (s := { s with tlsDrops := s.tlsDrops.set k (s.tlsDrops.getD k 0 + 1) }) h u

theorem data5_foldl (p : Prog) (live : List Nat) (t : Nat) (order : List Nat) (s : SC.St) :
    data5 (order.foldl (dtorSC p live t) s) = order.foldl (SCData5.dtorStep p live t) (data5 s) := by
  induction order generalizing s with
  | nil => rfl
  | cons k r ih => simp only [List.foldl_cons]; rw [ih, data5_dtorSC]

theorem foldl_verdict (p : Prog) (live : List Nat) (t : Nat) (order : List Nat) (s : SC.St) :
    (order.foldl (dtorSC p live t) s).verdict = s.verdict := by
  induction order generalizing s with
  | nil => rfl
  | cons k r ih => simp only [List.foldl_cons]; rw [ih, dtorSC_verdict]

theorem fragTh5_foldl {p : Prog} {live : List Nat} {t : Nat} (order : List Nat) {s : SC.St}
    (h : ∀ u, FragTh5 (s.th u)) (u : Nat) : FragTh5 ((order.foldl (dtorSC p live t) s).th u) := by
  induction order generalizing s with
  | nil => exact h u
  | cons k r ih => simp only [List.foldl_cons]; exact ih (fun u => fragTh5_dtorSC h u)

theorem data5_dropSC (s : SC.St) (t : Nat) :
    data5 (dropSC s t) = if t == 0 then { data5 s with lazyDropped := true } else data5 s := by
  unfold dropSC
  split <;> rfl

theorem dropSC_verdict (s : SC.St) (t : Nat) : (dropSC s t).verdict = s.verdict := by
  unfold dropSC
  split <;> rfl

theorem fragTh5_dropSC {s : SC.St} {t : Nat} (h : ∀ u, FragTh5 (s.th u)) (u : Nat) :
    FragTh5 ((dropSC s t).th u) := by
  unfold dropSC
  split <;> exact h u

/-- the end of a thread: `SCData5.finish` is the data of `SC.finish` -/
theorem finish_lift5 {p : Prog} {s : SC.St} {t : Nat} {d' : SCData5} (hd : p.cfg.tlsDtor ≠ 1) (hs : FragSt5 s)
    (h : d' ∈ SCData5.finish p (data5 s) t) : ∃ s', s' ∈ SC.finish p s t ∧ FragSt5 s' ∧ data5 s' = d' := by
  unfold SCData5.finish at h
  rw [liveOf_data5, ← data5_dropSC] at h
  obtain ⟨order, hord, rfl⟩ := List.mem_map.1 h
  refine ⟨(order.foldl (dtorSC p (liveSC s t) t) (dropSC s t)).modTh t fun h => { h with finished := true }, ?_,
    ⟨?_, ?_⟩, ?_⟩
  · rw [finish_eq hd]
    exact List.mem_map.2 ⟨order, hord, rfl⟩
  · rw [verdict_modTh, foldl_verdict, dropSC_verdict]; exact hs.1
  · intro u
    frag5_mod (fragTh5_foldl order (fragTh5_dropSC hs.2))
  · rw [data5_finished, data5_foldl]

/-! ### the steps of the thread-local / lazy-static operations -/

section steps
variable (p : Prog) (s : SC.St) (t : Nat)

theorem step_none (hn : (s.th t).cvNotified = none) (ho : SC.opOf p s t = none) :
    SC.step p s t = SC.finish p s t := by
  unfold SC.step
  simp only [hn, ho]

theorem step_tls (k : Nat) (hn : (s.th t).cvNotified = none) (ho : SC.opOf p s t = some (.tls k)) :
    SC.step p s t = [(SC.tlsGet (s.tick t) t k).1.ret t (.val (SC.tlsGet (s.tick t) t k).2)] := by
  unfold SC.step
  simp only [hn, ho]

theorem step_tlsTry (k : Nat) (hn : (s.th t).cvNotified = none) (ho : SC.opOf p s t = some (.tlsTry k)) :
    SC.step p s t = [(SC.tlsGet (s.tick t) t k).1.ret t (.val (SC.tlsGet (s.tick t) t k).2)] := by
  unfold SC.step
  simp only [hn, ho]

theorem step_tlsNest (k j : Nat) (hn : (s.th t).cvNotified = none) (ho : SC.opOf p s t = some (.tlsNest k j)) :
    SC.step p s t = [(SC.tlsGet (SC.tlsGet (s.tick t) t k).1 t j).1.ret t
      (.val (SC.tlsGet (SC.tlsGet (s.tick t) t k).1 t j).2)] := by
  unfold SC.step
  simp only [hn, ho]

theorem step_tlsStat (k : Nat) (hn : (s.th t).cvNotified = none) (ho : SC.opOf p s t = some (.tlsStat k)) :
    SC.step p s t = [(s.tick t).ret t (.val (s.tlsInits.getD k 0 * 100 + s.tlsDrops.getD k 0))] := by
  unfold SC.step
  simp only [hn, ho]
  rfl

theorem step_tlsObs (k : Nat) (hn : (s.th t).cvNotified = none) (ho : SC.opOf p s t = some (.tlsObs k)) :
    SC.step p s t = [(s.tick t).ret t (.val (s.tlsObs.getD k 0))] := by
  unfold SC.step
  simp only [hn, ho]
  rfl

theorem step_lazyStat (z : Nat) (hn : (s.th t).cvNotified = none) (ho : SC.opOf p s t = some (.lazyStat z)) :
    SC.step p s t = [(s.tick t).ret t (.val (if s.lazyDropped then 0 else s.lazyInit.getD z 0))] := by
  unfold SC.step
  simp only [hn, ho]
  rfl

/-- the initialiser of a lazy static counts its runs in atomic 0 when one is declared -/
def lazyAtomSC (p : Prog) (s : SC.St) : SC.St :=
  if p.cfg.nAtomics == 0 then s else
    { s with atoms := s.atoms.set 0 (Std.step p.cfg.ty (s.atoms.getD 0 0) (.fetch (.add 1) .rlx)).1 }

/-- the first access initialises and publishes -/
def lazyInitSC (p : Prog) (s : SC.St) (t z : Nat) : SC.St :=
  if s.lazyInit.getD z 0 == 0 then
    { lazyAtomSC p s with lazyInit := (lazyAtomSC p s).lazyInit.set z 1,
                          lazyRel := (lazyAtomSC p s).lazyRel.set z ((lazyAtomSC p s).vc t) }
  else s

/-- ... every access acquires -/
def lazyAcqSC (p : Prog) (s : SC.St) (t z : Nat) : SC.St :=
  (lazyInitSC p s t z).acquire t ((lazyInitSC p s t z).lazyRel.getD z VV.zero)

theorem step_lazy (z : Nat) (hn : (s.th t).cvNotified = none) (ho : SC.opOf p s t = some (.lazy z)) :
    SC.step p s t = if s.lazyDropped then [(s.tick t).stop (.misuse 20)] else
      [(lazyAcqSC p (s.tick t) t z).ret t
        (.val (((lazyAcqSC p (s.tick t) t z).lazyInit.getD z 0 : Int) * 100 + 40 + z))] := by
  unfold SC.step
  simp only [hn, ho]
  rfl

end steps

theorem lazyInitSC_ths (p : Prog) (s : SC.St) (t z : Nat) : (lazyInitSC p s t z).ths = s.ths := by
  unfold lazyInitSC
  split
  · unfold lazyAtomSC
    split <;> rfl
  · rfl

theorem lazyInitSC_verdict (p : Prog) (s : SC.St) (t z : Nat) : (lazyInitSC p s t z).verdict = s.verdict := by
  unfold lazyInitSC
  split
  · unfold lazyAtomSC
    split <;> rfl
  · rfl

theorem data5_lazyInitSC (p : Prog) (s : SC.St) (t z : Nat) :
    data5 (lazyInitSC p s t z) =
      if (data5 s).lazyInit.getD z 0 == 0 then { data5 s with lazyInit := (data5 s).lazyInit.set z 1 }
      else data5 s := by
  unfold lazyInitSC
  have e : (data5 s).lazyInit = s.lazyInit := rfl
  rw [e]
  split
  · unfold lazyAtomSC
    split <;> rfl
  · rfl

theorem fragTh5_lazyAcqSC {p : Prog} {s : SC.St} {t z : Nat} (h : ∀ u, FragTh5 (s.th u)) (u : Nat) :
    FragTh5 ((lazyAcqSC p s t z).th u) := by
  unfold lazyAcqSC
  refine fragTh5_acquire (fun u => ?_) u
  unfold SC.St.th
  rw [lazyInitSC_ths]
  exact h u

theorem data5_lazyAcqSC (p : Prog) (s : SC.St) (t z : Nat) :
    data5 (lazyAcqSC p s t z) =
      if (data5 s).lazyInit.getD z 0 == 0 then { data5 s with lazyInit := (data5 s).lazyInit.set z 1 }
      else data5 s := by
  unfold lazyAcqSC
  rw [data5_acquire, data5_lazyInitSC]

/-! ### the steps of the lock fragment -/

/-- `SC.step_lift` with the weaker invariant: the lock-fragment part of `SCData5.stepL` -/
theorem lock_lift5 {p : Prog} {s : SC.St} {t : Nat} {l : Option (Nat × Ret)} {b : SCData} {op : Op}
    (hs : FragSt5 s) (ho : SC.opOf p s t = some op) (h : (l, b) ∈ SCData.stepL p (data s) t) :
    ∃ s', s' ∈ SC.step p s t ∧
      ((FragSt5 s' ∧ data5 s' = (data5 s).withBase b) ∨ ∃ k, s'.verdict = some (.race k)) := by
  obtain ⟨hv, hth⟩ := hs
  have hft := hth t
  unfold SCData.stepL at h
  rw [data_opOf, data_th, ho] at h
  cases op <;> simp only [List.not_mem_nil] at h
  case cellRead c =>
    simp only [List.mem_singleton, Prod.mk.injEq] at h
    obtain ⟨_, rfl⟩ := h
    unfold SC.step
    simp only [hft.2.1, ho]
    split
    · exact ⟨_, List.mem_singleton.2 rfl, .inr ⟨9, rfl⟩⟩
    · split
      · exact ⟨_, List.mem_singleton.2 rfl, .inr ⟨9, rfl⟩⟩
      · refine ⟨_, List.mem_singleton.2 rfl, .inl ⟨⟨hv, fragTh5_ret (fun u => fragTh5_tick hth u)⟩, ?_⟩⟩
        rw [data5_ret, data5_setCellR, data5_tick]; rfl
  case cellWrite c v =>
    simp only [List.mem_singleton, Prod.mk.injEq] at h
    obtain ⟨_, rfl⟩ := h
    unfold SC.step
    simp only [hft.2.1, ho]
    repeat' split
    all_goals first
      | exact ⟨_, List.mem_singleton.2 rfl, .inr ⟨_, rfl⟩⟩
      | (refine ⟨_, List.mem_singleton.2 rfl, .inl ⟨⟨hv, fragTh5_ret (fun u => fragTh5_tick hth u)⟩, ?_⟩⟩
         rw [data5_ret, data5_setCells, data5_tick]; rfl)
  case lock m =>
    simp only [List.mem_singleton, Prod.mk.injEq] at h
    obtain ⟨_, rfl⟩ := h
    unfold SC.step
    simp only [hft.2.1, ho]
    refine ⟨_, List.mem_singleton.2 rfl, .inl ⟨⟨hv, ?_⟩, ?_⟩⟩
    · exact fragTh5_ret (fun u => fragTh5_acquire (s := { s.tick t with mutex := _ }) (fun u => fragTh5_tick hth u) u)
    · rw [data5_ret, data5_acquire, data5_setMutex, data5_tick]; rfl
  case tryLock m =>
    have e2 : (data s).mutex = s.mutex := rfl
    rw [e2] at h
    unfold SC.step
    simp only [hft.2.1, ho]
    have e : (s.tick t).mutex = s.mutex := rfl
    rw [e]
    split at h
    · next hm =>
      simp only [List.mem_singleton, Prod.mk.injEq] at h
      obtain ⟨_, rfl⟩ := h
      rw [if_pos hm]
      refine ⟨_, List.mem_singleton.2 rfl, .inl ⟨⟨hv, ?_⟩, ?_⟩⟩
      · exact fragTh5_ret (fun u => fragTh5_acquire (s := { s.tick t with mutex := _ }) (fun u => fragTh5_tick hth u) u)
      · rw [data5_ret, data5_acquire, data5_setMutex, data5_tick]; rfl
    · next hm =>
      simp only [List.mem_singleton, Prod.mk.injEq] at h
      obtain ⟨_, rfl⟩ := h
      rw [if_neg hm]
      refine ⟨_, List.mem_singleton.2 rfl, .inl ⟨⟨hv, fragTh5_ret (fun u => fragTh5_tick hth u)⟩, ?_⟩⟩
      rw [data5_ret, data5_tick]; rfl
  case unlock m =>
    simp only [List.mem_singleton, Prod.mk.injEq] at h
    obtain ⟨_, rfl⟩ := h
    unfold SC.step
    simp only [hft.2.1, ho]
    refine ⟨_, List.mem_singleton.2 rfl, .inl ⟨⟨hv, ?_⟩, ?_⟩⟩
    · exact fragTh5_ret (s := { s.tick t with mutex := _, mutexRel := _ }) (fun u => fragTh5_tick hth u)
    · rw [data5_ret, data5_setMutexRel, data5_tick]; rfl
  case spawn b' =>
    simp only [List.mem_singleton, Prod.mk.injEq] at h
    obtain ⟨_, rfl⟩ := h
    unfold SC.step
    simp only [hft.2.1, ho]
    refine ⟨_, List.mem_singleton.2 rfl, .inl ⟨⟨hv, ?_⟩, ?_⟩⟩
    · refine fragTh5_ret (fun u => ?_)
      frag5_mod (fun u => fragTh5_tick hth u)
    · rw [data5_ret, data5_started, data5_tick]; rfl
  case join b' =>
    simp only [List.mem_singleton, Prod.mk.injEq] at h
    obtain ⟨_, rfl⟩ := h
    unfold SC.step
    simp only [hft.2.1, ho]
    refine ⟨_, List.mem_singleton.2 rfl, .inl ⟨⟨hv, ?_⟩, ?_⟩⟩
    · exact fragTh5_ret (fun u => fragTh5_acquire (fun u => fragTh5_tick hth u) u)
    · rw [data5_ret, data5_acquire, data5_tick]; rfl
  case ifEq i r n =>
    unfold SC.step
    simp only [hft.2.1, ho]
    have e1 : (dth (s.th t)).rets = (s.th t).rets := rfl
    have e2 : (dth (s.th t)).pc = (s.th t).pc := rfl
    rw [e1, e2] at h
    split at h
    · next hc =>
      simp only [List.mem_singleton, Prod.mk.injEq] at h
      obtain ⟨_, rfl⟩ := h
      rw [if_pos hc]
      refine ⟨_, List.mem_singleton.2 rfl, .inl ⟨⟨hv, fun u => ?_⟩, ?_⟩⟩
      · frag5_mod hth
      · rw [data5_pc]; rfl
    · next hc =>
      simp only [List.mem_singleton, Prod.mk.injEq] at h
      obtain ⟨_, rfl⟩ := h
      rw [if_neg hc]
      refine ⟨_, List.mem_singleton.2 rfl, .inl ⟨⟨hv, fun u => ?_⟩, ?_⟩⟩
      · frag5_mod hth
      · exact data5_modTh s t (fun h => { h with pc := h.pc + 1 + n }) (fun h => { h with pc := h.pc + 1 + n })
          (fun _ => rfl) (fun _ => rfl)

/-! ### the lift -/

/-- every step of the data semantics is the data of a step of SC.step, unless that step stops with a race verdict -/
theorem step_lift5 {p : Prog} {s : SC.St} {t : Nat} {l : Option (Nat × Ret)} {d' : SCData5}
    (hd : p.cfg.tlsDtor ≠ 1) (hs : FragSt5 s) (h : (l, d') ∈ SCData5.stepL p (data5 s) t) :
    ∃ s', s' ∈ SC.step p s t ∧ ((FragSt5 s' ∧ data5 s' = d') ∨ ∃ k, s'.verdict = some (.race k)) := by
  have hv := hs.1
  have hth := hs.2
  have hn := (hth t).2.1
  have tick_th : ∀ u, FragTh5 ((s.tick t).th u) := fun u => fragTh5_tick hth u
  unfold SCData5.stepL at h
  rw [data5_opOf] at h
  cases ho : SC.opOf p s t with
  | none =>
    rw [ho] at h
    obtain ⟨d1, hd1, e⟩ := List.mem_map.1 h
    simp only [Prod.mk.injEq] at e
    obtain ⟨_, rfl⟩ := e
    obtain ⟨s', hmem, hfs, hdat⟩ := finish_lift5 hd hs hd1
    exact ⟨s', by rw [step_none p s t hn ho]; exact hmem, .inl ⟨hfs, hdat⟩⟩
  | some op =>
    rw [ho] at h
    cases op
    case tls k =>
      simp only [List.mem_singleton, Prod.mk.injEq] at h
      obtain ⟨_, rfl⟩ := h
      refine ⟨_, by rw [step_tls p s t k hn ho]; exact List.mem_singleton.2 rfl, .inl ⟨⟨?_, ?_⟩, ?_⟩⟩
      · rw [verdict_ret, tlsGet_verdict]; exact hv
      · exact fragTh5_ret (fun u => fragTh5_tlsGet tick_th u)
      · rw [data5_ret, tlsGet_fst, tlsGet_snd, data5_tick]
    case tlsTry k =>
      simp only [List.mem_singleton, Prod.mk.injEq] at h
      obtain ⟨_, rfl⟩ := h
      refine ⟨_, by rw [step_tlsTry p s t k hn ho]; exact List.mem_singleton.2 rfl, .inl ⟨⟨?_, ?_⟩, ?_⟩⟩
      · rw [verdict_ret, tlsGet_verdict]; exact hv
      · exact fragTh5_ret (fun u => fragTh5_tlsGet tick_th u)
      · rw [data5_ret, tlsGet_fst, tlsGet_snd, data5_tick]
    case tlsNest k j =>
      simp only [List.mem_singleton, Prod.mk.injEq] at h
      obtain ⟨_, rfl⟩ := h
      refine ⟨_, by rw [step_tlsNest p s t k j hn ho]; exact List.mem_singleton.2 rfl, .inl ⟨⟨?_, ?_⟩, ?_⟩⟩
      · rw [verdict_ret, tlsGet_verdict, tlsGet_verdict]; exact hv
      · exact fragTh5_ret (fun u => fragTh5_tlsGet (fun u => fragTh5_tlsGet tick_th u) u)
      · rw [data5_ret, tlsGet_fst, tlsGet_snd, tlsGet_fst, data5_tick]
    case tlsStat k =>
      simp only [List.mem_singleton, Prod.mk.injEq] at h
      obtain ⟨_, rfl⟩ := h
      refine ⟨(s.tick t).ret t _, by rw [step_tlsStat p s t k hn ho]; exact List.mem_singleton.2 rfl,
        .inl ⟨⟨hv, fragTh5_ret tick_th⟩, ?_⟩⟩
      rw [data5_ret, data5_tick]; rfl
    case tlsObs k =>
      simp only [List.mem_singleton, Prod.mk.injEq] at h
      obtain ⟨_, rfl⟩ := h
      refine ⟨(s.tick t).ret t _, by rw [step_tlsObs p s t k hn ho]; exact List.mem_singleton.2 rfl,
        .inl ⟨⟨hv, fragTh5_ret tick_th⟩, ?_⟩⟩
      rw [data5_ret, data5_tick]; rfl
    case lazyStat z =>
      simp only [List.mem_singleton, Prod.mk.injEq] at h
      obtain ⟨_, rfl⟩ := h
      refine ⟨(s.tick t).ret t _, by rw [step_lazyStat p s t z hn ho]; exact List.mem_singleton.2 rfl,
        .inl ⟨⟨hv, fragTh5_ret tick_th⟩, ?_⟩⟩
      rw [data5_ret, data5_tick]; rfl
    case lazy z =>
      simp only at h
      have eld : (data5 s).lazyDropped = s.lazyDropped := rfl
      rw [eld] at h
      by_cases hld : s.lazyDropped = true
      · rw [if_pos hld] at h; cases h
      · rw [if_neg hld] at h
        simp only [List.mem_singleton, Prod.mk.injEq] at h
        obtain ⟨_, rfl⟩ := h
        refine ⟨_, by rw [step_lazy p s t z hn ho, if_neg hld]; exact List.mem_singleton.2 rfl,
          .inl ⟨⟨?_, ?_⟩, ?_⟩⟩
        · show (lazyInitSC p (s.tick t) t z).verdict = none
          rw [lazyInitSC_verdict]; exact hv
        · exact fragTh5_ret (fun u => fragTh5_lazyAcqSC tick_th u)
        · rw [data5_ret]
          show (data5 (lazyAcqSC p (s.tick t) t z)).ret t
            (.val (((data5 (lazyAcqSC p (s.tick t) t z)).lazyInit.getD z 0 : Int) * 100 + 40 + z)) = _
          rw [data5_lazyAcqSC, data5_tick]
          rfl
    all_goals
      simp only at h
      obtain ⟨⟨l', b⟩, hb, e⟩ := List.mem_map.1 h
      simp only [Prod.mk.injEq] at e
      obtain ⟨rfl, rfl⟩ := e
      exact lock_lift5 hs ho hb

/-- the operations of a program: all of them in the statics fragment -/
def FragProg5 (p : Prog) : Prop :=
  ∀ (a k : Nat) (op : Op), (p.threads.getD a [])[k]? = some op → isFrag5 op = true

theorem WF5.fragProg {p : Prog} (h : WF5 p) : FragProg5 p := by
  intro a k op hop
  have := h.opOk hop
  unfold isFrag5
  unfold opOk5 at this
  cases op <;> first | rfl | (simp [Refine.opOk] at this)

/-- **a run of the data semantics is the data of an execution of `Spec/SC.lean`**, or a prefix of it is an
execution that ends in a data-race verdict -/
theorem Run.lift5 {p : Prog} (hp : FragProg5 p) (hd : p.cfg.tlsDtor ≠ 1) {tr : List (Nat × Nat × Ret)} {d : SCData5}
    (h : SCData5.Run p (data5 (SC.init p)) tr d) :
    ∃ s, SCExec p (SC.init p) s ∧ ((FragSt5 s ∧ data5 s = d) ∨ ∃ k, s.verdict = some (.race k)) := by
  generalize hd0 : data5 (SC.init p) = d0 at h
  induction h with
  | nil => exact ⟨SC.init p, .nil _, .inl ⟨fragSt5_init p, hd0⟩⟩
  | step hrun hen hst ih =>
    rename_i t _
    obtain ⟨s1, hex, hcase⟩ := ih
    rcases hcase with ⟨hfs, hdata⟩ | hrace
    · subst hdata
      obtain ⟨s2, hmem, hres⟩ := step_lift5 hd hfs hst
      have hen' : SC.enabled p s1 t = true := by
        rw [enabled_data5 hfs.1 (hfs.2 t) (fun op ho => hp _ _ _ ho)]
        exact hen
      exact ⟨s2, .step hex hen' hmem, hres⟩
    · exact ⟨s1, hex, .inr hrace⟩

/-! ### the converse: `SC.step` on the data -/

/-- SC.step on a statics-fragment operation either stops with a verdict or is SCData5.step on the data -/
theorem step_data5 {p : Prog} {s s' : SC.St} {t : Nat} (hd : p.cfg.tlsDtor ≠ 1) (hf : FragTh5 (s.th t))
    (hop : ∀ op, SC.opOf p s t = some op → isFrag5 op = true)
    (h : s' ∈ SC.step p s t) (hv : s'.verdict = none) : data5 s' ∈ SCData5.step p (data5 s) t := by
  have hn := hf.2.1
  unfold SCData5.step SCData5.stepL
  rw [data5_opOf]
  cases ho : SC.opOf p s t with
  | none =>
    rw [step_none p s t hn ho, finish_eq hd] at h
    obtain ⟨order, hord, rfl⟩ := List.mem_map.1 h
    have e : data5 ((order.foldl (dtorSC p (liveSC s t) t) (dropSC s t)).modTh t fun h => { h with finished := true }) =
        (order.foldl (SCData5.dtorStep p (liveSC s t) t) (data5 (dropSC s t))).modTh t
          fun h => { h with finished := true } := by
      rw [data5_finished, data5_foldl]
    rw [e]
    refine List.mem_map.2 ⟨(none, _), List.mem_map.2 ⟨_, ?_, rfl⟩, rfl⟩
    unfold SCData5.finish
    rw [liveOf_data5, ← data5_dropSC]
    exact List.mem_map.2 ⟨order, hord, rfl⟩
  | some op =>
    have hfr := hop op ho
    cases op <;> simp only [isFrag5, isFrag, isStatOp, Bool.or_false, Bool.or_self, Bool.false_eq_true] at hfr
    case tls k =>
      rw [step_tls p s t k hn ho] at h
      simp only [List.mem_singleton] at h; subst h
      simp only [List.map_cons, List.map_nil, List.mem_singleton]
      rw [data5_ret, tlsGet_fst, tlsGet_snd, data5_tick]
    case tlsTry k =>
      rw [step_tlsTry p s t k hn ho] at h
      simp only [List.mem_singleton] at h; subst h
      simp only [List.map_cons, List.map_nil, List.mem_singleton]
      rw [data5_ret, tlsGet_fst, tlsGet_snd, data5_tick]
    case tlsNest k j =>
      rw [step_tlsNest p s t k j hn ho] at h
      simp only [List.mem_singleton] at h; subst h
      simp only [List.map_cons, List.map_nil, List.mem_singleton]
      rw [data5_ret, tlsGet_fst, tlsGet_snd, tlsGet_fst, data5_tick]
    case tlsStat k =>
      rw [step_tlsStat p s t k hn ho] at h
      simp only [List.mem_singleton] at h; subst h
      simp only [List.map_cons, List.map_nil, List.mem_singleton]
      rw [data5_ret, data5_tick]; rfl
    case tlsObs k =>
      rw [step_tlsObs p s t k hn ho] at h
      simp only [List.mem_singleton] at h; subst h
      simp only [List.map_cons, List.map_nil, List.mem_singleton]
      rw [data5_ret, data5_tick]; rfl
    case lazyStat z =>
      rw [step_lazyStat p s t z hn ho] at h
      simp only [List.mem_singleton] at h; subst h
      simp only [List.map_cons, List.map_nil, List.mem_singleton]
      rw [data5_ret, data5_tick]; rfl
    case lazy z =>
      rw [step_lazy p s t z hn ho] at h
      have eld : (data5 s).lazyDropped = s.lazyDropped := rfl
      simp only [eld]
      by_cases hld : s.lazyDropped = true
      · rw [if_pos hld] at h
        simp only [List.mem_singleton] at h; subst h
        cases hv
      · rw [if_neg hld] at h
        simp only [List.mem_singleton] at h; subst h
        rw [if_neg hld]
        simp only [List.map_cons, List.map_nil, List.mem_singleton]
        rw [data5_ret]
        show (data5 (lazyAcqSC p (s.tick t) t z)).ret t
          (.val (((data5 (lazyAcqSC p (s.tick t) t z)).lazyInit.getD z 0 : Int) * 100 + 40 + z)) = _
        rw [data5_lazyAcqSC, data5_tick]
        rfl
    all_goals
      unfold SC.step at h
      simp only [hn] at h
      simp only [ho] at h
      simp only [SCData.stepL, SCData5.base_opOf, SCData5.base_th, data5_opOf, data5_th, ho]
    case cellRead c =>
      split at h
      · simp only [List.mem_singleton] at h; subst h; cases hv
      · split at h
        · simp only [List.mem_singleton] at h; subst h; cases hv
        · simp only [List.mem_singleton] at h; subst h
          simp only [List.map_cons, List.map_nil, List.mem_singleton]
          rw [data5_ret, data5_setCellR, data5_tick]; rfl
    case cellWrite c v =>
      repeat' split at h
      all_goals simp only [List.mem_singleton] at h; subst h
      all_goals first
        | (cases hv; done)
        | (simp only [List.map_cons, List.map_nil, List.mem_singleton]
           rw [data5_ret, data5_setCells, data5_tick]; rfl)
    case lock m =>
      simp only [List.mem_singleton] at h; subst h
      simp only [List.map_cons, List.map_nil, List.mem_singleton]
      rw [data5_ret, data5_acquire, data5_setMutex, data5_tick]; rfl
    case tryLock m =>
      have e : (s.tick t).mutex = s.mutex := rfl
      rw [e] at h
      have e2 : (data5 s).base.mutex = s.mutex := rfl
      rw [e2]
      split at h
      · next hm =>
        simp only [List.mem_singleton] at h; subst h
        simp only [hm, if_true, List.map_cons, List.map_nil, List.mem_singleton]
        rw [data5_ret, data5_acquire, data5_setMutex, data5_tick]; rfl
      · next hm =>
        simp only [List.mem_singleton] at h; subst h
        rw [if_neg hm]
        simp only [List.map_cons, List.map_nil, List.mem_singleton]
        rw [data5_ret, data5_tick]; rfl
    case unlock m =>
      simp only [List.mem_singleton] at h; subst h
      simp only [List.map_cons, List.map_nil, List.mem_singleton]
      rw [data5_ret, data5_setMutexRel, data5_tick]; rfl
    case spawn b =>
      simp only [List.mem_singleton] at h; subst h
      simp only [List.map_cons, List.map_nil, List.mem_singleton]
      rw [data5_ret, data5_started, data5_tick]; rfl
    case join b =>
      simp only [List.mem_singleton] at h; subst h
      simp only [List.map_cons, List.map_nil, List.mem_singleton]
      rw [data5_ret, data5_acquire, data5_tick]; rfl
    case ifEq i r n =>
      split at h
      · next hc =>
        simp only [List.mem_singleton] at h; subst h
        have hc2 : (List.lookup ((dth (s.th t)).pc - i) (dth (s.th t)).rets == some r) = true := hc
        simp only [hc2, if_true, List.map_cons, List.map_nil, List.mem_singleton]
        rw [data5_pc]; rfl
      · next hc =>
        simp only [List.mem_singleton] at h; subst h
        have hc2 : ¬ (List.lookup ((dth (s.th t)).pc - i) (dth (s.th t)).rets == some r) = true := hc
        simp only [hc2, Bool.false_eq_true, if_false, List.map_cons, List.map_nil, List.mem_singleton]
        exact data5_modTh s t (fun h => { h with pc := h.pc + 1 + n }) (fun h => { h with pc := h.pc + 1 + n })
          (fun _ => rfl) (fun _ => rfl)

end Refine5
end LoomVerif

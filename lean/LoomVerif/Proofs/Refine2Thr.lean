/-
Refinement, WAIT fragment, part 17: a frame theorem for the thread table, as far as `park` is concerned.
A thread blocked in `park` (`parked`) is blocked with no pending operation (`PInv`); under that invariant every
helper of the twin other than `rt::park` (of the parker itself), `Set::unpark` (of the target) keeps every
thread's `parked` flag and the invariant, and no helper other than `rt::thread_done` terminates a thread.
-/
import LoomVerif.Proofs.Refine2Sim
import LoomVerif.Proofs.C08Token

set_option linter.unusedSimpArgs false
set_option linter.unusedVariables false

namespace LoomVerif
namespace Refine2
open Refine Sy C07 C08

/-- a thread blocked in `park` is blocked, with no pending operation -/
def PInv (t : Thread) : Prop := t.parked = true → t.state = .blocked ∧ t.operation = none

/-- what a helper may do to a thread: it does not terminate it; if the thread satisfies `PInv` its `parked`
flag is kept and `PInv` holds again -/
def PKeep (t t' : Thread) : Prop :=
  (t'.isTerminated = true → t.isTerminated = true) ∧ (PInv t → t'.parked = t.parked ∧ PInv t')

def TKeep (s s' : Threads) : Prop := ∀ i, PKeep (s.get i) (s'.get i)

theorem PKeep.refl (t : Thread) : PKeep t t := ⟨id, fun h => ⟨rfl, h⟩⟩

theorem PKeep.trans {a b c : Thread} (h1 : PKeep a b) (h2 : PKeep b c) : PKeep a c :=
  ⟨fun h => h1.1 (h2.1 h), fun h => ⟨((h2.2 (h1.2 h).2).1).trans (h1.2 h).1, (h2.2 (h1.2 h).2).2⟩⟩

theorem TKeep.refl (s : Threads) : TKeep s s := fun _ => PKeep.refl _
theorem TKeep.trans {a b c : Threads} (h1 : TKeep a b) (h2 : TKeep b c) : TKeep a c :=
  fun i => (h1 i).trans (h2 i)

/-- a change that keeps `state`, `parked`, `operation` -/
theorem PKeep.of_same {t t' : Thread} (h1 : t'.state = t.state) (h2 : t'.parked = t.parked)
    (h3 : t'.operation = t.operation) : PKeep t t' := by
  refine ⟨fun h => ?_, fun h => ⟨h2, fun hp => ?_⟩⟩
  · unfold Thread.isTerminated at *; rw [← h1]; exact h
  · rw [h1, h3]; exact h (h2 ▸ hp)

/-- a change of a thread that is not parked, to a thread that is not parked and not terminated … -/
theorem PKeep.of_unparked {t t' : Thread} (h2 : t'.parked = t.parked) (hnp : t.parked = false)
    (ht : t'.isTerminated = true → t.isTerminated = true) : PKeep t t' :=
  ⟨ht, fun _ => ⟨h2, fun hp => by rw [h2, hnp] at hp; cases hp⟩⟩

theorem get_default (s : Threads) (i : Nat) (h : ¬ i < s.threads.length) : s.get i = {} := by
  unfold Threads.get
  simp [List.getD, List.getElem?_eq_none (Nat.le_of_not_lt h)]

theorem tkeep_modify (s : Threads) (i : Nat) (f : Thread → Thread) (hf : PKeep (s.get i) (f (s.get i))) :
    TKeep s (s.modify i f) := by
  intro j
  rw [WB.get_modify]
  split
  · next h => rw [← h.1]; exact hf
  · exact PKeep.refl _

theorem tkeep_mapIdx (s : Threads) (F : Nat → Thread → Thread)
    (hF : ∀ i, i < s.threads.length → PKeep (s.get i) (F i (s.get i))) :
    TKeep s { s with threads := s.threads.mapIdx F } := by
  intro i
  by_cases hi : i < s.threads.length
  · rw [get_mapIdx s F i hi]; exact hF i hi
  · rw [get_default s i hi, get_default _ i (by simpa using hi)]
    exact PKeep.refl _

theorem tkeep_threads {s s' s'' : Threads} (h : TKeep s s') (e : s''.threads = s'.threads) : TKeep s s'' := by
  intro i
  have : s''.get i = s'.get i := by unfold Threads.get; rw [e]
  rw [this]; exact h i

/-! ### pointwise facts -/

theorem pkeep_setRunnable_yield (t : Thread) (hy : t.isYield = true) : PKeep t t.setRunnable := by
  have hs : t.state = .yield := by simpa [Thread.isYield] using hy
  refine ⟨fun h => by simp [Thread.isTerminated, Thread.setRunnable] at h, fun hi => ?_⟩
  have hp : t.parked = false := by
    cases hh : t.parked with
    | false => rfl
    | true => have := (hi hh).1; rw [hs] at this; cases this
  exact ⟨by simp [Thread.setRunnable, hp], fun h => by simp [Thread.setRunnable] at h⟩

theorem pkeep_wake (t : Thread) (ho : t.operation ≠ none) : PKeep t t.wake := by
  unfold Thread.wake
  split
  · refine ⟨fun h => by simp [Thread.isTerminated, Thread.setRunnable] at h, fun hi => ?_⟩
    have hp : t.parked = false := by
      cases hh : t.parked with
      | false => rfl
      | true => exact absurd (hi hh).2 ho
    exact ⟨by simp [Thread.setRunnable, hp], fun h => by simp [Thread.setRunnable] at h⟩
  · exact PKeep.refl _

theorem pkeep_setBlocked (t : Thread) (ho : t.operation ≠ none) : PKeep t t.setBlocked := by
  refine ⟨fun h => by simp [Thread.isTerminated, Thread.setBlocked] at h, fun hi => ?_⟩
  have hp : t.parked = false := by
    cases hh : t.parked with
    | false => rfl
    | true => exact absurd (hi hh).2 ho
  exact ⟨rfl, fun h => by rw [show t.setBlocked.parked = t.parked from rfl, hp] at h; cases h⟩

theorem pkeep_caus (t : Thread) (v : VV) : PKeep t { t with causality := v } := PKeep.of_same rfl rfl rfl

theorem pkeep_notifyWake (t : Thread) (v : VV) (ho : t.operation ≠ none) :
    PKeep t ({ t with causality := v } : Thread).wake :=
  (pkeep_caus t v).trans (pkeep_wake _ ho)

theorem pkeep_wakeFrom (t u : Thread) : PKeep t (t.wakeFrom u) := by
  unfold Thread.wakeFrom
  simp only
  split
  · next h =>
    simp only [Bool.and_eq_true, Bool.not_eq_true'] at h
    refine ⟨fun h' => by simp [Thread.isTerminated, Thread.setRunnable] at h', fun _ => ?_⟩
    exact ⟨by simp [Thread.setRunnable]; exact h.2, fun h' => by simp [Thread.setRunnable] at h'⟩
  · exact pkeep_caus t _

/-! ### the helpers -/

theorem tkeep_forOthers (w : World) (p : Operation → Bool) (f : Thread → Thread)
    (hf : ∀ t, t.operation ≠ none → PKeep t (f t)) : TKeep w.ths (w.forOthers p f).ths := by
  intro i
  rw [WB.forOthers_get]
  split
  · exact PKeep.refl _
  · split
    · next op hop =>
      split
      · exact hf _ (by rw [hop]; simp)
      · exact PKeep.refl _
    · exact PKeep.refl _

theorem tkeep_modifyActive_same (s : Threads) (f : Thread → Thread)
    (hf : ∀ t, (f t).state = t.state ∧ (f t).parked = t.parked ∧ (f t).operation = t.operation) :
    TKeep s (s.modifyActive f) :=
  tkeep_modify s _ f (PKeep.of_same (hf _).1 (hf _).2.1 (hf _).2.2)

theorem tkeep_setCaus (s : Threads) (v : VV) : TKeep s (s.setCaus v) :=
  tkeep_modifyActive_same s _ (fun _ => ⟨rfl, rfl, rfl⟩)

theorem tkeep_syncLoad (s : Threads) (sy : Sync) (o : Ord) : TKeep s (s.syncLoad sy o) := tkeep_setCaus s _

theorem tkeep_inc (s : Threads) : TKeep s s.activeCausalityInc :=
  tkeep_modifyActive_same s _ (fun _ => ⟨rfl, rfl, rfl⟩)

/-- list-level reading of `TKeep` -/
def LKeep (l l' : List Thread) : Prop := ∀ i, PKeep (l.getD i {}) (l'.getD i {})

theorem LKeep.refl (l : List Thread) : LKeep l l := fun _ => PKeep.refl _
theorem LKeep.trans {a b c : List Thread} (h1 : LKeep a b) (h2 : LKeep b c) : LKeep a c :=
  fun i => (h1 i).trans (h2 i)

theorem tkeep_of_lkeep {s s' : Threads} (h : LKeep s.threads s'.threads) : TKeep s s' := h

theorem lkeep_modify (l : List Thread) (i : Nat) (f : Thread → Thread)
    (hf : PKeep (l.getD i {}) (f (l.getD i {}))) : LKeep l (l.modify i f) := by
  intro j
  by_cases e : j = i
  · subst e
    by_cases hj : j < l.length
    · rw [getD_modify_self _ _ _ _ hj]; exact hf
    · have : (l.modify j f).getD j {} = l.getD j {} := by
        simp [List.getD, List.getElem?_eq_none (Nat.le_of_not_lt hj)]
      rw [this]; exact PKeep.refl _
  · rw [getD_modify_ne _ _ _ _ _ e]; exact PKeep.refl _

theorem lkeep_mapIdx (l : List Thread) (F : Nat → Thread → Thread)
    (hF : ∀ i, i < l.length → PKeep (l.getD i {}) (F i (l.getD i {}))) : LKeep l (l.mapIdx F) := by
  intro i
  by_cases hi : i < l.length
  · rw [getD_mapIdx l F i {} hi]; exact hF i hi
  · have h1 : l.getD i {} = ({} : Thread) := by simp [List.getD, List.getElem?_eq_none (Nat.le_of_not_lt hi)]
    have h2 : (l.mapIdx F).getD i {} = ({} : Thread) := by
      simp [List.getD, List.getElem?_eq_none (Nat.le_of_not_lt hi)]
    rw [h1, h2]; exact PKeep.refl _

theorem pkeep_yieldRunnable (nid i : Nat) (t : Thread) :
    PKeep t (if t.isYield && i != nid then t.setRunnable else t) := by
  split
  · next hy => exact pkeep_setRunnable_yield _ (by simp only [Bool.and_eq_true] at hy; exact hy.1)
  · exact PKeep.refl _

set_option maxHeartbeats 1000000 in
/-- `Exec.schedule`: a yielded thread becomes runnable, the thread chosen gets a new `dporVV` -/
theorem schedule_tkeep {e : Exec} {pk : Bool} {r : Exec × Bool} (h : e.schedule pk = .ok r) :
    TKeep e.threads r.1.threads := by
  apply tkeep_of_lkeep
  unfold Exec.schedule at h
  mt_split h
  all_goals first
    | (cases h; done)
    | (cases h
       simp only [Threads.modify]
       first
         | exact lkeep_mapIdx _ _ (fun i _ => pkeep_yieldRunnable _ _ _)
         | (refine LKeep.trans ?_ (lkeep_mapIdx _ _ (fun i _ => pkeep_yieldRunnable _ _ _))
            exact lkeep_modify _ _ _ (PKeep.of_same rfl rfl rfl))
         | exact fun _ => PKeep.refl _)

/-! ### the helpers of the interpreter -/

/-- every thread is kept in the sense of `PKeep` -/
def TK (w w' : World) : Prop := TKeep w.exec.threads w'.exec.threads

theorem TK.refl (w : World) : TK w w := TKeep.refl _
theorem TK.trans {a b c : World} (h1 : TK a b) (h2 : TK b c) : TK a c := TKeep.trans h1 h2

/-- the active thread is not parked -/
def ActUnparked (w : World) : Prop := (w.exec.threads.get w.tid).parked = false

theorem ActUnparked.of_tk {w w' : World} (h : ActUnparked w) (hk : TK w w') (ht : w'.tid = w.tid) :
    ActUnparked w' := by
  unfold ActUnparked
  rw [ht]
  have := (hk w.tid).2 (fun hp => by rw [h] at hp; cases hp)
  rw [this.1]; exact h

theorem pkeep_active_unparked {t t' : Thread} (hp : t.parked = false) (h2 : t'.parked = false)
    (ht : t'.isTerminated = true → t.isTerminated = true) : PKeep t t' :=
  PKeep.of_unparked (h2.trans hp.symm) hp ht

theorem tk_modifyActive {w : World} (f : Thread → Thread) (hu : ActUnparked w)
    (hf : ∀ t, t.parked = false → (f t).parked = false ∧ ((f t).isTerminated = true → t.isTerminated = true)) :
    TKeep w.exec.threads (w.exec.threads.modifyActive f) :=
  tkeep_modify _ _ f (pkeep_active_unparked hu (hf _ hu).1 (hf _ hu).2)

theorem branch_tk {w w' : World} {o : Nat} {a : Action} {b wt : Bool} (hu : ActUnparked w)
    (h : w.branch o a b wt = .ok w') : TK w w' := by
  unfold World.branch at h
  simp only [bind, Except.bind, pure, Except.pure] at h
  split at h
  · cases h
  · next v hv =>
    cases h
    refine TKeep.trans (tk_modifyActive _ hu ?_) (schedule_tkeep hv)
    intro t hp
    cases b
    · exact ⟨hp, id⟩
    · exact ⟨hp, fun h' => by simp [Thread.isTerminated, Thread.setBlocked] at h'⟩

theorem yieldNow_tk {w w' : World} (hu : ActUnparked w) (h : w.yieldNow = .ok w') : TK w w' := by
  unfold World.yieldNow at h
  simp only [bind, Except.bind, pure, Except.pure] at h
  split at h
  · cases h
  · next v hv =>
    cases h
    refine TKeep.trans (tk_modifyActive _ hu ?_) (schedule_tkeep hv)
    intro t hp
    exact ⟨hp, fun h' => by simp [Thread.isTerminated, Thread.setYield] at h'⟩

theorem blockNow_tk {w w' : World} (hu : ActUnparked w) (h : w.blockNow = .ok w') : TK w w' := by
  unfold World.blockNow at h
  simp only [bind, Except.bind, pure, Except.pure] at h
  split at h
  · cases h
  · next v hv =>
    cases h
    refine TKeep.trans (tk_modifyActive _ hu ?_) (schedule_tkeep hv)
    intro t hp
    exact ⟨hp, fun h' => by simp [Thread.isTerminated, Thread.setBlocked] at h'⟩

theorem sync_tk (w : World) : TK w w.sync := tkeep_inc _

theorem postAcquire_tk {w : World} {o : Nat} {r : World × Bool} (h : w.postAcquire o = .ok r) : TK w r.1 := by
  unfold World.postAcquire at h
  mt_split h
  · cases h
  · cases h; exact TK.refl _
  · cases h
    refine TKeep.trans ?_ (tkeep_forOthers _ _ _ (fun t ho => pkeep_setBlocked t ho))
    exact tkeep_syncLoad _ _ _

theorem releaseLock_tk {w w' : World} {o : Nat} (h : w.releaseLock o = .ok w') : TK w w' := by
  unfold World.releaseLock at h
  mt_split h
  · cases h
  · cases h; exact TK.refl _
  · cases h
    exact tkeep_forOthers _ _ _ (fun t ho => pkeep_wake t ho)

theorem notifyWait2_tk {w w' : World} {o : Nat} (h : w.notifyWait2 o = .ok w') : TK w w' := by
  unfold World.notifyWait2 at h
  mt_split h
  · cases h
  · cases h
  · cases h; exact tkeep_syncLoad _ _ _

theorem notifyEffect_tk {w w' : World} {o : Nat} (h : w.notifyEffect o = .ok w') : TK w w' := by
  unfold World.notifyEffect at h
  mt_split h
  · cases h
  · cases h
    exact tkeep_forOthers _ _ _ (fun t ho => pkeep_notifyWake t _ ho)

theorem sendEffect_tk {w w' : World} {o : Nat} {v : Int} (h : w.sendEffect o v = .ok w') : TK w w' := by
  unfold World.sendEffect at h
  mt_split h
  · cases h
  · cases h
    exact tkeep_forOthers _ _ _ (fun t ho => pkeep_wake t ho)
  · cases h; exact TK.refl _

theorem recvEffect_tk {w : World} {o : Nat} {r : World × Int} (h : w.recvEffect o = .ok r) : TK w r.1 := by
  unfold World.recvEffect at h
  mt_split h
  all_goals first
    | (cases h; done)
    | (cases h
       refine TKeep.trans ?_ (tkeep_forOthers _ _ _ (fun t ho => pkeep_setBlocked t ho))
       exact tkeep_syncLoad _ _ _)
    | (cases h; exact tkeep_syncLoad _ _ _)

theorem notifyWait1_tk {w : World} {o : Nat} {r : World × Nat} (hu : ActUnparked w)
    (h : w.notifyWait1 o = .ok r) : TK w r.1 := by
  unfold World.notifyWait1 at h
  mt_split h
  all_goals first
    | (cases h; done)
    | (have hy := ‹World.yieldNow _ = Except.ok _›; cases h; have hk := yieldNow_tk (by exact hu) hy; exact hk)
    | (have hy := ‹World.branch _ _ _ _ _ = Except.ok _›; cases h; have hk := branch_tk (by exact hu) hy; exact hk)

theorem wake_tk (s : Threads) (t : Nat) : TKeep s (s.wake t) := by
  unfold Threads.wake
  split
  · exact TKeep.refl _
  · exact tkeep_modify _ _ _ (pkeep_wakeFrom _ _)

theorem foldl_wake_tk (l : List Nat) (s : Threads) : TKeep s (l.foldl (fun ths t => ths.wake t) s) := by
  induction l generalizing s with
  | nil => exact TKeep.refl _
  | cons a l ih => exact TKeep.trans (wake_tk s a) (ih _)

theorem newThread_tk {e : Exec} {r : Exec × Nat} (h : e.newThread = .ok r) : TKeep e.threads r.1.threads := by
  unfold Exec.newThread at h
  simp only [bind, Except.bind, pure, Except.pure] at h
  split at h
  · cases h
  · next v hv =>
    cases h
    unfold Threads.newThread at hv
    split at hv
    · cases hv
      dsimp only
      refine TKeep.trans (b := ({ e.threads with threads := e.threads.threads ++ [{}] } : Threads)) ?_ ?_
      · intro i
        by_cases hi : i < e.threads.threads.length
        · have : ({ e.threads with threads := e.threads.threads ++ [{}] } : Threads).get i = e.threads.get i := by
            unfold Threads.get; exact getD_append_left _ _ _ _ hi
          rw [this]; exact PKeep.refl _
        · rw [get_default _ _ hi]
          refine ⟨fun h' => ?_, fun _ => ⟨?_, fun hp => ?_⟩⟩
          · exfalso
            revert h'
            unfold Threads.get
            by_cases e' : i = e.threads.threads.length
            · subst e'; rw [getD_append_new]; simp [Thread.isTerminated]
            · simp [List.getD, List.getElem?_eq_none (show (e.threads.threads ++ [({} : Thread)]).length ≤ i by
                simp; omega), Thread.isTerminated]
          · unfold Threads.get
            by_cases e' : i = e.threads.threads.length
            · subst e'; rw [getD_append_new]
            · simp [List.getD, List.getElem?_eq_none (show (e.threads.threads ++ [({} : Thread)]).length ≤ i by
                simp; omega)]
          · exfalso
            revert hp
            unfold Threads.get
            by_cases e' : i = e.threads.threads.length
            · subst e'; rw [getD_append_new]; simp
            · simp [List.getD, List.getElem?_eq_none (show (e.threads.threads ++ [({} : Thread)]).length ≤ i by
                simp; omega)]
      · exact TKeep.trans (tkeep_modify _ _ _ (PKeep.of_same rfl rfl rfl))
          (tkeep_modify _ _ _ (PKeep.of_same rfl rfl rfl))
    · cases hv

end Refine2
end LoomVerif

/-
Refinement, STATICS fragment, part 5: the simulation for `lazy z` in programs that declare no atomic (then the
initialiser has no scheduling point: `lazyStage` completes in its stage 0, either reading the registered value or
running the initialiser to its end and registering instance 1).
-/
import LoomVerif.Proofs.Refine5Ops

namespace LoomVerif
namespace Refine5
open Refine Sy C07 C08

theorem runOp_lazy (w : World) (c : TCtl) (z : Nat) : w.runOp c (.lazy z) = w.lazyStage c z := rfl

/-! ### the reference step -/

theorem stepL_lazy_found {p : Prog} {d : SCData5} {t z : Nat} (hop : SCData5.opOf p d t = some (.lazy z))
    (hd : d.lazyDropped = false) (hg : d.lazyInit.getD z 0 = 1) :
    SCData5.stepL p d t =
      [(some ((d.th t).pc, .val ((d.lazyInit.getD z 0 : Int) * 100 + 40 + z)),
        d.ret t (.val ((d.lazyInit.getD z 0 : Int) * 100 + 40 + z)))] := by
  unfold SCData5.stepL
  rw [hop]
  have e : (d.lazyInit.getD z 0 == 0) = false := by rw [hg]; rfl
  simp only [hd, e, Bool.false_eq_true, ↓reduceIte]

theorem stepL_lazy_init {p : Prog} {d : SCData5} {t z : Nat} (hop : SCData5.opOf p d t = some (.lazy z))
    (hd : d.lazyDropped = false) (hg : d.lazyInit.getD z 0 = 0) :
    SCData5.stepL p d t =
      [(some ((d.th t).pc, .val (((d.lazyInit.set z 1).getD z 0 : Int) * 100 + 40 + z)),
        ({ d with lazyInit := d.lazyInit.set z 1 } : SCData5).ret t
          (.val (((d.lazyInit.set z 1).getD z 0 : Int) * 100 + 40 + z)))] := by
  unfold SCData5.stepL
  rw [hop]
  have e : (d.lazyInit.getD z 0 == 0) = true := by rw [hg]; rfl
  simp only [hd, e, Bool.false_eq_true, ↓reduceIte]

/-! ### what `readWorld` / the initialiser keep -/

theorem readWorld_len (w : World) (sv : LazyVal) (cs : CellSt) :
    (C17.readWorld w sv cs).exec.threads.threads.length = w.exec.threads.threads.length := by
  show (C17.readWorld w sv cs).ths.threads.length = _
  rw [C17.readWorld_ths]
  simp [Threads.activeCausalityInc, Threads.syncLoad, Threads.setCaus, Threads.modifyActive, Threads.modify, World.ths]

theorem readWorld_viewLe {w : World} {sv : LazyVal} {cs : CellSt} (hc : w.exec.objs[sv.cell]? = some (.cell cs)) :
    ViewLe w.exec.objs (C17.readWorld w sv cs).exec.objs := by
  rw [C17.readWorld_objs]
  intro n v hv
  by_cases e : n = sv.cell
  · subst e
    rw [objView_set_self _ (objView_lt hv)]
    rw [objView_of hc] at hv
    exact hv
  · rw [objView_set_ne _ _ e]; exact hv

theorem initWorld_len (w : World) (z id : Nat) (l : List (Nat × LazyVal)) :
    (C17.initWorld w z id l).exec.threads.threads.length = w.exec.threads.threads.length := by
  show (C17.initWorld w z id l).ths.threads.length = _
  rw [C17.initWorld_ths]
  simp [Threads.activeCausalityInc, Threads.modifyActive, Threads.modify, World.ths]

/-- the objects the program declares come first in the store -/
theorem base_le_len {p : Prog} {ctl sp objs cells mutex} (h : RY p ctl sp objs cells mutex)
    (hx : p.cfg.nAtomics = 0) : p.cfg.nAtomics + p.cfg.nCells ≤ objs.length := by
  by_cases h0 : p.cfg.nCells = 0
  · omega
  · have := objView_lt (h.cell (p.cfg.nCells - 1) (by omega))
    omega

section
variable {w w' : World} {s : SCData5}

theorem sim_lazy5 (hR : R5 w s) (hact : w.tid < w.ctl.length) {z : Nat}
    (hop : opAt w = some (.lazy z)) (hz : z < 2) (hx : w.prog.cfg.nAtomics = 0)
    (h : w.runOp (w.ctlOf w.tid) (.lazy z) = .ok w') : SimI w s w' := by
  have hin : w.tid < w.exec.threads.threads.length := by rw [← hR.lenCtl]; exact hact
  obtain ⟨_, hrel, hof⟩ := base5 hR hact
  have hst0 : (w.ctlOf w.tid).stage = 0 := by
    have := stage_le_one hR hact
    rw [hop] at this
    exact Nat.le_zero.1 this
  rw [runOp_lazy] at h
  cases hs : w.exec.lazyStatics with
  | none => rw [C17.lazyStage0_shutdown z hst0 hs] at h; cases h
  | some l =>
    obtain ⟨hnd, hinit⟩ := hR.z.live l hs
    cases hl : l.lookup z with
    | some sv =>
      -- the static is registered: read it
      rw [C17.lazyStage0_found hst0 hs hl] at h
      obtain ⟨⟨w1, v⟩, h1, h2⟩ := map_ok h
      cases h2
      obtain ⟨cs, hobj, _, _, hv, rfl⟩ := C17.lazyRead_ok h1
      obtain ⟨hi1, hbase, hview⟩ := hR.z.val l z sv hs hl
      obtain ⟨cs', hcs', hval⟩ := objView_cell hview
      rw [hobj] at hcs'; cases hcs'
      have hgz : s.lazyInit.getD z 0 = 1 := by rw [hinit z, hl]; rfl
      have hvv : v = ((s.lazyInit.getD z 0 : Nat) : Int) * 100 + 40 + z := by
        rw [hv, hi1, hval, hgz]; omega
      subst hvv
      have hvl := readWorld_viewLe (w := w) (sv := sv) hobj
      have hR1 : R5 (C17.readWorld w sv cs) s :=
        hR.effect (w0 := C17.readWorld w sv cs) (cells' := s.cells) (mutex' := s.mutex) rfl rfl rfl rfl rfl
          (readWorld_len w sv cs) rfl
          (LazyLe.of_viewLe hvl) (hR.y.viewLe hvl)
      show SimI w s ((C17.readWorld w sv cs).complete (.val ((s.lazyInit.getD z 0 : Int) * 100 + 40 + z)))
      refine ⟨⟨rfl, .inr ⟨some ((s.th (w.ctlOf w.tid).body).pc, .val ((s.lazyInit.getD z 0 : Int) * 100 + 40 + z)),
        s.ret (w.ctlOf w.tid).body (.val ((s.lazyInit.getD z 0 : Int) * 100 + 40 + z)),
        enabled_plain5 hR hact hop (by simp) (by simp), ?_, ?_, ?_⟩⟩,
        inRange_of (w := w) (w' := (C17.readWorld w sv cs).complete
          (.val ((s.lazyInit.getD z 0 : Int) * 100 + 40 + z))) rfl (Nat.le_of_eq (readWorld_len w sv cs).symm) hin⟩
      · rw [stepL_lazy_found (hof.trans hop) hnd hgz]
        exact List.mem_singleton.2 rfl
      · refine hR1.complete (w := C17.readWorld w sv cs) hact hop _ ?_
        intro z' e
        cases e
        rw [hgz]
        congr 1
      · rw [events_complete']
        show ((w.ctlOf w.tid).body, (w.ctlOf w.tid).pc, _) :: w.events.map triple = _
        rw [hrel.2.1]
        rfl
    | none =>
      -- the initialiser runs to its end and registers instance 1
      have hgz : s.lazyInit.getD z 0 = 0 := by rw [hinit z, hl]; rfl
      have hli0 : w.lazyInits.getD z 0 = 0 := by rw [hR.z.eqI]; exact hgz
      rw [C17.lazyStage0_init_now hst0 hs hl hx] at h
      obtain ⟨⟨w1, v⟩, h1, h2⟩ := map_ok h
      cases h2
      rw [C17.lazyInitFinish_init_ok (w := C17.bumped w z) (w.lazyInits.getD z 0 + 1)
        (show (C17.bumped w z).exec.lazyStatics = some l from hs) hl hin] at h1
      cases h1
      -- abbreviations
      generalize hcsC : ({ C17.initCell (C17.bumped w z) with
          writeAccess := (C17.bumped w z).ths.caus.join (C17.bumped w z).ths.activeCausalityInc.caus,
          value := 40 + (z : Int) } : CellSt) = csC
      have hcval : csC.value = 40 + (z : Int) := by rw [← hcsC]
      generalize hW1 : C17.initWorld (C17.bumped w z) z (w.lazyInits.getD z 0 + 1) l = W1
      generalize hsv1 : C17.initVal (C17.bumped w z) (w.lazyInits.getD z 0 + 1) = sv1
      have hsvc : sv1.cell = w.exec.objs.length := by rw [← hsv1]; rfl
      have hsvi : sv1.inst = 1 := by rw [← hsv1]; show w.lazyInits.getD z 0 + 1 = 1; rw [hli0]
      have hW1objs : W1.exec.objs = w.exec.objs ++ [.cell csC] := by
        rw [← hW1, ← hcsC]; exact C17.initWorld_objs _ _ _ _
      have hobj1 : W1.exec.objs[sv1.cell]? = some (.cell csC) := by
        rw [hW1objs, hsvc]; simp
      have hvl1 : ViewLe w.exec.objs W1.exec.objs := by rw [hW1objs]; exact ViewLe.append _ _
      have hvl2 : ViewLe w.exec.objs (C17.readWorld W1 sv1 csC).exec.objs :=
        fun n v hv => readWorld_viewLe hobj1 n v (hvl1 n v hv)
      have hlen2 : (C17.readWorld W1 sv1 csC).exec.threads.threads.length = w.exec.threads.threads.length := by
        rw [readWorld_len, ← hW1]; exact initWorld_len _ _ _ _
      have hctl2 : (C17.readWorld W1 sv1 csC).ctl = w.ctl := by rw [← hW1]; rfl
      have hprog2 : (C17.readWorld W1 sv1 csC).prog = w.prog := by rw [← hW1]; rfl
      have hsp2 : (C17.readWorld W1 sv1 csC).spawned = w.spawned := by rw [← hW1]; rfl
      have hev2 : (C17.readWorld W1 sv1 csC).events = w.events := by rw [← hW1]; rfl
      have htid2 : (C17.readWorld W1 sv1 csC).tid = w.tid := by rw [← hW1]; rfl
      have hI2 : (C17.readWorld W1 sv1 csC).tlsInits = w.tlsInits := by rw [← hW1]; rfl
      have hD2 : (C17.readWorld W1 sv1 csC).tlsDrops = w.tlsDrops := by rw [← hW1]; rfl
      have hO2 : (C17.readWorld W1 sv1 csC).tlsObs = w.tlsObs := by rw [← hW1]; rfl
      have hli2 : (C17.readWorld W1 sv1 csC).lazyInits = w.lazyInits.set z (w.lazyInits.getD z 0 + 1) := by
        rw [← hW1]; rfl
      have hst2 : (C17.readWorld W1 sv1 csC).exec.lazyStatics = some ((z, sv1) :: l) := by
        rw [← hW1, ← hsv1]; rfl
      have hview2 : objView (C17.readWorld W1 sv1 csC).exec.objs sv1.cell = some (.cell (40 + (z : Int))) := by
        rw [C17.readWorld_objs, objView_set_self _ (by rw [hW1objs, hsvc]; simp)]
        show some (OV.cell csC.value) = _
        rw [hcval]
      have hzl : z < s.lazyInit.length := by rw [hR.z.len]; exact hz
      have hR2 : R5 (C17.readWorld W1 sv1 csC) ({ s with lazyInit := s.lazyInit.set z 1 } : SCData5) := by
        have hc0 : (C17.readWorld W1 sv1 csC).ctlOf 0 = w.ctlOf 0 := by simp only [World.ctlOf, hctl2]
        refine ⟨by rw [hctl2, hlen2]; exact hR.lenCtl, by rw [hprog2, hctl2]; exact hR.x,
          by rw [hprog2, hctl2, hsp2]; exact hR.y.viewLe hvl2, by rw [hctl2, hI2, hO2]; exact hR.t, ?_,
          by rw [hctl2, hI2, hD2]; exact hR.c, by rw [hc0, htid2]; exact hR.lag, by rw [hev2, hprog2]; exact hR.ev⟩
        rw [hprog2, hli2, hst2, hc0]
        refine ⟨by rw [List.length_set]; exact hR.z.len, by rw [hli0, hR.z.eqI], ?_, ?_, fun e => (by cases e), ?_⟩
        · intro l' e
          cases e
          refine ⟨hnd, fun z' => ?_⟩
          by_cases e : z' = z
          · subst e
            rw [C17.getD_set_self _ _ hzl, lookup_cons_self]; rfl
          · rw [C17.getD_set_ne _ _ (fun e' => e e'.symm), lookup_cons_ne _ _ _ _ e]
            exact hinit z'
        · intro l' z' sv' e hz'
          cases e
          by_cases e : z' = z
          · subst e
            rw [lookup_cons_self] at hz'
            cases hz'
            refine ⟨hsvi, ?_, hview2⟩
            rw [hsvc]; exact base_le_len hR.y hx
          · rw [lookup_cons_ne _ _ _ _ e] at hz'
            obtain ⟨a1, a2, a3⟩ := hR.z.val l z' sv' hs hz'
            exact ⟨a1, a2, hvl2 _ _ a3⟩
        · intro e
          have := hR.z.shut e
          rw [hs] at this
          cases this
      have hc2 : (C17.readWorld W1 sv1 csC).ctlOf (C17.readWorld W1 sv1 csC).tid = w.ctlOf w.tid := by
        simp only [World.ctlOf, hctl2, htid2]
      have hop2 : opAt (C17.readWorld W1 sv1 csC) = some (.lazy z) := by
        unfold Refine.opAt
        rw [hc2, hprog2]; exact hop
      have hg1 : ((s.lazyInit.set z 1).getD z 0) = 1 := C17.getD_set_self _ _ hzl
      have hvv : ((w.lazyInits.getD z 0 + 1 : Nat) : Int) * 100 + (40 + (z : Int)) =
          (((s.lazyInit.set z 1).getD z 0 : Nat) : Int) * 100 + 40 + z := by
        rw [hli0, hg1]; omega
      show SimI w s ((C17.readWorld W1 sv1 csC).complete
        (.val (((w.lazyInits.getD z 0 + 1 : Nat) : Int) * 100 + (40 + (z : Int)))))
      rw [hvv]
      refine ⟨⟨hprog2, .inr ⟨some ((s.th (w.ctlOf w.tid).body).pc,
          .val (((s.lazyInit.set z 1).getD z 0 : Int) * 100 + 40 + z)),
        ({ s with lazyInit := s.lazyInit.set z 1 } : SCData5).ret (w.ctlOf w.tid).body
          (.val (((s.lazyInit.set z 1).getD z 0 : Int) * 100 + 40 + z)),
        enabled_plain5 hR hact hop (by simp) (by simp), ?_, ?_, ?_⟩⟩,
        inRange_of (w := w) (w' := (C17.readWorld W1 sv1 csC).complete
          (.val (((s.lazyInit.set z 1).getD z 0 : Int) * 100 + 40 + z))) htid2 (Nat.le_of_eq hlen2.symm) hin⟩
      · rw [stepL_lazy_init (hof.trans hop) hnd hgz]
        exact List.mem_singleton.2 rfl
      · have := hR2.complete (by rw [htid2, hctl2]; exact hact) hop2
          (.val (((s.lazyInit.set z 1).getD z 0 : Int) * 100 + 40 + z)) (by
            intro z' e
            cases e
            rw [hg1]
            congr 1)
        rw [hc2] at this
        exact this
      · rw [events_complete', hc2, hev2, hrel.2.1]
        rfl

end

end Refine5
end LoomVerif

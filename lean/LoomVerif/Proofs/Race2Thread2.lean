/-
Race exactness on the WAIT fragment, part 13: the thread epilogue.  The notification of the joiner (`notifyEffect`
on the `JoinHandle` notify) publishes the thread's final causality in the object's clock; the joiner acquires it
in the second half of its wait (`Notify::notify` itself only wakes: repair of finding F26).
-/
import LoomVerif.Proofs.Race2Thread

namespace LoomVerif
namespace Race2
open Refine Refine2 Sy C07 C08 Clocks Race

section
variable {w w' : World} {s : SC.St}

/-! ### the end of a thread in the reference -/

/-- the silent step at the end of a thread does not lead to a state related to a world in which the thread is on
the same side of its notification -/
theorem no_silent_end (hRC : RC2 w s) (hact : w.tid < w.ctl.length) (hnone : opAt2 w = none)
    (hlen : w.tid < w'.ctl.length) (hbody : body w' w.tid = body w w.tid)
    (hfin : 10 ≤ fin w' w.tid → 10 ≤ fin w w.tid) (d' : SCData2)
    (hen : SCData2.enabled w.prog (data2 s) (body w w.tid) = true)
    (hst : (none, d') ∈ SCData2.stepL w.prog (data2 s) (body w w.tid)) (hR' : R2 w' d') : False := by
  obtain ⟨_, hf, _⟩ := pc_eq2 hRC.r hact
  have hC := (pend_none (c := w.ctlOf w.tid) hnone).2.1
  have hcv := (frag_cv hRC hact hC).2
  have hbt : body w w.tid < (data2 s).ths.length := by rw [hRC.r.c.x.len]; exact body_lt2 hRC.r hact
  have h1 : ((data2 s).th (body w w.tid)).finished = false := by
    unfold SCData2.enabled at hen
    simp only [Bool.and_eq_true, Bool.not_eq_true'] at hen
    exact hen.1.2
  rw [data2_th] at h1
  have h1' : (s.th (body w w.tid)).finished = false := h1
  rw [hf] at h1'
  have hn10 : ¬ 10 ≤ fin w w.tid := by simpa using h1'
  have ho : SCData2.opOf w.prog (data2 s) (body w w.tid) = none := by
    rw [data2_opOf, opOf_eq2 hRC.r hact]; exact hnone
  have hcv' : ((data2 s).th (body w w.tid)).cvNotified = none := by rw [data2_th]; exact hcv
  unfold SCData2.stepL at hst
  simp only [hcv', ho, List.mem_singleton, Prod.mk.injEq, true_and] at hst
  subst hst
  obtain ⟨_, h⟩ := hR'.c.x.thr w.tid hlen
  have h2 := h.2.2.2.1
  rw [show (w'.ctl.getD w.tid {}).body = body w w.tid from hbody] at h2
  have h3 : (((data2 s).modTh (body w w.tid) fun h => { h with finished := true }).th (body w w.tid)).finished =
      decide (10 ≤ fin w' w.tid) := h2
  rw [SCData2.th_modTh, if_pos ⟨rfl, hbt⟩] at h3
  have : 10 ≤ fin w' w.tid := by simpa using h3.symm
  exact hn10 (hfin this)

theorem pend_none_end2 (hnone : opAt2 w = none) : pend w w.tid = none := by
  apply pend_notJoin; intro b' hb'; rw [opAtI_tid2, hnone] at hb'; cases hb'

theorem pendClk_end_tid (hnone : opAt2 w = none) (σ : CS) : pendClk w σ w.tid = VV.zero :=
  pendClk_end (by rw [opAtI_tid2]; exact hnone)

/-! ### the quiet stages of the epilogue -/

/-- a move of the control record alone -/
theorem quiet_mod2 (hRC : RC2 w s) (hact : w.tid < w.ctl.length) (hnone : opAt2 w = none) (F : TCtl → TCtl)
    (hFb : (F (w.ctlOf w.tid)).body = (w.ctlOf w.tid).body)
    (hFfin : 10 ≤ (F (w.ctlOf w.tid)).fin ↔ 10 ≤ (w.ctlOf w.tid).fin) : QuietOut2 w s (w.modCtl w.tid F) := by
  have ht := nthr_tid2 hRC hact
  have hself := ctlOf_modCtl_self w w.tid F hact
  refine quiet_core2 hRC hact F (pendClk_end_tid hnone) (pend_none_end2 hnone)
    ((SchedOut.refl w).exec_congr rfl) rfl rfl rfl rfl hFb hFfin ?_ ?_
  · intro o ho
    exact ⟨hRC.inv.ob w.tid o ht ho, .inl ho⟩
  · refine no_silent_end hRC hact hnone (by rw [ctl_len_modCtl]; exact hact) ?_ ?_
    · unfold body; rw [hself]; exact hFb
    · unfold fin; rw [hself]; exact hFfin.1

/-- a scheduling point after a move of the control record -/
theorem quiet_sched2 (hRC : RC2 w s) (hact : w.tid < w.ctl.length) (hnone : opAt2 w = none) (F : TCtl → TCtl)
    (hFb : (F (w.ctlOf w.tid)).body = (w.ctlOf w.tid).body)
    (hFfin : 10 ≤ (F (w.ctlOf w.tid)).fin ↔ 10 ≤ (w.ctlOf w.tid).fin) {op' : Option Nat}
    (hso : SchedOut (w.modCtl w.tid F) w' op') (hq : Quiet2 (w.modCtl w.tid F) w')
    (hc : w'.ctl = (w.modCtl w.tid F).ctl)
    (hop : ∀ o, op' = some o → o < w.exec.objs.length ∧
      ∀ b j n, (b, j, n) ∈ w.spawned → o = n → w.tid ≠ j → False) : QuietOut2 w s w' := by
  have hself : w'.ctlOf w.tid = F (w.ctlOf w.tid) := by
    unfold World.ctlOf; rw [hc]; exact ctlOf_modCtl_self w w.tid F hact
  refine quiet_core2 hRC hact F (pendClk_end_tid hnone) (pend_none_end2 hnone)
    (hso.src_congr rfl) hq.prog hq.spawned hq.events hc hFb hFfin ?_ ?_
  · intro o ho
    exact ⟨(hop o ho).1, .inr fun b j n hm e hne => ((hop o ho).2 b j n hm e hne).elim⟩
  · refine no_silent_end hRC hact hnone (by rw [hc, ctl_len_modCtl]; exact hact) ?_ ?_
    · unfold body; rw [hself]; exact hFb
    · unfold fin; rw [hself]; exact hFfin.1

/-! ### the reference step at the end of a thread -/

/-- the clocks of neither side move -/
theorem finish_out2 (hRC : RC2 w s) (hact : w.tid < w.ctl.length) (hnone : opAt2 w = none)
    (hlt : fin w w.tid < 10) (hp : w'.prog = w.prog)
    (hctl : ∀ i, w'.ctlOf i = if i = w.tid then { w.ctlOf w.tid with fin := 10 } else w.ctlOf i)
    (hlen : w'.ctl.length = w.ctl.length)
    (hT : ∀ σT mT, LinkT2 w σT mT → TwinInv w' ∧ TwinInv2 w' ∧ LinkT2 w' σT mT) : RealOut2 w s w' := by
  obtain ⟨σT, σR, mT, mR, hc⟩ := hRC.clk
  have ho : SC.opOf w.prog s (body w w.tid) = none := (opOf_eq2 hRC.r hact).trans hnone
  have hbody : ∀ i, body w' i = body w i := by
    intro i; unfold body; rw [hctl i]; split
    · next e => rw [e]
    · rfl
  have hC := (pend_none (c := w.ctlOf w.tid) hnone).2.1
  have hcvs := frag_cv hRC hact hC
  have hfr : FragTh (s.th (body w w.tid)) := ⟨hcvs.1, hcvs.2, (hRC.fs.2 _).1, (hRC.fs.2 _).2⟩
  have hL0 : LinkR2 w.prog (if body w w.tid == 0 then { s with lazyDropped := true } else s) σR mR := by
    split
    · exact hc.lr.fields _ rfl rfl rfl rfl rfl rfl rfl rfl rfl
    · exact hc.lr
  have hI := hT σT mT hc.lt
  refine ⟨hp, ?_, no_spur_end hRC hact hnone, _, step_end hfr ho, ?_, ?_, hI.1, hI.2.1, σT, σR, mT, mR, hI.2.2,
    hL0.modTh _ _ (fun _ => rfl) (fun _ => rfl), hc.gt, hc.gr, ?_, ?_, hc.mgt, hc.mgr⟩
  · -- not a stutter: `finished` flips
    intro hR' _
    have h1 := (pc_eq2 (s := s) hR' (show w.tid < w'.ctl.length by rw [hlen]; exact hact)).2.1
    have h0 := (pc_eq2 hRC.r hact).2.1
    rw [hbody] at h1
    rw [h0] at h1
    have hf' : fin w' w.tid = 10 := by unfold fin; rw [hctl, if_pos rfl]
    rw [hf'] at h1
    simp only [decide_eq_decide] at h1
    have := h1.2 (Nat.le_refl _)
    omega
  · show (SC.St.modTh _ _ _).verdict = none
    rw [verdict_modTh]
    split <;> exact hRC.fs.1
  · show ∀ q, (SC.St.modTh _ _ _).rxDropped.getD q false = false
    intro q
    have : ∀ (s0 : SC.St) t f, (s0.modTh t f).rxDropped = s0.rxDropped := fun _ _ _ => rfl
    rw [this]
    split <;> exact hRC.nd q
  · rw [hlen]
    exact XInv.congr2 hc.x (fun i _ => hbody i)
  · intro q hq
    rw [hlen]
    exact (hc.mx q hq).imp fun _ _ hh => hh.congr (fun i _ => hbody i)

/-! ### the stage of the notification -/

theorem pend_join {i n : Nat} (h : pend w i = some n) : ∃ b, opAtI w i = some (.join b) := by
  unfold pend at h
  split at h
  · split at h
    · next b hb => exact ⟨b, hb⟩
    · cases h
  · cases h

/-- the invariant of the thread that passes its notification -/
theorem self_finished (hRC : RC2 w s) (hact : w.tid < w.ctl.length) (hnone : opAt2 w = none)
    {σT : CS} {mT : Nat → List VV} (hLT : LinkT2 w σT mT)
    (hs : w'.spawned = w.spawned) (hlen : w.exec.objs.length ≤ w'.exec.objs.length)
    (hctl : ∀ i, w'.ctlOf i = if i = w.tid then { w.ctlOf w.tid with fin := 10 } else w.ctlOf i)
    (hsame : SameThr w w' w.tid) (htopo : topo w' w.tid = topo w w.tid) : ThrInv w' σT w.tid := by
  have ht := nthr_tid2 hRC hact
  obtain ⟨hT, hO⟩ := unpack hRC.inv hRC.inv2 hLT
  have hTt := hT w.tid ht
  have hf' : fin w' w.tid = 10 := by unfold fin; rw [hctl, if_pos rfl]
  refine ⟨?_, ?_, ?_, ?_, ?_, ?_, ?_⟩
  · rw [hsame.rel]; exact hTt.rel
  · intro o ho
    rw [htopo] at ho
    exact Nat.lt_of_lt_of_le (hTt.ob o ho) hlen
  · intro b j n ho hm hij
    rw [htopo] at ho
    rw [hs] at hm
    right
    rcases hTt.jo b j n ho hm hij with h1 | h1
    · rw [pend_none_end2 hnone] at h1; cases h1
    · unfold fin at h1 ⊢; rw [hctl, if_neg (Ne.symm hij)]; exact h1
  · rw [hsame.caus]; exact hTt.lo
  · rw [hsame.caus]
    have := hTt.hi
    rw [pendClk_end_tid hnone, join_zero] at this
    exact le_trans this (le_join_left _ _)
  · intro hf; rw [hf'] at hf; omega
  · intro hf; rw [hf'] at hf; omega

/-- **the end of the main thread** -/
theorem main_transfer2 (hRC : RC2 w s) (hact : w.tid < w.ctl.length) (hnone : opAt2 w = none) (ht0 : w.tid = 0)
    {σT : CS} {mT : Nat → List VV} (hLT : LinkT2 w σT mT)
    (hp : w'.prog = w.prog) (hs : w'.spawned = w.spawned) (he : w'.exec.threads = w.exec.threads)
    (ho : w'.exec.objs = w.exec.objs)
    (hctl : ∀ i, w'.ctlOf i = if i = w.tid then { w.ctlOf w.tid with fin := 10 } else w.ctlOf i) :
    TwinInv w' ∧ TwinInv2 w' ∧ LinkT2 w' σT mT := by
  obtain ⟨hT, hO⟩ := unpack hRC.inv hRC.inv2 hLT
  have e1 : ∀ i, tcaus w' i = tcaus w i ∧ trel w' i = trel w i ∧ tuc w' i = tuc w i ∧ ttok w' i = ttok w i ∧
      topo w' i = topo w i := by
    intro i; unfold tcaus trel tuc ttok topo World.ths; rw [he]; exact ⟨rfl, rfl, rfl, rfl, rfl⟩
  have hsame : ∀ i, SameThr w w' i := fun i => ⟨(e1 i).1, (e1 i).2.1, (e1 i).2.2.1, (e1 i).2.2.2.1⟩
  have hso : ∀ n, SameObj w.exec.objs w'.exec.objs n := by intro n; rw [ho]; exact SameObj.refl _ _
  refine assemble hRC hLT hp hs (by unfold nthr; rw [he]) (by rw [ho]; exact Nat.le_refl _) ?_ ?_ ?_
    (self_finished hRC hact hnone hLT hs (by rw [ho]; exact Nat.le_refl _) hctl (hsame _) (e1 _).2.2.2.2)
    (fun i _ _ => .inl ⟨hsame i, (e1 i).2.2.2.2, rfl, fun _ => rfl⟩) (fun _ => le_refl _)
    (fun _ _ n _ => by rw [(hso n).hb]; exact le_refl _)
    (fun _ _ => .inl ⟨hso _, rfl⟩) (fun _ _ => .inl ⟨hso _, rfl⟩) (fun _ _ => .inl ⟨hso _, rfl, rfl⟩)
    (fun _ _ => .inl ⟨hso _, fun _ => rfl⟩) ?_ (fun _ _ => rfl)
  · intro i hi; rw [hctl, if_neg hi]
  · unfold body; rw [hctl, if_pos rfl]
  · intro _; unfold fin; rw [hctl, if_pos rfl]; exact Nat.le_refl _
  · intro b j n hm
    have hj : j ≠ w.tid := by have := hO.sp0 b j n hm; omega
    rw [(hso n).hb, hO.nhb b j n hm, (e1 j).1]
    unfold fin; rw [hctl, if_neg hj]

/-- **the notification of the joiner** -/
theorem notify_transfer2 (hRC : RC2 w s) (hact : w.tid < w.ctl.length) (hnone : opAt2 w = none) {b n : Nat}
    (hmem : (b, w.tid, n) ∈ w.spawned) (hlt : fin w w.tid < 10) {σT : CS} {mT : Nat → List VV}
    (hLT : LinkT2 w σT mT)
    (hp : w'.prog = w.prog) (hs : w'.spawned = w.spawned) (hn : nthr w' = nthr w)
    (hctl : ∀ i, w'.ctlOf i = if i = w.tid then { w.ctlOf w.tid with fin := 10 } else w.ctlOf i)
    {X : Obj} (hobjs : w'.exec.objs = w.exec.objs.set n X) (hX : hbOf X = tcaus w w.tid)
    (hcaus : ∀ i, tcaus w' i = tcaus w i)
    (hrel : ∀ i, trel w' i = trel w i) (htopo : ∀ i, topo w' i = topo w i)
    (huc : ∀ i, tuc w' i = tuc w i) (htok : ∀ i, ttok w' i = ttok w i) :
    TwinInv w' ∧ TwinInv2 w' ∧ LinkT2 w' σT mT := by
  obtain ⟨hT, hO⟩ := unpack hRC.inv hRC.inv2 hLT
  have ht := nthr_tid2 hRC hact
  have hnlt := sp_lt2 hRC.r hmem
  have hctlne : ∀ i, i ≠ w.tid → w'.ctlOf i = w.ctlOf i := by intro i hi; rw [hctl, if_neg hi]
  have hfin : ∀ j, fin w' j = if j = w.tid then 10 else fin w j := by
    intro j
    unfold fin; rw [hctl j]
    split <;> rfl
  have hfinMono : ∀ j, 10 ≤ fin w j → 10 ≤ fin w' j := by
    intro j hj; rw [hfin]; split
    · exact Nat.le_refl _
    · exact hj
  have hhbn : objHb w.exec.objs n = VV.zero := by
    rw [hRC.inv.nhb b w.tid n hmem, if_neg (by omega)]
  have hhb : ∀ n', objHb w'.exec.objs n' = if n' = n then tcaus w w.tid else objHb w.exec.objs n' := by
    intro n'
    rw [hobjs]
    by_cases e : n' = n
    · subst e; rw [if_pos rfl, objHb_set_self _ _ hnlt, hX]
    · rw [if_neg e, objHb_set_ne _ _ e]
  have hhbMono : ∀ n', (objHb w.exec.objs n').le (objHb w'.exec.objs n') := by
    intro n'
    rw [hhb]
    split
    · next e => rw [e, hhbn]; exact zero_le _
    · exact le_refl _
  have hlen : w.exec.objs.length ≤ w'.exec.objs.length := by rw [hobjs]; simp
  have hso : ∀ n', n' ≠ n → SameObj w.exec.objs w'.exec.objs n' := by
    intro n' hn'; rw [hobjs]; exact SameObj.set_ne _ _ hn'
  have hcausT : tcaus w' w.tid = tcaus w w.tid := hcaus _
  refine assemble hRC hLT hp hs hn hlen hctlne (by unfold body; rw [hctl, if_pos rfl])
    (fun h => hfinMono _ h)
    (self_finished hRC hact hnone hLT hs hlen hctl ⟨hcausT, hrel _, huc _, htok _⟩ (htopo _))
    ?_ (fun _ => le_refl _) (fun _ _ n' _ => hhbMono n')
    (fun m hm => .inl ⟨hso _ (Ne.symm (sp_ne_mtx2 hRC.r hmem hm)), rfl⟩)
    (fun k hk => .inl ⟨hso _ (Ne.symm (sp_ne_ntf2 hRC.r hmem hk)), rfl⟩)
    (fun q hq => .inl ⟨hso _ (Ne.symm (sp_ne_chan2 hRC.r hmem hq)), rfl, rfl⟩)
    (fun c hc => .inl ⟨hso _ (Ne.symm (sp_ne_cell2 hRC.r hmem hc)), fun _ => rfl⟩) ?_ (fun _ _ => rfl)
  · -- the other threads: nothing the invariant reads changes (a waiting joiner is only woken)
    intro i hi hne
    left
    exact ⟨⟨hcaus i, hrel i, huc i, htok i⟩, htopo i, rfl, fun _ => rfl⟩
  · -- the `JoinHandle` clocks
    intro b' j n' hm
    rw [hhb]
    by_cases e : n' = n
    · subst e
      have hj : j = w.tid := by
        have := hRC.r.c.o.y.spn _ _ hm hmem rfl
        simpa using this
      subst hj
      rw [if_pos rfl, hfin, if_pos rfl, if_pos (Nat.le_refl _), hcausT]
    · rw [if_neg e, hRC.inv.nhb b' j n' hm]
      have hj : j ≠ w.tid := by
        intro ej
        subst ej
        have := hRC.inv.spt _ _ hm hmem rfl
        simp only [Prod.mk.injEq] at this
        exact e this.2.2
      rw [hfin, if_neg hj]
      by_cases h10 : 10 ≤ fin w j
      · rw [if_pos h10, if_pos h10, hcaus]
      · rw [if_neg h10, if_neg h10]

/-- the thread entries after `Notify::notify` on object `n` -/
theorem notF_readers (w : World) (O : List Obj) (n i : Nat) :
    tcaus (W2 w O (notF w n)) i = tcaus w i ∧
    trel (W2 w O (notF w n)) i = trel w i ∧ topo (W2 w O (notF w n)) i = topo w i ∧
    tuc (W2 w O (notF w n)) i = tuc w i ∧ ttok (W2 w O (notF w n)) i = ttok w i := by
  have hg := W2_get w O (notF w n) i
  have hk : key5 ((W2 w O (notF w n)).ths.get i) = key5 (w.ths.get i) := by
    rw [hg]
    split
    · unfold notF
      split
      · rfl
      · split
        · exact key5_wake _
        · rfl
    · rfl
  exact readers_of_key5 hk

/-! ### the epilogue -/

theorem clk_epilogue2 (hRC : RC2 w s) (hact : w.tid < w.ctl.length) (hnone : opAt2 w = none)
    (h : w.runEpilogue (w.ctlOf w.tid) = .ok w') : QuietOut2 w s w' ∨ RealOut2 w s w' := by
  obtain ⟨_, hrel, _⟩ := base2 hRC.r.c hact
  have hloc := hrel.2.2.2.2.2.1
  have hdq := hrel.2.2.2.2.2.2
  have hdl : w.dropLocals = w := dropLocals_frag w hloc hdq
  have ht := nthr_tid2 hRC hact
  by_cases h10 : 10 ≤ (w.ctlOf w.tid).fin
  · left
    rw [runEpilogue_finish w _ h10] at h
    unfold World.finishThread at h
    split at h
    · cases h
    · next hrange =>
      rw [dropPass_eq, hdl] at h
      split at h
      · next e =>
        cases h
        exact quiet_mod2 hRC hact hnone _ rfl (by show 10 ≤ 10 + 1 ↔ _; omega)
      · split at h
        · next e =>
          rw [hdq] at h
          simp only at h
          obtain ⟨hq, hc, _⟩ := threadDone_quiet2 h
          exact quiet_sched2 hRC hact hnone (fun c => { c with fin := 99 }) rfl (by show 10 ≤ 99 ↔ _; omega)
            (threadDone_sched h ht) hq hc (by intro o ho; cases ho)
        · rw [hdq] at h
          cases h
  · have hlt : (w.ctlOf w.tid).fin < 10 := by omega
    by_cases ht0 : w.tid = 0
    · right
      rw [runEpilogue_main w _ ht0 hlt] at h
      cases h
      have hctl : ∀ i, (({ w with exec := { w.exec with lazyStatics := none } } : World).modCtl w.tid
          fun c => { c with fin := 10 }).ctlOf i =
          if i = w.tid then { w.ctlOf w.tid with fin := 10 } else w.ctlOf i :=
        fun i => modCtl_ctlOf w _ w.tid _ i (by rfl) hact
      refine finish_out2 hRC hact hnone hlt rfl hctl (by rw [ctl_len_modCtl]) ?_
      intro σT mT hLT
      exact main_transfer2 hRC hact hnone ht0 hLT rfl rfl rfl rfl hctl
    · have hfind : ∃ b n, w.spawned.find? (·.2.1 == w.tid) = some (b, w.tid, n) := by
        cases hf : w.spawned.find? (·.2.1 == w.tid) with
        | none =>
          unfold World.runEpilogue at h
          simp [h10, ht0, hf, throw, throwThe, MonadExceptOf.throw] at h
        | some e =>
          obtain ⟨b, t, n⟩ := e
          have := List.find?_some hf
          simp only [beq_iff_eq] at this
          subst this
          exact ⟨b, n, rfl⟩
      obtain ⟨b, n, hf⟩ := hfind
      have hmem := List.mem_of_find?_eq_some hf
      rw [runEpilogue_spawned w _ b n ht0 hf hlt] at h
      split at h
      · next e =>
        left
        rw [hdl] at h
        cases h
        exact quiet_mod2 hRC hact hnone _ rfl (by show 10 ≤ 4 ↔ _; omega)
      · split at h
        · next e3 =>
          left
          rw [dropPass_eq, hdl] at h
          split at h
          · cases h
            exact quiet_mod2 hRC hact hnone _ rfl (by show 10 ≤ 3 + 1 ↔ _; omega)
          · split at h
            · rw [hdq] at h
              simp only at h
              obtain ⟨hq, hc, _⟩ := branch_quiet2 h
              refine quiet_sched2 hRC hact hnone (fun c => { c with fin := 1 }) rfl (by show 10 ≤ 1 ↔ _; omega)
                (branch_sched h ht) hq hc ?_
              intro o ho
              cases ho
              refine ⟨sp_lt2 hRC.r hmem, ?_⟩
              intro b' j n' hm e hne
              subst e
              have := hRC.r.c.o.y.spn _ _ hm hmem rfl
              simp only at this
              exact hne this.symm
            · rw [hdq] at h
              cases h
        · -- the notification
          right
          obtain ⟨_, _, nt, ds, hv, _⟩ := hRC.r.c.o.y.sp b w.tid n hmem
          obtain ⟨ns, hobj, _, _⟩ := objView2_notify hv
          obtain ⟨w1, h1, h⟩ := bind_ok h
          rw [notifyEffect_eq hobj] at h1
          obtain rfl : w1 = W2 w (w.exec.objs.set n (.notify { ns with
              sync := ns.sync.store w.ths.activeT.released w.ths.caus .rel, notified := true })) (notF w n) := by
            cases h1; rfl
          simp only [pure, Except.pure] at h
          cases h
          have hctl : ∀ i, ((W2 w (w.exec.objs.set n (.notify { ns with
              sync := ns.sync.store w.ths.activeT.released w.ths.caus .rel, notified := true }))
              (notF w n)).modCtl w.tid fun c => { c with fin := 10 }).ctlOf i =
              if i = w.tid then { w.ctlOf w.tid with fin := 10 } else w.ctlOf i :=
            fun i => modCtl_ctlOf w _ w.tid _ i (by rfl) hact
          refine finish_out2 hRC hact hnone hlt rfl hctl (by rw [ctl_len_modCtl]; rfl) ?_
          have hX : hbOf (.notify { ns with
              sync := ns.sync.store w.ths.activeT.released w.ths.caus .rel, notified := true }) =
              tcaus w w.tid := by
            show (ns.sync.store w.ths.activeT.released w.ths.caus .rel).hb = _
            rw [Clocks.Sync.store_of_releases _ _ _ (by rfl)]
            have hr : w.ths.activeT.released = VV.zero := hRC.inv.rel w.tid ht
            have hz : ns.sync.hb = VV.zero := by
              have := hRC.inv.nhb b w.tid n hmem
              rw [objHb_of hobj, if_neg (by show ¬ 10 ≤ (w.ctlOf w.tid).fin; omega)] at this
              exact this
            rw [hr, hz, join_zero, zero_join]
            rfl
          intro σT mT hLT
          have hrd := notF_readers w (w.exec.objs.set n (.notify { ns with
              sync := ns.sync.store w.ths.activeT.released w.ths.caus .rel, notified := true })) n
          exact notify_transfer2 hRC hact hnone hmem hlt hLT rfl rfl (W2_nthr _ _ _) hctl rfl hX
            (fun i => (hrd i).1) (fun i => (hrd i).2.1) (fun i => (hrd i).2.2.1) (fun i => (hrd i).2.2.2.1)
            (fun i => (hrd i).2.2.2.2)

end

end Race2
end LoomVerif

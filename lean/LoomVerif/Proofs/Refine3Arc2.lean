/-
Refinement, RESOURCE fragment, part 7: the simulation for `arcDrop`, `arcDec`, `arcUnwrap`, the `Track` / `alloc`
operations, and the one-step simulation theorem `step_sim3`.

The run-level hypothesis `resumeOk3` is needed at two places:
* `arcUnwrap h` is TWO stages after its branch point in loom (`get_mut`, then — at a second branch point —
  `ref_dec`); the reference does it in one step.  If another thread changes the count between the two, the twin
  returns `Ok` where the reference returns `Err` (`Props/Refine3.lean`, `Counter.unwrap_window`).
* `trackNew k` into a slot that still holds a `Track` that was not dropped: the reference forgets the old value,
  the twin keeps its allocation object, which it then reports as leaked (`Counter.track_overwrite`).
-/
import LoomVerif.Proofs.Refine3Arc
import LoomVerif.Proofs.C10Alloc

namespace LoomVerif
namespace Refine3
open Refine Sy C07 C08 C11 C10

/-- what the run must satisfy at each step (computable): the second half of `arcUnwrap h` finds the count still 1;
`trackNew k` does not overwrite a `Track` that was not dropped -/
def resumeOk3 (w : World) : Bool :=
  match opAt w with
  | some (.arcUnwrap h) =>
    decide ((w.ctlOf w.tid).stage < 2) ||
      (match w.handles.lookup h with
       | some hs =>
         (match w.exec.objs[(w.arcInfo hs.arc).obj]? with
          | some (.arc st) => st.refCnt == 1
          | _ => true)
       | none => true)
  | some (.trackNew k) =>
    (match w.tracks.lookup k with
     | some o =>
       (match w.exec.objs[o]? with
        | some (.alloc st) => st.isDropped
        | _ => true)
     | none => true)
  | _ => true

theorem getD_eq_getElem? {α} {l : List α} {i : Nat} (d : α) (h : i < l.length) : l[i]? = some (l.getD i d) := by
  simp [List.getD, List.getElem?_eq_getElem h]

theorem beq_one (n : Nat) : (n == 1) = decide (n = 1) := by
  by_cases e : n = 1 <;> simp [e]

section
variable {w w' : World} {s : SCData3}

theorem quiet3_of_setThs {t : Threads} {n : Nat}
    (hl : t.threads.length = w.exec.threads.threads.length)
    (h : Quiet3 ((w.setThs t).setStage n) w') : Quiet3 w w' :=
  ⟨⟨h.q.prog, h.q.spawned, h.q.events, by rw [h.q.len]; exact hl, h.q.view⟩, h.aeq, h.frame⟩

theorem sim_arcDrop (hR : R3 w s) (hact : w.tid < w.ctl.length) {h : Nat}
    (hop : opAt w = some (.arcDrop h))
    (hrun : w.runOp (w.ctlOf w.tid) (.arcDrop h) = .ok w') : SimI w s w' := by
  obtain ⟨_, hrel, hof⟩ := base3 hR hact
  cases hh : w.handle h with
  | error e => simp [World.runOp, hh] at hrun
  | ok hs =>
    obtain ⟨hsh, halt, hslt, st, hobj, hcnt, hstd⟩ := hR.a.handle (handle_lookup hh)
    by_cases hc : (w.ctlOf w.tid).stage = 0
    · rw [runOp_arcDrop_stage0 w _ h hs hh hc] at hrun
      exact sim_branch hR hact hop hrun
    · rw [runOp_arcDrop_stage1 w _ h hs hh hc] at hrun
      obtain ⟨⟨w1, last⟩, h1, hrun⟩ := bind_ok hrun
      obtain ⟨w2, h2, hrun⟩ := bind_ok hrun
      simp only [pure, Except.pure] at hrun
      cases hrun
      obtain ⟨h0, hlast, c1, t1, p1, s1, e1, l1, fr1, st', hst', hobjs⟩ := refDec_obs hobj h1
      obtain ⟨f, rfl, hf1, hf2⟩ := afterDec_obs h2
      simp only [frame, Prod.mk.injEq] at fr1
      obtain ⟨f1, f2, f3, f4⟩ := fr1
      have ea : w1.arcInfo hs.arc = w.arcs.getD hs.arc dfltArc := by unfold World.arcInfo; rw [f2]
      rw [ea] at hf1 hf2
      have hr : World.boolRet last = SC.bool01 (s.arcs.getD hs.arc 0 == 1) := by
        rw [boolRet_eq, hlast, hcnt, beq_one]
      rw [hr]
      refine sim_effect hR hact hop (by simp) (by simp) (w0 := (w1.modArc hs.arc f).setHandle h none)
        (by exact c1) (by exact t1) (by exact p1) (by exact s1) (by exact l1) (by exact e1)
        (arcs' := s.arcs.set hs.arc (s.arcs.getD hs.arc 0 - 1)) (handles' := SCData3.unbind s.handles h)
        (tracks' := s.tracks) ?_ ?_ ?_ _ ?_
      · show RY _ _ _ w1.exec.objs _ _
        rw [hobjs]; exact hR.y.viewLe (viewLe_set_same hobj rfl)
      · show RArc w1.exec.objs (SCData3.unbind w1.handles h) (w1.arcs.modify hs.arc f) _ _
        rw [hobjs, f1, f2]
        exact (hR.a.setCount halt _ _ (by show AV.arc st'.refCnt = _; rw [hst', hcnt]) f hf1
          (by rw [hf2, hstd])).unbindH h
      · show RTrk _ w1.exec.objs w1.tracks w1.rawAllocs _
        rw [hobjs, f3, f4]; exact hR.t.congr (alloc_set_arc hobj _)
      · unfold SCData3.stepL
        rw [hof, hop]
        simp only []
        rw [show SCData3.arcOf s h = some hs.arc from hsh]
        simp only []
        rw [getD_eq_getElem? 0 hslt]
        simp only []
        rw [if_neg (by rw [← hcnt]; simpa using h0)]
        exact List.mem_singleton.2 rfl

theorem sim_arcDec (hR : R3 w s) (hact : w.tid < w.ctl.length) {h : Nat}
    (hop : opAt w = some (.arcDec h))
    (hrun : w.runOp (w.ctlOf w.tid) (.arcDec h) = .ok w') : SimI w s w' := by
  obtain ⟨_, hrel, hof⟩ := base3 hR hact
  cases hh : w.handle h with
  | error e => simp [World.runOp, hh] at hrun
  | ok hs =>
    obtain ⟨hsh, halt, hslt, st, hobj, hcnt, hstd⟩ := hR.a.handle (handle_lookup hh)
    by_cases hc : (w.ctlOf w.tid).stage = 0
    · rw [runOp_arcDec_stage0 w _ h hs hh hc] at hrun
      split at hrun
      · cases hrun
      · exact sim_branch hR hact hop hrun
    · rw [runOp_arcDec_stage1 w _ h hs hh hc] at hrun
      obtain ⟨⟨w1, last⟩, h1, hrun⟩ := bind_ok hrun
      obtain ⟨w2, h2, hrun⟩ := bind_ok hrun
      simp only [pure, Except.pure] at hrun
      cases hrun
      obtain ⟨h0, hlast, c1, t1, p1, s1, e1, l1, fr1, st', hst', hobjs⟩ := refDec_obs hobj h1
      obtain ⟨f, rfl, hf1, hf2⟩ := afterDec_obs h2
      simp only [frame, Prod.mk.injEq] at fr1
      obtain ⟨f1, f2, f3, f4⟩ := fr1
      have ea : w1.arcInfo hs.arc = w.arcs.getD hs.arc dfltArc := by unfold World.arcInfo; rw [f2]
      rw [ea] at hf1 hf2
      have hr : World.boolRet last = SC.bool01 (s.arcs.getD hs.arc 0 == 1) := by
        rw [boolRet_eq, hlast, hcnt, beq_one]
      rw [hr]
      refine sim_effect hR hact hop (by simp) (by simp) (w0 := w1.modArc hs.arc f)
        (by exact c1) (by exact t1) (by exact p1) (by exact s1) (by exact l1) (by exact e1)
        (arcs' := s.arcs.set hs.arc (s.arcs.getD hs.arc 0 - 1)) (handles' := s.handles)
        (tracks' := s.tracks) ?_ ?_ ?_ _ ?_
      · show RY _ _ _ w1.exec.objs _ _
        rw [hobjs]; exact hR.y.viewLe (viewLe_set_same hobj rfl)
      · show RArc w1.exec.objs w1.handles (w1.arcs.modify hs.arc f) _ _
        rw [hobjs, f1, f2]
        exact hR.a.setCount halt _ _ (by show AV.arc st'.refCnt = _; rw [hst', hcnt]) f hf1
          (by rw [hf2, hstd])
      · show RTrk _ w1.exec.objs w1.tracks w1.rawAllocs _
        rw [hobjs, f3, f4]; exact hR.t.congr (alloc_set_arc hobj _)
      · unfold SCData3.stepL
        rw [hof, hop]
        simp only []
        rw [show SCData3.arcOf s h = some hs.arc from hsh]
        simp only []
        rw [getD_eq_getElem? 0 hslt]
        simp only []
        rw [if_neg (by rw [← hcnt]; simpa using h0)]
        exact List.mem_singleton.2 rfl

theorem sim_arcUnwrap (hR : R3 w s) (hact : w.tid < w.ctl.length) (hok : resumeOk3 w = true) {h : Nat}
    (hop : opAt w = some (.arcUnwrap h))
    (hrun : w.runOp (w.ctlOf w.tid) (.arcUnwrap h) = .ok w') : SimI w s w' := by
  obtain ⟨_, hrel, hof⟩ := base3 hR hact
  cases hh : w.handle h with
  | error e => simp [World.runOp, hh] at hrun
  | ok hs =>
    obtain ⟨hsh, halt, hslt, st, hobj, hcnt, hstd⟩ := hR.a.handle (handle_lookup hh)
    have hst2 : (w.ctlOf w.tid).stage ≤ 2 := by
      have := hrel.2.2.2.2.1
      rw [opOfCtl_active, hop] at this
      exact this
    by_cases hc : (w.ctlOf w.tid).stage = 0
    · rw [runOp_arcUnwrap_stage0 w _ h hs hh hc] at hrun
      exact sim_branch hR hact hop hrun
    · by_cases hc1 : (w.ctlOf w.tid).stage = 1
      · rw [runOp_arcUnwrap_stage1 w _ h hs st hh hc1 (getArc_of hobj)] at hrun
        split at hrun
        · cases hrun
        · split at hrun
          · next hne0 hne1 =>
            -- shared: `Err`
            cases hrun
            refine sim_effect hR hact hop (by simp) (by simp) (w0 := w.setThs (w.ths.syncLoad st.sync .acq))
              (by rfl) (by simp [World.tid, World.setThs, World.ths]) (by rfl) (by rfl)
              (by simp [World.setThs, World.ths]) (by rfl)
              (arcs' := s.arcs) (handles' := s.handles) (tracks' := s.tracks) hR.y hR.a hR.t _ ?_
            unfold SCData3.stepL
            rw [hof, hop]
            simp only []
            rw [show SCData3.arcOf s h = some hs.arc from hsh]
            simp only []
            rw [if_neg (by rw [← hcnt]; simpa using hne1)]
            exact List.mem_singleton.2 rfl
          · split at hrun
            · cases hrun
            · -- unique: a second branch point
              obtain ⟨hq, hcc⟩ := branch_quiet3 hrun
              refine ⟨sim_stage hR hact hop 2 (Nat.le_refl _)
                (quiet3_of_setThs (by simp [World.ths]) hq) hcc, branch_inRange hrun⟩
      · have hc2 : (w.ctlOf w.tid).stage = 2 := by omega
        -- the hypothesis: the count is still 1
        have h1cnt : st.refCnt = 1 := by
          unfold resumeOk3 at hok
          rw [hop] at hok
          simp only [hc2, Nat.lt_irrefl, decide_false, Bool.false_or, handle_lookup hh] at hok
          rw [show (w.arcInfo hs.arc).obj = (w.arcs.getD hs.arc dfltArc).obj from rfl, hobj] at hok
          simpa using hok
        rw [runOp_arcUnwrap_stage2 w _ h hs hh hc2] at hrun
        obtain ⟨⟨w1, last⟩, h1, hrun⟩ := bind_ok hrun
        split at hrun
        · cases hrun
        · simp only [pure, Except.pure] at hrun
          cases hrun
          obtain ⟨h0, hlast, c1, t1, p1, s1, e1, l1, fr1, st', hst', hobjs⟩ := refDec_obs hobj h1
          simp only [frame, Prod.mk.injEq] at fr1
          obtain ⟨f1, f2, f3, f4⟩ := fr1
          refine sim_effect hR hact hop (by simp) (by simp)
            (w0 := (w1.modArc hs.arc fun i => { i with stdCount := 0, registered := false }).setHandle h none)
            (by exact c1) (by exact t1) (by exact p1) (by exact s1) (by exact l1) (by exact e1)
            (arcs' := s.arcs.set hs.arc 0) (handles' := SCData3.unbind s.handles h)
            (tracks' := s.tracks) ?_ ?_ ?_ _ ?_
          · show RY _ _ _ w1.exec.objs _ _
            rw [hobjs]; exact hR.y.viewLe (viewLe_set_same hobj rfl)
          · show RArc w1.exec.objs (SCData3.unbind w1.handles h) (w1.arcs.modify hs.arc _) _ _
            rw [hobjs, f1, f2]
            exact (hR.a.setCount halt _ _ (by show AV.arc st'.refCnt = _; rw [hst', h1cnt]) _ rfl rfl).unbindH h
          · show RTrk _ w1.exec.objs w1.tracks w1.rawAllocs _
            rw [hobjs, f3, f4]; exact hR.t.congr (alloc_set_arc hobj _)
          · unfold SCData3.stepL
            rw [hof, hop]
            simp only []
            rw [show SCData3.arcOf s h = some hs.arc from hsh]
            simp only []
            rw [if_pos (by rw [← hcnt, h1cnt]; rfl)]
            exact List.mem_singleton.2 rfl

/-! ### `Track`, `alloc` -/

theorem sim_trackNew (hwf : WF3 w.prog) (hR : R3 w s) (hact : w.tid < w.ctl.length) (hok : resumeOk3 w = true)
    {k : Nat} (hop : opAt w = some (.trackNew k))
    (hrun : w.runOp (w.ctlOf w.tid) (.trackNew k) = .ok w') : SimI w s w' := by
  obtain ⟨_, hrel, hof⟩ := base3 hR hact
  rw [runOp_trackNew] at hrun
  cases hrun
  have hslot : isTrackSlot w.prog k := ⟨_, mem_allOps hop, rfl⟩
  have hold : ∀ n, w.tracks.lookup k = some n → av w.exec.objs n = .alloc true := by
    intro n hn
    obtain ⟨d, hd, _⟩ := hR.t.trk k n hn
    unfold resumeOk3 at hok
    rw [hop] at hok
    simp only [hn] at hok
    unfold av at hd ⊢
    cases hx : w.exec.objs[n]? with
    | none => rw [hx] at hd; cases hd
    | some x =>
      rw [hx] at hd hok
      cases x <;> simp [aview] at hd
      simp only at hok
      simp [aview, hok]
  refine sim_effect hR hact hop (by simp) (by simp) (by rfl) (by rfl) (by rfl) (by rfl) (by rfl) (by rfl)
    (arcs' := s.arcs) (handles' := s.handles) (tracks' := SCData3.bind s.tracks k false) ?_ ?_ ?_ .unit ?_
  · exact hR.y.viewLe (ViewLe.append _ _)
  · exact hR.a.congr (fun n k => (arc_append_alloc _ _ n k).1) (fun n k => (arc_append_alloc _ _ n k).2)
  · exact hR.t.trackNew hwf hslot hold
  · unfold SCData3.stepL
    rw [hof, hop]
    exact List.mem_singleton.2 rfl

theorem sim_alloc (hwf : WF3 w.prog) (hR : R3 w s) (hact : w.tid < w.ctl.length)
    {k : Nat} (hop : opAt w = some (.alloc k))
    (hrun : w.runOp (w.ctlOf w.tid) (.alloc k) = .ok w') : SimI w s w' := by
  obtain ⟨_, hrel, hof⟩ := base3 hR hact
  rw [runOp_alloc] at hrun
  split at hrun
  · cases hrun
  · next hfree =>
    cases hrun
    have hslot : isAllocSlot w.prog k := ⟨_, mem_allOps hop, rfl⟩
    have hfree' : w.rawAllocs.lookup k = none := by
      cases hl : w.rawAllocs.lookup k with
      | none => rfl
      | some x => rw [hl] at hfree; simp at hfree
    refine sim_effect hR hact hop (by simp) (by simp) (by rfl) (by rfl) (by rfl) (by rfl) (by rfl) (by rfl)
      (arcs' := s.arcs) (handles' := s.handles) (tracks' := SCData3.bind s.tracks k false) ?_ ?_ ?_ .unit ?_
    · exact hR.y.viewLe (ViewLe.append _ _)
    · exact hR.a.congr (fun n k => (arc_append_alloc _ _ n k).1) (fun n k => (arc_append_alloc _ _ n k).2)
    · exact hR.t.alloc hwf hslot hfree'
    · unfold SCData3.stepL
      rw [hof, hop]
      exact List.mem_singleton.2 rfl

theorem sim_trackDrop (hwf : WF3 w.prog) (hR : R3 w s) (hact : w.tid < w.ctl.length)
    {k : Nat} (hop : opAt w = some (.trackDrop k))
    (hrun : w.runOp (w.ctlOf w.tid) (.trackDrop k) = .ok w') : SimI w s w' := by
  obtain ⟨_, hrel, hof⟩ := base3 hR hact
  rw [runOp_trackDrop] at hrun
  split at hrun
  · next o ho =>
    cases hrun
    obtain ⟨d, hd, _⟩ := hR.t.trk k o ho
    have hol : o < w.exec.objs.length := hR.t.trk_lt ho
    refine sim_effect hR hact hop (by simp) (by simp) (by rfl) (by rfl) (by rfl) (by rfl) (by rfl) (by rfl)
      (arcs' := s.arcs) (handles' := s.handles) (tracks' := SCData3.bind s.tracks k true) ?_ ?_ ?_ .unit ?_
    · refine hR.y.viewLe ?_
      obtain ⟨x, hx⟩ : ∃ x, w.exec.objs[o]? = some x := ⟨_, List.getElem?_eq_getElem hol⟩
      refine viewLe_set_same hx ?_
      unfold av at hd
      rw [hx] at hd
      cases x <;> simp [aview] at hd
      rfl
    · exact hR.a.congr (fun n k => (arc_set_alloc hd _ n k).1) (fun n k => (arc_set_alloc hd _ n k).2)
    · exact hR.t.trackDrop hwf ho _ rfl
    · unfold SCData3.stepL
      rw [hof, hop]
      exact List.mem_singleton.2 rfl
  · cases hrun

theorem sim_dealloc (hwf : WF3 w.prog) (hR : R3 w s) (hact : w.tid < w.ctl.length)
    {k : Nat} (hop : opAt w = some (.dealloc k))
    (hrun : w.runOp (w.ctlOf w.tid) (.dealloc k) = .ok w') : SimI w s w' := by
  obtain ⟨_, hrel, hof⟩ := base3 hR hact
  rw [runOp_dealloc] at hrun
  split at hrun
  · next o ho =>
    cases hrun
    obtain ⟨hd, _⟩ := hR.t.raw k o ho
    have hol : o < w.exec.objs.length := hR.t.raw_lt ho
    refine sim_effect hR hact hop (by simp) (by simp) (by rfl) (by rfl) (by rfl) (by rfl) (by rfl) (by rfl)
      (arcs' := s.arcs) (handles' := s.handles) (tracks' := SCData3.bind s.tracks k true) ?_ ?_ ?_ .unit ?_
    · refine hR.y.viewLe ?_
      obtain ⟨x, hx⟩ : ∃ x, w.exec.objs[o]? = some x := ⟨_, List.getElem?_eq_getElem hol⟩
      refine viewLe_set_same hx ?_
      unfold av at hd
      rw [hx] at hd
      cases x <;> simp [aview] at hd
      rfl
    · exact hR.a.congr (fun n k => (arc_set_alloc hd _ n k).1) (fun n k => (arc_set_alloc hd _ n k).2)
    · exact hR.t.dealloc hwf ho _ rfl
    · unfold SCData3.stepL
      rw [hof, hop]
      exact List.mem_singleton.2 rfl
  · cases hrun

/-! ### the one-step simulation -/

/-- **one-step simulation**: a successful stage of the active thread of the twin, from a world related to the
reference data `s`, leads to a world related to `s` again (stuttering: the event log is unchanged), or to a world
related to a successor `s'` of `s` by a step of the body the active thread runs — a step of `SCData3.stepL`,
enabled in `s`, whose label is exactly the event the twin logs; and the new active thread is in the thread table -/
theorem step_sim3 (hwf : WF3 w.prog) (hR : R3 w s) (hact : w.tid < w.ctl.length) (hok : resumeOk3 w = true)
    (h : w.stepActive = .ok w') : SimI w s w' := by
  unfold World.stepActive at h
  simp only at h
  cases hop : opAt w with
  | none =>
    unfold opAt at hop
    rw [hop] at h
    exact sim_epilogue3 hR hact hop h
  | some op =>
    have hop' := hop
    unfold opAt at hop'
    rw [hop'] at h
    simp only at h
    have hok' := hwf.opOk hop'
    cases op <;>
      simp only [opOk3, opOk, isArcOp, isTrkOp, Bool.false_eq_true, Bool.or_false, Bool.or_true, Bool.and_eq_true,
        decide_eq_true_eq] at hok'
    case cellRead c => exact sim_cellRead3 hR hact hop hok' h
    case cellWrite c v => exact sim_cellWrite3 hR hact hop hok' h
    case lock m => exact sim_lock3 hR hact hop hok' h
    case tryLock m => exact sim_tryLock3 hR hact hop hok' h
    case unlock m => exact sim_unlock3 hR hact hop hok' h
    case spawn b => exact sim_spawn3 hwf hR hact hop h
    case join b => exact sim_join3 hR hact hop h
    case ifEq i r n => exact sim_ifEq3 hR hact hop h
    case arcNew hd => exact sim_arcNew hR hact hop h
    case arcClone hd h2 => exact sim_arcClone hR hact hop h
    case arcDrop hd => exact sim_arcDrop hR hact hop h
    case arcCount hd => exact sim_arcCount hR hact hop h
    case arcGetMut hd => exact sim_arcGetMut hR hact hop h
    case arcUnwrap hd => exact sim_arcUnwrap hR hact hok hop h
    case arcIntoRaw hd => exact sim_arcIntoRaw hR hact hop h
    case arcFromRaw hd => exact sim_arcFromRaw hR hact hop h
    case arcInc hd => exact sim_arcInc hR hact hop h
    case arcDec hd => exact sim_arcDec hR hact hop h
    case arcPtrEq hd h2 => exact sim_arcPtrEq hR hact hop h
    case trackNew k => exact sim_trackNew hwf hR hact hok hop h
    case trackDrop k => exact sim_trackDrop hwf hR hact hop h
    case alloc k => exact sim_alloc hwf hR hact hop h
    case dealloc k => exact sim_dealloc hwf hR hact hop h

end

end Refine3
end LoomVerif

/-
Refinement, FUTURES fragment: the simulation for the POLL / WAIT stages 10, 11, 14, 15, 16 of `blockOn f mode`
(modes 0, 1, 3, 4): 10 / 14 the branch point of the flag load (stutter); 11 the first flag load (phase 1 → 5 / 2);
15 the second flag load (phase 3 → 5, or 3 → 0 for `poll_once`, or 3 → 4, or — the one spurious return — 3 → 4 → 1);
16 the second half of `Notify::wait` (phase 4 → 1).
-/
import LoomVerif.Proofs.Refine4BlockOn0

set_option linter.unusedSimpArgs false
set_option linter.unusedVariables false

namespace LoomVerif
namespace Refine4
open Refine Sy Refine2 C20

section
variable {w w' : World} {s : SC.St}

/-- the mode of a `blockOn` at a poll / wait stage is 0, 1, 3 or 4 -/
theorem mode_cases (hwf : WF4 w.prog) {f mode : Nat} (hop : opAt w = some (.blockOn f mode)) (h5 : mode ≠ 5) :
    mode = 0 ∨ mode = 1 ∨ mode = 3 ∨ mode = 4 := by
  have hok := hwf.opOk hop
  simp only [opOk4, Bool.and_eq_true, Bool.or_eq_true, beq_iff_eq, decide_eq_true_eq] at hok
  rcases hok.1 with (((e | e) | e) | e) | e
  · exact .inl e
  · exact .inr (.inl e)
  · exact .inr (.inr (.inl e))
  · exact .inr (.inr (.inr e))
  · exact absurd e h5

/-- the stage of the active thread is one the relation allows -/
theorem stage_ok (hR : R4 w s) (hact : w.tid < w.ctl.length) {f mode : Nat}
    (hop : opAt w = some (.blockOn f mode)) : boStageOk mode (w.ctlOf w.tid).stage = true := by
  have := (rel4 hR hact).2.2.2.2.2.2.1
  rw [opOfCtl_active, hop] at this
  exact this

/-- stage 10: the branch point of the first flag load (stutter) -/
theorem sim_blockOn10 (hR : R4 w s) (hact : w.tid < w.ctl.length) {f mode : Nat}
    (hop : opAt w = some (.blockOn f mode)) (hst : (w.ctlOf w.tid).stage = 10)
    (h : w.stepActive = .ok w') : Sim4 w s w' := by
  rw [stepActive_op hop] at h
  have h' : w.primStart f (World.pollPrim mode) 11 = .ok w' := by
    simp only [World.runOp, World.blockOnStage, hst] at h
    exact h
  obtain ⟨hp, hr, hv⟩ := primStart_view (act := .atomLoad) rfl h'
  refine ⟨hp, ⟨s, .nil s, ?_⟩, hr⟩
  have hopc : opOfCtl w.prog (w.ctlOf w.tid) = some (.blockOn f mode) := hop
  have hsok := stage_ok hR hact hop
  rw [hst] at hsok
  refine R4_quiet hR hact _ hv rfl rfl rfl rfl rfl rfl ?_ ?_ ?_ ?_ ?_
  · rw [hop]; exact hsok
  · rw [hop, hst]; rfl
  · rw [hop, hst]; rfl
  · have hopc' : opOfCtl w.prog { w.ctlOf w.tid with prim := some (World.pollPrim mode), stage := 11 } =
        some (.blockOn f mode) := hop
    simp only [fattr, inflS, pendN, callOf, aw25, hopc, hopc', hst]
    rfl
  · intro x hx; rw [hop] at hx; cases hx

/-- stage 14: the branch point of the second flag load (stutter) -/
theorem sim_blockOn14 (hR : R4 w s) (hact : w.tid < w.ctl.length) {f mode : Nat}
    (hop : opAt w = some (.blockOn f mode)) (hst : (w.ctlOf w.tid).stage = 14)
    (h : w.stepActive = .ok w') : Sim4 w s w' := by
  rw [stepActive_op hop] at h
  have h' : w.primStart f (World.pollPrim mode) 15 = .ok w' := by
    simp only [World.runOp, World.blockOnStage, hst] at h
    exact h
  obtain ⟨hp, hr, hv⟩ := primStart_view (act := .atomLoad) rfl h'
  refine ⟨hp, ⟨s, .nil s, ?_⟩, hr⟩
  have hopc : opOfCtl w.prog (w.ctlOf w.tid) = some (.blockOn f mode) := hop
  have hsok := stage_ok hR hact hop
  rw [hst] at hsok
  refine R4_quiet hR hact _ hv rfl rfl rfl rfl rfl rfl ?_ ?_ ?_ ?_ ?_
  · rw [hop]; exact hsok
  · rw [hop, hst]; rfl
  · rw [hop, hst]; rfl
  · have hopc' : opOfCtl w.prog { w.ctlOf w.tid with prim := some (World.pollPrim mode), stage := 15 } =
        some (.blockOn f mode) := hop
    simp only [fattr, inflS, pendN, callOf, aw25, hopc, hopc', hst]
    rfl
  · intro x hx; rw [hop] at hx; cases hx

/-- a stage of `blockOn f mode` that is ONE reference step which only moves the phase: the attributes of the record
are kept, the new stage `st'` corresponds to the new phase -/
theorem R4_phaseStep (hR : R4 w s) (hact : w.tid < w.ctl.length) {f mode : Nat}
    (hop : opAt w = some (.blockOn f mode))
    (hah0 : aheadOf (some (.blockOn f mode)) (w.ctlOf w.tid).stage = none) {st' : Nat}
    (hv : view4 w' = { view4 w with ctl := w.ctl.modify w.tid fun c => { c with stage := st' } })
    (hsok : boStageOk mode st' = true) (hah : aheadOf (some (.blockOn f mode)) st' = none)
    (hattr : fattr w.prog { w.ctlOf w.tid with stage := st' } = fattr w.prog (w.ctlOf w.tid))
    {s' : SC.St}
    (hdata : data4 s' = (data4 s).modTh (w.ctlOf w.tid).body fun h => { h with phase := phaseOfStage st' }) :
    R4 w' s' := by
  have hopc : opOfCtl w.prog (w.ctlOf w.tid) = some (.blockOn f mode) := hop
  have hopc' : opOfCtl w.prog { w.ctlOf w.tid with stage := st' } = some (.blockOn f mode) := hop
  have hrel := rel4 hR hact
  have r9 := hrel.2.2.2.2.2.2.2.2
  rw [hopc, hah0] at r9
  have hdt : (data4 s').ths = (data4 s).ths.modify (w.ctlOf w.tid).body
      (fun h => { h with phase := phaseOfStage st' }) := by rw [hdata]; rfl
  have hdv : (data4 s').verdict = none := by rw [hdata]; exact hR.verdict
  unfold R4
  refine R4_step hR hact (fun c => { c with stage := st' }) (fun h => { h with phase := phaseOfStage st' })
    (view4 w).futs (view4 w).objs hv hdt hdv rfl (Nat.le_refl _) ?_ ?_ id (fun _ _ _ h => h) ?_
  · refine hrel.of rfl rfl rfl rfl rfl rfl rfl (by rw [hopc']; exact hsok)
      (by rw [hopc']; intro x hx; cases hx) ?_
    rw [hopc']
    show match aheadOf (some (Op.blockOn f mode)) st' with | none => _ | some r => _
    rw [hah]
    exact ⟨r9.1, r9.2.1, rfl⟩
  · intro hne
    exact absurd (fin_zero4 hR hact hop) hne
  · exact (RF.sameAttrs hact (fun c => { c with stage := st' }) hR.f hattr).congr_d (by rw [hdata]; rfl)
      (by rw [hdata]; rfl)

/-- the first flag load of the poll: phase 1 → 5 (ready) or 1 → 2 -/
theorem sim_blockOn11 (hwf : WF4 w.prog) (hR : R4 w s) (hact : w.tid < w.ctl.length) {f mode : Nat}
    (hop : opAt w = some (.blockOn f mode)) (hst : (w.ctlOf w.tid).stage = 11)
    (hok : resumeOk4 w = true) (h : w.stepActive = .ok w') : Sim4 w s w' := by
  rw [stepActive_op hop] at h
  have h' : w.blockOnStage (w.ctlOf w.tid) f mode = .ok w' := by
    simp only [World.runOp] at h; exact h
  rw [blockOn_stage11 w _ f mode hst] at h'
  clear h
  obtain ⟨⟨w1, r⟩, h1, h2⟩ := Refine.bind_ok h'
  clear h'
  have hsok := stage_ok hR hact hop
  rw [hst] at hsok
  have h5 : mode ≠ 5 := by simpa [boStageOk] using hsok
  have hmc := mode_cases hwf hop h5
  have h2' : mode ≠ 2 := by rcases hmc with e | e | e | e <;> omega
  have e2 : (mode == 2) = false := by simpa using h2'
  have e5 : (mode == 5) = false := by simpa using h5
  have hr := poll_read hwf hR hop (.inl hst) hok h1
  obtain ⟨hk1, hv1⟩ := primEffect_load_same (by unfold World.pollPrim at h1; exact h1)
  have hopc : opOfCtl w.prog (w.ctlOf w.tid) = some (.blockOn f mode) := hop
  obtain ⟨_, _, hpl, _, _⟩ := act4 hR hact
  have hsy := sync4 hR hact (by rw [hop, hst]; rfl)
  obtain ⟨hrun1, hrun2⟩ := running4 hR hact hop
  have hph : (s.th (w.ctlOf w.tid).body).phase = 1 := by rw [hsy.2.2.2, hop, hst]; rfl
  obtain ⟨s', hstep, hdata⟩ := sc_step_bo1 (f := f) (mode := mode) hpl (hsy.1.trans hop) hph h5 h2'
  have hen : SC.enabled w.prog s (w.ctlOf w.tid).body = true :=
    sc_enabled_op hR.verdict hpl hrun1 hrun2 (hsy.1.trans hop) (hwf.opOk hop) (by
      show ((s.th _).phase != 4 || _) = true
      rw [hph]; rfl)
  have hex : SCExec2 w.prog s s' := exec_step hen hstep
  have htgt : World.pollTarget mode = .val 1 := by simp only [World.pollTarget, e2, Bool.false_eq_true, if_false]
  rw [htgt, hr] at h2
  by_cases hrdy : (data4 s).atom f = 1
  · have e : ((data4 s).atom f == 1) = true := by rw [hrdy]; rfl
    have e' : (Ret.val ((data4 s).atom f) == Ret.val 1) = true := by rw [hrdy]; rfl
    simp only [e', if_true] at h2
    have hs := branch_sched h2
    refine ⟨hs.fr.1.trans hk1.1.1, ⟨s', hex, ?_⟩, hs.inRange⟩
    have hv : view4 w' = { view4 w with ctl := w.ctl.modify w.tid fun c => { c with stage := 40 } } := by
      rw [hs.view, view4_setStage, hv1, hk1.1.2.1, hk1.2.1]
    refine R4_phaseStep hR hact hop (by rw [hst]; rfl) hv rfl rfl ?_ (by rw [hdata, e]; rfl)
    have hopc' : opOfCtl w.prog { w.ctlOf w.tid with stage := 40 } = some (.blockOn f mode) := hop
    simp only [fattr, inflS, pendN, callOf, aw25, hopc, hopc', hst, e5, Bool.false_and]
    rfl
  · have e : ((data4 s).atom f == 1) = false := by simpa using hrdy
    have e' : (Ret.val ((data4 s).atom f) == Ret.val 1) = false := by simpa using hrdy
    simp only [e', Bool.false_eq_true, if_false] at h2
    have hs := branch_sched h2
    refine ⟨hs.fr.1.trans hk1.1.1, ⟨s', hex, ?_⟩, hs.inRange⟩
    have hv : view4 w' = { view4 w with
        ctl := w.ctl.modify w.tid fun c => { c with stage := if World.slotMode mode then 12 else 20 } } := by
      rw [hs.view, view4_setStage, hv1, hk1.1.2.1, hk1.2.1]
    rcases hmc with rfl | hm
    · -- mode 0: the waker goes to the slot
      have hv' : view4 w' = { view4 w with ctl := w.ctl.modify w.tid fun c => { c with stage := 12 } } := hv
      refine R4_phaseStep hR hact hop (by rw [hst]; rfl) hv' rfl rfl ?_ (by rw [hdata, e]; rfl)
      have hopc' : opOfCtl w.prog { w.ctlOf w.tid with stage := 12 } = some (.blockOn f 0) := hop
      simp only [fattr, inflS, pendN, callOf, aw25, hopc, hopc', hst, e5, Bool.false_and]
      rfl
    · have hsm : World.slotMode mode = false := by
        rcases hm with rfl | rfl | rfl <;> rfl
      rw [hsm] at hv
      have hv' : view4 w' = { view4 w with ctl := w.ctl.modify w.tid fun c => { c with stage := 20 } } := hv
      refine R4_phaseStep hR hact hop (by rw [hst]; rfl) hv' ?_ rfl ?_ (by rw [hdata, e]; rfl)
      · rcases hm with rfl | rfl | rfl <;> rfl
      · have hopc' : opOfCtl w.prog { w.ctlOf w.tid with stage := 20 } = some (.blockOn f mode) := hop
        simp only [fattr, inflS, pendN, callOf, aw25, hopc, hopc', hst, e5, Bool.false_and]
        rfl

/-- the attributes of the record of a thread inside a call `blockOn f mode` (`mode ≠ 5`), at a stage other than 25 -/
theorem callOf_in {p : Prog} {c : TCtl} {f mode : Nat} (hopc : opOfCtl p c = some (.blockOn f mode))
    (h5 : mode ≠ 5) (hph : phaseOfStage c.stage ≠ 0) : callOf p c = some (f, mode, false) := by
  have e5 : (mode == 5) = false := by simpa using h5
  have e : (phaseOfStage c.stage != 0) = true := by simpa using hph
  simp only [callOf, hopc, e, e5, Bool.false_and, if_true]

/-- the second half of `Notify::wait`: the notification is consumed; phase 4 → 1 -/
theorem sim_blockOn16 (hwf : WF4 w.prog) (hR : R4 w s) (hact : w.tid < w.ctl.length) {f mode : Nat}
    (hop : opAt w = some (.blockOn f mode)) (hst : (w.ctlOf w.tid).stage = 16)
    (hok : resumeOk4 w = true) (h : w.stepActive = .ok w') : Sim4 w s w' := by
  rw [stepActive_op hop] at h
  have h' : w.blockOnStage (w.ctlOf w.tid) f mode = .ok w' := by
    simp only [World.runOp] at h; exact h
  rw [blockOn_stage16 w _ f mode hst] at h'
  clear h
  obtain ⟨w1, h1, h2⟩ := Refine.bind_ok h'
  clear h'
  simp only [pure, Except.pure] at h2
  cases h2
  have hsok := stage_ok hR hact hop
  rw [hst] at hsok
  have h5 : mode ≠ 5 := by simpa [boStageOk] using hsok
  obtain ⟨hf, hfa⟩ := fut_lt hwf hop rfl
  have hlen : w.ctl.length = w.exec.threads.threads.length := hR.lenCtl
  have hopc : opOfCtl w.prog (w.ctlOf w.tid) = some (.blockOn f mode) := hop
  have hopc' : opOfCtl w.prog { w.ctlOf w.tid with stage := 10 } = some (.blockOn f mode) := hop
  -- the wait returns: the flag was raised
  obtain ⟨sp, ds, hvo, hk1, hv1⟩ := notifyWait2_view h1
  have hca : caOf w.prog w.ctl w.tid = some (f, mode, false) :=
    callOf_in hopc h5 (by show phaseOfStage (w.ctlOf w.tid).stage ≠ 0; rw [hst]; decide)
  obtain ⟨_, nt0, ds0, hnv0, hsp0, hnt0, _⟩ := hR.f.c.call w.tid f mode false hact hca
  have hnv0' : nvOf (view4 w).objs (w.futs.getD f {}).notify = some (true, nt0, ds0) := hnv0
  rw [nvOf_some, hvo] at hnv0'
  cases hnv0'
  have hnot : (s.futs.getD f {}).notified = true := by
    have := hnt0.2 (.inl rfl)
    have e : (data4 s).futs.getD f {} = dfut (s.futs.getD f {}) := data4_fut s f
    rw [e] at this; exact this
  have hnp : noPending w (w.futs.getD f {}).notify = true := by
    unfold resumeOk4 at hok
    rw [hop] at hok
    simpa [hst] using hok
  have hnop := noPending_spec hnp
  -- the reference step: phase 4 → 1
  have hrel := rel4 hR hact
  obtain ⟨_, _, hpl, _, _⟩ := act4 hR hact
  have hsy := sync4 hR hact (by rw [hop, hst]; rfl)
  obtain ⟨hrun1, hrun2⟩ := running4 hR hact hop
  have hph : (s.th (w.ctlOf w.tid).body).phase = 4 := by rw [hsy.2.2.2, hop, hst]; rfl
  obtain ⟨s', hstep, hdata⟩ := sc_step_bo4 (f := f) (mode := mode) hpl (hsy.1.trans hop) hph
  have hen : SC.enabled w.prog s (w.ctlOf w.tid).body = true :=
    sc_enabled_op hR.verdict hpl hrun1 hrun2 (hsy.1.trans hop) (hwf.opOk hop) (by
      show ((s.th _).phase != 4 || (s.futs.getD f {}).notified) = true
      rw [hnot]; exact Bool.or_true _)
  have hex : SCExec2 w.prog s s' := exec_step hen hstep
  refine ⟨hk1.1.1, ⟨s', hex, ?_⟩, inRange_of (w := w) hk1.2.1 (Nat.le_of_eq hk1.2.2.symm) (by
    rw [← hlen]; exact hact)⟩
  have hv : view4 (w1.setStage 10) = { view4 w with
      ctl := w.ctl.modify w.tid (fun c => { c with stage := 10 }),
      objs := (view4 w).objs.set (w.futs.getD f {}).notify (.notify true false ds) } := by
    rw [view4_setStage, hv1, hk1.1.2.1, hk1.2.1]
  have hdf : (data4 s').futs = (data4 s).futs.modify f consumeF := by rw [hdata]; rfl
  have hda : (data4 s').atoms = (data4 s).atoms := by rw [hdata]; rfl
  have hdt : (data4 s').ths = (data4 s).ths.modify (w.ctlOf w.tid).body (fun h => { h with phase := 1 }) := by
    rw [hdata]; rfl
  have hdv : (data4 s').verdict = none := by rw [hdata]; exact hR.verdict
  have r9 := hrel.2.2.2.2.2.2.2.2
  rw [hopc, hst] at r9
  have r9' : ((data4 s).ths.getD (w.ctlOf w.tid).body {}).pc = (w.ctlOf w.tid).pc ∧
      ((data4 s).ths.getD (w.ctlOf w.tid).body {}).rets = (w.ctlOf w.tid).results ∧
      ((data4 s).ths.getD (w.ctlOf w.tid).body {}).phase = 4 := r9
  have hset := view_set_notify (a' := true) (b' := false) (c' := ds) hvo
  unfold R4
  refine R4_step hR hact (fun c => { c with stage := 10 }) (fun h => { h with phase := 1 }) (view4 w).futs _ hv
    hdt hdv rfl (Nat.le_refl _) ?_ ?_ id (notify_kept_set _ hvo (by intro nt ds e; cases e)) ?_
  · refine hrel.of rfl rfl rfl rfl rfl rfl rfl (by rw [hopc']; exact hsok)
      (by rw [hopc']; intro x hx; cases hx) ?_
    rw [hopc']
    exact ⟨r9'.1, r9'.2.1, rfl⟩
  · intro hne
    exact absurd (fin_zero4 hR hact hop) hne
  · refine RF.ofGroups' (x1 := none) (x2 := none) (x3 := some (f, mode, false)) (x4 := none) hact _
      (by show inflS w.prog { w.ctlOf w.tid with stage := 10 } = _; simp only [inflS, hopc'])
      (by show pendN w.prog { w.ctlOf w.tid with stage := 10 } = _; simp only [pendN, hopc'])
      (callOf_in hopc' h5 (by show phaseOfStage 10 ≠ 0; decide))
      (by show aw25 w.prog { w.ctlOf w.tid with stage := 10 } = _; simp only [aw25, hopc']) ?_ ?_ ?_ ?_
    · rw [hdf, hset.1]
      refine (hR.f.s.df f consumeF ⟨rfl, rfl, rfl⟩).nv ?_
      intro k nt1 ds1 hk
      by_cases e : k = (w.futs.getD f {}).notify
      · subst e; exact ⟨false, ds, upd_self _ _ _⟩
      · exact ⟨nt1, ds1, by rw [upd_ne _ _ e]; exact hk⟩
    · rw [hdf, hset.1]
      have hpa : upd (paOf w.prog w.ctl) w.tid none = paOf w.prog w.ctl := by
        have : paOf w.prog w.ctl w.tid = none := by
          show pendN w.prog (w.ctlOf w.tid) = none
          simp only [pendN, hopc, hst]
        rw [← this]; exact upd_same _ _
      rw [hpa]
      refine hR.f.c.callStep (nt' := false) (ds' := ds) (b' := false) hact hR.f.s.lenDF hca
        (call_unique hwf hR hact hop) consumeF hsp0 ?_ (fun e => absurd e h5)
      constructor
      · intro e; cases e
      · rintro (e | ⟨j, hj, hj'⟩)
        · cases e
        · exact absurd hj' (hnop j hj)
    · rw [hda, hset.2.2]
      exact hR.f.a.same (by show inflS w.prog (w.ctlOf w.tid) = none; simp only [inflS, hopc, hst])
    · rw [hset.2.1]
      exact hR.f.w.same (by show aw25 w.prog (w.ctlOf w.tid) = none; simp only [aw25, hopc, hst])

/-- the second flag load of the poll: ready: phase 3 → 5; `poll_once` (mode 4): the call returns `.val 0`; else the
first half of `Notify::wait`: phase 3 → 4, and on the one spurious return 3 → 4 → 1 -/
theorem sim_blockOn15 (hwf : WF4 w.prog) (hR : R4 w s) (hact : w.tid < w.ctl.length) {f mode : Nat}
    (hop : opAt w = some (.blockOn f mode)) (hst : (w.ctlOf w.tid).stage = 15)
    (hok : resumeOk4 w = true) (h : w.stepActive = .ok w') : Sim4 w s w' := by
  rw [stepActive_op hop] at h
  have h' : w.blockOnStage (w.ctlOf w.tid) f mode = .ok w' := by
    simp only [World.runOp] at h; exact h
  rw [blockOn_stage15 w _ f mode hst] at h'
  clear h
  obtain ⟨⟨w1, r⟩, h1, h2⟩ := Refine.bind_ok h'
  clear h'
  have hsok := stage_ok hR hact hop
  rw [hst] at hsok
  have h5 : mode ≠ 5 := by simpa [boStageOk] using hsok
  have hmc := mode_cases hwf hop h5
  have h2' : mode ≠ 2 := by rcases hmc with e | e | e | e <;> omega
  have e2 : (mode == 2) = false := by simpa using h2'
  have e5 : (mode == 5) = false := by simpa using h5
  obtain ⟨hf, hfa⟩ := fut_lt hwf hop rfl
  have hr := poll_read hwf hR hop (.inr hst) hok h1
  obtain ⟨hk1, hv1⟩ := primEffect_load_same (by unfold World.pollPrim at h1; exact h1)
  have hopc : opOfCtl w.prog (w.ctlOf w.tid) = some (.blockOn f mode) := hop
  have hrel := rel4 hR hact
  obtain ⟨_, _, hpl, _, _⟩ := act4 hR hact
  have hsy := sync4 hR hact (by rw [hop, hst]; rfl)
  obtain ⟨hrun1, hrun2⟩ := running4 hR hact hop
  have hph : (s.th (w.ctlOf w.tid).body).phase = 3 := by rw [hsy.2.2.2, hop, hst]; rfl
  obtain ⟨s1, hstep, hdata⟩ := sc_step_bo3 (f := f) (mode := mode) hpl (hsy.1.trans hop) hph h2'
  have hen : SC.enabled w.prog s (w.ctlOf w.tid).body = true :=
    sc_enabled_op hR.verdict hpl hrun1 hrun2 (hsy.1.trans hop) (hwf.opOk hop) (by
      show ((s.th _).phase != 4 || _) = true
      rw [hph]; rfl)
  have hex : SCExec2 w.prog s s1 := exec_step hen hstep
  have r9 := hrel.2.2.2.2.2.2.2.2
  rw [hopc, hst] at r9
  have r9' : ((data4 s).ths.getD (w.ctlOf w.tid).body {}).pc = (w.ctlOf w.tid).pc ∧
      ((data4 s).ths.getD (w.ctlOf w.tid).body {}).rets = (w.ctlOf w.tid).results ∧
      ((data4 s).ths.getD (w.ctlOf w.tid).body {}).phase = 3 := r9
  have hca : caOf w.prog w.ctl w.tid = some (f, mode, false) :=
    callOf_in hopc h5 (by show phaseOfStage (w.ctlOf w.tid).stage ≠ 0; rw [hst]; decide)
  have hpa0 : paOf w.prog w.ctl w.tid = none := by
    show pendN w.prog (w.ctlOf w.tid) = none
    simp only [pendN, hopc, hst]
  have hpa : upd (paOf w.prog w.ctl) w.tid none = paOf w.prog w.ctl := by
    rw [← hpa0]; exact upd_same _ _
  have hia0 : iaOf w.prog w.ctl w.tid = none := by
    show inflS w.prog (w.ctlOf w.tid) = none
    simp only [inflS, hopc, hst]
  have hwa0 : waOf w.prog w.ctl w.tid = none := by
    show aw25 w.prog (w.ctlOf w.tid) = none
    simp only [aw25, hopc, hst]
  have htgt : World.pollTarget mode = .val 1 := by simp only [World.pollTarget, e2, Bool.false_eq_true, if_false]
  rw [htgt, hr] at h2
  by_cases hrdy : (data4 s).atom f = 1
  · -- ready
    have e : ((data4 s).atom f == 1) = true := by rw [hrdy]; rfl
    have e' : (Ret.val ((data4 s).atom f) == Ret.val 1) = true := by rw [hrdy]; rfl
    simp only [e', if_true] at h2
    have hs := branch_sched h2
    refine ⟨hs.fr.1.trans hk1.1.1, ⟨s1, hex, ?_⟩, hs.inRange⟩
    have hv : view4 w' = { view4 w with ctl := w.ctl.modify w.tid fun c => { c with stage := 40 } } := by
      rw [hs.view, view4_setStage, hv1, hk1.1.2.1, hk1.2.1]
    refine R4_phaseStep hR hact hop (by rw [hst]; rfl) hv rfl rfl ?_ (by rw [hdata, e]; rfl)
    have hopc' : opOfCtl w.prog { w.ctlOf w.tid with stage := 40 } = some (.blockOn f mode) := hop
    simp only [fattr, inflS, pendN, callOf, aw25, hopc, hopc', hst, e5, Bool.false_and]
    rfl
  · have e : ((data4 s).atom f == 1) = false := by simpa using hrdy
    have e' : (Ret.val ((data4 s).atom f) == Ret.val 1) = false := by simpa using hrdy
    by_cases hm4 : mode = 4
    · -- `poll_once`: the call returns although the future is pending
      subst hm4
      simp only [e', Bool.false_eq_true, if_false, beq_self_eq_true, if_true] at h2
      have hs := branch_sched h2
      refine ⟨hs.fr.1.trans hk1.1.1, ⟨s1, hex, ?_⟩, hs.inRange⟩
      have hv : view4 w' = { view4 w with ctl := w.ctl.modify w.tid fun c => { c with stage := 41 } } := by
        rw [hs.view, view4_setStage, hv1, hk1.1.2.1, hk1.2.1]
      have hopc' : opOfCtl w.prog { w.ctlOf w.tid with stage := 41 } = some (.blockOn f 4) := hop
      have hdata' : data4 s1 = (((data4 s).modFut f decF).modTh (w.ctlOf w.tid).body
          fun h => { h with phase := 0 }).ret (w.ctlOf w.tid).body (.val 0) := by
        rw [hdata, e]; rfl
      have hdf : (data4 s1).futs = (data4 s).futs.modify f decF := by rw [hdata']; rfl
      have hda : (data4 s1).atoms = (data4 s).atoms := by rw [hdata']; rfl
      have hdt : (data4 s1).ths = (data4 s).ths.modify (w.ctlOf w.tid).body
          (fun h => { h with phase := 0, rets := (h.pc, Ret.val 0) :: h.rets, pc := h.pc + 1 }) := by
        rw [hdata']
        exact modify_modify' _ _ _ _
      have hdv : (data4 s1).verdict = none := by rw [hdata']; exact hR.verdict
      have hslot : (w.futs.getD f {}).slot = false := noSlot hwf hR hop (k := 1) rfl (by decide)
      unfold R4
      refine R4_step hR hact (fun c => { c with stage := 41 })
        (fun h => { h with phase := 0, rets := (h.pc, Ret.val 0) :: h.rets, pc := h.pc + 1 })
        (view4 w).futs (view4 w).objs hv hdt hdv rfl (Nat.le_refl _) ?_ ?_ id (fun _ _ _ h => h) ?_
      · refine hrel.of rfl rfl rfl rfl rfl rfl rfl (by rw [hopc']; rfl) (by rw [hopc']; intro x hx; cases hx) ?_
        rw [hopc']
        show _ = (w.ctlOf w.tid).pc + 1 ∧ _ = ((w.ctlOf w.tid).pc, Ret.val 0) :: (w.ctlOf w.tid).results ∧ _ = 0
        refine ⟨?_, ?_, rfl⟩
        · show ((data4 s).ths.getD (w.ctlOf w.tid).body {}).pc + 1 = _
          rw [r9'.1]
        · show (((data4 s).ths.getD (w.ctlOf w.tid).body {}).pc, Ret.val 0) ::
            ((data4 s).ths.getD (w.ctlOf w.tid).body {}).rets = _
          rw [r9'.1, r9'.2.1]
      · intro hne
        exact absurd (fin_zero4 hR hact hop) hne
      · refine RF.ofGroups' (x1 := none) (x2 := none) (x3 := none) (x4 := none) hact _
          (by show inflS w.prog { w.ctlOf w.tid with stage := 41 } = _; simp only [inflS, hopc'])
          (by show pendN w.prog { w.ctlOf w.tid with stage := 41 } = _; simp only [pendN, hopc'])
          (by show callOf w.prog { w.ctlOf w.tid with stage := 41 } = _; unfold callOf; rw [hopc']; rfl)
          (by show aw25 w.prog { w.ctlOf w.tid with stage := 41 } = _; simp only [aw25, hopc']) ?_ ?_ ?_ ?_
        · rw [hdf]
          exact hR.f.s.df f decF ⟨rfl, rfl, rfl⟩
        · rw [hdf, hpa]
          have := hR.f.c.leave (m := 4) (b := false) hact hf hR.f.s.lenF hca (call_unique hwf hR hact hop) id decF
            hslot (fun e => ⟨e, rfl⟩)
          rw [modify_id' _ _ id (fun _ => rfl)] at this
          exact this
        · rw [hda]
          exact hR.f.a.same hia0
        · exact hR.f.w.same hwa0
    · -- the first half of `Notify::wait`
      have e4 : (mode == 4) = false := by simpa using hm4
      simp only [e', e4, Bool.false_eq_true, if_false] at h2
      obtain ⟨⟨w2, st⟩, h3, h4⟩ := Refine.bind_ok h2
      clear h2
      simp only [pure, Except.pure] at h4
      cases h4
      obtain ⟨sp, nt, ds, hvo1, hfr2, hir2, hcase⟩ := notifyWait1_view h3
      have hvo : (view4 w).objs[(w.futs.getD f {}).notify]? = some (.notify sp nt ds) := by
        rw [← hv1]; exact hvo1
      have hdata1 : data4 s1 = (data4 s).modTh (w.ctlOf w.tid).body fun h => { h with phase := 4 } := by
        rw [hdata, e, e4]; rfl
      obtain ⟨_, nt0, ds0, hnv0, hsp0, hnt0, _⟩ := hR.f.c.call w.tid f mode false hact hca
      have hnv0' : nvOf (view4 w).objs (w.futs.getD f {}).notify = some (true, nt0, ds0) := hnv0
      rw [nvOf_some, hvo] at hnv0'
      cases hnv0'
      refine ⟨hfr2.1.trans hk1.1.1, ?_, InRange.modCtl hir2 _ _⟩
      rcases hcase with ⟨rfl, hv2⟩ | ⟨rfl, _, hds, hv2⟩
      · -- the wait goes on: phase 3 → 4
        refine ⟨s1, hex, ?_⟩
        have hv : view4 (w2.modCtl w1.tid fun c => { c with stage := if (1 : Nat) == 1 then 16 else 10 }) =
            { view4 w with ctl := w.ctl.modify w.tid fun c => { c with stage := 16 } } := by
          rw [view4_modCtl, hv2, hv1, hfr2.2.1, hk1.1.2.1, hk1.2.1]
          rfl
        refine R4_phaseStep hR hact hop (by rw [hst]; rfl) hv hsok rfl ?_ (by rw [hdata1]; rfl)
        have hopc' : opOfCtl w.prog { w.ctlOf w.tid with stage := 16 } = some (.blockOn f mode) := hop
        simp only [fattr, inflS, pendN, callOf, aw25, hopc, hopc', hst, e5, Bool.false_and]
        rfl
      · -- the one spurious return: phase 3 → 4 → 1
        subst hds
        have hbl := body_lt hR hact
        have hth1 : dth4 (s1.th (w.ctlOf w.tid).body) =
            { (data4 s).th (w.ctlOf w.tid).body with phase := 4 } := by
          rw [th_of_data hdata1, SCData4.th_modTh_self _ _ _ hbl]
        have hpl1 : Plain (s1.th (w.ctlOf w.tid).body) := plain_of (by rw [hth1]; exact hrel.2.2.1)
        have hst1 : (s1.th (w.ctlOf w.tid).body).started = true := by
          have : (dth4 (s1.th (w.ctlOf w.tid).body)).started = true := by rw [hth1]; exact hrel.1
          exact this
        have hnf1 : (s1.th (w.ctlOf w.tid).body).finished = false := by
          have : (dth4 (s1.th (w.ctlOf w.tid).body)).finished = false := by
            rw [hth1]
            show ((data4 s).th (w.ctlOf w.tid).body).finished = false
            rw [data4_th]; exact hrun2
          exact this
        have hop1 : SC.opOf w.prog s1 (w.ctlOf w.tid).body = some (.blockOn f mode) := by
          rw [opOf_of_data hdata1]
          unfold SCData4.opOf
          rw [SCData4.th_modTh_self _ _ _ hbl]
          show (w.prog.threads.getD (w.ctlOf w.tid).body [])[((data4 s).ths.getD (w.ctlOf w.tid).body {}).pc]? = _
          rw [r9'.1]
          exact hop
        have hph1 : (s1.th (w.ctlOf w.tid).body).phase = 4 := by
          have : (dth4 (s1.th (w.ctlOf w.tid).body)).phase = 4 := by rw [hth1]
          exact this
        have hsu1 : (s1.futs.getD f {}).spurUsed = false := by
          have : (dfut (s1.futs.getD f {})).spurUsed = false := by
            rw [fut_of_data hdata1 f]; exact hsp0
          exact this
        have hv1' : s1.verdict = none := (verdict_of_data hdata1).trans hR.verdict
        obtain ⟨s2, hspur, hdata2⟩ := sc_spurious_bo (f := f) (mode := mode) hv1' hpl1 hst1 hnf1 hop1 hph1 hsu1
        rw [hdata1] at hdata2
        refine ⟨s2, exec_step2 hex hspur, ?_⟩
        have hopc' : opOfCtl w.prog { w.ctlOf w.tid with stage := 10 } = some (.blockOn f mode) := hop
        have hv : view4 (w2.modCtl w1.tid fun c => { c with stage := if (2 : Nat) == 1 then 16 else 10 }) =
            { view4 w with
              ctl := w.ctl.modify w.tid (fun c => { c with stage := 10 }),
              objs := (view4 w).objs.set (w.futs.getD f {}).notify (.notify true nt true) } := by
          rw [view4_modCtl, hv2, hv1, hfr2.2.1, hk1.1.2.1, hk1.2.1]
          rfl
        have hdf : (data4 s2).futs = (data4 s).futs.modify f spurF := by rw [hdata2]; rfl
        have hda : (data4 s2).atoms = (data4 s).atoms := by rw [hdata2]; rfl
        have hdt : (data4 s2).ths = (data4 s).ths.modify (w.ctlOf w.tid).body
            (fun h => { h with phase := 1 }) := by
          rw [hdata2]
          exact modify_modify' _ _ _ _
        have hdv : (data4 s2).verdict = none := by rw [hdata2]; exact hR.verdict
        have hset := view_set_notify (a' := true) (b' := nt) (c' := true) hvo
        unfold R4
        refine R4_step hR hact (fun c => { c with stage := 10 }) (fun h => { h with phase := 1 }) (view4 w).futs _
          hv hdt hdv rfl (Nat.le_refl _) ?_ ?_ id (notify_kept_set _ hvo (by intro nt ds e; cases e)) ?_
        · refine hrel.of rfl rfl rfl rfl rfl rfl rfl (by rw [hopc']; exact hsok)
            (by rw [hopc']; intro x hx; cases hx) ?_
          rw [hopc']
          exact ⟨r9'.1, r9'.2.1, rfl⟩
        · intro hne
          exact absurd (fin_zero4 hR hact hop) hne
        · refine RF.ofGroups' (x1 := none) (x2 := none) (x3 := some (f, mode, false)) (x4 := none) hact _
            (by show inflS w.prog { w.ctlOf w.tid with stage := 10 } = _; simp only [inflS, hopc'])
            (by show pendN w.prog { w.ctlOf w.tid with stage := 10 } = _; simp only [pendN, hopc'])
            (callOf_in hopc' h5 (by show phaseOfStage 10 ≠ 0; decide))
            (by show aw25 w.prog { w.ctlOf w.tid with stage := 10 } = _; simp only [aw25, hopc']) ?_ ?_ ?_ ?_
          · rw [hdf, hset.1]
            refine (hR.f.s.df f spurF ⟨rfl, rfl, rfl⟩).nv ?_
            intro k nt1 ds1 hk
            by_cases e : k = (w.futs.getD f {}).notify
            · subst e; exact ⟨nt, true, upd_self _ _ _⟩
            · exact ⟨nt1, ds1, by rw [upd_ne _ _ e]; exact hk⟩
          · rw [hdf, hset.1, hpa]
            exact hR.f.c.callStep (nt' := nt) (ds' := true) (b' := false) hact hR.f.s.lenDF hca
              (call_unique hwf hR hact hop) spurF rfl hnt0 (fun e => absurd e h5)
          · rw [hda, hset.2.2]
            exact hR.f.a.same hia0
          · rw [hset.2.1]
            exact hR.f.w.same hwa0

end

end Refine4
end LoomVerif

/-
Deadlock soundness, FUTURES fragment, part 17: the run-level hypothesis `okRun4` of `Props/Refine4.lean` only
constrains the flag polls of `blockOn f mode` (modes other than 5) and the consumption of a notification while
another one is in flight (which takes a `wake` / `wakeRef` / `wakeQ` / `awWake`).  For programs whose only
`block_on`s are SELF-WAKING futures (mode 5) and that contain none of these wakers (`SelfOnly`, decidable) it holds
of every run.
-/
import LoomVerif.Proofs.Deadlock3Inv

set_option linter.unusedSimpArgs false
set_option linter.unusedVariables false

namespace LoomVerif
namespace Deadlock3
open Refine Refine4 Deadlock Deadlock2

/-- an operation that is neither a flag-polling `block_on` nor a waker that delivers a notification -/
def selfOk : Op → Bool
  | .blockOn _ m => m == 5
  | .wake _ | .wakeRef _ | .wakeQ _ | .awWake _ => false
  | _ => true

/-- the only `block_on`s of the program are self-waking futures (mode 5), and it contains no `wake`, `wakeRef`,
`wakeQ`, `awWake` -/
def SelfOnly (p : Prog) : Prop := ∀ op ∈ Refine3.allOps p, selfOk op = true

instance (p : Prog) : Decidable (SelfOnly p) := by unfold SelfOnly; infer_instance

theorem pendN_none_of_selfOnly {p : Prog} (h : SelfOnly p) (c : TCtl) : pendN p c = none := by
  unfold pendN
  cases ho : opOfCtl p c with
  | none => rfl
  | some op =>
    have hm : op ∈ Refine3.allOps p := Refine3.mem_allOps ho
    have := h op hm
    cases op <;> simp only [selfOk, Bool.false_eq_true] at this <;> rfl

section
variable {w : World} {s : SC.St}

/-- the per-step condition holds at every world of a run over such a program -/
theorem resumeOk4_of_selfOnly (hso : SelfOnly w.prog) (hR : R4 w s) (hact : w.tid < w.ctl.length) :
    resumeOk4 w = true := by
  unfold resumeOk4
  cases hop : opAt w with
  | none => rfl
  | some op =>
    cases op <;> try rfl
    case blockOn f mode =>
      have hm : selfOk (.blockOn f mode) = true := hso _ (Refine3.mem_allOps hop)
      have hm5 : mode = 5 := by simpa [selfOk] using hm
      subst hm5
      have hsok := stage_ok hR hact hop
      simp only
      have h1 : ((w.ctlOf w.tid).stage == 11 || (w.ctlOf w.tid).stage == 15) = false := by
        unfold boStageOk at hsok
        split at hsok <;> simp_all
      rw [h1]
      simp only [Bool.false_eq_true, if_false]
      split
      · unfold noPending
        rw [List.all_eq_true]
        intro j _
        rw [pendN_none_of_selfOnly hso]
        rfl
      · rfl

end

/-- **`okRun4` holds of every run** over a well-formed program whose only `block_on`s are self-waking futures and
that contains no notifying waker -/
theorem okRun4_of_selfOnly {p : Prog} (hwf : WF4 p) (hso : SelfOnly p) :
    ∀ (fuel : Nat) (w : World) (s : SC.St), w.prog = p → R4 w s → InRange w → okRun4 fuel w = true := by
  intro fuel
  induction fuel with
  | zero => intro w s _ _ _; rfl
  | succ fuel ih =>
    intro w s hp hR hrange
    unfold okRun4
    split
    · rfl
    · next hact =>
      have hact' : w.ths.isActive = true := by simpa using hact
      have hlen : w.ctl.length = w.exec.threads.threads.length := hR.lenCtl
      have hin : w.tid < w.ctl.length := by rw [hlen]; exact hrange hact'
      have hok := resumeOk4_of_selfOnly (by rw [hp]; exact hso) hR hin
      rw [hok]
      simp only [Bool.true_and]
      cases hs : w.stepActive with
      | error e => rfl
      | ok w1 =>
        obtain ⟨hp1, ⟨s1, _, hR1⟩, hr1⟩ := step_sim4 (by rw [hp]; exact hwf) hR hin hok hs
        exact ih w1 s1 (hp1.trans hp) hR1 hr1

/-- … from the initial world of a fresh execution -/
theorem okRun4_init_of_selfOnly {prog : Prog} {exec : Exec} {w0 : World} {fuel : Nat} (hwf : WF4 prog)
    (hso : SelfOnly prog) (hfresh : Refine2.FreshExec2 exec) (hinit : World.init prog exec = .ok w0) :
    okRun4 fuel w0 = true := by
  obtain ⟨hR, hp⟩ := init_R4 hwf hfresh.fresh hinit
  exact okRun4_of_selfOnly hwf hso fuel w0 _ hp hR (init_inRange hfresh.fresh hinit)

end Deadlock3
end LoomVerif

/-
Race exactness on the WAIT fragment, part 19: the initial world is related (with clocks) to the initial reference
state, and the step theorem lifts to whole runs of `World.runLoop`.
-/
import LoomVerif.Proofs.Race2Main
import LoomVerif.Proofs.RaceRun

namespace LoomVerif
namespace Race2
open Refine Refine2 Sy C07 C08 Clocks Race

theorem getD_replicate_zero2 (n i : Nat) : (List.replicate n VV.zero).getD i VV.zero = VV.zero := by
  simp only [List.getD, List.getElem?_replicate]
  split <;> rfl

theorem init_th (p : Prog) (b : Nat) : ((SC.init p).th b).tokenVC = VV.zero := by
  unfold SC.St.th SC.init
  simp only [List.getD, List.getElem?_map]
  cases (List.range p.threads.length)[b]? <;> rfl

/-- **the initial world is related, with clocks, to the initial reference state** -/
theorem init_RC2 {prog : Prog} {e : Exec} {w : World} (hwf : WF3 prog) (hnt : prog.threads.length ≤ 5)
    (hf : FreshExec2 e) (h : World.init prog e = .ok w) :
    RC2 w (SC.init prog) ∧ w.prog = prog ∧ w.events = [] := by
  obtain ⟨hR, hp, hev⟩ := init_R2 hwf.1 hf h
  obtain ⟨_, hc, hs, _, hth, _, A, ext, hA, hobjs⟩ := init_shape2 h
  refine ⟨?_, hp, hev⟩
  have hget : ∀ i, w.ths.get i = {} := by
    intro i
    show w.exec.threads.get i = _
    rw [hth]
    unfold Threads.get
    rw [hf.1]
    cases i <;> rfl
  have hcaus : e.threads.caus = VV.zero := by
    unfold Threads.caus Threads.activeT Threads.get
    rw [hf.1]
    cases e.threads.activeId <;> rfl
  have hcell : ∀ c, c < prog.cfg.nCells →
      w.exec.objs[w.cellObj c]? = some (.cell { readAccess := VV.zero, writeAccess := VV.zero }) := by
    intro c hc'
    have : w.cellObj c = prog.cfg.nAtomics + c := by unfold World.cellObj World.cfg; rw [hp]
    rw [this, hobjs, hcaus, ← hA, getElem?_skip, getElem?_hit _ _ _ _ hc']
  have hmtx : ∀ m, m < prog.cfg.nMutexes → w.exec.objs[w.mutexObj m]? = some (.mutex {}) := by
    intro m hm
    have : w.mutexObj m = prog.cfg.nAtomics + prog.cfg.nCells + m := by
      unfold World.mutexObj World.cfg; rw [hp]
    rw [this, hobjs, ← hA, Nat.add_assoc, getElem?_skip, getElem?_skipRep, getElem?_hit _ _ _ _ hm]
  have hntf : ∀ n, n < prog.cfg.nNotifies → w.exec.objs[w.notifyObj n]? = some (.notify { spurious := true }) := by
    intro n hn
    have : w.notifyObj n = prog.cfg.nAtomics + prog.cfg.nCells + prog.cfg.nMutexes + prog.cfg.nRwlocks +
        prog.cfg.nCondvars + n := by
      unfold World.notifyObj World.cvObj World.rwObj World.mutexObj World.cfg; rw [hp]
    rw [this, hobjs, ← hA, Nat.add_assoc, Nat.add_assoc, Nat.add_assoc, Nat.add_assoc, getElem?_skip,
      getElem?_skipRep, getElem?_skipRep, getElem?_skipRep, getElem?_skipRep, getElem?_hit _ _ _ _ hn]
  have hchan : ∀ q, q < prog.cfg.nChans → w.exec.objs[w.chanObj q]? = some (.chan {}) := by
    intro q hq
    have : w.chanObj q = prog.cfg.nAtomics + prog.cfg.nCells + prog.cfg.nMutexes + prog.cfg.nRwlocks +
        prog.cfg.nCondvars + prog.cfg.nNotifies + q := by
      unfold World.chanObj World.notifyObj World.cvObj World.rwObj World.mutexObj World.cfg; rw [hp]
    rw [this, hobjs, ← hA, Nat.add_assoc, Nat.add_assoc, Nat.add_assoc, Nat.add_assoc, Nat.add_assoc, getElem?_skip,
      getElem?_skipRep, getElem?_skipRep, getElem?_skipRep, getElem?_skipRep, getElem?_skipRep,
      getElem?_hit _ _ _ _ hq]
  have hrep : ∀ (n i : Nat) (b : Bool), (List.replicate n b).getD i b = b := by
    intro n i b
    simp only [List.getD, List.getElem?_replicate]
    split <;> rfl
  refine ⟨hR, fragSt2_init prog, by rw [hp]; exact hnt, ?_, ?_, ?_, CS.zero, CS.zero, fun _ => [], fun _ => [], ?_⟩
  · -- `TwinInv`
    refine ⟨?_, ?_, ?_, ?_, ?_, ?_, ?_⟩
    · intro i _; unfold trel; rw [hget]
    · intro i o _ ho; unfold topo at ho; rw [hget] at ho; cases ho
    · intro i b j n _ _ hm; rw [hs] at hm; cases hm
    · intro b j n hm; rw [hs] at hm; cases hm
    · intro b j n hm; rw [hs] at hm; cases hm
    · intro e1 e2 h1; rw [hs] at h1; cases h1
    · intro c hc'
      rw [hp] at hc'
      exact ⟨_, hcell c hc', rfl, rfl⟩
  · -- `TwinInv2`
    refine ⟨?_, ?_⟩
    · intro i _ _ _; unfold tuc; rw [hget]
    · intro q hq
      rw [hp] at hq
      exact ⟨_, hchan q hq, rfl⟩
  · intro q
    show (List.replicate prog.cfg.nChans false).getD q false = false
    exact hrep _ _ _
  · refine ⟨?_, ?_, good_zero, good_zero, xinv_zero _ _, fun _ _ => .nil, ?_, ?_⟩
    · -- `LinkT2`
      refine ⟨?_, ?_, ?_, ?_, ?_, ?_, ?_, ?_, ?_⟩
      · intro m hm
        rw [hp] at hm
        rw [objHb_of (hmtx m hm)]; rfl
      · intro n hn
        rw [hp] at hn
        rw [objHb_of (hntf n hn)]; rfl
      · intro q hq
        rw [hp] at hq
        rw [objSs_of (hchan q hq)]; rfl
      · intro q hq
        rw [hp] at hq
        rw [objRs_of (hchan q hq)]; rfl
      · intro k c hc'
        rw [hp] at hc'
        rw [objAcc_of k (hcell c hc')]
        cases k <;> rfl
      · intro i _; unfold tcaus; rw [hget]; exact le_refl _
      · intro i _; unfold tcaus; rw [hget]; exact zero_le _
      · intro i _ _
        unfold tuc tcaus; rw [hget]
        exact ⟨le_refl _, zero_le _⟩
      · intro b _; rfl
    · -- `LinkR2`
      rw [hp]
      refine ⟨fun b => (init_vc prog b).symm, ?_, ?_, ?_, fun b => (init_th prog b).symm, ?_, ?_, ?_,
        by simp [SC.init], by simp [SC.init], by simp [SC.init], by simp [SC.init], by simp [SC.init],
        by simp [SC.init], ?_, ?_⟩
      · intro m _; exact (getD_replicate_zero2 _ _).symm
      · intro n _; exact (getD_replicate_zero2 _ _).symm
      · intro q _; exact (getD_replicate_zero2 _ _).symm
      · intro q _
        show [] = ((List.replicate prog.cfg.nChans ([] : List (Int × VV))).getD q []).map (·.2)
        simp only [List.getD, List.getElem?_replicate]
        split <;> rfl
      · intro c; exact (getD_replicate_zero2 _ _).symm
      · intro c; exact (getD_replicate_zero2 _ _).symm
      · intro c
        show (List.replicate prog.cfg.nCells false).getD c false = false
        exact hrep _ _ _
      · intro c
        show (List.replicate prog.cfg.nCells 0).getD c 0 = 0
        simp only [List.getD, List.getElem?_replicate]
        split <;> rfl
    · intro q Z _ hZ; cases hZ
    · intro q Z _ hZ; cases hZ

/-! ### runs -/

/-- what a run of the twin from a related world amounts to in the reference semantics -/
def RunOut2 (p : Prog) (w' : World) : Option Panic → Prop
  | none =>
    ∃ s', SCExec2 p (SC.init p) s' ∧ RC2 w' s' ∧
      SCData2.Run2 p (data2 (SC.init p)) (w'.events.reverse.map triple) (data2 s')
  | some (.causality k) =>
    ∃ s' t, SCExec2 p (SC.init p) s' ∧ RC2 w' s' ∧
      SCData2.Run2 p (data2 (SC.init p)) (w'.events.reverse.map triple) (data2 s') ∧
      t = body w' w'.tid ∧ SC.enabled p s' t = true ∧ SC.step p s' t = [(s'.tick t).stop (.race k)]
  | some _ => True

/-- a cell access is enabled in the reference -/
theorem enabled_cell2 {w : World} {s : SC.St} (hwf : WF2 w.prog) (hRC : RC2 w s) (hact : w.tid < w.ctl.length)
    (hcell : AtCell2 w) : SC.enabled w.prog s (body w w.tid) = true := by
  rw [SC.enabled_data2 hRC.fs.1 (fun op ho => hwf.fragProg _ _ _ ho)]
  rcases hcell with ⟨c, hop, _⟩ | ⟨c, v, hop, _⟩
  · exact enabled_plain2 hRC.r.c hact hop (pendCv_of_op hop (by simp)) (by simp) (by simp) (by simp) (by simp)
      (by simp)
  · exact enabled_plain2 hRC.r.c hact hop (pendCv_of_op hop (by simp)) (by simp) (by simp) (by simp) (by simp)
      (by simp)

/-- the simulation with clocks along `runLoop` -/
theorem runLoop_clock2 (p : Prog) (hwf : WF3 p) :
    ∀ (fuel : Nat) (w w' : World) (s : SC.St) (r : Option Panic), w.prog = p → RC2 w s → InRange w →
      SCExec2 p (SC.init p) s →
      SCData2.Run2 p (data2 (SC.init p)) (w.events.reverse.map triple) (data2 s) →
      okRun fuel w = true →
      World.runLoop fuel w = (w', r) → RunOut2 p w' r := by
  intro fuel
  induction fuel with
  | zero =>
    intro w w' s r _ _ _ _ _ _ h
    simp only [World.runLoop] at h
    cases h
    trivial
  | succ fuel ih =>
    intro w w' s r hp hRC hrange hex hrun hok h
    unfold World.runLoop at h
    unfold okRun at hok
    split at h
    · cases h
      exact ⟨s, hex, hRC, hrun⟩
    · next hact =>
      have hact' : w.ths.isActive = true := by simpa using hact
      have hin : w.tid < w.ctl.length := by rw [hRC.r.c.lenCtl]; exact hrange hact'
      have hwf' : WF3 w.prog := by rw [hp]; exact hwf
      rw [if_neg hact] at hok
      simp only [Bool.and_eq_true] at hok
      split at h
      · next e hstep =>
        cases h
        cases e <;> try trivial
        case causality k =>
          have hcell := causality_only_at_cells2 hwf' hRC hin hstep
          refine ⟨s, body w w.tid, hex, hRC, hrun, rfl, ?_, ?_⟩
          · rw [← hp]; exact enabled_cell2 hwf'.1 hRC hin hcell
          · rw [← hp]
            rcases hcell with ⟨c, hop, hc⟩ | ⟨c, v, hop, hc⟩
            · exact (read_panics_iff_races2 hRC hin hop hc k).1 hstep
            · exact (write_panics_iff_races2 hRC hin hop hc k).1 hstep
      · next w1 hstep =>
        have hok1 : okRun fuel w1 = true := by
          have := hok.2
          rw [hstep] at this
          exact this
        have hr1 : InRange w1 := (step_sim2 hwf'.1 hRC.r hin hok.1 hstep).2
        obtain ⟨hp1, hsim⟩ := step_clock2 hwf' hRC hin hact' hok.1 hstep
        rcases hsim with ⟨hRC1, hev⟩ | ⟨s1, hrs, hRC1, l, hl, hev⟩
        · exact ih w1 w' s r (hp1.trans hp) hRC1 hr1 hex (by rw [hev]; exact hrun) hok1 h
        · rw [hp] at hrs hl
          have hex1 : SCExec2 p (SC.init p) s1 := by
            rcases hrs with ⟨hen, hst⟩ | hsp
            · exact .step hex hen hst
            · exact .spur hex hsp
          refine ih w1 w' s1 r (hp1.trans hp) hRC1 hr1 hex1 ?_ hok1 h
          rw [triple_step hev]
          rcases hl with ⟨hen, hst⟩ | hsp
          · exact SCData2.Run2.step hrun hen hst
          · exact SCData2.Run2.spur hrun hsp

end Race2
end LoomVerif

/-
Refinement, FUTURES fragment: the simulation for `awWake f` (the wake through the `AtomicWaker`: stage 0 the branch
point of the flag store, 1 its effect, 2 the waker is taken out of the `AtomicWaker` under its mutex — the reference
step —, 3 the notification, 4 the waker is dropped), for `awTake f` (0 the branch point of the lock, 1 the take under
the mutex — the reference step —, 2 the waker is dropped) and for `dropWaker f` (the same on the plain slot).
-/
import LoomVerif.Proofs.Refine4Ok

set_option linter.unusedSimpArgs false
set_option linter.unusedVariables false

namespace LoomVerif
namespace Refine4
open Refine Sy Refine2 C20

section
variable {w w' : World} {s : SC.St}

/-! ### `awWake f` -/

theorem sim_awWake0 (hR : R4 w s) (hact : w.tid < w.ctl.length) {f : Nat}
    (hop : opAt w = some (.awWake f)) (hst : (w.ctlOf w.tid).stage = 0)
    (h : w.stepActive = .ok w') : Sim4 w s w' := by
  rw [stepActive_op hop] at h
  have h' : w.primStart f (.store 1 .rel) = .ok w' := by
    simp only [World.runOp, hst] at h
    exact h
  obtain ⟨hp, hr, hv⟩ := primStart_view (act := .atomStore) rfl h'
  refine ⟨hp, ⟨s, .nil s, ?_⟩, hr⟩
  have hopc : opOfCtl w.prog (w.ctlOf w.tid) = some (.awWake f) := hop
  refine R4_quiet hR hact _ hv rfl rfl rfl rfl rfl rfl ?_ ?_ ?_ ?_ ?_
  · rw [hop]; rfl
  · rw [hop, hst]; rfl
  · rw [hop]; rfl
  · have hopc' : opOfCtl w.prog { w.ctlOf w.tid with prim := some (.store 1 .rel), stage := 1 } = some (.awWake f) := hop
    simp only [fattr, inflS, pendN, callOf, aw25, hopc, hopc', hst]
  · intro x hx; rw [hop] at hx; cases hx

/-- stage 1: the flag store takes effect; the reference step is still to come -/
theorem sim_awWake1 (hwf : WF4 w.prog) (hR : R4 w s) (hact : w.tid < w.ctl.length) {f : Nat}
    (hop : opAt w = some (.awWake f)) (hst : (w.ctlOf w.tid).stage = 1)
    (h : w.stepActive = .ok w') : Sim4 w s w' := by
  rw [stepActive_op hop] at h
  simp only [World.runOp, hst] at h
  obtain ⟨⟨w1, r⟩, h1, h2⟩ := Refine.bind_ok h
  obtain ⟨m, h3, h4⟩ := Refine.bind_ok h2
  clear h h2
  obtain ⟨hf, hfa⟩ := fut_lt hwf hop rfl
  -- the store
  obtain ⟨l, full, c0, hvo, hk1, _, hv1⟩ := primEffect_store_view h1
  obtain ⟨v0, c1, hav, _⟩ := hR.f.a.atom f hfa
  have hfull : full = true := by
    rw [avOf_some] at hav
    rw [hav] at hvo
    cases hvo; rfl
  have hv1' := hv1 hfull
  -- the branch point
  have hs := branch_sched h4
  have hp : w'.prog = w.prog := hs.fr.1.trans hk1.1.1
  refine ⟨hp, ⟨s, .nil s, ?_⟩, hs.inRange⟩
  have hv : view4 w' = { view4 w with
      ctl := w.ctl.modify w.tid (fun c => { c with stage := 2 }),
      objs := (view4 w).objs.set f (.atomic (w.cfg.ty.intoU64 1) true (c0 + 1)) } := by
    rw [hs.view, view4_setStage, hv1', hk1.1.2.1, hk1.2.1]
  have hopc : opOfCtl w.prog (w.ctlOf w.tid) = some (.awWake f) := hop
  have hopc' : opOfCtl w.prog { w.ctlOf w.tid with stage := 2 } = some (.awWake f) := hop
  have hrel := rel4 hR hact
  have hset := view_set_atomic (v' := w.cfg.ty.intoU64 1) (b' := true) (c' := c0 + 1) hvo
  refine R4_step hR hact (fun c => { c with stage := 2 }) id (view4 w).futs _ hv
    (by rw [modify_id' _ _ id (fun _ => rfl)]) hR.verdict rfl (Nat.le_refl _) ?_ ?_ id
    (notify_kept_set _ hvo (by intro nt ds e; cases e)) ?_
  · refine hrel.of rfl rfl rfl rfl rfl rfl rfl (by rw [hopc']; rfl) (by rw [hopc']; intro x hx; cases hx) ?_
    have r9 := hrel.2.2.2.2.2.2.2.2
    rw [hopc, hst] at r9
    rw [hopc']
    exact r9
  · intro hne
    exact absurd (fin_zero4 hR hact hop) hne
  · refine RF.ofGroups' (x1 := some f) (x2 := none) (x3 := none) (x4 := none) hact _
      (by show inflS w.prog { w.ctlOf w.tid with stage := 2 } = _; simp only [inflS, hopc'])
      (by show pendN w.prog { w.ctlOf w.tid with stage := 2 } = _; simp only [pendN, hopc'])
      (by show callOf w.prog { w.ctlOf w.tid with stage := 2 } = _; simp only [callOf, hopc'])
      (by show aw25 w.prog { w.ctlOf w.tid with stage := 2 } = _; simp only [aw25, hopc']) ?_ ?_ ?_ ?_
    · rw [hset.2.1]; exact hR.f.s
    · rw [hset.2.1]
      exact hR.f.c.same (by show pendN w.prog (w.ctlOf w.tid) = none; simp only [pendN, hopc, hst])
        (by show callOf w.prog (w.ctlOf w.tid) = none; simp only [callOf, hopc])
    · rw [hset.1]
      exact hR.f.a.enter hact hfa (by show inflS w.prog (w.ctlOf w.tid) = none; simp only [inflS, hopc, hst])
        (avOf_some.2 hvo)
    · rw [hset.2.2]
      exact hR.f.w.same (by show aw25 w.prog (w.ctlOf w.tid) = none; simp only [aw25, hopc, hst])

/-- stage 2: the waker is taken out of the `AtomicWaker` under its mutex: THE REFERENCE STEP of `awWake` -/
theorem sim_awWake2 (hwf : WF4 w.prog) (hR : R4 w s) (hact : w.tid < w.ctl.length) {f : Nat}
    (hop : opAt w = some (.awWake f)) (hst : (w.ctlOf w.tid).stage = 2)
    (h : w.stepActive = .ok w') : Sim4 w s w' := by
  rw [stepActive_op hop] at h
  rw [awWake_stage2 w _ f hst] at h
  obtain ⟨⟨w1, okk⟩, h1, h2⟩ := Refine.bind_ok h
  clear h
  obtain ⟨hf, hfa⟩ := fut_lt hwf hop rfl
  have hnoslot := noSlot hwf hR hop rfl (by decide)
  -- the lock
  obtain ⟨l, hvo, hokk, hk1, _, hv1⟩ := postAcquire_view h1
  cases okk with
  | false => simp [bind, Except.bind, throw, throwThe, MonadExceptOf.throw] at h2
  | true =>
  simp only [Bool.not_true, Bool.false_eq_true, if_false, if_true, bind, Except.bind, pure, Except.pure] at h2
  have hl : l = none := by cases l <;> simp at hokk ⊢
  subst hl
  have hv1' := hv1 rfl
  -- the unlock
  obtain ⟨w3, h3, h4⟩ := Refine.bind_ok h2
  clear h2
  obtain ⟨l2, _, hk3, hv3⟩ := releaseLock_view h3
  have hctl1 : w1.ctl = w.ctl := hk1.1.2.1
  have htid1 : w1.tid = w.tid := hk1.2.1
  have hfuts1 : w1.futs = w.futs := hk1.1.2.2.2.1
  have haw1 : (w1.futs.getD f {}).awWaker = (w.futs.getD f {}).awWaker := by rw [hfuts1]
  rw [haw1] at h4
  have hv3' : view4 w3 = { view4 w with futs := w.futs.modify f (fun s => { s with awWaker := false }) } := by
    rw [hv3, view4_modFut, hv1']
    show ({ view4 w with futs := w1.futs.modify f _, objs := (((view4 w).objs.set _ _).set _ _) } : View) = _
    rw [lock_unlock_objs hvo, hfuts1]
  have hctl3 : w3.ctl = w.ctl := congrArg View.ctl hv3'
  have htid3 : w3.tid = w.tid := hk3.2.1.trans htid1
  have hlen3 : w.ctl.length = w.exec.threads.threads.length := hR.lenCtl
  have hopc : opOfCtl w.prog (w.ctlOf w.tid) = some (.awWake f) := hop
  have hrel := rel4 hR hact
  obtain ⟨_, _, hpl, hstd, hfinr⟩ := act4 hR hact
  have hsy := sync4 hR hact (by rw [hop, hst]; rfl)
  obtain ⟨hrun1, hrun2⟩ := running4 hR hact hop
  -- the reference step
  obtain ⟨s', hstep, hdata⟩ := sc_step_wake (f := f) hpl (hsy.1.trans hop) (.inr rfl)
  have hen : SC.enabled w.prog s (w.ctlOf w.tid).body = true :=
    sc_enabled_op hR.verdict hpl hrun1 hrun2 (hsy.1.trans hop) (hwf.opOk hop) rfl
  have hex : SCExec2 w.prog s s' := exec_step hen hstep
  have hia : iaOf w.prog w.ctl w.tid = some f := by
    show inflS w.prog (w.ctlOf w.tid) = some f
    simp only [inflS, hopc, hst]
  have hGA := hR.f.a.lin hact hfa hia
  have hdf : (data4 s').futs = (data4 s).futs.modify f wakeF := by rw [hdata]; rfl
  have hda : (data4 s').atoms = (data4 s).atoms.set f 1 := by rw [hdata]; rfl
  have hdt : (data4 s').ths = (data4 s).ths.modify (w.ctlOf w.tid).body
      (fun h => { h with rets := (h.pc, Ret.unit) :: h.rets, pc := h.pc + 1 }) := by rw [hdata]; rfl
  have hdv : (data4 s').verdict = none := by rw [hdata]; exact hR.verdict
  have huslot : ((data4 s).futs.getD f {}).slot = (w.futs.getD f {}).awWaker := by
    have := hR.f.s.slot f hf
    rw [show (view4 w).futs = w.futs from rfl, hnoslot, Bool.false_or] at this
    exact this
  have r9 := hrel.2.2.2.2.2.2.2.2
  rw [hopc, hst] at r9
  have r9' : ((data4 s).ths.getD (w.ctlOf w.tid).body {}).pc = (w.ctlOf w.tid).pc ∧
      ((data4 s).ths.getD (w.ctlOf w.tid).body {}).rets = (w.ctlOf w.tid).results ∧
      ((data4 s).ths.getD (w.ctlOf w.tid).body {}).phase = 0 := r9
  have hGslot : ∀ {P : Prop}, ({ w.futs.getD f {} with awWaker := false } : FutSt).slot = true → P := by
    intro P e
    have e' : (w.futs.getD f {}).slot = true := e
    rw [hnoslot] at e'; cases e'
  -- the registration
  have hGS : GS w.prog (w.futs.modify f fun s => { s with awWaker := false }) (nvOf (view4 w).objs)
      ((data4 s).futs.modify f wakeF) := by
    refine hR.f.s.step hf _ wakeF ⟨rfl, rfl⟩ ?_ (fun e => hGslot e) (fun e => by cases e) ?_
      (fun e => hGslot e) (fun e => by cases e) (fun k nt ds hk => ⟨nt, ds, hk⟩)
    · show (wakeF _).slot = ((w.futs.getD f {}).slot || false)
      rw [hnoslot]
      unfold wakeF
      split
      · rfl
      · next hs => simpa using hs
    · have := hR.f.s.genLe f hf
      unfold wakeF
      split <;> exact this
  cases hhad : (w.futs.getD f {}).awWaker with
  | true =>
    -- a waker was registered: the notification is still to come
    rw [hhad] at h4
    simp only [if_true] at h4
    have hs := branch_sched h4
    refine ⟨hs.fr.1.trans (hk3.1.1.trans hk1.1.1), ⟨s', hex, ?_⟩, hs.inRange⟩
    have hv : view4 w' = { view4 w with
        ctl := w.ctl.modify w.tid
          (fun c => { c with taken := (w.futs.getD f {}).awArc, takenNotify := (w.futs.getD f {}).awNotify, stage := 3 }),
        futs := w.futs.modify f (fun s => { s with awWaker := false }) } := by
      rw [hs.view, view4_setStage, view4_modCtl, hv3']
      show ({ view4 w with
        ctl := (w3.ctl.modify w3.tid _).modify w3.tid _, futs := _ } : View) = _
      rw [hctl3, htid3, modify_modify']
    have hopc' : opOfCtl w.prog
        { w.ctlOf w.tid with taken := (w.futs.getD f {}).awArc, takenNotify := (w.futs.getD f {}).awNotify, stage := 3 } =
        some (.awWake f) := hop
    -- the call the waker belongs to
    obtain ⟨hgen, nt0, ds0, hnv0⟩ := hR.f.s.genA f hf hhad
    have hus : ((data4 s).futs.getD f {}).slot = true := by rw [huslot]; exact hhad
    unfold R4
    refine R4_step hR hact _ (fun h => { h with rets := (h.pc, Ret.unit) :: h.rets, pc := h.pc + 1 })
      _ (view4 w).objs hv hdt hdv rfl (Nat.le_refl _) ?_ ?_ id (fun _ _ _ h => h) ?_
    · refine hrel.of rfl rfl rfl rfl rfl rfl rfl (by rw [hopc']; rfl) (by rw [hopc']; intro x hx; cases hx) ?_
      rw [hopc']
      show _ = (w.ctlOf w.tid).pc + 1 ∧ _ = ((w.ctlOf w.tid).pc, Ret.unit) :: (w.ctlOf w.tid).results ∧ _ = 0
      rw [r9'.1, r9'.2.1]
      exact ⟨rfl, rfl, r9'.2.2⟩
    · intro hne
      exact absurd (fin_zero4 hR hact hop) hne
    · refine RF.ofGroups' (x1 := none) (x2 := some (w.futs.getD f {}).awNotify) (x3 := none) (x4 := none) hact _
        (by show inflS w.prog { w.ctlOf w.tid with taken := _, takenNotify := _, stage := 3 } = _
            simp only [inflS, hopc'])
        (by show pendN w.prog { w.ctlOf w.tid with taken := _, takenNotify := _, stage := 3 } = _
            simp only [pendN, hopc'])
        (by show callOf w.prog { w.ctlOf w.tid with taken := _, takenNotify := _, stage := 3 } = _
            simp only [callOf, hopc'])
        (by show aw25 w.prog { w.ctlOf w.tid with taken := _, takenNotify := _, stage := 3 } = _
            simp only [aw25, hopc']) ?_ ?_ ?_ ?_
      · rw [hdf]; exact hGS
      · rw [hdf]
        have hca : caOf w.prog w.ctl w.tid = none := by
          show callOf w.prog (w.ctlOf w.tid) = none
          simp only [callOf, hopc]
        have : upd (caOf w.prog w.ctl) w.tid none = caOf w.prog w.ctl := by rw [← hca]; exact upd_same _ _
        rw [this]
        refine hR.f.c.linNotify hact hf hR.f.s.lenF hR.f.s.lenDF ?_ _ wakeF ⟨nt0, ds0, hnv0⟩ rfl ?_ ?_ ?_ ?_
          (fun e => e) (fun e => by cases e)
        · show pendN w.prog (w.ctlOf w.tid) = none
          simp only [pendN, hopc, hst]
        · unfold wakeF; split <;> exact ⟨rfl, rfl⟩
        · intro hn
          have hg : ((data4 s).futs.getD f {}).slotGen = ((data4 s).futs.getD f {}).gen := hgen.2 hn.symm
          unfold wakeF
          rw [if_pos hus]
          show (_ || ((data4 s).futs.getD f {}).slotGen == ((data4 s).futs.getD f {}).gen) = true
          rw [hg]; simp
        · intro hne
          have hg : ((data4 s).futs.getD f {}).slotGen ≠ ((data4 s).futs.getD f {}).gen :=
            fun e => hne (hgen.1 e).symm
          have hb : (((data4 s).futs.getD f {}).slotGen == ((data4 s).futs.getD f {}).gen) = false := by
            simpa using hg
          unfold wakeF
          rw [if_pos hus]
          show (_ || ((data4 s).futs.getD f {}).slotGen == ((data4 s).futs.getD f {}).gen) = _
          rw [hb, Bool.or_false]
        · intro i f' m b hi hc hn
          exact hR.f.c.awOther f i f' m b hf hhad hi hc hn
      · rw [hda]; exact hGA
      · exact (hR.f.w.same (by show aw25 w.prog (w.ctlOf w.tid) = none; simp only [aw25, hopc, hst])).futs
  | false =>
    -- nothing was registered: the operation completes
    rw [hhad] at h4
    simp only [Bool.false_eq_true, if_false] at h4
    cases h4
    refine ⟨hk3.1.1.trans hk1.1.1, ⟨s', hex, ?_⟩,
      inRange_of (w := w) htid3 (Nat.le_of_eq (hk3.2.2.trans hk1.2.2).symm) (by
        rw [← hlen3]; exact hact)⟩
    have hv : view4 (w3.complete .unit) = { view4 w with
        ctl := w.ctl.modify w.tid (completeF .unit),
        futs := w.futs.modify f (fun s => { s with awWaker := false }) } := by
      rw [view4_complete, hv3', hctl3, htid3]
    unfold R4
    refine R4_step hR hact _ (fun h => { h with rets := (h.pc, Ret.unit) :: h.rets, pc := h.pc + 1 })
      _ (view4 w).objs hv hdt hdv rfl (Nat.le_succ _) ?_ ?_ id (fun _ _ _ h => h) ?_
    · refine hrel.of rfl rfl rfl rfl rfl rfl rfl (stageOk_zero _) (by intro x _ h1; cases h1) ?_
      show match aheadOf _ 0 with | none => _ | some r => _
      rw [aheadOf_zero]
      show _ = (w.ctlOf w.tid).pc + 1 ∧ _ = ((w.ctlOf w.tid).pc, Ret.unit) :: (w.ctlOf w.tid).results ∧ _ = phaseOf _ 0
      rw [r9'.1, r9'.2.1, phaseOf_zero]
      exact ⟨rfl, rfl, r9'.2.2⟩
    · intro hne
      exact absurd (fin_zero4 hR hact hop) hne
    · obtain ⟨e1, e2, e3, e4⟩ := fattr_stage0 w.prog (completeF .unit (w.ctlOf w.tid)) rfl
      refine RF.ofGroups' hact _ e1 e2 e3 e4 ?_ ?_ ?_ ?_
      · rw [hdf]; exact hGS
      · rw [hdf]
        refine (hR.f.c.futStep hf hR.f.s.lenF hR.f.s.lenDF _ wakeF rfl ?_ (fun e => hGslot e)
          (fun e => by cases e)).same ?_ ?_
        · have hus : ((data4 s).futs.getD f {}).slot = false := by rw [huslot]; exact hhad
          unfold wakeF
          rw [if_neg (by rw [hus]; exact Bool.false_ne_true)]
          exact ⟨rfl, rfl, rfl⟩
        · show pendN w.prog (w.ctlOf w.tid) = none
          simp only [pendN, hopc, hst]
        · show callOf w.prog (w.ctlOf w.tid) = none
          simp only [callOf, hopc]
      · rw [hda]; exact hGA
      · exact (hR.f.w.same (by show aw25 w.prog (w.ctlOf w.tid) = none; simp only [aw25, hopc, hst])).futs

/-- stage 3: the notification lands (the reference has notified at stage 2) -/
theorem sim_awWake3 (hR : R4 w s) (hact : w.tid < w.ctl.length) {f : Nat}
    (hop : opAt w = some (.awWake f)) (hst : (w.ctlOf w.tid).stage = 3)
    (h : w.stepActive = .ok w') : Sim4 w s w' := by
  rw [stepActive_op hop] at h
  rw [awWake_stage3 w _ f hst] at h
  obtain ⟨w1, h1, h2⟩ := Refine.bind_ok h
  clear h
  obtain ⟨sp, nt, ds, hvo, hk1, hv1⟩ := notifyEffect_view h1
  have hs := branch_sched h2
  refine ⟨hs.fr.1.trans hk1.1.1, ⟨s, .nil s, ?_⟩, hs.inRange⟩
  have hv : view4 w' = { view4 w with
      ctl := w.ctl.modify w.tid (fun c => { c with stage := 4 }),
      objs := (view4 w).objs.set (w.ctlOf w.tid).takenNotify (.notify sp true ds) } := by
    rw [hs.view, view4_setStage, hv1, hk1.1.2.1, hk1.2.1]
  have hopc : opOfCtl w.prog (w.ctlOf w.tid) = some (.awWake f) := hop
  have hopc' : opOfCtl w.prog { w.ctlOf w.tid with stage := 4 } = some (.awWake f) := hop
  have hrel := rel4 hR hact
  obtain ⟨hsp, hRF⟩ := hR.f.land hact (fun c => { c with stage := 4 })
    (by show pendN w.prog (w.ctlOf w.tid) = _; simp only [pendN, hopc, hst])
    ⟨by show inflS w.prog (w.ctlOf w.tid) = _; simp only [inflS, hopc, hst],
     by show callOf w.prog (w.ctlOf w.tid) = _; simp only [callOf, hopc],
     by show aw25 w.prog (w.ctlOf w.tid) = _; simp only [aw25, hopc, hst]⟩
    (by show fattr w.prog { w.ctlOf w.tid with stage := 4 } = _
        simp only [fattr, inflS, pendN, callOf, aw25, hopc']) hvo
  subst hsp
  unfold R4
  refine R4_step hR hact (fun c => { c with stage := 4 }) id (view4 w).futs _ hv
    (by rw [modify_id' _ _ id (fun _ => rfl)]) hR.verdict rfl (Nat.le_refl _) ?_ ?_ id
    (notify_kept_set _ hvo (by intro nt ds e; cases e)) hRF
  · refine hrel.of rfl rfl rfl rfl rfl rfl rfl (by rw [hopc']; rfl) (by rw [hopc']; intro x hx; cases hx) ?_
    have r9 := hrel.2.2.2.2.2.2.2.2
    rw [hopc, hst] at r9
    rw [hopc']
    exact r9
  · intro hne
    exact absurd (fin_zero4 hR hact hop) hne

/-- stage 4: the waker taken is dropped, the operation completes (the reference has recorded it at stage 2) -/
theorem sim_awWake4 (hR : R4 w s) (hact : w.tid < w.ctl.length) {f : Nat}
    (hop : opAt w = some (.awWake f)) (hst : (w.ctlOf w.tid).stage = 4)
    (h : w.stepActive = .ok w') : Sim4 w s w' := by
  rw [stepActive_op hop] at h
  rw [awWake_stage4 w _ f (Nat.le_of_eq hst.symm)] at h
  have hopc : opOfCtl w.prog (w.ctlOf w.tid) = some (.awWake f) := hop
  exact sim_dropComplete hR hact hop (by rw [hop, hst]; rfl)
    (by simp only [fattr, inflS, pendN, callOf, aw25, hopc, hst]) h


/-! ### `awTake f` -/

theorem sim_awTake0 (hR : R4 w s) (hact : w.tid < w.ctl.length) {f : Nat}
    (hop : opAt w = some (.awTake f)) (hst : (w.ctlOf w.tid).stage = 0)
    (h : w.stepActive = .ok w') : Sim4 w s w' := by
  rw [stepActive_op hop] at h
  simp only [World.runOp, World.awTakeStage, hst] at h
  obtain ⟨m, h1, h2⟩ := Refine.bind_ok h
  clear h
  have hs := branch_sched h2
  refine ⟨hs.fr.1, ⟨s, .nil s, ?_⟩, hs.inRange⟩
  have hv : view4 w' = { view4 w with ctl := w.ctl.modify w.tid (fun c => { c with stage := 1 }) } := by
    rw [hs.view, view4_setStage]
  have hopc : opOfCtl w.prog (w.ctlOf w.tid) = some (.awTake f) := hop
  refine R4_quiet hR hact _ hv rfl rfl rfl rfl rfl rfl ?_ ?_ ?_ ?_ ?_
  · rw [hop]; rfl
  · rw [hop, hst]; rfl
  · rw [hop]; rfl
  · have hopc' : opOfCtl w.prog { w.ctlOf w.tid with stage := 1 } = some (.awTake f) := hop
    simp only [fattr, inflS, pendN, callOf, aw25, hopc, hopc', hst]
  · intro x hx; rw [hop] at hx; cases hx

/-- stage 1: the registered waker is taken under the mutex: THE REFERENCE STEP of `awTake` -/
theorem sim_awTake1 (hwf : WF4 w.prog) (hR : R4 w s) (hact : w.tid < w.ctl.length) {f : Nat}
    (hop : opAt w = some (.awTake f)) (hst : (w.ctlOf w.tid).stage = 1)
    (h : w.stepActive = .ok w') : Sim4 w s w' := by
  rw [stepActive_op hop] at h
  rw [awTake_stage1 w _ f hst] at h
  obtain ⟨⟨w1, okk⟩, h1, h2⟩ := Refine.bind_ok h
  clear h
  obtain ⟨hf, hfa⟩ := fut_lt hwf hop rfl
  have hno := noSlot hwf hR hop rfl (by decide)
  -- the lock
  obtain ⟨l, hvo, hokk, hk1, _, hv1⟩ := postAcquire_view h1
  cases okk with
  | false => simp [bind, Except.bind, throw, throwThe, MonadExceptOf.throw] at h2
  | true =>
  simp only [Bool.not_true, Bool.false_eq_true, if_false, if_true, bind, Except.bind, pure, Except.pure] at h2
  have hl : l = none := by cases l <;> simp at hokk ⊢
  subst hl
  have hv1' := hv1 rfl
  -- the unlock
  obtain ⟨w3, h3, h4⟩ := Refine.bind_ok h2
  clear h2
  obtain ⟨l2, _, hk3, hv3⟩ := releaseLock_view h3
  have hctl1 : w1.ctl = w.ctl := hk1.1.2.1
  have htid1 : w1.tid = w.tid := hk1.2.1
  have hfuts1 : w1.futs = w.futs := hk1.1.2.2.2.1
  have haw1 : (w1.futs.getD f {}).awWaker = (w.futs.getD f {}).awWaker := by rw [hfuts1]
  rw [haw1] at h4
  have hv3' : view4 w3 = { view4 w with futs := w.futs.modify f (fun s => { s with awWaker := false }) } := by
    rw [hv3, view4_modFut, hv1']
    show ({ view4 w with futs := w1.futs.modify f _, objs := (((view4 w).objs.set _ _).set _ _) } : View) = _
    rw [lock_unlock_objs hvo, hfuts1]
  have hctl3 : w3.ctl = w.ctl := congrArg View.ctl hv3'
  have htid3 : w3.tid = w.tid := hk3.2.1.trans htid1
  have hlen3 : w.ctl.length = w.exec.threads.threads.length := hR.lenCtl
  have hopc : opOfCtl w.prog (w.ctlOf w.tid) = some (.awTake f) := hop
  have hrel := rel4 hR hact
  obtain ⟨_, _, hpl, hstd, hfinr⟩ := act4 hR hact
  have hsy := sync4 hR hact (by rw [hop, hst]; rfl)
  obtain ⟨hrun1, hrun2⟩ := running4 hR hact hop
  -- the reference step
  obtain ⟨s', hstep, hdata⟩ := sc_step_take (f := f) hpl (hsy.1.trans hop) (.inr rfl)
  have hen : SC.enabled w.prog s (w.ctlOf w.tid).body = true :=
    sc_enabled_op hR.verdict hpl hrun1 hrun2 (hsy.1.trans hop) (hwf.opOk hop) rfl
  have hex : SCExec2 w.prog s s' := exec_step hen hstep
  have hia : iaOf w.prog w.ctl w.tid = none := by
    show inflS w.prog (w.ctlOf w.tid) = none
    simp only [inflS, hopc, hst]
  have hGA := hR.f.a.same hia
  have hdf : (data4 s').futs = (data4 s).futs.modify f takeF := by rw [hdata]; rfl
  have hda : (data4 s').atoms = (data4 s).atoms := by rw [hdata]; rfl
  have hdt : (data4 s').ths = (data4 s).ths.modify (w.ctlOf w.tid).body
      (fun h => { h with rets := (h.pc, Ret.unit) :: h.rets, pc := h.pc + 1 }) := by rw [hdata]; rfl
  have hdv : (data4 s').verdict = none := by rw [hdata]; exact hR.verdict
  have huslot : ((data4 s).futs.getD f {}).slot = (w.futs.getD f {}).awWaker := by
    have := hR.f.s.slot f hf
    rw [show (view4 w).futs = w.futs from rfl, hno, Bool.false_or] at this
    exact this
  have r9 := hrel.2.2.2.2.2.2.2.2
  rw [hopc, hst] at r9
  have r9' : ((data4 s).ths.getD (w.ctlOf w.tid).body {}).pc = (w.ctlOf w.tid).pc ∧
      ((data4 s).ths.getD (w.ctlOf w.tid).body {}).rets = (w.ctlOf w.tid).results ∧
      ((data4 s).ths.getD (w.ctlOf w.tid).body {}).phase = 0 := r9
  have hGo : ∀ {P : Prop}, ({ w.futs.getD f {} with awWaker := false } : FutSt).slot = true → P := by
    intro P e
    have e' : (w.futs.getD f {}).slot = true := e
    rw [hno] at e'; cases e'
  have htk : ((takeF ((data4 s).futs.getD f {})).notified = ((data4 s).futs.getD f {}).notified ∧
      (takeF ((data4 s).futs.getD f {})).spurUsed = ((data4 s).futs.getD f {}).spurUsed ∧
      (takeF ((data4 s).futs.getD f {})).polled = ((data4 s).futs.getD f {}).polled) := by
    unfold takeF; split <;> exact ⟨rfl, rfl, rfl⟩
  -- the registration
  have hGS : GS w.prog (w.futs.modify f fun s => { s with awWaker := false }) (nvOf (view4 w).objs)
      ((data4 s).futs.modify f takeF) := by
    refine hR.f.s.step hf _ takeF ⟨rfl, rfl⟩ ?_ (fun e => hGo e) (fun e => by cases e) ?_
      (fun e => hGo e) (fun e => by cases e) (fun k nt ds hk => ⟨nt, ds, hk⟩)
    · show (takeF _).slot = ((w.futs.getD f {}).slot || false)
      rw [hno]
      unfold takeF
      split
      · rfl
      · next hs => simpa using hs
    · have := hR.f.s.genLe f hf
      unfold takeF
      split <;> exact this
  have hGC : GC w.prog w.ctl.length (upd (paOf w.prog w.ctl) w.tid none) (upd (caOf w.prog w.ctl) w.tid none)
      (w.futs.modify f fun s => { s with awWaker := false }) (nvOf (view4 w).objs)
      ((data4 s).futs.modify f takeF) := by
    refine (hR.f.c.futStep hf hR.f.s.lenF hR.f.s.lenDF _ takeF rfl htk (fun e => hGo e)
      (fun e => by cases e)).same ?_ ?_
    · show pendN w.prog (w.ctlOf w.tid) = none
      simp only [pendN, hopc, hst]
    · show callOf w.prog (w.ctlOf w.tid) = none
      simp only [callOf, hopc]
  have hGW := (hR.f.w.same (x := none) (by
    show aw25 w.prog (w.ctlOf w.tid) = none; simp only [aw25, hopc, hst])).futs
      (futs' := w.futs.modify f fun s => { s with awWaker := false })
  cases hhad : (w.futs.getD f {}).awWaker with
  | true =>
    -- a waker was registered: it is still to be dropped
    rw [hhad] at h4
    simp only [if_true] at h4
    have hs := branch_sched h4
    refine ⟨hs.fr.1.trans (hk3.1.1.trans hk1.1.1), ⟨s', hex, ?_⟩, hs.inRange⟩
    have hv : view4 w' = { view4 w with
        ctl := w.ctl.modify w.tid (fun c => { c with taken := (w.futs.getD f {}).awArc, stage := 2 }),
        futs := w.futs.modify f (fun s => { s with awWaker := false }) } := by
      rw [hs.view, view4_setStage, view4_modCtl, hv3']
      show ({ view4 w with
        ctl := (w3.ctl.modify w3.tid _).modify w3.tid _, futs := _ } : View) = _
      rw [hctl3, htid3, modify_modify']
    have hopc' : opOfCtl w.prog { w.ctlOf w.tid with taken := (w.futs.getD f {}).awArc, stage := 2 } = some (.awTake f) := hop
    unfold R4
    refine R4_step hR hact _ (fun h => { h with rets := (h.pc, Ret.unit) :: h.rets, pc := h.pc + 1 })
      _ (view4 w).objs hv hdt hdv rfl (Nat.le_refl _) ?_ ?_ id (fun _ _ _ h => h) ?_
    · refine hrel.of rfl rfl rfl rfl rfl rfl rfl (by rw [hopc']; rfl) (by rw [hopc']; intro x hx; cases hx) ?_
      rw [hopc']
      show _ = (w.ctlOf w.tid).pc + 1 ∧ _ = ((w.ctlOf w.tid).pc, Ret.unit) :: (w.ctlOf w.tid).results ∧ _ = 0
      rw [r9'.1, r9'.2.1]
      exact ⟨rfl, rfl, r9'.2.2⟩
    · intro hne
      exact absurd (fin_zero4 hR hact hop) hne
    · refine RF.ofGroups' (x1 := none) (x2 := none) (x3 := none) (x4 := none) hact _
        (by show inflS w.prog { w.ctlOf w.tid with taken := _, stage := 2 } = _
            simp only [inflS, hopc'])
        (by show pendN w.prog { w.ctlOf w.tid with taken := _, stage := 2 } = _
            simp only [pendN, hopc'])
        (by show callOf w.prog { w.ctlOf w.tid with taken := _, stage := 2 } = _
            simp only [callOf, hopc'])
        (by show aw25 w.prog { w.ctlOf w.tid with taken := _, stage := 2 } = _
            simp only [aw25, hopc']) ?_ ?_ ?_ ?_
      · rw [hdf]; exact hGS
      · rw [hdf]; exact hGC
      · rw [hda]; exact hGA
      · exact hGW
  | false =>
    -- nothing was registered: the operation completes
    rw [hhad] at h4
    simp only [Bool.false_eq_true, if_false] at h4
    cases h4
    refine ⟨hk3.1.1.trans hk1.1.1, ⟨s', hex, ?_⟩,
      inRange_of (w := w) htid3 (Nat.le_of_eq (hk3.2.2.trans hk1.2.2).symm) (by
        rw [← hlen3]; exact hact)⟩
    have hv : view4 (w3.complete .unit) = { view4 w with
        ctl := w.ctl.modify w.tid (completeF .unit),
        futs := w.futs.modify f (fun s => { s with awWaker := false }) } := by
      rw [view4_complete, hv3', hctl3, htid3]
    unfold R4
    refine R4_step hR hact _ (fun h => { h with rets := (h.pc, Ret.unit) :: h.rets, pc := h.pc + 1 })
      _ (view4 w).objs hv hdt hdv rfl (Nat.le_succ _) ?_ ?_ id (fun _ _ _ h => h) ?_
    · refine hrel.of rfl rfl rfl rfl rfl rfl rfl (stageOk_zero _) (by intro x _ h1; cases h1) ?_
      show match aheadOf _ 0 with | none => _ | some r => _
      rw [aheadOf_zero]
      show _ = (w.ctlOf w.tid).pc + 1 ∧ _ = ((w.ctlOf w.tid).pc, Ret.unit) :: (w.ctlOf w.tid).results ∧ _ = phaseOf _ 0
      rw [r9'.1, r9'.2.1, phaseOf_zero]
      exact ⟨rfl, rfl, r9'.2.2⟩
    · intro hne
      exact absurd (fin_zero4 hR hact hop) hne
    · obtain ⟨e1, e2, e3, e4⟩ := fattr_stage0 w.prog (completeF .unit (w.ctlOf w.tid)) rfl
      refine RF.ofGroups' hact _ e1 e2 e3 e4 ?_ ?_ ?_ ?_
      · rw [hdf]; exact hGS
      · rw [hdf]; exact hGC
      · rw [hda]; exact hGA
      · exact hGW

/-- stage 2: the waker taken is dropped, the operation completes (the reference has recorded it at stage 1) -/
theorem sim_awTake2 (hR : R4 w s) (hact : w.tid < w.ctl.length) {f : Nat}
    (hop : opAt w = some (.awTake f)) (hst : (w.ctlOf w.tid).stage = 2)
    (h : w.stepActive = .ok w') : Sim4 w s w' := by
  rw [stepActive_op hop] at h
  rw [awTake_stage2 w _ f (Nat.le_of_eq hst.symm)] at h
  have hopc : opOfCtl w.prog (w.ctlOf w.tid) = some (.awTake f) := hop
  exact sim_dropComplete hR hact hop (by rw [hop, hst]; rfl)
    (by simp only [fattr, inflS, pendN, callOf, aw25, hopc, hst]) h

/-! ### `dropWaker f` -/

theorem sim_dropWaker0 (hR : R4 w s) (hact : w.tid < w.ctl.length) {f : Nat}
    (hop : opAt w = some (.dropWaker f)) (hst : (w.ctlOf w.tid).stage = 0)
    (h : w.stepActive = .ok w') : Sim4 w s w' := by
  rw [stepActive_op hop] at h
  simp only [World.runOp, hst] at h
  obtain ⟨m, h1, h2⟩ := Refine.bind_ok h
  clear h
  have hs := branch_sched h2
  refine ⟨hs.fr.1, ⟨s, .nil s, ?_⟩, hs.inRange⟩
  have hv : view4 w' = { view4 w with ctl := w.ctl.modify w.tid (fun c => { c with stage := 1 }) } := by
    rw [hs.view, view4_setStage]
  have hopc : opOfCtl w.prog (w.ctlOf w.tid) = some (.dropWaker f) := hop
  refine R4_quiet hR hact _ hv rfl rfl rfl rfl rfl rfl ?_ ?_ ?_ ?_ ?_
  · rw [hop]; rfl
  · rw [hop, hst]; rfl
  · rw [hop]; rfl
  · have hopc' : opOfCtl w.prog { w.ctlOf w.tid with stage := 1 } = some (.dropWaker f) := hop
    simp only [fattr, inflS, pendN, callOf, aw25, hopc, hopc', hst]
  · intro x hx; rw [hop] at hx; cases hx

/-- stage 1: the registered waker is taken under the mutex: THE REFERENCE STEP of `dropWaker` -/
theorem sim_dropWaker1 (hwf : WF4 w.prog) (hR : R4 w s) (hact : w.tid < w.ctl.length) {f : Nat}
    (hop : opAt w = some (.dropWaker f)) (hst : (w.ctlOf w.tid).stage = 1)
    (h : w.stepActive = .ok w') : Sim4 w s w' := by
  rw [stepActive_op hop] at h
  rw [dropWaker_stage1 w _ f hst] at h
  obtain ⟨⟨w1, okk⟩, h1, h2⟩ := Refine.bind_ok h
  clear h
  obtain ⟨hf, hfa⟩ := fut_lt hwf hop rfl
  have hno := noAw hwf hR hop rfl (by decide)
  -- the lock
  obtain ⟨l, hvo, hokk, hk1, _, hv1⟩ := postAcquire_view h1
  cases okk with
  | false => simp [bind, Except.bind, throw, throwThe, MonadExceptOf.throw] at h2
  | true =>
  simp only [Bool.not_true, Bool.false_eq_true, if_false, if_true, bind, Except.bind, pure, Except.pure] at h2
  have hl : l = none := by cases l <;> simp at hokk ⊢
  subst hl
  have hv1' := hv1 rfl
  -- the unlock
  obtain ⟨w3, h3, h4⟩ := Refine.bind_ok h2
  clear h2
  obtain ⟨l2, _, hk3, hv3⟩ := releaseLock_view h3
  have hctl1 : w1.ctl = w.ctl := hk1.1.2.1
  have htid1 : w1.tid = w.tid := hk1.2.1
  have hfuts1 : w1.futs = w.futs := hk1.1.2.2.2.1
  have haw1 : (w1.futs.getD f {}).slot = (w.futs.getD f {}).slot := by rw [hfuts1]
  rw [haw1] at h4
  have hv3' : view4 w3 = { view4 w with futs := w.futs.modify f (fun s => { s with slot := false }) } := by
    rw [hv3, view4_modFut, hv1']
    show ({ view4 w with futs := w1.futs.modify f _, objs := (((view4 w).objs.set _ _).set _ _) } : View) = _
    rw [lock_unlock_objs hvo, hfuts1]
  have hctl3 : w3.ctl = w.ctl := congrArg View.ctl hv3'
  have htid3 : w3.tid = w.tid := hk3.2.1.trans htid1
  have hlen3 : w.ctl.length = w.exec.threads.threads.length := hR.lenCtl
  have hopc : opOfCtl w.prog (w.ctlOf w.tid) = some (.dropWaker f) := hop
  have hrel := rel4 hR hact
  obtain ⟨_, _, hpl, hstd, hfinr⟩ := act4 hR hact
  have hsy := sync4 hR hact (by rw [hop, hst]; rfl)
  obtain ⟨hrun1, hrun2⟩ := running4 hR hact hop
  -- the reference step
  obtain ⟨s', hstep, hdata⟩ := sc_step_take (f := f) hpl (hsy.1.trans hop) (.inl rfl)
  have hen : SC.enabled w.prog s (w.ctlOf w.tid).body = true :=
    sc_enabled_op hR.verdict hpl hrun1 hrun2 (hsy.1.trans hop) (hwf.opOk hop) rfl
  have hex : SCExec2 w.prog s s' := exec_step hen hstep
  have hia : iaOf w.prog w.ctl w.tid = none := by
    show inflS w.prog (w.ctlOf w.tid) = none
    simp only [inflS, hopc, hst]
  have hGA := hR.f.a.same hia
  have hdf : (data4 s').futs = (data4 s).futs.modify f takeF := by rw [hdata]; rfl
  have hda : (data4 s').atoms = (data4 s).atoms := by rw [hdata]; rfl
  have hdt : (data4 s').ths = (data4 s).ths.modify (w.ctlOf w.tid).body
      (fun h => { h with rets := (h.pc, Ret.unit) :: h.rets, pc := h.pc + 1 }) := by rw [hdata]; rfl
  have hdv : (data4 s').verdict = none := by rw [hdata]; exact hR.verdict
  have huslot : ((data4 s).futs.getD f {}).slot = (w.futs.getD f {}).slot := by
    have := hR.f.s.slot f hf
    rw [show (view4 w).futs = w.futs from rfl, hno, Bool.or_false] at this
    exact this
  have r9 := hrel.2.2.2.2.2.2.2.2
  rw [hopc, hst] at r9
  have r9' : ((data4 s).ths.getD (w.ctlOf w.tid).body {}).pc = (w.ctlOf w.tid).pc ∧
      ((data4 s).ths.getD (w.ctlOf w.tid).body {}).rets = (w.ctlOf w.tid).results ∧
      ((data4 s).ths.getD (w.ctlOf w.tid).body {}).phase = 0 := r9
  have hGo : ∀ {P : Prop}, ({ w.futs.getD f {} with slot := false } : FutSt).awWaker = true → P := by
    intro P e
    have e' : (w.futs.getD f {}).awWaker = true := e
    rw [hno] at e'; cases e'
  have htk : ((takeF ((data4 s).futs.getD f {})).notified = ((data4 s).futs.getD f {}).notified ∧
      (takeF ((data4 s).futs.getD f {})).spurUsed = ((data4 s).futs.getD f {}).spurUsed ∧
      (takeF ((data4 s).futs.getD f {})).polled = ((data4 s).futs.getD f {}).polled) := by
    unfold takeF; split <;> exact ⟨rfl, rfl, rfl⟩
  -- the registration
  have hGS : GS w.prog (w.futs.modify f fun s => { s with slot := false }) (nvOf (view4 w).objs)
      ((data4 s).futs.modify f takeF) := by
    refine hR.f.s.step hf _ takeF ⟨rfl, rfl⟩ ?_ (fun e => by cases e) (fun e => hGo e) ?_
      (fun e => by cases e) (fun e => hGo e) (fun k nt ds hk => ⟨nt, ds, hk⟩)
    · show (takeF _).slot = (false || (w.futs.getD f {}).awWaker)
      rw [hno]
      unfold takeF
      split
      · rfl
      · next hs => simpa using hs
    · have := hR.f.s.genLe f hf
      unfold takeF
      split <;> exact this
  have hGC : GC w.prog w.ctl.length (upd (paOf w.prog w.ctl) w.tid none) (upd (caOf w.prog w.ctl) w.tid none)
      (w.futs.modify f fun s => { s with slot := false }) (nvOf (view4 w).objs)
      ((data4 s).futs.modify f takeF) := by
    refine (hR.f.c.futStep hf hR.f.s.lenF hR.f.s.lenDF _ takeF rfl htk (fun e => by cases e)
      (fun e => hGo e)).same ?_ ?_
    · show pendN w.prog (w.ctlOf w.tid) = none
      simp only [pendN, hopc, hst]
    · show callOf w.prog (w.ctlOf w.tid) = none
      simp only [callOf, hopc]
  have hGW := (hR.f.w.same (x := none) (by
    show aw25 w.prog (w.ctlOf w.tid) = none; simp only [aw25, hopc, hst])).futs
      (futs' := w.futs.modify f fun s => { s with slot := false })
  cases hhad : (w.futs.getD f {}).slot with
  | true =>
    -- a waker was registered: it is still to be dropped
    rw [hhad] at h4
    simp only [if_true] at h4
    have hs := branch_sched h4
    refine ⟨hs.fr.1.trans (hk3.1.1.trans hk1.1.1), ⟨s', hex, ?_⟩, hs.inRange⟩
    have hv : view4 w' = { view4 w with
        ctl := w.ctl.modify w.tid (fun c => { c with taken := (w.futs.getD f {}).arc, stage := 2 }),
        futs := w.futs.modify f (fun s => { s with slot := false }) } := by
      rw [hs.view, view4_setStage, view4_modCtl, hv3']
      show ({ view4 w with
        ctl := (w3.ctl.modify w3.tid _).modify w3.tid _, futs := _ } : View) = _
      rw [hctl3, htid3, modify_modify']
    have hopc' : opOfCtl w.prog { w.ctlOf w.tid with taken := (w.futs.getD f {}).arc, stage := 2 } = some (.dropWaker f) := hop
    unfold R4
    refine R4_step hR hact _ (fun h => { h with rets := (h.pc, Ret.unit) :: h.rets, pc := h.pc + 1 })
      _ (view4 w).objs hv hdt hdv rfl (Nat.le_refl _) ?_ ?_ id (fun _ _ _ h => h) ?_
    · refine hrel.of rfl rfl rfl rfl rfl rfl rfl (by rw [hopc']; rfl) (by rw [hopc']; intro x hx; cases hx) ?_
      rw [hopc']
      show _ = (w.ctlOf w.tid).pc + 1 ∧ _ = ((w.ctlOf w.tid).pc, Ret.unit) :: (w.ctlOf w.tid).results ∧ _ = 0
      rw [r9'.1, r9'.2.1]
      exact ⟨rfl, rfl, r9'.2.2⟩
    · intro hne
      exact absurd (fin_zero4 hR hact hop) hne
    · refine RF.ofGroups' (x1 := none) (x2 := none) (x3 := none) (x4 := none) hact _
        (by show inflS w.prog { w.ctlOf w.tid with taken := _, stage := 2 } = _
            simp only [inflS, hopc'])
        (by show pendN w.prog { w.ctlOf w.tid with taken := _, stage := 2 } = _
            simp only [pendN, hopc'])
        (by show callOf w.prog { w.ctlOf w.tid with taken := _, stage := 2 } = _
            simp only [callOf, hopc'])
        (by show aw25 w.prog { w.ctlOf w.tid with taken := _, stage := 2 } = _
            simp only [aw25, hopc']) ?_ ?_ ?_ ?_
      · rw [hdf]; exact hGS
      · rw [hdf]; exact hGC
      · rw [hda]; exact hGA
      · exact hGW
  | false =>
    -- nothing was registered: the operation completes
    rw [hhad] at h4
    simp only [Bool.false_eq_true, if_false] at h4
    cases h4
    refine ⟨hk3.1.1.trans hk1.1.1, ⟨s', hex, ?_⟩,
      inRange_of (w := w) htid3 (Nat.le_of_eq (hk3.2.2.trans hk1.2.2).symm) (by
        rw [← hlen3]; exact hact)⟩
    have hv : view4 (w3.complete .unit) = { view4 w with
        ctl := w.ctl.modify w.tid (completeF .unit),
        futs := w.futs.modify f (fun s => { s with slot := false }) } := by
      rw [view4_complete, hv3', hctl3, htid3]
    unfold R4
    refine R4_step hR hact _ (fun h => { h with rets := (h.pc, Ret.unit) :: h.rets, pc := h.pc + 1 })
      _ (view4 w).objs hv hdt hdv rfl (Nat.le_succ _) ?_ ?_ id (fun _ _ _ h => h) ?_
    · refine hrel.of rfl rfl rfl rfl rfl rfl rfl (stageOk_zero _) (by intro x _ h1; cases h1) ?_
      show match aheadOf _ 0 with | none => _ | some r => _
      rw [aheadOf_zero]
      show _ = (w.ctlOf w.tid).pc + 1 ∧ _ = ((w.ctlOf w.tid).pc, Ret.unit) :: (w.ctlOf w.tid).results ∧ _ = phaseOf _ 0
      rw [r9'.1, r9'.2.1, phaseOf_zero]
      exact ⟨rfl, rfl, r9'.2.2⟩
    · intro hne
      exact absurd (fin_zero4 hR hact hop) hne
    · obtain ⟨e1, e2, e3, e4⟩ := fattr_stage0 w.prog (completeF .unit (w.ctlOf w.tid)) rfl
      refine RF.ofGroups' hact _ e1 e2 e3 e4 ?_ ?_ ?_ ?_
      · rw [hdf]; exact hGS
      · rw [hdf]; exact hGC
      · rw [hda]; exact hGA
      · exact hGW

/-- stage 2: the waker taken is dropped, the operation completes (the reference has recorded it at stage 1) -/
theorem sim_dropWaker2 (hR : R4 w s) (hact : w.tid < w.ctl.length) {f : Nat}
    (hop : opAt w = some (.dropWaker f)) (hst : (w.ctlOf w.tid).stage = 2)
    (h : w.stepActive = .ok w') : Sim4 w s w' := by
  rw [stepActive_op hop] at h
  simp only [World.runOp, hst] at h
  have hopc : opOfCtl w.prog (w.ctlOf w.tid) = some (.dropWaker f) := hop
  exact sim_dropComplete hR hact hop (by rw [hop, hst]; rfl)
    (by simp only [fattr, inflS, pendN, callOf, aw25, hopc, hst]) h

end

end Refine4
end LoomVerif

/-
Soundness of the vector clocks of the reference semantics, part 3: elementary facts about the declarative
happens-before relation `HBA` of a list of events: edges go forward, `HBA` of a prefix is `HBA` of the whole list
restricted to the prefix, `VisA` is monotone.
-/
import LoomVerif.Proofs.VCSoundDefs

namespace LoomVerif
namespace VCSound

theorem EdgeG.lt {x : Bool} {evs : List Event} {j i : Nat} (h : EdgeG x evs j i) : j < i := h.1

theorem EdgeG.lt_length {x : Bool} {evs : List Event} {j i : Nat} (h : EdgeG x evs j i) : i < evs.length := by
  rcases h.2 with ⟨a, b, _, hb, _⟩ | ⟨q, a, b, _, hb, _⟩
  · exact (List.getElem?_eq_some_iff.1 hb).1
  · exact (List.getElem?_eq_some_iff.1 hb).1

theorem EdgeA.lt {evs : List Event} {j i : Nat} (h : EdgeA evs j i) : j < i := h.1

theorem EdgeA.lt_length {evs : List Event} {j i : Nat} (h : EdgeA evs j i) : i < evs.length := EdgeG.lt_length h

theorem HBA.lt {evs : List Event} {j i : Nat} (h : HBA evs j i) : j < i := by
  induction h with
  | single e => exact e.lt
  | tail _ e ih => exact Nat.lt_trans ih e.lt

theorem HBA.lt_length {evs : List Event} {j i : Nat} (h : HBA evs j i) : i < evs.length := by
  cases h with
  | single e => exact e.lt_length
  | tail _ e => exact e.lt_length

theorem HBA.trans {evs : List Event} {j i k : Nat} (h1 : HBA evs j i) (h2 : HBA evs i k) : HBA evs j k :=
  Relation.TransGen.trans h1 h2

theorem HBA.irrefl {evs : List Event} {i : Nat} : ¬ HBA evs i i := fun h => Nat.lt_irrefl _ h.lt

theorem HBAeq.trans_edge {evs : List Event} {j i k : Nat} (h1 : HBAeq evs j i) (h2 : EdgeA evs i k) : HBA evs j k := by
  rcases h1 with rfl | h1
  · exact .single h2
  · exact .tail h1 h2

theorem HBAeq.trans_hb {evs : List Event} {j i k : Nat} (h1 : HBAeq evs j i) (h2 : HBA evs i k) : HBA evs j k := by
  rcases h1 with rfl | h1
  · exact h2
  · exact h1.trans h2

theorem HBAeq.trans {evs : List Event} {j i k : Nat} (h1 : HBAeq evs j i) (h2 : HBAeq evs i k) : HBAeq evs j k := by
  rcases h2 with rfl | h2
  · exact h1
  · exact .inr (h1.trans_hb h2)

theorem HBAeq.le {evs : List Event} {j i : Nat} (h : HBAeq evs j i) : j ≤ i := by
  rcases h with rfl | h
  · exact Nat.le_refl _
  · exact Nat.le_of_lt h.lt

theorem chanSync_append {x : Bool} {evs ext : List Event} {j i : Nat} (hji : j < i) (hi : i < evs.length) :
    ChanSync x (evs ++ ext) j i ↔ ChanSync x evs j i := by
  unfold ChanSync
  rw [List.getElem?_append_left (by omega : j < evs.length), List.getElem?_append_left hi,
    List.take_append_of_le_length (by omega : j ≤ evs.length), List.take_append_of_le_length (by omega : i ≤ evs.length)]

/-- the edges between events of a prefix do not depend on what follows -/
theorem edgeG_append {x : Bool} {evs ext : List Event} {j i : Nat} (hi : i < evs.length) :
    EdgeG x (evs ++ ext) j i ↔ EdgeG x evs j i := by
  unfold EdgeG
  constructor
  · rintro ⟨hlt, h⟩
    refine ⟨hlt, ?_⟩
    rcases h with ⟨a, b, ha, hb, hs⟩ | h
    · rw [List.getElem?_append_left (by omega)] at ha
      rw [List.getElem?_append_left hi] at hb
      exact .inl ⟨a, b, ha, hb, hs⟩
    · exact .inr ((chanSync_append hlt hi).1 h)
  · rintro ⟨hlt, h⟩
    refine ⟨hlt, ?_⟩
    rcases h with ⟨a, b, ha, hb, hs⟩ | h
    · refine .inl ⟨a, b, ?_, ?_, hs⟩
      · rw [List.getElem?_append_left (by omega)]; exact ha
      · rw [List.getElem?_append_left hi]; exact hb
    · exact .inr ((chanSync_append hlt hi).2 h)

theorem edgeA_append {evs ext : List Event} {j i : Nat} (hi : i < evs.length) :
    EdgeA (evs ++ ext) j i ↔ EdgeA evs j i := edgeG_append hi

theorem EdgeA.append {evs : List Event} (ext : List Event) {j i : Nat} (h : EdgeA evs j i) : EdgeA (evs ++ ext) j i :=
  (edgeA_append h.lt_length).2 h

theorem HBA.append {evs : List Event} (ext : List Event) {j i : Nat} (h : HBA evs j i) : HBA (evs ++ ext) j i := by
  induction h with
  | single e => exact .single (e.append ext)
  | tail _ e ih => exact .tail ih (e.append ext)

/-- **happens-before of a prefix**: a chain of edges that ends inside a prefix stays inside it (edges go forward) -/
theorem hba_append {evs ext : List Event} {j i : Nat} (hi : i < evs.length) :
    HBA (evs ++ ext) j i ↔ HBA evs j i := by
  constructor
  · intro h
    induction h with
    | single e => exact .single ((edgeA_append hi).1 e)
    | tail _ e ih =>
      have e' := (edgeA_append hi).1 e
      exact .tail (ih (Nat.lt_trans e'.lt hi)) e'
  · exact HBA.append ext

theorem HBAeq.append {evs : List Event} (ext : List Event) {j i : Nat} (h : HBAeq evs j i) : HBAeq (evs ++ ext) j i :=
  h.imp id (HBA.append ext)

theorem hba_take {evs : List Event} {j i n : Nat} (hi : i < n) : HBA (evs.take n) j i ↔ HBA evs j i := by
  by_cases hn : n ≤ evs.length
  · have hl : i < (evs.take n).length := by rw [List.length_take]; omega
    have := hba_append (evs := evs.take n) (ext := evs.drop n) (j := j) hl
    rw [List.take_append_drop] at this
    exact this.symm
  · rw [List.take_of_length_le (by omega)]

theorem VisA.append {evs : List Event} (ext : List Event) {j t : Nat} (h : VisA evs j t) : VisA (evs ++ ext) j t := by
  obtain ⟨i, e, hi, ht, hb⟩ := h
  refine ⟨i, e, ?_, ht, hb.append ext⟩
  rw [List.getElem?_append_left (List.getElem?_eq_some_iff.1 hi).1]
  exact hi

end VCSound
end LoomVerif

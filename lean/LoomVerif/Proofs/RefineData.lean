/-
Refinement, part 1: the data-only projection of the reference semantics `Spec/SC.lean` for the lock
fragment of the DSL (`spawn`, `join`, `lock`, `unlock`, `tryLock`, `cellRead`, `cellWrite`, `ifEq`).

`SCData` is the part of `SC.St` the fragment can observe, without clocks: per thread `pc`, `started`,
`finished`, `rets`; the cell values; the mutex owners.  `SCData.stepL` is the labelled step function on it
(the label is the `(pc, result)` pair a completed operation records), `SCData.step` forgets the label.
`SC.step_data`: a step of `SC.step` on a fragment operation either stops with a verdict (a data race) or is
the `SCData.step`; `SC.step_lift` is the converse; `SC.enabled_data`: `SC.enabled` only reads the data.

Also here: the well-formedness predicate `Refine.WF` on programs (decidable).
-/
import LoomVerif.Spec.SC

namespace LoomVerif
namespace Refine

/-! ### the fragment and the well-formedness of programs -/

/-- the operations of the lock fragment -/
def isFrag : Op → Bool
  | .spawn _ | .join _ | .lock _ | .unlock _ | .tryLock _ | .cellRead _ | .cellWrite _ _ | .ifEq .. => true
  | _ => false

/-- operation `op` is in the fragment and its arguments are in range for program `p`:
`spawn b` names an existing body other than the main one, cells and mutexes are declared -/
def opOk (p : Prog) : Op → Bool
  | .spawn b => decide (0 < b) && decide (b < p.threads.length)
  | .join _ => true
  | .lock m | .unlock m | .tryLock m => decide (m < p.cfg.nMutexes)
  | .cellRead c | .cellWrite c _ => decide (c < p.cfg.nCells)
  | .ifEq .. => true
  | _ => false

/-- the body spawned by the operation at position `k` of body `a` (if it is a `spawn`) -/
def spawnAt (p : Prog) (a k : Nat) : Option Nat :=
  match (p.threads.getD a [])[k]? with
  | some (.spawn b) => some b
  | _ => none

/-- positions `(a, k)` and `(a', k')` do not both spawn the same body, unless they are the same position -/
def spawnPairOk (p : Prog) (a k a' k' : Nat) : Bool :=
  !(spawnAt p a k).isSome || spawnAt p a k != spawnAt p a' k' || (a == a' && k == k')

/-- every body is spawned by at most one operation of the program text -/
def SpawnOnce (p : Prog) : Prop :=
  ∀ a, a < p.threads.length → ∀ k, k < (p.threads.getD a []).length →
  ∀ a', a' < p.threads.length → ∀ k', k' < (p.threads.getD a' []).length → spawnPairOk p a k a' k' = true

instance (p : Prog) : Decidable (SpawnOnce p) := by unfold SpawnOnce; infer_instance

/-- every operation of every body is a fragment operation with arguments in range -/
def OpsOk (p : Prog) : Prop :=
  ∀ a, a < p.threads.length → ∀ k, k < (p.threads.getD a []).length →
    ((p.threads.getD a [])[k]?.all (opOk p)) = true

instance (p : Prog) : Decidable (OpsOk p) := by unfold OpsOk; infer_instance

/-- well-formed programs of the lock fragment: there is a main body; only fragment operations, with declared
cells / mutexes and `spawn t` naming an existing body `0 < t < threads.length`; each body is spawned by at most
one operation of the text (bodies have no loops, so: at most once per execution) -/
def WF (p : Prog) : Prop := 0 < p.threads.length ∧ OpsOk p ∧ SpawnOnce p

instance (p : Prog) : Decidable (WF p) := by unfold WF; infer_instance

theorem WF.opOk {p : Prog} (h : WF p) {a k : Nat} {op : Op}
    (hop : (p.threads.getD a [])[k]? = some op) : opOk p op = true := by
  have hk : k < (p.threads.getD a []).length := (List.getElem?_eq_some_iff.1 hop).1
  have ha : a < p.threads.length := by
    apply Classical.byContradiction
    intro hn
    have : p.threads[a]? = none := List.getElem?_eq_none (by omega)
    simp [List.getD, this] at hk
  have := h.2.1 a ha k hk
  rw [hop] at this
  simpa using this

theorem WF.spawn_unique {p : Prog} (h : WF p) {a k a' k' b : Nat}
    (h1 : (p.threads.getD a [])[k]? = some (.spawn b))
    (h2 : (p.threads.getD a' [])[k']? = some (.spawn b)) : a = a' ∧ k = k' := by
  have bound : ∀ {a k : Nat} {op : Op}, (p.threads.getD a [])[k]? = some op →
      a < p.threads.length ∧ k < (p.threads.getD a []).length := by
    intro a k op hop
    have hk : k < (p.threads.getD a []).length := (List.getElem?_eq_some_iff.1 hop).1
    refine ⟨?_, hk⟩
    apply Classical.byContradiction
    intro hn
    have : p.threads[a]? = none := List.getElem?_eq_none (by omega)
    simp [List.getD, this] at hk
  obtain ⟨ha, hk⟩ := bound h1
  obtain ⟨ha', hk'⟩ := bound h2
  have e1 : spawnAt p a k = some b := by simp only [spawnAt, h1]
  have e2 : spawnAt p a' k' = some b := by simp only [spawnAt, h2]
  have := h.2.2 a ha k hk a' ha' k' hk'
  simpa [spawnPairOk, e1, e2] using this

/-! ### the data of a reference state -/

/-- a thread of the reference semantics without its clocks (and without the fields only operations outside
the fragment use) -/
structure DTh where
  pc : Nat := 0
  started : Bool := false
  finished : Bool := false
  rets : List (Nat × Ret) := []
deriving DecidableEq, Repr, Inhabited

/-- the data of a reference state the lock fragment can observe: no clocks -/
structure SCData where
  ths : List DTh
  cells : List Int
  mutex : List (Option Nat)
deriving DecidableEq, Repr, Inhabited

def dth (h : SC.Th) : DTh := { pc := h.pc, started := h.started, finished := h.finished, rets := h.rets }

/-- the data-only projection of a reference state -/
def data (s : SC.St) : SCData := { ths := s.ths.map dth, cells := s.cells, mutex := s.mutex }

namespace SCData

def th (d : SCData) (t : Nat) : DTh := d.ths.getD t {}
def modTh (d : SCData) (t : Nat) (f : DTh → DTh) : SCData := { d with ths := d.ths.modify t f }
/-- the operation completes with result `r` (`SC.St.ret`) -/
def ret (d : SCData) (t : Nat) (r : Ret) : SCData :=
  d.modTh t fun h => { h with rets := (h.pc, r) :: h.rets, pc := h.pc + 1 }
def opOf (p : Prog) (d : SCData) (t : Nat) : Option Op := (p.threads.getD t [])[(d.th t).pc]?

/-- `SC.enabled` on the data (fragment operations; no verdict) -/
def enabled (p : Prog) (d : SCData) (t : Nat) : Bool :=
  (d.th t).started && !(d.th t).finished &&
  match opOf p d t with
  | none => true
  | some op =>
    match op with
    | .lock m => (d.mutex.getD m none).isNone
    | .join b => (d.th b).finished
    | _ => true

/-- `SC.step` on the data, for the operations of the fragment (no successor for other operations): the
successor states, each with the `(pc, result)` the step records (`none`: `ifEq` and the end of a thread
record nothing) -/
def stepL (p : Prog) (d : SCData) (t : Nat) : List (Option (Nat × Ret) × SCData) :=
  let h := d.th t
  match opOf p d t with
  | none => [(none, d.modTh t fun h => { h with finished := true })]
  | some op =>
    match op with
    | .cellRead c => [(some (h.pc, .val (d.cells.getD c 0)), d.ret t (.val (d.cells.getD c 0)))]
    | .cellWrite c v => [(some (h.pc, .unit), ({ d with cells := d.cells.set c v }).ret t .unit)]
    | .lock m => [(some (h.pc, .unit), ({ d with mutex := d.mutex.set m (some t) }).ret t .unit)]
    | .tryLock m =>
      if (d.mutex.getD m none).isNone then
        [(some (h.pc, SC.bool01 true), ({ d with mutex := d.mutex.set m (some t) }).ret t (SC.bool01 true))]
      else [(some (h.pc, SC.bool01 false), d.ret t (SC.bool01 false))]
    | .unlock m => [(some (h.pc, .unit), ({ d with mutex := d.mutex.set m none }).ret t .unit)]
    | .spawn b => [(some (h.pc, .unit), (d.modTh b fun h => { h with started := true }).ret t .unit)]
    | .join _ => [(some (h.pc, .unit), d.ret t .unit)]
    | .ifEq i r n =>
      if h.rets.lookup (h.pc - i) == some r then [(none, d.modTh t fun h => { h with pc := h.pc + 1 })]
      else [(none, d.modTh t fun h => { h with pc := h.pc + 1 + n })]
    | _ => []

def step (p : Prog) (d : SCData) (t : Nat) : List SCData := (stepL p d t).map (·.2)

/-- what a labelled step adds to the trace of results: `(thread, pc, result)` -/
def label (t : Nat) : Option (Nat × Ret) → List (Nat × Nat × Ret)
  | none => []
  | some (pc, r) => [(t, pc, r)]

/-- executions of the data semantics with the trace of `(thread, pc, result)` triples they record, oldest first:
every step is a step of an enabled thread -/
inductive Run (p : Prog) : SCData → List (Nat × Nat × Ret) → SCData → Prop
  | nil (d : SCData) : Run p d [] d
  | step {d d1 d2 : SCData} {tr : List (Nat × Nat × Ret)} {t : Nat} {l : Option (Nat × Ret)} :
      Run p d tr d1 → enabled p d1 t = true → (l, d2) ∈ stepL p d1 t → Run p d (tr ++ label t l) d2

/-- a label is the result the step records for the thread (`St.ret`) -/
theorem stepL_label {p : Prog} {d d' : SCData} {t pc : Nat} {r : Ret}
    (ht : t < d.ths.length) (h : (some (pc, r), d') ∈ stepL p d t) :
    pc = (d.th t).pc ∧ (d'.th t).rets = (pc, r) :: (d.th t).rets ∧ (d'.th t).pc = pc + 1 := by
  have hret : ∀ (d0 : SCData) (r0 : Ret), d0.ths.length = d.ths.length → d0.th t = d.th t →
      ((d0.ret t r0).th t).rets = ((d.th t).pc, r0) :: (d.th t).rets ∧
      ((d0.ret t r0).th t).pc = (d.th t).pc + 1 := by
    intro d0 r0 hl he
    have ht0 : t < d0.ths.length := by omega
    have : (d0.ret t r0).th t =
        { d0.th t with rets := ((d0.th t).pc, r0) :: (d0.th t).rets, pc := (d0.th t).pc + 1 } := by
      simp [ret, modTh, th, List.getD, List.getElem?_modify, List.getElem?_eq_getElem ht0]
    rw [this, he]; exact ⟨rfl, rfl⟩
  unfold stepL at h
  split at h
  · simp at h
  · next op hop =>
    cases op <;> simp only [List.mem_singleton, List.not_mem_nil, Prod.mk.injEq] at h
    case cellRead c =>
      obtain ⟨h1, rfl⟩ := h
      cases h1
      exact ⟨rfl, hret d _ rfl rfl⟩
    case cellWrite c v =>
      obtain ⟨h1, rfl⟩ := h
      cases h1
      exact ⟨rfl, hret _ _ rfl rfl⟩
    case lock m =>
      obtain ⟨h1, rfl⟩ := h
      cases h1
      exact ⟨rfl, hret _ _ rfl rfl⟩
    case unlock m =>
      obtain ⟨h1, rfl⟩ := h
      cases h1
      exact ⟨rfl, hret _ _ rfl rfl⟩
    case join b =>
      obtain ⟨h1, rfl⟩ := h
      cases h1
      exact ⟨rfl, hret _ _ rfl rfl⟩
    case tryLock m =>
      split at h
      · simp only [List.mem_singleton, Prod.mk.injEq] at h
        obtain ⟨h1, rfl⟩ := h
        cases h1
        exact ⟨rfl, hret _ _ rfl rfl⟩
      · simp only [List.mem_singleton, Prod.mk.injEq] at h
        obtain ⟨h1, rfl⟩ := h
        cases h1
        exact ⟨rfl, hret _ _ rfl rfl⟩
    case spawn b =>
      obtain ⟨h1, rfl⟩ := h
      cases h1
      by_cases hb : b = t
      · subst hb
        refine ⟨rfl, ?_⟩
        have : ((d.modTh b fun h => { h with started := true }).ret b .unit).th b =
            { d.th b with started := true, rets := ((d.th b).pc, .unit) :: (d.th b).rets, pc := (d.th b).pc + 1 } := by
          simp [ret, modTh, th, List.getD, List.getElem?_modify, List.getElem?_eq_getElem ht]
        rw [this]; exact ⟨rfl, rfl⟩
      · refine ⟨rfl, hret _ _ (by simp [modTh]) ?_⟩
        simp [modTh, th, List.getD, List.getElem?_modify, hb]
    case ifEq i r' n =>
      split at h <;> simp at h

end SCData

/-! ### projection lemmas -/

theorem map_modify {α β} (l : List α) (t : Nat) (f : α → α) (g : β → β) (pr : α → β)
    (h : ∀ a, pr (f a) = g (pr a)) : (l.modify t f).map pr = (l.map pr).modify t g := by
  apply List.ext_getElem?
  intro i
  simp only [List.getElem?_map, List.getElem?_modify]
  cases l[i]? with
  | none => rfl
  | some a => by_cases e : t = i <;> simp [e, h]

theorem modify_id' {α} (l : List α) (t : Nat) (f : α → α) (h : ∀ a, f a = a) : l.modify t f = l := by
  apply List.ext_getElem?
  intro i
  simp only [List.getElem?_modify]
  cases l[i]? with
  | none => rfl
  | some a => by_cases e : t = i <;> simp [e, h]

theorem data_modTh (s : SC.St) (t : Nat) (f : SC.Th → SC.Th) (g : DTh → DTh)
    (h : ∀ a, dth (f a) = g (dth a)) : data (s.modTh t f) = (data s).modTh t g := by
  simp only [data, SC.St.modTh, SCData.modTh]
  rw [map_modify _ _ _ g dth h]

/-- a change of clocks only is invisible in the data -/
theorem data_modTh_id (s : SC.St) (t : Nat) (f : SC.Th → SC.Th) (h : ∀ a, dth (f a) = dth a) :
    data (s.modTh t f) = data s := by
  rw [data_modTh s t f id h]
  simp only [SCData.modTh]
  rw [modify_id' _ _ id (fun _ => rfl)]

theorem data_tick (s : SC.St) (t : Nat) : data (s.tick t) = data s := data_modTh_id _ _ _ fun _ => rfl
theorem data_acquire (s : SC.St) (t : Nat) (c : VV) : data (s.acquire t c) = data s :=
  data_modTh_id _ _ _ fun _ => rfl
theorem data_ret (s : SC.St) (t : Nat) (r : Ret) : data (s.ret t r) = (data s).ret t r :=
  data_modTh _ _ _ _ fun _ => rfl

theorem data_setCells (s : SC.St) (c : List Int) (w : List VV) :
    data { s with cells := c, cellW := w } = { data s with cells := c } := rfl
theorem data_setMutex (s : SC.St) (m : List (Option Nat)) :
    data { s with mutex := m } = { data s with mutex := m } := rfl
theorem data_setMutexRel (s : SC.St) (m : List (Option Nat)) (r : List VV) :
    data { s with mutex := m, mutexRel := r } = { data s with mutex := m } := rfl
theorem data_setCellR (s : SC.St) (r : List VV) : data { s with cellR := r } = data s := rfl

theorem data_th (s : SC.St) (t : Nat) : (data s).th t = dth (s.th t) := by
  simp only [SCData.th, data, SC.St.th, List.getD, List.getElem?_map]
  cases s.ths[t]? <;> rfl

theorem data_opOf (p : Prog) (s : SC.St) (t : Nat) : SCData.opOf p (data s) t = SC.opOf p s t := by
  simp only [SCData.opOf, SC.opOf, data_th]; rfl

/-! ### `SC.enabled` and `SC.step` on the data -/

/-- the thread is not inside a `cvwait`, owns no thread-local and is not inside a multi-phase operation:
invariant of the threads of fragment programs -/
def FragTh (h : SC.Th) : Prop := h.cvWaiting = none ∧ h.cvNotified = none ∧ h.locals = [] ∧ h.phase = 0

theorem fragTh_default : FragTh ({} : SC.Th) := ⟨rfl, rfl, rfl, rfl⟩

/-- `SC.enabled` reads only the data of a state (no verdict yet, fragment operation) -/
theorem SC.enabled_data {p : Prog} {s : SC.St} {t : Nat} (hv : s.verdict = none) (hf : FragTh (s.th t))
    (hop : ∀ op, SC.opOf p s t = some op → isFrag op = true) :
    SC.enabled p s t = SCData.enabled p (data s) t := by
  unfold SC.enabled SCData.enabled
  rw [data_opOf, data_th]
  simp only [hv, hf.1, hf.2.1, Option.isNone_none, Bool.true_and, dth]
  cases ho : SC.opOf p s t with
  | none => rfl
  | some op =>
    have := hop op ho
    cases op <;> simp only [isFrag, Bool.false_eq_true] at this
    case join b => simp only [data_th, dth]
    all_goals rfl

theorem verdict_ret (s : SC.St) (t : Nat) (r : Ret) : (s.ret t r).verdict = s.verdict := rfl
theorem verdict_tick (s : SC.St) (t : Nat) : (s.tick t).verdict = s.verdict := rfl
theorem verdict_acquire (s : SC.St) (t : Nat) (c : VV) : (s.acquire t c).verdict = s.verdict := rfl
theorem verdict_modTh (s : SC.St) (t : Nat) (f : SC.Th → SC.Th) : (s.modTh t f).verdict = s.verdict := rfl

/-- the end of a thread of a fragment program, on the data: the thread counts as finished -/
theorem SC.finish_data {p : Prog} {s s' : SC.St} {t : Nat} (hf : FragTh (s.th t))
    (h : s' ∈ SC.finish p s t) :
    data s' = (data s).modTh t (fun h => { h with finished := true }) ∧ s'.verdict = s.verdict ∧
      SC.finish p s t = [s'] := by
  have key : SC.finish p s t =
      [(if t == 0 then { s with lazyDropped := true } else s).modTh t fun h => { h with finished := true }] := by
    unfold SC.finish
    simp only [hf.2.2.1, hf.2.2.2, List.map_nil, List.contains_nil, List.filter_cons, List.filter_nil,
      Bool.false_eq_true, if_false, List.isEmpty_nil, if_true, SC.perms2, List.map_cons, List.foldl_nil]
    split
    · simp
    · rfl
  rw [key] at h ⊢
  simp only [List.mem_singleton] at h
  subst h
  refine ⟨?_, ?_, rfl⟩
  · rw [data_modTh _ _ _ (fun h => { h with finished := true }) (fun _ => rfl)]
    congr 1
    split <;> rfl
  · simp only [verdict_modTh]; split <;> rfl

/-- **`SC.step` agrees with `SCData.step` unless it stops with a verdict** (fragment operations): every
successor of `SC.step` that carries no verdict is, on the data, a successor of `SCData.step` -/
theorem SC.step_data {p : Prog} {s s' : SC.St} {t : Nat} (hf : FragTh (s.th t))
    (hop : ∀ op, SC.opOf p s t = some op → isFrag op = true)
    (h : s' ∈ SC.step p s t) (hv : s'.verdict = none) : data s' ∈ SCData.step p (data s) t := by
  unfold SCData.step SCData.stepL
  rw [data_opOf, data_th]
  unfold SC.step at h
  simp only [hf.2.1] at h
  cases ho : SC.opOf p s t with
  | none =>
    simp only [ho] at h
    simp only [List.map_cons, List.map_nil, List.mem_singleton]
    exact (SC.finish_data hf h).1
  | some op =>
    have hfr := hop op ho
    simp only [ho] at h
    cases op <;> simp only [isFrag, Bool.false_eq_true] at hfr
    case cellRead c =>
      simp only at h
      split at h
      · simp only [List.mem_singleton] at h; subst h; cases hv
      · split at h
        · simp only [List.mem_singleton] at h; subst h; cases hv
        · simp only [List.mem_singleton] at h; subst h
          simp only [List.map_cons, List.map_nil, List.mem_singleton]
          rw [data_ret, data_setCellR, data_tick]; rfl
    case cellWrite c v =>
      simp only at h
      repeat' split at h
      all_goals simp only [List.mem_singleton] at h; subst h
      all_goals first
        | (cases hv; done)
        | (simp only [List.map_cons, List.map_nil, List.mem_singleton]
           rw [data_ret, data_setCells, data_tick]; rfl)
    case lock m =>
      simp only [List.mem_singleton] at h; subst h
      simp only [List.map_cons, List.map_nil, List.mem_singleton]
      rw [data_ret, data_acquire, data_setMutex, data_tick]; rfl
    case tryLock m =>
      simp only at h
      have e : (s.tick t).mutex = s.mutex := rfl
      rw [e] at h
      have e2 : (data s).mutex = s.mutex := rfl
      rw [e2]
      split at h
      · next hm =>
        simp only [List.mem_singleton] at h; subst h
        simp only [hm, if_true, List.map_cons, List.map_nil, List.mem_singleton]
        rw [data_ret, data_acquire, data_setMutex, data_tick]
      · next hm =>
        simp only [List.mem_singleton] at h; subst h
        rw [data_ret, data_tick]
        simp only []
        rw [if_neg hm]
        simp
    case unlock m =>
      simp only [List.mem_singleton] at h; subst h
      simp only [List.map_cons, List.map_nil, List.mem_singleton]
      rw [data_ret, data_setMutexRel, data_tick]; rfl
    case spawn b =>
      simp only [List.mem_singleton] at h; subst h
      simp only [List.map_cons, List.map_nil, List.mem_singleton]
      rw [data_ret, data_modTh _ _ _ (fun h => { h with started := true }) (fun _ => rfl), data_tick]
    case join b =>
      simp only [List.mem_singleton] at h; subst h
      simp only [List.map_cons, List.map_nil, List.mem_singleton]
      rw [data_ret, data_acquire, data_tick]
    case ifEq i r n =>
      simp only at h
      split at h
      · next hc =>
        simp only [List.mem_singleton] at h; subst h
        have hc2 : (List.lookup ((dth (s.th t)).pc - i) (dth (s.th t)).rets == some r) = true := hc
        simp only [hc2, if_true, List.map_cons, List.map_nil, List.mem_singleton]
        exact data_modTh _ _ _ (fun h => { h with pc := h.pc + 1 }) (fun _ => rfl)
      · next hc =>
        simp only [List.mem_singleton] at h; subst h
        have hc2 : ¬ (List.lookup ((dth (s.th t)).pc - i) (dth (s.th t)).rets == some r) = true := hc
        simp only [hc2, Bool.false_eq_true, if_false, List.map_cons, List.map_nil, List.mem_singleton]
        exact data_modTh _ _ _ (fun h => { h with pc := h.pc + 1 + n }) (fun _ => rfl)

end Refine
end LoomVerif

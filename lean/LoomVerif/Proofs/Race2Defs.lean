/-
Race exactness on the WAIT fragment, part 2: definitions.

* the slots of the clock systems (`nI`, `cI`, `kI`: the `Notify` objects, the channels, the `park` tokens; a mutex
  `m` is slot `m`);
* what the invariants read of a world of the twin beyond `Proofs/RaceTwin.lean`: `unparkCaus`, the `park` token,
  `senderSync` / `receiverSync` of a channel;
* `pendClk`: the clock a thread that is in the middle of a waiting operation may already have acquired, ahead of
  the reference step that will acquire it (`Thread::unpark`, `Set::wake` of the condvar let the woken thread join
  the waker's causality at once; `Notify::notify` no longer does — repair of finding F26 —, so that for `nWait` and
  `join` the lower bound is in fact attained; the sandwich is kept as it is, it is still an invariant);
* the twin-side invariant `TwinInv2`, the links `LinkT2` / `LinkR2`, the relation `RC2`.

The run-level condition is `Refine2.okRun` alone: the additional condition `staleOk` of the unrepaired model (finding
F26: `Notify::notify` handed the notifier's causality to another pending notifier) is gone with the repair.
-/
import LoomVerif.Proofs.Race2Clocks
import LoomVerif.Proofs.RaceStep
import LoomVerif.Proofs.Refine2Final
import LoomVerif.Proofs.Refine2Run
import LoomVerif.Proofs.Refine2Lift2

namespace LoomVerif
namespace Race2
open Refine Refine2 Clocks Race

/-! ### slots -/

/-- the slot of `Notify` `n` -/
def nI (p : Prog) (n : Nat) : Nat := p.cfg.nMutexes + n
/-- the slot of channel `q` -/
def cI (p : Prog) (q : Nat) : Nat := p.cfg.nMutexes + p.cfg.nNotifies + q
/-- the slot of the `park` token of body `b` -/
def kI (p : Prog) (b : Nat) : Nat := p.cfg.nMutexes + p.cfg.nNotifies + p.cfg.nChans + b

/-! ### reading the twin -/

def tuc (w : World) (i : Nat) : VV := (w.ths.get i).unparkCaus
def ttok (w : World) (i : Nat) : Bool := (w.ths.get i).token

/-- `senderSync` of a channel -/
def ssOf : Obj → VV
  | .chan s => s.senderSync.hb
  | _ => VV.zero

/-- the clocks of the messages in flight (`receiverSync`) -/
def rsOf : Obj → List VV
  | .chan s => s.receiverSync.map (·.hb)
  | _ => []

def objSs (os : List Obj) (n : Nat) : VV := match os[n]? with | some x => ssOf x | none => VV.zero
def objRs (os : List Obj) (n : Nat) : List VV := match os[n]? with | some x => rsOf x | none => []

/-- what thread `i` may have acquired ahead of its next reference step -/
def pendClk (w : World) (σ : CS) (i : Nat) : VV :=
  match opAtI w i with
  | some (.nWait n) => if (w.ctlOf i).stage = 1 then σ.mtx (nI w.prog n) else VV.zero
  | some .park => if (w.ctlOf i).stage = 1 then σ.mtx (kI w.prog (body w i)) else VV.zero
  | _ => pendHb w i

/-! ### invariants and links -/

structure TwinInv2 (w : World) : Prop where
  /-- a live thread without a stored `unpark` has an empty `unparkCaus` -/
  tokz : ∀ i, i < nthr w → fin w i < 10 → ttok w i = false → tuc w i = VV.zero
  /-- one clock per message in flight -/
  rsl : ∀ q, q < w.prog.cfg.nChans →
    ∃ cs, w.exec.objs[w.chanObj q]? = some (.chan cs) ∧ cs.receiverSync.length = cs.queue.length

/-- the clock system `σ` with the message clocks `mq` describes the clocks of world `w` -/
structure LinkT2 (w : World) (σ : CS) (mq : Nat → List VV) : Prop where
  mtx : ∀ m, m < w.prog.cfg.nMutexes → σ.mtx m = objHb w.exec.objs (w.mutexObj m)
  ntf : ∀ n, n < w.prog.cfg.nNotifies → σ.mtx (nI w.prog n) = objHb w.exec.objs (w.notifyObj n)
  chn : ∀ q, q < w.prog.cfg.nChans → σ.mtx (cI w.prog q) = objSs w.exec.objs (w.chanObj q)
  msg : ∀ q, q < w.prog.cfg.nChans → mq q = objRs w.exec.objs (w.chanObj q)
  acc : ∀ k c, c < w.prog.cfg.nCells → σ.acc k c = objAcc w.exec.objs k (w.cellObj c)
  lo : ∀ i, i < nthr w → (σ.thr i).le (tcaus w i)
  hi : ∀ i, i < nthr w → (tcaus w i).le ((σ.thr i).join (pendClk w σ i))
  /-- the token slot of a live thread: between `unparkCaus` and what the thread has acquired of it -/
  tok : ∀ i, i < nthr w → fin w i < 10 →
    (tuc w i).le (σ.mtx (kI w.prog (body w i))) ∧
    (σ.mtx (kI w.prog (body w i))).le ((tcaus w i).join (tuc w i))
  tk0 : ∀ b, (∀ i, i < nthr w → body w i ≠ b) → σ.mtx (kI w.prog b) = VV.zero

/-- the clock system `σ` with the message clocks `mq` describes the clocks of the reference state `s` -/
structure LinkR2 (p : Prog) (s : SC.St) (σ : CS) (mq : Nat → List VV) : Prop where
  thr : ∀ b, σ.thr b = s.vc b
  mtx : ∀ m, m < p.cfg.nMutexes → σ.mtx m = s.mutexRel.getD m VV.zero
  ntf : ∀ n, n < p.cfg.nNotifies → σ.mtx (nI p n) = s.nRel.getD n VV.zero
  chn : ∀ q, q < p.cfg.nChans → σ.mtx (cI p q) = s.chanRel.getD q VV.zero
  tok : ∀ b, σ.mtx (kI p b) = (s.th b).tokenVC
  msg : ∀ q, q < p.cfg.nChans → mq q = (s.chan.getD q []).map (·.2)
  accW : ∀ c, σ.acc true c = s.cellW.getD c VV.zero
  accR : ∀ c, σ.acc false c = s.cellR.getD c VV.zero
  lenM : s.mutexRel.length = p.cfg.nMutexes
  lenN : s.nRel.length = p.cfg.nNotifies
  lenC : s.chanRel.length = p.cfg.nChans
  lenQ : s.chan.length = p.cfg.nChans
  lenW : s.cellW.length = p.cfg.nCells
  lenR : s.cellR.length = p.cfg.nCells
  opnW : ∀ c, s.cellWOpen.getD c false = false
  opnR : ∀ c, s.cellOpen.getD c 0 = 0

/-- the clock part of the relation, for given clock systems -/
structure Clk (w : World) (s : SC.St) (σT σR : CS) (mT mR : Nat → List VV) : Prop where
  lt : LinkT2 w σT mT
  lr : LinkR2 w.prog s σR mR
  gt : Good σT
  gr : Good σR
  x : XInv w.ctl.length (body w) σT σR
  mx : ∀ q, q < w.prog.cfg.nChans → All2 (SideX w.ctl.length (body w) σT σR) (mT q) (mR q)
  mgt : ∀ q Z, q < w.prog.cfg.nChans → Z ∈ mT q → SideGood σT Z
  mgr : ∀ q Z, q < w.prog.cfg.nChans → Z ∈ mR q → SideGood σR Z

/-- **the abstraction relation with clocks, WAIT fragment** -/
structure RC2 (w : World) (s : SC.St) : Prop where
  r : R2 w (data2 s)
  fs : FragSt2 s
  nt : w.prog.threads.length ≤ 5
  inv : TwinInv w
  inv2 : TwinInv2 w
  /-- no receiver has been dropped (the fragment of this proof has no `dropRx`) -/
  nd : ∀ q, s.rxDropped.getD q false = false
  clk : ∃ σT σR mT mR, Clk w s σT σR mT mR

/-! ### the fragment -/

/-- the program has no `dropRx` (the twin drains the channel message by message, acquiring each message's clock,
while the reference acquires them all in the one step in which the receiver is dropped: not covered here) -/
def NoDropRx (p : Prog) : Prop :=
  ∀ a, a < p.threads.length → ∀ k, k < (p.threads.getD a []).length →
    ((p.threads.getD a [])[k]?.all fun op => match op with | .dropRx _ => false | _ => true) = true

instance (p : Prog) : Decidable (NoDropRx p) := by unfold NoDropRx; infer_instance

/-- well-formed programs of the fragment of the race-exactness proof -/
def WF3 (p : Prog) : Prop := WF2 p ∧ NoDropRx p

instance (p : Prog) : Decidable (WF3 p) := by unfold WF3; infer_instance

theorem WF3.noDrop {p : Prog} (h : WF3 p) {a k q : Nat} (hop : (p.threads.getD a [])[k]? = some (.dropRx q)) :
    False := by
  obtain ⟨ha, hk⟩ := pos_bound hop
  have := h.2 a ha k hk
  rw [hop] at this
  simp at this

/-! ### the conclusion of the step theorem -/

/-- a step of the reference semantics proper by body `t`: a step of an enabled thread or a spurious return -/
def RefStepSC (p : Prog) (s : SC.St) (t : Nat) (s' : SC.St) : Prop :=
  (SC.enabled p s t = true ∧ s' ∈ SC.step p s t) ∨ s' ∈ SC.spurious p s t

def SimC2 (w : World) (s : SC.St) (w' : World) : Prop :=
  w'.prog = w.prog ∧
  ((RC2 w' s ∧ w'.events = w.events) ∨
   ∃ s', RefStepSC w.prog s (body w w.tid) s' ∧ RC2 w' s' ∧
     ∃ l, RefStep w.prog (data2 s) (body w w.tid) l (data2 s') ∧
       w'.events.map triple = SCData.label (body w w.tid) l ++ w.events.map triple)

end Race2
end LoomVerif

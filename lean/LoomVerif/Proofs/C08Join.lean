/-
C08, `JoinHandle::join` (`src/thread.rs`): the `JoinHandle`'s notify is created non-spurious by
`spawn`, notified by the spawned thread's epilogue AFTER its thread-local destructors (repair of finding
F20) and BEFORE `thread_done`, and waited on by `join`.
-/
import LoomVerif.Proofs.C08Only
import LoomVerif.Proofs.InterpMaxTh

namespace LoomVerif
namespace C08
open C12 Sy C07

/-- `spawn`: the `JoinHandle`'s notify is a fresh object, created with `spurious := false`
(`rt::Notify::new(true, false)`), not notified, and recorded in `spawned` -/
theorem spawn_notify {w w' : World} {c : TCtl} {b : Nat} (h : w.runOp c (.spawn b) = .ok w') :
    ∃ id, w'.exec.objs = w.exec.objs ++ [.notify { seqCst := true, spurious := false }] ∧
      w'.spawned = (b, id, w.exec.objs.length) :: w.spawned := by
  rw [runOp_spawn] at h
  simp only [World.pushObj, bind, Except.bind, pure, Except.pure] at h
  split at h
  · cases h
  · next v hv =>
    cases h
    refine ⟨v.2, ?_, rfl⟩
    unfold Exec.newThread at hv
    simp only [bind, Except.bind, pure, Except.pure] at hv
    split at hv
    · cases hv
    · cases hv; rfl

/-- a wait on a non-spurious notify never returns spuriously: the stage after `notifyWait1` is 1 -/
theorem wait1_not_spurious {w w' : World} {o st : Nat} {s : NotifySt}
    (h : w.exec.objs[o]? = some (.notify s)) (hs : s.spurious = false)
    (hr : w.notifyWait1 o = .ok (w', st)) : st = 1 := by
  obtain ⟨_, _, _, hc⟩ := notifyWait1_obj h hr
  rcases hc with ⟨rfl, _⟩ | ⟨_, _, _, hsp⟩
  · rfl
  · rw [hs] at hsp; cases hsp

/-- `join` never returns spuriously: the notify object was created non-spurious, no step of its
life changes `spurious`, so `join`'s first stage always continues with stage 1 (the real wait) -/
theorem join_never_spurious {w w' : World} {o st : Nat} {s : NotifySt}
    (hsteps : NotifySteps { seqCst := true, spurious := false } s)
    (h : w.exec.objs[o]? = some (.notify s)) (hr : w.notifyWait1 o = .ok (w', st)) : st = 1 :=
  wait1_not_spurious h (hsteps.facts.2.1) hr

/-- the epilogue of a spawned thread, the stage of `notify`'s effect (`fin = 1`; reached from the branch
point, see `epilogue_branch_stage`): `notify` on the `JoinHandle`'s object, and the thread enters the common
tail (`fin := 10`: the second `drop_locals`, its destructors and only THEN `thread_done`, see
`epilogue_tail_keeps`); the flag is set and the exiting thread's causality is released into the object -/
theorem epilogue_notifies_then_exits {w w' : World} {c : TCtl} {b n : Nat} {s : NotifySt}
    (ht : w.tid ≠ 0) (hsp : w.spawned.find? (·.2.1 == w.tid) = some (b, w.tid, n))
    (hn : w.exec.objs[n]? = some (.notify s)) (hfin : c.fin ≠ 0) (hlt : c.fin < 3)
    (h : w.runEpilogue c = .ok w') :
    ∃ w1 s1, w.notifyEffect n = .ok w1 ∧
      w' = w1.modCtl w.tid (fun c => { c with fin := 10 }) ∧
      w1.exec.objs[n]? = some (.notify s1) ∧ s1.notified = true ∧ w.ths.caus.le s1.sync.hb ∧
      w'.exec.objs[n]? = some (.notify s1) := by
  rw [runEpilogue_spawned w c b n ht hsp (by omega)] at h
  have h3 : ¬ 3 ≤ c.fin := by omega
  simp only [hfin, h3, beq_iff_eq, if_false] at h
  obtain ⟨w1, h1, h2⟩ := bind_ok h
  obtain ⟨s1, hs1, hnot, _, _, hle, _⟩ := notifyEffect_hb hn h1
  cases h2
  exact ⟨w1, s1, h1, rfl, hs1, hnot, hle, hs1⟩

theorem primEffect_keeps {w w' : World} {x : Nat} {p : Prim} {r : Ret}
    (h : w.primEffect x p = .ok (w', r)) : NotifyKept w.exec.objs w'.exec.objs := by
  unfold World.primEffect at h
  have key : ∀ w0 : World, w0.exec.objs = w.exec.objs →
      (do
        let a ← w0.getAtomic (w0.atomObj x)
        let (w1, idx) ← match ← p.candidates a w0.ths with
          | some l => do
            let path ← if w0.exec.path.isTraversed then w0.exec.path.pushLoad l w0.panicking
                       else pure w0.exec.path
            let (path, idx) ← path.branchLoad
            pure (w0.setPath path, idx)
          | none => pure (w0, 0)
        let (a, ths, r) ← p.effect w1.cfg.ty a w1.ths idx
        pure ((w1.setObj (w1.atomObj x) (.atomic a)).setThs ths, r)) = Except.ok (w', r) →
      NotifyKept w.exec.objs w'.exec.objs := by
    intro w0 e h
    simp only [bind, Except.bind, pure, Except.pure, World.atomObj] at h
    split at h
    · cases h
    · next a ha =>
      have ha : w.exec.objs[x]? = some (.atomic a) := by
        unfold World.getAtomic at ha
        rw [e] at ha
        split at ha <;> cases ha
        assumption
      repeat' split at h
      all_goals first
        | (cases h; done)
        | (cases h
           show NotifyKept w.exec.objs (w0.exec.objs.set x _)
           rw [e]
           exact notifyKept_set _ (by intro s; rw [ha]; simp))
  split at h
  · exact key w.sync rfl h
  · exact key w rfl h

theorem primStart_keeps {w w' : World} {x : Nat} {p : Prim} {next : Nat}
    (h : w.primStart x p next = .ok w') : NotifyKept w.exec.objs w'.exec.objs := by
  unfold World.primStart at h
  split at h
  · dsimp only at h
    have k := branch_keeps h
    exact k
  · cases h; exact .refl _

/-- an atomic store changes the thread table only through `rt::synchronize` (the storing thread's
causality is incremented) -/
theorem primEffect_store_ths {w w' : World} {x : Nat} {v : Int} {o : Ord} {r : Ret}
    (h : w.primEffect x (.store v o) = .ok (w', r)) : w'.ths = w.sync.ths := by
  unfold World.primEffect at h
  simp only [Prim.synchronizes, if_true, Prim.candidates, Prim.effect, bind, Except.bind, pure,
    Except.pure] at h
  repeat' split at h
  all_goals first
    | (cases h; done)
    | (cases h; rename_i h2; split at h2 <;> cases h2; rfl)

theorem sync_terminated (w : World) (i : Nat) :
    (w.sync.ths.get i).isTerminated = (w.ths.get i).isTerminated :=
  term_modify _ _ _ _ (fun _ => rfl)

theorem primStart_terminated {w w' : World} {x : Nat} {p : Prim} {next : Nat}
    (h : w.primStart x p next = .ok w') (i : Nat)
    (ht : (w'.ths.get i).isTerminated = true) : (w.ths.get i).isTerminated = true := by
  unfold World.primStart at h
  split at h
  · dsimp only at h
    exact branch_terminated h i ht
  · cases h; exact ht

/-- a step keeps every notify object and terminates nobody -/
def Quiet (w w' : World) : Prop :=
  NotifyKept w.exec.objs w'.exec.objs ∧
    ∀ i, (w'.ths.get i).isTerminated = true → (w.ths.get i).isTerminated = true

/-- one pass of `drop_locals` with the destructors' stores keeps every notify object and terminates
nobody, if what follows the pass (`done`) does -/
theorem dropPass_quiet {w w' : World} {c : TCtl} {base : Nat} {done : World → Except Panic World}
    (hd : ∀ w1 w2, done w1 = .ok w2 → Quiet w1 w2)
    (h : w.dropPass c base done = .ok w') : Quiet w w' := by
  rw [dropPass_eq] at h
  split at h
  · cases h
    refine ⟨?_, fun i hi => ?_⟩
    · show NotifyKept w.exec.objs w.dropLocals.exec.objs
      rw [World.dropLocals_exec]; exact .refl _
    · have e : (w.dropLocals.modCtl w.tid fun c => { c with fin := base + 1 }).ths = w.ths := by
        show w.dropLocals.exec.threads = _
        rw [World.dropLocals_exec]; rfl
      rw [e] at hi; exact hi
  · split at h
    · split at h
      · exact hd _ _ h
      · have k1 := primStart_keeps h
        exact ⟨k1, fun i hi => primStart_terminated h i hi⟩
    · split at h
      · cases h
      · obtain ⟨⟨w1, r⟩, h1, h2⟩ := bind_ok h
        cases h2
        have k1 := primEffect_keeps h1
        refine ⟨k1, fun i hi => ?_⟩
        have hi' : (w1.ths.get i).isTerminated = true := hi
        rw [primEffect_store_ths h1, sync_terminated] at hi'
        exact hi'

/-- the common tail of every thread (`fin ≥ 10`: `drop_locals`, the thread-local destructors'
stores, `thread_done`) leaves every notify object alone: the flag raised by the epilogue's `notify`
is still set in the state in which the thread has exited -/
theorem epilogue_tail_keeps {w w' : World} {c : TCtl} (hge : 10 ≤ c.fin)
    (h : w.runEpilogue c = .ok w') :
    w.finishThread c = .ok w' ∧ NotifyKept w.exec.objs w'.exec.objs := by
  rw [runEpilogue_finish w c hge] at h
  refine ⟨h, ?_⟩
  unfold World.finishThread at h
  split at h
  · cases h
  · rw [dropPass_eq] at h
    repeat' split at h
    all_goals first
      | (cases h; done)
      | (cases h
         show NotifyKept w.exec.objs w.dropLocals.exec.objs
         rw [World.dropLocals_exec]; exact .refl _)
      | (have k := threadDone_keeps h; exact k)
      | (have k := primStart_keeps h; exact k)
      | (obtain ⟨⟨w1, r⟩, h1, h2⟩ := bind_ok h
         cases h2; have k := primEffect_keeps h1; exact k)

/-- the stages of a spawned thread's epilogue BEFORE the effect of `notify` (`fin = 0`: the first
`drop_locals`; `3 ≤ fin < 10`: the loop of the destructors' stores and, when the queue is empty, the branch
point of `notify`): they terminate nobody and raise no flag -/
theorem epilogue_before_notify {w w' : World} {c : TCtl} {b n : Nat}
    (ht : w.tid ≠ 0) (hsp : w.spawned.find? (·.2.1 == w.tid) = some (b, w.tid, n))
    (hfin : c.fin = 0 ∨ 3 ≤ c.fin) (hlt : c.fin < 10) (h : w.runEpilogue c = .ok w') :
    NotifyKept w.exec.objs w'.exec.objs ∧
    ∀ i, (w'.ths.get i).isTerminated = true → (w.ths.get i).isTerminated = true := by
  rw [runEpilogue_spawned w c b n ht hsp hlt] at h
  split at h
  · cases h
    refine ⟨?_, fun i hi => ?_⟩
    · show NotifyKept w.exec.objs w.dropLocals.exec.objs
      rw [World.dropLocals_exec]; exact .refl _
    · have e : (w.dropLocals.modCtl w.tid fun c => { c with fin := 4 }).ths = w.ths := by
        show w.dropLocals.exec.threads = _
        rw [World.dropLocals_exec]; rfl
      rw [e] at hi; exact hi
  · next h0 =>
    have h3 : 3 ≤ c.fin := by
      rcases hfin with e | e
      · simp [e] at h0
      · exact e
    rw [if_pos h3] at h
    refine dropPass_quiet ?_ h
    intro w1 w2 h2
    exact ⟨@branch_keeps (w1.modCtl w.tid fun c => { c with fin := 1 }) w2 _ _ _ _ h2,
      fun i hi => @branch_terminated (w1.modCtl w.tid fun c => { c with fin := 1 }) w2 _ _ _ _ h2 i hi⟩

/-- the branch point of `notify` in the epilogue of a spawned thread is the head of the destructor loop
with an EMPTY queue (`fin = 4`, `dtorQueue = []`): it terminates nobody and raises no flag -/
theorem epilogue_branch_stage {w w' : World} {c : TCtl} {b n : Nat}
    (ht : w.tid ≠ 0) (hsp : w.spawned.find? (·.2.1 == w.tid) = some (b, w.tid, n))
    (hfin : c.fin = 4) (hq : c.dtorQueue = []) (h : w.runEpilogue c = .ok w') :
    (w.modCtl w.tid fun c => { c with fin := 1 }).branch n .opaque = .ok w' ∧
    NotifyKept w.exec.objs w'.exec.objs ∧
    ∀ i, (w'.ths.get i).isTerminated = true → (w.ths.get i).isTerminated = true := by
  have hq' := epilogue_before_notify ht hsp (.inr (by omega)) (by omega) h
  rw [runEpilogue_spawned w c b n ht hsp (by omega), dropPass_eq] at h
  simp only [hfin, hq] at h
  exact ⟨h, hq'⟩

/-- the first stage of the epilogue of a spawned thread (`fin = 0`) is the first `drop_locals` pass: the
thread's locals are destroyed and the destructors queued BEFORE anything is done to the `JoinHandle`'s
notify -/
theorem epilogue_first_stage {w w' : World} {c : TCtl} {b n : Nat}
    (ht : w.tid ≠ 0) (hsp : w.spawned.find? (·.2.1 == w.tid) = some (b, w.tid, n))
    (hfin : c.fin = 0) (h : w.runEpilogue c = .ok w') :
    w' = w.dropLocals.modCtl w.tid (fun c => { c with fin := 4 }) ∧ w'.exec = w.exec := by
  rw [runEpilogue_spawned w c b n ht hsp (by omega)] at h
  simp only [hfin, beq_self_eq_true, if_true] at h
  cases h
  exact ⟨rfl, World.dropLocals_exec w⟩

/-- `join` is `Notify::wait` on the `JoinHandle`'s object: its last stage returns only if the
flag is set, and then the joiner's causality is above the object's clock -/
theorem join_stage1 {w w' : World} {c : TCtl} {b t n : Nat} {s : NotifySt}
    (hl : w.lookupSpawn b = .ok (t, n)) (hn : w.exec.objs[n]? = some (.notify s))
    (hs : c.stage = 1) :
    (s.notified = false → w.runOp c (.join b) = .error .notNotified) ∧
    (w.runOp c (.join b) = .ok w' →
      s.notified = true ∧ ∃ w1, w.notifyWait2 n = .ok w1 ∧ w' = w1.complete .unit ∧
        (w.tid < w.ths.threads.length → w1.ths.caus = w.ths.caus.join s.sync.hb)) := by
  have hrun : w.runOp c (.join b) = (do
      let w1 ← w.notifyWait2 n
      pure (w1.complete .unit)) := by
    rw [runOp_join, hl, hs]; rfl
  constructor
  · intro hf
    rw [hrun, notifyWait2_unnotified hn hf]; rfl
  · intro h
    rw [hrun] at h
    obtain ⟨w1, h1, h2⟩ := bind_ok h
    obtain ⟨hnot, _, hc⟩ := notifyWait2_ok hn h1
    cases h2
    exact ⟨hnot, w1, h1, rfl, hc⟩

/-- `join` happens-after the joined thread's exit: the epilogue's `notify` by the joined thread,
any steps of the object, then the last stage of `join`: the joiner's causality is above the
joined thread's causality at its exit -/
theorem join_hb {wE wE' wJ wJ' : World} {cE cJ : TCtl} {bE b t n : Nat} {s0 s1 s2 : NotifySt}
    (ht : wE.tid ≠ 0) (hsp : wE.spawned.find? (·.2.1 == wE.tid) = some (bE, wE.tid, n))
    (hn : wE.exec.objs[n]? = some (.notify s0)) (hfin : cE.fin ≠ 0) (hlt : cE.fin < 3)
    (hE : wE.runEpilogue cE = .ok wE') (hn1 : wE'.exec.objs[n]? = some (.notify s1))
    (hsteps : NotifySteps s1 s2)
    (hl : wJ.lookupSpawn b = .ok (t, n)) (hn2 : wJ.exec.objs[n]? = some (.notify s2))
    (hs : cJ.stage = 1) (hin : wJ.tid < wJ.ths.threads.length)
    (hJ : wJ.runOp cJ (.join b) = .ok wJ') :
    wE.ths.caus.le wJ'.ths.caus := by
  obtain ⟨w1, s1', _, _, _, _, hle, ha⟩ := epilogue_notifies_then_exits ht hsp hn hfin hlt hE
  rw [ha] at hn1; cases hn1
  obtain ⟨_, w2, _, rfl, hc⟩ := (join_stage1 (w' := wJ') hl hn2 hs).2 hJ
  have e : (w2.complete .unit).ths.caus = w2.ths.caus := rfl
  rw [e, hc hin]
  exact VV.le_trans hle (VV.le_trans hsteps.facts.2.2 (VV.le_join_right _ _))

end C08
end LoomVerif

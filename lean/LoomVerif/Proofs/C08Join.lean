/-
C08, `JoinHandle::join` (`src/thread.rs`): the `JoinHandle`'s notify is created non-spurious by
`spawn`, notified by the spawned thread's epilogue BEFORE `thread_done`, and waited on by `join`.
-/
import LoomVerif.Proofs.C08Only

namespace LoomVerif
namespace C08
open C12 Sy C07

/-- `spawn`: the `JoinHandle`'s notify is a fresh object, created with `spurious := false`
(`rt::Notify::new(true, false)`), not notified, and recorded in `spawned` -/
theorem spawn_notify {w w' : World} {c : TCtl} {b : Nat} (h : w.runOp c (.spawn b) = .ok w') :
    ∃ id, w'.exec.objs = w.exec.objs ++ [.notify { seqCst := true, spurious := false }] ∧
      w'.spawned = (b, id, w.exec.objs.length) :: w.spawned := by
  rw [runOp_spawn] at h
  simp only [World.pushObj, bind, Except.bind, pure, Except.pure] at h
  split at h
  · cases h
  · next v hv =>
    cases h
    refine ⟨v.2, ?_, rfl⟩
    unfold Exec.newThread at hv
    simp only [bind, Except.bind, pure, Except.pure] at hv
    split at hv
    · cases hv
    · cases hv; rfl

/-- a wait on a non-spurious notify never returns spuriously: the stage after `notifyWait1` is 1 -/
theorem wait1_not_spurious {w w' : World} {o st : Nat} {s : NotifySt}
    (h : w.exec.objs[o]? = some (.notify s)) (hs : s.spurious = false)
    (hr : w.notifyWait1 o = .ok (w', st)) : st = 1 := by
  obtain ⟨_, _, _, hc⟩ := notifyWait1_obj h hr
  rcases hc with ⟨rfl, _⟩ | ⟨_, _, _, hsp⟩
  · rfl
  · rw [hs] at hsp; cases hsp

/-- `join` never returns spuriously: the notify object was created non-spurious, no step of its
life changes `spurious`, so `join`'s first stage always continues with stage 1 (the real wait) -/
theorem join_never_spurious {w w' : World} {o st : Nat} {s : NotifySt}
    (hsteps : NotifySteps { seqCst := true, spurious := false } s)
    (h : w.exec.objs[o]? = some (.notify s)) (hr : w.notifyWait1 o = .ok (w', st)) : st = 1 :=
  wait1_not_spurious h (hsteps.facts.2.1) hr

/-- the epilogue of a spawned thread, second stage: `notify` on the `JoinHandle`'s object, THEN
`thread_done`; the flag is set (and the exiting thread's causality released into the object) in
the state in which the thread is terminated -/
theorem epilogue_notifies_then_exits {w w' : World} {c : TCtl} {b n : Nat} {s : NotifySt}
    (ht : w.tid ≠ 0) (hsp : w.spawned.find? (·.2.1 == w.tid) = some (b, w.tid, n))
    (hn : w.exec.objs[n]? = some (.notify s)) (hfin : c.fin ≠ 0)
    (h : w.runEpilogue c = .ok w') :
    ∃ w1 s1 a, w.notifyEffect n = .ok w1 ∧
      (w1.modCtl w.tid fun c => { c with fin := 2 }).threadDone = .ok w' ∧
      w1.exec.objs[n]? = some (.notify s1) ∧ s1.notified = true ∧ w.ths.caus.le s1.sync.hb ∧
      w'.exec.objs[n]? = some (.notify { s1 with lastAccess := a }) := by
  rw [runEpilogue_spawned w c b n ht hsp] at h
  simp only [hfin, beq_iff_eq, if_false] at h
  obtain ⟨w1, h1, h2⟩ := bind_ok h
  obtain ⟨s1, hs1, hnot, _, _, hle, _⟩ := notifyEffect_hb hn h1
  have k : NotifyKept w1.exec.objs w'.exec.objs :=
    @threadDone_keeps (w1.modCtl w.tid fun c => { c with fin := 2 }) w' h2
  obtain ⟨a, ha⟩ := k n s1 hs1
  exact ⟨w1, s1, a, h1, h2, hs1, hnot, hle, ha⟩

/-- the epilogue's first stage is only the branch point of `notify`: it terminates nobody and
raises no flag -/
theorem epilogue_first_stage {w w' : World} {c : TCtl} {b n : Nat}
    (ht : w.tid ≠ 0) (hsp : w.spawned.find? (·.2.1 == w.tid) = some (b, w.tid, n))
    (hfin : c.fin = 0) (h : w.runEpilogue c = .ok w') :
    (w.modCtl w.tid fun c => { c with fin := 1 }).branch n .opaque = .ok w' ∧
    NotifyKept w.exec.objs w'.exec.objs ∧
    ∀ i, (w'.ths.get i).isTerminated = true → (w.ths.get i).isTerminated = true := by
  rw [runEpilogue_spawned w c b n ht hsp] at h
  simp only [hfin, beq_self_eq_true, if_true] at h
  exact ⟨h, @branch_keeps (w.modCtl w.tid fun c => { c with fin := 1 }) w' _ _ _ h,
    fun i hi => @branch_terminated (w.modCtl w.tid fun c => { c with fin := 1 }) w' _ _ _ h i hi⟩

/-- `join` is `Notify::wait` on the `JoinHandle`'s object: its last stage returns only if the
flag is set, and then the joiner's causality is above the object's clock -/
theorem join_stage1 {w w' : World} {c : TCtl} {b t n : Nat} {s : NotifySt}
    (hl : w.lookupSpawn b = .ok (t, n)) (hn : w.exec.objs[n]? = some (.notify s))
    (hs : c.stage = 1) :
    (s.notified = false → w.runOp c (.join b) = .error .notNotified) ∧
    (w.runOp c (.join b) = .ok w' →
      s.notified = true ∧ ∃ w1, w.notifyWait2 n = .ok w1 ∧ w' = w1.complete .unit ∧
        (w.tid < w.ths.threads.length → w1.ths.caus = w.ths.caus.join s.sync.hb)) := by
  have hrun : w.runOp c (.join b) = (do
      let w1 ← w.notifyWait2 n
      pure (w1.complete .unit)) := by
    rw [runOp_join, hl, hs]; rfl
  constructor
  · intro hf
    rw [hrun, notifyWait2_unnotified hn hf]; rfl
  · intro h
    rw [hrun] at h
    obtain ⟨w1, h1, h2⟩ := bind_ok h
    obtain ⟨hnot, _, hc⟩ := notifyWait2_ok hn h1
    cases h2
    exact ⟨hnot, w1, h1, rfl, hc⟩

/-- `join` happens-after the joined thread's exit: the epilogue's `notify` by the joined thread,
any steps of the object, then the last stage of `join`: the joiner's causality is above the
joined thread's causality at its exit -/
theorem join_hb {wE wE' wJ wJ' : World} {cE cJ : TCtl} {bE b t n : Nat} {s0 s1 s2 : NotifySt}
    (ht : wE.tid ≠ 0) (hsp : wE.spawned.find? (·.2.1 == wE.tid) = some (bE, wE.tid, n))
    (hn : wE.exec.objs[n]? = some (.notify s0)) (hfin : cE.fin ≠ 0)
    (hE : wE.runEpilogue cE = .ok wE') (hn1 : wE'.exec.objs[n]? = some (.notify s1))
    (hsteps : NotifySteps s1 s2)
    (hl : wJ.lookupSpawn b = .ok (t, n)) (hn2 : wJ.exec.objs[n]? = some (.notify s2))
    (hs : cJ.stage = 1) (hin : wJ.tid < wJ.ths.threads.length)
    (hJ : wJ.runOp cJ (.join b) = .ok wJ') :
    wE.ths.caus.le wJ'.ths.caus := by
  obtain ⟨w1, s1', a, _, _, _, _, hle, ha⟩ := epilogue_notifies_then_exits ht hsp hn hfin hE
  rw [ha] at hn1; cases hn1
  obtain ⟨_, w2, _, rfl, hc⟩ := (join_stage1 (w' := wJ') hl hn2 hs).2 hJ
  have e : (w2.complete .unit).ths.caus = w2.ths.caus := rfl
  rw [e, hc hin]
  exact VV.le_trans hle (VV.le_trans hsteps.facts.2.2 (VV.le_join_right _ _))

end C08
end LoomVerif

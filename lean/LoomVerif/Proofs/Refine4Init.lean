/-
Refinement, FUTURES fragment, part 12: the initial world of the twin (`World.init`) is related to the initial state
of the reference semantics (`SC.init`).
-/
import LoomVerif.Proofs.Refine4Ok
import LoomVerif.Proofs.RefineRun

set_option linter.unusedSimpArgs false
set_option linter.unusedVariables false

namespace LoomVerif
namespace Refine4
open Refine Sy

/-! ### the loops of `World.init` -/

/-- the loop that creates the atomics: all of them are the same object -/
theorem forIn_try' {α β γ} (l : List α) (init : List β) (f : Except Panic γ) (g : γ → β) (r : List β)
    (h : (forIn l init (fun _ s => do let a ← f; pure (ForInStep.yield (s ++ [g a])))) = .ok r) :
    (l = [] ∧ r = init) ∨ ∃ v, f = .ok v ∧ r = init ++ List.replicate l.length (g v) := by
  cases f with
  | error e =>
    cases l with
    | nil => simp [pure, Except.pure] at h; exact .inl ⟨rfl, h.symm⟩
    | cons a l => rw [List.forIn_cons] at h; simp [bind, Except.bind] at h
  | ok v =>
    have : (fun (_ : α) (s : List β) =>
        (do let a ← (Except.ok v : Except Panic γ); pure (ForInStep.yield (s ++ [g a])) :
          Except Panic (ForInStep (List β)))) = fun _ s => pure (ForInStep.yield (s ++ [g v])) := rfl
    rw [this, forIn_pure] at h
    cases h
    exact .inr ⟨v, rfl, rfl⟩

/-- the mutexes of `k` futures, starting at object index `base` -/
def futObjs : Nat → List Obj
  | 0 => []
  | k + 1 => [Obj.mutex { seqCst := true }, Obj.mutex { seqCst := false }] ++ futObjs k

def futRecs (base : Nat) : Nat → List FutSt
  | 0 => []
  | k + 1 => ({ slotMutex := base, awMutex := base + 1 } : FutSt) :: futRecs (base + 2) k

/-- the loop that creates the futures -/
theorem forIn_futs {α} (l : List α) (objs : List Obj) (futs : List FutSt) (r : List Obj × List FutSt)
    (h : (forIn l (objs, futs) (fun _ s => (pure (ForInStep.yield
      (s.1 ++ [Obj.mutex { seqCst := true }, Obj.mutex { seqCst := false }],
       s.2 ++ [({ slotMutex := s.1.length, awMutex := s.1.length + 1 } : FutSt)])) : Except Panic _))) = .ok r) :
    r.1 = objs ++ futObjs l.length ∧ r.2 = futs ++ futRecs objs.length l.length := by
  induction l generalizing objs futs with
  | nil => simp [pure, Except.pure] at h; subst h; simp [futObjs, futRecs]
  | cons a l ih =>
    rw [List.forIn_cons] at h
    simp only [pure, Except.pure, bind, Except.bind] at h
    obtain ⟨h1, h2⟩ := ih _ _ h
    rw [h1, h2]
    simp [futObjs, futRecs, List.append_assoc]

theorem futObjs_len (k : Nat) : (futObjs k).length = 2 * k := by
  induction k with
  | zero => rfl
  | succ k ih => simp [futObjs, ih]; omega

theorem futRecs_len (base k : Nat) : (futRecs base k).length = k := by
  induction k generalizing base with
  | zero => rfl
  | succ k ih => simp [futRecs, ih]

theorem futRecs_get (base k f : Nat) (hf : f < k) :
    (futRecs base k).getD f {} = { slotMutex := base + 2 * f, awMutex := base + 2 * f + 1 } := by
  induction k generalizing base f with
  | zero => omega
  | succ k ih =>
    cases f with
    | zero => simp [futRecs, List.getD]
    | succ f =>
      have := ih (base + 2) f (by omega)
      simp only [futRecs, List.getD, List.getElem?_cons_succ] at this ⊢
      rw [this]
      congr 1 <;> omega

theorem futObjs_get (k i : Nat) (hi : i < 2 * k) :
    ∃ m : MutexSt, (futObjs k)[i]? = some (.mutex m) ∧ m.lock = none := by
  induction k generalizing i with
  | zero => omega
  | succ k ih =>
    match i with
    | 0 => exact ⟨{ seqCst := true }, by simp [futObjs], rfl⟩
    | 1 => exact ⟨{ seqCst := false }, by simp [futObjs], rfl⟩
    | i + 2 =>
      obtain ⟨m, h1, h2⟩ := ih i (by omega)
      exact ⟨m, by simp [futObjs, h1], h2⟩

/-- a new atomic: its initial value is the most recent one -/
theorem atomic_new_ov {ths : Threads} {v : Nat} {a : Atomic} (h : Atomic.new ths v = .ok a) :
    ov4 (.atomic a) = .atomic v true 1 := by
  unfold Atomic.new at h
  simp only [bind, Except.bind, pure, Except.pure] at h
  split at h
  · cases h
  · next a1 h1 =>
    cases h
    have e1 : a1.stores = List.replicate NH {} ∧ a1.cnt = 0 := by
      unfold Atomic.trackUnsyncMut at h1
      simp only [bind, Except.bind, pure, Except.pure, throw, throwThe, MonadExceptOf.throw, Atomic.mutatingCheck] at h1
      repeat' split at h1
      all_goals first
        | (cases h1; done)
        | (cases h1; exact ⟨rfl, rfl⟩)
    simp [ov4, Atomic.store, Atomic.latestValue, Atomic.storeAt, e1.1, e1.2, Atomic.index, NH, List.getD,
      List.replicate]

/-- the shape of the initial world -/
theorem init_shape4 {prog : Prog} {e : Exec} {w : World} (h : World.init prog e = .ok w) :
    w.prog = prog ∧ w.ctl = [{}] ∧ w.spawned = [] ∧ w.exec.threads = e.threads ∧
    w.futs = futRecs (mbase prog) prog.cfg.nFutures ∧
    ∃ A B : List Obj, A.length = prog.cfg.nAtomics ∧ (∀ x ∈ A, ov4 x = .atomic (prog.cfg.ty.intoU64 0) true 1) ∧
      B.length = mbase prog - prog.cfg.nAtomics ∧
      w.exec.objs = A ++ B ++ futObjs prog.cfg.nFutures := by
  unfold World.init at h
  simp only [Except.bind_eq_ok'] at h
  obtain ⟨a1, h1, a2, h2, a3, h3, a4, h4, a5, h5, a6, h6, a7, h7, a8, h8, h⟩ := h
  cases h
  rw [forIn_pure] at h2 h3 h4 h5 h6 h7
  cases h2; cases h3; cases h4; cases h5; cases h6; cases h7
  obtain ⟨e1, e2⟩ := forIn_futs _ _ _ _ h8
  simp only [List.length_range] at e1 e2
  have hA : a1.length = prog.cfg.nAtomics ∧ ∀ x ∈ a1, ov4 x = .atomic (prog.cfg.ty.intoU64 0) true 1 := by
    rcases forIn_try' _ _ _ _ _ h1 with ⟨hl, hr⟩ | ⟨v, hv, hr⟩
    · have : prog.cfg.nAtomics = 0 := by
        have := congrArg List.length hl
        simpa using this
      rw [hr]; exact ⟨by simp [this], by intro x hx; cases hx⟩
    · rw [hr]
      refine ⟨by simp, ?_⟩
      intro x hx
      simp only [List.nil_append] at hx
      rw [List.eq_of_mem_replicate hx]
      exact atomic_new_ov hv
  refine ⟨rfl, rfl, rfl, rfl, ?_, a1,
    List.replicate prog.cfg.nCells (.cell { readAccess := e.threads.caus, writeAccess := e.threads.caus }) ++
      List.replicate prog.cfg.nMutexes (.mutex {}) ++ List.replicate prog.cfg.nRwlocks (.rwlock {}) ++
      List.replicate prog.cfg.nCondvars (.condvar {}) ++
      List.replicate prog.cfg.nNotifies (.notify { spurious := true, seqCst := false }) ++
      List.replicate prog.cfg.nChans (.chan {}), hA.1, hA.2, ?_, ?_⟩
  · show a8.2 = _
    rw [e2]
    simp only [List.nil_append]
    congr 1
    simp [mbase, hA.1]
    omega
  · simp [mbase]; omega
  · show a8.1 = _
    rw [e1]
    simp [List.append_assoc]

/-! ### the initial world is related to the initial reference state -/

theorem init_R4 {prog : Prog} {e : Exec} {w : World} (hwf : WF4 prog) (hf : FreshExec e)
    (h : World.init prog e = .ok w) : R4 w (SC.init prog) ∧ w.prog = prog := by
  obtain ⟨hp, hc, hs, hth, hfuts, A, B, hA, hAv, hB, hobjs⟩ := init_shape4 h
  refine ⟨?_, hp⟩
  have hmb : prog.cfg.nAtomics ≤ mbase prog := by simp [mbase]; omega
  have hths : (data4 (SC.init prog)).ths =
      (List.range prog.threads.length).map fun i => ({ started := i == 0 } : DTh4) := by
    simp [data4, SC.init, dth4, List.map_map, Function.comp_def]
  have hget : ∀ b, b < prog.threads.length →
      (data4 (SC.init prog)).ths.getD b {} = ({ started := b == 0 } : DTh4) := by
    intro b hb
    rw [hths]
    simp [List.getD, hb]
  have hdf : (data4 (SC.init prog)).futs = List.replicate prog.cfg.nFutures {} := by
    simp [data4, SC.init, dfut]
  have hda : (data4 (SC.init prog)).atoms = List.replicate prog.cfg.nAtomics 0 := rfl
  have hattr0 := fattr_stage0 prog ({} : TCtl) rfl
  have hctl0 : ∀ i, ([({} : TCtl)] : List TCtl).getD i {} = {} := by
    intro i
    cases i with
    | zero => rfl
    | succ i => simp [List.getD]
  have hvobjs : (view4 w).objs = A.map ov4 ++ B.map ov4 ++ (futObjs prog.cfg.nFutures).map ov4 := by
    simp [view4, hobjs]
  have hfget : ∀ f, f < prog.cfg.nFutures →
      w.futs.getD f {} = { slotMutex := mbase prog + 2 * f, awMutex := mbase prog + 2 * f + 1 } := by
    intro f hf'
    rw [hfuts]; exact futRecs_get _ _ _ hf'
  have hdfget : ∀ f, (data4 (SC.init prog)).futs.getD f {} = {} := by
    intro f
    rw [hdf]
    by_cases hf' : f < prog.cfg.nFutures
    · exact getD_replicate' _ _ _ _ hf'
    · simp [List.getD, List.getElem?_eq_none (show (List.replicate prog.cfg.nFutures ({} : DFut)).length ≤ f by simp; omega)]
  unfold R4
  refine ⟨?_, rfl, ?_, ?_, ?_⟩
  · show w.ctl.length = w.exec.threads.threads.length
    rw [hc, hth, hf.1]; rfl
  · -- the control part
    show RX4 w.prog w.ctl (data4 (SC.init prog)).ths
    rw [hp, hc]
    refine ⟨by rw [hths]; simp, ⟨by simp, rfl⟩, ?_, ?_, ?_, ?_, ?_⟩
    · intro i hi
      have : i = 0 := by simpa using hi
      subst this
      refine ⟨hwf.1, ?_⟩
      show ThRel4 prog ({} : TCtl) ((data4 (SC.init prog)).ths.getD 0 {})
      rw [hget 0 hwf.1]
      refine ⟨rfl, rfl, rfl, rfl, rfl, rfl, stageOk_zero _, (by intro x _ h1; cases h1), ?_⟩
      show match aheadOf _ 0 with | none => _ | some r => _
      rw [aheadOf_zero]
      exact ⟨rfl, rfl, (phaseOf_zero _).symm⟩
    · intro i hi hne
      have : i = 0 := by simpa using hi
      subst this
      exact absurd rfl hne
    · intro i j hi hj _
      have : i = 0 := by simpa using hi
      have : j = 0 := by simpa using hj
      omega
    · intro b hb hidle
      have hb0 : b ≠ 0 := by
        intro e0
        exact hidle 0 (by simp) (by rw [e0]; rfl)
      rw [hget b hb]
      have : (b == 0) = false := by simpa using hb0
      rw [this]
    · intro i hi0 hi
      have : i = 0 := by simpa using hi
      omega
  · show RSp w.ctl w.spawned (view4 w).objs
    rw [hs]
    exact ⟨(by intro b i n hm; cases hm), (by intro e1 e2 h1; cases h1)⟩
  · -- the futures part
    show RF w.prog w.ctl w.futs (view4 w).objs (data4 (SC.init prog))
    rw [hp, hc]
    refine ⟨?_, ?_, ?_, ?_⟩
    · refine ⟨by rw [hfuts]; exact futRecs_len _ _, by rw [hdf]; simp, ?_, ?_, ?_, ?_, ?_, ?_, ?_⟩
      · intro f hf'
        rw [hfget f hf']; exact ⟨rfl, rfl⟩
      · intro f hf'
        rw [hfget f hf', hdfget]; rfl
      · intro f hf' hs'
        rw [hfget f hf'] at hs'; cases hs'
      · intro f hf' hs'
        rw [hfget f hf'] at hs'; cases hs'
      · intro f hf'
        rw [hdfget]; exact Nat.le_refl _
      · intro f hf' hs'
        rw [hfget f hf'] at hs'; cases hs'
      · intro f hf' hs'
        rw [hfget f hf'] at hs'; cases hs'
    · have hpa : ∀ i, paOf prog [({} : TCtl)] i = none := by
        intro i; unfold paOf; rw [hctl0]; exact hattr0.2.1
      have hca : ∀ i, caOf prog [({} : TCtl)] i = none := by
        intro i; unfold caOf; rw [hctl0]; exact hattr0.2.2.1
      refine ⟨?_, ?_, ?_, ?_, ?_⟩
      · intro i f m b _ hc'; rw [hca] at hc'; cases hc'
      · intro f hf' hs'
        rw [hfget f hf'] at hs'; cases hs'
      · intro i j f g m m' b b' _ _ hc'; rw [hca] at hc'; cases hc'
      · intro g i f m b _ _ _ hc'; rw [hca] at hc'; cases hc'
      · intro j k _ hk; rw [hpa] at hk; cases hk
    · have hia : ∀ i, iaOf prog [({} : TCtl)] i = none := by
        intro i; unfold iaOf; rw [hctl0]; exact hattr0.1
      refine ⟨by rw [hda]; simp, ?_⟩
      intro x hx
      have h0 : prog.cfg.ty.fromU64 (prog.cfg.ty.intoU64 0) = 0 := by cases prog.cfg.ty <;> decide
      have hav : avOf (view4 w).objs x = some (prog.cfg.ty.intoU64 0, true, 1) := by
        rw [avOf_some, hvobjs, List.append_assoc, List.getElem?_append_left (by simp [hA]; exact hx)]
        rw [List.getElem?_map]
        have hxl : x < A.length := by rw [hA]; exact hx
        rw [List.getElem?_eq_getElem hxl]
        simp only [Option.map_some]
        rw [hAv _ (List.getElem_mem hxl)]
      have hat : (data4 (SC.init prog)).atoms.getD x 0 = 0 := by
        rw [hda]; exact getD_replicate' _ _ _ _ hx
      have hn0 : nInfl (iaOf prog [({} : TCtl)]) x ([({} : TCtl)] : List TCtl).length = 0 := by
        show nInfl (iaOf prog [({} : TCtl)]) x 1 = 0
        simp [nInfl, hia]
      refine ⟨_, _, hav, Nat.le_refl _, .inl hat, by rw [hn0]; exact Nat.le_refl _, ?_, ?_⟩
      · rw [hat, hn0]
        exact ⟨fun e => absurd e (by decide), fun e => absurd e (by decide)⟩
      · rw [h0]; rfl
    · refine ⟨?_⟩
      intro f hf'
      refine ⟨none, ?_, fun t ht => by cases ht⟩
      rw [mvOf_some, hvobjs]
      have hlen : (A.map ov4 ++ B.map ov4).length = mbase prog := by
        simp [hA, hB]; omega
      rw [List.getElem?_append_right (by rw [hlen]; omega), hlen]
      have : mbase prog + 2 * f + 1 - mbase prog = 2 * f + 1 := by omega
      rw [this, List.getElem?_map]
      obtain ⟨m, h1, h2⟩ := futObjs_get prog.cfg.nFutures (2 * f + 1) (by omega)
      rw [h1]
      simp [ov4, h2]

end Refine4
end LoomVerif

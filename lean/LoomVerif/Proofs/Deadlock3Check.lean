/-
Deadlock soundness, FUTURES fragment, part 15: the deadlocked reference state at the end of a run; the hypotheses on
the execution record hold for every iteration of `Check.run` (`Builder::check`) whose predecessors satisfy the
run-level condition `okRun4`.
-/
import LoomVerif.Proofs.Deadlock3Run
import LoomVerif.Proofs.C05SC
import LoomVerif.Model.Check
import LoomVerif.Props.Refine4

set_option linter.unusedSimpArgs false
set_option linter.unusedVariables false

namespace LoomVerif
namespace Deadlock3
open Refine Refine4 Deadlock Deadlock2 Sy

/-- a deadlocked state ends with the verdict "deadlock" (C05: `SC.finalVerdict`) -/
theorem Dead4.finalVerdict {p : Prog} {s : SC.St} (h : Dead4 p s) : SC.finalVerdict s = .deadlock := by
  obtain ⟨hv, _, t, hst, hnf⟩ := h
  rw [SC.finalVerdict_deadlock_iff]
  refine .inr ⟨hv, (SC.allDone_false_iff s).2 ?_⟩
  have hlt : t < s.ths.length := by
    apply Classical.byContradiction
    intro hn
    have : s.th t = {} := by
      unfold SC.St.th
      have : s.ths[t]? = none := List.getElem?_eq_none (by omega)
      simp [List.getD, this]
    rw [this] at hst
    cases hst
  refine ⟨s.th t, ?_, hst, hnf⟩
  unfold SC.St.th
  rw [List.getD_eq_getElem?_getD, List.getElem?_eq_getElem hlt]
  exact List.getElem_mem hlt

/-- **the end of a run that panics with "deadlock"** -/
theorem runLoop_dead {prog : Prog} {exec : Exec} {w0 w : World} {fuel : Nat}
    (hwf : WFD prog) (hfresh : Refine2.FreshExec2 exec) (hpath : ReplayOK exec.path)
    (hinit : World.init prog exec = .ok w0) (hok : okRun4 fuel w0 = true)
    (hrun : World.runLoop fuel w0 = (w, some .deadlock)) :
    ∃ s0 s, Refine2.SCExec2 prog (SC.init prog) s0 ∧ R4 w s0 ∧ JB4 w ∧
      (s = s0 ∨ ∃ t, SC.enabled prog s0 t = true ∧ s ∈ SC.step prog s0 t) ∧ Dead4 prog s := by
  obtain ⟨hRB, hp⟩ := init_RB4 hwf hfresh hpath hinit
  obtain ⟨s0, hex, hRB', hp', hr', hfin⟩ := runLoop_RB4 prog (SC.init prog) hwf fuel w0 w _ _ hp hRB
    (init_inRange hfresh.fresh hinit) (.nil _) hok hrun
  obtain ⟨hact, hok', hstep⟩ := hfin .deadlock rfl (by simp)
  have hlen : w.ctl.length = w.exec.threads.threads.length := hRB'.r.lenCtl
  have hin : w.tid < w.ctl.length := by rw [hlen]; exact hr' hact
  have hout := step_out (by rw [hp']; exact hwf) hRB' hact hin hok'
  rw [hstep] at hout
  obtain ⟨s, hs, hd⟩ := hout rfl
  rw [hp'] at hs hd
  exact ⟨s0, s, hex, hRB'.r, hRB'.j, hs, hd⟩

/-- … as an execution of the reference semantics that ends in the deadlocked state -/
theorem exec_of_dead {prog : Prog} {s0 s : SC.St} (hex : Refine2.SCExec2 prog (SC.init prog) s0)
    (hs : s = s0 ∨ ∃ t, SC.enabled prog s0 t = true ∧ s ∈ SC.step prog s0 t) :
    Refine2.SCExec2 prog (SC.init prog) s := by
  rcases hs with rfl | ⟨t, hen, hst⟩
  · exact hex
  · exact .step hex hen hst

/-! ### `Check.run` -/

/-- an iteration that satisfies `okRun4` and completes leaves an execution record that satisfies the hypotheses
again -/
theorem runIter_iterInv4 {prog : Prog} {e e' : Exec} {fuel mt : Nat} (hwf : WFD prog) (hi : IterInv2 mt e)
    (hok : okIter4 prog e fuel = true)
    (hterm : (runIter prog e fuel).term = none) (hstep : (runIter prog e fuel).exec.step = some e') :
    IterInv2 mt e' := by
  have hmt : (runIter prog e fuel).exec.maxThreads = mt := by
    rw [runIter_maxThreads, hi.1]; rfl
  obtain ⟨_, _, _, _, _, hfe⟩ := Check.step_resets hstep
  rw [hmt] at hfe
  refine ⟨hfe, ?_⟩
  unfold runIter at hterm hstep
  unfold okIter4 at hok
  cases hinit : World.init prog e with
  | error err => rw [hinit] at hterm; cases hterm
  | ok w0 =>
    rw [hinit] at hterm hstep hok
    simp only at hterm hstep hok
    generalize hr : World.runLoop fuel w0 = res at hterm hstep
    obtain ⟨w, r⟩ := res
    cases r with
    | some err => cases hterm
    | none =>
      simp only at hterm hstep
      replace hstep : w.exec.step = some e' := by
        cases hc : w.exec.objs.checkForLeaks <;> rw [hc] at hstep <;> exact hstep
      obtain ⟨hRB, hp⟩ := init_RB4 hwf hi.fresh hi.2.2.replayOK hinit
      have hpath := init_path hinit
      have hpi : PI w0 := by
        have hall : AllOK w0.exec.path := by rw [hpath]; exact hi.2.2
        exact ⟨by rw [hpath]; exact hi.2.1, hall.butLast, fun _ => hall⟩
      obtain ⟨hw, hokp⟩ := runLoop_PI4 prog hwf fuel w0 w _ hp hRB (init_inRange hi.fresh.fresh hinit) hpi hok hr
      unfold Exec.step at hstep
      cases hps : w.exec.path.step with
      | none => rw [hps] at hstep; cases hstep
      | some p' =>
        rw [hps] at hstep
        simp only [Option.map_some, Option.some.injEq] at hstep
        subst hstep
        exact step_allOK hps hw hokp

end Deadlock3
end LoomVerif

/-
Deadlock soundness, WAIT fragment, part 10: `Notify` (`nNotify`, `nWait` with its spurious return) and `join`.
-/
import LoomVerif.Proofs.Deadlock2Ops3

namespace LoomVerif
namespace Deadlock2
open Refine Refine2 Sy Deadlock C07 C08

/-- `Notify::notify` after its branch point, seen from the thread table -/
theorem notify_desc {w : World} {o : Nat} {ns : NotifySt} {w1 : World}
    (hobj : w.exec.objs[o]? = some (.notify ns)) (h : w.notifyEffect o = .ok w1) :
    w1.ctl = w.ctl ∧ w1.tid = w.tid ∧ w1.prog = w.prog ∧ w1.spawned = w.spawned ∧
    w1.exec.path = w.exec.path ∧ w1.ths.isActive = w.ths.isActive ∧
    (∃ ns' : NotifySt, ns'.spurious = ns.spurious ∧ ns'.notified = true ∧ ns'.didSpur = ns.didSpur ∧
      w1.exec.objs = w.exec.objs.set o (.notify ns')) ∧
    w1.ths.get w.tid = w.ths.get w.tid ∧
    ∀ i, i ≠ w.tid →
      ((¬ ∃ op, (w.ths.get i).operation = some op ∧ op.obj = o) ∧ w1.ths.get i = w.ths.get i) ∨
      ((∃ op, (w.ths.get i).operation = some op ∧ op.obj = o) ∧
        ∃ v, w1.ths.get i = ({ w.ths.get i with causality := v } : Thread).wake) := by
  have hg := fun i => notifyEffect_get hobj h i
  rw [notifyEffect_eq hobj] at h
  simp only [Except.ok.injEq] at h
  subst h
  refine ⟨rfl, rfl, rfl, rfl, rfl, rfl,
    ⟨{ ns with sync := ns.sync.store w.ths.activeT.released w.ths.caus .rel, notified := true }, rfl, rfl, rfl, rfl⟩,
    ?_, fun i e => ?_⟩
  · rw [hg, if_neg (fun hh => hh.1 rfl)]
  · by_cases hc : ∃ op, (w.ths.get i).operation = some op ∧ op.obj = o
    · exact .inr ⟨hc, _, by rw [hg, if_pos ⟨e, hc⟩]⟩
    · exact .inl ⟨hc, by rw [hg, if_neg (fun hh => hc hh.2)]⟩

/-- the second half of `Notify::wait`, seen from the thread table -/
theorem wait2_desc {w : World} {o : Nat} {ns : NotifySt} {w1 : World}
    (hobj : w.exec.objs[o]? = some (.notify ns)) (h : w.notifyWait2 o = .ok w1) :
    ns.notified = true ∧
    w1.ctl = w.ctl ∧ w1.tid = w.tid ∧ w1.prog = w.prog ∧ w1.spawned = w.spawned ∧
    w1.exec.path = w.exec.path ∧ w1.ths.isActive = w.ths.isActive ∧
    w1.exec.objs = w.exec.objs.set o (.notify { ns with notified := false }) ∧
    ∀ i, Same4 (w.ths.get i) (w1.ths.get i) := by
  cases hnt : ns.notified with
  | false => rw [notifyWait2_unnotified hobj hnt] at h; cases h
  | true =>
    rw [notifyWait2_notified hobj hnt] at h
    simp only [Except.ok.injEq] at h
    subst h
    exact ⟨rfl, rfl, rfl, rfl, rfl, rfl, rfl, rfl, fun i => setCaus_same4 w.ths _ i⟩

section
variable {w w' : World} {s : SCData2}

/-- a `JoinHandle` notify is not a `Notify` of the program -/
theorem spawned_ne_notify (c : Ctx w s) {ni : Nat} (hn : ni < w.prog.cfg.nNotifies) :
    ∀ b t n, (b, t, n) ∈ w.spawned → n ≠ w.notifyObj ni := by
  intro b t n hmem e
  obtain ⟨_, _, nt, ds, hv, _⟩ := c.r.o.y.sp b t n hmem
  obtain ⟨ds', hv', _⟩ := c.r.o.n.n ni hn
  rw [e] at hv
  have : objView2 w.exec.objs (w.notifyObj ni) = objView2 w.exec.objs (notifyIdx w.prog ni) := rfl
  rw [this, hv'] at hv; cases hv

/-- `Notify::notify` on object `o` followed by the rewriting of the active thread's control record -/
theorem notify_wake (c : Ctx w s) {o : Nat} {ns : NotifySt} (hobj : w.exec.objs[o]? = some (.notify ns))
    {w1 : World} (h1 : w.notifyEffect o = .ok w1) {g : TCtl → TCtl} {w2 : World}
    (hp : w2.prog = w1.prog) (hs : w2.spawned = w1.spawned) (ht : w2.tid = w1.tid)
    (hc : w2.ctl = w1.ctl.modify w1.tid g) (he : w2.exec = w1.exec) (hjnd : Jnd w2) : Res w w2 := by
  obtain ⟨hc1, ht1, hp1, hs1, hpath, hact1, ⟨ns', _, _, _, hobjs⟩, hself, hths⟩ := notify_desc hobj h1
  have hview : objView2 w.exec.objs o = some (.notify ns.spurious ns.notified ns.didSpur) := objView2_of hobj
  have hobjs2 : w2.exec.objs = w.exec.objs.set o (.notify ns') := by rw [he]; exact hobjs
  have hths2 : ∀ i, w2.ths.get i = w1.ths.get i := by
    intro i; show w2.exec.threads.get i = _; rw [he]; rfl
  refine Res.local (JB2.wake_step (g := g) (o := o) c.j c.act c.run (hp.trans hp1) (hs.trans hs1)
    (ht.trans ht1) (by rw [hc, hc1, ht1]) (by rw [hths2, hself]) ?_ ?_ ?_ hjnd) (by rw [he]; exact hpath)
    (by show w2.exec.threads.isActive = true; rw [he]; exact hact1.trans c.active)
  · intro i _ e
    rw [hths2]; exact hths i e
  · intro ws hws
    rw [hview] at hws; cases hws
  · intro n v hn hv
    rw [hobjs2, objView2_set_ne _ _ hn]; exact hv

theorem step_nNotify (c : Ctx w s) {ni : Nat} (hn : ni < w.prog.cfg.nNotifies)
    (hop : opAt2 w = some (.nNotify ni)) (h : w.runOp (w.ctlOf w.tid) (.nNotify ni) = .ok w') : Res w w' := by
  obtain ⟨ns, hobj, _⟩ := notify_obj c.r hn
  rw [runOp_nNotify] at h
  split at h
  · have hop' : opOfCtl w.prog { w.ctlOf w.tid with stage := 1 } = some (.nNotify ni) := hop
    refine branch_stage (g := fun c => { c with stage := 1 }) c h rfl rfl id ?_ (by intro hb; cases hb)
    unfold OpAt; rw [hop']; simp; rfl
  · obtain ⟨w1, h1, h⟩ := Refine.bind_ok h
    simp only [pure, Except.pure] at h
    cases h
    obtain ⟨hc1, ht1, hp1, hs1, _, _, ⟨ns', _, _, _, hobjs⟩, _, _⟩ := notify_desc hobj h1
    refine notify_wake (g := completeF .unit) c hobj h1 rfl rfl rfl rfl rfl ?_
    refine Jnd.complete c .unit hc1 ht1 hp1 hs1 ?_
    intro b i n hm a d hv
    rw [hobjs]
    exact ⟨a, d, by rw [objView2_set_ne _ _ (spawned_ne_notify c hn b i n hm)]; exact hv⟩

/-- `JB2` only reads the program, the tables and the execution's threads and objects -/
theorem JB2.congr (hJ : JB2 w) (hp : w'.prog = w.prog) (hs : w'.spawned = w.spawned) (hc : w'.ctl = w.ctl)
    (ht : w'.exec.threads = w.exec.threads) (ho : w'.exec.objs = w.exec.objs) : JB2 w' := by
  have htid : w'.tid = w.tid := by show w'.exec.threads.activeId = _; rw [ht]; rfl
  have hths : w'.ths = w.ths := ht
  refine ⟨fun i hi => ?_, by rw [hs]; exact hJ.spt, by rw [hs]; exact hJ.sp0, ?_⟩
  · have := hJ.thr i (by rw [← hc]; exact hi)
    rw [hp, hs, ho, htid, hths]
    unfold World.ctlOf
    rw [hc]
    exact this
  · intro b i n hm h10
    rw [hs] at hm
    have h10' : 10 ≤ (w.ctlOf i).fin := by
      unfold World.ctlOf at h10 ⊢; rw [hc] at h10; exact h10
    rcases hJ.jnd b i n hm h10' with ⟨a, d, hv⟩ | ⟨j, k, hj, hk, hop⟩
    · exact .inl ⟨a, d, by rw [ho]; exact hv⟩
    · refine .inr ⟨j, k, by rw [hc]; exact hj, ?_, ?_⟩
      · unfold World.ctlOf at hk ⊢; rw [hc]; exact hk
      · unfold World.ctlOf at hop ⊢; rw [hc, hp]; exact hop

/-- `nWait`, second half: the flag is consumed -/
theorem step_nWait1 (c : Ctx w s) {ni : Nat} (hn : ni < w.prog.cfg.nNotifies) {w1 : World}
    (h1 : w.notifyWait2 (w.notifyObj ni) = .ok w1) :
    Res w (({ w1 with notifyWaiting := w1.notifyWaiting.set ni false } : World).complete .unit) := by
  obtain ⟨ns, hobj, _⟩ := notify_obj c.r hn
  obtain ⟨hnt, hc1, ht1, hp1, hs1, hpath, hact1, hobjs, hths⟩ := wait2_desc hobj h1
  have hview : objView2 w.exec.objs (w.notifyObj ni) = some (.notify ns.spurious ns.notified ns.didSpur) :=
    objView2_of hobj
  refine quiet_complete (w0 := { w1 with notifyWaiting := w1.notifyWaiting.set ni false }) c .unit hc1 ht1 hp1
    hs1 hpath (hact1.trans c.active) (hths _).st (fun i _ _ => hths i) ?_ ?_
  · intro i
    show ∀ n v, _ → _ → ∃ v', objView2 w1.exec.objs n = some v' ∧ _
    rw [hobjs]
    exact vkeep_set hview (fun hs => by rw [hnt] at hs; exact absurd hs (by simp [Stuck]))
  · intro b i n hm a d hv
    show ∃ a' d', objView2 w1.exec.objs n = _
    rw [hobjs]
    exact ⟨a, d, by rw [objView2_set_ne _ _ (spawned_ne_notify c hn b i n hm)]; exact hv⟩

/-- the operation recorded at the branch point of `nWait` / `join` fits the place -/
theorem opAt_nWait {p : Prog} {sp : List (Nat × Nat × Nat)} {i : Nat} {c : TCtl} {ni : Nat} {bl : Bool}
    (hop : opOfCtl p c = some (.nWait ni)) :
    OpAt p sp i { c with stage := 1 } (some ⟨notifyIdx p ni, .opaque, bl⟩) := by
  have hop' : opOfCtl p { c with stage := 1 } = some (.nWait ni) := hop
  unfold OpAt; rw [hop']; simp

theorem opAt_nWait2 {p : Prog} {sp : List (Nat × Nat × Nat)} {i : Nat} {c : TCtl} {ni : Nat}
    (hop : opOfCtl p c = some (.nWait ni)) : OpAt p sp i { c with stage := 2 } none := by
  have hop' : opOfCtl p { c with stage := 2 } = some (.nWait ni) := hop
  unfold OpAt; rw [hop']; simp

/-- `nWait`, first half: the decision about the spurious return, then the branch point (blocked if the flag is
clear) or, for a spurious return, a yield -/
theorem step_nWait0 (c : Ctx w s) {ni : Nat} (hn : ni < w.prog.cfg.nNotifies)
    (hop : opAt2 w = some (.nWait ni)) {w1 : World} {st : Nat}
    (h1 : ({ w with notifyWaiting := w.notifyWaiting.set ni true } : World).notifyWait1 (w.notifyObj ni) =
      .ok (w1, st)) : Res w (w1.modCtl w.tid fun c => { c with stage := st }) := by
  obtain ⟨ns, hobj, hsp⟩ := notify_obj c.r hn
  have hview : objView2 w.exec.objs (notifyIdx w.prog ni) = some (.notify ns.spurious ns.notified ns.didSpur) :=
    objView2_of hobj
  let w0 : World := { w with notifyWaiting := w.notifyWaiting.set ni true }
  have hobj0 : w0.exec.objs[w.notifyObj ni]? = some (.notify ns) := hobj
  have hJ0 : JB2 w0 := c.j.congr rfl rfl rfl rfl rfl
  have hop' : opOfCtl w.prog (w.ctlOf w.tid) = some (.nWait ni) := hop
  -- the branch point, from a world `wb` that differs from `w` in `notifyWaiting` and the path only
  have branchCase : ∀ (wb : World), wb.prog = w.prog → wb.spawned = w.spawned → wb.ctl = w.ctl →
      wb.exec.threads = w.exec.threads → wb.exec.objs = w.exec.objs → wb.panicking = w.panicking →
      ∀ w2, wb.branch (w.notifyObj ni) .opaque (!ns.notified) (!ns.notified) = .ok w2 →
      JB2 (w2.modCtl w.tid fun c => { c with stage := 1 }) ∧
      ∃ (e0 : Exec) (x : Exec × Bool), e0.path = wb.exec.path ∧ e0.schedule w.panicking = .ok x ∧ w2.exec = x.1 := by
    intro wb hp hs hc ht ho hpk w2 hb
    have hJb : JB2 wb := c.j.congr hp hs hc ht ho
    have htid : wb.tid = w.tid := by show wb.exec.threads.activeId = _; rw [ht]; rfl
    have hths : wb.ths = w.ths := ht
    rw [branch_point] at hb
    obtain ⟨x, hx, rfl⟩ := bind_pure_ok hb
    refine ⟨?_, { wb.exec with threads := wb.ths.modifyActive _ }, x, rfl, by rw [← hpk]; exact hx, rfl⟩
    refine JB2.sched (w := wb) (g := fun c => { c with stage := 1 }) (e := x.1) (b := x.2) hJb
      (by rw [htid, ht]; exact c.hin) (by rw [htid, hc]; exact c.act) hx rfl
      (by show wb.ctl.modify w.tid _ = _; rw [htid]) rfl rfl rfl rfl id ?_
    have hctl : wb.ctlOf w.tid = w.ctlOf w.tid := by unfold World.ctlOf; rw [hc]
    rw [hp, hs, ho, htid, hths, hctl]
    refine ⟨fun hb => ?_, fun ht => ?_, fun _ => by rw [branchF_operation]; exact opAt_nWait hop'⟩
    · rw [branchF_state] at hb
      cases hnt : ns.notified with
      | true => rw [hnt] at hb; exact absurd hb c.run.1
      | false =>
        exact .nWait ni true ns.spurious ns.didSpur hop' rfl (by rw [branchF_operation]; rfl)
          (by rw [hview, hnt])
    · rw [branchF_state] at ht
      cases hnt : ns.notified with
      | true => rw [hnt] at ht; exact absurd ht c.run.2
      | false => rw [hnt] at ht; cases ht
  by_cases hd : (ns.spurious && !ns.didSpur) = false
  · rw [notifyWait1_plain hobj0 hd] at h1
    obtain ⟨w2, hb, he⟩ := map_ok h1
    cases he
    obtain ⟨hJ', e0, x, hpath, hsch, hex⟩ := branchCase w0 rfl rfl rfl rfl rfl rfl w1 hb
    refine ⟨hJ', ?_⟩
    show PStep w.exec.path w1.exec.path w1.exec.threads.isActive
    rw [hex]
    exact PStep.sched e0 x.1 w.panicking x.2 hpath hsch
  · have hds : ns.didSpur = false := by
      cases hh : ns.didSpur with
      | false => rfl
      | true => rw [hh] at hd; simp at hd
    rw [notifyWait1_maySpur hobj0 hsp hds] at h1
    split at h1
    · cases h1
    · next p hbs =>
      -- the spurious return
      obtain ⟨w2, hy, he⟩ := map_ok h1
      cases he
      let wy : World := (w0.setPath p).setObj (w.notifyObj ni) (.notify { ns with didSpur := true })
      have hJy : JB2 wy := by
        refine JB2.quiet (g := id) c.j c.act c.run rfl rfl rfl
          (by show w.ctl = _; rw [modify_id' _ _ id (fun _ => rfl)]) rfl (fun i _ _ => Same4.refl _) ?_ ?_
        · intro i
          show ∀ n v, _ → _ → ∃ v', objView2 (w.exec.objs.set (w.notifyObj ni) _) n = some v' ∧ _
          refine vkeep_set hview (fun hst => ?_)
          cases hnt : ns.notified with
          | true => rw [hnt] at hst; exact absurd hst (by simp [Stuck])
          | false =>
            exact .inr (.inr ⟨ns.spurious, ns.didSpur, ns.spurious, true, rfl, by simp [view2]⟩)
        · refine c.j.jnd.modify (g := id) c.act rfl rfl
            (by show w.ctl = _; rw [modify_id' _ _ id (fun _ => rfl)]) rfl (Nat.le_refl _) (fun _ h => h) ?_
          intro b i n hm a d hv
          show ∃ a' d', objView2 (w.exec.objs.set (w.notifyObj ni) _) n = _
          exact ⟨a, d, by rw [objView2_set_ne _ _ (spawned_ne_notify c hn b i n hm)]; exact hv⟩
      rw [yield_point] at hy
      obtain ⟨x, hx, rfl⟩ := bind_pure_ok hy
      refine ⟨JB2.sched (w := wy) (g := fun c => { c with stage := 2 }) (e := x.1) (b := x.2) hJy c.hin c.act hx
        rfl rfl rfl rfl rfl rfl id ?_, ?_⟩
      · exact ⟨fun hb => (by cases hb), fun ht => (by cases ht), fun _ => opAt_nWait2 hop'⟩
      · show PStep w.exec.path x.1.path x.1.threads.isActive
        exact PStep.spur p true w0.panicking ({ wy.exec with threads := wy.ths.modifyActive _ }) x.1 w.panicking
          x.2 hbs rfl hx
    · next p hbs =>
      obtain ⟨w2, hb, he⟩ := map_ok h1
      cases he
      obtain ⟨hJ', e0, x, hpath, hsch, hex⟩ := branchCase (w0.setPath p) rfl rfl rfl rfl rfl rfl w1 hb
      refine ⟨hJ', ?_⟩
      show PStep w.exec.path w1.exec.path w1.exec.threads.isActive
      rw [hex]
      exact PStep.spur p false w0.panicking e0 x.1 w.panicking x.2 hbs hpath hsch

theorem step_nWait (c : Ctx w s) {ni : Nat} (hn : ni < w.prog.cfg.nNotifies)
    (hop : opAt2 w = some (.nWait ni)) (h : w.runOp (w.ctlOf w.tid) (.nWait ni) = .ok w') : Res w w' := by
  rw [runOp_nWait] at h
  split at h
  · simp only [bind, Except.bind, pure, Except.pure] at h
    split at h
    · cases h
    · obtain ⟨⟨w1, st⟩, h1, h⟩ := Refine.bind_ok h
      cases h
      exact step_nWait0 c hn hop h1
  · obtain ⟨w1, h1, h⟩ := Refine.bind_ok h
    simp only [pure, Except.pure] at h
    cases h
    exact step_nWait1 c hn h1
  · cases h
    exact quiet_complete (w0 := { w with notifyWaiting := w.notifyWaiting.set ni false }) c _ rfl rfl rfl rfl rfl
      c.active rfl (fun i _ _ => Same4.refl _) (fun i n v hv _ => ⟨v, hv, .inl rfl⟩)
      (fun b i n _ a d hv => ⟨a, d, hv⟩)

end

end Deadlock2
end LoomVerif

/-
Race exactness, part 13: the initial world is related (with clocks) to the initial reference state, and the step
theorem lifts to whole runs of `World.runLoop`.
-/
import LoomVerif.Proofs.RaceMain

namespace LoomVerif
namespace Race
open Refine Sy C07 C08 Clocks

/-- the thread table at the start of an iteration, with its content: the main thread alone, active, all its clocks
zero, no pending operation (`Exec.new`, `Exec.step`) -/
def FreshClocks (e : Exec) : Prop := e.threads.threads = [{}] ∧ e.threads.active = some 0

theorem freshClocks_new (mt mb : Nat) (b : Option Nat) (x : Bool) : FreshClocks (Exec.new mt mb b x) := ⟨rfl, rfl⟩

theorem freshClocks_step {e e' : Exec} (h : e.step = some e') : FreshClocks e' := by
  unfold Exec.step at h
  cases hp : e.path.step with
  | none => rw [hp] at h; cases h
  | some p => rw [hp] at h; cases h; exact ⟨rfl, rfl⟩

theorem FreshClocks.fresh {e : Exec} (h : FreshClocks e) : FreshExec e := ⟨by rw [h.1]; rfl, h.2⟩

theorem xinv_zero (n : Nat) (β : Nat → Nat) : XInv n β CS.zero CS.zero := by
  have h0 : ∀ i j : Nat, VV.zero.get i ≤ VV.zero.get j := by intro i j; rw [get_zero, get_zero]; exact Nat.le_refl _
  exact ⟨fun _ _ _ _ _ _ => ⟨fun _ => h0 _ _, fun _ => h0 _ _⟩, fun _ _ _ _ _ => ⟨fun _ => h0 _ _, fun _ => h0 _ _⟩,
    fun _ _ => rfl, fun _ _ => rfl⟩

theorem init_vc (p : Prog) (b : Nat) : (SC.init p).vc b = VV.zero := by
  unfold SC.St.vc SC.St.th SC.init
  simp only [List.getD, List.getElem?_map]
  cases (List.range p.threads.length)[b]? <;> rfl

theorem getD_replicate_zero (n i : Nat) : (List.replicate n VV.zero).getD i VV.zero = VV.zero := by
  simp only [List.getD, List.getElem?_replicate]
  split <;> rfl

/-- **the initial world is related, with clocks, to the initial reference state** -/
theorem init_RC {prog : Prog} {e : Exec} {w : World} (hwf : WF prog) (hnt : prog.threads.length ≤ 5)
    (hf : FreshClocks e) (h : World.init prog e = .ok w) : RC w (SC.init prog) ∧ w.prog = prog ∧ w.events = [] := by
  obtain ⟨hR, hp, hev⟩ := init_R hwf hf.fresh h
  obtain ⟨_, hc, hs, _, hth, A, rest, hA, hobjs⟩ := init_shape h
  refine ⟨?_, hp, hev⟩
  have hget : ∀ i, w.ths.get i = {} := by
    intro i
    show w.exec.threads.get i = _
    rw [hth]
    unfold Threads.get
    rw [hf.1]
    cases i <;> rfl
  have hcaus : e.threads.caus = VV.zero := by
    unfold Threads.caus Threads.activeT Threads.get
    rw [hf.1]
    cases e.threads.activeId <;> rfl
  have hcell : ∀ c, c < prog.cfg.nCells →
      w.exec.objs[w.cellObj c]? = some (.cell { readAccess := VV.zero, writeAccess := VV.zero }) := by
    intro c hc'
    have : w.cellObj c = prog.cfg.nAtomics + c := by unfold World.cellObj World.cfg; rw [hp]
    rw [this, hobjs, hcaus, List.append_assoc, List.append_assoc, List.getElem?_append_right (by omega)]
    rw [List.getElem?_append_left (by simp; omega)]
    simp [hA, hc']
  have hmtx : ∀ m, m < prog.cfg.nMutexes → w.exec.objs[w.mutexObj m]? = some (.mutex {}) := by
    intro m hm
    have : w.mutexObj m = prog.cfg.nAtomics + prog.cfg.nCells + m := by
      unfold World.mutexObj World.cfg; rw [hp]
    rw [this, hobjs, List.append_assoc, List.append_assoc, List.getElem?_append_right (by omega)]
    rw [List.getElem?_append_right (by simp; omega)]
    rw [List.getElem?_append_left (by simp; omega)]
    simp [List.getElem?_replicate, hA]
    omega
  refine ⟨hR, fragSt_init prog, by rw [hp]; exact hnt, ?_, CS.zero, CS.zero, ?_, ?_, good_zero, good_zero,
    xinv_zero _ _⟩
  · refine ⟨?_, ?_, ?_, ?_, ?_, ?_, ?_⟩
    · intro i _; unfold trel; rw [hget]
    · intro i o _ ho; unfold topo at ho; rw [hget] at ho; cases ho
    · intro i b j n _ _ hm; rw [hs] at hm; cases hm
    · intro b j n hm; rw [hs] at hm; cases hm
    · intro b j n hm; rw [hs] at hm; cases hm
    · intro e1 e2 h1; rw [hs] at h1; cases h1
    · intro c hc'
      rw [hp] at hc'
      exact ⟨_, hcell c hc', rfl, rfl⟩
  · refine ⟨?_, ?_, ?_, ?_⟩
    · intro m hm
      rw [hp] at hm
      rw [objHb_of (hmtx m hm)]; rfl
    · intro k c hc'
      rw [hp] at hc'
      rw [objAcc_of k (hcell c hc')]
      cases k <;> rfl
    · intro i _; unfold tcaus; rw [hget]; exact le_refl _
    · intro i _; unfold tcaus; rw [hget]; exact zero_le _
  · rw [hp]
    refine ⟨fun b => (init_vc prog b).symm, ?_, ?_, ?_, by simp [SC.init], by simp [SC.init], by simp [SC.init],
      ?_, ?_⟩
    · intro m; exact (getD_replicate_zero _ _).symm
    · intro c; exact (getD_replicate_zero _ _).symm
    · intro c; exact (getD_replicate_zero _ _).symm
    · intro c
      show (List.replicate prog.cfg.nCells false).getD c false = false
      simp only [List.getD, List.getElem?_replicate]
      split <;> rfl
    · intro c
      show (List.replicate prog.cfg.nCells 0).getD c 0 = 0
      simp only [List.getD, List.getElem?_replicate]
      split <;> rfl

/-! ### runs -/

/-- what a run of the twin from a related world amounts to in the reference semantics -/
def RunOut (p : Prog) (w' : World) : Option Panic → Prop
  | none =>
    ∃ s', SCExec p (SC.init p) s' ∧ RC w' s' ∧
      SCData.Run p (data (SC.init p)) (w'.events.reverse.map triple) (data s')
  | some (.causality k) =>
    ∃ s' t, SCExec p (SC.init p) s' ∧ RC w' s' ∧
      SCData.Run p (data (SC.init p)) (w'.events.reverse.map triple) (data s') ∧
      t = body w' w'.tid ∧ SC.enabled p s' t = true ∧ SC.step p s' t = [(s'.tick t).stop (.race k)]
  | some _ => True

theorem enabled_cell {w : World} {s : SC.St} (hwf : WF w.prog) (hRC : RC w s) (hact : w.tid < w.ctl.length)
    {op : Op} (hop : opAt w = some op) (hl : ∀ m, op ≠ .lock m) (hj : ∀ b, op ≠ .join b) :
    SC.enabled w.prog s (body w w.tid) = true := by
  rw [SC.enabled_data hRC.fs.1 (hRC.fs.2 _) (fun op ho => (fragProg_of_wf hwf) _ _ _ ho)]
  exact enabled_plain hRC.r hact hop hl hj

/-- the simulation with clocks along `runLoop` -/
theorem runLoop_clock (p : Prog) (hwf : WF p) :
    ∀ (fuel : Nat) (w w' : World) (s : SC.St) (r : Option Panic), w.prog = p → RC w s → InRange w →
      SCExec p (SC.init p) s →
      SCData.Run p (data (SC.init p)) (w.events.reverse.map triple) (data s) →
      World.runLoop fuel w = (w', r) → RunOut p w' r := by
  intro fuel
  induction fuel with
  | zero =>
    intro w w' s r _ _ _ _ _ h
    simp only [World.runLoop] at h
    cases h
    trivial
  | succ fuel ih =>
    intro w w' s r hp hRC hrange hex hrun h
    unfold World.runLoop at h
    split at h
    · cases h
      exact ⟨s, hex, hRC, hrun⟩
    · next hact =>
      have hact' : w.ths.isActive = true := by simpa using hact
      have hin : w.tid < w.ctl.length := by rw [hRC.r.lenCtl]; exact hrange hact'
      have hwf' : WF w.prog := by rw [hp]; exact hwf
      split at h
      · next e hstep =>
        cases h
        cases e <;> try trivial
        case causality k =>
          have hcell := causality_only_at_cells hwf' hRC hin hstep
          refine ⟨s, body w w.tid, hex, hRC, hrun, rfl, ?_, ?_⟩
          · rw [← hp]
            rcases hcell with ⟨c, hop, _⟩ | ⟨c, v, hop, _⟩
            · exact enabled_cell hwf' hRC hin hop (by simp) (by simp)
            · exact enabled_cell hwf' hRC hin hop (by simp) (by simp)
          · rw [← hp]
            rcases hcell with ⟨c, hop, hc⟩ | ⟨c, v, hop, hc⟩
            · exact (read_panics_iff_races hRC hin hop hc k).1 hstep
            · exact (write_panics_iff_races hRC hin hop hc k).1 hstep
      · next w1 hstep =>
        have hr1 : InRange w1 := step_inRange hwf' hRC.r hin hstep
        obtain ⟨hp1, hsim⟩ := step_clock hwf' hRC hin hact' hstep
        rcases hsim with ⟨hRC1, hev⟩ | ⟨s1, hen, hst, hRC1, l, hl, hev⟩
        · exact ih w1 w' s r (hp1.trans hp) hRC1 hr1 hex (by rw [hev]; exact hrun) h
        · rw [hp] at hen hst hl
          refine ih w1 w' s1 r (hp1.trans hp) hRC1 hr1 (.step hex hen hst) ?_ h
          rw [triple_step hev]
          have hen' : SCData.enabled p (data s) (body w w.tid) = true := by
            rw [← SC.enabled_data hRC.fs.1 (hRC.fs.2 _) (fun op ho => (fragProg_of_wf hwf) _ _ _ ho)]
            exact hen
          exact SCData.Run.step hrun hen' hl

end Race
end LoomVerif

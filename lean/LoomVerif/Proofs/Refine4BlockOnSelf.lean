/-
Refinement, FUTURES fragment: the simulation for the stages 50, 51, 52, 53 of a MODE-5 call `blockOn f 5` (the
self-waking future): 50 the branch point of the self-wake (stutter); 51 the self-wake and the first half of
`Notify::wait` (phase 1 → 4, or — the one spurious return — 1 → 4 → 1); 53 the second half of the wait (phase 4 → 1);
52 the second poll (phase 1 → 5).
-/
import LoomVerif.Proofs.Refine4BlockOn0

set_option linter.unusedSimpArgs false
set_option linter.unusedVariables false

namespace LoomVerif
namespace Refine4
open Refine Sy Refine2 C20

section
variable {w w' : World} {s : SC.St}

/-- the mode of a `blockOn` at one of the stages 50, 51, 52, 53 is 5 -/
theorem mode5_of_stage (hR : R4 w s) (hact : w.tid < w.ctl.length) {f mode : Nat}
    (hop : opAt w = some (.blockOn f mode))
    (hst : (w.ctlOf w.tid).stage = 50 ∨ (w.ctlOf w.tid).stage = 51 ∨ (w.ctlOf w.tid).stage = 52 ∨
      (w.ctlOf w.tid).stage = 53) : mode = 5 := by
  have := (rel4 hR hact).2.2.2.2.2.2.1
  rw [opOfCtl_active, hop] at this
  have h' : boStageOk mode (w.ctlOf w.tid).stage = true := this
  rcases hst with e | e | e | e <;> rw [e] at h' <;> simpa [boStageOk] using h'

theorem sim_blockOn50 (hwf : WF4 w.prog) (hR : R4 w s) (hact : w.tid < w.ctl.length) {f mode : Nat}
    (hop : opAt w = some (.blockOn f mode)) (hst : (w.ctlOf w.tid).stage = 50)
    (h : w.stepActive = .ok w') : Sim4 w s w' := by
  have hm := mode5_of_stage hR hact hop (.inl hst)
  subst hm
  rw [stepActive_op hop] at h
  have h' : w.blockOnStage (w.ctlOf w.tid) f 5 = .ok w' := by
    simp only [World.runOp] at h; exact h
  rw [blockOn_stage50 w _ f 5 hst] at h'
  clear h
  have hs := branch_sched h'
  refine ⟨hs.fr.1, ⟨s, .nil s, ?_⟩, hs.inRange⟩
  have hv : view4 w' = { view4 w with ctl := w.ctl.modify w.tid (fun c => { c with stage := 51 }) } := by
    rw [hs.view, view4_setStage]
  have hopc : opOfCtl w.prog (w.ctlOf w.tid) = some (.blockOn f 5) := hop
  refine R4_quiet hR hact _ hv rfl rfl rfl rfl rfl rfl ?_ ?_ ?_ ?_ ?_
  · rw [hop]; rfl
  · rw [hop, hst]; rfl
  · rw [hop, hst]; rfl
  · have hopc' : opOfCtl w.prog { w.ctlOf w.tid with stage := 51 } = some (.blockOn f 5) := hop
    simp only [fattr, inflS, pendN, callOf, aw25, hopc, hopc', hst]
    rfl
  · intro x hx; rw [hop] at hx; cases hx

/-- stage 52: the second poll of the self-waking future: Ready (phase 1 → 5) -/
theorem sim_blockOn52 (hwf : WF4 w.prog) (hR : R4 w s) (hact : w.tid < w.ctl.length) {f mode : Nat}
    (hop : opAt w = some (.blockOn f mode)) (hst : (w.ctlOf w.tid).stage = 52)
    (h : w.stepActive = .ok w') : Sim4 w s w' := by
  have hm := mode5_of_stage hR hact hop (.inr (.inr (.inl hst)))
  subst hm
  rw [stepActive_op hop] at h
  have h' : w.blockOnStage (w.ctlOf w.tid) f 5 = .ok w' := by
    simp only [World.runOp] at h; exact h
  rw [blockOn_stage52 w _ f 5 hst] at h'
  clear h
  have hs := branch_sched h'
  have hv : view4 w' = { view4 w with ctl := w.ctl.modify w.tid (fun c => { c with stage := 40 }) } := by
    rw [hs.view, view4_setStage]
  have hopc : opOfCtl w.prog (w.ctlOf w.tid) = some (.blockOn f 5) := hop
  have hopc' : opOfCtl w.prog { w.ctlOf w.tid with stage := 40 } = some (.blockOn f 5) := hop
  have hrel := rel4 hR hact
  obtain ⟨_, _, hpl, _, _⟩ := act4 hR hact
  have hsy := sync4 hR hact (by rw [hop, hst]; rfl)
  obtain ⟨hrun1, hrun2⟩ := running4 hR hact hop
  have hph : (s.th (w.ctlOf w.tid).body).phase = 1 := by rw [hsy.2.2.2, hop, hst]; rfl
  -- the call
  have hca : caOf w.prog w.ctl w.tid = some (f, 5, true) := by
    show callOf w.prog (w.ctlOf w.tid) = _
    simp only [callOf, hopc, hst]; rfl
  obtain ⟨hf, nt, ds, hnv, hspur, hnot, hpol⟩ := hR.f.c.call w.tid f 5 true hact hca
  have hpolled : ((data4 s).fut f).polled = true := hpol rfl
  -- the reference step: phase 1 → 5
  obtain ⟨s', hstep, hdata⟩ := sc_step_bo1_self (f := f) hpl (hsy.1.trans hop) hph
  rw [hpolled, if_pos rfl] at hdata
  have hen : SC.enabled w.prog s (w.ctlOf w.tid).body = true :=
    sc_enabled_op hR.verdict hpl hrun1 hrun2 (hsy.1.trans hop) (hwf.opOk hop) (by
      show ((s.th _).phase != 4 || _) = true
      rw [hph]; rfl)
  have hex : SCExec2 w.prog s s' := exec_step hen hstep
  refine ⟨hs.fr.1, ⟨s', hex, ?_⟩, hs.inRange⟩
  have hdf : (data4 s').futs = (data4 s).futs := by rw [hdata]; rfl
  have hda : (data4 s').atoms = (data4 s).atoms := by rw [hdata]; rfl
  have hdt : (data4 s').ths = (data4 s).ths.modify (w.ctlOf w.tid).body (fun h => { h with phase := 5 }) := by
    rw [hdata]; rfl
  have hdv : (data4 s').verdict = none := by rw [hdata]; exact hR.verdict
  have r9 := hrel.2.2.2.2.2.2.2.2
  rw [hopc, hst] at r9
  have r9' : ((data4 s).ths.getD (w.ctlOf w.tid).body {}).pc = (w.ctlOf w.tid).pc ∧
      ((data4 s).ths.getD (w.ctlOf w.tid).body {}).rets = (w.ctlOf w.tid).results ∧
      ((data4 s).ths.getD (w.ctlOf w.tid).body {}).phase = 1 := r9
  unfold R4
  refine R4_step hR hact (fun c => { c with stage := 40 }) (fun h => { h with phase := 5 }) (view4 w).futs
    (view4 w).objs hv hdt hdv rfl (Nat.le_refl _) ?_ ?_ id (fun _ _ _ h => h) ?_
  · refine hrel.of rfl rfl rfl rfl rfl rfl rfl (by rw [hopc']; rfl) (by rw [hopc']; intro x hx; cases hx) ?_
    rw [hopc']
    exact ⟨r9'.1, r9'.2.1, rfl⟩
  · intro hne
    exact absurd (fin_zero4 hR hact hop) hne
  · refine (RF.sameAttrs hact _ hR.f ?_).congr_d hdf hda
    show fattr w.prog { w.ctlOf w.tid with stage := 40 } = fattr w.prog (w.ctlOf w.tid)
    simp only [fattr, inflS, pendN, callOf, aw25, hopc, hopc', hst]
    rfl

/-- stage 53: the second half of `Notify::wait`: the notification is consumed (phase 4 → 1) -/
theorem sim_blockOn53 (hwf : WF4 w.prog) (hR : R4 w s) (hact : w.tid < w.ctl.length) {f mode : Nat}
    (hop : opAt w = some (.blockOn f mode)) (hst : (w.ctlOf w.tid).stage = 53)
    (hok : resumeOk4 w = true)
    (h : w.stepActive = .ok w') : Sim4 w s w' := by
  have hm := mode5_of_stage hR hact hop (.inr (.inr (.inr hst)))
  subst hm
  rw [stepActive_op hop] at h
  have h' : w.blockOnStage (w.ctlOf w.tid) f 5 = .ok w' := by
    simp only [World.runOp] at h; exact h
  rw [blockOn_stage53 w _ f 5 hst] at h'
  clear h
  obtain ⟨w1, h1, h2⟩ := Refine.bind_ok h'
  clear h'
  simp only [pure, Except.pure] at h2
  cases h2
  have hnp : noPending w (w.futs.getD f {}).notify = true := by
    unfold resumeOk4 at hok
    rw [hop] at hok
    simpa [hst] using hok
  have hnopend := noPending_spec hnp
  obtain ⟨sp, ds, hvo, hk1, hv1⟩ := notifyWait2_view h1
  have hlen : w.ctl.length = w.exec.threads.threads.length := hR.lenCtl
  have hopc : opOfCtl w.prog (w.ctlOf w.tid) = some (.blockOn f 5) := hop
  have hopc' : opOfCtl w.prog { w.ctlOf w.tid with stage := 52 } = some (.blockOn f 5) := hop
  have hrel := rel4 hR hact
  obtain ⟨_, _, hpl, _, _⟩ := act4 hR hact
  have hsy := sync4 hR hact (by rw [hop, hst]; rfl)
  obtain ⟨hrun1, hrun2⟩ := running4 hR hact hop
  have hph : (s.th (w.ctlOf w.tid).body).phase = 4 := by rw [hsy.2.2.2, hop, hst]; rfl
  -- the call
  have hca : caOf w.prog w.ctl w.tid = some (f, 5, true) := by
    show callOf w.prog (w.ctlOf w.tid) = _
    simp only [callOf, hopc, hst]; rfl
  obtain ⟨hf, nt0, ds0, hnv, hspur, hnot, hpol⟩ := hR.f.c.call w.tid f 5 true hact hca
  have hnv' : nvOf (view4 w).objs (w.futs.getD f {}).notify = some (true, nt0, ds0) := hnv
  rw [nvOf_some, hvo] at hnv'
  cases hnv'
  have hspur' : ((data4 s).futs.getD f {}).spurUsed = ds := hspur
  have hpolled : ((data4 s).futs.getD f {}).polled = true := hpol rfl
  have hnotd : ((data4 s).futs.getD f {}).notified = true := hnot.2 (.inl rfl)
  have hnots : (s.futs.getD f {}).notified = true := by
    have : (dfut (s.futs.getD f {})).notified = true := by
      rw [← data4_fut]; exact hnotd
    exact this
  -- the reference step: phase 4 → 1
  obtain ⟨s', hstep, hdata⟩ := sc_step_bo4 (f := f) (mode := 5) hpl (hsy.1.trans hop) hph
  have hen : SC.enabled w.prog s (w.ctlOf w.tid).body = true :=
    sc_enabled_op hR.verdict hpl hrun1 hrun2 (hsy.1.trans hop) (hwf.opOk hop) (by
      show ((s.th _).phase != 4 || _) = true
      rw [hnots]; simp)
  have hex : SCExec2 w.prog s s' := exec_step hen hstep
  refine ⟨hk1.1.1, ⟨s', hex, ?_⟩,
    inRange_of (w := w) hk1.2.1 (Nat.le_of_eq hk1.2.2.symm) (by rw [← hlen]; exact hact)⟩
  have hv : view4 (w1.setStage 52) = { view4 w with
      ctl := w.ctl.modify w.tid (fun c => { c with stage := 52 }),
      objs := (view4 w).objs.set (w.futs.getD f {}).notify (.notify true false ds) } := by
    rw [view4_setStage, hv1, hk1.1.2.1, hk1.2.1]
  have hdf : (data4 s').futs = (data4 s).futs.modify f consumeF := by rw [hdata]; rfl
  have hda : (data4 s').atoms = (data4 s).atoms := by rw [hdata]; rfl
  have hdt : (data4 s').ths = (data4 s).ths.modify (w.ctlOf w.tid).body (fun h => { h with phase := 1 }) := by
    rw [hdata]; rfl
  have hdv : (data4 s').verdict = none := by rw [hdata]; exact hR.verdict
  have r9 := hrel.2.2.2.2.2.2.2.2
  rw [hopc, hst] at r9
  have r9' : ((data4 s).ths.getD (w.ctlOf w.tid).body {}).pc = (w.ctlOf w.tid).pc ∧
      ((data4 s).ths.getD (w.ctlOf w.tid).body {}).rets = (w.ctlOf w.tid).results ∧
      ((data4 s).ths.getD (w.ctlOf w.tid).body {}).phase = 4 := r9
  have hset := view_set_notify (a' := true) (b' := false) (c' := ds) hvo
  have hnvk : ∀ k nt ds1, nvOf (view4 w).objs k = some (true, nt, ds1) →
      ∃ nt' ds', upd (nvOf (view4 w).objs) (w.futs.getD f {}).notify (some (true, false, ds)) k =
        some (true, nt', ds') := by
    intro k nt1 ds1 hk
    by_cases e : k = (w.futs.getD f {}).notify
    · subst e; exact ⟨false, ds, upd_self _ _ _⟩
    · exact ⟨nt1, ds1, by rw [upd_ne _ _ e]; exact hk⟩
  unfold R4
  refine R4_step hR hact (fun c => { c with stage := 52 }) (fun h => { h with phase := 1 }) (view4 w).futs
    _ hv hdt hdv rfl (Nat.le_refl _) ?_ ?_ id (notify_kept_set _ hvo (by intro nt ds e; cases e)) ?_
  · refine hrel.of rfl rfl rfl rfl rfl rfl rfl (by rw [hopc']; rfl) (by rw [hopc']; intro x hx; cases hx) ?_
    rw [hopc']
    exact ⟨r9'.1, r9'.2.1, rfl⟩
  · intro hne
    exact absurd (fin_zero4 hR hact hop) hne
  · refine RF.ofGroups' (x1 := none) (x2 := none) (x3 := some (f, 5, true)) (x4 := none) hact _
      (by show inflS w.prog { w.ctlOf w.tid with stage := 52 } = _
          simp only [inflS, hopc'])
      (by show pendN w.prog { w.ctlOf w.tid with stage := 52 } = _
          simp only [pendN, hopc'])
      (by show callOf w.prog { w.ctlOf w.tid with stage := 52 } = _
          simp only [callOf, hopc']; rfl)
      (by show aw25 w.prog { w.ctlOf w.tid with stage := 52 } = _
          simp only [aw25, hopc']) ?_ ?_ ?_ ?_
    · rw [hdf, hset.1]
      exact (hR.f.s.df f consumeF ⟨rfl, rfl, rfl⟩).nv hnvk
    · rw [hdf, hset.1]
      have hpa : upd (paOf w.prog w.ctl) w.tid none = paOf w.prog w.ctl := by
        have : paOf w.prog w.ctl w.tid = none := by
          show pendN w.prog (w.ctlOf w.tid) = none
          simp only [pendN, hopc, hst]
        rw [← this]; exact upd_same _ _
      rw [hpa]
      refine hR.f.c.callStep (b' := true) (nt' := false) (ds' := ds) hact hR.f.s.lenDF hca
        (call_unique hwf hR hact hop) consumeF hspur' ?_ (fun _ => hpolled)
      constructor
      · intro e; cases e
      · rintro (e | ⟨j, hj, hj'⟩)
        · cases e
        · exact absurd hj' (hnopend j hj)
    · rw [hda, hset.2.2]
      exact hR.f.a.same (by show inflS w.prog (w.ctlOf w.tid) = none; simp only [inflS, hopc, hst])
    · rw [hset.2.1]
      exact hR.f.w.same (by show aw25 w.prog (w.ctlOf w.tid) = none; simp only [aw25, hopc, hst])

/-- the futures part after a stage of a mode-5 call that changes the flags of the call's own `Notify` and the
reference's record of the future together; the call goes on at stage 52 or 53 (`polled`) -/
theorem rf_selfCall (hwf : WF4 w.prog) (hR : R4 w s) (hact : w.tid < w.ctl.length) {f : Nat}
    (hop : opAt w = some (.blockOn f 5)) {b sp nt ds nt' ds' : Bool} {st' : Nat} (g : DFut → DFut) {d' : SCData4}
    (hca : caOf w.prog w.ctl w.tid = some (f, 5, b))
    (haw : aw25 w.prog (w.ctlOf w.tid) = none)
    (hvo : (view4 w).objs[(w.futs.getD f {}).notify]? = some (.notify sp nt ds))
    (hst' : st' = 52 ∨ st' = 53)
    (hg : (g ((data4 s).futs.getD f {})).slot = ((data4 s).futs.getD f {}).slot ∧
      (g ((data4 s).futs.getD f {})).gen = ((data4 s).futs.getD f {}).gen ∧
      (g ((data4 s).futs.getD f {})).slotGen = ((data4 s).futs.getD f {}).slotGen)
    (hsp : (g ((data4 s).futs.getD f {})).spurUsed = ds')
    (hnt : (g ((data4 s).futs.getD f {})).notified = true ↔
      (nt' = true ∨ ∃ j, j < w.ctl.length ∧ paOf w.prog w.ctl j = some (w.futs.getD f {}).notify))
    (hpo : (g ((data4 s).futs.getD f {})).polled = true)
    (hdf : d'.futs = (data4 s).futs.modify f g) (hda : d'.atoms = (data4 s).atoms) :
    RF w.prog (w.ctl.modify w.tid fun c => { c with stage := st' }) (view4 w).futs
      ((view4 w).objs.set (w.futs.getD f {}).notify (.notify true nt' ds')) d' := by
  have hopc : opOfCtl w.prog (w.ctlOf w.tid) = some (.blockOn f 5) := hop
  have hopc' : opOfCtl w.prog { w.ctlOf w.tid with stage := st' } = some (.blockOn f 5) := hop
  have hset := view_set_notify (a' := true) (b' := nt') (c' := ds') hvo
  have hnvk : ∀ k nt1 ds1, nvOf (view4 w).objs k = some (true, nt1, ds1) →
      ∃ nt2 ds2, upd (nvOf (view4 w).objs) (w.futs.getD f {}).notify (some (true, nt', ds')) k =
        some (true, nt2, ds2) := by
    intro k nt1 ds1 hk
    by_cases e : k = (w.futs.getD f {}).notify
    · subst e; exact ⟨nt', ds', upd_self _ _ _⟩
    · exact ⟨nt1, ds1, by rw [upd_ne _ _ e]; exact hk⟩
  refine RF.ofGroups' (x1 := none) (x2 := none) (x3 := some (f, 5, true)) (x4 := none) hact _
    (by show inflS w.prog { w.ctlOf w.tid with stage := st' } = _
        simp only [inflS, hopc'])
    (by show pendN w.prog { w.ctlOf w.tid with stage := st' } = _
        simp only [pendN, hopc'])
    (by show callOf w.prog { w.ctlOf w.tid with stage := st' } = _
        rcases hst' with e | e <;> subst e <;> (simp only [callOf, hopc']; rfl))
    (by show aw25 w.prog { w.ctlOf w.tid with stage := st' } = _
        rcases hst' with e | e <;> subst e <;> simp only [aw25, hopc']) ?_ ?_ ?_ ?_
  · rw [hdf, hset.1]
    exact (hR.f.s.df f g hg).nv hnvk
  · rw [hdf, hset.1]
    have hpa : upd (paOf w.prog w.ctl) w.tid none = paOf w.prog w.ctl := by
      have : paOf w.prog w.ctl w.tid = none := by
        show pendN w.prog (w.ctlOf w.tid) = none
        simp only [pendN, hopc]
      rw [← this]; exact upd_same _ _
    rw [hpa]
    exact hR.f.c.callStep (b' := true) (nt' := nt') (ds' := ds') hact hR.f.s.lenDF hca
      (call_unique hwf hR hact hop) g hsp hnt (fun _ => hpo)
  · rw [hda, hset.2.2]
    exact hR.f.a.same (by show inflS w.prog (w.ctlOf w.tid) = none; simp only [inflS, hopc])
  · rw [hset.2.1]
    exact hR.f.w.same haw

/-- stage 51: the future wakes itself (the flag of the call's own `Notify` is raised) and `block_on` waits: first
half of `Notify::wait` (phase 1 → 4), or its one spurious return (phase 1 → 4 → 1) -/
theorem sim_blockOn51 (hwf : WF4 w.prog) (hR : R4 w s) (hact : w.tid < w.ctl.length) {f mode : Nat}
    (hop : opAt w = some (.blockOn f mode)) (hst : (w.ctlOf w.tid).stage = 51)
    (h : w.stepActive = .ok w') : Sim4 w s w' := by
  have hm := mode5_of_stage hR hact hop (.inr (.inl hst))
  subst hm
  rw [stepActive_op hop] at h
  have h' : w.blockOnStage (w.ctlOf w.tid) f 5 = .ok w' := by
    simp only [World.runOp] at h; exact h
  rw [blockOn_stage51 w _ f 5 hst] at h'
  clear h
  obtain ⟨w1, h1, h2⟩ := Refine.bind_ok h'
  clear h'
  obtain ⟨⟨w2, st⟩, h3, h4⟩ := Refine.bind_ok h2
  clear h2
  -- the self-wake
  obtain ⟨sp, nt, ds, hvo, hk1, hv1⟩ := notifyEffect_view h1
  have hlt : (w.futs.getD f {}).notify < (view4 w).objs.length := (List.getElem?_eq_some_iff.1 hvo).1
  have hopc : opOfCtl w.prog (w.ctlOf w.tid) = some (.blockOn f 5) := hop
  have hrel := rel4 hR hact
  obtain ⟨_, _, hpl, _, _⟩ := act4 hR hact
  have hsy := sync4 hR hact (by rw [hop, hst]; rfl)
  obtain ⟨hrun1, hrun2⟩ := running4 hR hact hop
  have hph : (s.th (w.ctlOf w.tid).body).phase = 1 := by rw [hsy.2.2.2, hop, hst]; rfl
  -- the call
  have hca : caOf w.prog w.ctl w.tid = some (f, 5, false) := by
    show callOf w.prog (w.ctlOf w.tid) = _
    simp only [callOf, hopc, hst]; rfl
  have haw : aw25 w.prog (w.ctlOf w.tid) = none := by simp only [aw25, hopc, hst]
  obtain ⟨hf, nt0, ds0, hnv, hspur, hnot, hpol⟩ := hR.f.c.call w.tid f 5 false hact hca
  have hnv' : nvOf (view4 w).objs (w.futs.getD f {}).notify = some (true, nt0, ds0) := hnv
  rw [nvOf_some, hvo] at hnv'
  cases hnv'
  have hspur' : ((data4 s).futs.getD f {}).spurUsed = ds := hspur
  have hpolled : ((data4 s).fut f).polled = false := hpol rfl
  -- the first half of the wait
  obtain ⟨sp', nt', ds', hvo1, hfr2, hir2, hcase⟩ := notifyWait1_view h3
  have hvo1' : ((view4 w).objs.set (w.futs.getD f {}).notify (.notify true true ds))[(w.futs.getD f {}).notify]? =
      some (.notify sp' nt' ds') := by
    rw [hv1] at hvo1; exact hvo1
  rw [List.getElem?_set_self hlt] at hvo1'
  cases hvo1'
  -- the reference step: phase 1 → 4
  obtain ⟨s1, hstep, hdata1⟩ := sc_step_bo1_self (f := f) hpl (hsy.1.trans hop) hph
  rw [hpolled] at hdata1
  simp only [Bool.false_eq_true, if_false] at hdata1
  have hen : SC.enabled w.prog s (w.ctlOf w.tid).body = true :=
    sc_enabled_op hR.verdict hpl hrun1 hrun2 (hsy.1.trans hop) (hwf.opOk hop) (by
      show ((s.th _).phase != 4 || _) = true
      rw [hph]; rfl)
  have hex1 : SCExec2 w.prog s s1 := exec_step hen hstep
  have hp' : w2.prog = w.prog := hfr2.1.trans hk1.1.1
  have r9 := hrel.2.2.2.2.2.2.2.2
  rw [hopc, hst] at r9
  have r9' : ((data4 s).ths.getD (w.ctlOf w.tid).body {}).pc = (w.ctlOf w.tid).pc ∧
      ((data4 s).ths.getD (w.ctlOf w.tid).body {}).rets = (w.ctlOf w.tid).results ∧
      ((data4 s).ths.getD (w.ctlOf w.tid).body {}).phase = 1 := r9
  rcases hcase with ⟨rfl, hv2⟩ | ⟨rfl, _, hds, hv2⟩
  · -- the wait blocks: stage 53
    simp only [pure, Except.pure, beq_self_eq_true, if_true] at h4
    cases h4
    refine ⟨hp', ⟨s1, hex1, ?_⟩, hir2.modCtl _ _⟩
    have hv : view4 (w2.modCtl w1.tid fun c => { c with stage := 53 }) = { view4 w with
        ctl := w.ctl.modify w.tid (fun c => { c with stage := 53 }),
        objs := (view4 w).objs.set (w.futs.getD f {}).notify (.notify true true ds) } := by
      rw [view4_modCtl, hv2, hv1, hfr2.2.1, hk1.1.2.1, hk1.2.1]
    have hopc' : opOfCtl w.prog { w.ctlOf w.tid with stage := 53 } = some (.blockOn f 5) := hop
    have hdf : (data4 s1).futs = (data4 s).futs.modify f selfWakeF := by rw [hdata1]; rfl
    have hda : (data4 s1).atoms = (data4 s).atoms := by rw [hdata1]; rfl
    have hdt : (data4 s1).ths = (data4 s).ths.modify (w.ctlOf w.tid).body (fun h => { h with phase := 4 }) := by
      rw [hdata1]; rfl
    have hdv : (data4 s1).verdict = none := by rw [hdata1]; exact hR.verdict
    unfold R4
    refine R4_step hR hact (fun c => { c with stage := 53 }) (fun h => { h with phase := 4 }) (view4 w).futs
      _ hv hdt hdv rfl (Nat.le_refl _) ?_ ?_ id (notify_kept_set _ hvo (by intro nt ds e; cases e)) ?_
    · refine hrel.of rfl rfl rfl rfl rfl rfl rfl (by rw [hopc']; rfl) (by rw [hopc']; intro x hx; cases hx) ?_
      rw [hopc']
      exact ⟨r9'.1, r9'.2.1, rfl⟩
    · intro hne
      exact absurd (fin_zero4 hR hact hop) hne
    · exact rf_selfCall hwf hR hact hop selfWakeF hca haw hvo (.inr rfl) ⟨rfl, rfl, rfl⟩ hspur'
        ⟨fun _ => .inl rfl, fun _ => rfl⟩ rfl hdf hda
  · -- the one spurious return: stage 52
    subst hds
    have e21 : ((2 : Nat) == 1) = false := rfl
    simp only [pure, Except.pure, e21, Bool.false_eq_true, if_false] at h4
    cases h4
    have hv : view4 (w2.modCtl w1.tid fun c => { c with stage := 52 }) = { view4 w with
        ctl := w.ctl.modify w.tid (fun c => { c with stage := 52 }),
        objs := (view4 w).objs.set (w.futs.getD f {}).notify (.notify true true true) } := by
      rw [view4_modCtl, hv2, hv1, hfr2.2.1, hk1.1.2.1, hk1.2.1]
      show ({ view4 w with ctl := _, objs := ((view4 w).objs.set _ _).set _ _ } : View) = _
      rw [List.set_set]
    have hopc' : opOfCtl w.prog { w.ctlOf w.tid with stage := 52 } = some (.blockOn f 5) := hop
    -- the intermediate reference state
    have hbl : (w.ctlOf w.tid).body < (data4 s).ths.length := body_lt hR hact
    have hfl : f < (data4 s).futs.length := by rw [hR.f.s.lenDF]; exact hf
    have hd1th : (((data4 s).modFut f selfWakeF).modTh (w.ctlOf w.tid).body fun h => { h with phase := 4 }).th
        (w.ctlOf w.tid).body = { (data4 s).th (w.ctlOf w.tid).body with phase := 4 } :=
      SCData4.th_modTh_self ((data4 s).modFut f selfWakeF) _ _ hbl
    have hth1 : dth4 (s1.th (w.ctlOf w.tid).body) = { (data4 s).th (w.ctlOf w.tid).body with phase := 4 } := by
      rw [th_of_data hdata1, hd1th]
    have hpl1 : Plain (s1.th (w.ctlOf w.tid).body) := by
      apply plain_of
      rw [hth1]; exact hrel.2.2.1
    have hst1 : (s1.th (w.ctlOf w.tid).body).started = true := by
      have : (dth4 (s1.th (w.ctlOf w.tid).body)).started = true := by rw [hth1]; exact hrel.1
      exact this
    have hnf1 : (s1.th (w.ctlOf w.tid).body).finished = false := by
      have : (dth4 (s1.th (w.ctlOf w.tid).body)).finished = false := by
        rw [hth1]
        show ((data4 s).th (w.ctlOf w.tid).body).finished = false
        rw [data4_th]; exact hrun2
      exact this
    have hph1 : (s1.th (w.ctlOf w.tid).body).phase = 4 := by
      have : (dth4 (s1.th (w.ctlOf w.tid).body)).phase = 4 := by rw [hth1]
      exact this
    have hop1 : SC.opOf w.prog s1 (w.ctlOf w.tid).body = some (.blockOn f 5) := by
      rw [opOf_of_data hdata1]
      have e : SCData4.opOf w.prog (((data4 s).modFut f selfWakeF).modTh (w.ctlOf w.tid).body
          fun h => { h with phase := 4 }) (w.ctlOf w.tid).body =
          SCData4.opOf w.prog (data4 s) (w.ctlOf w.tid).body := by
        simp only [SCData4.opOf, hd1th]
      rw [e, data4_opOf]; exact hsy.1.trans hop
    have hsp1 : (s1.futs.getD f {}).spurUsed = false := by
      have : (dfut (s1.futs.getD f {})).spurUsed = false := by
        rw [fut_of_data hdata1]
        show (((data4 s).modFut f selfWakeF).fut f).spurUsed = false
        rw [SCData4.fut_modFut_self _ _ _ hfl]
        exact hspur'
      exact this
    have hv1s : s1.verdict = none := by rw [verdict_of_data hdata1]; exact hR.verdict
    -- the spurious return: phase 4 → 1
    obtain ⟨s2, hspstep, hdata2⟩ := sc_spurious_bo (f := f) (mode := 5) hv1s hpl1 hst1 hnf1 hop1 hph1 hsp1
    rw [hdata1] at hdata2
    have hex2 : SCExec2 w.prog s s2 := exec_step2 hex1 hspstep
    refine ⟨hp', ⟨s2, hex2, ?_⟩, hir2.modCtl _ _⟩
    have hdf : (data4 s2).futs = (data4 s).futs.modify f (fun u => spurF (selfWakeF u)) := by
      rw [hdata2]
      show ((data4 s).futs.modify f selfWakeF).modify f spurF = _
      rw [modify_modify']
    have hda : (data4 s2).atoms = (data4 s).atoms := by rw [hdata2]; rfl
    have hdt : (data4 s2).ths = (data4 s).ths.modify (w.ctlOf w.tid).body (fun h => { h with phase := 1 }) := by
      rw [hdata2]
      show ((data4 s).ths.modify (w.ctlOf w.tid).body _).modify (w.ctlOf w.tid).body _ = _
      rw [modify_modify']
    have hdv : (data4 s2).verdict = none := by rw [hdata2]; exact hR.verdict
    unfold R4
    refine R4_step hR hact (fun c => { c with stage := 52 }) (fun h => { h with phase := 1 }) (view4 w).futs
      _ hv hdt hdv rfl (Nat.le_refl _) ?_ ?_ id (notify_kept_set _ hvo (by intro nt ds e; cases e)) ?_
    · refine hrel.of rfl rfl rfl rfl rfl rfl rfl (by rw [hopc']; rfl) (by rw [hopc']; intro x hx; cases hx) ?_
      rw [hopc']
      exact ⟨r9'.1, r9'.2.1, rfl⟩
    · intro hne
      exact absurd (fin_zero4 hR hact hop) hne
    · exact rf_selfCall hwf hR hact hop (fun u => spurF (selfWakeF u)) hca haw hvo (.inl rfl) ⟨rfl, rfl, rfl⟩ rfl
        ⟨fun _ => .inl rfl, fun _ => rfl⟩ rfl hdf hda

end

end Refine4
end LoomVerif

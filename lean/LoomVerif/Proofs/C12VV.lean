/-
C12, clock layer: the lattice facts about `VV` and the one-thread facts about `Threads` that the
single-thread invariant needs.
-/
import LoomVerif.Model.Threads

namespace LoomVerif
namespace C12

/-! ### `VV` -/

theorem VV.le_refl (a : VV) : a.le a := fun _ _ => Nat.le_refl _

theorem VV.le_trans {a b c : VV} (h1 : a.le b) (h2 : b.le c) : a.le c :=
  fun i h => Nat.le_trans (h1 i h) (h2 i h)

theorem VV.zero_le (a : VV) : VV.zero.le a := by
  intro i h; simp [VV.zero]

theorem VV.le_join_left (a b : VV) : a.le (a.join b) := by
  intro i h; simp [VV.join]; omega

theorem VV.le_join_right (a b : VV) : b.le (a.join b) := by
  intro i h; simp [VV.join]; omega

theorem VV.join_le {a b c : VV} (h1 : a.le c) (h2 : b.le c) : (a.join b).le c := by
  intro i h; have := h1 i h; have := h2 i h; simp [VV.join]; omega

theorem VV.le_antisymm {a b : VV} (h1 : a.le b) (h2 : b.le a) : a = b := by
  cases a with | mk av => cases b with | mk bv =>
  congr 1
  apply Vector.ext
  intro i h
  exact Nat.le_antisymm (h1 i h) (h2 i h)

theorem VV.get_mono {a b : VV} (h : a.le b) (i : Nat) : a.get i ≤ b.get i := by
  unfold VV.get; split
  · exact h i ‹_›
  · exact Nat.le_refl _

theorem VV.ble_iff (a b : VV) : a.ble b = true ↔ a.le b := by simp [VV.ble]

theorem VV.blt_iff (a b : VV) : a.blt b = true ↔ a.le b ∧ a ≠ b := by
  simp [VV.blt, VV.ble]

theorem VV.ne_of_get_lt {a b : VV} {i : Nat} (h : a.get i < b.get i) : a ≠ b := by
  intro e; subst e; omega

/-- `a < b` from `a ≤ b` and one strictly smaller slot -/
theorem VV.blt_of_le_of_get_lt {a b : VV} {i : Nat} (h : a.le b) (hi : a.get i < b.get i) :
    a.blt b = true := (VV.blt_iff a b).2 ⟨h, VV.ne_of_get_lt hi⟩

theorem VV.blt_asymm {a b : VV} (h : a.blt b = true) : b.blt a = false := by
  rw [VV.blt_iff] at h
  cases hb : b.blt a
  · rfl
  · rw [VV.blt_iff] at hb
    exact absurd (VV.le_antisymm h.1 hb.1) h.2

/-- `a < b ≤ c` gives `a < c` -/
theorem VV.blt_of_blt_of_le {a b c : VV} (h : a.blt b = true) (h2 : b.le c) :
    a.blt c = true := by
  rw [VV.blt_iff] at h ⊢
  refine ⟨VV.le_trans h.1 h2, ?_⟩
  intro e; subst e
  exact h.2 (VV.le_antisymm h.1 h2)

/-- `ahead` finds nothing when `other ≤ self` -/
theorem VV.ahead_none {self other : VV} (h : other.le self) : (self.ahead other).isSome = false := by
  cases hs : (self.ahead other).isSome
  · rfl
  · unfold VV.ahead at hs
    rw [List.find?_isSome] at hs
    obtain ⟨i, _, hi⟩ := hs
    have := VV.get_mono h i
    simp at hi; omega

theorem VV.get_inc_self (a : VV) (i : Nat) (h : i < 5) : (a.inc i).get i = a.get i + 1 := by
  simp [VV.inc, VV.get, h]

theorem VV.le_inc (a : VV) (i : Nat) : a.le (a.inc i) := by
  intro j hj
  unfold VV.inc
  split
  · simp only [Vector.getElem_set]; split
    · subst_vars; omega
    · exact Nat.le_refl _
  · exact Nat.le_refl _

/-! ### one thread -/

/-- exactly one thread, thread 0, and it is the active one -/
def OneThread (ths : Threads) : Prop := ths.threads.length = 1 ∧ ths.active = some 0

theorem OneThread.new : OneThread (Threads.new 5) := ⟨rfl, rfl⟩

theorem OneThread.activeId {ths : Threads} (h : OneThread ths) : ths.activeId = 0 := by
  simp [Threads.activeId, h.2]

theorem OneThread.modifyActive {ths : Threads} (h : OneThread ths) (f : Thread → Thread) :
    OneThread (ths.modifyActive f) := by
  refine ⟨?_, h.2⟩
  simp [Threads.modifyActive, Threads.modify, h.1]

theorem OneThread.caus_modifyActive {ths : Threads} (h : OneThread ths) (f : Thread → Thread) :
    (ths.modifyActive f).caus = (f ths.activeT).causality := by
  obtain ⟨h1, h2⟩ := h
  cases ths with | mk threads active seqCst max =>
  simp at h1 h2
  match threads, h1 with
  | [th], _ =>
    subst h2
    simp [Threads.modifyActive, Threads.modify, Threads.caus, Threads.activeT, Threads.activeId,
      Threads.get]

theorem OneThread.setCaus {ths : Threads} (h : OneThread ths) (v : VV) :
    OneThread (ths.setCaus v) := h.modifyActive _

theorem OneThread.caus_setCaus {ths : Threads} (h : OneThread ths) (v : VV) :
    (ths.setCaus v).caus = v := by
  unfold Threads.setCaus; rw [h.caus_modifyActive]

theorem OneThread.inc {ths : Threads} (h : OneThread ths) : OneThread ths.activeCausalityInc :=
  h.modifyActive _

theorem OneThread.caus_inc {ths : Threads} (h : OneThread ths) :
    ths.activeCausalityInc.caus = ths.caus.inc 0 := by
  unfold Threads.activeCausalityInc; rw [h.caus_modifyActive, h.activeId]; rfl

theorem OneThread.syncLoad {ths : Threads} (h : OneThread ths) (sy : Sync) (o : Ord) :
    OneThread (ths.syncLoad sy o) := h.setCaus _

theorem OneThread.caus_le_syncLoad {ths : Threads} (h : OneThread ths) (sy : Sync) (o : Ord) :
    ths.caus.le (ths.syncLoad sy o).caus := by
  unfold Threads.syncLoad; rw [h.caus_setCaus]; unfold Sync.load
  split
  · exact VV.le_join_left _ _
  · exact VV.le_refl _

theorem OneThread.activeAtomicVersion {ths : Threads} (h : OneThread ths) :
    ths.activeAtomicVersion = ths.caus.get 0 := by
  simp [Threads.activeAtomicVersion, h.activeId]

end C12
end LoomVerif

/-
Clocks, foundations: `VV.le` is a partial order, `join` its least upper bound, `ble`/`blt`/`ahead`
decide it, `inc` strictly increases; `Sync.load` / `Sync.store`; how the active thread's causality
is read and written in a `Threads` table.
-/
import LoomVerif.Model.Threads
import LoomVerif.Proofs.C12VV

namespace LoomVerif
namespace Clocks

/-- for `decide` in the non-vacuity examples -/
scoped instance {ε α : Type} [DecidableEq ε] [DecidableEq α] : DecidableEq (Except ε α)
  | .ok a, .ok b =>
    if h : a = b then isTrue (h ▸ rfl) else isFalse (fun e => h (Except.ok.inj e))
  | .error a, .error b =>
    if h : a = b then isTrue (h ▸ rfl) else isFalse (fun e => h (Except.error.inj e))
  | .ok _, .error _ => isFalse (fun e => nomatch e)
  | .error _, .ok _ => isFalse (fun e => nomatch e)

/-! ### `VV`: order and join -/

theorem le_refl (a : VV) : a.le a := C12.VV.le_refl a

theorem le_trans {a b c : VV} (h1 : a.le b) (h2 : b.le c) : a.le c := C12.VV.le_trans h1 h2

theorem le_antisymm {a b : VV} (h1 : a.le b) (h2 : b.le a) : a = b := C12.VV.le_antisymm h1 h2

theorem zero_le (a : VV) : VV.zero.le a := C12.VV.zero_le a

theorem le_join_left (a b : VV) : a.le (a.join b) := C12.VV.le_join_left a b

theorem le_join_right (a b : VV) : b.le (a.join b) := C12.VV.le_join_right a b

theorem join_le {a b c : VV} (h1 : a.le c) (h2 : b.le c) : (a.join b).le c := C12.VV.join_le h1 h2

theorem join_le_iff {a b c : VV} : (a.join b).le c ↔ a.le c ∧ b.le c :=
  ⟨fun h => ⟨le_trans (le_join_left a b) h, le_trans (le_join_right a b) h⟩,
   fun h => join_le h.1 h.2⟩

theorem ext {a b : VV} (h : ∀ i, (hi : i < 5) → a.v[i] = b.v[i]) : a = b := by
  cases a with | mk av => cases b with | mk bv =>
  congr 1
  exact Vector.ext h

theorem join_idem (a : VV) : a.join a = a := by
  apply ext; intro i hi; simp [VV.join]

theorem join_comm (a b : VV) : a.join b = b.join a := by
  apply ext; intro i hi; simp [VV.join, Nat.max_comm]

theorem join_assoc (a b c : VV) : (a.join b).join c = a.join (b.join c) := by
  apply ext; intro i hi; simp [VV.join, Nat.max_assoc]

/-- `a ≤ b` exactly when joining `a` into `b` changes nothing -/
theorem join_eq_right_iff {a b : VV} : a.join b = b ↔ a.le b := by
  constructor
  · intro h; rw [← h]; exact le_join_left a b
  · intro h; exact le_antisymm (join_le h (le_refl b)) (le_join_right a b)

theorem join_eq_left_iff {a b : VV} : a.join b = a ↔ b.le a := by
  rw [join_comm]; exact join_eq_right_iff

theorem join_mono {a b c d : VV} (h1 : a.le c) (h2 : b.le d) : (a.join b).le (c.join d) :=
  join_le (le_trans h1 (le_join_left c d)) (le_trans h2 (le_join_right c d))

/-! ### `get` -/

theorem get_eq (a : VV) (i : Nat) (h : i < 5) : a.get i = a.v[i] := by simp [VV.get, h]

theorem get_mono {a b : VV} (h : a.le b) (i : Nat) : a.get i ≤ b.get i := C12.VV.get_mono h i

theorem le_iff_get {a b : VV} : a.le b ↔ ∀ i, a.get i ≤ b.get i := by
  constructor
  · exact fun h i => get_mono h i
  · intro h i hi
    have := h i
    rwa [get_eq _ _ hi, get_eq _ _ hi] at this

theorem get_join (a b : VV) (i : Nat) : (a.join b).get i = max (a.get i) (b.get i) := by
  unfold VV.get
  split
  · simp [VV.join]
  · simp

/-! ### `ble`, `blt` -/

theorem ble_iff (a b : VV) : a.ble b = true ↔ a.le b := C12.VV.ble_iff a b

theorem blt_iff (a b : VV) : a.blt b = true ↔ a.le b ∧ a ≠ b := C12.VV.blt_iff a b

theorem blt_irrefl (a : VV) : a.blt a = false := by
  cases h : a.blt a
  · rfl
  · exact absurd rfl ((blt_iff a a).1 h).2

theorem blt_asymm {a b : VV} (h : a.blt b = true) : b.blt a = false := C12.VV.blt_asymm h

theorem blt_trans {a b c : VV} (h1 : a.blt b = true) (h2 : b.blt c = true) : a.blt c = true :=
  C12.VV.blt_of_blt_of_le h1 ((blt_iff b c).1 h2).1

theorem le_of_blt {a b : VV} (h : a.blt b = true) : a.le b := ((blt_iff a b).1 h).1

/-! ### `ahead` -/

/-- the race checks `current.ahead(&x)` fire iff `x ≰ current` -/
theorem ahead_eq_none_iff (self other : VV) : self.ahead other = none ↔ other.le self := by
  unfold VV.ahead
  rw [List.find?_eq_none]
  constructor
  · intro h i hi
    have := h i (List.mem_range.2 hi)
    simp only [decide_eq_true_eq, Nat.not_lt] at this
    rwa [get_eq _ _ hi, get_eq _ _ hi] at this
  · intro h i _
    have := get_mono h i
    simp only [decide_eq_true_eq, Nat.not_lt]
    exact this

theorem ahead_isSome_iff (self other : VV) : (self.ahead other).isSome = true ↔ ¬ other.le self := by
  rw [← ahead_eq_none_iff]
  cases self.ahead other <;> simp

theorem ahead_isSome_eq_false_iff (self other : VV) :
    (self.ahead other).isSome = false ↔ other.le self := by
  rw [← ahead_eq_none_iff]
  cases self.ahead other <;> simp

/-- `ahead` returns the first offending slot -/
theorem ahead_eq_some {self other : VV} {i : Nat} (h : self.ahead other = some i) :
    i < 5 ∧ self.get i < other.get i ∧ ∀ j, j < i → other.get j ≤ self.get j := by
  unfold VV.ahead at h
  rw [List.find?_range_eq_some] at h
  obtain ⟨h1, h2, h3⟩ := h
  refine ⟨List.mem_range.1 h2, by simpa using h1, ?_⟩
  intro j hj
  have := h3 j hj
  simpa using this

/-! ### `inc` -/

theorem le_inc (a : VV) (i : Nat) : a.le (a.inc i) := C12.VV.le_inc a i

theorem get_inc_self (a : VV) (i : Nat) (h : i < 5) : (a.inc i).get i = a.get i + 1 :=
  C12.VV.get_inc_self a i h

theorem get_inc_ne (a : VV) (i j : Nat) (h : j ≠ i) : (a.inc i).get j = a.get j := by
  unfold VV.inc VV.get
  split
  · split
    · simp [Ne.symm h]
    · rfl
  · rfl

theorem blt_inc (a : VV) (i : Nat) (h : i < 5) : a.blt (a.inc i) = true :=
  C12.VV.blt_of_le_of_get_lt (le_inc a i) (by rw [get_inc_self a i h]; omega)

theorem inc_not_le (a : VV) (i : Nat) (h : i < 5) : ¬ (a.inc i).le a := by
  intro hle
  have := get_mono hle i
  rw [get_inc_self a i h] at this
  omega

/-! ### folds of joins -/

/-- pure lattice fact behind the race clocks: a join of many clocks is below `c` iff each is -/
theorem foldl_join_le_iff (l : List VV) (z c : VV) :
    (l.foldl VV.join z).le c ↔ z.le c ∧ ∀ x ∈ l, x.le c := by
  induction l generalizing z with
  | nil => simp
  | cons x xs ih =>
    rw [List.foldl_cons, ih, join_le_iff]
    constructor
    · rintro ⟨⟨h1, h2⟩, h3⟩
      exact ⟨h1, fun y hy => by
        rcases List.mem_cons.1 hy with rfl | hy
        · exact h2
        · exact h3 y hy⟩
    · rintro ⟨h1, h2⟩
      exact ⟨⟨h1, h2 x List.mem_cons_self⟩, fun y hy => h2 y (List.mem_cons_of_mem _ hy)⟩

/-! ### `Sync` -/

theorem Sync.load_of_acquires (s : Sync) (c : VV) {o : Ord} (h : o.acquires = true) :
    s.load c o = c.join s.hb := by simp [Sync.load, h]

theorem Sync.load_of_not_acquires (s : Sync) (c : VV) {o : Ord} (h : o.acquires = false) :
    s.load c o = c := by simp [Sync.load, h]

theorem Sync.le_load (s : Sync) (c : VV) (o : Ord) : c.le (s.load c o) := by
  unfold Sync.load; split
  · exact le_join_left _ _
  · exact le_refl _

theorem Sync.load_le (s : Sync) (c : VV) (o : Ord) : (s.load c o).le (c.join s.hb) := by
  unfold Sync.load; split
  · exact le_refl _
  · exact le_join_left _ _

theorem Sync.hb_le_load (s : Sync) (c : VV) {o : Ord} (h : o.acquires = true) :
    s.hb.le (s.load c o) := by
  rw [Sync.load_of_acquires s c h]; exact le_join_right _ _

theorem Sync.store_of_releases (s : Sync) (r c : VV) {o : Ord} (h : o.releases = true) :
    (s.store r c o).hb = (s.hb.join r).join c := by simp [Sync.store, h]

theorem Sync.store_of_not_releases (s : Sync) (r c : VV) {o : Ord} (h : o.releases = false) :
    (s.store r c o).hb = s.hb.join r := by simp [Sync.store, h]

/-- `sync_store` never loses what the synchronisation point already carried -/
theorem Sync.hb_le_store (s : Sync) (r c : VV) (o : Ord) : s.hb.le (s.store r c o).hb := by
  unfold Sync.store; dsimp only; split
  · exact le_trans (le_join_left _ _) (le_join_left _ _)
  · exact le_join_left _ _

theorem Sync.released_le_store (s : Sync) (r c : VV) (o : Ord) : r.le (s.store r c o).hb := by
  unfold Sync.store; dsimp only; split
  · exact le_trans (le_join_right _ _) (le_join_left _ _)
  · exact le_join_right _ _

theorem Sync.caus_le_store (s : Sync) (r c : VV) {o : Ord} (h : o.releases = true) :
    c.le (s.store r c o).hb := by
  rw [Sync.store_of_releases s r c h]; exact le_join_right _ _

/-! ### the active thread's causality -/

/-- the active thread exists in the table (always true in the runtime: `active_id` indexes
`threads`) -/
def ActiveOk (ths : Threads) : Prop := ths.activeId < ths.threads.length

theorem get_modify (ths : Threads) (i j : Nat) (f : Thread → Thread) :
    (ths.modify i f).get j =
      if i = j ∧ j < ths.threads.length then f (ths.get j) else ths.get j := by
  unfold Threads.modify Threads.get
  simp only [List.getD_eq_getElem?_getD, List.getElem?_modify]
  by_cases hij : i = j
  · subst hij
    by_cases hl : i < ths.threads.length
    · simp [hl]
    · simp [hl]
  · simp [hij]

theorem activeId_modify (ths : Threads) (i : Nat) (f : Thread → Thread) :
    (ths.modify i f).activeId = ths.activeId := rfl

theorem seqCst_modify (ths : Threads) (i : Nat) (f : Thread → Thread) :
    (ths.modify i f).seqCst = ths.seqCst := rfl

theorem length_modify (ths : Threads) (i : Nat) (f : Thread → Thread) :
    (ths.modify i f).threads.length = ths.threads.length := by
  simp [Threads.modify]

theorem ActiveOk.modify {ths : Threads} (h : ActiveOk ths) (i : Nat) (f : Thread → Thread) :
    ActiveOk (ths.modify i f) := by
  unfold ActiveOk; rw [length_modify, activeId_modify]; exact h

theorem caus_modifyActive {ths : Threads} (h : ActiveOk ths) (f : Thread → Thread) :
    (ths.modifyActive f).caus = (f ths.activeT).causality := by
  unfold Threads.caus Threads.activeT Threads.modifyActive
  rw [activeId_modify, get_modify, if_pos ⟨rfl, h⟩]

theorem caus_setCaus {ths : Threads} (h : ActiveOk ths) (v : VV) : (ths.setCaus v).caus = v := by
  unfold Threads.setCaus; rw [caus_modifyActive h]

theorem ActiveOk.setCaus {ths : Threads} (h : ActiveOk ths) (v : VV) : ActiveOk (ths.setCaus v) :=
  h.modify _ _

/-- `setCaus` touches only the causality of the active thread -/
theorem get_setCaus (ths : Threads) (v : VV) (j : Nat) :
    (ths.setCaus v).get j =
      if j = ths.activeId ∧ j < ths.threads.length then { ths.get j with causality := v }
      else ths.get j := by
  unfold Threads.setCaus Threads.modifyActive
  rw [get_modify]
  by_cases h : ths.activeId = j ∧ j < ths.threads.length
  · rw [if_pos h, if_pos ⟨h.1.symm, h.2⟩]
  · rw [if_neg h, if_neg (fun h' => h ⟨h'.1.symm, h'.2⟩)]

theorem get_setCaus_ne (ths : Threads) (v : VV) (j : Nat) (h : j ≠ ths.activeId) :
    (ths.setCaus v).get j = ths.get j := by
  rw [get_setCaus, if_neg (fun h' => h h'.1)]

/-- two thread tables that differ at most in the active thread's causality -/
def SameExceptCaus (ths ths' : Threads) : Prop :=
  ths'.active = ths.active ∧ ths'.seqCst = ths.seqCst ∧ ths'.max = ths.max ∧
  ths'.threads.length = ths.threads.length ∧
  (∀ j, j ≠ ths.activeId → ths'.get j = ths.get j) ∧
  ths'.activeT = { ths.activeT with causality := ths'.caus }

theorem SameExceptCaus.setCaus (ths : Threads) (v : VV) (h : ActiveOk ths) :
    SameExceptCaus ths (ths.setCaus v) := by
  refine ⟨rfl, rfl, rfl, ?_, fun j hj => get_setCaus_ne ths v j hj, ?_⟩
  · exact length_modify _ _ _
  · rw [caus_setCaus h]
    show (ths.setCaus v).get ths.activeId = _
    rw [get_setCaus, if_pos ⟨rfl, h⟩]; rfl

theorem caus_syncLoad {ths : Threads} (h : ActiveOk ths) (sy : Sync) (o : Ord) :
    (ths.syncLoad sy o).caus = sy.load ths.caus o := by
  unfold Threads.syncLoad; rw [caus_setCaus h]

theorem ActiveOk.syncLoad {ths : Threads} (h : ActiveOk ths) (sy : Sync) (o : Ord) :
    ActiveOk (ths.syncLoad sy o) := h.setCaus _

theorem caus_le_syncLoad {ths : Threads} (h : ActiveOk ths) (sy : Sync) (o : Ord) :
    ths.caus.le (ths.syncLoad sy o).caus := by
  rw [caus_syncLoad h]; exact Sync.le_load _ _ _

theorem caus_activeCausalityInc {ths : Threads} (h : ActiveOk ths) :
    ths.activeCausalityInc.caus = ths.caus.inc ths.activeId := by
  unfold Threads.activeCausalityInc; rw [caus_modifyActive h]; rfl

theorem ActiveOk.inc {ths : Threads} (h : ActiveOk ths) : ActiveOk ths.activeCausalityInc :=
  h.modify _ _

end Clocks
end LoomVerif

/-
C07, mutex layer: exact one-step laws of `World.postAcquire` / `World.releaseLock`
(`rt/mutex.rs`: `post_acquire`, `release_lock`) and the hand-over ordering.
-/
import LoomVerif.Proofs.SyncBasic

namespace LoomVerif
namespace C07
open C12 Sy

/-- the state reached by a successful acquisition of a lock-like object: the object becomes `x`,
the active thread acquires `hb`, every other thread with a pending operation satisfying `p` is
blocked -/
theorem acquire_normal_form (w : World) (o : Nat) (x : Obj) (sy : Sync) (p : Operation → Bool) :
    ((w.setObj o x).setThs ((w.setObj o x).ths.syncLoad sy .acq)).forOthers p Thread.setBlocked =
    { w with exec := { w.exec with
        objs := w.exec.objs.set o x
        threads := { w.exec.threads with threads :=
          (w.exec.threads.threads.mapIdx fun i th =>
            if i = w.tid then { th with causality := th.causality.join sy.hb }
            else if th.operation.any p then th.setBlocked else th) } } } := by
  rw [forOthers_eq]
  simp only [World.setObj, World.setObjs, World.setThs, World.ths, World.tid, Threads.syncLoad,
    Threads.setCaus, Threads.modifyActive, Threads.modify, Threads.activeId, mapIdx_modify]
  congr 3
  apply mapIdx_congr_get
  intro i th hth
  by_cases h : i = w.exec.threads.active.getD 0
  · subst h
    simp [load_acq, Threads.caus, Threads.activeT, Threads.get, Threads.activeId, List.getD, hth]
  · simp [h]

/-- the state reached by replacing object `o` by `x` and applying `f` to every other thread with a
pending operation satisfying `p` (release of a lock, `Notify::notify`) -/
theorem wake_normal_form (w : World) (o : Nat) (x : Obj) (p : Operation → Bool)
    (f : Thread → Thread) :
    (w.setObj o x).forOthers p f =
    { w with exec := { w.exec with
        objs := w.exec.objs.set o x
        threads := { w.exec.threads with threads :=
          (w.exec.threads.threads.mapIdx fun i th =>
            if i = w.tid then th else if th.operation.any p then f th else th) } } } := by
  rw [forOthers_eq]
  rfl

theorem setObj_setObj (w : World) (o : Nat) (x y : Obj) :
    (w.setObj o x).setObj o y = w.setObj o y := by
  simp [World.setObj, World.setObjs, List.set_set]

/-! ### `Mutex::post_acquire` -/

/-- the mutex is held: `post_acquire` returns `false` and changes nothing -/
theorem postAcquire_held {w : World} {o : Nat} {m : MutexSt}
    (h : w.exec.objs[o]? = some (.mutex m)) (hl : m.lock.isSome = true) :
    w.postAcquire o = .ok (w, false) := by
  unfold World.postAcquire
  simp [getMutex_of h, hl, bind, Except.bind, pure, Except.pure]

/-- the mutex is free: `post_acquire` returns `true`; the explicit successor state -/
theorem postAcquire_free {w : World} {o : Nat} {m : MutexSt}
    (h : w.exec.objs[o]? = some (.mutex m)) (hl : m.lock = none) :
    w.postAcquire o = .ok
      ({ w with exec := { w.exec with
          objs := w.exec.objs.set o (.mutex { m with lock := some w.tid })
          threads := { w.exec.threads with threads :=
            (w.exec.threads.threads.mapIdx fun i th =>
              if i = w.tid then { th with causality := th.causality.join m.sync.hb }
              else if th.operation.any (fun op => op.obj == o && op.blocking) then th.setBlocked
              else th) } } },
       true) := by
  unfold World.postAcquire
  simp only [getMutex_of h, hl, bind, Except.bind, pure, Except.pure, Option.isSome_none,
    Bool.false_eq_true, if_false]
  rw [acquire_normal_form]

/-- `post_acquire` on something that is not a mutex is a loom-internal error -/
theorem postAcquire_not_mutex {w : World} {o : Nat}
    (h : ∀ m, w.exec.objs[o]? ≠ some (.mutex m)) : w.postAcquire o = .error (.internal 51) := by
  unfold World.postAcquire World.getMutex
  split
  · next a heq => exact absurd heq (h a)
  · rfl

/-! ### `Mutex::release_lock` -/

/-- `release_lock` by the active thread: the explicit successor state -/
theorem releaseLock_active {w : World} {o : Nat} {m : MutexSt}
    (h : w.exec.objs[o]? = some (.mutex m)) (ha : w.ths.isActive = true) :
    w.releaseLock o = .ok
      { w with exec := { w.exec with
          objs := w.exec.objs.set o (.mutex { m with
            lock := none, sync := m.sync.store w.ths.activeT.released w.ths.caus .rel })
          threads := { w.exec.threads with threads :=
            (w.exec.threads.threads.mapIdx fun i th =>
              if i = w.tid then th
              else if th.operation.any (fun op => op.obj == o) then th.wake else th) } } } := by
  unfold World.releaseLock
  have ha' : (w.setObj o (.mutex { m with lock := none })).ths.isActive = true := ha
  simp only [getMutex_of h, ha', bind, Except.bind, pure, Except.pure, Bool.not_true,
    Bool.false_eq_true, if_false]
  rw [setObj_setObj, wake_normal_form]
  rfl

/-- `release_lock` when no thread is active ("execution has deadlocked, cleanup does not matter"):
only the lock flag is cleared -/
theorem releaseLock_inactive {w : World} {o : Nat} {m : MutexSt}
    (h : w.exec.objs[o]? = some (.mutex m)) (ha : w.ths.isActive = false) :
    w.releaseLock o = .ok (w.setObj o (.mutex { m with lock := none })) := by
  unfold World.releaseLock
  have ha' : (w.setObj o (.mutex { m with lock := none })).ths.isActive = false := ha
  simp [getMutex_of h, ha', bind, Except.bind, pure, Except.pure]

end C07
end LoomVerif

/-
Deadlock soundness (C05), WAIT fragment, part 1: definitions.

* `Deadlock2.WFD`: `Refine2.WF2` plus `Deadlock.JoinOnce` (each body is joined by at most one operation of the
  program text: a `JoinHandle` is consumed by `join`).
* `Deadlock2.Blk`: the WAITING POSITIONS of a loom thread — the places where a thread can be found in state
  `blocked` — each with the pending operation the branch point recorded and the AWAITED CONDITION, which does not
  hold: `lock m` / the re-acquisition of `cvWait v m`: the mutex is held; `recv q`: the channel is empty;
  `nWait n`: the flag is clear; `join b`: the `JoinHandle` is not notified; `park`: parked, no token;
  `cvWait v m` (stage 2): in the waiter list of the condvar, blocked by `rt::block`, not parked.
* `Deadlock2.OpAt`: the pending operation (`Thread.operation`) of a thread that is NOT running, as a function of
  the place where it stopped.
* `Deadlock2.JT2`, `Deadlock2.JB2`: the twin-side invariant; `Deadlock2.RB2 w s := R2 w s ∧ JB2 w ∧ ReplayOK`.
-/
import LoomVerif.Proofs.Refine2Final
import LoomVerif.Proofs.DeadlockSched

namespace LoomVerif
namespace Deadlock2
open Refine Refine2 Sy

/-- well-formed programs of the WAIT fragment (`Refine2.WF2`) in which each body is joined at most once -/
def WFD (p : Prog) : Prop := WF2 p ∧ Deadlock.JoinOnce p

instance (p : Prog) : Decidable (WFD p) := by unfold WFD; infer_instance

theorem WFD.join_unique {p : Prog} (h : WFD p) {a k a' k' b : Nat}
    (h1 : (p.threads.getD a [])[k]? = some (.join b))
    (h2 : (p.threads.getD a' [])[k']? = some (.join b)) : a = a' ∧ k = k' := by
  obtain ⟨ha, hk⟩ := pos_bound h1
  obtain ⟨ha', hk'⟩ := pos_bound h2
  have e1 : Deadlock.joinAt p a k = some b := by simp only [Deadlock.joinAt, h1]
  have e2 : Deadlock.joinAt p a' k' = some b := by simp only [Deadlock.joinAt, h2]
  have := h.2 a ha k hk a' ha' k' hk'
  simpa [Deadlock.joinPairOk, e1, e2] using this

/-! ### the waiting positions -/

/-- **a waiting position and its awaited condition, which does not hold.**  `i`: the thread's index, `th` its
entry in the thread table, `c` its control record, `sp` the table of spawned threads, `objs` the object store. -/
inductive Blk (p : Prog) (sp : List (Nat × Nat × Nat)) (objs : List Obj) (i : Nat) (th : Thread) (c : TCtl) :
    Prop
  /-- past the branch point of `lock m`: waiting on the mutex object, which is held -/
  | lock (m l : Nat) : opOfCtl p c = some (.lock m) → c.stage = 1 →
      th.operation = some ⟨mutexIdx p m, .opaque, true⟩ →
      objView2 objs (mutexIdx p m) = some (.mutex (some l)) → Blk p sp objs i th c
  /-- past the second branch point of `cvWait v m` (the re-acquisition): waiting on the mutex, which is held -/
  | cvRe (v m l : Nat) : opOfCtl p c = some (.cvWait v m) → c.stage = 3 →
      th.operation = some ⟨mutexIdx p m, .opaque, true⟩ →
      objView2 objs (mutexIdx p m) = some (.mutex (some l)) → Blk p sp objs i th c
  /-- past the branch point of `recv q`: the channel is empty -/
  | recv (q : Nat) (bl : Bool) (qu : List Int) : opOfCtl p c = some (.recv q) → c.stage = 1 →
      th.operation = some ⟨chanIdx p q, .chanRecv, bl⟩ →
      objView2 objs (chanIdx p q) = some (.chan 0 qu) → Blk p sp objs i th c
  /-- past the branch point of `nWait n` (no spurious return on this path): the flag is clear -/
  | nWait (n : Nat) (bl a d : Bool) : opOfCtl p c = some (.nWait n) → c.stage = 1 →
      th.operation = some ⟨notifyIdx p n, .opaque, bl⟩ →
      objView2 objs (notifyIdx p n) = some (.notify a false d) → Blk p sp objs i th c
  /-- past the branch point of `join b`: the `JoinHandle` of `b` is not notified -/
  | join (b t n : Nat) (bl a d : Bool) : opOfCtl p c = some (.join b) → c.stage = 1 → (b, t, n) ∈ sp →
      th.operation = some ⟨n, .opaque, bl⟩ →
      objView2 objs n = some (.notify a false d) → Blk p sp objs i th c
  /-- in `park`: parked, no stored token -/
  | park : opOfCtl p c = some .park → c.stage = 1 → th.operation = none → th.parked = true →
      th.token = false → Blk p sp objs i th c
  /-- in the first half of `cvWait v m`: blocked by `rt::block` (not parked), in the waiter list -/
  | cvQ (v m : Nat) (ws : List Nat) : opOfCtl p c = some (.cvWait v m) → c.stage = 2 → th.operation = none →
      th.parked = false → objView2 objs (cvIdx p v) = some (.condvar ws) → i ∈ ws → Blk p sp objs i th c

/-- **the pending operation of a thread that is not running**, by the place where it stopped (`c`): a new thread
and a thread stopped in `yield` / `park` / `rt::block` / terminated have none; past a branch point it is the
operation recorded there -/
def OpAt (p : Prog) (sp : List (Nat × Nat × Nat)) (i : Nat) (c : TCtl) (o : Option Operation) : Prop :=
  match opOfCtl p c with
  | none => if c.fin = 1 then ∃ b n, (b, i, n) ∈ sp ∧ o = some ⟨n, .opaque, false⟩ else o = none
  | some op =>
    match op with
    | .lock m => if c.stage = 1 then o = some ⟨mutexIdx p m, .opaque, true⟩ else o = none
    | .tryLock m => if c.stage = 1 then o = some ⟨mutexIdx p m, .opaque, false⟩ else o = none
    | .join b => if c.stage = 1 then ∃ t n bl, (b, t, n) ∈ sp ∧ o = some ⟨n, .opaque, bl⟩ else o = none
    | .send q _ => if c.stage = 1 then o = some ⟨chanIdx p q, .chanSend, false⟩ else o = none
    | .recv q => if c.stage = 1 then ∃ bl, o = some ⟨chanIdx p q, .chanRecv, bl⟩ else o = none
    | .tryRecv q => if c.stage = 1 then o = some ⟨chanIdx p q, .chanRecv, false⟩ else o = none
    | .dropRx q => if c.stage = 1 then o = some ⟨chanIdx p q, .chanRecv, false⟩ else o = none
    | .nWait n => if c.stage = 1 then ∃ bl, o = some ⟨notifyIdx p n, .opaque, bl⟩ else o = none
    | .nNotify n => if c.stage = 1 then o = some ⟨notifyIdx p n, .opaque, false⟩ else o = none
    | .cvWait v m =>
      if c.stage = 1 then o = some ⟨cvIdx p v, .opaque, false⟩
      else if c.stage = 3 then o = some ⟨mutexIdx p m, .opaque, true⟩ else o = none
    | .cvOne v => if c.stage = 1 then o = some ⟨cvIdx p v, .opaque, false⟩ else o = none
    | .cvAll v => if c.stage = 1 then o = some ⟨cvIdx p v, .opaque, false⟩ else o = none
    | _ => o = none

/-- **what the entry of a loom thread means** (`act`: it is the running thread, whose `operation` field may be
left over from its last branch point):
* blocked ⇒ it is at a waiting position whose awaited condition does not hold (`Blk`); in particular a thread
  past the branch point of `tryLock`, `tryRecv`, `dropRx`, `send`, `nNotify`, `cvOne`, `cvAll` is never blocked;
* terminated ⇒ at the very end of its epilogue;
* not running ⇒ its pending operation is the one of the place where it stopped. -/
structure JT2 (p : Prog) (sp : List (Nat × Nat × Nat)) (objs : List Obj) (i : Nat) (act : Prop)
    (th : Thread) (c : TCtl) : Prop where
  blk : th.state = .blocked → Blk p sp objs i th c
  term : th.state = .terminated → c.fin = 99
  opn : ¬ act → OpAt p sp i c th.operation

/-- a `JoinHandle` notify whose thread has passed its notification is still notified, unless the `join` of that
body has been executed -/
def Jnd (w : World) : Prop :=
  ∀ b i n, (b, i, n) ∈ w.spawned → 10 ≤ (w.ctlOf i).fin →
    (∃ a d, objView2 w.exec.objs n = some (.notify a true d)) ∨
    ∃ j k, j < w.ctl.length ∧ k < (w.ctlOf j).pc ∧
      (w.prog.threads.getD (w.ctlOf j).body [])[k]? = some (.join b)

/-- the twin-side invariant: `JT2` for every thread; the entries of `World.spawned` are determined by their
thread, which is never the main thread; `Jnd` -/
structure JB2 (w : World) : Prop where
  thr : ∀ i, i < w.ctl.length →
    JT2 w.prog w.spawned w.exec.objs i (i = w.tid) (w.ths.get i) (w.ctlOf i)
  spt : ∀ e1 e2, e1 ∈ w.spawned → e2 ∈ w.spawned → e1.2.1 = e2.2.1 → e1 = e2
  sp0 : ∀ b i n, (b, i, n) ∈ w.spawned → 0 < i
  jnd : Jnd w

/-- **the strengthened abstraction relation**: `R2`, the blocked-means-waiting invariant of the twin, and a path
whose remaining `Schedule` entries all name a thread -/
structure RB2 (w : World) (s : SCData2) : Prop where
  r : R2 w s
  j : JB2 w
  path : Deadlock.ReplayOK w.exec.path

/-- object views whose awaited condition does not hold -/
def Stuck : OV2 → Prop
  | .mutex (some _) => True
  | .chan 0 _ => True
  | .notify _ false _ => True
  | .condvar _ => True
  | _ => False

end Deadlock2
end LoomVerif

/-
C09, channel component: `sendEffect` / `recvEffect` as functions on `ChanSt`, the counting
invariant, wake-up / blocking of the other threads, the stage-0 equations of `recv` / `try_recv`.
-/
import LoomVerif.Proofs.WorldBasics
import LoomVerif.Proofs.C10Leak

namespace LoomVerif
namespace C09
open World WB

/-- `msg_cnt`, the wrapped std queue and the per-message clocks have the same length -/
def ChanInv (s : ChanSt) : Prop :=
  s.msgCnt = s.queue.length ∧ s.msgCnt = s.receiverSync.length

/-- what `send` does to the channel state; `released`, `caus` are those of the sending thread -/
def chanSend (s : ChanSt) (released caus : VV) (v : Int) : ChanSt :=
  { s with msgCnt := s.msgCnt + 1
           senderSync := s.senderSync.store released caus .rel
           receiverSync := s.receiverSync ++ [s.senderSync.store released caus .rel]
           queue := s.queue ++ [v] }

/-- what a successful `recv` does to the channel state -/
def chanRecv (s : ChanSt) : ChanSt :=
  { s with msgCnt := s.msgCnt - 1, receiverSync := s.receiverSync.tail, queue := s.queue.tail }

theorem ChanInv.fresh : ChanInv {} := ⟨rfl, rfl⟩

theorem ChanInv.send {s : ChanSt} (h : ChanInv s) (released caus : VV) (v : Int) :
    ChanInv (chanSend s released caus v) := by
  obtain ⟨h1, h2⟩ := h
  constructor <;> simp [chanSend] <;> omega

theorem ChanInv.recv {s : ChanSt} (h : ChanInv s) : ChanInv (chanRecv s) := by
  obtain ⟨h1, h2⟩ := h
  constructor <;> simp [chanRecv] <;> omega

theorem ChanInv.setLastAccess {s : ChanSt} (h : ChanInv s) (act : Action) (pid : Nat) (v : VV) :
    ChanInv (s.setLastAccess act pid v) := by
  cases act <;> exact h

/-! ### the two effects, as equations -/

/-- `sendEffect` cannot fail on a channel object; it stores `chanSend …` and, when the channel was
empty, wakes the other threads pending on this object (`Thread.wake`) -/
theorem sendEffect_eq (w : World) (o : Nat) (v : Int) (s : ChanSt) (h : w.getChan o = .ok s) :
    w.sendEffect o v = .ok (
      if s.msgCnt = 0 then
        (w.setObj o (.chan (chanSend s w.ths.activeT.released w.ths.caus v))).forOthers
          (fun op => op.obj == o) Thread.wake
      else w.setObj o (.chan (chanSend s w.ths.activeT.released w.ths.caus v))) := by
  unfold World.sendEffect
  simp only [h, chanSend, Threads.syncStore, ok_bind]
  by_cases h0 : s.msgCnt = 0
  · simp [h0]
  · simp [h0]

/-- `recvEffect` -/
theorem recvEffect_eq (w : World) (o : Nat) (s : ChanSt) (h : w.getChan o = .ok s) :
    w.recvEffect o =
      if s.msgCnt = 0 then .error .msgUnderflow else
      match s.receiverSync, s.queue with
      | sy :: rest, v :: q =>
        let w1 := w.setObj o (.chan { s with msgCnt := s.msgCnt - 1, receiverSync := rest, queue := q })
        let w2 := w1.setThs (w1.ths.syncLoad sy .acq)
        .ok (if s.msgCnt = 1 then
          w2.forOthers (fun op => op.obj == o && op.action == .chanRecv) Thread.setBlocked
          else w2, v)
      | _, _ => .error (.internal 60) := by
  unfold World.recvEffect
  simp only [h, ok_bind]
  by_cases h0 : s.msgCnt = 0
  · simp [h0]
  · have hh : (s.msgCnt - 1 = 0) ↔ s.msgCnt = 1 := by omega
    simp [h0, hh]
    rfl

/-- `recvEffect` raises `msgUnderflow` ("expected to be able to read the message") exactly on an
empty channel (`msg_cnt.checked_sub(1)` fails) -/
theorem recvEffect_underflow_iff (w : World) (o : Nat) (s : ChanSt) (h : w.getChan o = .ok s) :
    w.recvEffect o = .error .msgUnderflow ↔ s.msgCnt = 0 := by
  rw [recvEffect_eq w o s h]
  by_cases h0 : s.msgCnt = 0
  · simp [h0]
  · simp only [h0, if_false]
    split <;> simp

/-- under the counting invariant a non-empty channel always delivers -/
theorem recvEffect_ok (w : World) (o : Nat) (s : ChanSt) (h : w.getChan o = .ok s)
    (hi : ChanInv s) (h0 : s.msgCnt ≠ 0) :
    ∃ sy rest v q, s.receiverSync = sy :: rest ∧ s.queue = v :: q ∧
      w.recvEffect o = .ok (
        (if s.msgCnt = 1 then
          ((w.setObj o (.chan (chanRecv s))).setThs (w.ths.syncLoad sy .acq)).forOthers
            (fun op => op.obj == o && op.action == .chanRecv) Thread.setBlocked
        else (w.setObj o (.chan (chanRecv s))).setThs (w.ths.syncLoad sy .acq)), v) := by
  rw [recvEffect_eq w o s h]
  obtain ⟨h1, h2⟩ := hi
  cases hr : s.receiverSync with
  | nil => simp [hr] at h2; omega
  | cons sy rest =>
    cases hq : s.queue with
    | nil => simp [hq] at h1; omega
    | cons v q =>
      refine ⟨sy, rest, v, q, rfl, rfl, ?_⟩
      simp [h0, chanRecv, hr, hq]

/-! ### inversion: what a successful step did to the channel object -/

theorem sendEffect_chan {w w' : World} {o : Nat} {v : Int} {s : ChanSt}
    (h : w.getChan o = .ok s) (hs : w.sendEffect o v = .ok w') :
    w'.getChan o = .ok (chanSend s w.ths.activeT.released w.ths.caus v) := by
  rw [sendEffect_eq w o v s h] at hs
  cases hs
  split
  · rw [getChan_ok_iff, objs_forOthers, ← getChan_ok_iff]; exact getChan_setObj h _
  · exact getChan_setObj h _

/-- the other objects are untouched by a send -/
theorem sendEffect_others {w w' : World} {o : Nat} {v : Int} {s : ChanSt}
    (h : w.getChan o = .ok s) (hs : w.sendEffect o v = .ok w') (o' : Nat) (ho : o' ≠ o) :
    w'.exec.objs[o']? = w.exec.objs[o']? := by
  rw [sendEffect_eq w o v s h] at hs
  cases hs
  split
  · rw [objs_forOthers]; exact objs_setObj_ne w o o' _ ho
  · exact objs_setObj_ne w o o' _ ho

theorem sendEffect_path {w w' : World} {o : Nat} {v : Int} {s : ChanSt}
    (h : w.getChan o = .ok s) (hs : w.sendEffect o v = .ok w') : w'.exec.path = w.exec.path := by
  rw [sendEffect_eq w o v s h] at hs
  cases hs
  split <;> rfl

structure RecvFacts (w w' : World) (o : Nat) (s : ChanSt) (v : Int) (sy : Sync) : Prop where
  nonempty : s.msgCnt ≠ 0
  sync : s.receiverSync = sy :: (chanRecv s).receiverSync
  queue : s.queue = v :: (chanRecv s).queue
  chan : w'.getChan o = .ok (chanRecv s)
  others : ∀ o', o' ≠ o → w'.exec.objs[o']? = w.exec.objs[o']?
  path : w'.exec.path = w.exec.path
  tid : w'.tid = w.tid
  threads :
    w'.ths = (if s.msgCnt = 1 then
      (w.setThs (w.ths.syncLoad sy .acq)).forOthers
        (fun op => op.obj == o && op.action == .chanRecv) Thread.setBlocked
      else w.setThs (w.ths.syncLoad sy .acq)).ths

theorem recvEffect_inv {w w' : World} {o : Nat} {v : Int} {s : ChanSt}
    (h : w.getChan o = .ok s) (hr : w.recvEffect o = .ok (w', v)) :
    ∃ sy, RecvFacts w w' o s v sy := by
  rw [recvEffect_eq w o s h] at hr
  by_cases h0 : s.msgCnt = 0
  · simp [h0] at hr
  · simp only [h0, if_false] at hr
    cases hrs : s.receiverSync with
    | nil => simp [hrs] at hr
    | cons sy rest =>
      cases hq : s.queue with
      | nil => simp [hrs, hq] at hr
      | cons v' q =>
        simp only [hrs, hq, Except.ok.injEq, Prod.mk.injEq] at hr
        obtain ⟨hw, hv⟩ := hr
        subst hv
        have hcr : ({ s with msgCnt := s.msgCnt - 1, receiverSync := rest, queue := q } : ChanSt)
            = chanRecv s := by simp [chanRecv, hrs, hq]
        rw [hcr] at hw
        refine ⟨sy, h0, by simp [chanRecv, hrs], by simp [chanRecv, hq], ?_, ?_, ?_, ?_, ?_⟩
        · subst hw
          split
          · rw [getChan_ok_iff, objs_forOthers, objs_setThs, ← getChan_ok_iff]
            exact getChan_setObj h _
          · rw [getChan_ok_iff, objs_setThs, ← getChan_ok_iff]
            exact getChan_setObj h _
        · intro o' ho
          subst hw
          split
          · rw [objs_forOthers, objs_setThs]; exact objs_setObj_ne w o o' _ ho
          · rw [objs_setThs]; exact objs_setObj_ne w o o' _ ho
        · subst hw; split <;> rfl
        · subst hw; split <;> rfl
        · subst hw; split <;> rfl

/-! ### clocks -/

/-- the clock stamped on a message is above the sender's causality and above the previous stamp -/
theorem chanSend_stamp (s : ChanSt) (released caus : VV) (v : Int) :
    caus.le (chanSend s released caus v).senderSync.hb ∧
      s.senderSync.hb.le (chanSend s released caus v).senderSync.hb :=
  ⟨caus_le_store_rel _ _ _, le_store_rel _ _ _⟩

/-- the receiver's causality after a receive: joined with the message's clock -/
theorem RecvFacts.caus {w w' : World} {o : Nat} {s : ChanSt} {v : Int} {sy : Sync}
    (f : RecvFacts w w' o s v sy) (hact : ActiveOk w.ths) :
    w'.ths.caus = w.ths.caus.join sy.hb := by
  rw [f.threads]
  split
  · rw [caus_forOthers, ths_setThs, caus_syncLoad hact, load_acq]
  · rw [ths_setThs, caus_syncLoad hact, load_acq]

/-! ### waking and blocking the other threads -/

/-- thread table after a send: if the channel was empty, every *other* thread whose pending
operation is on this object is woken (`Thread.wake`: a blocked thread becomes `Runnable`, whatever its
action; a thread that is not blocked — e.g. one holding an unpark token — is left alone: repair of
finding F18); nothing else changes -/
theorem sendEffect_threads {w w' : World} {o : Nat} {v : Int} {s : ChanSt}
    (h : w.getChan o = .ok s) (hs : w.sendEffect o v = .ok w') (i : Nat) :
    w'.ths.get i =
      if s.msgCnt = 0 ∧ i ≠ w.tid ∧ (∃ op, (w.ths.get i).operation = some op ∧ op.obj = o) then
        (w.ths.get i).wake
      else w.ths.get i := by
  rw [sendEffect_eq w o v s h] at hs
  cases hs
  by_cases h0 : s.msgCnt = 0
  · simp only [h0, if_true, true_and]
    rw [forOthers_get]
    simp only [tid_setObj, ths_setObj]
    by_cases hi : i = w.tid
    · simp [hi]
    · simp only [hi, if_false, ne_eq, not_false_eq_true, true_and]
      cases hop : (w.ths.get i).operation with
      | none => simp
      | some op => simp
  · simp [h0]

/-- no thread other than those is touched, the active thread in particular -/
theorem sendEffect_active {w w' : World} {o : Nat} {v : Int} {s : ChanSt}
    (h : w.getChan o = .ok s) (hs : w.sendEffect o v = .ok w') :
    w'.ths.activeId = w.ths.activeId ∧ w'.ths.get w.tid = w.ths.get w.tid := by
  refine ⟨?_, ?_⟩
  · rw [sendEffect_eq w o v s h] at hs
    cases hs
    split <;> rfl
  · rw [sendEffect_threads h hs]; simp

/-- thread table after a receive: the receiver acquires the message's clock; if the channel
became empty every *other* thread pending a `MsgRecv` on this object becomes `Blocked` -/
theorem RecvFacts.get {w w' : World} {o : Nat} {s : ChanSt} {v : Int} {sy : Sync}
    (f : RecvFacts w w' o s v sy) (i : Nat) (hi : i ≠ w.tid) :
    w'.ths.get i =
      if s.msgCnt = 1 ∧ (∃ op, (w.ths.get i).operation = some op ∧ op.obj = o ∧
          op.action = .chanRecv) then
        (w.ths.get i).setBlocked
      else w.ths.get i := by
  rw [f.threads]
  have hne : (w.setThs (w.ths.syncLoad sy .acq)).ths.get i = w.ths.get i := by
    rw [ths_setThs]; exact get_syncLoad_ne _ _ _ _ hi
  by_cases h1 : s.msgCnt = 1
  · simp only [h1, if_true, true_and]
    rw [forOthers_get]
    have ht : (w.setThs (w.ths.syncLoad sy .acq)).tid = w.tid := rfl
    rw [ht, if_neg hi, hne]
    cases hop : (w.ths.get i).operation with
    | none => simp
    | some op => simp
  · simp only [h1, if_false, false_and]
    exact hne

/-! ### stage 0 of `recv` and `try_recv` -/

/-- the thread table `branch` hands to `Execution::schedule` -/
def branchThreads (w : World) (obj : Nat) (act : Action) (block : Bool) (wait : Bool := false) : Threads :=
  w.ths.modifyActive fun t =>
    let t := { t with operation := some ⟨obj, act, wait⟩ }
    if block then t.setBlocked else t

theorem branch_eq (w : World) (obj : Nat) (act : Action) (block wait : Bool) :
    w.branch obj act block wait =
      (({ w.exec with threads := branchThreads w obj act block wait }).schedule w.panicking >>=
        fun r => pure { w with exec := r.1 }) := rfl

/-- in the table handed to the scheduler the active thread carries the operation (with its `blocking` flag
`wait`), and is `Blocked` iff `block` was requested (it was runnable before) -/
theorem branchThreads_active (w : World) (obj : Nat) (act : Action) (block wait : Bool)
    (hact : ActiveOk w.ths) :
    (branchThreads w obj act block wait).activeT.operation = some ⟨obj, act, wait⟩ ∧
    (branchThreads w obj act block wait).activeT.state =
      if block then .blocked else w.ths.activeT.state := by
  unfold ActiveOk at hact
  simp only [branchThreads, Threads.modifyActive, Threads.activeT, activeId_modify, get_modify,
    hact, and_self, if_true]
  cases block <;> simp [Thread.setBlocked]

/-- … and no other thread is changed -/
theorem branchThreads_other (w : World) (obj : Nat) (act : Action) (block wait : Bool) (i : Nat)
    (hi : i ≠ w.ths.activeId) :
    (branchThreads w obj act block wait).get i = w.ths.get i := by
  simp only [branchThreads, Threads.modifyActive, get_modify]
  rw [if_neg]; omega

theorem runOp_recv_stage0 (w : World) (c : TCtl) (qi : Nat) (s : ChanSt) (hc : c.stage = 0)
    (h : w.getChan (w.chanObj qi) = .ok s) :
    w.runOp c (.recv qi) =
      (w.setStage 1).branch (w.chanObj qi) .chanRecv (block := s.msgCnt == 0) (wait := true) := by
  simp [World.runOp, hc, h]

theorem runOp_recv_stage1 (w : World) (c : TCtl) (qi : Nat) (hc : c.stage ≠ 0) :
    w.runOp c (.recv qi) =
      (w.recvEffect (w.chanObj qi) >>= fun r => pure (r.1.complete (.val r.2))) := by
  simp only [World.runOp, beq_iff_eq, hc, if_false]

theorem runOp_tryRecv_stage0_empty (w : World) (c : TCtl) (qi : Nat) (s : ChanSt)
    (hc : c.stage = 0) (h : w.getChan (w.chanObj qi) = .ok s) (h0 : s.msgCnt = 0) :
    w.runOp c (.tryRecv qi) = .ok (w.complete .empty) := by
  simp [World.runOp, hc, h, h0]

/-- stage 0 of `try_recv` on a non-empty channel: the branch point of `recv` — but as an ATTEMPT
(`blocking = false`), whereas `recv` itself waits (`blocking = true`); neither blocks here -/
theorem runOp_tryRecv_stage0_nonempty (w : World) (c : TCtl) (qi : Nat) (s : ChanSt)
    (hc : c.stage = 0) (h : w.getChan (w.chanObj qi) = .ok s) (h0 : s.msgCnt ≠ 0) :
    w.runOp c (.tryRecv qi) = (w.setStage 1).branch (w.chanObj qi) .chanRecv ∧
    w.runOp c (.recv qi) =
      (w.setStage 1).branch (w.chanObj qi) .chanRecv (block := false) (wait := true) := by
  have : (s.msgCnt == 0) = false := by simp [h0]
  constructor
  · simp [World.runOp, hc, h, h0]
  · simp [World.runOp, hc, h, this]

theorem runOp_tryRecv_stage1 (w : World) (c : TCtl) (qi : Nat) (hc : c.stage ≠ 0) :
    w.runOp c (.tryRecv qi) = w.runOp c (.recv qi) := by
  simp only [World.runOp, beq_iff_eq, hc, if_false]

theorem runOp_send_stage0 (w : World) (c : TCtl) (qi : Nat) (v : Int) (hc : c.stage = 0) :
    w.runOp c (.send qi v) = (w.setStage 1).branch (w.chanObj qi) .chanSend := by
  simp [World.runOp, hc]

theorem runOp_send_stage1 (w : World) (c : TCtl) (qi : Nat) (v : Int) (hc : c.stage ≠ 0) :
    w.runOp c (.send qi v) =
      (w.sendEffect (w.chanObj qi) v >>= fun w' => pure (w'.complete .unit)) := by
  simp only [World.runOp, beq_iff_eq, hc, if_false]

end C09
end LoomVerif

/-
Race exactness, part 4: the reference side.  `LinkR`: a clock system describes the clocks of a reference state;
the state transformers of `SC.step` (tick, acquire, the release into `mutexRel`, the recording of an access in
`cellW` / `cellR`, the start of a thread) are the operations of `Proofs/RaceClocks.lean`; `SC.step` spelled out for
every operation of the fragment.
-/
import LoomVerif.Proofs.RefineLift
import LoomVerif.Proofs.RefineRel
import LoomVerif.Proofs.RaceClocks

namespace LoomVerif
namespace Race
open Refine Clocks

/-- the clock system `σ` describes the clocks of the reference state `s` (no access section is open: the fragment
has no `crdb` / `cwrb`) -/
structure LinkR (p : Prog) (s : SC.St) (σ : CS) : Prop where
  thr : ∀ b, σ.thr b = s.vc b
  mtx : ∀ m, σ.mtx m = s.mutexRel.getD m VV.zero
  accW : ∀ c, σ.acc true c = s.cellW.getD c VV.zero
  accR : ∀ c, σ.acc false c = s.cellR.getD c VV.zero
  lenM : s.mutexRel.length = p.cfg.nMutexes
  lenW : s.cellW.length = p.cfg.nCells
  lenR : s.cellR.length = p.cfg.nCells
  opnW : ∀ c, s.cellWOpen.getD c false = false
  opnR : ∀ c, s.cellOpen.getD c 0 = 0

theorem vc_modTh (s : SC.St) (t u : Nat) (f : SC.Th → SC.Th) :
    (s.modTh t f).vc u = if t = u ∧ u < s.ths.length then (f (s.th u)).vc else s.vc u := by
  unfold SC.St.vc
  rw [th_modTh _ _ _ _ (.inr trivial)]
  split <;> rfl

theorem vc_tick (s : SC.St) (t u : Nat) (ht : t < s.ths.length) :
    (s.tick t).vc u = upd s.vc t ((s.vc t).inc t) u := by
  unfold SC.St.tick
  rw [vc_modTh]
  by_cases e : u = t
  · subst e; rw [if_pos ⟨rfl, ht⟩, upd_self]; rfl
  · rw [if_neg (fun h => e h.1.symm), upd_ne _ _ e]

theorem vc_acquire (s : SC.St) (t u : Nat) (Z : VV) (ht : t < s.ths.length) :
    (s.acquire t Z).vc u = upd s.vc t ((s.vc t).join Z) u := by
  unfold SC.St.acquire
  rw [vc_modTh]
  by_cases e : u = t
  · subst e; rw [if_pos ⟨rfl, ht⟩, upd_self]; rfl
  · rw [if_neg (fun h => e h.1.symm), upd_ne _ _ e]

theorem vc_ret (s : SC.St) (t u : Nat) (r : Ret) : (s.ret t r).vc u = s.vc u := by
  unfold SC.St.ret
  rw [vc_modTh]
  split <;> rfl

theorem getD_set_upd {α : Type} (l : List α) (i j : Nat) (x d : α) (h : i < l.length) :
    (l.set i x).getD j d = upd (fun k => l.getD k d) i x j := by
  by_cases e : j = i
  · subst e; rw [upd_self, getD_set_self' _ _ _ _ h]
  · rw [upd_ne _ _ e, getD_set_ne _ _ _ _ _ e]

section
variable {p : Prog} {s : SC.St} {σ : CS}

/-- a state that differs from `s` in nothing the link reads -/
theorem LinkR.same (h : LinkR p s σ) (s' : SC.St) (h1 : ∀ b, s'.vc b = s.vc b) (h2 : s'.mutexRel = s.mutexRel)
    (h3 : s'.cellW = s.cellW) (h4 : s'.cellR = s.cellR) (h5 : s'.cellWOpen = s.cellWOpen)
    (h6 : s'.cellOpen = s.cellOpen) : LinkR p s' σ :=
  ⟨fun b => by rw [h1]; exact h.thr b, fun m => by rw [h2]; exact h.mtx m, fun c => by rw [h3]; exact h.accW c,
   fun c => by rw [h4]; exact h.accR c, by rw [h2]; exact h.lenM, by rw [h3]; exact h.lenW,
   by rw [h4]; exact h.lenR, fun c => by rw [h5]; exact h.opnW c, fun c => by rw [h6]; exact h.opnR c⟩

theorem LinkR.tick (h : LinkR p s σ) {t : Nat} (ht : t < s.ths.length) : LinkR p (s.tick t) (σ.tick t) := by
  refine ⟨?_, h.mtx, h.accW, h.accR, h.lenM, h.lenW, h.lenR, h.opnW, h.opnR⟩
  intro b
  rw [vc_tick _ _ _ ht]
  show upd σ.thr t _ b = _
  by_cases e : b = t
  · subst e; rw [upd_self, upd_self, h.thr]
  · rw [upd_ne _ _ e, upd_ne _ _ e, h.thr]

theorem LinkR.acquire (h : LinkR p s σ) {t : Nat} (ht : t < s.ths.length) (Z : VV) :
    LinkR p (s.acquire t Z) (σ.acq t Z) := by
  refine ⟨?_, h.mtx, h.accW, h.accR, h.lenM, h.lenW, h.lenR, h.opnW, h.opnR⟩
  intro b
  rw [vc_acquire _ _ _ _ ht]
  show upd σ.thr t _ b = _
  by_cases e : b = t
  · subst e; rw [upd_self, upd_self, h.thr]
  · rw [upd_ne _ _ e, upd_ne _ _ e, h.thr]

theorem LinkR.ret (h : LinkR p s σ) (t : Nat) (r : Ret) : LinkR p (s.ret t r) σ :=
  h.same _ (fun b => vc_ret s t b r) rfl rfl rfl rfl rfl

/-- the release into `mutexRel` -/
theorem LinkR.release (h : LinkR p s σ) {t m : Nat} (hm : m < p.cfg.nMutexes) (mx : List (Option Nat)) :
    LinkR p { s with mutex := mx, mutexRel := s.mutexRel.set m ((s.mutexRel.getD m VV.zero).join (s.vc t)) }
      (σ.rel t m) := by
  refine ⟨h.thr, ?_, h.accW, h.accR, by simpa using h.lenM, h.lenW, h.lenR, h.opnW, h.opnR⟩
  intro m'
  show upd σ.mtx m _ m' = (s.mutexRel.set m _).getD m' VV.zero
  rw [getD_set_upd _ _ _ _ _ (by rw [h.lenM]; exact hm)]
  by_cases e : m' = m
  · subst e; rw [upd_self, upd_self, h.mtx, h.thr]
  · rw [upd_ne _ _ e, upd_ne _ _ e, h.mtx]

theorem LinkR.recordW (h : LinkR p s σ) {t c : Nat} (hc : c < p.cfg.nCells) (cs : List Int) :
    LinkR p { s with cells := cs, cellW := s.cellW.set c ((s.cellW.getD c VV.zero).join (s.vc t)) }
      (σ.record true t c) := by
  refine ⟨h.thr, h.mtx, ?_, ?_, h.lenM, by simpa using h.lenW, h.lenR, h.opnW, h.opnR⟩
  · intro c'
    show (if true = true ∧ c' = c then (σ.acc true c).join (σ.thr t) else σ.acc true c') =
      (s.cellW.set c _).getD c' VV.zero
    rw [getD_set_upd _ _ _ _ _ (by rw [h.lenW]; exact hc)]
    by_cases e : c' = c
    · subst e; rw [if_pos ⟨rfl, rfl⟩, upd_self, h.accW, h.thr]
    · rw [if_neg (fun hh => e hh.2), upd_ne _ _ e, h.accW]
  · intro c'
    show (if false = true ∧ c' = c then (σ.acc true c).join (σ.thr t) else σ.acc false c') = _
    rw [if_neg (fun hh => by cases hh.1)]
    exact h.accR c'

theorem LinkR.recordR (h : LinkR p s σ) {t c : Nat} (hc : c < p.cfg.nCells) :
    LinkR p { s with cellR := s.cellR.set c ((s.cellR.getD c VV.zero).join (s.vc t)) }
      (σ.record false t c) := by
  refine ⟨h.thr, h.mtx, ?_, ?_, h.lenM, h.lenW, by simpa using h.lenR, h.opnW, h.opnR⟩
  · intro c'
    show (if true = false ∧ c' = c then (σ.acc false c).join (σ.thr t) else σ.acc true c') = _
    rw [if_neg (fun hh => by cases hh.1)]
    exact h.accW c'
  · intro c'
    show (if false = false ∧ c' = c then (σ.acc false c).join (σ.thr t) else σ.acc false c') =
      (s.cellR.set c _).getD c' VV.zero
    rw [getD_set_upd _ _ _ _ _ (by rw [h.lenR]; exact hc)]
    by_cases e : c' = c
    · subst e; rw [if_pos ⟨rfl, rfl⟩, upd_self, h.accR, h.thr]
    · rw [if_neg (fun hh => e hh.2), upd_ne _ _ e, h.accR]

/-- the start of thread `b`, whose clock is still zero, by thread `t` -/
theorem LinkR.fork (h : LinkR p s σ) {t b : Nat} (hb : b < s.ths.length) (hz : s.vc b = VV.zero) :
    LinkR p (s.modTh b fun h => { h with started := true, vc := (h.vc.join (s.vc t)).inc b }) (σ.fork t b) := by
  refine ⟨?_, h.mtx, h.accW, h.accR, h.lenM, h.lenW, h.lenR, h.opnW, h.opnR⟩
  intro b'
  rw [vc_modTh]
  show upd σ.thr b _ b' = _
  by_cases e : b' = b
  · subst e
    rw [upd_self, if_pos ⟨rfl, hb⟩, h.thr]
    show _ = (((s.th b').vc.join (s.vc t)).inc b')
    have : (s.th b').vc = VV.zero := hz
    rw [this, zero_join]
  · rw [upd_ne _ _ e, if_neg (fun hh => e hh.1.symm), h.thr]

/-- a change of a thread that keeps its clock -/
theorem LinkR.modTh (h : LinkR p s σ) (t : Nat) (f : SC.Th → SC.Th) (hf : ∀ a, (f a).vc = a.vc) :
    LinkR p (s.modTh t f) σ := by
  refine h.same _ ?_ rfl rfl rfl rfl rfl
  intro b
  rw [vc_modTh]
  split
  · exact hf _
  · rfl

end

/-! ### `SC.step` on the operations of the fragment, spelled out -/

section
variable {p : Prog} {s : SC.St} {t : Nat}

theorem step_cellRead {c : Nat} (hcv : (s.th t).cvNotified = none) (ho : SC.opOf p s t = some (.cellRead c)) :
    SC.step p s t =
      if s.cellWOpen.getD c false then [(s.tick t).stop (.race 9)] else
      if !(s.cellW.getD c VV.zero).ble ((s.tick t).vc t) then [(s.tick t).stop (.race 9)] else
      [({ s.tick t with cellR := s.cellR.set c ((s.cellR.getD c VV.zero).join ((s.tick t).vc t)) }).ret t
        (.val (s.cells.getD c 0))] := by
  unfold SC.step
  simp only [hcv, ho]
  rfl

theorem step_cellWrite {c : Nat} {v : Int} (hcv : (s.th t).cvNotified = none)
    (ho : SC.opOf p s t = some (.cellWrite c v)) :
    SC.step p s t =
      if s.cellWOpen.getD c false then [(s.tick t).stop (.race 10)] else
      if s.cellOpen.getD c 0 != 0 then [(s.tick t).stop (.race 11)] else
      if !(s.cellW.getD c VV.zero).ble ((s.tick t).vc t) then [(s.tick t).stop (.race 10)] else
      if !(s.cellR.getD c VV.zero).ble ((s.tick t).vc t) then [(s.tick t).stop (.race 11)] else
      [({ s.tick t with cells := s.cells.set c v,
                        cellW := s.cellW.set c ((s.cellW.getD c VV.zero).join ((s.tick t).vc t)) }).ret t .unit] := by
  unfold SC.step
  simp only [hcv, ho]
  rfl

theorem step_lock {m : Nat} (hcv : (s.th t).cvNotified = none) (ho : SC.opOf p s t = some (.lock m)) :
    SC.step p s t =
      [(({ s.tick t with mutex := s.mutex.set m (some t) } : SC.St).acquire t (s.mutexRel.getD m VV.zero)).ret t .unit] := by
  unfold SC.step
  simp only [hcv, ho]
  rfl

theorem step_tryLock {m : Nat} (hcv : (s.th t).cvNotified = none) (ho : SC.opOf p s t = some (.tryLock m)) :
    SC.step p s t =
      if (s.mutex.getD m none).isNone then
        [(({ s.tick t with mutex := s.mutex.set m (some t) } : SC.St).acquire t (s.mutexRel.getD m VV.zero)).ret t
          (SC.bool01 true)]
      else [(s.tick t).ret t (SC.bool01 false)] := by
  unfold SC.step
  simp only [hcv, ho]
  rfl

theorem step_unlock {m : Nat} (hcv : (s.th t).cvNotified = none) (ho : SC.opOf p s t = some (.unlock m)) :
    SC.step p s t =
      [({ s.tick t with mutex := s.mutex.set m none,
                        mutexRel := s.mutexRel.set m ((s.mutexRel.getD m VV.zero).join ((s.tick t).vc t)) }).ret t
        .unit] := by
  unfold SC.step
  simp only [hcv, ho]
  rfl

theorem step_spawn {b : Nat} (hcv : (s.th t).cvNotified = none) (ho : SC.opOf p s t = some (.spawn b)) :
    SC.step p s t =
      [((s.tick t).modTh b fun h => { h with started := true, vc := (h.vc.join ((s.tick t).vc t)).inc b }).ret t
        .unit] := by
  unfold SC.step
  simp only [hcv, ho]

theorem step_join {b : Nat} (hcv : (s.th t).cvNotified = none) (ho : SC.opOf p s t = some (.join b)) :
    SC.step p s t = [((s.tick t).acquire t ((s.tick t).vc b)).ret t .unit] := by
  unfold SC.step
  simp only [hcv, ho]

theorem step_ifEq {i n : Nat} {r : Ret} (hcv : (s.th t).cvNotified = none)
    (ho : SC.opOf p s t = some (.ifEq i r n)) :
    SC.step p s t =
      if (s.th t).rets.lookup ((s.th t).pc - i) == some r then [s.modTh t fun h => { h with pc := h.pc + 1 }]
      else [s.modTh t fun h => { h with pc := h.pc + 1 + n }] := by
  unfold SC.step
  simp only [hcv, ho]

theorem step_end (hf : FragTh (s.th t)) (ho : SC.opOf p s t = none) :
    SC.step p s t =
      [(if t == 0 then { s with lazyDropped := true } else s).modTh t fun h => { h with finished := true }] := by
  have key : SC.finish p s t =
      [(if t == 0 then { s with lazyDropped := true } else s).modTh t fun h => { h with finished := true }] := by
    unfold SC.finish
    simp only [hf.2.2.1, hf.2.2.2, List.map_nil, List.contains_nil, List.filter_cons, List.filter_nil,
      Bool.false_eq_true, if_false, List.isEmpty_nil, if_true, SC.perms2, List.map_cons, List.foldl_nil]
    split
    · simp
    · rfl
  unfold SC.step
  simp only [hf.2.1, ho, key]

end

end Race
end LoomVerif

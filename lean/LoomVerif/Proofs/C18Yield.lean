/-
C18: yielded threads are de-prioritised, never become backtrack alternatives at the entry where
they are marked `yield`, are re-activated by the next `schedule`; the "seen before yield"
pruning rule of atomic loads; the branch limit.
-/
import LoomVerif.Proofs.C01Choice

namespace LoomVerif

/-! ### `Thread.setYield` -/

namespace Thread

theorem setYield_spec (t : Thread) (id : Nat) :
    (t.setYield id).state = .yield ∧ (t.setYield id).isYield = true ∧
    (t.setYield id).isRunnable = false ∧ (t.setYield id).isTerminated = false ∧
    (t.setYield id).lastYield = some (t.causality.get id) ∧
    (t.setYield id).yieldCount = t.yieldCount + 1 :=
  ⟨rfl, rfl, rfl, rfl, rfl, rfl⟩

theorem isYield_not_runnable {t : Thread} (h : t.isYield = true) : t.isRunnable = false := by
  unfold isYield at h
  unfold isRunnable
  have : t.state = .yield := by simpa using h
  rw [this]; rfl

theorem setRunnable_spec (t : Thread) :
    t.setRunnable.isRunnable = true ∧ t.setRunnable.isYield = false ∧
    t.setRunnable = { t with state := .runnable, parked := false } := ⟨rfl, rfl, rfl⟩

end Thread

namespace Exec

/-! ### the states written into a pushed entry -/

theorem seedSt_cases (c : Option Nat) (i : Nat) (th : Thread) :
    (seedSt c i th = .active ↔ c = some i) ∧
    (seedSt c i th = .yield ↔ c ≠ some i ∧ th.isYield = true) ∧
    (seedSt c i th = .skip ↔ c ≠ some i ∧ th.isRunnable = true) ∧
    (seedSt c i th = .disabled ↔ c ≠ some i ∧ th.isYield = false ∧ th.isRunnable = false) ∧
    seedSt c i th ≠ .pending ∧ seedSt c i th ≠ .visited := by
  unfold seedSt
  by_cases hc : c = some i
  · simp [hc]
  · by_cases hy : th.isYield = true
    · have := Thread.isYield_not_runnable hy
      simp [hc, hy, this]
    · have hy' : th.isYield = false := by simpa using hy
      by_cases hr : th.isRunnable = true
      · simp [hc, hy', hr]
      · have hr' : th.isRunnable = false := by simpa using hr
        simp [hc, hy', hr']

theorem padTo_getElem? {α} (l : List α) (n : Nat) (d : α) (i : Nat) (h : i < l.length) :
    (Path.padTo l n d)[i]? = l[i]? := by
  unfold Path.padTo
  exact List.getElem?_append_left h

theorem padTo_getElem?_ge {α} (l : List α) (n : Nat) (d : α) (i : Nat) (h1 : l.length ≤ i)
    (h2 : i < n) : (Path.padTo l n d)[i]? = some d := by
  unfold Path.padTo
  rw [List.getElem?_append_right h1, List.getElem?_replicate]
  rw [if_pos (by omega)]

/-- states of the threads in the entry pushed by `schedule` -/
theorem pushed_states (ths : List Thread) (c : Option Nat) (i : Nat) :
    (Path.padTo (ths.mapIdx (seedSt c)) NT ThSt.disabled)[i]? =
      match ths[i]? with
      | some th => some (seedSt c i th)
      | none => if i < NT then some .disabled else none := by
  cases hi : ths[i]? with
  | some th =>
    have hlt : i < ths.length := (List.getElem?_eq_some_iff.1 hi).1
    rw [padTo_getElem? _ _ _ _ (by simpa using hlt)]
    simp [hi]
  | none =>
    have hge : ths.length ≤ i := by simpa using hi
    simp only
    split
    · rename_i h; exact padTo_getElem?_ge _ _ _ _ (by simpa using hge) h
    · rename_i h
      apply List.getElem?_eq_none
      unfold Path.padTo
      simp; omega

/-! ### C18.1 -/

/-- a yielded thread is chosen only when no thread is runnable -/
theorem choice_yield {ths : Threads} (hc : ths.activeId < ths.threads.length) {i : Nat}
    {th : Thread} (hi : ths.threads[i]? = some th) (hy : th.isYield = true)
    (hch : choice ths = some i) :
    (∀ t ∈ ths.threads, t.isRunnable = false) ∧ findIdx? Thread.isYield ths.threads = some i := by
  have hnr := Thread.isYield_not_runnable hy
  have hact : ths.activeT = ths.threads[ths.activeId] := by
    simp [Threads.activeT, Threads.get, List.getD, hc]
  unfold choice at hch
  split at hch
  · rename_i hr
    cases hch
    rw [hact] at hr
    have : ths.threads[ths.activeId]? = some th := hi
    rw [List.getElem?_eq_getElem hc] at this
    cases this
    rw [hnr] at hr; cases hr
  · split at hch
    · rename_i m hm
      cases hch
      obtain ⟨tm, h1, h2, _⟩ := pickInitial_eq_some hm
      rw [hi] at h1; cases h1
      rw [hnr] at h2; cases h2
    · rename_i hp
      exact ⟨(pickInitial_eq_none _).1 hp, hch⟩

/-- `Schedule::backtrack` never touches a `yield` mark -/
theorem _root_.LoomVerif.Sched.backtrack_yield_kept {s s' : Sched} {tid : Nat} {bound : Option Nat}
    (h : s.backtrack tid bound = .ok s') (j : Nat) (hj : s.threads[j]? = some .yield) :
    s'.threads[j]? = some .yield := by
  have := (Sched.backtrack_spec s s' tid bound).1 h
  cases bound with
  | none => exact this.2.yield_kept j hj
  | some b =>
    by_cases hb : s.preemptions = b
    · rw [this.2.2.1 hb]; exact hj
    · exact (this.2.2.2 hb).yield_kept j hj

/-- the states recorded in the entry pushed by `schedule`: the chosen thread is `active`, other
yielded threads `yield`, other runnable threads `skip`, all others `disabled` -/
theorem pushed_entry_states {e e' : Exec} {pk b : Bool} (ht : e.path.isTraversed = true)
    (hc : e.threads.activeId < e.threads.threads.length) (h : e.schedule pk = .ok (e', b)) :
    ∃ p1 s, e.dporMarks = .ok p1 ∧ e'.path.branches = p1.branches ++ [.sched s] ∧
      s.activeIdx = e'.threads.active ∧
      ∀ i, s.threads[i]? =
        match e.threads.threads[i]? with
        | some th => some (seedSt e'.threads.active i th)
        | none => if i < NT then some .disabled else none := by
  obtain ⟨hact, p1, s, hd, hp, hs, hi, _⟩ := schedule_choice ht hc h
  refine ⟨p1, s, hd, by rw [hp], by rw [hi, hact], ?_⟩
  intro i
  rw [hs, hact]
  exact pushed_states _ _ _

/-! ### C18.2 -/

theorem reactivate_getElem? (ths : List Thread) (nid i : Nat) :
    (reactivate ths nid)[i]? =
      (ths[i]?).map fun th => if th.isYield && i != nid then th.setRunnable else th := by
  unfold reactivate
  simp [List.getElem?_mapIdx]

/-- the last loop of `schedule`: every thread in `yield` state other than the chosen one is set
back to `runnable`; all other threads keep their state, and only the chosen thread's DPOR
clock changes -/
theorem yield_reactivated {e e' : Exec} {pk b : Bool} {nid : Nat}
    (h : e.schedule pk = .ok (e', b)) (hn : e'.threads.active = some nid) :
    e'.threads.threads.length = e.threads.threads.length ∧
    ∀ i th, e.threads.threads[i]? = some th →
      ∃ th', e'.threads.threads[i]? = some th' ∧
        (i ≠ nid → th' = if th.isYield then th.setRunnable else th) ∧
        (i = nid → th' = { th with dporVV := th'.dporVV }) := by
  obtain ⟨_, p1, next, _, _, hact, hfin⟩ := schedule_ok h
  rw [hn] at hact
  subst hact
  simp only at hfin
  obtain ⟨ths, objs, hf, he', _⟩ := finish_ok hfin
  obtain ⟨_, _, _, hcase⟩ := finishOp_ok hf
  have hthreads : e'.threads.threads = reactivate ths.threads nid := by rw [he']
  rw [hthreads]
  rcases hcase with ⟨h1, _, _⟩ | ⟨op, d, _, h1, _⟩
  · rw [h1]
    refine ⟨by simp [reactivate], ?_⟩
    intro i th hi
    rw [reactivate_getElem?, hi]
    refine ⟨_, rfl, ?_, ?_⟩
    · intro hne; simp [hne]
    · intro heq; simp [heq]
  · rw [h1]
    refine ⟨by simp [reactivate], ?_⟩
    intro i th hi
    rw [reactivate_getElem?, List.getElem?_modify, hi]
    refine ⟨_, rfl, ?_, ?_⟩
    · intro hne
      have : ¬ nid = i := fun h => hne h.symm
      simp [this, hne]
    · intro heq; subst heq; simp

/-- corollary: after `schedule` no thread other than the chosen one is in `yield` state -/
theorem no_yield_after_schedule {e e' : Exec} {pk b : Bool} {nid : Nat}
    (h : e.schedule pk = .ok (e', b)) (hn : e'.threads.active = some nid) :
    ∀ i th', e'.threads.threads[i]? = some th' → i ≠ nid → th'.isYield = false := by
  obtain ⟨hl, hall⟩ := yield_reactivated h hn
  intro i th' hi hne
  have hlt : i < e.threads.threads.length := by
    rw [← hl]; exact (List.getElem?_eq_some_iff.1 hi).1
  obtain ⟨t2, h2, h3, _⟩ := hall i _ (List.getElem?_eq_getElem hlt)
  rw [hi] at h2; cases h2
  rw [h3 hne]
  split
  · rfl
  · rename_i hy; simpa using hy

end Exec

/-! ### C18.3 -/

namespace Atomic

theorem loadBlocked_iff_isSC (a : Atomic) (ths : Threads) (o : Ord) (i j : Nat) :
    a.loadBlocked ths o i j = true ↔
      (a.storeAt j).firstSeen.isSeenByCurrent ths = true ∨
      (a.storeAt i).firstSeen.isSeenBeforeYield ths = true ∨
      (o.isSC = true ∧ (a.storeAt i).seqCst = true ∧ (a.storeAt j).seqCst = true) := by
  unfold loadBlocked
  simp only [Bool.or_eq_true, Bool.and_eq_true]
  constructor
  · rintro ((h | h) | h)
    · exact Or.inl h
    · exact Or.inr (Or.inl h)
    · exact Or.inr (Or.inr ⟨h.1.1, h.1.2, h.2⟩)
  · rintro (h | h | h)
    · exact Or.inl (Or.inl h)
    · exact Or.inl (Or.inr h)
    · exact Or.inr ⟨⟨h.1, h.2.1⟩, h.2.2⟩

end Atomic

namespace FirstSeen

theorem isSeenBeforeYield_iff (fs : FirstSeen) (ths : Threads) :
    fs.isSeenBeforeYield ths = true ↔
      ∃ ly v, ths.activeT.lastYield = some ly ∧ fs.getD ths.activeId none = some v ∧ v ≤ ly := by
  unfold isSeenBeforeYield
  constructor
  · intro h
    split at h
    · cases h
    · rename_i ly hly
      split at h
      · cases h
      · rename_i v hv
        exact ⟨ly, v, hly, hv, by simpa using h⟩
  · rintro ⟨ly, v, h1, h2, h3⟩
    rw [h1]; simp only; rw [h2]; simpa using h3

end FirstSeen

/-! ### C18.4 -/

namespace Path

/-- at the branch limit every pushing call (not made while panicking) fails with
`branchLimit` -/
theorem push_at_limit (p : Path) (h : p.cap ≤ p.branches.length) :
    (∀ seed, p.pushLoad seed false = .error .branchLimit) ∧
    (p.isTraversed = true → p.branchSpurious false = .error .branchLimit) ∧
    (p.isTraversed = true → ∀ seed, p.branchThread seed false = .error .branchLimit) := by
  have hlt : ¬ p.branches.length < p.cap := by omega
  refine ⟨?_, ?_, ?_⟩
  · intro seed
    unfold pushLoad assertLen
    simp [hlt]
    rfl
  · intro ht
    unfold branchSpurious assertLen
    simp [ht, hlt]
    rfl
  · intro ht seed
    rw [branchThread_traversed _ _ _ ht]
    simp [hlt]

end Path

namespace Exec

/-- `schedule` at the branch limit -/
theorem schedule_at_limit {e : Exec} {p1 : Path} (ha : e.threads.isActive = true)
    (hd : e.dporMarks = .ok p1) (ht : e.path.isTraversed = true)
    (h : e.path.cap ≤ e.path.branches.length) : e.schedule false = .error .branchLimit := by
  obtain ⟨h1, _, _⟩ := dporMarks_shape hd false
  obtain ⟨_, hl, he, _⟩ := dporMarks_frame hd
  rw [schedule_eq, hd]
  simp only [ha, Bool.not_true, Bool.false_eq_true, if_false]
  have hcap : p1.cap ≤ p1.branches.length := by rw [hl, he]; exact h
  rw [(Path.push_at_limit p1 hcap).2.2 (h1.trans ht)]

end Exec
end LoomVerif

/-
Refinement, WAIT fragment, part 8: the simulation for `spawn`, `join` and the thread epilogue against the
extended relation.
-/
import LoomVerif.Proofs.Refine2Ops1

namespace LoomVerif
namespace Refine2
open Refine Sy C07 C08

section
variable {w w' : World} {s : SCData2}

theorem sim_spawn (hwf : WF2 w.prog) (hR : R2c w s) (hact : w.tid < w.ctl.length) {b : Nat}
    (hop : opAt2 w = some (.spawn b))
    (h : w.runOp (w.ctlOf w.tid) (.spawn b) = .ok w') : Sim2c w s w' := by
  obtain ⟨_, hrel, hof⟩ := base2 hR hact
  have hf0 := fin_zero2 hR hact hop
  obtain ⟨hN, hC, hD⟩ := plain_pend (c := w.ctlOf w.tid) hop rfl
  have c2 := (cv_none hR hact hC).2
  obtain ⟨hb0, hb, hidle⟩ := hR.x.spawn_fresh hwf hact hop
  obtain ⟨w2, rfl, hp, ht, hev, hc, hsp, hobjs, hlen⟩ := spawn_obs h
  have hnw : w2.notifyWaiting = w.notifyWaiting := by
    rw [runOp_spawn] at h
    simp only [World.pushObj, bind, Except.bind, pure, Except.pure] at h
    split at h
    · cases h
    · next v hv =>
      have h' := congrArg World.notifyWaiting (Except.ok.inj h)
      exact h'.symm
  obtain ⟨h1, h2, h3, h4, h5, h6, h7⟩ := hrel
  have hne : (w.ctlOf w.tid).body ≠ b := hidle w.tid hact
  have hidleb : s.ths.getD b {} = {} := hR.x.idle b hb hidle
  have hcc : (w2.complete .unit).ctl = (w.ctl ++ [({ body := b } : TCtl)]).modify w.tid (completeF .unit) := by
    rw [ctl_complete', hc, ht]
  have hold : (w.ctl ++ [({ body := b } : TCtl)]).getD w.tid {} = w.ctl.getD w.tid {} :=
    getD_append_left _ _ _ _ hact
  have e : (s.modTh b fun h => { h with started := true }).ret (w.ctlOf w.tid).body .unit =
      { s with ths := ((s.ths.modify (w.ctl.getD w.tid {}).body
          (fun h => { h with rets := (h.pc, Ret.unit) :: h.rets, pc := h.pc + 1 })).modify b
          fun h => { h with started := true }) } := by
    simp only [SCData2.ret, SCData2.modTh]
    rw [modify_comm' _ _ _ _ _ (Ne.symm hne)]
    rfl
  have hstep : CtlStep w (w2.complete .unit) := by
    refine ⟨by rw [hcc]; simp, ?_, ?_, ?_, ?_, ?_⟩
    · intro i hi hit
      rw [hcc, getD_modify_ne _ _ _ _ _ hit, getD_append_left _ _ _ _ hi]
    · intro i h1' h2'
      rw [hcc] at h2' ⊢
      have : i = w.ctl.length := by simp at h2'; omega
      subst this
      rw [getD_modify_ne _ _ _ _ _ (by omega), getD_append_new]
      exact ⟨rfl, rfl⟩
    · rw [hcc, getD_modify_self _ _ _ _ (by simp; omega), hold]; rfl
    · rw [hcc, getD_modify_self _ _ _ _ (by simp; omega), hold]; exact id
    · rw [hcc, getD_modify_self _ _ _ _ (by simp; omega)]; exact .inr rfl
  refine ⟨hp, hstep, .inr ⟨some ((s.th (w.ctlOf w.tid).body).pc, .unit),
    (s.modTh b fun h => { h with started := true }).ret (w.ctlOf w.tid).body .unit,
    .inl ⟨enabled_plain2 hR hact hop hC (by simp) (by simp) (by simp) (by simp) (by simp), ?_⟩, ?_, ?_⟩⟩
  · unfold SCData2.stepL
    simp only [c2, hof, hop]
    simp
  · refine R2c.mk' (p := w.prog) (ctl := (w.ctl ++ [({ body := b } : TCtl)]).modify w.tid (completeF .unit))
      (sp := (b, w.ctl.length, w.exec.objs.length) :: w.spawned) hp hcc
      (by show w2.spawned = _; rw [hsp, hR.lenCtl]) ?_ ?_ ?_
    · show _ = w2.exec.threads.threads.length
      rw [hlen, ← hR.lenCtl]; simp
    · have X1 := hR.x.modify hact (completeF .unit)
        (fun h => { h with rets := (h.pc, Ret.unit) :: h.rets, pc := h.pc + 1 }) rfl (Nat.le_succ _)
        (by
          refine ⟨h1, ?_, ?_, h4, Nat.zero_le _, h6, h7⟩
          · show (s.th (w.ctlOf w.tid).body).pc + 1 = (w.ctlOf w.tid).pc + 1
            rw [h2]
          · show ((s.th (w.ctlOf w.tid).body).pc, Ret.unit) :: (s.th (w.ctlOf w.tid).body).rets = _
            rw [h2, h3]; rfl)
        (by intro hne'; exact absurd hf0 hne')
      have hlenm : (w.ctl.modify w.tid (completeF .unit)).length = w.ctl.length := by simp
      have body_eq : ∀ i, ((w.ctl.modify w.tid (completeF .unit)).getD i {}).body = (w.ctl.getD i {}).body := by
        intro i
        by_cases hi : i = w.tid
        · subst hi; rw [getD_modify_self _ _ _ _ hact]; rfl
        · rw [getD_modify_ne _ _ _ _ _ hi]
      have X2 := X1.append hb0 hb
        (by intro i hi; rw [body_eq]; exact hidle i (by rw [hlenm] at hi; exact hi))
        ⟨w.tid, (w.ctlOf w.tid).pc, by rw [hlenm]; exact hact,
          by rw [getD_modify_self _ _ _ _ hact]; exact Nat.lt_succ_self _,
          by rw [body_eq]; exact hop⟩
      rw [modify_append_left' _ _ _ _ hact, e]
      exact X2
    · have Y1 := hR.o.spawn b (.notify { seqCst := true, spurious := false }) rfl
        (by rw [hidleb]; exact ⟨rfl, rfl⟩)
      have Y2 := Y1.modifyPlain w.tid (completeF .unit) rfl (Nat.le_succ _) id
        (by rw [hold]; exact (pendN_stage0 _ _ rfl).trans hN.symm)
        (by rw [hold]; exact hC) (pendCv_stage0 _ _ rfl)
        (by rw [hold]; intro q hq; rw [show w.ctl.getD w.tid {} = w.ctlOf w.tid from rfl, hD] at hq; cases hq)
      show RO _ _ _ w2.exec.objs w2.notifyWaiting _
      rw [hobjs, hnw, e]
      exact Y2.ths _ (CvSame.trans
        (CvSame.modify s.ths (w.ctl.getD w.tid {}).body
          (fun h => { h with rets := (h.pc, Ret.unit) :: h.rets, pc := h.pc + 1 }) fun _ => ⟨rfl, rfl⟩)
        (CvSame.modify _ b (fun h => { h with started := true }) fun _ => ⟨rfl, rfl⟩))
  · rw [events_complete2, hev, ht]
    have : w2.ctlOf w.tid = w.ctlOf w.tid := by
      simp only [World.ctlOf, hc]
      exact getD_append_left _ _ _ _ hact
    rw [this, h2]
    rfl

theorem sim_join (hR : R2c w s) (hact : w.tid < w.ctl.length) {b : Nat}
    (hop : opAt2 w = some (.join b))
    (h : w.runOp (w.ctlOf w.tid) (.join b) = .ok w') : Sim2c w s w' := by
  obtain ⟨_, hrel, hof⟩ := base2 hR hact
  obtain ⟨_, hC, _⟩ := plain_pend (c := w.ctlOf w.tid) hop rfl
  obtain ⟨c1, c2⟩ := cv_none hR hact hC
  rw [runOp_join] at h
  obtain ⟨⟨tid', n⟩, hl, h2⟩ := bind_ok h
  clear h
  have h := h2
  clear h2
  have hent : ∃ b'', (b'', tid', n) ∈ w.spawned ∧ b'' = b := by
    unfold World.lookupSpawn at hl
    split at hl
    · next b'' t'' n'' hf =>
      cases hl
      have := List.find?_some hf
      exact ⟨b'', List.mem_of_find?_eq_some hf, by simpa using this⟩
    · cases hl
  obtain ⟨b'', hmem, hbb⟩ := hent
  obtain ⟨hlt, hbody, nt, ds, hv, hnt⟩ := hR.o.y.sp _ tid' n hmem
  rw [hbb] at hbody
  obtain ⟨ns, hobj, hspur, hnotified, _⟩ := objView2_notify hv
  have hst : (w.ctlOf w.tid).stage = 0 ∨ (w.ctlOf w.tid).stage = 1 := by
    have := hrel.2.2.2.2.1
    have hop' : opOfCtl w.prog (w.ctlOf w.tid) = some (.join b) := hop
    rw [hop'] at this
    simp only [maxStage] at this
    omega
  rcases hst with hst | hst
  · simp only [hst] at h
    obtain ⟨⟨w1, st⟩, h1, h⟩ := bind_ok h
    obtain ⟨hc, hp, hsp, hev, hnw, hlen, _, hcase⟩ := notifyWait1_obs2 hobj h1
    simp only [pure, Except.pure] at h
    cases h
    rcases hcase with ⟨rfl, hview⟩ | ⟨_, hsp', _⟩
    · refine sim_stage (k := 1) hR hact hop (by simp) hC (Nat.le_refl _) (by omega)
        ⟨hp, hsp, hev, hlen, hview, hnw⟩ ?_
      show w1.ctl.modify _ _ = _
      rw [hc]
    · rw [hspur] at hsp'; cases hsp'
  · simp only [hst] at h
    obtain ⟨w1, h1, h⟩ := bind_ok h
    obtain ⟨hn1, hc1, ht1, hp1, hs1, he1, hl1, hobjs⟩ := notifyWait2_obs hobj h1
    have hnw := notifyWait2_nw h1
    simp only [pure, Except.pure] at h
    cases h
    obtain ⟨e1, e2⟩ := started_running2 hR hact (by rw [fin_zero2 hR hact hop]; omega)
    have hfinished : (s.th (w.ctl.getD tid' {}).body).finished = true := by
      have := (hR.x.thr tid' hlt).2.2.2.2.1
      rw [show s.th (w.ctl.getD tid' {}).body = s.ths.getD (w.ctl.getD tid' {}).body {} from rfl, this]
      simp only [decide_eq_true_eq]
      exact hnt (by rw [← hnotified]; exact hn1)
    have hR' := R2c_complete (s := s) (d := s) (w0 := w1) hR hact hop rfl hc1 ht1 hp1 hs1 hl1 rfl
      (by
        rw [hobjs, hnw]
        exact hR.o.setJoinNotify hv _ false ns.didSpur (by simp [view2, hspur]) (by intro e; cases e)) .unit
    refine ⟨hp1, hR'.2, .inr ⟨some ((s.th (w.ctlOf w.tid).body).pc, .unit),
      s.ret (w.ctlOf w.tid).body .unit, .inl ⟨?_, ?_⟩, hR'.1, ?_⟩⟩
    · unfold SCData2.enabled
      rw [hof, hop, e1, e2, c1, c2]
      show (true && !false && (s.th b).finished) = true
      rw [← hbody, hfinished]; rfl
    · unfold SCData2.stepL
      simp only [c2, hof, hop]
      simp
    · rw [events_complete2, he1, ht1,
        show w1.ctlOf w.tid = w.ctlOf w.tid by simp only [World.ctlOf, hc1], hrel.2.1]
      rfl

/-! ### the epilogue -/

theorem enabled_end2 (hR : R2c w s) (hact : w.tid < w.ctl.length) (hnone : opAt2 w = none)
    (hfin : (w.ctlOf w.tid).fin < 10) : SCData2.enabled w.prog s (w.ctlOf w.tid).body = true := by
  obtain ⟨_, _, hof⟩ := base2 hR hact
  obtain ⟨h1, h2⟩ := started_running2 hR hact hfin
  obtain ⟨c1, c2⟩ := cv_none hR hact (pend_none (c := w.ctlOf w.tid) hnone).2.1
  unfold SCData2.enabled
  rw [hof, hnone, h1, h2, c1, c2]
  rfl

theorem stepL_end2 (hR : R2c w s) (hact : w.tid < w.ctl.length) (hnone : opAt2 w = none) :
    (none, s.modTh (w.ctlOf w.tid).body fun h => { h with finished := true }) ∈
      SCData2.stepL w.prog s (w.ctlOf w.tid).body := by
  obtain ⟨_, _, hof⟩ := base2 hR hact
  obtain ⟨c1, c2⟩ := cv_none hR hact (pend_none (c := w.ctlOf w.tid) hnone).2.1
  unfold SCData2.stepL
  simp only [c2, hof, hnone]
  simp

theorem quiet2_modCtl (t : Nat) (f : TCtl → TCtl) : Quiet2 w (w.modCtl t f) :=
  ⟨rfl, rfl, rfl, rfl, ViewLe2.refl _, rfl⟩

/-- an epilogue stage that only moves `fin`, on the same side of the notification -/
theorem sim_fin (hR : R2c w s) (hact : w.tid < w.ctl.length) (hnone : opAt2 w = none) (k : Nat)
    (hq : Quiet2 w w') (hctl : w'.ctl = w.ctl.modify w.tid fun c => { c with fin := k })
    (hk : 10 ≤ k ↔ 10 ≤ (w.ctlOf w.tid).fin) : Sim2c w s w' := by
  have hnone' : opOfCtl w.prog (w.ctlOf w.tid) = none := hnone
  have hnk : opOfCtl w.prog { w.ctlOf w.tid with fin := k } = none := hnone
  have := R2c_stutter hR hact (fun c => { c with fin := k }) hq hctl rfl rfl rfl rfl rfl
    (base2 hR hact).2.1.2.2.2.2.1 hk (fun _ => hnone)
    ((pend_none hnk).1.trans (pend_none hnone').1.symm) (pend_none hnone').2.1 (pend_none hnk).2.1
  exact ⟨hq.prog, this.2, .inl ⟨this.1, hq.events⟩⟩

theorem sim_epilogue (hR : R2c w s) (hact : w.tid < w.ctl.length) (hnone : opAt2 w = none)
    (h : w.runEpilogue (w.ctlOf w.tid) = .ok w') : Sim2c w s w' := by
  obtain ⟨_, hrel, hof⟩ := base2 hR hact
  have hloc := hrel.2.2.2.2.2.1
  have hdq := hrel.2.2.2.2.2.2
  have hdl : w.dropLocals = w := dropLocals_frag w hloc hdq
  have hnone' : opOfCtl w.prog (w.ctlOf w.tid) = none := hnone
  have hpn := pend_none hnone'
  have hpn10 : ∀ k, pendN w.prog { w.ctlOf w.tid with fin := k } = none ∧
      pendCv w.prog { w.ctlOf w.tid with fin := k } = none ∧ pendD w.prog { w.ctlOf w.tid with fin := k } = none :=
    fun k => pend_none (c := { w.ctlOf w.tid with fin := k }) hnone
  by_cases h10 : 10 ≤ (w.ctlOf w.tid).fin
  · rw [runEpilogue_finish w _ h10] at h
    unfold World.finishThread at h
    split at h
    · cases h
    · next hrange =>
      rw [dropPass_eq, hdl] at h
      split at h
      · next e =>
        cases h
        exact sim_fin hR hact hnone 11 (quiet2_modCtl _ _) rfl (by omega)
      · split at h
        · next e =>
          rw [hdq] at h
          simp only at h
          obtain ⟨hq, hc, _⟩ := threadDone_quiet2 h
          refine sim_fin hR hact hnone 99 ⟨hq.prog, hq.spawned, hq.events, hq.len, hq.view, hq.nw⟩ ?_ (by omega)
          rw [hc]; rfl
        · rw [hdq] at h
          cases h
  · have hlt : (w.ctlOf w.tid).fin < 10 := by omega
    by_cases ht0 : w.tid = 0
    · rw [runEpilogue_main w _ ht0 hlt] at h
      cases h
      have hR' := R2c_finish (w0 := { w with exec := { w.exec with lazyStatics := none } }) hR hact hnone
        rfl rfl rfl rfl
        (hR.o.modifyPlain w.tid _ rfl (Nat.le_refl _) (fun _ => Nat.le_refl _)
          ((hpn10 10).1.trans hpn.1.symm) hpn.2.1 (hpn10 10).2.1
          (by intro q hq; rw [show w.ctl.getD w.tid {} = w.ctlOf w.tid from rfl, hpn.2.2] at hq; cases hq))
      exact ⟨rfl, hR'.2, .inr ⟨none, _, .inl ⟨enabled_end2 hR hact hnone hlt, stepL_end2 hR hact hnone⟩,
        hR'.1, rfl⟩⟩
    · have hfind : ∃ b n, w.spawned.find? (·.2.1 == w.tid) = some (b, w.tid, n) := by
        cases hf : w.spawned.find? (·.2.1 == w.tid) with
        | none =>
          unfold World.runEpilogue at h
          simp [h10, ht0, hf, bind, Except.bind, throw, throwThe, MonadExceptOf.throw] at h
        | some e =>
          obtain ⟨b, t, n⟩ := e
          have := List.find?_some hf
          simp only [beq_iff_eq] at this
          subst this
          exact ⟨b, n, rfl⟩
      obtain ⟨b, n, hf⟩ := hfind
      have hmem := List.mem_of_find?_eq_some hf
      rw [runEpilogue_spawned w _ b n ht0 hf hlt] at h
      split at h
      · next e =>
        rw [hdl] at h
        cases h
        exact sim_fin hR hact hnone 4 (quiet2_modCtl _ _) rfl (by omega)
      · split at h
        · next e3 =>
          rw [dropPass_eq, hdl] at h
          split at h
          · cases h
            exact sim_fin hR hact hnone 4 (quiet2_modCtl _ _) rfl (by omega)
          · split at h
            · rw [hdq] at h
              simp only at h
              obtain ⟨hq, hc, _⟩ := branch_quiet2 h
              refine sim_fin hR hact hnone 1 ⟨hq.prog, hq.spawned, hq.events, hq.len, hq.view, hq.nw⟩ ?_ (by omega)
              rw [hc]; rfl
            · rw [hdq] at h
              cases h
        · obtain ⟨hlt', hbody, nt, ds, hv, hnt⟩ := hR.o.y.sp b w.tid n hmem
          obtain ⟨ns, hobj, hspur, hnotified, hds⟩ := objView2_notify hv
          obtain ⟨w1, h1, h⟩ := bind_ok h
          obtain ⟨hc1, ht1, hp1, hs1, he1, hl1, ns', hsp', hnt', hobjs⟩ := notifyEffect_obs hobj h1
          have hnw := notifyEffect_nw h1
          simp only [pure, Except.pure] at h
          cases h
          have hR' := R2c_finish (w0 := w1) hR hact hnone hc1 hp1 hs1 hl1
            (by
              rw [hobjs, hnw]
              refine (hR.o.modifyPlain w.tid _ rfl (Nat.le_refl _) (fun _ => Nat.le_refl _)
                ((hpn10 10).1.trans hpn.1.symm) hpn.2.1 (hpn10 10).2.1
                (by intro q hq; rw [show w.ctl.getD w.tid {} = w.ctlOf w.tid from rfl, hpn.2.2] at hq;
                    cases hq)).setJoinNotify hv _ true ns'.didSpur
                (by simp [view2, hsp', hspur, hnt']) ?_
              intro _ b' i hmem'
              have := hR.o.y.spn _ _ hmem' hmem rfl
              simp only at this
              subst this
              rw [getD_modify_self _ _ _ _ hact]
              exact Nat.le_refl _)
          refine ⟨hp1, hR'.2, .inr ⟨none, _, .inl ⟨enabled_end2 hR hact hnone hlt, stepL_end2 hR hact hnone⟩,
            hR'.1, ?_⟩⟩
          show (w1.events).map triple = _
          rw [he1]; rfl

end

end Refine2
end LoomVerif

/-
C07, repair of finding F9: the `blocking` flag of a pending operation.  The three acquisitions
(`post_acquire`, `post_acquire_read_lock`, `post_acquire_write_lock`) seen from ONE other thread: it is
blocked exactly when the acquisition succeeds and its pending operation WAITS for the lock
(`Operation.blocking`); a thread that is about to TRY (`blocking = false`) keeps its whole entry.  And what a
branch point records: `World.branch obj act blk wt` leaves `⟨obj, act, wt⟩` as the caller's pending operation
(`Exec.schedule` never touches the `operation` field).
-/
import LoomVerif.Proofs.C07Handover
import LoomVerif.Proofs.SyncSched
import LoomVerif.Proofs.WorldBasics

namespace LoomVerif
namespace C07
open C12 Sy

/-! ### the acquisitions, seen from one other thread -/

theorem acquired_get (w : World) (o : Nat) (x : Obj) (sy : Sync) (p : Operation → Bool) (i : Nat)
    (hi : i ≠ w.tid) :
    (((w.setObj o x).setThs ((w.setObj o x).ths.syncLoad sy .acq)).forOthers p Thread.setBlocked).ths.get i =
      if (w.ths.get i).operation.any p then (w.ths.get i).setBlocked else w.ths.get i := by
  rw [WB.forOthers_get]
  have hi' : i ≠ ((w.setObj o x).setThs ((w.setObj o x).ths.syncLoad sy .acq)).tid := hi
  rw [if_neg hi']
  have : ((w.setObj o x).setThs ((w.setObj o x).ths.syncLoad sy .acq)).ths.get i = w.ths.get i :=
    WB.get_syncLoad_ne _ _ _ _ hi
  rw [this]
  cases (w.ths.get i).operation <;> rfl

/-- `Mutex::post_acquire`, thread `i ≠` the caller: blocked iff the acquisition succeeded and its pending
operation names the mutex and waits -/
theorem postAcquire_get {w w' : World} {o : Nat} {b : Bool} (h : w.postAcquire o = .ok (w', b))
    (i : Nat) (hi : i ≠ w.tid) :
    w'.ths.get i =
      if b && (w.ths.get i).operation.any (fun op => op.obj == o && op.blocking)
      then (w.ths.get i).setBlocked else w.ths.get i := by
  unfold World.postAcquire at h
  simp only [bind, Except.bind, pure, Except.pure] at h
  split at h
  · cases h
  · split at h
    · cases h; simp
    · cases h
      rw [acquired_get _ _ _ _ _ _ hi]; simp

/-- `post_acquire_read_lock`: only a pending WRITE that waits is blocked -/
theorem postAcquireRead_get {w w' : World} {o : Nat} {b : Bool} (h : w.postAcquireRead o = .ok (w', b))
    (i : Nat) (hi : i ≠ w.tid) :
    w'.ths.get i =
      if b && (w.ths.get i).operation.any
        (fun op => op.obj == o && op.action == .rwWrite && op.blocking)
      then (w.ths.get i).setBlocked else w.ths.get i := by
  unfold World.postAcquireRead at h
  simp only [bind, Except.bind, pure, Except.pure] at h
  split at h
  · cases h
  · rename_i s _
    rcases hl : s.lock with _ | ⟨rs | x⟩ <;> simp only [hl] at h
    · cases h; rw [acquired_get _ _ _ _ _ _ hi]; simp
    · cases h; rw [acquired_get _ _ _ _ _ _ hi]; simp
    · cases h; simp

theorem postAcquireWrite_get {w w' : World} {o : Nat} {b : Bool} (h : w.postAcquireWrite o = .ok (w', b))
    (i : Nat) (hi : i ≠ w.tid) :
    w'.ths.get i =
      if b && (w.ths.get i).operation.any (fun op => op.obj == o && op.blocking)
      then (w.ths.get i).setBlocked else w.ths.get i := by
  unfold World.postAcquireWrite at h
  simp only [bind, Except.bind, pure, Except.pure] at h
  split at h
  · cases h
  · split at h
    · cases h; simp
    · cases h
      rw [acquired_get _ _ _ _ _ _ hi]; simp

/-- "thread `th` is not waiting": it has no pending operation or a pending TRY -/
def NotWaiting (th : Thread) : Prop := ∀ op, th.operation = some op → op.blocking = false

theorem any_blocking_false {th : Thread} (h : NotWaiting th) (q : Operation → Bool) :
    th.operation.any (fun op => q op && op.blocking) = false := by
  cases hop : th.operation with
  | none => rfl
  | some op => simp [h op hop]

/-- a thread that is not waiting is NEVER blocked by an acquisition (finding F9, repaired): its whole
entry is unchanged, whatever the outcome -/
theorem try_never_blocked {w w' : World} {o : Nat} {b : Bool} {i : Nat} (hi : i ≠ w.tid)
    (hn : NotWaiting (w.ths.get i)) :
    (w.postAcquire o = .ok (w', b) → w'.ths.get i = w.ths.get i) ∧
    (w.postAcquireRead o = .ok (w', b) → w'.ths.get i = w.ths.get i) ∧
    (w.postAcquireWrite o = .ok (w', b) → w'.ths.get i = w.ths.get i) := by
  refine ⟨fun h => ?_, fun h => ?_, fun h => ?_⟩
  · rw [postAcquire_get h i hi, any_blocking_false hn]; simp
  · rw [postAcquireRead_get h i hi, any_blocking_false hn]; simp
  · rw [postAcquireWrite_get h i hi, any_blocking_false hn]; simp

/-- a thread that waits for the lock IS blocked by a successful acquisition (a pending `read` only by a write
acquisition, a pending `write` by both) -/
theorem waiter_blocked {w w' : World} {o : Nat} {i : Nat} {op : Operation} (hi : i ≠ w.tid)
    (hop : (w.ths.get i).operation = some op) (ho : op.obj = o) (hb : op.blocking = true) :
    (w.postAcquire o = .ok (w', true) → w'.ths.get i = (w.ths.get i).setBlocked) ∧
    (w.postAcquireWrite o = .ok (w', true) → w'.ths.get i = (w.ths.get i).setBlocked) ∧
    (op.action = .rwWrite → w.postAcquireRead o = .ok (w', true) →
      w'.ths.get i = (w.ths.get i).setBlocked) ∧
    (op.action ≠ .rwWrite → w.postAcquireRead o = .ok (w', true) → w'.ths.get i = w.ths.get i) := by
  refine ⟨fun h => ?_, fun h => ?_, fun ha h => ?_, fun ha h => ?_⟩
  · rw [postAcquire_get h i hi, hop]; simp [ho, hb]
  · rw [postAcquireWrite_get h i hi, hop]; simp [ho, hb]
  · rw [postAcquireRead_get h i hi, hop]; simp [ho, hb, ha]
  · rw [postAcquireRead_get h i hi, hop]; simp [ha]

/-! ### `Exec.schedule` never touches a pending operation -/

theorem op_yield (l : List Thread) (nid i : Nat) :
    ((l.mapIdx fun i th => if th.isYield && i != nid then th.setRunnable else th).getD i {}).operation
      = (l.getD i {}).operation := by
  simp only [List.getD, List.getElem?_mapIdx]
  cases h : l[i]? with
  | none => rfl
  | some th =>
    simp only [Option.map_some, Option.getD_some]
    split <;> rfl

theorem op_modify (l : List Thread) (nid i : Nat) (g : Thread → Thread)
    (hg : ∀ t, (g t).operation = t.operation) :
    ((l.modify nid g).getD i {}).operation = (l.getD i {}).operation := by
  simp only [List.getD, List.getElem?_modify]
  cases h : l[i]? with
  | none => rfl
  | some th =>
    by_cases e : nid = i
    · simp [e, hg]
    · simp [e]

theorem op_both (l : List Thread) (nid i : Nat) (g : Thread → Thread)
    (hg : ∀ t, (g t).operation = t.operation) :
    (((l.modify nid g).mapIdx fun i th => if th.isYield && i != nid then th.setRunnable else th).getD i
      {}).operation = (l.getD i {}).operation := by
  rw [op_yield, op_modify _ _ _ _ hg]

theorem schedule_operation {e e' : Exec} {b : Bool} {p : Bool} (h : e.schedule p = .ok (e', b))
    (i : Nat) : (e'.threads.get i).operation = (e.threads.get i).operation := by
  unfold Exec.schedule at h
  simp only [bind, Except.bind, pure, Except.pure] at h
  repeat' split at h
  all_goals first
    | (cases h; done)
    | (cases h; rfl)
    | (cases h; exact op_yield _ _ _)
    | (cases h; exact op_both _ _ _ _ (fun _ => rfl))

/-- what a branch point records: the caller's pending operation is `⟨obj, act, wt⟩` — `wt = false` for the
attempts (`try_lock`, `try_read`, `try_write`, `try_recv`, the non-lock operations), `wt = true` for `lock`,
`read`, `write`, `recv`; the pending operations of all other threads are what they were -/
theorem branch_records {w w' : World} {obj : Nat} {act : Action} {blk wt : Bool}
    (h : w.branch obj act blk wt = .ok w') :
    (w.tid < w.ths.threads.length → (w'.ths.get w.tid).operation = some ⟨obj, act, wt⟩) ∧
    (∀ i, i ≠ w.tid → (w'.ths.get i).operation = (w.ths.get i).operation) := by
  unfold World.branch at h
  simp only [bind, Except.bind, pure, Except.pure] at h
  split at h
  · cases h
  · next v hv =>
    cases h
    have hs := fun i => @schedule_operation _ v.1 v.2 _ hv i
    refine ⟨fun hin => ?_, fun i hi => ?_⟩
    · show (v.1.threads.get w.tid).operation = _
      rw [hs]
      show ((w.ths.modify w.ths.activeId _).get w.ths.activeId).operation = _
      rw [WB.get_modify, if_pos ⟨rfl, hin⟩]
      cases blk <;> rfl
    · show (v.1.threads.get i).operation = _
      rw [hs]
      show ((w.ths.modify w.ths.activeId _).get i).operation = _
      rw [WB.get_modify, if_neg (fun hh => hi hh.1.symm)]

end C07
end LoomVerif

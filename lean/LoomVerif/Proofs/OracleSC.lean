/-
Specification and proofs for the total enumerator `SC.exploreV` (`Oracle/SCEnumV.lean`).

* `Reach p s`            — `s` is reachable from `init p` by the successor function `succs`
* `exploreV_sound`       — every reported outcome is the outcome of a reachable terminal state
* `exploreV_complete`    — not capped ⇒ the outcome of EVERY reachable terminal state is reported
* `exploreV_states`      — not capped ⇒ `states` is the number of distinct reachable states
* `exploreV_capped`      — capped ⇒ there really are more than `maxStates` reachable states
                           (in particular the fuel of the outer loop never runs out)
* `outcomesNaive_spec`, `exploreV_eq_naive` — the definition-shaped enumerator `outcomesNaive`
                           computes the same set

The worklist invariant is `Inv`; what one pass of the inner loop does is `VisitRel`.
-/
import LoomVerif.Oracle.SCEnumV

namespace LoomVerif.SC

/-! ### specification -/

/-- reflexive-transitive closure of the successor function, from `a` -/
inductive ReachFrom (p : Prog) (a : St) : St → Prop
  | refl : ReachFrom p a a
  | tail {s s' : St} : ReachFrom p a s → s' ∈ succs p s → ReachFrom p a s'

/-- reachable from the initial state -/
abbrev Reach (p : Prog) (s : St) : Prop := ReachFrom p (init p) s

theorem ReachFrom.head {p : Prog} {a b c : St} (h : b ∈ succs p a) (r : ReachFrom p b c) :
    ReachFrom p a c := by
  induction r with
  | refl => exact .tail .refl h
  | tail _ hs ih => exact .tail ih hs

theorem ReachFrom.cases_head {p : Prog} {a c : St} (r : ReachFrom p a c) :
    c = a ∨ ∃ b, b ∈ succs p a ∧ ReachFrom p b c := by
  induction r with
  | refl => exact .inl rfl
  | tail r hs ih =>
    rcases ih with rfl | ⟨b, hb, rb⟩
    · exact .inr ⟨_, hs, .refl⟩
    · exact .inr ⟨b, hb, .tail rb hs⟩

/-! ### one pass of the inner loop -/

/-- what folding `visit` over the list `l` does to the loop state -/
structure VisitRel (n : Nat) (l : List St) (w w' : WL) : Prop where
  outs_eq : w'.outs = w.outs
  seen_mono : ∀ x, x ∈ w.seen → x ∈ w'.seen
  seen_new : ∀ x, x ∈ w'.seen → x ∈ w.seen ∨ (x ∈ l ∧ x ∈ w'.stack)
  stack_mono : ∀ x, x ∈ w.stack → x ∈ w'.stack
  stack_new : ∀ x, x ∈ w'.stack → x ∈ w.stack ∨ (x ∈ l ∧ x ∈ w'.seen)
  capped_mono : w'.capped = false → w.capped = false
  all_seen : w'.capped = false → ∀ x ∈ l, x ∈ w'.seen
  size_eq : w'.seen.size + w.stack.length = w.seen.size + w'.stack.length
  size_mono : w.seen.size ≤ w'.seen.size
  size_bound : w'.seen.size ≤ max n w.seen.size
  frozen : n ≤ w.seen.size → ∀ x, x ∈ w'.seen → x ∈ w.seen
  cap_new : w'.capped = true → w.capped = true ∨ (n ≤ w'.seen.size ∧ ∃ x ∈ l, x ∉ w'.seen)

theorem VisitRel.refl (n : Nat) (w : WL) : VisitRel n [] w w where
  outs_eq := rfl
  seen_mono _ h := h
  seen_new _ h := .inl h
  stack_mono _ h := h
  stack_new _ h := .inl h
  capped_mono h := h
  all_seen _ _ h := by cases h
  size_eq := rfl
  size_mono := Nat.le_refl _
  size_bound := by omega
  frozen _ _ h := h
  cap_new h := .inl h

theorem visit_rel (n : Nat) (w : WL) (x : St) : VisitRel n [x] w (visit n w x) := by
  unfold visit
  by_cases hc : w.seen.contains x = true
  · have hx : x ∈ w.seen := Std.HashSet.mem_iff_contains.2 hc
    rw [if_pos hc]
    exact {
      outs_eq := rfl
      seen_mono := fun _ h => h
      seen_new := fun _ h => .inl h
      stack_mono := fun _ h => h
      stack_new := fun _ h => .inl h
      capped_mono := fun h => h
      all_seen := by intro _ y hy; simp at hy; subst hy; exact hx
      size_eq := rfl
      size_mono := Nat.le_refl _
      size_bound := by simp only; omega
      frozen := fun _ _ h => h
      cap_new := fun h => .inl h }
  · have hx : x ∉ w.seen := fun h => hc (Std.HashSet.mem_iff_contains.1 h)
    rw [if_neg hc]
    by_cases hn : w.seen.size ≥ n
    · rw [if_pos hn]
      exact {
        outs_eq := rfl
        seen_mono := fun _ h => h
        seen_new := fun _ h => .inl h
        stack_mono := fun _ h => h
        stack_new := fun _ h => .inl h
        capped_mono := by intro h; simp at h
        all_seen := by intro h; simp at h
        size_eq := rfl
        size_mono := Nat.le_refl _
        size_bound := by simp only; omega
        frozen := fun _ _ h => h
        cap_new := fun _ => .inr ⟨hn, x, by simp, hx⟩ }
    · rw [if_neg hn]
      have hsz : (w.seen.insert x).size = w.seen.size + 1 := by
        rw [Std.HashSet.size_insert]; simp [hx]
      exact {
        outs_eq := rfl
        seen_mono := fun y h => Std.HashSet.mem_insert.2 (.inr h)
        seen_new := by
          intro y h
          rcases Std.HashSet.mem_insert.1 h with h | h
          · have : x = y := by simpa using h
            subst this; exact .inr ⟨by simp, by simp⟩
          · exact .inl h
        stack_mono := fun y h => List.mem_cons_of_mem _ h
        stack_new := by
          intro y h
          rcases List.mem_cons.1 h with rfl | h
          · exact .inr ⟨by simp, Std.HashSet.mem_insert_self⟩
          · exact .inl h
        capped_mono := fun h => h
        all_seen := by
          intro _ y hy; simp at hy; subst hy; exact Std.HashSet.mem_insert_self
        size_eq := by simp only [hsz, List.length_cons]; omega
        size_mono := by simp only [hsz]; omega
        size_bound := by simp only [hsz]; omega
        frozen := by intro h; omega
        cap_new := fun h => .inl h }

theorem VisitRel.trans {n : Nat} {l₁ l₂ : List St} {w w₁ w₂ : WL}
    (a : VisitRel n l₁ w w₁) (b : VisitRel n l₂ w₁ w₂) : VisitRel n (l₁ ++ l₂) w w₂ where
  outs_eq := b.outs_eq.trans a.outs_eq
  seen_mono x h := b.seen_mono x (a.seen_mono x h)
  seen_new x h := by
    rcases b.seen_new x h with h | ⟨h1, h2⟩
    · rcases a.seen_new x h with h | ⟨h1, h2⟩
      · exact .inl h
      · exact .inr ⟨List.mem_append_left _ h1, b.stack_mono x h2⟩
    · exact .inr ⟨List.mem_append_right _ h1, h2⟩
  stack_mono x h := b.stack_mono x (a.stack_mono x h)
  stack_new x h := by
    rcases b.stack_new x h with h | ⟨h1, h2⟩
    · rcases a.stack_new x h with h | ⟨h1, h2⟩
      · exact .inl h
      · exact .inr ⟨List.mem_append_left _ h1, b.seen_mono x h2⟩
    · exact .inr ⟨List.mem_append_right _ h1, h2⟩
  capped_mono h := a.capped_mono (b.capped_mono h)
  all_seen h x hx := by
    rcases List.mem_append.1 hx with hx | hx
    · exact b.seen_mono x (a.all_seen (b.capped_mono h) x hx)
    · exact b.all_seen h x hx
  size_eq := by have := a.size_eq; have := b.size_eq; omega
  size_mono := Nat.le_trans a.size_mono b.size_mono
  size_bound := by have := a.size_bound; have := b.size_bound; omega
  frozen h x hx := a.frozen h x (b.frozen (Nat.le_trans h a.size_mono) x hx)
  cap_new h := by
    rcases b.cap_new h with h | ⟨h1, x, hx, hx'⟩
    · rcases a.cap_new h with h | ⟨h1, x, hx, hx'⟩
      · exact .inl h
      · exact .inr ⟨Nat.le_trans h1 b.size_mono, x, List.mem_append_left _ hx,
          fun h2 => hx' (b.frozen h1 x h2)⟩
    · exact .inr ⟨h1, x, List.mem_append_right _ hx, hx'⟩

theorem foldl_visit_rel (n : Nat) : ∀ (l : List St) (w : WL),
    VisitRel n l w (l.foldl (visit n) w)
  | [], w => VisitRel.refl n w
  | x :: l, w => by
    have := (visit_rel n w x).trans (foldl_visit_rel n l (visit n w x))
    simpa using this

/-! ### the worklist invariant -/

/-- the invariant of the outer loop -/
structure Inv (p : Prog) (w : WL) : Prop where
  /-- everything on the stack has been seen -/
  stack_seen : ∀ s, s ∈ w.stack → s ∈ w.seen
  /-- every seen state is reachable -/
  seen_reach : ∀ s, s ∈ w.seen → Reach p s
  init_seen : init p ∈ w.seen
  /-- unless the cap was hit: every successor of a processed state (seen, not on the stack) is
  seen -/
  closed : w.capped = false → ∀ s, s ∈ w.seen → s ∉ w.stack → ∀ s', s' ∈ succs p s → s' ∈ w.seen
  /-- every recorded outcome is the outcome of a reachable terminal state -/
  outs_sound : ∀ o, o ∈ w.outs → ∃ s, Reach p s ∧ enabledThreads p s = [] ∧ outcome s = o
  /-- the outcome of every processed terminal state is recorded -/
  outs_complete : ∀ s, s ∈ w.seen → s ∉ w.stack → enabledThreads p s = [] → outcome s ∈ w.outs

theorem Inv.start (p : Prog) : Inv p (WL.start p) where
  stack_seen s h := by
    simp only [WL.start, List.mem_singleton] at h
    subst h; exact Std.HashSet.mem_insert_self
  seen_reach s h := by
    have : init p = s := by simpa [WL.start] using h
    subst this; exact .refl
  init_seen := Std.HashSet.mem_insert_self
  closed _ s h h' := by
    have : init p = s := by simpa [WL.start] using h
    subst this; simp [WL.start] at h'
  outs_sound o h := by simp [WL.start] at h
  outs_complete s h h' := by
    have : init p = s := by simpa [WL.start] using h
    subst this; simp [WL.start] at h'

/-- the state after popping `s` and before visiting its successors -/
theorem expand_eq (p : Prog) (n : Nat) (w : WL) (s : St) :
    ∃ w₁ : WL, expand p n w s = (succs p s).foldl (visit n) w₁ ∧
      w₁.seen = w.seen ∧ w₁.stack = w.stack ∧ w₁.capped = w.capped ∧
      (∀ o, o ∈ w₁.outs ↔ o ∈ w.outs ∨ (enabledThreads p s = [] ∧ o = outcome s)) := by
  unfold expand
  by_cases h : (enabledThreads p s).isEmpty = true
  · have h' : enabledThreads p s = [] := by simpa using h
    rw [if_pos h]
    refine ⟨_, rfl, rfl, rfl, rfl, ?_⟩
    intro o
    show o ∈ w.outs.insert (outcome s) ↔ _
    rw [Std.HashSet.mem_insert]
    constructor
    · rintro (h | h)
      · exact .inr ⟨h', (by simpa using h : outcome s = o).symm⟩
      · exact .inl h
    · rintro (h | ⟨-, h⟩)
      · exact .inr h
      · exact .inl (by simp [h])
  · have h' : enabledThreads p s ≠ [] := by simpa using h
    rw [if_neg h]
    refine ⟨_, rfl, rfl, rfl, rfl, ?_⟩
    intro o
    constructor
    · exact .inl
    · rintro (h | ⟨h, -⟩)
      · exact h
      · exact absurd h h'

/-- `expand` as a `VisitRel` from the popped state -/
theorem expand_rel (p : Prog) (n : Nat) (w : WL) (s : St) :
    ∃ w₁ : WL, VisitRel n (succs p s) w₁ (expand p n w s) ∧
      w₁.seen = w.seen ∧ w₁.stack = w.stack ∧ w₁.capped = w.capped ∧
      (∀ o, o ∈ w₁.outs ↔ o ∈ w.outs ∨ (enabledThreads p s = [] ∧ o = outcome s)) := by
  obtain ⟨w₁, he, h⟩ := expand_eq p n w s
  exact ⟨w₁, he ▸ foldl_visit_rel n _ w₁, h⟩

theorem Inv.expand {p : Prog} {w : WL} {s : St} {rest : List St} (n : Nat)
    (hst : w.stack = s :: rest) (I : Inv p w) :
    Inv p (expand p n { w with stack := rest } s) := by
  obtain ⟨w₁, R, hseen, hstack, hcap, houts⟩ := expand_rel p n { w with stack := rest } s
  simp only at hseen hstack hcap houts
  have hs_seen : s ∈ w.seen := I.stack_seen s (by simp [hst])
  have hs : Reach p s := I.seen_reach s hs_seen
  -- a processed state of the new loop state is `s` or a processed state of the old one
  have processed : ∀ x, x ∈ (SC.expand p n { w with stack := rest } s).seen →
      x ∉ (SC.expand p n { w with stack := rest } s).stack →
      x ∈ w.seen ∧ (x = s ∨ x ∉ w.stack) := by
    intro x hx hx'
    have h1 : x ∈ w.seen := by
      rcases R.seen_new x hx with h | ⟨_, h⟩
      · exact hseen ▸ h
      · exact absurd h hx'
    refine ⟨h1, ?_⟩
    by_cases hxs : x = s
    · exact .inl hxs
    · refine .inr fun h => hx' (R.stack_mono x ?_)
      rw [hstack]
      rw [hst] at h
      rcases List.mem_cons.1 h with h | h
      · exact absurd h hxs
      · exact h
  exact {
    stack_seen := by
      intro x hx
      rcases R.stack_new x hx with h | ⟨_, h⟩
      · rw [hstack] at h
        have h' : x ∈ w.stack := by rw [hst]; exact List.mem_cons_of_mem _ h
        exact R.seen_mono x (hseen ▸ I.stack_seen x h')
      · exact h
    seen_reach := by
      intro x hx
      rcases R.seen_new x hx with h | ⟨h, _⟩
      · exact I.seen_reach x (hseen ▸ h)
      · exact .tail hs h
    init_seen := R.seen_mono _ (hseen ▸ I.init_seen)
    closed := by
      intro hc x hx hx' s' hs'
      have hc₀ : w.capped = false := hcap ▸ R.capped_mono hc
      obtain ⟨h1, h2⟩ := processed x hx hx'
      rcases h2 with rfl | h2
      · exact R.all_seen hc s' hs'
      · exact R.seen_mono s' (hseen ▸ I.closed hc₀ x h1 h2 s' hs')
    outs_sound := by
      intro o ho
      rw [R.outs_eq] at ho
      rcases (houts o).1 ho with h | ⟨h1, h2⟩
      · exact I.outs_sound o h
      · exact ⟨s, hs, h1, h2.symm⟩
    outs_complete := by
      intro x hx hx' hterm
      rw [R.outs_eq]
      obtain ⟨h1, h2⟩ := processed x hx hx'
      rcases h2 with rfl | h2
      · exact (houts _).2 (.inr ⟨hterm, rfl⟩)
      · exact (houts _).2 (.inl (I.outs_complete x h1 h2 hterm)) }

theorem Inv.set_capped {p : Prog} {w : WL} (I : Inv p w) : Inv p { w with capped := true } where
  stack_seen := I.stack_seen
  seen_reach := I.seen_reach
  init_seen := I.init_seen
  closed h := by simp at h
  outs_sound := I.outs_sound
  outs_complete := I.outs_complete

theorem Inv.loop {p : Prog} (n : Nat) : ∀ (fuel : Nat) {w : WL}, Inv p w → Inv p (loop p n fuel w)
  | 0, w, I => by
    unfold SC.loop
    split
    · exact I
    · exact I.set_capped
  | fuel + 1, w, I => by
    unfold SC.loop
    split
    · exact I
    · next s rest hst => exact Inv.loop n fuel (I.expand n hst)

/-- a run that is not capped ends with an empty stack -/
theorem loop_stack (p : Prog) (n : Nat) : ∀ (fuel : Nat) (w : WL),
    (loop p n fuel w).capped = false → (loop p n fuel w).stack = []
  | 0, w => by
    unfold loop
    split
    · next h => exact fun _ => h
    · intro h; simp at h
  | fuel + 1, w => by
    unfold loop
    split
    · next h => exact fun _ => h
    · exact loop_stack p n fuel _

/-- with an empty stack and no cap the seen set contains every reachable state -/
theorem Inv.all_seen {p : Prog} {w : WL} (I : Inv p w) (hst : w.stack = []) (hc : w.capped = false)
    {s : St} (r : Reach p s) : s ∈ w.seen := by
  induction r with
  | refl => exact I.init_seen
  | tail _ hs ih => exact I.closed hc _ ih (by simp [hst]) _ hs

/-! ### the cap is genuine, the fuel suffices -/

/-- when the cap flag is set, `seen` is full and some reachable state is missing from it -/
def CapInv (p : Prog) (n : Nat) (w : WL) : Prop :=
  w.capped = true → n ≤ w.seen.size ∧ ∃ x, Reach p x ∧ x ∉ w.seen

theorem CapInv.expand {p : Prog} {w : WL} {s : St} {rest : List St} (n : Nat)
    (hst : w.stack = s :: rest) (I : Inv p w) (C : CapInv p n w) :
    CapInv p n (expand p n { w with stack := rest } s) := by
  obtain ⟨w₁, R, hseen, hstack, hcap, -⟩ := expand_rel p n { w with stack := rest } s
  simp only at hseen hstack hcap
  have hs : Reach p s := I.seen_reach s (I.stack_seen s (by simp [hst]))
  intro hc
  rcases R.cap_new hc with h | ⟨h1, x, hx, hx'⟩
  · obtain ⟨h1, x, hx, hx'⟩ := C (hcap ▸ h)
    exact ⟨Nat.le_trans (hseen ▸ h1) R.size_mono, x, hx,
      fun h2 => hx' (hseen ▸ R.frozen (hseen ▸ h1) x h2)⟩
  · exact ⟨h1, x, .tail hs hx, hx'⟩

/-- `k` states have been popped so far: with `max n 1 - k` pops left the fuel branch of `loop` is
never taken, so the cap flag stays genuine -/
theorem CapInv.loop {p : Prog} (n : Nat) : ∀ (fuel : Nat) {w : WL} (k : Nat), Inv p w →
    CapInv p n w → w.stack.length + k = w.seen.size → w.seen.size ≤ max n 1 →
    max n 1 ≤ k + fuel → CapInv p n (loop p n fuel w)
  | 0, w, k, _, C, h1, h2, h3 => by
    unfold SC.loop
    split
    · exact C
    · next hst => simp [hst] at h1; omega
  | fuel + 1, w, k, I, C, h1, h2, h3 => by
    unfold SC.loop
    split
    · exact C
    · next s rest hst =>
      obtain ⟨w₁, R, hseen, hstack, -, -⟩ := expand_rel p n { w with stack := rest } s
      simp only at hseen hstack
      have e1 := R.size_eq
      have e2 := R.size_bound
      rw [hseen] at e1 e2
      rw [hstack] at e1
      rw [hst, List.length_cons] at h1
      exact CapInv.loop n fuel (k + 1) (I.expand n hst) (C.expand n hst I)
        (by omega) (by omega) (by omega)

theorem size_start (p : Prog) : (WL.start p).seen.size = 1 := by
  simp [WL.start, Std.HashSet.size_insert]

/-! ### the headline theorems -/

/-- the final loop state of `exploreV` -/
def finalWL (p : Prog) (n : Nat) : WL := loop p n (fuelFor n) (WL.start p)

theorem finalWL_inv (p : Prog) (n : Nat) : Inv p (finalWL p n) := Inv.loop n _ (Inv.start p)

theorem exploreV_sound {p : Prog} {n : Nat} {o : Outcome} (h : o ∈ (exploreV p n).outcomes) :
    ∃ s, Reach p s ∧ enabledThreads p s = [] ∧ outcome s = o :=
  (finalWL_inv p n).outs_sound o (Std.HashSet.mem_toList.1 h)

/-- not capped: the seen set is exactly the set of reachable states -/
theorem finalWL_seen {p : Prog} {n : Nat} (hc : (exploreV p n).capped = false) (s : St) :
    s ∈ (finalWL p n).seen ↔ Reach p s :=
  ⟨(finalWL_inv p n).seen_reach s,
   (finalWL_inv p n).all_seen (loop_stack p n _ _ hc) hc⟩

theorem exploreV_complete {p : Prog} {n : Nat} {s : St} (hc : (exploreV p n).capped = false)
    (r : Reach p s) (ht : enabledThreads p s = []) : outcome s ∈ (exploreV p n).outcomes := by
  have hst : (finalWL p n).stack = [] := loop_stack p n _ _ hc
  exact Std.HashSet.mem_toList.2
    ((finalWL_inv p n).outs_complete s ((finalWL_seen hc s).2 r) (by simp [hst]) ht)

/-- not capped: the reported outcomes are exactly the outcomes of the reachable terminal states -/
theorem exploreV_outcomes_iff {p : Prog} {n : Nat} (hc : (exploreV p n).capped = false)
    (o : Outcome) : o ∈ (exploreV p n).outcomes ↔
      ∃ s, Reach p s ∧ enabledThreads p s = [] ∧ outcome s = o :=
  ⟨exploreV_sound, fun ⟨_, r, ht, e⟩ => e ▸ exploreV_complete hc r ht⟩

theorem nodup_toList (m : Std.HashSet St) : m.toList.Nodup :=
  (Std.HashSet.distinct_toList (m := m)).imp (by intro a b h e; subst e; simp at h)

/-- not capped: `states` is the number of distinct reachable states -/
theorem exploreV_states {p : Prog} {n : Nat} (hc : (exploreV p n).capped = false) :
    ∃ l : List St, l.Nodup ∧ (∀ s, s ∈ l ↔ Reach p s) ∧ (exploreV p n).states = l.length :=
  ⟨(finalWL p n).seen.toList, nodup_toList _,
   fun s => Std.HashSet.mem_toList.trans (finalWL_seen hc s),
   Std.HashSet.length_toList.symm⟩

/-- capped: there are more than `n` distinct reachable states (so the flag is never set by the
fuel of the outer loop running out, only by `seen` being full) -/
theorem exploreV_capped {p : Prog} {n : Nat} (hc : (exploreV p n).capped = true) :
    ∃ l : List St, l.Nodup ∧ (∀ s, s ∈ l → Reach p s) ∧ n < l.length := by
  have C : CapInv p n (finalWL p n) :=
    CapInv.loop n (fuelFor n) 0 (Inv.start p) (by intro h; simp [WL.start] at h)
      (by rw [size_start]; simp [WL.start]) (by rw [size_start]; omega)
      (by simp [fuelFor])
  obtain ⟨h1, x, hx, hx'⟩ := C hc
  refine ⟨x :: (finalWL p n).seen.toList, ?_, ?_, ?_⟩
  · exact List.nodup_cons.2 ⟨fun h => hx' (Std.HashSet.mem_toList.1 h), nodup_toList _⟩
  · intro s hs
    rcases List.mem_cons.1 hs with rfl | hs
    · exact hx
    · exact (finalWL_inv p n).seen_reach s (Std.HashSet.mem_toList.1 hs)
  · rw [List.length_cons, Std.HashSet.length_toList]; omega

/-- `states` never exceeds the cap (except for the initial state when the cap is 0) -/
theorem exploreV_states_le (p : Prog) (n : Nat) : (exploreV p n).states ≤ max n 1 := by
  suffices h : ∀ (fuel : Nat) (w : WL), w.seen.size ≤ max n 1 →
      (loop p n fuel w).seen.size ≤ max n 1 from
    h _ _ (by rw [size_start]; omega)
  intro fuel
  induction fuel with
  | zero =>
    intro w h; unfold loop; split
    · exact h
    · exact h
  | succ f ih =>
    intro w h; unfold loop; split
    · exact h
    · next s rest hst =>
      obtain ⟨w₁, R, hseen, -, -, -⟩ := expand_rel p n { w with stack := rest } s
      simp only at hseen
      have := R.size_bound
      rw [hseen] at this
      exact ih _ (by omega)

/-! ### the definition-shaped enumerator computes the same set -/

theorem foldl_naive_none {g : St → Option (List Outcome)} : ∀ (l : List St),
    l.foldl (fun acc s' => match acc, g s' with
      | some a, some b => some (a ++ b)
      | _, _ => none) none = none
  | [] => rfl
  | _ :: l => by simpa using foldl_naive_none l

theorem foldl_naive {g : St → Option (List Outcome)} : ∀ (l : List St) (here r : List Outcome),
    l.foldl (fun acc s' => match acc, g s' with
      | some a, some b => some (a ++ b)
      | _, _ => none) (some here) = some r →
    (∀ s', s' ∈ l → ∃ b, g s' = some b) ∧
      ∀ o, o ∈ r ↔ o ∈ here ∨ ∃ s', s' ∈ l ∧ ∃ b, g s' = some b ∧ o ∈ b
  | [], here, r, h => by
    have : here = r := by simpa using h
    subst this; simp
  | x :: l, here, r, h => by
    rw [List.foldl_cons] at h
    cases hx : g x with
    | none =>
      rw [hx] at h
      rw [foldl_naive_none] at h
      cases h
    | some b =>
      rw [hx] at h
      obtain ⟨h1, h2⟩ := foldl_naive l (here ++ b) r h
      refine ⟨?_, ?_⟩
      · intro s' hs'
        rcases List.mem_cons.1 hs' with rfl | hs'
        · exact ⟨b, hx⟩
        · exact h1 s' hs'
      · intro o
        rw [h2 o, List.mem_append]
        constructor
        · rintro ((h | h) | ⟨s', hs', b', hb', ho⟩)
          · exact .inl h
          · exact .inr ⟨x, by simp, b, hx, h⟩
          · exact .inr ⟨s', List.mem_cons_of_mem _ hs', b', hb', ho⟩
        · rintro (h | ⟨s', hs', b', hb', ho⟩)
          · exact .inl (.inl h)
          · rcases List.mem_cons.1 hs' with rfl | hs'
            · rw [hx] at hb'; cases hb'; exact .inl (.inr ho)
            · exact .inr ⟨s', hs', b', hb', ho⟩

/-- `outcomesNaive`, when its fuel suffices, lists exactly the outcomes of the terminal states
reachable from `s` -/
theorem outcomesNaive_spec (p : Prog) : ∀ (fuel : Nat) (s : St) (l : List Outcome),
    outcomesNaive p fuel s = some l →
    ∀ o, o ∈ l ↔ ∃ t, ReachFrom p s t ∧ enabledThreads p t = [] ∧ outcome t = o
  | 0, _, _, h => by simp [outcomesNaive] at h
  | fuel + 1, s, l, h => by
    have h' : (succs p s).foldl (fun acc s' => match acc, outcomesNaive p fuel s' with
        | some a, some b => some (a ++ b)
        | _, _ => none)
        (some (if (enabledThreads p s).isEmpty then [outcome s] else [])) = some l := h
    obtain ⟨h1, h2⟩ := foldl_naive _ _ _ h'
    intro o
    rw [h2 o]
    constructor
    · rintro (ho | ⟨s', hs', b, hb, ho⟩)
      · by_cases ht : (enabledThreads p s).isEmpty = true
        · rw [if_pos ht] at ho
          exact ⟨s, .refl, by simpa using ht, (by simpa using ho : o = outcome s).symm⟩
        · rw [if_neg ht] at ho; cases ho
      · obtain ⟨t, rt, ht, e⟩ := (outcomesNaive_spec p fuel s' b hb o).1 ho
        exact ⟨t, rt.head hs', ht, e⟩
    · rintro ⟨t, rt, ht, e⟩
      rcases rt.cases_head with rfl | ⟨s', hs', rt'⟩
      · left
        rw [if_pos (by simp [ht])]
        simp [e]
      · obtain ⟨b, hb⟩ := h1 s' hs'
        exact .inr ⟨s', hs', b, hb, (outcomesNaive_spec p fuel s' b hb o).2 ⟨t, rt', ht, e⟩⟩

/-- the two enumerators agree (as sets) whenever both finish -/
theorem exploreV_eq_naive {p : Prog} {n fuel : Nat} {l : List Outcome}
    (hc : (exploreV p n).capped = false) (hn : outcomesNaive p fuel (init p) = some l)
    (o : Outcome) : o ∈ (exploreV p n).outcomes ↔ o ∈ l := by
  rw [exploreV_outcomes_iff hc, outcomesNaive_spec p fuel _ l hn]

/-! ### a checkable certificate for "not capped", and a kernel-checked example -/

/-- `L` contains the initial state and is closed under the successor function -/
def closedList (p : Prog) (L : List St) : Bool :=
  L.contains (init p) && L.all fun s => (succs p s).all L.contains

theorem closedList_reach {p : Prog} {L : List St} (h : closedList p L = true) {s : St}
    (r : Reach p s) : s ∈ L := by
  simp only [closedList, Bool.and_eq_true, List.contains_iff_mem, List.all_eq_true] at h
  induction r with
  | refl => exact h.1
  | tail _ hs ih => exact h.2 _ ih _ hs

/-- pigeonhole -/
theorem length_le_of_nodup_subset : ∀ (l L : List St), l.Nodup → (∀ x, x ∈ l → x ∈ L) →
    l.length ≤ L.length
  | [], _, _, _ => by simp
  | x :: l, L, hn, hs => by
    obtain ⟨hx, hn'⟩ := List.nodup_cons.1 hn
    have hxL : x ∈ L := hs x (by simp)
    have := length_le_of_nodup_subset l (L.erase x) hn' (by
      intro y hy
      have hne : y ≠ x := fun e => hx (e ▸ hy)
      exact (List.mem_erase_of_ne hne).2 (hs y (List.mem_cons_of_mem _ hy)))
    rw [List.length_erase_of_mem hxL] at this
    have : 0 < L.length := List.length_pos_of_mem hxL
    simp only [List.length_cons]; omega

/-- a closed list no longer than the cap certifies that the exploration is not capped -/
theorem exploreV_not_capped {p : Prog} {n : Nat} {L : List St} (h : closedList p L = true)
    (hn : L.length ≤ n) : (exploreV p n).capped = false := by
  cases hc : (exploreV p n).capped with
  | false => rfl
  | true =>
    obtain ⟨l, hnd, hr, hlen⟩ := exploreV_capped hc
    have := length_le_of_nodup_subset l L hnd fun x hx => closedList_reach h (hr x hx)
    omega

/-- … and if moreover it is duplicate-free and consists of reachable states, `states` is its
length -/
theorem exploreV_states_eq {p : Prog} {n : Nat} {L : List St} (h : closedList p L = true)
    (hn : L.length ≤ n) (hnd : L.Nodup) (hr : ∀ s, s ∈ L → Reach p s) :
    (exploreV p n).states = L.length := by
  obtain ⟨l, hnd', hl, e⟩ := exploreV_states (exploreV_not_capped h hn)
  rw [e]
  exact Nat.le_antisymm
    (length_le_of_nodup_subset l L hnd' fun x hx => closedList_reach h ((hl x).1 hx))
    (length_le_of_nodup_subset L l hnd fun x hx => (hl x).2 (hr x hx))

/-- append the elements of the second list that are not yet present -/
def insertAll (L : List St) : List St → List St
  | [] => L
  | x :: xs => insertAll (if L.contains x then L else L ++ [x]) xs

/-- `k` rounds of breadth-first closure (a list-based reference enumerator the kernel can run) -/
def reachList (p : Prog) : Nat → List St → List St
  | 0, L => L
  | k + 1, L => reachList p k (insertAll L (L.flatMap (succs p)))

theorem insertAll_mem : ∀ (xs L : List St) (y : St), y ∈ insertAll L xs → y ∈ L ∨ y ∈ xs
  | [], _, _, h => .inl h
  | x :: xs, L, y, h => by
    rcases insertAll_mem xs _ y h with h | h
    · by_cases hx : L.contains x = true
      · rw [if_pos hx] at h; exact .inl h
      · rw [if_neg hx] at h
        rcases List.mem_append.1 h with h | h
        · exact .inl h
        · exact .inr (by simp at h; simp [h])
    · exact .inr (List.mem_cons_of_mem _ h)

theorem reachList_reach (p : Prog) : ∀ (k : Nat) (L : List St), (∀ s, s ∈ L → Reach p s) →
    ∀ s, s ∈ reachList p k L → Reach p s
  | 0, _, h => h
  | k + 1, L, h => by
    refine reachList_reach p k _ fun s hs => ?_
    rcases insertAll_mem _ _ _ hs with hs | hs
    · exact h s hs
    · obtain ⟨a, ha, hs⟩ := List.mem_flatMap.1 hs
      exact .tail (h a ha) hs

namespace Example

/-- `cfg n=1 | T0: spawn 1; nnotify 0; join 1 | T1: nwait 0` -/
def tiny : Prog :=
  { cfg := { nNotifies := 1 }, threads := [[.spawn 1, .nNotify 0, .join 1], [.nWait 0]] }

def tinyStates : List St := reachList tiny 8 [init tiny]

def tinyOutcome : Outcome :=
  { verdict := .ok, rets := [(0, 0, .unit), (0, 1, .unit), (0, 2, .unit), (1, 0, .unit)] }

/-- kernel-evaluated: the list-based closure has 13 distinct states and is closed -/
theorem tiny_closed : closedList tiny tinyStates = true ∧ tinyStates.length = 13 ∧
    tinyStates.Nodup := by decide +kernel

/-- kernel-evaluated: the definition-shaped enumerator finds exactly one outcome -/
theorem tiny_naive : (outcomesNaive tiny 12 (init tiny)).map List.eraseDups =
    some [tinyOutcome] := by decide +kernel

/-- hence (by the theorems above, not by evaluation — the kernel cannot run the hash function):
`exploreV` is not capped, counts 13 states and reports exactly that outcome -/
theorem tiny_exploreV : (exploreV tiny 1000).capped = false ∧ (exploreV tiny 1000).states = 13 ∧
    ∀ o, o ∈ (exploreV tiny 1000).outcomes ↔ o = tinyOutcome := by
  obtain ⟨h1, h2, h3⟩ := tiny_closed
  have hc : (exploreV tiny 1000).capped = false := exploreV_not_capped h1 (by omega)
  refine ⟨hc, ?_, ?_⟩
  · rw [exploreV_states_eq h1 (by omega) h3, h2]
    exact reachList_reach tiny 8 _ (by intro s hs; simp at hs; subst hs; exact .refl)
  · intro o
    have hn := tiny_naive
    cases hl : outcomesNaive tiny 12 (init tiny) with
    | none => rw [hl] at hn; cases hn
    | some l =>
      rw [hl] at hn
      have hn : l.eraseDups = [tinyOutcome] := by simpa using hn
      rw [exploreV_eq_naive hc hl o, ← List.mem_eraseDups, hn]
      simp

end Example

end LoomVerif.SC

/-
Helpers for properties C13 (resumability) and C19.5 (permutation limit) about the model of
`Builder::check` (`Check.loop`).
-/
import LoomVerif.Model.Check
import LoomVerif.Proofs.CkptRt
import LoomVerif.Proofs.PathDfs

namespace LoomVerif
namespace Check

/-! ### fresh executions -/

/-- the execution `Execution::new` / `Execution::step` hand to an iteration: everything but the
path is in its initial state -/
def freshE (mt : Nat) (p : Path) : Exec :=
  { path := p, threads := Threads.new mt, maxThreads := mt }

theorem initExec_eq (c : Cfg) :
    initExec c = freshE c.maxThreads (Path.new c.maxBranches c.bound (!c.explicit)) := rfl

theorem initExec_with_path (c : Cfg) (p : Path) :
    { initExec c with path := p } = freshE c.maxThreads p := rfl

theorem step_eq (e : Exec) : e.step = e.path.step.map (freshE e.maxThreads) := rfl

/-- `Exec.step` resets everything but the path -/
theorem step_resets {e e' : Exec} (h : e.step = some e') :
    e.path.step = some e'.path ∧ e'.threads = Threads.new e.maxThreads ∧ e'.objs = [] ∧
      e'.lazyStatics = some [] ∧ e'.maxThreads = e.maxThreads ∧
      e' = freshE e.maxThreads e'.path := by
  rw [step_eq, Option.map_eq_some_iff] at h
  obtain ⟨p, hp, rfl⟩ := h
  exact ⟨hp, rfl, rfl, rfl, rfl, rfl⟩

/-- the interpreter changes neither `max_threads` nor the capacity of the branch vector -/
def KeepsCfg (prog : Prog) : Prop :=
  ∀ e : Exec, (runIter prog e).exec.maxThreads = e.maxThreads ∧
    (runIter prog e).exec.path.cap = e.path.cap

/-! ### unfolding the loop -/

/-- the record of the iteration that starts with execution `e` -/
def iterOf (prog : Prog) (i : Nat) (e : Exec) : Iteration :=
  { idx := i, start := e.path, result := runIter prog e }

theorem loop_zero (prog : Prog) (i : Nat) (e : Exec) : loop prog 0 i e = ([], .fuel) := rfl

theorem loop_succ (prog : Prog) (fuel i : Nat) (e : Exec) :
    loop prog (fuel + 1) i e =
      if limitHit prog.cfg i then ([], .limit) else
      match (runIter prog e).term with
      | some p => ([iterOf prog i e], .panicked p)
      | none =>
        match (runIter prog e).exec.step with
        | none => ([iterOf prog i e], .completed)
        | some e' =>
          (iterOf prog i e :: (loop prog fuel (i + 1) e').1, (loop prog fuel (i + 1) e').2) := rfl

/-- inversion of one round of the loop -/
theorem loop_cases {prog : Prog} {fuel i : Nat} {e : Exec} {its : List Iteration} {o : Outcome}
    (h : loop prog (fuel + 1) i e = (its, o)) :
    (limitHit prog.cfg i = true ∧ its = [] ∧ o = .limit) ∨
    (limitHit prog.cfg i = false ∧ ∃ p, (runIter prog e).term = some p ∧
      its = [iterOf prog i e] ∧ o = .panicked p) ∨
    (limitHit prog.cfg i = false ∧ (runIter prog e).term = none ∧
      (runIter prog e).exec.step = none ∧ its = [iterOf prog i e] ∧ o = .completed) ∨
    (limitHit prog.cfg i = false ∧ (runIter prog e).term = none ∧
      ∃ e' rest, (runIter prog e).exec.step = some e' ∧ loop prog fuel (i + 1) e' = (rest, o) ∧
        its = iterOf prog i e :: rest) := by
  rw [loop_succ] at h
  cases hl : limitHit prog.cfg i with
  | true =>
    rw [hl] at h; simp only [if_true, Prod.mk.injEq] at h
    exact Or.inl ⟨rfl, h.1.symm, h.2.symm⟩
  | false =>
    rw [hl] at h; simp only [Bool.false_eq_true, if_false] at h
    right
    cases ht : (runIter prog e).term with
    | some p =>
      rw [ht] at h; simp only [Prod.mk.injEq] at h
      exact Or.inl ⟨rfl, p, rfl, h.1.symm, h.2.symm⟩
    | none =>
      rw [ht] at h; simp only at h
      right
      cases hs : (runIter prog e).exec.step with
      | none =>
        rw [hs] at h; simp only [Prod.mk.injEq] at h
        exact Or.inl ⟨rfl, rfl, rfl, h.1.symm, h.2.symm⟩
      | some e' =>
        rw [hs] at h; simp only [Prod.mk.injEq] at h
        exact Or.inr ⟨rfl, rfl, e', _, rfl, Prod.ext rfl h.2, h.1.symm⟩

/-! ### more fuel does not change a finished run -/

theorem loop_fuel_mono {prog : Prog} {fuel i : Nat} {e : Exec} {its : List Iteration}
    {o : Outcome} (h : loop prog fuel i e = (its, o)) (ho : o ≠ .fuel) :
    ∀ fuel', fuel ≤ fuel' → loop prog fuel' i e = (its, o) := by
  induction fuel generalizing i e its o with
  | zero => rw [loop_zero] at h; cases h; exact absurd rfl ho
  | succ fuel ih =>
    intro fuel' hf
    obtain ⟨f', rfl⟩ : ∃ f', fuel' = f' + 1 := ⟨fuel' - 1, by omega⟩
    rw [loop_succ]
    rcases loop_cases h with ⟨hl, rfl, rfl⟩ | ⟨hl, p, ht, rfl, rfl⟩ | ⟨hl, ht, hs, rfl, rfl⟩ |
      ⟨hl, ht, e', rest, hs, hr, rfl⟩
    · simp [hl]
    · simp [hl, ht]
    · simp [hl, ht, hs]
    · have := ih hr ho f' (by omega)
      simp [hl, ht, hs, this]

/-! ### a run continues from any of its iterations -/

/-- every iteration of a run from a fresh execution starts from a fresh execution, and the
rest of the run is the run from there -/
theorem loop_drop {prog : Prog} (hk : KeepsCfg prog) {mt : Nat} {fuel i : Nat} {p : Path}
    {its : List Iteration} {o : Outcome} (h : loop prog fuel i (freshE mt p) = (its, o))
    (k : Nat) (hlt : k < its.length) :
    loop prog (fuel - k) (i + k) (freshE mt its[k].start) = (its.drop k, o) ∧
      its[k].start.cap = p.cap := by
  induction k generalizing fuel i p its with
  | zero =>
    cases fuel with
    | zero => rw [loop_zero] at h; cases h; simp at hlt
    | succ fuel =>
      have hstart : its[0].start = p := by
        rcases loop_cases h with ⟨_, rfl, _⟩ | ⟨_, _, _, rfl, _⟩ | ⟨_, _, _, rfl, _⟩ |
          ⟨_, _, _, _, _, _, rfl⟩
        · simp at hlt
        · rfl
        · rfl
        · rfl
      refine ⟨?_, by rw [hstart]⟩
      simp only [hstart, Nat.sub_zero, Nat.add_zero, List.drop_zero]
      exact h
  | succ k ih =>
    cases fuel with
    | zero => rw [loop_zero] at h; cases h; simp at hlt
    | succ fuel =>
      rcases loop_cases h with ⟨_, rfl, _⟩ | ⟨_, _, _, rfl, _⟩ | ⟨_, _, _, rfl, _⟩ |
        ⟨_, _, e', rest, hs, hr, rfl⟩
      · simp at hlt
      · simp at hlt
      · simp at hlt
      · obtain ⟨hp, _, _, _, hmt, he'⟩ := step_resets hs
        have hm := (hk (freshE mt p)).1
        have hc := (hk (freshE mt p)).2
        have hmt' : e'.maxThreads = mt := by rw [hmt, hm]; rfl
        rw [he', hm] at hr
        have hcap : e'.path.cap = p.cap := by
          have := (Path.step_fields hp).1
          rw [this, hc]; rfl
        simp only [List.length_cons] at hlt
        have := ih (show loop prog fuel (i + 1) (freshE mt e'.path) = (rest, o) from hr)
          (by omega)
        simp only [List.getElem_cons_succ, List.drop_succ_cons]
        refine ⟨?_, this.2.trans hcap⟩
        have h1 : fuel + 1 - (k + 1) = fuel - k := by omega
        have h2 : i + (k + 1) = i + 1 + k := by omega
        rw [h1, h2]; exact this.1

/-! ### iteration numbers only matter for the permutation limit -/

/-- an iteration without its number -/
def Iteration.body (it : Iteration) : Path × IterResult := (it.start, it.result)

theorem limitHit_of_none {c : Cfg} (h : c.maxPerm = none) (i : Nat) : limitHit c i = false := by
  simp [limitHit, h]

theorem loop_renumber {prog : Prog} (hm : prog.cfg.maxPerm = none) {fuel i : Nat} (j : Nat)
    {e : Exec} {its : List Iteration} {o : Outcome} (h : loop prog fuel i e = (its, o)) :
    ∃ its', loop prog fuel j e = (its', o) ∧ its'.map Iteration.body = its.map Iteration.body := by
  induction fuel generalizing i j e its o with
  | zero => rw [loop_zero] at h; cases h; exact ⟨[], rfl, rfl⟩
  | succ fuel ih =>
    rw [loop_succ]
    simp only [limitHit_of_none hm, Bool.false_eq_true, if_false]
    rcases loop_cases h with ⟨hl, _, _⟩ | ⟨_, p, ht, rfl, rfl⟩ | ⟨_, ht, hs, rfl, rfl⟩ |
      ⟨_, ht, e', rest, hs, hr, rfl⟩
    · rw [limitHit_of_none hm] at hl; cases hl
    · exact ⟨[iterOf prog j e], by simp [ht], rfl⟩
    · exact ⟨[iterOf prog j e], by simp [ht, hs], rfl⟩
    · obtain ⟨its', h1, h2⟩ := ih (j + 1) hr
      refine ⟨iterOf prog j e :: its', by simp [ht, hs, h1], ?_⟩
      simp only [List.map_cons, h2]
      rfl

/-! ### the permutation limit -/

theorem limitHit_iff (c : Cfg) (i : Nat) :
    limitHit c i = true ↔ (i % c.interval = 0 ∧ ∃ m, c.maxPerm = some m ∧ m ≤ i) := by
  unfold limitHit
  cases c.maxPerm with
  | none => simp
  | some m => simp

theorem storesCheckpoint_iff (c : Cfg) (i : Nat) :
    storesCheckpoint c i = true ↔ i % c.interval = 0 := by
  simp [storesCheckpoint]

/-- the first multiple of `c` that is at least `m` -/
def firstBoundary (c m : Nat) : Nat := c * ((m + c - 1) / c)

theorem firstBoundary_spec {c m : Nat} (hc : 1 ≤ c) :
    firstBoundary c m % c = 0 ∧ m ≤ firstBoundary c m ∧
      ∀ i, i % c = 0 → m ≤ i → firstBoundary c m ≤ i := by
  unfold firstBoundary
  have h1 := Nat.div_add_mod (m + c - 1) c
  have h2 := Nat.mod_lt (m + c - 1) (show c > 0 by omega)
  refine ⟨Nat.mul_mod_right _ _, ?_, ?_⟩
  · generalize c * ((m + c - 1) / c) = t at *
    omega
  · intro i hi hm
    have h3 := Nat.div_add_mod i c
    rw [hi, Nat.add_zero] at h3
    rcases Nat.lt_or_ge (i / c) ((m + c - 1) / c) with hlt | hge
    · have : c * (i / c + 1) ≤ c * ((m + c - 1) / c) := Nat.mul_le_mul_left _ hlt
      rw [Nat.mul_add, Nat.mul_one] at this
      generalize c * ((m + c - 1) / c) = t at *
      generalize c * (i / c) = u at *
      omega
    · have : c * ((m + c - 1) / c) ≤ c * (i / c) := Nat.mul_le_mul_left _ hge
      omega

theorem firstBoundary_pos {c m : Nat} (hc : 1 ≤ c) (hm : 1 ≤ m) : 1 ≤ firstBoundary c m := by
  have := (firstBoundary_spec (m := m) hc).2.1; omega

/-- with `max_permutations = Some(m)` the first iteration number at which the loop stops is
the first checkpoint boundary at or after `m` -/
theorem limitHit_first {cfg : Cfg} {m : Nat} (hm : cfg.maxPerm = some m) (hc : 1 ≤ cfg.interval) :
    limitHit cfg (firstBoundary cfg.interval m) = true ∧
      ∀ i, i < firstBoundary cfg.interval m → limitHit cfg i = false := by
  obtain ⟨h1, h2, h3⟩ := firstBoundary_spec (m := m) hc
  constructor
  · rw [limitHit_iff]; exact ⟨h1, m, hm, h2⟩
  · intro i hi
    cases hl : limitHit cfg i with
    | false => rfl
    | true =>
      obtain ⟨ha, m', hm', hb⟩ := (limitHit_iff _ _).1 hl
      rw [hm] at hm'; cases hm'
      have := h3 i ha hb; omega

/-- iterations only run at numbers where the limit is not hit; the loop reports `limit`
exactly when it is hit, and then no iteration has failed -/
theorem loop_limit {prog : Prog} {fuel i : Nat} {e : Exec} {its : List Iteration} {o : Outcome}
    (h : loop prog fuel i e = (its, o)) :
    (∀ j, i ≤ j → j < i + its.length → limitHit prog.cfg j = false) ∧
    (o = .limit → limitHit prog.cfg (i + its.length) = true ∧
      ∀ it ∈ its, it.result.term = none) ∧
    (∀ n (hn : n < its.length), its[n].idx = i + n) := by
  induction fuel generalizing i e its o with
  | zero =>
    rw [loop_zero] at h; cases h
    exact ⟨fun j h1 h2 => by simp at h2; omega, fun h => (by cases h), fun n hn => by simp at hn⟩
  | succ fuel ih =>
    have single : ∀ it : Iteration, it.idx = i → limitHit prog.cfg i = false →
        (∀ j, i ≤ j → j < i + [it].length → limitHit prog.cfg j = false) ∧
        (∀ n (hn : n < [it].length), [it][n].idx = i + n) := by
      intro it hidx hl
      refine ⟨?_, ?_⟩
      · intro j h1 h2
        have : j = i := by simp at h2; omega
        rw [this]; exact hl
      · intro n hn
        have : n = 0 := by simpa using hn
        subst this; simpa using hidx
    rcases loop_cases h with ⟨hl, rfl, rfl⟩ | ⟨hl, p, ht, rfl, rfl⟩ | ⟨hl, ht, hs, rfl, rfl⟩ |
      ⟨hl, ht, e', rest, hs, hr, rfl⟩
    · exact ⟨fun j h1 h2 => by simp at h2; omega, fun _ => ⟨by simpa using hl, by simp⟩,
        fun n hn => by simp at hn⟩
    · obtain ⟨a, b⟩ := single (iterOf prog i e) rfl hl
      exact ⟨a, fun h => (by cases h), b⟩
    · obtain ⟨a, b⟩ := single (iterOf prog i e) rfl hl
      exact ⟨a, fun h => (by cases h), b⟩
    · obtain ⟨a, b, c⟩ := ih hr
      refine ⟨?_, ?_, ?_⟩
      · intro j h1 h2
        simp only [List.length_cons] at h2
        rcases Nat.eq_or_lt_of_le h1 with rfl | hlt
        · exact hl
        · exact a j (by omega) (by omega)
      · intro ho
        obtain ⟨b1, b2⟩ := b ho
        refine ⟨?_, ?_⟩
        · simp only [List.length_cons]
          have : i + (rest.length + 1) = i + 1 + rest.length := by omega
          rw [this]; exact b1
        · intro it hit
          rcases List.mem_cons.1 hit with rfl | hit
          · exact ht
          · exact b2 it hit
      · intro n hn
        cases n with
        | zero => rfl
        | succ n =>
          simp only [List.length_cons] at hn
          have := c n (by omega)
          simp only [List.getElem_cons_succ, this]; omega

/-- the loop gives up with `fuel` only after running `fuel` iterations -/
theorem loop_fuel_length {prog : Prog} {fuel i : Nat} {e : Exec} {its : List Iteration}
    (h : loop prog fuel i e = (its, .fuel)) : its.length = fuel := by
  induction fuel generalizing i e its with
  | zero => rw [loop_zero] at h; cases h; rfl
  | succ fuel ih =>
    rcases loop_cases h with ⟨_, _, ho⟩ | ⟨_, _, _, _, ho⟩ | ⟨_, _, _, _, ho⟩ |
      ⟨_, _, e', rest, _, hr, rfl⟩
    · cases ho
    · cases ho
    · cases ho
    · simp [ih hr]

/-- the first iteration of a run is the one that starts from the given execution -/
theorem loop_head {prog : Prog} {fuel i : Nat} {e : Exec} {it : Iteration}
    {rest : List Iteration} {o : Outcome} (h : loop prog fuel i e = (it :: rest, o)) :
    it = iterOf prog i e := by
  cases fuel with
  | zero => rw [loop_zero] at h; cases h
  | succ fuel =>
    rcases loop_cases h with ⟨_, h1, _⟩ | ⟨_, _, _, h1, _⟩ | ⟨_, _, _, h1, _⟩ |
      ⟨_, _, _, _, _, _, h1⟩ <;> cases h1 <;> rfl

/-- a run without iterations ended because of the limit or the fuel -/
theorem loop_nil {prog : Prog} {fuel i : Nat} {e : Exec} {o : Outcome}
    (h : loop prog fuel i e = ([], o)) : o = .limit ∨ o = .fuel := by
  cases fuel with
  | zero => rw [loop_zero] at h; cases h; exact Or.inr rfl
  | succ fuel =>
    rcases loop_cases h with ⟨_, _, ho⟩ | ⟨_, _, _, h1, _⟩ | ⟨_, _, _, h1, _⟩ |
      ⟨_, _, _, _, _, _, h1⟩
    · exact Or.inl ho
    · cases h1
    · cases h1
    · cases h1

/-- a run that consists of one panicking iteration -/
theorem loop_single_panicked {prog : Prog} {fuel i : Nat} {e : Exec} {it : Iteration}
    {p : Panic} (h : loop prog fuel i e = ([it], .panicked p)) :
    it = iterOf prog i e ∧ (runIter prog e).term = some p := by
  refine ⟨loop_head h, ?_⟩
  cases fuel with
  | zero => rw [loop_zero] at h; cases h
  | succ fuel =>
    rcases loop_cases h with ⟨_, _, ho⟩ | ⟨_, p', ht, _, ho⟩ | ⟨_, _, _, _, ho⟩ |
      ⟨_, _, e', rest, _, hr, h1⟩
    · cases ho
    · cases ho; exact ht
    · cases ho
    · cases h1
      rcases loop_nil hr with ho | ho <;> cases ho

/-- one panicking iteration, seen from the start -/
theorem loop_of_panicked {prog : Prog} {fuel i : Nat} {e : Exec} {p : Panic}
    (hl : limitHit prog.cfg i = false) (ht : (runIter prog e).term = some p) :
    loop prog (fuel + 1) i e = ([iterOf prog i e], .panicked p) := by
  rw [loop_succ]; simp [hl, ht]

end Check
end LoomVerif

/-
Deadlock soundness, WAIT fragment, part 6: the scheduling points (`branch`, `yieldNow`, `parkNow`, `blockNow`,
`threadDone`) as instances of `JB2.sched`, and what a stage does to the path (`PStep`): nothing, one call of
`Exec.schedule`, or the decision about a spurious return followed by one call of `Exec.schedule`.
-/
import LoomVerif.Proofs.Deadlock2Steps
import LoomVerif.Proofs.DeadlockStep3

namespace LoomVerif
namespace Deadlock2
open Refine Refine2 Sy Deadlock C07 C08

/-- what a stage does to the path (`a'`: is a thread active afterwards) -/
inductive PStep (p : Path) : Path → Bool → Prop
  | same : PStep p p true
  | sched (e e' : Exec) (pk b : Bool) : e.path = p → e.schedule pk = .ok (e', b) →
      PStep p e'.path e'.threads.isActive
  | spur (p1 : Path) (bs pk' : Bool) (e e' : Exec) (pk b : Bool) : p.branchSpurious pk' = .ok (p1, bs) →
      e.path = p1 → e.schedule pk = .ok (e', b) → PStep p e'.path e'.threads.isActive

theorem branchSpurious_replayOK {p p' : Path} {pk bs : Bool} (h : p.branchSpurious pk = .ok (p', bs))
    (hp : ReplayOK p) : ReplayOK p' := by
  unfold Path.branchSpurious at h
  by_cases ht : p.isTraversed = true
  · have hpos : p.pos = p.branches.length := by simpa [Path.isTraversed] using ht
    simp only [ht, if_true, bind, Except.bind, pure, Except.pure] at h
    split at h
    · cases h
    · split at h
      · cases h
        intro i hi hpi
        simp only [List.length_append, List.length_singleton] at hi
        simp only at hpi
        omega
      · cases h
  · simp only [ht, if_false, bind, Except.bind, pure, Except.pure, Bool.false_eq_true] at h
    split at h
    · cases h
      exact hp.advance
    · cases h

theorem PStep.replayOK {p p' : Path} {a : Bool} (h : PStep p p' a) (hp : ReplayOK p) : ReplayOK p' := by
  cases h with
  | same => exact hp
  | sched e e' pk b he hs => exact schedule_replayOK hs (by rw [he]; exact hp)
  | spur p1 bs pk' e e' pk b h1 he hs =>
    exact schedule_replayOK hs (by rw [he]; exact branchSpurious_replayOK h1 hp)

section
variable {w w' : World}

/-- the core: a scheduling point of `w` with entry function `F`; the world reached has the execution `schedule`
returns and the control table of `w` rewritten at the active thread by `g` -/
theorem JB2.point (hJ : JB2 w) (hin : w.tid < w.exec.threads.threads.length) (hact : w.tid < w.ctl.length)
    {F : Thread → Thread} {g : TCtl → TCtl} {x : Exec × Bool} (hs : schedOn w F = .ok x)
    (hexec : w'.exec = x.1) (hctl : w'.ctl = w.ctl.modify w.tid g) (hprog : w'.prog = w.prog)
    (hsp : w'.spawned = w.spawned)
    (hbody : (g (w.ctlOf w.tid)).body = (w.ctlOf w.tid).body)
    (hpc : (g (w.ctlOf w.tid)).pc = (w.ctlOf w.tid).pc)
    (hfin : 10 ≤ (g (w.ctlOf w.tid)).fin → 10 ≤ (w.ctlOf w.tid).fin)
    (hnew : JT2 w.prog w.spawned w.exec.objs w.tid False (F (w.ths.get w.tid)) (g (w.ctlOf w.tid))) :
    JB2 w' ∧ PStep w.exec.path w'.exec.path w'.ths.isActive := by
  refine ⟨JB2.sched (e := x.1) (b := x.2) hJ hin hact hs hexec hctl hprog hsp hbody hpc hfin hnew, ?_⟩
  show PStep _ w'.exec.path w'.exec.threads.isActive
  rw [hexec]
  exact PStep.sched ({ w.exec with threads := w.ths.modifyActive F }) x.1 w.panicking x.2 rfl hs

/-- the entry functions of the scheduling points -/
def yieldF (t : Nat) (th : Thread) : Thread := { th.setYield t with operation := none }
def parkF (th : Thread) : Thread := { th.setParked with operation := none }
def blockF (th : Thread) : Thread := { th.setBlocked with operation := none }
def doneF (th : Thread) : Thread := { th.setTerminated with operation := none }

theorem branch_point (w : World) (o : Nat) (a : Action) (blk wt : Bool) :
    w.branch o a blk wt =
      (schedOn w (branchF o a blk wt) >>= fun x => (pure { w with exec := x.1 } : Except Panic World)) := rfl

theorem yield_point (w : World) :
    w.yieldNow = (schedOn w (yieldF w.tid) >>= fun x => (pure { w with exec := x.1 } : Except Panic World)) :=
  rfl

theorem block_point (w : World) :
    w.blockNow = (schedOn w blockF >>= fun x => (pure { w with exec := x.1 } : Except Panic World)) := rfl

theorem done_point (w : World) :
    w.threadDone = (schedOn w doneF >>= fun x => (pure { w with exec := x.1 } : Except Panic World)) := rfl

theorem park_point (w : World) (h : w.ths.activeT.token = false) :
    w.parkNow = (schedOn w parkF >>= fun x => (pure { w with exec := x.1 } : Except Panic World)) :=
  parkNow_schedOn w h

end

end Deadlock2
end LoomVerif

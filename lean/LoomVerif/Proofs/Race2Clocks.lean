/-
Race exactness on the WAIT fragment, part 1: additions to the clock algebra of `Proofs/RaceClocks.lean`.

The clock systems `CS` of the lock fragment carry one clock per thread and one per "slot" (`mtx`).  On the WAIT
fragment the slots are: the mutexes, the `Notify` objects (`nRel` / the `Synchronize` of `rt::Notify`), the
channels (`chanRel` / `senderSync`) and the `park` tokens (`tokenVC` / `unparkCaus`): all of them are cumulative
release clocks, driven by `CS.rel` and read by `CS.acq`.  The clocks of the messages in flight are snapshots of a
channel slot; they live outside the clock system, as *side clocks*:

* `SideGood σ Z`: `Z` is below the own components of the threads and closed (whoever knows the own component of a
  recorded access knows the whole access) — what `Good.acq` asks of an acquired clock;
* `SideX n β T R ZT ZR`: `ZT` and `ZR` know the same recorded accesses — what `XInv.acq` asks.
-/
import LoomVerif.Proofs.RaceClocks

namespace LoomVerif
namespace Race2
open Clocks Race

/-! ### joins of lists -/

def joinL (l : List VV) : VV := l.foldr VV.join VV.zero

theorem joinL_nil : joinL [] = VV.zero := rfl
theorem joinL_cons (a : VV) (l : List VV) : joinL (a :: l) = a.join (joinL l) := rfl

theorem le_joinL {l : List VV} {Z : VV} (h : Z ∈ l) : Z.le (joinL l) := by
  induction l with
  | nil => cases h
  | cons a l ih =>
    rw [joinL_cons]
    rcases List.mem_cons.1 h with rfl | h'
    · exact le_join_left _ _
    · exact le_trans (ih h') (le_join_right _ _)

theorem joinL_le {l : List VV} {C : VV} (h : ∀ Z, Z ∈ l → Z.le C) : (joinL l).le C := by
  induction l with
  | nil => exact zero_le _
  | cons a l ih =>
    rw [joinL_cons]
    exact join_le (h a (List.mem_cons_self)) (ih fun Z hZ => h Z (List.mem_cons_of_mem _ hZ))

theorem joinL_append (l1 l2 : List VV) : joinL (l1 ++ l2) = (joinL l1).join (joinL l2) := by
  induction l1 with
  | nil => rw [List.nil_append, joinL_nil, zero_join]
  | cons a l ih => rw [List.cons_append, joinL_cons, joinL_cons, ih, join_assoc]

/-- acquiring the clocks of a list one after the other is acquiring their join -/
theorem foldl_join_eq (l : List VV) (v : VV) : l.foldl VV.join v = v.join (joinL l) := by
  induction l generalizing v with
  | nil => rw [List.foldl_nil, joinL_nil, join_zero]
  | cons a l ih => rw [List.foldl_cons, ih, joinL_cons, join_assoc]

/-! ### side clocks -/

structure SideGood (σ : CS) (Z : VV) : Prop where
  om : ∀ t, Z.get t ≤ (σ.thr t).get t
  cl : ∀ k c t, (σ.ev k c t).get t ≤ Z.get t → (σ.ev k c t).le Z

def SideX (n : Nat) (β : Nat → Nat) (T R : CS) (ZT ZR : VV) : Prop :=
  ∀ k c i, i < n → ((T.ev k c i).get i ≤ ZT.get i ↔ (R.ev k c (β i)).get (β i) ≤ ZR.get (β i))

section
variable {σ σ' : CS} {Z Z' : VV}

/-- the thread clocks grow in their own components, the recorded accesses are kept -/
theorem SideGood.mono (h : SideGood σ Z) (hthr : ∀ t, (σ.thr t).get t ≤ (σ'.thr t).get t)
    (hev : σ'.ev = σ.ev) : SideGood σ' Z :=
  ⟨fun t => Nat.le_trans (h.om t) (hthr t), fun k c t => by rw [hev]; exact h.cl k c t⟩

theorem SideGood.slot (h : Good σ) (m : Nat) : SideGood σ (σ.mtx m) := ⟨fun t => h.omM t m, fun k c t => h.clM k c t m⟩

theorem SideGood.thread (h : Good σ) (u : Nat) : SideGood σ (σ.thr u) := ⟨fun t => h.omT t u, fun k c t => h.clT k c t u⟩

theorem SideGood.join (h1 : SideGood σ Z) (h2 : SideGood σ Z') : SideGood σ (Z.join Z') := by
  refine ⟨fun t => get_join_le (h1.om t) (h2.om t), ?_⟩
  intro k c t hp
  rcases le_get_join hp with h | h
  · exact le_trans (h1.cl k c t h) (le_join_left _ _)
  · exact le_trans (h2.cl k c t h) (le_join_right _ _)

theorem SideGood.tick (h : SideGood σ Z) (t : Nat) : SideGood (σ.tick t) Z := by
  refine h.mono ?_ rfl
  intro u
  show _ ≤ (upd σ.thr t _ u).get u
  by_cases e : u = t
  · subst e; rw [upd_self]; exact get_mono (le_inc _ _) u
  · rw [upd_ne _ _ e]; exact Nat.le_refl _

theorem SideGood.acq (h : SideGood σ Z) (t : Nat) (Y : VV) : SideGood (σ.acq t Y) Z := by
  refine h.mono ?_ rfl
  intro u
  show _ ≤ (upd σ.thr t _ u).get u
  by_cases e : u = t
  · subst e; rw [upd_self]; exact get_le_join_left _ _ _
  · rw [upd_ne _ _ e]; exact Nat.le_refl _

theorem SideGood.rel (h : SideGood σ Z) (t m : Nat) : SideGood (σ.rel t m) Z := h.mono (fun _ => Nat.le_refl _) rfl

theorem SideGood.fork (h : SideGood σ Z) (t u : Nat) (hz : σ.thr u = VV.zero) : SideGood (σ.fork t u) Z := by
  refine h.mono ?_ rfl
  intro x
  show _ ≤ (upd σ.thr u _ x).get x
  by_cases e : x = u
  · subst e; rw [upd_self, hz, get_zero]; exact Nat.zero_le _
  · rw [upd_ne _ _ e]; exact Nat.le_refl _

/-- right after the tick of `t` every side clock is strictly behind `t` in `t`'s component -/
theorem SideGood.strict_tick (h : SideGood σ Z) (t : Nat) (ht : t < 5) :
    Z.get t < ((σ.tick t).thr t).get t := by
  have own : ((σ.tick t).thr t).get t = (σ.thr t).get t + 1 := by
    show (upd σ.thr t _ t).get t = _
    rw [upd_self, get_inc_self _ _ ht]
  rw [own]
  have := h.om t
  omega

theorem SideGood.record (h : SideGood σ Z) (k : Bool) (t c : Nat) (hlt : Z.get t < (σ.thr t).get t) :
    SideGood (σ.record k t c) Z := by
  refine ⟨h.om, ?_⟩
  intro k' c' t'
  show ((if k' = k ∧ c' = c ∧ t' = t then σ.thr t else σ.ev k' c' t')).get t' ≤ _ →
    (if k' = k ∧ c' = c ∧ t' = t then σ.thr t else σ.ev k' c' t').le Z
  split
  · next e =>
    obtain ⟨_, _, rfl⟩ := e
    intro hp
    omega
  · exact h.cl k' c' t'

end

section
variable {n : Nat} {β : Nat → Nat} {T R T' R' : CS} {ZT ZR ZT' ZR' : VV}

theorem SideX.slot (hx : XInv n β T R) (m : Nat) : SideX n β T R (T.mtx m) (R.mtx m) :=
  fun k c i hi => hx.mtx k c i m hi

theorem SideX.thread (hx : XInv n β T R) (j : Nat) (hj : j < n) : SideX n β T R (T.thr j) (R.thr (β j)) :=
  fun k c i hi => hx.thr k c i j hi hj

theorem SideX.join (h1 : SideX n β T R ZT ZR) (h2 : SideX n β T R ZT' ZR') :
    SideX n β T R (ZT.join ZT') (ZR.join ZR') := by
  intro k c i hi
  rw [get_join, get_join]
  have a := h1 k c i hi
  have b := h2 k c i hi
  omega

/-- the recorded accesses are kept -/
theorem SideX.ev (h : SideX n β T R ZT ZR) (hT : T'.ev = T.ev) (hR : R'.ev = R.ev) : SideX n β T' R' ZT ZR := by
  intro k c i hi
  rw [hT, hR]; exact h k c i hi

theorem SideX.congr {β' : Nat → Nat} (h : SideX n β T R ZT ZR) (hb : ∀ i, i < n → β' i = β i) :
    SideX n β' T R ZT ZR := by
  intro k c i hi
  rw [hb i hi]; exact h k c i hi

/-- both threads record an access right after their ticks: neither side clock knows it -/
theorem SideX.record (h : SideX n β T R ZT ZR) (hinj : Inj n β) (k : Bool) (t c : Nat) (ht : t < n)
    (hT : ZT.get t < (T.thr t).get t) (hR : ZR.get (β t) < (R.thr (β t)).get (β t)) :
    SideX n β (T.record k t c) (R.record k (β t) c) ZT ZR := by
  intro k' c' i hi
  show ((if k' = k ∧ c' = c ∧ i = t then T.thr t else T.ev k' c' i)).get i ≤ _ ↔
    ((if k' = k ∧ c' = c ∧ β i = β t then R.thr (β t) else R.ev k' c' (β i))).get (β i) ≤ _
  by_cases e : i = t
  · subst e
    by_cases e2 : k' = k ∧ c' = c
    · rw [if_pos ⟨e2.1, e2.2, rfl⟩, if_pos ⟨e2.1, e2.2, rfl⟩]
      constructor <;> (intro hh; omega)
    · rw [if_neg (fun hh => e2 ⟨hh.1, hh.2.1⟩), if_neg (fun hh => e2 ⟨hh.1, hh.2.1⟩)]
      exact h k' c' i hi
  · have : β i ≠ β t := fun eb => e (hinj i t hi ht eb)
    rw [if_neg (fun hh => e hh.2.2), if_neg (fun hh => this hh.2.2)]
    exact h k' c' i hi

/-- a new thread: index `n` in the first system, `b` in the second; it has recorded nothing -/
theorem SideX.fork (h : SideX n β T R ZT ZR) (b : Nat) (β' : Nat → Nat) (hβ : ∀ i, i < n → β' i = β i)
    (hβn : β' n = b) (hT0 : ∀ k c, (T.ev k c n).get n = 0) (hR0 : ∀ k c, (R.ev k c b).get b = 0) :
    SideX (n + 1) β' T R ZT ZR := by
  intro k c i hi
  by_cases e : i = n
  · subst e
    rw [hβn, hT0, hR0]
    exact ⟨fun _ => Nat.zero_le _, fun _ => Nat.zero_le _⟩
  · have hin : i < n := by omega
    rw [hβ i hin]; exact h k c i hin

end

/-- an idle thread has recorded nothing -/
theorem ev_zero_of_idle {σ : CS} (h : Good σ) {t : Nat} (hz : σ.thr t = VV.zero) (k : Bool) (c : Nat) :
    (σ.ev k c t).get t = 0 := by
  have := get_mono (h.kn k c t) t
  rw [hz, get_zero] at this; omega

/-! ### acquiring a list of side clocks -/

def acqL (σ : CS) (t : Nat) (l : List VV) : CS := l.foldl (fun σ Z => σ.acq t Z) σ

theorem acqL_nil (σ : CS) (t : Nat) : acqL σ t [] = σ := rfl
theorem acqL_cons (σ : CS) (t : Nat) (Z : VV) (l : List VV) : acqL σ t (Z :: l) = acqL (σ.acq t Z) t l := rfl

theorem acqL_mtx (σ : CS) (t : Nat) (l : List VV) : (acqL σ t l).mtx = σ.mtx := by
  induction l generalizing σ with
  | nil => rfl
  | cons Z l ih => rw [acqL_cons, ih]; rfl

theorem acqL_acc (σ : CS) (t : Nat) (l : List VV) : (acqL σ t l).acc = σ.acc := by
  induction l generalizing σ with
  | nil => rfl
  | cons Z l ih => rw [acqL_cons, ih]; rfl

theorem acqL_ev (σ : CS) (t : Nat) (l : List VV) : (acqL σ t l).ev = σ.ev := by
  induction l generalizing σ with
  | nil => rfl
  | cons Z l ih => rw [acqL_cons, ih]; rfl

theorem acqL_thr (σ : CS) (t : Nat) (l : List VV) (u : Nat) :
    (acqL σ t l).thr u = if u = t then (σ.thr t).join (joinL l) else σ.thr u := by
  induction l generalizing σ with
  | nil =>
    rw [acqL_nil, joinL_nil, join_zero]
    split
    · next e => rw [e]
    · rfl
  | cons Z l ih =>
    rw [acqL_cons, ih, joinL_cons]
    by_cases e : u = t
    · rw [if_pos e, if_pos e]
      show (upd σ.thr t _ t).join _ = _
      rw [upd_self, join_assoc]
    · rw [if_neg e, if_neg e]
      show upd σ.thr t _ u = _
      rw [upd_ne _ _ e]

theorem Good.acqL {σ : CS} (h : Good σ) (t : Nat) (l : List VV) (hl : ∀ Z, Z ∈ l → SideGood σ Z) :
    Good (acqL σ t l) := by
  induction l generalizing σ with
  | nil => exact h
  | cons Z l ih =>
    rw [acqL_cons]
    have hZ := hl Z List.mem_cons_self
    exact ih (h.acq t Z hZ.om hZ.cl) fun Y hY => (hl Y (List.mem_cons_of_mem _ hY)).acq t Z

/-- two lists related element by element -/
inductive All2 {α β : Type} (r : α → β → Prop) : List α → List β → Prop
  | nil : All2 r [] []
  | cons {a : α} {b : β} {l1 : List α} {l2 : List β} : r a b → All2 r l1 l2 → All2 r (a :: l1) (b :: l2)

theorem All2.imp {α β : Type} {r r' : α → β → Prop} {l1 : List α} {l2 : List β} (h : All2 r l1 l2)
    (hi : ∀ a b, r a b → r' a b) : All2 r' l1 l2 := by
  induction h with
  | nil => exact .nil
  | cons hab _ ih => exact .cons (hi _ _ hab) ih

theorem All2.length {α β : Type} {r : α → β → Prop} {l1 : List α} {l2 : List β} (h : All2 r l1 l2) :
    l1.length = l2.length := by
  induction h with
  | nil => rfl
  | cons _ _ ih => simp [ih]

theorem All2.append {α β : Type} {r : α → β → Prop} {l1 l1' : List α} {l2 l2' : List β} (h : All2 r l1 l2)
    (h' : All2 r l1' l2') : All2 r (l1 ++ l1') (l2 ++ l2') := by
  induction h with
  | nil => exact h'
  | cons hab _ ih => exact .cons hab ih

theorem All2.drop {α β : Type} {r : α → β → Prop} {l1 : List α} {l2 : List β} (h : All2 r l1 l2) (k : Nat) :
    All2 r (l1.drop k) (l2.drop k) := by
  induction h generalizing k with
  | nil => simpa using All2.nil
  | cons hab htl ih =>
    cases k with
    | zero => exact .cons hab htl
    | succ k => simpa using ih k

theorem All2.take {α β : Type} {r : α → β → Prop} {l1 : List α} {l2 : List β} (h : All2 r l1 l2) (k : Nat) :
    All2 r (l1.take k) (l2.take k) := by
  induction h generalizing k with
  | nil => simpa using All2.nil
  | cons hab htl ih =>
    cases k with
    | zero => simpa using All2.nil
    | succ k => simpa using All2.cons hab (ih k)

theorem XInv.acqL {n : Nat} {β : Nat → Nat} {T R : CS} (hx : XInv n β T R) (hinj : Inj n β) (t : Nat) (ht : t < n)
    (lT lR : List VV) (hl : All2 (SideX n β T R) lT lR) :
    XInv n β (acqL T t lT) (acqL R (β t) lR) := by
  induction lT generalizing lR T R with
  | nil => cases hl; exact hx
  | cons a l ih =>
    cases hl with
    | cons hab htl =>
      rw [acqL_cons, acqL_cons]
      exact ih (hx.acq hinj t ht _ _ hab) _ (htl.imp fun _ _ h => h.ev rfl rfl)

end Race2
end LoomVerif

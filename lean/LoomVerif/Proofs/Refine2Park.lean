/-
Refinement, WAIT fragment, part 15: `park` and `unpark t`, core relation.  (The relation between the reference
token `Th.token` and the twin's `Thread.token` / `Thread.parked` is `RPk`, `Refine2Tok.lean`; here the
token of the reference thread is a hypothesis of the completing stage of `park`.)
-/
import LoomVerif.Proofs.Refine2Cv2

namespace LoomVerif
namespace Refine2
open Refine Sy C07 C08

section
variable {w w' : World} {s : SCData2}

/-- `unpark u` names a thread of the twin that runs body `u` -/
theorem threadOf_ok (hR : R2c w s) {u t : Nat} (h : w.threadOf u = .ok t) :
    t < w.ctl.length ∧ (w.ctl.getD t {}).body = u := by
  unfold World.threadOf at h
  split at h
  · next hu =>
    cases h
    have : u = 0 := by simpa using hu
    subst this
    exact ⟨hR.x.main.1, hR.x.main.2⟩
  · split at h
    · next b t' n hf =>
      cases h
      have hmem := List.mem_of_find?_eq_some hf
      have hb := List.find?_some hf
      have hbu : b = u := by simpa using hb
      subst hbu
      obtain ⟨h1, h2, _⟩ := hR.o.y.sp _ _ _ hmem
      exact ⟨h1, h2⟩
    · cases h

theorem sim_park (hR : R2c w s) (hact : w.tid < w.ctl.length)
    (hop : opAt2 w = some .park) (hin : w.tid < w.exec.threads.threads.length)
    (htok : (w.ctlOf w.tid).stage ≠ 0 → (s.th (w.ctlOf w.tid).body).token = true)
    (h : w.runOp (w.ctlOf w.tid) .park = .ok w') : Sim2c w s w' := by
  obtain ⟨_, hrel, hof⟩ := base2 hR hact
  obtain ⟨hN, hC, hD⟩ := plain_pend (c := w.ctlOf w.tid) hop rfl
  obtain ⟨c1, c2⟩ := cv_none hR hact hC
  rw [runOp_park] at h
  split at h
  · obtain ⟨hqt, hc, _⟩ := parkNow_quiet2 (w := w.setStage 1) hin h
    exact sim_stage (k := 1) hR hact hop (by simp) hC (Nat.le_refl _) (by omega) (quiet2_setStage hqt) hc
  · next hs =>
    have hs' : (w.ctlOf w.tid).stage ≠ 0 := by simpa using hs
    simp only [pure, Except.pure] at h
    cases h
    obtain ⟨e1, e2⟩ := started_running2 hR hact (by rw [fin_zero2 hR hact hop]; omega)
    let b := (w.ctlOf w.tid).body
    let d : SCData2 := s.modTh b fun h => { h with token := false }
    have hRO : RO w.prog (w.ctl.modify w.tid (completeF .unit)) w.spawned w.exec.objs w.notifyWaiting
        (d.ret b .unit) :=
      (hR.o.modifyPlain w.tid (completeF .unit) rfl (Nat.le_succ _) id
        ((pendN_stage0 _ _ rfl).trans hN.symm) hC (pendCv_stage0 _ _ rfl)
        (by intro q hq; rw [show w.ctl.getD w.tid {} = w.ctlOf w.tid from rfl, hD] at hq; cases hq)).ths _
        (CvSame.trans (CvSame.modify s.ths b (fun h => { h with token := false }) fun _ => ⟨rfl, rfl⟩)
          (CvSame.modify _ b (fun h => { h with rets := (h.pc, Ret.unit) :: h.rets, pc := h.pc + 1 })
            fun _ => ⟨rfl, rfl⟩))
    have hR' := R2c_complete'' (s := s) (d := d) (w0 := w) hR hact hop rfl rfl rfl rfl rfl
      (hR.x.modRef hact _ (fun _ => ⟨rfl, rfl, rfl, rfl⟩)) .unit hRO
    refine ⟨rfl, hR'.2, .inr ⟨some ((s.th b).pc, .unit), d.ret b .unit, .inl ⟨?_, ?_⟩, hR'.1, ?_⟩⟩
    · unfold SCData2.enabled
      rw [hof, hop, e1, e2, c1, c2]
      exact htok hs'
    · unfold SCData2.stepL
      simp only [c2, hof, hop]
      simp [d, b]
    · rw [events_complete2, hrel.2.1]
      rfl

theorem sim_unpark (hR : R2c w s) (hact : w.tid < w.ctl.length) {u : Nat}
    (hop : opAt2 w = some (.unpark u))
    (h : w.runOp (w.ctlOf w.tid) (.unpark u) = .ok w') : Sim2c w s w' := by
  obtain ⟨_, hrel, hof⟩ := base2 hR hact
  obtain ⟨hN, hC, hD⟩ := plain_pend (c := w.ctlOf w.tid) hop rfl
  obtain ⟨c1, c2⟩ := cv_none hR hact hC
  have hen := enabled_plain2 hR hact hop hC (by simp) (by simp) (by simp) (by simp) (by simp)
  rw [runOp_unpark] at h
  obtain ⟨t, hto, h⟩ := bind_ok h
  simp only [pure, Except.pure] at h
  cases h
  obtain ⟨htl, htb⟩ := threadOf_ok hR hto
  have hev : ((w.setThs (w.ths.unpark t)).complete .unit).events.map triple =
      SCData.label (w.ctlOf w.tid).body (some ((s.th (w.ctlOf w.tid).body).pc, .unit)) ++ w.events.map triple := by
    rw [events_complete2]
    show ((w.ctlOf (w.ths.unpark t).activeId).body, (w.ctlOf (w.ths.unpark t).activeId).pc, Ret.unit) ::
      w.events.map triple = _
    rw [unpark_activeId]
    show ((w.ctlOf w.tid).body, (w.ctlOf w.tid).pc, Ret.unit) :: w.events.map triple = _
    rw [hrel.2.1]
    rfl
  have hROp : RO w.prog (w.ctl.modify w.tid (completeF .unit)) w.spawned w.exec.objs w.notifyWaiting s :=
    hR.o.modifyPlain w.tid (completeF .unit) rfl (Nat.le_succ _) id
      ((pendN_stage0 _ _ rfl).trans hN.symm) hC (pendCv_stage0 _ _ rfl)
      (by intro q hq; rw [show w.ctl.getD w.tid {} = w.ctlOf w.tid from rfl, hD] at hq; cases hq)
  cases hf : (s.th u).finished with
  | true =>
    have hR' := R2c_complete'' (s := s) (d := s) (w0 := w.setThs (w.ths.unpark t)) hR hact hop rfl
      (by show (w.ths.unpark t).activeId = _; rw [unpark_activeId]; rfl) rfl rfl
      (by show (w.ths.unpark t).threads.length = _; rw [unpark_length]; rfl) hR.x .unit
      (hROp.ths _ (CvSame.modify _ _ _ fun _ => ⟨rfl, rfl⟩))
    refine ⟨rfl, hR'.2, .inr ⟨_, _, .inl ⟨hen, ?_⟩, hR'.1, hev⟩⟩
    unfold SCData2.stepL
    simp only [c2, hof, hop]
    rw [hf]
    simp
  | false =>
    let d : SCData2 := s.modTh u fun h => { h with token := true }
    have hx : RX2 w.prog w.ctl d.ths := by
      have := hR.x.modRef htl (fun h => { h with token := true }) (fun _ => ⟨rfl, rfl, rfl, rfl⟩)
      rw [htb] at this
      exact this
    have hR' := R2c_complete'' (s := s) (d := d) (w0 := w.setThs (w.ths.unpark t)) hR hact hop rfl
      (by show (w.ths.unpark t).activeId = _; rw [unpark_activeId]; rfl) rfl rfl
      (by show (w.ths.unpark t).threads.length = _; rw [unpark_length]; rfl) hx .unit
      (hROp.ths _ (CvSame.trans (CvSame.modify s.ths u (fun h => { h with token := true }) fun _ => ⟨rfl, rfl⟩)
        (CvSame.modify _ (w.ctlOf w.tid).body
          (fun h => { h with rets := (h.pc, Ret.unit) :: h.rets, pc := h.pc + 1 }) fun _ => ⟨rfl, rfl⟩)))
    refine ⟨rfl, hR'.2, .inr ⟨_, _, .inl ⟨hen, ?_⟩, hR'.1, hev⟩⟩
    unfold SCData2.stepL
    simp only [c2, hof, hop]
    rw [hf]
    simp [d]

end

end Refine2
end LoomVerif

/-
Soundness of the vector clocks of the reference semantics, part 2: `SC.step` on the operations of the fragment, seen
through the view (`AStep`): `step_view`.  All the list plumbing of the development is in this file.
-/
import LoomVerif.Proofs.VCSoundDefs
namespace LoomVerif
namespace VCSound
open Refine Race Clocks

theorem th_modTh' (s : SC.St) (t u : Nat) (f : SC.Th → SC.Th) :
    (s.modTh t f).th u = if u = t ∧ t < s.ths.length then f (s.th u) else s.th u := by
  rw [th_modTh _ _ _ _ (.inr trivial)]
  by_cases e : u = t
  · subst e; simp
  · have : ¬ t = u := fun h => e h.symm
    simp [e, this]

theorem View.ext' {a b : View} (h1 : ∀ u, a.vc u = b.vc u) (h2 : ∀ u, a.started u = b.started u)
    (h3 : ∀ u, a.finished u = b.finished u) (h4 : ∀ u, a.pc u = b.pc u) (h5 : ∀ u, a.mrel u = b.mrel u)
    (h6 : ∀ u, a.cw u = b.cw u) (h7 : ∀ u, a.cr u = b.cr u) (h8 : a.verdict = b.verdict)
    (h9 : ∀ u, a.rwrel u = b.rwrel u) (h10 : ∀ u, a.nrel u = b.nrel u) (h11 : ∀ u, a.tok u = b.tok u)
    (h12 : ∀ u, a.crel u = b.crel u) (h13 : ∀ u, a.chq u = b.chq u) (h14 : ∀ u, a.rxd u = b.rxd u) : a = b := by
  cases a; cases b
  simp only [View.mk.injEq]
  exact ⟨funext h1, funext h2, funext h3, funext h4, funext h5, funext h6, funext h7, h8, funext h9, funext h10,
    funext h11, funext h12, funext h13, funext h14⟩

@[simp] theorem len_modTh (s : SC.St) (t : Nat) (f) : (s.modTh t f).ths.length = s.ths.length := by
  simp [SC.St.modTh]

theorem upd_same {α : Type} (f : Nat → α) (i : Nat) : upd f i (f i) = f := by
  funext j; unfold upd; split
  · next h => rw [h]
  · rfl

theorem upd_upd {α : Type} (f : Nat → α) (i : Nat) (a b : α) : upd (upd f i a) i b = upd f i b := by
  funext j; unfold upd; split <;> rfl

theorem proj_modTh {α : Type} (g : SC.Th → α) (s : SC.St) (t u : Nat) (f : SC.Th → SC.Th) (ht : t < s.ths.length) :
    g ((s.modTh t f).th u) = upd (fun x => g (s.th x)) t (g (f (s.th t))) u := by
  rw [th_modTh']; unfold upd; split
  · next h => rw [if_pos h.1, h.1]
  · next h => rw [if_neg (fun e => h ⟨e, ht⟩)]

/-- a change of one thread, on the view -/
theorem view_modTh (s : SC.St) (t : Nat) (f : SC.Th → SC.Th) (ht : t < s.ths.length) :
    view (s.modTh t f) =
      { view s with vc := upd (view s).vc t (f (s.th t)).vc
                    started := upd (view s).started t (f (s.th t)).started
                    finished := upd (view s).finished t (f (s.th t)).finished
                    pc := upd (view s).pc t (f (s.th t)).pc
                    tok := upd (view s).tok t (f (s.th t)).tokenVC } := by
  apply View.ext' <;> try intro u
  · exact proj_modTh (·.vc) s t u f ht
  · exact proj_modTh (·.started) s t u f ht
  · exact proj_modTh (·.finished) s t u f ht
  · exact proj_modTh (·.pc) s t u f ht
  case h11 => exact proj_modTh (·.tokenVC) s t u f ht
  all_goals rfl

/-- a change of one thread that keeps what the view shows -/
theorem view_modTh_keep (s : SC.St) (t : Nat) (f : SC.Th → SC.Th) (ht : t < s.ths.length)
    (h1 : (f (s.th t)).vc = (s.th t).vc) (h2 : (f (s.th t)).started = (s.th t).started)
    (h3 : (f (s.th t)).finished = (s.th t).finished) (h4 : (f (s.th t)).pc = (s.th t).pc)
    (h5 : (f (s.th t)).tokenVC = (s.th t).tokenVC) : view (s.modTh t f) = view s := by
  rw [view_modTh _ _ _ ht, h1, h2, h3, h4, h5]
  show View.mk _ _ _ _ _ _ _ _ _ _ _ _ _ _ = View.mk _ _ _ _ _ _ _ _ _ _ _ _ _ _
  rw [View.mk.injEq]
  exact ⟨upd_same (view s).vc t, upd_same (view s).started t, upd_same (view s).finished t, upd_same (view s).pc t,
    rfl, rfl, rfl, rfl, rfl, rfl, upd_same (view s).tok t, rfl, rfl, rfl⟩

theorem view_tick (s : SC.St) (t : Nat) (ht : t < s.ths.length) :
    view (s.tick t) = { view s with vc := upd (view s).vc t ((view s).tk t) } := by
  unfold SC.St.tick
  rw [view_modTh _ _ _ ht]
  show View.mk _ _ _ _ _ _ _ _ _ _ _ _ _ _ = View.mk _ _ _ _ _ _ _ _ _ _ _ _ _ _
  rw [View.mk.injEq]
  exact ⟨rfl, upd_same (view s).started t, upd_same (view s).finished t, upd_same (view s).pc t, rfl, rfl, rfl, rfl,
    rfl, rfl, upd_same (view s).tok t, rfl, rfl, rfl⟩

theorem view_acquire (s : SC.St) (t : Nat) (Z : VV) (ht : t < s.ths.length) :
    view (s.acquire t Z) = { view s with vc := upd (view s).vc t (((view s).vc t).join Z) } := by
  unfold SC.St.acquire
  rw [view_modTh _ _ _ ht]
  show View.mk _ _ _ _ _ _ _ _ _ _ _ _ _ _ = View.mk _ _ _ _ _ _ _ _ _ _ _ _ _ _
  rw [View.mk.injEq]
  exact ⟨rfl, upd_same (view s).started t, upd_same (view s).finished t, upd_same (view s).pc t, rfl, rfl, rfl, rfl,
    rfl, rfl, upd_same (view s).tok t, rfl, rfl, rfl⟩

theorem view_ret (s : SC.St) (t : Nat) (r : Ret) (ht : t < s.ths.length) :
    view (s.ret t r) = { view s with pc := upd (view s).pc t ((view s).pc t + 1) } := by
  unfold SC.St.ret
  rw [view_modTh _ _ _ ht]
  show View.mk _ _ _ _ _ _ _ _ _ _ _ _ _ _ = View.mk _ _ _ _ _ _ _ _ _ _ _ _ _ _
  rw [View.mk.injEq]
  exact ⟨upd_same (view s).vc t, upd_same (view s).started t, upd_same (view s).finished t, rfl, rfl, rfl, rfl, rfl,
    rfl, rfl, upd_same (view s).tok t, rfl, rfl, rfl⟩

theorem view_spawn (X : SC.St) (b : Nat) (Z : VV) (hb : b < X.ths.length) :
    view (X.modTh b fun h => { h with started := true, vc := (h.vc.join Z).inc b }) =
      { view X with vc := upd (view X).vc b ((((view X).vc b).join Z).inc b),
                    started := upd (view X).started b true } := by
  rw [view_modTh _ _ _ hb]
  show View.mk _ _ _ _ _ _ _ _ _ _ _ _ _ _ = View.mk _ _ _ _ _ _ _ _ _ _ _ _ _ _
  rw [View.mk.injEq]
  exact ⟨rfl, rfl, upd_same (view X).finished b, upd_same (view X).pc b, rfl, rfl, rfl, rfl, rfl, rfl,
    upd_same (view X).tok b, rfl, rfl, rfl⟩

theorem view_unpark (X : SC.St) (u : Nat) (Z : VV) (hu : u < X.ths.length) :
    view (X.modTh u fun h => { h with token := true, tokenVC := h.tokenVC.join Z }) =
      { view X with tok := upd (view X).tok u (((view X).tok u).join Z) } := by
  rw [view_modTh _ _ _ hu]
  show View.mk _ _ _ _ _ _ _ _ _ _ _ _ _ _ = View.mk _ _ _ _ _ _ _ _ _ _ _ _ _ _
  rw [View.mk.injEq]
  exact ⟨upd_same (view X).vc u, upd_same (view X).started u, upd_same (view X).finished u, upd_same (view X).pc u,
    rfl, rfl, rfl, rfl, rfl, rfl, rfl, rfl, rfl, rfl⟩

theorem view_setPc (s : SC.St) (t : Nat) (k : Nat → Nat) (ht : t < s.ths.length) :
    view (s.modTh t fun h => { h with pc := k h.pc }) = { view s with pc := upd (view s).pc t (k ((view s).pc t)) } := by
  rw [view_modTh _ _ _ ht]
  show View.mk _ _ _ _ _ _ _ _ _ _ _ _ _ _ = View.mk _ _ _ _ _ _ _ _ _ _ _ _ _ _
  rw [View.mk.injEq]
  exact ⟨upd_same (view s).vc t, upd_same (view s).started t, upd_same (view s).finished t, rfl, rfl, rfl, rfl, rfl,
    rfl, rfl, upd_same (view s).tok t, rfl, rfl, rfl⟩

theorem view_stop (s : SC.St) (k : SC.Verdict) : view (s.stop k) = { view s with verdict := some k } := rfl

/-- `Y` differs from `X` in nothing the view or the shape reads, except possibly the clock lists (given separately) -/
structure SameTh (X Y : SC.St) : Prop where
  ths : Y.ths = X.ths
  verdict : Y.verdict = X.verdict
  opnW : Y.cellWOpen = X.cellWOpen
  opnR : Y.cellOpen = X.cellOpen

/-- the same channels -/
structure SameCh (X Y : SC.St) : Prop where
  chanRel : Y.chanRel = X.chanRel
  chan : Y.chan = X.chan
  rxDropped : Y.rxDropped = X.rxDropped

/-- the view of a state in terms of another one with the same threads -/
theorem view_lists {X Y : SC.St} (h : SameTh X Y) :
    view Y = { view X with mrel := fun m => Y.mutexRel.getD m VV.zero, cw := fun c => Y.cellW.getD c VV.zero,
                           cr := fun c => Y.cellR.getD c VV.zero, rwrel := fun l => Y.rwRel.getD l VV.zero,
                           nrel := fun n => Y.nRel.getD n VV.zero, crel := fun q => Y.chanRel.getD q VV.zero,
                           chq := fun q => (Y.chan.getD q []).map (·.2),
                           rxd := fun q => Y.rxDropped.getD q false } := by
  apply View.ext' <;> try intro u
  case h8 => exact h.verdict
  all_goals first | rfl | (simp only [view, SC.St.vc, SC.St.th, h.ths])

/-- all clock lists equal too -/
theorem view_same {X Y : SC.St} (h : SameTh X Y) (h1 : Y.mutexRel = X.mutexRel) (h2 : Y.cellW = X.cellW)
    (h3 : Y.cellR = X.cellR) (h4 : Y.rwRel = X.rwRel) (h5 : Y.nRel = X.nRel) (hc : SameCh X Y) : view Y = view X := by
  rw [view_lists h, h1, h2, h3, h4, h5, hc.chanRel, hc.chan, hc.rxDropped]; rfl

theorem funext_set {l : List VV} {i : Nat} (Z : VV) (hi : i < l.length) :
    (fun m => (l.set i Z).getD m VV.zero) = upd (fun m => l.getD m VV.zero) i Z := by
  funext m; exact getD_set_upd _ _ _ _ _ hi

theorem view_setMrel {X Y : SC.St} (h : SameTh X Y) (m : Nat) (Z : VV) (hm : m < X.mutexRel.length)
    (h1 : Y.mutexRel = X.mutexRel.set m Z) (h2 : Y.cellW = X.cellW) (h3 : Y.cellR = X.cellR)
    (h4 : Y.rwRel = X.rwRel) (h5 : Y.nRel = X.nRel) (hc : SameCh X Y) :
    view Y = { view X with mrel := upd (view X).mrel m Z } := by
  rw [view_lists h, h1, h2, h3, h4, h5, hc.chanRel, hc.chan, hc.rxDropped, funext_set Z hm]; rfl

theorem view_setCw {X Y : SC.St} (h : SameTh X Y) (c : Nat) (Z : VV) (hc' : c < X.cellW.length)
    (h1 : Y.mutexRel = X.mutexRel) (h2 : Y.cellW = X.cellW.set c Z) (h3 : Y.cellR = X.cellR)
    (h4 : Y.rwRel = X.rwRel) (h5 : Y.nRel = X.nRel) (hc : SameCh X Y) :
    view Y = { view X with cw := upd (view X).cw c Z } := by
  rw [view_lists h, h1, h2, h3, h4, h5, hc.chanRel, hc.chan, hc.rxDropped, funext_set Z hc']; rfl

theorem view_setCr {X Y : SC.St} (h : SameTh X Y) (c : Nat) (Z : VV) (hc' : c < X.cellR.length)
    (h1 : Y.mutexRel = X.mutexRel) (h2 : Y.cellW = X.cellW) (h3 : Y.cellR = X.cellR.set c Z)
    (h4 : Y.rwRel = X.rwRel) (h5 : Y.nRel = X.nRel) (hc : SameCh X Y) :
    view Y = { view X with cr := upd (view X).cr c Z } := by
  rw [view_lists h, h1, h2, h3, h4, h5, hc.chanRel, hc.chan, hc.rxDropped, funext_set Z hc']; rfl

theorem view_setRw {X Y : SC.St} (h : SameTh X Y) (l : Nat) (Z : VV) (hl : l < X.rwRel.length)
    (h1 : Y.mutexRel = X.mutexRel) (h2 : Y.cellW = X.cellW) (h3 : Y.cellR = X.cellR)
    (h4 : Y.rwRel = X.rwRel.set l Z) (h5 : Y.nRel = X.nRel) (hc : SameCh X Y) :
    view Y = { view X with rwrel := upd (view X).rwrel l Z } := by
  rw [view_lists h, h1, h2, h3, h4, h5, hc.chanRel, hc.chan, hc.rxDropped, funext_set Z hl]; rfl

theorem view_setN {X Y : SC.St} (h : SameTh X Y) (n : Nat) (Z : VV) (hn : n < X.nRel.length)
    (h1 : Y.mutexRel = X.mutexRel) (h2 : Y.cellW = X.cellW) (h3 : Y.cellR = X.cellR)
    (h4 : Y.rwRel = X.rwRel) (h5 : Y.nRel = X.nRel.set n Z) (hc : SameCh X Y) :
    view Y = { view X with nrel := upd (view X).nrel n Z } := by
  rw [view_lists h, h1, h2, h3, h4, h5, hc.chanRel, hc.chan, hc.rxDropped, funext_set Z hn]; rfl

theorem funext_setQ {l : List (List (Int × VV))} {i : Nat} (Z : List (Int × VV)) (hi : i < l.length) :
    (fun q => ((l.set i Z).getD q []).map (·.2)) = upd (fun q => (l.getD q []).map (·.2)) i (Z.map (·.2)) := by
  funext q
  rw [getD_set_upd _ _ _ _ _ hi]
  unfold upd; split <;> rfl

theorem funext_setB {l : List Bool} {i : Nat} (Z : Bool) (hi : i < l.length) :
    (fun q => (l.set i Z).getD q false) = upd (fun q => l.getD q false) i Z := by
  funext q; exact getD_set_upd _ _ _ _ _ hi

/-- a change of the channel lists only -/
theorem view_chan {X Y : SC.St} (h : SameTh X Y) (h1 : Y.mutexRel = X.mutexRel) (h2 : Y.cellW = X.cellW)
    (h3 : Y.cellR = X.cellR) (h4 : Y.rwRel = X.rwRel) (h5 : Y.nRel = X.nRel) :
    view Y = { view X with crel := fun q => Y.chanRel.getD q VV.zero, chq := fun q => (Y.chan.getD q []).map (·.2),
                           rxd := fun q => Y.rxDropped.getD q false } := by
  rw [view_lists h, h1, h2, h3, h4, h5]; rfl

theorem enabled_facts {p : Prog} {s : SC.St} {t : Nat} (h : SC.enabled p s t = true) :
    s.verdict = none ∧ (s.th t).started = true ∧ (s.th t).finished = false ∧ t < s.ths.length := by
  unfold SC.enabled at h
  simp only [Bool.and_eq_true, Option.isNone_iff_eq_none, Bool.not_eq_true'] at h
  refine ⟨h.1.1.1, h.1.1.2, h.1.2, ?_⟩
  apply Classical.byContradiction
  intro hn
  have : s.th t = {} := by
    unfold SC.St.th
    simp [List.getD, List.getElem?_eq_none (Nat.le_of_not_lt hn)]
  have h2 := h.1.1.2
  rw [this] at h2
  cases h2

theorem enabled_join {p : Prog} {s : SC.St} {t b : Nat} (h : SC.enabled p s t = true)
    (hf : FragTh (s.th t)) (ho : SC.opOf p s t = some (.join b)) : (s.th b).finished = true := by
  unfold SC.enabled at h
  simp only [hf.1, hf.2.1, ho, Bool.and_eq_true] at h
  exact h.2

theorem res_ret {s X : SC.St} {t : Nat} (r : Ret) (hX : (X.th t).pc = (s.th t).pc) (ht : t < X.ths.length) :
    Step.res ⟨t, s, X.ret t r⟩ = some r := by
  unfold Step.res SC.St.ret
  simp only
  rw [th_modTh', if_pos ⟨rfl, ht⟩]
  simp only [hX, List.lookup_cons_self]

theorem Shape.same {p : Prog} {s : SC.St} (h : Shape p s) (s' : SC.St) (h1 : s'.ths.length = s.ths.length)
    (h2 : s'.mutexRel.length = s.mutexRel.length) (h3 : s'.cellW.length = s.cellW.length)
    (h4 : s'.cellR.length = s.cellR.length) (h5 : s'.cellWOpen = s.cellWOpen) (h6 : s'.cellOpen = s.cellOpen)
    (h7 : ∀ t, FragTh (s'.th t)) (h8 : s'.rwRel.length = s.rwRel.length) (h9 : s'.nRel.length = s.nRel.length)
    (h10 : s'.chan.length = s.chan.length) (h11 : s'.chanRel.length = s.chanRel.length)
    (h12 : s'.rxDropped.length = s.rxDropped.length) :
    Shape p s' :=
  ⟨h1.trans h.lenT, h2.trans h.lenM, h3.trans h.lenW, h4.trans h.lenR, h8.trans h.lenL, h9.trans h.lenN,
   h10.trans h.lenQ, h11.trans h.lenQR, h12.trans h.lenQD,
   fun c => by rw [h5]; exact h.opnW c, fun c => by rw [h6]; exact h.opnR c, h7⟩

/-- same threads, clock lists of the same lengths -/
theorem Shape.sameTh {p : Prog} {X Y : SC.St} (h : Shape p X) (hs : SameTh X Y)
    (h2 : Y.mutexRel.length = X.mutexRel.length) (h3 : Y.cellW.length = X.cellW.length)
    (h4 : Y.cellR.length = X.cellR.length) (h8 : Y.rwRel.length = X.rwRel.length)
    (h9 : Y.nRel.length = X.nRel.length) (h10 : Y.chan.length = X.chan.length)
    (h11 : Y.chanRel.length = X.chanRel.length) (h12 : Y.rxDropped.length = X.rxDropped.length) : Shape p Y :=
  h.same _ (by rw [hs.ths]) h2 h3 h4 hs.opnW hs.opnR (fun t => by
    have : Y.th t = X.th t := by unfold SC.St.th; rw [hs.ths]
    rw [this]; exact h.frag t) h8 h9 h10 h11 h12

theorem Shape.modTh {p : Prog} {s : SC.St} (h : Shape p s) (t : Nat) (f : SC.Th → SC.Th)
    (hf : ∀ a, FragTh a → FragTh (f a)) : Shape p (s.modTh t f) :=
  h.same _ (len_modTh _ _ _) rfl rfl rfl rfl rfl (fragTh_modTh h.frag hf) rfl rfl rfl rfl rfl

theorem Shape.tick {p : Prog} {s : SC.St} (h : Shape p s) (t : Nat) : Shape p (s.tick t) :=
  h.modTh _ _ fun _ ha => fragTh_keep ha rfl rfl rfl rfl
theorem Shape.acquire {p : Prog} {s : SC.St} (h : Shape p s) (t : Nat) (Z : VV) : Shape p (s.acquire t Z) :=
  h.modTh _ _ fun _ ha => fragTh_keep ha rfl rfl rfl rfl
theorem Shape.ret {p : Prog} {s : SC.St} (h : Shape p s) (t : Nat) (r : Ret) : Shape p (s.ret t r) :=
  h.modTh _ _ fun _ ha => fragTh_keep ha rfl rfl rfl rfl

theorem getD_replicate {α : Type} (n c : Nat) (d : α) : (List.replicate n d).getD c d = d := by
  simp only [List.getD]
  by_cases h : c < n
  · simp [h]
  · simp [List.getElem?_eq_none (l := List.replicate n d) (by simpa using h)]

theorem shape_init (p : Prog) : Shape p (SC.init p) := by
  refine ⟨?_, ?_, ?_, ?_, ?_, ?_, ?_, ?_, ?_, ?_, ?_, (fragSt_init p).2⟩
  case refine_10 => intro c; exact getD_replicate _ _ _
  case refine_11 => intro c; exact getD_replicate _ _ _
  all_goals simp [SC.init]

theorem pc_tick (s : SC.St) (t u : Nat) : ((s.tick t).th u).pc = (s.th u).pc := by
  unfold SC.St.tick; rw [th_modTh']; split <;> rfl
theorem pc_acquire (s : SC.St) (t u : Nat) (Z : VV) : ((s.acquire t Z).th u).pc = (s.th u).pc := by
  unfold SC.St.acquire; rw [th_modTh']; split <;> rfl
theorem len_tick (s : SC.St) (t : Nat) : (s.tick t).ths.length = s.ths.length := len_modTh _ _ _
theorem len_acquire (s : SC.St) (t : Nat) (Z : VV) : (s.acquire t Z).ths.length = s.ths.length := len_modTh _ _ _

theorem vc_tick_self (s : SC.St) (t : Nat) (ht : t < s.ths.length) : (s.tick t).vc t = (view s).tk t := by
  rw [vc_tick _ _ _ ht, upd_self]; rfl

theorem vc_tick_ne (s : SC.St) {t b : Nat} (h : b ≠ t) : (s.tick t).vc b = s.vc b := by
  unfold SC.St.tick; rw [vc_modTh, if_neg (fun e => h e.1.symm)]

/-! ### `SC.step` on the operations outside the lock fragment, spelled out (the lock fragment: `Proofs/RaceRef.lean`) -/

section
variable {p : Prog} {s : SC.St} {t : Nat}

theorem step_read {l : Nat} (hcv : (s.th t).cvNotified = none) (ho : SC.opOf p s t = some (.read l)) :
    SC.step p s t =
      [(({ s.tick t with rwReaders := s.rwReaders.set l (t :: s.rwReaders.getD l []) } : SC.St).acquire t
        (s.rwRel.getD l VV.zero)).ret t .unit] := by
  unfold SC.step; simp only [hcv, ho]; rfl

theorem step_tryRead {l : Nat} (hcv : (s.th t).cvNotified = none) (ho : SC.opOf p s t = some (.tryRead l)) :
    SC.step p s t =
      if (s.rwWriter.getD l none).isNone then
        [(({ s.tick t with rwReaders := s.rwReaders.set l (t :: s.rwReaders.getD l []) } : SC.St).acquire t
          (s.rwRel.getD l VV.zero)).ret t (SC.bool01 true)]
      else [(s.tick t).ret t (SC.bool01 false)] := by
  unfold SC.step; simp only [hcv, ho]; rfl

theorem step_write {l : Nat} (hcv : (s.th t).cvNotified = none) (ho : SC.opOf p s t = some (.write l)) :
    SC.step p s t =
      [(({ s.tick t with rwWriter := s.rwWriter.set l (some t) } : SC.St).acquire t
        (s.rwRel.getD l VV.zero)).ret t .unit] := by
  unfold SC.step; simp only [hcv, ho]; rfl

theorem step_tryWrite {l : Nat} (hcv : (s.th t).cvNotified = none) (ho : SC.opOf p s t = some (.tryWrite l)) :
    SC.step p s t =
      if (s.rwWriter.getD l none).isNone && (s.rwReaders.getD l []).isEmpty then
        [(({ s.tick t with rwWriter := s.rwWriter.set l (some t) } : SC.St).acquire t
          (s.rwRel.getD l VV.zero)).ret t (SC.bool01 true)]
      else [(s.tick t).ret t (SC.bool01 false)] := by
  unfold SC.step; simp only [hcv, ho]; rfl

theorem step_unread {l : Nat} (hcv : (s.th t).cvNotified = none) (ho : SC.opOf p s t = some (.unread l)) :
    SC.step p s t =
      [({ s.tick t with rwReaders := s.rwReaders.set l ((s.rwReaders.getD l []).erase t),
                        rwRel := s.rwRel.set l ((s.rwRel.getD l VV.zero).join ((s.tick t).vc t)) }).ret t .unit] := by
  unfold SC.step; simp only [hcv, ho]; rfl

theorem step_unwrite {l : Nat} (hcv : (s.th t).cvNotified = none) (ho : SC.opOf p s t = some (.unwrite l)) :
    SC.step p s t =
      [({ s.tick t with rwWriter := s.rwWriter.set l none,
                        rwRel := s.rwRel.set l ((s.rwRel.getD l VV.zero).join ((s.tick t).vc t)) }).ret t .unit] := by
  unfold SC.step; simp only [hcv, ho]; rfl

theorem step_nWait {n : Nat} (hcv : (s.th t).cvNotified = none) (ho : SC.opOf p s t = some (.nWait n)) :
    SC.step p s t =
      [(({ s.tick t with nFlag := s.nFlag.set n false } : SC.St).acquire t (s.nRel.getD n VV.zero)).ret t .unit] := by
  unfold SC.step; simp only [hcv, ho]; rfl

theorem step_nNotify {n : Nat} (hcv : (s.th t).cvNotified = none) (ho : SC.opOf p s t = some (.nNotify n)) :
    SC.step p s t =
      [({ s.tick t with nFlag := s.nFlag.set n true,
                        nRel := s.nRel.set n ((s.nRel.getD n VV.zero).join ((s.tick t).vc t)) }).ret t .unit] := by
  unfold SC.step; simp only [hcv, ho]; rfl

theorem step_park (hcv : (s.th t).cvNotified = none) (ho : SC.opOf p s t = some .park) :
    SC.step p s t =
      [(((s.tick t).acquire t (s.th t).tokenVC).modTh t fun h => { h with token := false }).ret t .unit] := by
  unfold SC.step; simp only [hcv, ho]

theorem step_unpark {u : Nat} (hcv : (s.th t).cvNotified = none) (ho : SC.opOf p s t = some (.unpark u)) :
    SC.step p s t =
      if ((s.tick t).th u).finished then [(s.tick t).ret t .unit] else
      [((s.tick t).modTh u fun h => { h with token := true, tokenVC := h.tokenVC.join ((s.tick t).vc t) }).ret t
        .unit] := by
  unfold SC.step; simp only [hcv, ho]

theorem step_send {q : Nat} {x : Int} (hcv : (s.th t).cvNotified = none) (ho : SC.opOf p s t = some (.send q x)) :
    SC.step p s t =
      if s.rxDropped.getD q false then
        [({ s.tick t with chanLeft := s.chanLeft.set q (s.chanLeft.getD q 0 + 1) }).ret t .unit]
      else
        [({ s.tick t with
            chan := s.chan.set q (s.chan.getD q [] ++ [(x, (s.chanRel.getD q VV.zero).join ((s.tick t).vc t))]),
            chanRel := s.chanRel.set q ((s.chanRel.getD q VV.zero).join ((s.tick t).vc t)) }).ret t .unit] := by
  unfold SC.step; simp only [hcv, ho]; rfl

theorem step_recv {q : Nat} {x : Int} {c : VV} {rest : List (Int × VV)} (hcv : (s.th t).cvNotified = none)
    (ho : SC.opOf p s t = some (.recv q)) (hq : s.chan.getD q [] = (x, c) :: rest) :
    SC.step p s t = [(({ s.tick t with chan := s.chan.set q rest } : SC.St).acquire t c).ret t (.val x)] := by
  unfold SC.step; simp only [hcv, ho]
  show (match (s.chan.getD q []) with
    | (v, c) :: rest => [(({ s.tick t with chan := s.chan.set q rest } : SC.St).acquire t c).ret t (.val v)]
    | [] => [(s.tick t).stop (.misuse 3)]) = _
  rw [hq]

theorem step_tryRecv {q : Nat} {x : Int} {c : VV} {rest : List (Int × VV)} (hcv : (s.th t).cvNotified = none)
    (ho : SC.opOf p s t = some (.tryRecv q)) (hq : s.chan.getD q [] = (x, c) :: rest) :
    SC.step p s t = [(({ s.tick t with chan := s.chan.set q rest } : SC.St).acquire t c).ret t (.val x)] := by
  unfold SC.step; simp only [hcv, ho]
  show (match (s.chan.getD q []) with
    | (v, c) :: rest => [(({ s.tick t with chan := s.chan.set q rest } : SC.St).acquire t c).ret t (.val v)]
    | [] => [(s.tick t).ret t .empty]) = _
  rw [hq]

theorem step_tryRecv_empty {q : Nat} (hcv : (s.th t).cvNotified = none)
    (ho : SC.opOf p s t = some (.tryRecv q)) (hq : s.chan.getD q [] = []) :
    SC.step p s t = [(s.tick t).ret t .empty] := by
  unfold SC.step; simp only [hcv, ho]
  show (match (s.chan.getD q []) with
    | (v, c) :: rest => [(({ s.tick t with chan := s.chan.set q rest } : SC.St).acquire t c).ret t (.val v)]
    | [] => [(s.tick t).ret t .empty]) = _
  rw [hq]

/-- the state after `droprx` has acquired the clocks of the messages `l` -/
def dropFold (t : Nat) (l : List (Int × VV)) (X : SC.St) : SC.St := l.foldl (fun s m => s.acquire t m.2) X

theorem step_dropRx {q : Nat} (hcv : (s.th t).cvNotified = none) (ho : SC.opOf p s t = some (.dropRx q)) :
    SC.step p s t =
      [({ dropFold t (s.chan.getD q []) (s.tick t) with
          chan := (dropFold t (s.chan.getD q []) (s.tick t)).chan.set q [],
          rxDropped := (dropFold t (s.chan.getD q []) (s.tick t)).rxDropped.set q true }).ret t .unit] := by
  unfold SC.step; simp only [hcv, ho]; rfl

theorem enabled_recv {q : Nat} (hen : SC.enabled p s t = true) (hf : FragTh (s.th t))
    (ho : SC.opOf p s t = some (.recv q)) : s.chan.getD q [] ≠ [] := by
  unfold SC.enabled at hen
  simp only [hf.1, hf.2.1, ho, Bool.and_eq_true] at hen
  intro h
  rw [h] at hen
  simp at hen

end

/-! ### the common shapes of a step -/

section
variable {p : Prog} {s : SC.St} {t : Nat}

theorem modTh_ge (X : SC.St) (u : Nat) (f : SC.Th → SC.Th) (h : X.ths.length ≤ u) : X.modTh u f = X := by
  unfold SC.St.modTh
  rw [List.modify_eq_self h]

theorem sameTh_refl (X : SC.St) : SameTh X X := ⟨rfl, rfl, rfl, rfl⟩

/-- tick, (a change the view does not see), return -/
theorem case_tick {s' Y : SC.St} {r : Ret} (hs : Shape p s) (ht : t < s.ths.length) (h : s' = Y.ret t r)
    (hY : SameTh (s.tick t) Y)
    (h1 : Y.mutexRel = (s.tick t).mutexRel) (h2 : Y.cellW = (s.tick t).cellW) (h3 : Y.cellR = (s.tick t).cellR)
    (h4 : Y.rwRel = (s.tick t).rwRel) (h5 : Y.nRel = (s.tick t).nRel) (hc : SameCh (s.tick t) Y) :
    Shape p s' ∧
      view s' =
        { view s with vc := upd (view s).vc t ((view s).tk t), pc := upd (view s).pc t ((view s).pc t + 1) } ∧
      Step.res ⟨t, s, s'⟩ = some r := by
  subst h
  have hl : t < Y.ths.length := by rw [hY.ths, len_tick]; exact ht
  have hth : Y.th t = (s.tick t).th t := by unfold SC.St.th; rw [hY.ths]
  refine ⟨((hs.tick t).sameTh hY (by rw [h1]) (by rw [h2]) (by rw [h3]) (by rw [h4]) (by rw [h5]) (by rw [hc.chan]) (by rw [hc.chanRel]) (by rw [hc.rxDropped])).ret _ _, ?_,
    res_ret _ (by rw [hth]; exact pc_tick s t t) hl⟩
  rw [view_ret _ _ _ hl, view_same hY h1 h2 h3 h4 h5 hc, view_tick _ _ ht]

/-- tick, (a change the view does not see), acquire `Z`, return -/
theorem case_acq {s' Y : SC.St} {Z : VV} {r : Ret} (hs : Shape p s) (ht : t < s.ths.length)
    (h : s' = (Y.acquire t Z).ret t r) (hY : SameTh (s.tick t) Y)
    (h1 : Y.mutexRel = (s.tick t).mutexRel) (h2 : Y.cellW = (s.tick t).cellW) (h3 : Y.cellR = (s.tick t).cellR)
    (h4 : Y.rwRel = (s.tick t).rwRel) (h5 : Y.nRel = (s.tick t).nRel) (hc : SameCh (s.tick t) Y) :
    Shape p s' ∧
      view s' =
        { view s with vc := upd (view s).vc t (((view s).tk t).join Z),
                      pc := upd (view s).pc t ((view s).pc t + 1) } ∧
      Step.res ⟨t, s, s'⟩ = some r := by
  subst h
  have hl : t < Y.ths.length := by rw [hY.ths, len_tick]; exact ht
  have hth : Y.th t = (s.tick t).th t := by unfold SC.St.th; rw [hY.ths]
  refine ⟨(((hs.tick t).sameTh hY (by rw [h1]) (by rw [h2]) (by rw [h3]) (by rw [h4]) (by rw [h5]) (by rw [hc.chan]) (by rw [hc.chanRel]) (by rw [hc.rxDropped])).acquire _ _).ret _ _,
    ?_, res_ret _ (by rw [pc_acquire, hth]; exact pc_tick s t t) (by rw [len_acquire]; exact hl)⟩
  rw [view_ret _ _ _ (by rw [len_acquire]; exact hl), view_acquire _ _ _ hl, view_same hY h1 h2 h3 h4 h5 hc,
    view_tick _ _ ht]
  simp only [upd_upd, upd_self]

/-- tick, release into a mutex clock, return -/
theorem case_relM {s' Y : SC.St} {r : Ret} {m : Nat} (hs : Shape p s) (ht : t < s.ths.length) (h : s' = Y.ret t r)
    (hm : m < p.cfg.nMutexes) (hY : SameTh (s.tick t) Y)
    (h1 : Y.mutexRel = (s.tick t).mutexRel.set m ((s.mutexRel.getD m VV.zero).join ((s.tick t).vc t)))
    (h2 : Y.cellW = (s.tick t).cellW) (h3 : Y.cellR = (s.tick t).cellR)
    (h4 : Y.rwRel = (s.tick t).rwRel) (h5 : Y.nRel = (s.tick t).nRel) (hc : SameCh (s.tick t) Y) :
    Shape p s' ∧
      view s' = (({ view s with vc := upd (view s).vc t ((view s).tk t),
                                pc := upd (view s).pc t ((view s).pc t + 1) } : View).setRel (.mutex m)
                  (((view s).orel (.mutex m)).join ((view s).tk t))) := by
  subst h
  have hl : t < Y.ths.length := by rw [hY.ths, len_tick]; exact ht
  refine ⟨((hs.tick t).sameTh hY (by rw [h1, List.length_set]) (by rw [h2]) (by rw [h3]) (by rw [h4]) (by rw [h5]) (by rw [hc.chan]) (by rw [hc.chanRel]) (by rw [hc.rxDropped])).ret
    _ _, ?_⟩
  rw [view_ret _ _ _ hl, view_setMrel hY m _ (by rw [show (s.tick t).mutexRel = s.mutexRel from rfl, hs.lenM]; exact hm)
    h1 h2 h3 h4 h5 hc, view_tick _ _ ht, vc_tick_self _ _ ht]
  rfl

/-- tick, release into a rwlock clock, return -/
theorem case_relL {s' Y : SC.St} {r : Ret} {l : Nat} (hs : Shape p s) (ht : t < s.ths.length) (h : s' = Y.ret t r)
    (hm : l < p.cfg.nRwlocks) (hY : SameTh (s.tick t) Y)
    (h1 : Y.mutexRel = (s.tick t).mutexRel) (h2 : Y.cellW = (s.tick t).cellW) (h3 : Y.cellR = (s.tick t).cellR)
    (h4 : Y.rwRel = (s.tick t).rwRel.set l ((s.rwRel.getD l VV.zero).join ((s.tick t).vc t)))
    (h5 : Y.nRel = (s.tick t).nRel) (hc : SameCh (s.tick t) Y) :
    Shape p s' ∧
      view s' = (({ view s with vc := upd (view s).vc t ((view s).tk t),
                                pc := upd (view s).pc t ((view s).pc t + 1) } : View).setRel (.rw l)
                  (((view s).orel (.rw l)).join ((view s).tk t))) := by
  subst h
  have hl : t < Y.ths.length := by rw [hY.ths, len_tick]; exact ht
  refine ⟨((hs.tick t).sameTh hY (by rw [h1]) (by rw [h2]) (by rw [h3]) (by rw [h4, List.length_set]) (by rw [h5]) (by rw [hc.chan]) (by rw [hc.chanRel]) (by rw [hc.rxDropped])).ret
    _ _, ?_⟩
  rw [view_ret _ _ _ hl, view_setRw hY l _ (by rw [show (s.tick t).rwRel = s.rwRel from rfl, hs.lenL]; exact hm)
    h1 h2 h3 h4 h5 hc, view_tick _ _ ht, vc_tick_self _ _ ht]
  rfl

/-- tick, release into a `Notify` clock, return -/
theorem case_relN {s' Y : SC.St} {r : Ret} {n : Nat} (hs : Shape p s) (ht : t < s.ths.length) (h : s' = Y.ret t r)
    (hm : n < p.cfg.nNotifies) (hY : SameTh (s.tick t) Y)
    (h1 : Y.mutexRel = (s.tick t).mutexRel) (h2 : Y.cellW = (s.tick t).cellW) (h3 : Y.cellR = (s.tick t).cellR)
    (h4 : Y.rwRel = (s.tick t).rwRel)
    (h5 : Y.nRel = (s.tick t).nRel.set n ((s.nRel.getD n VV.zero).join ((s.tick t).vc t)))
    (hc : SameCh (s.tick t) Y) :
    Shape p s' ∧
      view s' = (({ view s with vc := upd (view s).vc t ((view s).tk t),
                                pc := upd (view s).pc t ((view s).pc t + 1) } : View).setRel (.notify n)
                  (((view s).orel (.notify n)).join ((view s).tk t))) := by
  subst h
  have hl : t < Y.ths.length := by rw [hY.ths, len_tick]; exact ht
  refine ⟨((hs.tick t).sameTh hY (by rw [h1]) (by rw [h2]) (by rw [h3]) (by rw [h4]) (by rw [h5, List.length_set]) (by rw [hc.chan]) (by rw [hc.chanRel]) (by rw [hc.rxDropped])).ret
    _ _, ?_⟩
  rw [view_ret _ _ _ hl, view_setN hY n _ (by rw [show (s.tick t).nRel = s.nRel from rfl, hs.lenN]; exact hm)
    h1 h2 h3 h4 h5 hc, view_tick _ _ ht, vc_tick_self _ _ ht]
  rfl

/-- tick, record a read in the cell clock, return -/
theorem case_recR {s' Y : SC.St} {r : Ret} {c : Nat} (hs : Shape p s) (ht : t < s.ths.length) (h : s' = Y.ret t r)
    (hcl : c < p.cfg.nCells) (hY : SameTh (s.tick t) Y)
    (h1 : Y.mutexRel = (s.tick t).mutexRel) (h2 : Y.cellW = (s.tick t).cellW)
    (h3 : Y.cellR = (s.tick t).cellR.set c (((view s).cr c).join ((view s).tk t)))
    (h4 : Y.rwRel = (s.tick t).rwRel) (h5 : Y.nRel = (s.tick t).nRel) (hc : SameCh (s.tick t) Y) :
    Shape p s' ∧
      view s' = { view s with vc := upd (view s).vc t ((view s).tk t),
                              cr := upd (view s).cr c (((view s).cr c).join ((view s).tk t)),
                              pc := upd (view s).pc t ((view s).pc t + 1) } := by
  subst h
  have hl : t < Y.ths.length := by rw [hY.ths, len_tick]; exact ht
  refine ⟨((hs.tick t).sameTh hY (by rw [h1]) (by rw [h2]) (by rw [h3, List.length_set]) (by rw [h4]) (by rw [h5]) (by rw [hc.chan]) (by rw [hc.chanRel]) (by rw [hc.rxDropped])).ret
    _ _, ?_⟩
  rw [view_ret _ _ _ hl, view_setCr hY c _ (by rw [show (s.tick t).cellR = s.cellR from rfl, hs.lenR]; exact hcl)
    h1 h2 h3 h4 h5 hc, view_tick _ _ ht]

/-- tick, record a write in the cell clock, return -/
theorem case_recW {s' Y : SC.St} {r : Ret} {c : Nat} (hs : Shape p s) (ht : t < s.ths.length) (h : s' = Y.ret t r)
    (hcl : c < p.cfg.nCells) (hY : SameTh (s.tick t) Y)
    (h1 : Y.mutexRel = (s.tick t).mutexRel)
    (h2 : Y.cellW = (s.tick t).cellW.set c (((view s).cw c).join ((view s).tk t)))
    (h3 : Y.cellR = (s.tick t).cellR)
    (h4 : Y.rwRel = (s.tick t).rwRel) (h5 : Y.nRel = (s.tick t).nRel) (hc : SameCh (s.tick t) Y) :
    Shape p s' ∧
      view s' = { view s with vc := upd (view s).vc t ((view s).tk t),
                              cw := upd (view s).cw c (((view s).cw c).join ((view s).tk t)),
                              pc := upd (view s).pc t ((view s).pc t + 1) } := by
  subst h
  have hl : t < Y.ths.length := by rw [hY.ths, len_tick]; exact ht
  refine ⟨((hs.tick t).sameTh hY (by rw [h1]) (by rw [h2, List.length_set]) (by rw [h3]) (by rw [h4]) (by rw [h5]) (by rw [hc.chan]) (by rw [hc.chanRel]) (by rw [hc.rxDropped])).ret
    _ _, ?_⟩
  rw [view_ret _ _ _ hl, view_setCw hY c _ (by rw [show (s.tick t).cellW = s.cellW from rfl, hs.lenW]; exact hcl)
    h1 h2 h3 h4 h5 hc, view_tick _ _ ht]

/-- the fold of `droprx` -/
theorem dropFold_facts (X : SC.St) (ht : t < X.ths.length) (hX : Shape p X) (l : List (Int × VV)) :
    Shape p (dropFold t l X) ∧ (dropFold t l X).ths.length = X.ths.length ∧
    (dropFold t l X).chan = X.chan ∧ (dropFold t l X).rxDropped = X.rxDropped ∧
    (dropFold t l X).chanRel = X.chanRel ∧
    view (dropFold t l X) = { view X with vc := upd (view X).vc t ((l.map (·.2)).foldl VV.join ((view X).vc t)) } := by
  induction l generalizing X with
  | nil =>
    refine ⟨hX, rfl, rfl, rfl, rfl, ?_⟩
    show view X = _
    simp only [List.map_nil, List.foldl_nil, upd_same]
  | cons m l ih =>
    have ht' : t < (X.acquire t m.2).ths.length := by rw [len_acquire]; exact ht
    obtain ⟨h1, h2, h3, h4, h5, h6⟩ := ih (X.acquire t m.2) ht' (hX.acquire _ _)
    have e : dropFold t (m :: l) X = dropFold t l (X.acquire t m.2) := rfl
    rw [e]
    refine ⟨h1, by rw [h2, len_acquire], h3, h4, h5, ?_⟩
    rw [h6, view_acquire _ _ _ ht]
    simp only [upd_upd, upd_self, List.map_cons, List.foldl_cons]

/-- tick, put a message into the channel, return -/
theorem case_send {s' Y : SC.St} {r : Ret} {q : Nat} {x : Int} (hs : Shape p s) (ht : t < s.ths.length)
    (h : s' = Y.ret t r) (hq : q < p.cfg.nChans) (hY : SameTh (s.tick t) Y)
    (h1 : Y.mutexRel = (s.tick t).mutexRel) (h2 : Y.cellW = (s.tick t).cellW) (h3 : Y.cellR = (s.tick t).cellR)
    (h4 : Y.rwRel = (s.tick t).rwRel) (h5 : Y.nRel = (s.tick t).nRel)
    (h6 : Y.chanRel = (s.tick t).chanRel.set q ((s.chanRel.getD q VV.zero).join ((s.tick t).vc t)))
    (h7 : Y.chan = (s.tick t).chan.set q
      (s.chan.getD q [] ++ [(x, (s.chanRel.getD q VV.zero).join ((s.tick t).vc t))]))
    (h8 : Y.rxDropped = (s.tick t).rxDropped) :
    Shape p s' ∧
      view s' = { view s with vc := upd (view s).vc t ((view s).tk t), pc := upd (view s).pc t ((view s).pc t + 1),
                              crel := upd (view s).crel q (((view s).crel q).join ((view s).tk t)),
                              chq := upd (view s).chq q ((view s).chq q ++ [((view s).crel q).join ((view s).tk t)]) } := by
  subst h
  have hl : t < Y.ths.length := by rw [hY.ths, len_tick]; exact ht
  refine ⟨((hs.tick t).sameTh hY (by rw [h1]) (by rw [h2]) (by rw [h3]) (by rw [h4]) (by rw [h5])
    (by rw [h7, List.length_set]) (by rw [h6, List.length_set]) (by rw [h8])).ret _ _, ?_⟩
  rw [view_ret _ _ _ hl, view_chan hY h1 h2 h3 h4 h5, h6, h7, h8,
    funext_set _ (by rw [show (s.tick t).chanRel = s.chanRel from rfl, hs.lenQR]; exact hq),
    funext_setQ _ (by rw [show (s.tick t).chan = s.chan from rfl, hs.lenQ]; exact hq),
    view_tick _ _ ht, vc_tick_self _ _ ht]
  simp only [List.map_append, List.map_cons, List.map_nil]
  rfl

/-- tick, take the oldest message, acquire its clock, return -/
theorem case_take {s' Y : SC.St} {r : Ret} {q : Nat} {x : Int} {c : VV} {rest : List (Int × VV)}
    (hs : Shape p s) (ht : t < s.ths.length)
    (h : s' = (Y.acquire t c).ret t r) (hq : q < p.cfg.nChans) (hhd : s.chan.getD q [] = (x, c) :: rest)
    (hY : SameTh (s.tick t) Y)
    (h1 : Y.mutexRel = (s.tick t).mutexRel) (h2 : Y.cellW = (s.tick t).cellW) (h3 : Y.cellR = (s.tick t).cellR)
    (h4 : Y.rwRel = (s.tick t).rwRel) (h5 : Y.nRel = (s.tick t).nRel)
    (h6 : Y.chanRel = (s.tick t).chanRel) (h7 : Y.chan = (s.tick t).chan.set q rest)
    (h8 : Y.rxDropped = (s.tick t).rxDropped) :
    Shape p s' ∧ (view s).chq q = c :: rest.map (·.2) ∧
      view s' = { view s with vc := upd (view s).vc t (((view s).tk t).join c),
                              pc := upd (view s).pc t ((view s).pc t + 1),
                              chq := upd (view s).chq q (rest.map (·.2)) } ∧
      Step.res ⟨t, s, s'⟩ = some r := by
  subst h
  have hl : t < Y.ths.length := by rw [hY.ths, len_tick]; exact ht
  have hth : Y.th t = (s.tick t).th t := by unfold SC.St.th; rw [hY.ths]
  refine ⟨(((hs.tick t).sameTh hY (by rw [h1]) (by rw [h2]) (by rw [h3]) (by rw [h4]) (by rw [h5])
    (by rw [h7, List.length_set]) (by rw [h6]) (by rw [h8])).acquire _ _).ret _ _, ?_, ?_,
    res_ret _ (by rw [pc_acquire, hth]; exact pc_tick s t t) (by rw [len_acquire]; exact hl)⟩
  · show (s.chan.getD q []).map (·.2) = _
    rw [hhd]; rfl
  rw [view_ret _ _ _ (by rw [len_acquire]; exact hl), view_acquire _ _ _ hl, view_chan hY h1 h2 h3 h4 h5, h6, h7, h8,
    funext_setQ _ (by rw [show (s.tick t).chan = s.chan from rfl, hs.lenQ]; exact hq), view_tick _ _ ht]
  simp only [upd_upd, upd_self]
  rfl

/-- tick, acquire the clocks of all messages, empty and close the channel, return -/
theorem case_drop {s' : SC.St} {r : Ret} {q : Nat} (hs : Shape p s) (ht : t < s.ths.length) (hq : q < p.cfg.nChans)
    (h : s' = ({ dropFold t (s.chan.getD q []) (s.tick t) with
          chan := (dropFold t (s.chan.getD q []) (s.tick t)).chan.set q [],
          rxDropped := (dropFold t (s.chan.getD q []) (s.tick t)).rxDropped.set q true } : SC.St).ret t r) :
    Shape p s' ∧
      view s' = { view s with vc := upd (view s).vc t (((view s).chq q).foldl VV.join ((view s).tk t)),
                              pc := upd (view s).pc t ((view s).pc t + 1),
                              chq := upd (view s).chq q [], rxd := upd (view s).rxd q true } := by
  have ht1 : t < (s.tick t).ths.length := by rw [len_tick]; exact ht
  obtain ⟨f1, f2, f3, f4, f6, f5⟩ := dropFold_facts (s.tick t) ht1 (hs.tick t) (s.chan.getD q [])
  subst h
  have hY : SameTh (dropFold t (s.chan.getD q []) (s.tick t))
      { dropFold t (s.chan.getD q []) (s.tick t) with
          chan := (dropFold t (s.chan.getD q []) (s.tick t)).chan.set q [],
          rxDropped := (dropFold t (s.chan.getD q []) (s.tick t)).rxDropped.set q true } := ⟨rfl, rfl, rfl, rfl⟩
  refine ⟨(f1.sameTh hY rfl rfl rfl rfl rfl (by simp [List.length_set]) rfl (by simp [List.length_set])).ret _ _, ?_⟩
  rw [view_ret _ _ _ (by show t < (dropFold t _ _).ths.length; rw [f2]; exact ht1),
    view_chan hY rfl rfl rfl rfl rfl]
  simp only
  rw [f3, f4, f6, funext_setQ _ (by rw [show (s.tick t).chan = s.chan from rfl, hs.lenQ]; exact hq),
    funext_setB _ (by rw [show (s.tick t).rxDropped = s.rxDropped from rfl, hs.lenQD]; exact hq), f5,
    view_tick _ _ ht]
  simp only [upd_self, upd_upd, List.map_nil]
  rfl

end

/-- **`SC.step` on the view**: every step of an enabled thread of a well-formed program of the fragment, from a state
of the right shape, is an `AStep` on the views, and the shape is kept -/
theorem step_view {p : Prog} {s s' : SC.St} {t : Nat} (hwf : WFX p) (hs : Shape p s)
    (hen : SC.enabled p s t = true) (h : s' ∈ SC.step p s t) :
    Shape p s' ∧ AStepE p t (view s) (SC.opOf p s t) (Step.res ⟨t, s, s'⟩) (view s') := by
  obtain ⟨hv, hst, hnf, ht⟩ := enabled_facts hen
  have hft := hs.frag t
  have hcv := hft.2.1
  have ht1 : t < (s.tick t).ths.length := by rw [len_tick]; exact ht
  have mk : ∀ v', AStep p.threads.length t (view s) (SC.opOf p s t) (Step.res ⟨t, s, s'⟩) v' → view s' = v' →
      AStepE p t (view s) (SC.opOf p s t) (Step.res ⟨t, s, s'⟩) (view s') := by
    intro v' h1 h2
    subst h2
    exact ⟨hst, hnf, hv, by rw [← hs.lenT]; exact ht, rfl, h1⟩
  have hsk := hs.tick t
  have sT := sameTh_refl (s.tick t)
  cases ho : SC.opOf p s t with
  | none =>
    rw [step_end hft ho, List.mem_singleton] at h
    subst h
    rw [ho] at mk
    have hX : Shape p (if t == 0 then { s with lazyDropped := true } else s) := by
      split
      · exact hs.same _ rfl rfl rfl rfl rfl rfl hs.frag rfl rfl rfl rfl rfl
      · exact hs
    have hV : view (if t == 0 then { s with lazyDropped := true } else s) = view s := by
      split <;> rfl
    have hl : t < (if t == 0 then { s with lazyDropped := true } else s).ths.length := by
      split <;> exact ht
    have hth : (if t == 0 then { s with lazyDropped := true } else s).th t = s.th t := by
      split <;> rfl
    refine ⟨hX.modTh _ _ fun _ ha => fragTh_keep ha rfl rfl rfl rfl, mk _ (.fin _) ?_⟩
    rw [view_modTh _ _ _ hl, hV, hth]
    show View.mk _ _ _ _ _ _ _ _ _ _ _ _ _ _ = View.mk _ _ _ _ _ _ _ _ _ _ _ _ _ _
    rw [View.mk.injEq]
    exact ⟨upd_same (view s).vc t, upd_same (view s).started t, rfl, upd_same (view s).pc t, rfl, rfl, rfl, rfl, rfl,
      rfl, upd_same (view s).tok t, rfl, rfl, rfl⟩
  | some op =>
    have hok := hwf.opOk ho
    rw [ho] at mk
    cases op <;> simp only [opOkX, Bool.false_eq_true, Bool.and_eq_true, decide_eq_true_eq] at hok
    case lock m =>
      rw [step_lock hcv ho, List.mem_singleton] at h
      obtain ⟨h1, h2, h3⟩ := case_acq hs ht h ⟨rfl, rfl, rfl, rfl⟩ rfl rfl rfl rfl rfl ⟨rfl, rfl, rfl⟩
      exact ⟨h1, mk _ (.acq (.lock m) (.mutex m) _ rfl (fun hh => by cases hh)) h2⟩
    case tryLock m =>
      rw [step_tryLock hcv ho] at h
      split at h
      · rw [List.mem_singleton] at h
        obtain ⟨h1, h2, h3⟩ := case_acq hs ht h ⟨rfl, rfl, rfl, rfl⟩ rfl rfl rfl rfl rfl ⟨rfl, rfl, rfl⟩
        exact ⟨h1, mk _ (.acq (.tryLock m) (.mutex m) _ rfl (fun _ => by rw [h3]; rfl)) h2⟩
      · rw [List.mem_singleton] at h
        obtain ⟨h1, h2, h3⟩ := case_tick hs ht h sT rfl rfl rfl rfl rfl ⟨rfl, rfl, rfl⟩
        exact ⟨h1, mk _ (.tryFail (.tryLock m) _ rfl (by rw [h3]; simp [SC.bool01])) h2⟩
    case unlock m =>
      rw [step_unlock hcv ho, List.mem_singleton] at h
      obtain ⟨h1, h2⟩ := case_relM hs ht h hok ⟨rfl, rfl, rfl, rfl⟩ rfl rfl rfl rfl rfl ⟨rfl, rfl, rfl⟩
      exact ⟨h1, mk _ (.rel (.unlock m) (.mutex m) _ rfl (fun _ _ h => by cases h)) h2⟩
    case read l =>
      rw [step_read hcv ho, List.mem_singleton] at h
      obtain ⟨h1, h2, h3⟩ := case_acq hs ht h ⟨rfl, rfl, rfl, rfl⟩ rfl rfl rfl rfl rfl ⟨rfl, rfl, rfl⟩
      exact ⟨h1, mk _ (.acq (.read l) (.rw l) _ rfl (fun hh => by cases hh)) h2⟩
    case write l =>
      rw [step_write hcv ho, List.mem_singleton] at h
      obtain ⟨h1, h2, h3⟩ := case_acq hs ht h ⟨rfl, rfl, rfl, rfl⟩ rfl rfl rfl rfl rfl ⟨rfl, rfl, rfl⟩
      exact ⟨h1, mk _ (.acq (.write l) (.rw l) _ rfl (fun hh => by cases hh)) h2⟩
    case tryRead l =>
      rw [step_tryRead hcv ho] at h
      split at h
      · rw [List.mem_singleton] at h
        obtain ⟨h1, h2, h3⟩ := case_acq hs ht h ⟨rfl, rfl, rfl, rfl⟩ rfl rfl rfl rfl rfl ⟨rfl, rfl, rfl⟩
        exact ⟨h1, mk _ (.acq (.tryRead l) (.rw l) _ rfl (fun _ => by rw [h3]; rfl)) h2⟩
      · rw [List.mem_singleton] at h
        obtain ⟨h1, h2, h3⟩ := case_tick hs ht h sT rfl rfl rfl rfl rfl ⟨rfl, rfl, rfl⟩
        exact ⟨h1, mk _ (.tryFail (.tryRead l) _ rfl (by rw [h3]; simp [SC.bool01])) h2⟩
    case tryWrite l =>
      rw [step_tryWrite hcv ho] at h
      split at h
      · rw [List.mem_singleton] at h
        obtain ⟨h1, h2, h3⟩ := case_acq hs ht h ⟨rfl, rfl, rfl, rfl⟩ rfl rfl rfl rfl rfl ⟨rfl, rfl, rfl⟩
        exact ⟨h1, mk _ (.acq (.tryWrite l) (.rw l) _ rfl (fun _ => by rw [h3]; rfl)) h2⟩
      · rw [List.mem_singleton] at h
        obtain ⟨h1, h2, h3⟩ := case_tick hs ht h sT rfl rfl rfl rfl rfl ⟨rfl, rfl, rfl⟩
        exact ⟨h1, mk _ (.tryFail (.tryWrite l) _ rfl (by rw [h3]; simp [SC.bool01])) h2⟩
    case unread l =>
      rw [step_unread hcv ho, List.mem_singleton] at h
      obtain ⟨h1, h2⟩ := case_relL hs ht h hok ⟨rfl, rfl, rfl, rfl⟩ rfl rfl rfl rfl rfl ⟨rfl, rfl, rfl⟩
      exact ⟨h1, mk _ (.rel (.unread l) (.rw l) _ rfl (fun _ _ h => by cases h)) h2⟩
    case unwrite l =>
      rw [step_unwrite hcv ho, List.mem_singleton] at h
      obtain ⟨h1, h2⟩ := case_relL hs ht h hok ⟨rfl, rfl, rfl, rfl⟩ rfl rfl rfl rfl rfl ⟨rfl, rfl, rfl⟩
      exact ⟨h1, mk _ (.rel (.unwrite l) (.rw l) _ rfl (fun _ _ h => by cases h)) h2⟩
    case nWait n =>
      rw [step_nWait hcv ho, List.mem_singleton] at h
      obtain ⟨h1, h2, h3⟩ := case_acq hs ht h ⟨rfl, rfl, rfl, rfl⟩ rfl rfl rfl rfl rfl ⟨rfl, rfl, rfl⟩
      exact ⟨h1, mk _ (.acq (.nWait n) (.notify n) _ rfl (fun hh => by cases hh)) h2⟩
    case nNotify n =>
      rw [step_nNotify hcv ho, List.mem_singleton] at h
      obtain ⟨h1, h2⟩ := case_relN hs ht h hok ⟨rfl, rfl, rfl, rfl⟩ rfl rfl rfl rfl rfl ⟨rfl, rfl, rfl⟩
      exact ⟨h1, mk _ (.rel (.nNotify n) (.notify n) _ rfl (fun _ _ h => by cases h)) h2⟩
    case spawn b =>
      rw [step_spawn hcv ho, List.mem_singleton] at h
      subst h
      have hb : b < (s.tick t).ths.length := by rw [len_tick, hs.lenT]; exact hok.2
      refine ⟨?_, ?_⟩
      · apply Shape.ret
        exact hsk.modTh _ _ fun _ ha => fragTh_keep ha rfl rfl rfl rfl
      refine mk _ (.spawn b _ hok.1) ?_
      rw [view_ret _ _ _ (by rw [len_modTh]; exact ht1), view_spawn _ _ _ hb, vc_tick_self _ _ ht,
        view_tick _ _ ht]
    case join b =>
      rw [step_join hcv ho, List.mem_singleton] at h
      have hfb := enabled_join hen hft ho
      have hne : b ≠ t := by
        intro e; rw [e, hnf] at hfb; cases hfb
      obtain ⟨h1, h2, h3⟩ := case_acq hs ht h sT rfl rfl rfl rfl rfl ⟨rfl, rfl, rfl⟩
      rw [vc_tick_ne _ hne] at h2
      exact ⟨h1, mk _ (.join b _ hfb) h2⟩
    case ifEq i r n =>
      rw [step_ifEq hcv ho] at h
      split at h
      · rw [List.mem_singleton] at h
        subst h
        refine ⟨hs.modTh _ _ fun _ ha => fragTh_keep ha rfl rfl rfl rfl, ?_⟩
        exact mk _ (.ifEq i r n ((view s).pc t + 1) _ (Nat.lt_succ_self _)) (view_setPc s t (· + 1) ht)
      · rw [List.mem_singleton] at h
        subst h
        refine ⟨hs.modTh _ _ fun _ ha => fragTh_keep ha rfl rfl rfl rfl, ?_⟩
        exact mk _ (.ifEq i r n ((view s).pc t + 1 + n) _ (by omega)) (view_setPc s t (· + 1 + n) ht)
    case cellRead c =>
      rw [step_cellRead hcv ho, hs.opnW c, vc_tick_self _ _ ht] at h
      simp only [Bool.false_eq_true, if_false] at h
      have hcw : s.cellW.getD c VV.zero = (view s).cw c := rfl
      rw [hcw] at h
      by_cases hle : ((view s).cw c).le ((view s).tk t)
      · rw [if_neg (by simp [VV.ble, hle]), List.mem_singleton] at h
        obtain ⟨h1, h2⟩ := case_recR hs ht h hok ⟨rfl, rfl, rfl, rfl⟩ rfl rfl rfl rfl rfl ⟨rfl, rfl, rfl⟩
        exact ⟨h1, mk _ (.read c _ hle) h2⟩
      · rw [if_pos (by simp [VV.ble, hle]), List.mem_singleton] at h
        subst h
        refine ⟨hsk.same _ rfl rfl rfl rfl rfl rfl hsk.frag rfl rfl rfl rfl rfl, ?_⟩
        refine mk _ (.readRace c _ hle) ?_
        rw [view_stop, view_tick _ _ ht]
    case cellWrite c x =>
      rw [step_cellWrite hcv ho, hs.opnW c, hs.opnR c, vc_tick_self _ _ ht] at h
      simp only [Bool.false_eq_true, if_false, bne_self_eq_false] at h
      have hcw : s.cellW.getD c VV.zero = (view s).cw c := rfl
      have hcr : s.cellR.getD c VV.zero = (view s).cr c := rfl
      rw [hcw, hcr] at h
      by_cases hle : ((view s).cw c).le ((view s).tk t)
      · rw [if_neg (by simp [VV.ble, hle])] at h
        by_cases hlr : ((view s).cr c).le ((view s).tk t)
        · rw [if_neg (by simp [VV.ble, hlr]), List.mem_singleton] at h
          obtain ⟨h1, h2⟩ := case_recW hs ht h hok ⟨rfl, rfl, rfl, rfl⟩ rfl rfl rfl rfl rfl ⟨rfl, rfl, rfl⟩
          exact ⟨h1, mk _ (.write c x _ hle hlr) h2⟩
        · rw [if_pos (by simp [VV.ble, hlr]), List.mem_singleton] at h
          subst h
          refine ⟨hsk.same _ rfl rfl rfl rfl rfl rfl hsk.frag rfl rfl rfl rfl rfl, ?_⟩
          refine mk _ (.writeRaceR c x _ hle hlr) ?_
          rw [view_stop, view_tick _ _ ht]
      · rw [if_pos (by simp [VV.ble, hle]), List.mem_singleton] at h
        subst h
        refine ⟨hsk.same _ rfl rfl rfl rfl rfl rfl hsk.frag rfl rfl rfl rfl rfl, ?_⟩
        refine mk _ (.writeRaceW c x _ hle) ?_
        rw [view_stop, view_tick _ _ ht]
    case send q x =>
      rw [step_send hcv ho] at h
      split at h
      · next hd =>
        rw [List.mem_singleton] at h
        obtain ⟨h1, h2, h3⟩ := case_tick hs ht h ⟨rfl, rfl, rfl, rfl⟩ rfl rfl rfl rfl rfl ⟨rfl, rfl, rfl⟩
        exact ⟨h1, mk _ (.sendDead q x _ hd) h2⟩
      · next hd =>
        rw [List.mem_singleton] at h
        obtain ⟨h1, h2⟩ := case_send hs ht h hok ⟨rfl, rfl, rfl, rfl⟩ rfl rfl rfl rfl rfl rfl rfl rfl
        have hd' : (view s).rxd q = false := by
          show s.rxDropped.getD q false = false
          cases hb : s.rxDropped.getD q false with
          | false => rfl
          | true => exact (hd hb).elim
        exact ⟨h1, mk _ (.send q x _ hd') h2⟩
    case recv q =>
      cases hq : s.chan.getD q [] with
      | nil => exact (enabled_recv hen hft ho hq).elim
      | cons m rest =>
        obtain ⟨x, c⟩ := m
        rw [step_recv hcv ho hq, List.mem_singleton] at h
        obtain ⟨h1, h2, h3, h4⟩ := case_take hs ht h hok hq ⟨rfl, rfl, rfl, rfl⟩ rfl rfl rfl rfl rfl rfl rfl rfl
        exact ⟨h1, mk _ (.take (.recv q) q c _ _ (.inl rfl) h2) h3⟩
    case tryRecv q =>
      cases hq : s.chan.getD q [] with
      | nil =>
        rw [step_tryRecv_empty hcv ho hq, List.mem_singleton] at h
        obtain ⟨h1, h2, h3⟩ := case_tick hs ht h sT rfl rfl rfl rfl rfl ⟨rfl, rfl, rfl⟩
        rw [h3] at mk ⊢
        have hemp : (view s).chq q = [] := by
          show (s.chan.getD q []).map (·.2) = []
          rw [hq]; rfl
        exact ⟨h1, mk _ (.recvEmpty q hemp) h2⟩
      | cons m rest =>
        obtain ⟨x, c⟩ := m
        rw [step_tryRecv hcv ho hq, List.mem_singleton] at h
        obtain ⟨h1, h2, h3, h4⟩ := case_take hs ht h hok hq ⟨rfl, rfl, rfl, rfl⟩ rfl rfl rfl rfl rfl rfl rfl rfl
        exact ⟨h1, mk _ (.take (.tryRecv q) q c _ _ (.inr ⟨rfl, x, h4⟩) h2) h3⟩
    case dropRx q =>
      rw [step_dropRx hcv ho, List.mem_singleton] at h
      obtain ⟨h1, h2⟩ := case_drop hs ht hok h
      exact ⟨h1, mk _ (.drop q _) h2⟩
    case park =>
      rw [step_park hcv ho, List.mem_singleton] at h
      subst h
      have hl2 : t < ((s.tick t).acquire t (s.th t).tokenVC).ths.length := by rw [len_acquire]; exact ht1
      refine ⟨?_, ?_⟩
      · apply Shape.ret
        exact ((hsk.acquire _ _).modTh _ _ fun _ ha => fragTh_keep ha rfl rfl rfl rfl)
      refine mk _ (.acq .park (.token t) _ rfl (fun hh => by cases hh)) ?_
      rw [view_ret _ _ _ (by rw [len_modTh]; exact hl2), view_modTh_keep _ _ _ hl2 rfl rfl rfl rfl rfl,
        view_acquire _ _ _ ht1, view_tick _ _ ht]
      simp only [upd_upd, upd_self]
      rfl
    case unpark u =>
      rw [step_unpark hcv ho] at h
      have hfin : ((s.tick t).th u).finished = (s.th u).finished := by
        unfold SC.St.tick; rw [th_modTh']; split <;> rfl
      split at h
      · next hf =>
        rw [List.mem_singleton] at h
        obtain ⟨h1, h2, h3⟩ := case_tick hs ht h sT rfl rfl rfl rfl rfl ⟨rfl, rfl, rfl⟩
        exact ⟨h1, mk _ (.relDead u _ (.inl (by rw [hfin] at hf; exact hf))) h2⟩
      · rw [List.mem_singleton] at h
        by_cases hu : u < s.ths.length
        · subst h
          have hu1 : u < (s.tick t).ths.length := by rw [len_tick]; exact hu
          refine ⟨?_, ?_⟩
          · apply Shape.ret
            exact hsk.modTh _ _ fun _ ha => fragTh_keep ha rfl rfl rfl rfl
          refine mk _ (.rel (.unpark u) (.token u) _ rfl (fun _ _ h => by cases h)) ?_
          rw [view_ret _ _ _ (by rw [len_modTh]; exact ht1), view_unpark _ _ _ hu1, vc_tick_self _ _ ht,
            view_tick _ _ ht]
          rfl
        · rw [modTh_ge _ _ _ (by rw [len_tick]; omega)] at h
          obtain ⟨h1, h2, h3⟩ := case_tick hs ht h sT rfl rfl rfl rfl rfl ⟨rfl, rfl, rfl⟩
          exact ⟨h1, mk _ (.relDead u _ (.inr (by rw [← hs.lenT]; omega))) h2⟩
end VCSound
end LoomVerif

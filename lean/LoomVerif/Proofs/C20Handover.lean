/-
C20: what a stage that takes a waker out of (or registers one in) a slot / `AtomicWaker` hands to the later stages
of the same operation through the acting thread's control record (`TCtl.taken`, `TCtl.takenNotify`, `TCtl.held`),
and what it leaves in the future's record (`FutSt.awWaker`, `awArc`, `awNotify`, `slot`).
-/
import LoomVerif.Proofs.C20BlockOn
import LoomVerif.Proofs.C08Foot

set_option linter.unusedSimpArgs false
set_option linter.unusedVariables false

namespace LoomVerif
namespace C20

/-- forward saturation: frame facts (`CF`) and "same control table, same active thread" (`Foot.Same`) -/
macro "ho_sat" : tactic => `(tactic|
  (bo_sat
   try (have := Foot.postAcquire_same ‹World.postAcquire _ _ = Except.ok _›)
   try (have := Foot.releaseLock_same ‹World.releaseLock _ _ = Except.ok _›)
   try (have := Foot.wakerClone_same ‹World.wakerClone _ _ = Except.ok _›)
   try (have := Foot.wakerDrop_same ‹World.wakerDrop _ _ = Except.ok _›)
   try (have := Foot.notifyEffect_same ‹World.notifyEffect _ _ = Except.ok _›)))

macro "ho_simp" : tactic => `(tactic|
  simp_all [CF, Foot.Same, World.ctlOf, ctl_setStage, ctl_modCtl, ctl_modFut,
    ctl_complete, futs_setStage, futs_modCtl, futs_modFut, futs_complete, events_setStage,
    events_modCtl, events_modFut, events_complete, getD_modify, World.pushObj, World.setObjs,
    ctl_setObj, futs_setObj, tid_setObj, ctl_sync, futs_sync, tid_sync])

macro "ho_auto" h:ident : tactic => `(tactic|
  (mt_split $h
   all_goals first
     | (cases $h:ident; done)
     | (ho_sat; (try cases $h:ident)
        (try ho_simp)
        (repeat' split)
        all_goals (try ho_simp)
        all_goals (try exact ⟨_, Prod.ext rfl (by assumption)⟩)
        done)))

/-- `block_on` stage 21 with the `AtomicWaker`'s lock obtained: the registration now is THIS call's waker, whatever
was registered before; an older registration is handed to stage 25 (`c.taken`), which drops it -/
theorem blockOn_register {w w' w1 : World} {c : TCtl} {f mode : Nat} (hs : c.stage = 21)
    (hp : w.postAcquire (w.futs.getD f {}).awMutex = .ok (w1, true))
    (h : w.blockOnStage c f mode = .ok w') (hf : f < w.futs.length) (ht : w.tid < w.ctl.length) :
    (w'.futs.getD f {}).awWaker = true ∧
    (w'.futs.getD f {}).awArc = (w.futs.getD f {}).arc ∧
    (w'.futs.getD f {}).awNotify = (w.futs.getD f {}).notify ∧
    ((w.futs.getD f {}).awWaker = true →
      (w'.ctlOf w.tid).taken = (w.futs.getD f {}).awArc ∧ (w'.ctlOf w.tid).stage = 25) ∧
    ((w.futs.getD f {}).awWaker = false → (w'.ctlOf w.tid).stage = 14) := by
  rw [blockOn_stage21 w c f mode hs, hp] at h
  ho_auto h

/-- `block_on` stage 21 with the lock held by someone else: nothing is registered, nothing is taken -/
theorem blockOn_register_busy {w w' w1 : World} {c : TCtl} {f mode : Nat} (hs : c.stage = 21)
    (hp : w.postAcquire (w.futs.getD f {}).awMutex = .ok (w1, false))
    (h : w.blockOnStage c f mode = .ok w') (ht : w.tid < w.ctl.length) :
    w'.futs = w.futs ∧ (w'.ctlOf w.tid).stage = 22 := by
  rw [blockOn_stage21 w c f mode hs, hp] at h
  ho_auto h

/-- `AtomicWaker::wake` (`.awWake`) stage 2: the slot is emptied; the waker taken — the registered one,
`(awArc, awNotify)` — is handed to stages 3 (`notifyEffect c.takenNotify`) and 4 (`wakerDrop c.taken`) -/
theorem awWake_take {w w' : World} {c : TCtl} {f : Nat} (hs : c.stage = 2)
    (h : w.runOp c (.awWake f) = .ok w') (hf : f < w.futs.length) (ht : w.tid < w.ctl.length) :
    (∃ w1, w.postAcquire (w.futs.getD f {}).awMutex = .ok (w1, true)) ∧
    (w'.futs.getD f {}).awWaker = false ∧
    (w'.futs.getD f {}).awArc = (w.futs.getD f {}).awArc ∧
    (w'.futs.getD f {}).awNotify = (w.futs.getD f {}).awNotify ∧
    ((w.futs.getD f {}).awWaker = true →
      (w'.ctlOf w.tid).taken = (w.futs.getD f {}).awArc ∧
      (w'.ctlOf w.tid).takenNotify = (w.futs.getD f {}).awNotify ∧ (w'.ctlOf w.tid).stage = 3) ∧
    ((w.futs.getD f {}).awWaker = false → (w'.ctlOf w.tid).stage = 0 ∧ (w'.ctlOf w.tid).pc = (w.ctlOf w.tid).pc + 1) := by
  rw [awWake_stage2 w c f hs] at h
  ho_auto h

/-- `take_waker` (`.awTake`) stage 1: the slot is emptied, the waker taken is handed to stage 2 (`wakerDrop c.taken`) -/
theorem awTake_take {w w' : World} {c : TCtl} {f : Nat} (hs : c.stage = 1)
    (h : w.runOp c (.awTake f) = .ok w') (hf : f < w.futs.length) (ht : w.tid < w.ctl.length) :
    (∃ w1, w.postAcquire (w.futs.getD f {}).awMutex = .ok (w1, true)) ∧
    (w'.futs.getD f {}).awWaker = false ∧
    ((w.futs.getD f {}).awWaker = true →
      (w'.ctlOf w.tid).taken = (w.futs.getD f {}).awArc ∧ (w'.ctlOf w.tid).stage = 2) ∧
    ((w.futs.getD f {}).awWaker = false → (w'.ctlOf w.tid).stage = 0 ∧ (w'.ctlOf w.tid).pc = (w.ctlOf w.tid).pc + 1) := by
  rw [awTake_stage1 w c f hs] at h
  ho_auto h

/-- `dropwaker` stage 1: the slot is emptied, the waker taken — the one of the `block_on` in progress at THIS stage —
is handed to stage 2 (`wakerDrop c.taken`), whatever `block_on` call is current by then -/
theorem dropWaker_take {w w' : World} {c : TCtl} {f : Nat} (hs : c.stage = 1)
    (h : w.runOp c (.dropWaker f) = .ok w') (hf : f < w.futs.length) (ht : w.tid < w.ctl.length) :
    (∃ w1, w.postAcquire (w.futs.getD f {}).slotMutex = .ok (w1, true)) ∧
    (w'.futs.getD f {}).slot = false ∧
    ((w.futs.getD f {}).slot = true →
      (w'.ctlOf w.tid).taken = (w.futs.getD f {}).arc ∧ (w'.ctlOf w.tid).stage = 2) ∧
    ((w.futs.getD f {}).slot = false → (w'.ctlOf w.tid).stage = 0 ∧ (w'.ctlOf w.tid).pc = (w.ctlOf w.tid).pc + 1) := by
  rw [dropWaker_stage1 w c f hs] at h
  ho_auto h

/-- `block_on` stage 44 (mode 1, return): the registration is taken back and handed to stage 46 -/
theorem blockOn_takeBack {w w' : World} {c : TCtl} {f mode : Nat} (hs : c.stage = 44)
    (h : w.blockOnStage c f mode = .ok w') (hf : f < w.futs.length) (ht : w.tid < w.ctl.length) :
    (∃ w1, w.postAcquire (w.futs.getD f {}).awMutex = .ok (w1, true)) ∧
    (w'.futs.getD f {}).awWaker = false ∧
    ((w.futs.getD f {}).awWaker = true →
      (w'.ctlOf w.tid).taken = (w.futs.getD f {}).awArc ∧ (w'.ctlOf w.tid).stage = 46) := by
  rw [blockOn_stage44 w c f mode hs] at h
  ho_auto h

/-- `wake` / `wakeref` / `wakeq` stage 2: the waker found in the slot is the one of the `block_on` in progress,
`(arc, notify)`; it is handed to the later stages (3/4: `notifyEffect c.takenNotify`, `wakerDrop c.taken`; 5:
`notifyEffect c.takenNotify` under the lock) -/
theorem wake_take {w w' : World} {c : TCtl} {f : Nat} {b st : Bool} (hs : c.stage = 2)
    (h : w.wakeStage c f b st = .ok w') (hf : f < w.futs.length) (ht : w.tid < w.ctl.length) :
    (∃ w1, w.postAcquire (w.futs.getD f {}).slotMutex = .ok (w1, true)) ∧
    (w'.ctlOf w.tid).taken = (w.futs.getD f {}).arc ∧
    (w'.ctlOf w.tid).takenNotify = (w.futs.getD f {}).notify ∧
    ((w.futs.getD f {}).slot = true → (w'.ctlOf w.tid).stage = if b then 3 else 5) ∧
    ((w.futs.getD f {}).slot = false → (w'.ctlOf w.tid).stage = 0 ∧ (w'.ctlOf w.tid).pc = (w.ctlOf w.tid).pc + 1) ∧
    (b = true → (w'.futs.getD f {}).slot = false) := by
  rw [wake_stage2 w c f b st hs] at h
  ho_auto h

/-- `wclone`, last stage: one `wakerClone` of the waker in the slot; the clone is recorded in `held` -/
theorem wClone_held {w w' : World} {c : TCtl} {f : Nat} (hs : 2 ≤ c.stage)
    (h : w.runOp c (.wClone f) = .ok w') (ht : w.tid < w.ctl.length) :
    (∃ w1, w.wakerClone (w.futs.getD f {}).arc = .ok w1) ∧
    (w'.ctlOf w.tid).held =
      (f, (w.futs.getD f {}).arc, (w.futs.getD f {}).notify) :: (w.ctlOf w.tid).held.filter (·.1 != f) ∧
    w'.futs = w.futs := by
  rw [wClone_stage2 w c f hs] at h
  ho_auto h

/-- `wakeh`, last stage: one `wakerDrop` of the clone held, which is forgotten -/
theorem wakeH_released {w w' : World} {c : TCtl} {f a n : Nat} (hh : c.held.lookup f = some (a, n))
    (hs : 2 ≤ c.stage) (h : w.runOp c (.wakeH f) = .ok w') (ht : w.tid < w.ctl.length) :
    (∃ w1, w.wakerDrop a = .ok w1) ∧
    (w'.ctlOf w.tid).held = (w.ctlOf w.tid).held.filter (·.1 != f) ∧ w'.futs = w.futs := by
  rw [wakeH_stage2 w c f a n hh hs] at h
  ho_auto h

end C20
end LoomVerif

/-
Race exactness on the WAIT fragment, part 6: the glue between the data-level simulation (`Refine2.step_sim2`) and
the clock invariants: what `R2` says of the stepping thread; a stage that logs nothing and is not one of the three
silent reference steps stutters (`quiet_finish2`); a stage for which THE reference step is known takes it
(`real_finish2`, `spur_finish2`); the shapes `QuietOut2` / `RealOut2` / `SpurOut2` of the outcome of a stage and the
assembly of the conclusion `SimC2`.
-/
import LoomVerif.Proofs.Race2Inv
import LoomVerif.Proofs.Race2Ref
import LoomVerif.Proofs.RaceOps5

namespace LoomVerif
namespace Race2
open Refine Refine2 Sy C07 C08 Clocks Race

/-! ### what `R2` says -/

section
variable {w : World} {s : SC.St}

theorem inj_body2 (hR : R2 w (data2 s)) : Inj w.ctl.length (body w) :=
  fun i j hi hj e => hR.c.x.inj i j hi hj e

theorem body_lt2 (hR : R2 w (data2 s)) {i : Nat} (hi : i < w.ctl.length) : body w i < w.prog.threads.length :=
  (hR.c.x.thr i hi).1

theorem ths_len2 (hR : R2 w (data2 s)) : s.ths.length = w.prog.threads.length := by
  have := hR.c.x.len
  simpa [data2] using this

theorem body_lt_ths2 (hR : R2 w (data2 s)) {i : Nat} (hi : i < w.ctl.length) : body w i < s.ths.length := by
  rw [ths_len2 hR]; exact body_lt2 hR hi

theorem opOf_eq2 (hR : R2 w (data2 s)) (hact : w.tid < w.ctl.length) :
    SC.opOf w.prog s (body w w.tid) = opAt2 w := by
  rw [← data2_opOf]
  exact (base2 hR.c hact).2.2

theorem ctl_le2 (hR : R2 w (data2 s)) : w.ctl.length ≤ w.prog.threads.length :=
  inj_le _ _ (body w) (fun _ hi => body_lt2 hR hi) (inj_body2 hR)

theorem nthr_tid2 (hRC : RC2 w s) (hact : w.tid < w.ctl.length) : w.tid < nthr w := by
  rw [← nthr_eq2 hRC.r]; exact hact

/-- the reference thread of the body twin thread `i` runs: same pc, finished ↔ past the notification -/
theorem pc_eq2 (hR : R2 w (data2 s)) {i : Nat} (hi : i < w.ctl.length) :
    (s.th (body w i)).pc = (w.ctlOf i).pc ∧ (s.th (body w i)).finished = decide (10 ≤ fin w i) ∧
    (s.th (body w i)).rets = (w.ctlOf i).results := by
  obtain ⟨_, h⟩ := hR.c.x.thr i hi
  have e : (data2 s).ths.getD (w.ctl.getD i {}).body {} = dth2 (s.th (body w i)) := data2_th s _
  rw [e] at h
  exact ⟨h.2.1, h.2.2.2.1, h.2.2.1⟩

theorem opAtI_tid2 (w : World) : opAtI w w.tid = opAt2 w := rfl

/-- when nothing is pending the ghost clock of a thread is its causality -/
theorem eq_caus2 {σ : CS} {mq : Nat → List VV} (hL : LinkT2 w σ mq) {i : Nat} (hi : i < nthr w)
    (hp : pendClk w σ i = VV.zero) : σ.thr i = tcaus w i := by
  have h2 := hL.hi i hi
  rw [hp, join_zero] at h2
  exact le_antisymm (hL.lo i hi) h2

theorem frag_cv (hRC : RC2 w s) (hact : w.tid < w.ctl.length)
    (hC : pendCv w.prog (w.ctlOf w.tid) = none) :
    (s.th (body w w.tid)).cvWaiting = none ∧ (s.th (body w w.tid)).cvNotified = none := by
  have := cv_none hRC.r.c hact hC
  rw [show (data2 s).th (w.ctlOf w.tid).body = dth2 (s.th (body w w.tid)) from data2_th s _] at this
  exact this

end

/-! ### the silent steps of the data semantics -/

theorem label_nil {t : Nat} {l : Option (Nat × Ret)} (h : SCData.label t l = []) : l = none := by
  cases l with
  | none => rfl
  | some x => cases h

/-- a step of the data semantics that records nothing is the end of a thread, an `ifEq`, or the first half of a
`cvWait` -/
theorem stepL_none_cases {p : Prog} {d d' : SCData2} {t : Nat} (h : (none, d') ∈ SCData2.stepL p d t) :
    (d.th t).cvNotified = none ∧
    (SCData2.opOf p d t = none ∨ (∃ i r n, SCData2.opOf p d t = some (.ifEq i r n)) ∨
      ∃ v m, SCData2.opOf p d t = some (.cvWait v m)) := by
  unfold SCData2.stepL at h
  cases hcv : (d.th t).cvNotified with
  | some m =>
    simp only [hcv, List.mem_singleton, Prod.mk.injEq] at h
    exact absurd h.1 (by simp)
  | none =>
    refine ⟨rfl, ?_⟩
    simp only [hcv] at h
    cases ho : SCData2.opOf p d t with
    | none => exact .inl rfl
    | some op =>
      right
      simp only [ho] at h
      cases op
      case ifEq i r n => exact .inl ⟨i, r, n, rfl⟩
      case cvWait v m => exact .inr ⟨v, m, rfl⟩
      all_goals
        exfalso
        dsimp only at h
        first
          | (cases h; done)
          | (simp at h; done)
          | (split at h <;> first | (cases h; done) | (simp at h; done))

theorem spuriousL_some {p : Prog} {d d' : SCData2} {t : Nat} {l : Option (Nat × Ret)}
    (h : (l, d') ∈ SCData2.spuriousL p d t) : (∃ x, l = some x) ∧ ∃ n, SCData2.opOf p d t = some (.nWait n) := by
  unfold SCData2.spuriousL at h
  dsimp only at h
  by_cases hc : (!(d.th t).started || (d.th t).finished || (d.th t).cvWaiting.isSome ||
      (d.th t).cvNotified.isSome) = true
  · rw [if_pos hc] at h; cases h
  · rw [if_neg hc] at h
    cases ho : SCData2.opOf p d t with
    | none => rw [ho] at h; cases h
    | some op =>
      rw [ho] at h
      cases op
      case nWait n =>
        dsimp only at h
        split at h
        · simp only [List.mem_singleton, Prod.mk.injEq] at h
          exact ⟨⟨_, h.1⟩, n, rfl⟩
        · cases h
      all_goals (cases h)

/-! ### finishing a stage -/

section
variable {w w' : World} {s : SC.St}

/-- **a stage that logs nothing stutters**, unless the reference can take a silent step that leads to a related
state (the caller excludes that) -/
theorem quiet_finish2 (hsim : Sim2 w (data2 s) w') (hev : w'.events = w.events)
    (hno : ∀ d', SCData2.enabled w.prog (data2 s) (body w w.tid) = true →
      (none, d') ∈ SCData2.stepL w.prog (data2 s) (body w w.tid) → R2 w' d' → False) :
    R2 w' (data2 s) := by
  rcases hsim.2 with ⟨hR', _⟩ | ⟨l, d', hrs, hR', hl⟩
  · exact hR'
  · exfalso
    rw [hev] at hl
    have hnil : SCData.label (w.ctlOf w.tid).body l = [] := by
      have := congrArg List.length hl
      simp only [List.length_append, List.length_map] at this
      exact List.eq_nil_of_length_eq_zero (by omega)
    have hln := label_nil hnil
    subst hln
    rcases hrs with ⟨hen, hst⟩ | hsp
    · exact hno d' hen hst hR'
    · obtain ⟨⟨x, hx⟩, _⟩ := spuriousL_some hsp
      cases hx

/-- the active thread is at an operation that is neither `ifEq` nor `cvWait`: no silent step -/
theorem no_silent {op : Op} (hRC : RC2 w s) (hact : w.tid < w.ctl.length) (hop : opAt2 w = some op)
    (h1 : ∀ i r n, op ≠ .ifEq i r n) (h2 : ∀ v m, op ≠ .cvWait v m) (d' : SCData2) :
    (none, d') ∈ SCData2.stepL w.prog (data2 s) (body w w.tid) → False := by
  intro h
  obtain ⟨_, hc⟩ := stepL_none_cases h
  rw [data2_opOf, opOf_eq2 hRC.r hact, hop] at hc
  rcases hc with hc | ⟨i, r, n, hc⟩ | ⟨v, m, hc⟩
  · cases hc
  · cases hc; exact h1 _ _ _ rfl
  · cases hc; exact h2 _ _ rfl

/-- **a stage for which THE reference step is known takes it** -/
theorem real_finish2 (hwf : WF2 w.prog) (hRC : RC2 w s) (hsim : Sim2 w (data2 s) w')
    (hstut : R2 w' (data2 s) → w'.events = w.events → False)
    {s' : SC.St} (hstep : SC.step w.prog s (body w w.tid) = [s']) (hv : s'.verdict = none)
    (hnsp : ∀ l d', (l, d') ∈ SCData2.spuriousL w.prog (data2 s) (body w w.tid) → R2 w' d' → False) :
    SC.enabled w.prog s (body w w.tid) = true ∧ FragSt2 s' ∧ R2 w' (data2 s') ∧
    ∃ l, RefStep w.prog (data2 s) (body w w.tid) l (data2 s') ∧
       w'.events.map triple = SCData.label (body w w.tid) l ++ w.events.map triple := by
  rcases hsim.2 with ⟨hR', hev⟩ | ⟨l, d', hrs, hR', hev⟩
  · exact absurd hev (hstut hR')
  · rcases hrs with ⟨hen, hst⟩ | hsp
    · obtain ⟨s'', hmem, hres⟩ := SC.step_lift2 hRC.fs hst
      change s'' ∈ SC.step w.prog s (body w w.tid) at hmem
      rw [hstep] at hmem
      simp only [List.mem_singleton] at hmem
      subst hmem
      rcases hres with ⟨hfs, hd⟩ | ⟨k, hk⟩
      · subst hd
        refine ⟨?_, hfs, hR', l, .inl ⟨hen, hst⟩, hev⟩
        rw [SC.enabled_data2 hRC.fs.1 (fun op ho => hwf.fragProg _ _ _ ho)]
        exact hen
      · rw [hv] at hk; cases hk
    · exact absurd hR' (hnsp l d' hsp)

/-- **a stage that is the spurious return of `nWait`** -/
theorem spur_finish2 (hRC : RC2 w s) (hsim : Sim2 w (data2 s) w')
    (hstut : R2 w' (data2 s) → w'.events = w.events → False)
    {s' : SC.St} (hspur : SC.spurious w.prog s (body w w.tid) = [s'])
    (hnst : ∀ l d', SCData2.enabled w.prog (data2 s) (body w w.tid) = true →
      (l, d') ∈ SCData2.stepL w.prog (data2 s) (body w w.tid) → R2 w' d' → False) :
    FragSt2 s' ∧ R2 w' (data2 s') ∧
    ∃ l, RefStep w.prog (data2 s) (body w w.tid) l (data2 s') ∧
       w'.events.map triple = SCData.label (body w w.tid) l ++ w.events.map triple := by
  rcases hsim.2 with ⟨hR', hev⟩ | ⟨l, d', hrs, hR', hev⟩
  · exact absurd hev (hstut hR')
  · rcases hrs with ⟨hen, hst⟩ | hsp
    · exact absurd hR' (hnst l d' hen hst)
    · obtain ⟨s'', hmem, hfs, hd⟩ := SC.spurious_lift2 hRC.fs hsp
      change s'' ∈ SC.spurious w.prog s (body w w.tid) at hmem
      rw [hspur] at hmem
      simp only [List.mem_singleton] at hmem
      subst hmem
      subst hd
      exact ⟨hfs, hR', l, .inr hsp, hev⟩

/-- no spurious return at an operation other than `nWait` -/
theorem no_spur {op : Op} (hRC : RC2 w s) (hact : w.tid < w.ctl.length) (hop : opAt2 w = some op)
    (h1 : ∀ n, op ≠ .nWait n) (l : Option (Nat × Ret)) (d' : SCData2) :
    (l, d') ∈ SCData2.spuriousL w.prog (data2 s) (body w w.tid) → R2 w' d' → False := by
  intro h _
  obtain ⟨_, n, hn⟩ := spuriousL_some h
  rw [data2_opOf, opOf_eq2 hRC.r hact, hop] at hn
  cases hn
  exact h1 _ rfl

theorem no_spur_end (hRC : RC2 w s) (hact : w.tid < w.ctl.length) (hop : opAt2 w = none)
    (l : Option (Nat × Ret)) (d' : SCData2) :
    (l, d') ∈ SCData2.spuriousL w.prog (data2 s) (body w w.tid) → R2 w' d' → False := by
  intro h _
  obtain ⟨_, n, hn⟩ := spuriousL_some h
  rw [data2_opOf, opOf_eq2 hRC.r hact, hop] at hn
  cases hn

/-- a stage that completes an operation logs an event: the data-level simulation does not stutter -/
theorem complete_not_stutter (w1 : World) (r : Ret) (he : w1.events = w.events) :
    (w1.complete r).events = w.events → False := by
  intro h
  have : (w1.complete r).events.length = w.events.length + 1 := by
    show (_ :: w1.events).length = _
    rw [he]; rfl
  rw [h] at this
  omega

/-! ### the shapes of the outcome of a stage -/

/-- the stage does not move the thread in the reference and changes no ghost clock -/
def QuietOut2 (w : World) (s : SC.St) (w' : World) : Prop :=
  w'.prog = w.prog ∧ w'.ctl.length = w.ctl.length ∧ (∀ i, body w' i = body w i) ∧ w'.events = w.events ∧
  (∀ d', SCData2.enabled w.prog (data2 s) (body w w.tid) = true →
    (none, d') ∈ SCData2.stepL w.prog (data2 s) (body w w.tid) → R2 w' d' → False) ∧
  TwinInv w' ∧ TwinInv2 w' ∧ ∀ σT mT, LinkT2 w σT mT → LinkT2 w' σT mT

/-- the part of `RealOut2` / `SpurOut2` about the new state -/
def NewSt (w : World) (w' : World) (s' : SC.St) : Prop :=
  s'.verdict = none ∧ (∀ q, s'.rxDropped.getD q false = false) ∧ TwinInv w' ∧ TwinInv2 w' ∧
  ∃ σT' σR' mT' mR', LinkT2 w' σT' mT' ∧ LinkR2 w.prog s' σR' mR' ∧ Good σT' ∧ Good σR' ∧
    XInv w'.ctl.length (body w') σT' σR' ∧
    (∀ q, q < w.prog.cfg.nChans → All2 (SideX w'.ctl.length (body w') σT' σR') (mT' q) (mR' q)) ∧
    (∀ q Z, q < w.prog.cfg.nChans → Z ∈ mT' q → SideGood σT' Z) ∧
    (∀ q Z, q < w.prog.cfg.nChans → Z ∈ mR' q → SideGood σR' Z)

/-- the stage takes THE step of `SC.step` of the thread -/
def RealOut2 (w : World) (s : SC.St) (w' : World) : Prop :=
  w'.prog = w.prog ∧ (R2 w' (data2 s) → w'.events = w.events → False) ∧
  (∀ l d', (l, d') ∈ SCData2.spuriousL w.prog (data2 s) (body w w.tid) → R2 w' d' → False) ∧
  ∃ s', SC.step w.prog s (body w w.tid) = [s'] ∧ NewSt w w' s'

/-- the stage takes the spurious return of `nWait` -/
def SpurOut2 (w : World) (s : SC.St) (w' : World) : Prop :=
  w'.prog = w.prog ∧ (R2 w' (data2 s) → w'.events = w.events → False) ∧
  (∀ l d', SCData2.enabled w.prog (data2 s) (body w w.tid) = true →
      (l, d') ∈ SCData2.stepL w.prog (data2 s) (body w w.tid) → R2 w' d' → False) ∧
  ∃ s', SC.spurious w.prog s (body w w.tid) = [s'] ∧ NewSt w w' s'

theorem XInv.congr2 {n : Nat} {β β' : Nat → Nat} {T R : CS} (h : XInv n β T R) (hb : ∀ i, i < n → β' i = β i) :
    XInv n β' T R := Race.XInv.congr h hb

theorem simC2_of_quiet (hRC : RC2 w s) (hsim : Sim2 w (data2 s) w') (h : QuietOut2 w s w') : SimC2 w s w' := by
  obtain ⟨hp, hl, hb, hev, hno, hI, hI2, hK⟩ := h
  have hR' := quiet_finish2 hsim hev hno
  obtain ⟨σT, σR, mT, mR, hc⟩ := hRC.clk
  refine ⟨hp, .inl ⟨⟨hR', hRC.fs, by rw [hp]; exact hRC.nt, hI, hI2, hRC.nd, σT, σR, mT, mR, ?_⟩, hev⟩⟩
  refine ⟨hK σT mT hc.lt, by rw [hp]; exact hc.lr, hc.gt, hc.gr, ?_, ?_, ?_, ?_⟩
  · rw [hl]; exact XInv.congr2 hc.x (fun i _ => hb i)
  · intro q hq
    rw [hp] at hq
    rw [hl]
    exact (hc.mx q hq).imp fun _ _ hh => hh.congr (fun i _ => hb i)
  · intro q Z hq; rw [hp] at hq; exact hc.mgt q Z hq
  · intro q Z hq; rw [hp] at hq; exact hc.mgr q Z hq

theorem rc2_of_new {s' : SC.St} (hRC : RC2 w s) (hp : w'.prog = w.prog) (hfs : FragSt2 s')
    (hR' : R2 w' (data2 s')) (h : NewSt w w' s') : RC2 w' s' := by
  obtain ⟨_, hnd, hI, hI2, σT', σR', mT', mR', h1, h2, h3, h4, h5, h6, h7, h8⟩ := h
  refine ⟨hR', hfs, by rw [hp]; exact hRC.nt, hI, hI2, hnd, σT', σR', mT', mR', ?_⟩
  exact ⟨h1, by rw [hp]; exact h2, h3, h4, h5, by rw [hp]; exact h6, by rw [hp]; exact h7, by rw [hp]; exact h8⟩

theorem simC2_of_real (hwf : WF2 w.prog) (hRC : RC2 w s) (hsim : Sim2 w (data2 s) w') (h : RealOut2 w s w') :
    SimC2 w s w' := by
  obtain ⟨hp, hstut, hnsp, s', hstep, hnew⟩ := h
  obtain ⟨hen, hfs, hR', l, hst, hev⟩ := real_finish2 hwf hRC hsim hstut hstep hnew.1 hnsp
  exact ⟨hp, .inr ⟨s', .inl ⟨hen, by rw [hstep]; exact List.mem_singleton.2 rfl⟩,
    rc2_of_new hRC hp hfs hR' hnew, l, hst, hev⟩⟩

theorem simC2_of_spur (hRC : RC2 w s) (hsim : Sim2 w (data2 s) w') (h : SpurOut2 w s w') : SimC2 w s w' := by
  obtain ⟨hp, hstut, hnst, s', hspur, hnew⟩ := h
  obtain ⟨hfs, hR', l, hst, hev⟩ := spur_finish2 hRC hsim hstut hspur hnst
  exact ⟨hp, .inr ⟨s', .inr (by rw [hspur]; exact List.mem_singleton.2 rfl),
    rc2_of_new hRC hp hfs hR' hnew, l, hst, hev⟩⟩

end

end Race2
end LoomVerif

/-
Deadlock soundness, part 10: the initial world satisfies `RB`; the one-step results lift to `World.runLoop`: a run
that ends with the panic "deadlock" has reached a world related to a DEADLOCKED state of the reference execution
the run corresponds to.
-/
import LoomVerif.Proofs.DeadlockErr2

namespace LoomVerif
namespace Deadlock
open Refine Sy

/-- the thread table at the start of an iteration (`Exec.new`, `Exec.step`): the main thread alone, active
(`Refine.FreshExec`) and RUNNABLE -/
def FreshExec (e : Exec) : Prop := Refine.FreshExec e ∧ (e.threads.get 0).state = .runnable

instance (e : Exec) : Decidable (FreshExec e) := by unfold FreshExec Refine.FreshExec; infer_instance

theorem freshExec_new (mt mb : Nat) (b : Option Nat) (x : Bool) : FreshExec (Exec.new mt mb b x) :=
  ⟨Refine.freshExec_new _ _ _ _, rfl⟩

theorem freshExec_step {e e' : Exec} (h : e.step = some e') : FreshExec e' := by
  refine ⟨Refine.freshExec_step h, ?_⟩
  unfold Exec.step at h
  cases hp : e.path.step with
  | none => rw [hp] at h; cases h
  | some p => rw [hp] at h; cases h; rfl

theorem init_path {prog : Prog} {e : Exec} {w : World} (h : World.init prog e = .ok w) :
    w.exec.path = e.path := by
  unfold World.init at h
  simp only [Except.bind_eq_ok'] at h
  obtain ⟨a1, h1, a2, h2, a3, h3, a4, h4, a5, h5, a6, h6, a7, h7, a8, h8, h⟩ := h
  cases h
  rfl

/-- **the initial world satisfies the strengthened relation** -/
theorem init_RB {prog : Prog} {e : Exec} {w : World} (hwf : WF prog) (hf : FreshExec e)
    (hp : ReplayOK e.path) (h : World.init prog e = .ok w) :
    RB w (data (SC.init prog)) ∧ w.prog = prog ∧ w.events = [] := by
  obtain ⟨hR, hprog, hev⟩ := init_R hwf.1 hf.1 h
  obtain ⟨_, hc, hs, _, hth, _⟩ := init_shape h
  refine ⟨⟨hR, ⟨fun i hi => ?_, ?_, ?_, ?_⟩, by rw [init_path h]; exact hp⟩, hprog, hev⟩
  · have hi0 : i = 0 := by rw [hc] at hi; simpa using hi
    subst hi0
    have htid : w.tid = 0 := by
      show w.exec.threads.activeId = 0
      rw [hth]; unfold Threads.activeId; rw [hf.1.2]; rfl
    have hst : (w.ths.get 0).state = .runnable := by
      show (w.exec.threads.get 0).state = _
      rw [hth]; exact hf.2
    have hctl : w.ctlOf 0 = {} := by unfold World.ctlOf; rw [hc]; rfl
    unfold JT
    rw [hctl]
    refine ⟨?_, ?_, ?_, ?_⟩
    · rw [hst]; simp
    · rw [hst]; intro hh; cases hh
    · intro h1; cases h1
    · intro _
      refine ⟨?_, fun hne => absurd htid.symm hne⟩
      rw [hst]; simp
  · rw [hs]; intro e1 e2 h1; cases h1
  · rw [hs]; intro b i n h1; cases h1
  · rw [hs]; intro b i n h1; cases h1

section
variable {w w' : World} {s : SCData}

/-- **`RB` is preserved by every successful stage** (`Refine.step_simulation` with `RB` for `R`): the world
reached is related to the same reference state (a stuttering stage) or to its successor by the enabled step of the
body the active thread runs -/
theorem step_pres (hwf : WF w.prog) (hRB : RB w s) (hactive : w.ths.isActive = true)
    (hact : w.tid < w.ctl.length) (h : w.stepActive = .ok w') :
    w'.prog = w.prog ∧
    ((RB w' s ∧ w'.events = w.events) ∨
     ∃ l s', SCData.enabled w.prog s (w.ctlOf w.tid).body = true ∧
       (l, s') ∈ SCData.stepL w.prog s (w.ctlOf w.tid).body ∧ RB w' s' ∧
       w'.events.map triple = SCData.label (w.ctlOf w.tid).body l ++ w.events.map triple) := by
  obtain ⟨hJ', hP'⟩ := step_JB hwf hRB hactive hact h
  obtain ⟨hp, hsim⟩ := step_sim hwf.1 hRB.r hact h
  refine ⟨hp, ?_⟩
  rcases hsim with ⟨hR1, hev⟩ | ⟨l, s1, hen, hst, hR1, hev⟩
  · exact .inl ⟨⟨hR1, hJ', hP'⟩, hev⟩
  · exact .inr ⟨l, s1, hen, hst, ⟨hR1, hJ', hP'⟩, hev⟩

end

/-- the simulation along `runLoop`, whatever the way the run ends: the world returned is related (`RB`) to the end
of a run of the reference whose trace is the event log; if the run ends with a panic other than the exhaustion of
the fuel, it is the panic of the next stage of the world returned (the world reached BEFORE the panicking stage) -/
theorem runLoop_RB (p : Prog) (d0 : SCData) (hwf : WF p) :
    ∀ (fuel : Nat) (w w' : World) (r : Option Panic) (s : SCData), w.prog = p → RB w s → InRange w →
      SCData.Run p d0 (w.events.reverse.map triple) s →
      World.runLoop fuel w = (w', r) →
      ∃ s', SCData.Run p d0 (w'.events.reverse.map triple) s' ∧ RB w' s' ∧ w'.prog = p ∧ InRange w' ∧
        (∀ e, r = some e → e ≠ .fuel → w'.ths.isActive = true ∧ w'.stepActive = .error e) := by
  intro fuel
  induction fuel with
  | zero =>
    intro w w' r s hp hRB hrange hrun h
    simp only [World.runLoop, Prod.mk.injEq] at h
    obtain ⟨rfl, rfl⟩ := h
    exact ⟨s, hrun, hRB, hp, hrange, fun e he hne => by cases he; exact absurd rfl hne⟩
  | succ fuel ih =>
    intro w w' r s hp hRB hrange hrun h
    unfold World.runLoop at h
    split at h
    · simp only [Prod.mk.injEq] at h
      obtain ⟨rfl, rfl⟩ := h
      exact ⟨s, hrun, hRB, hp, hrange, fun e he => by cases he⟩
    · next hact =>
      have hact' : w.ths.isActive = true := by simpa using hact
      have hin : w.tid < w.ctl.length := by rw [hRB.r.lenCtl]; exact hrange hact'
      split at h
      · next e hstep =>
        simp only [Prod.mk.injEq] at h
        obtain ⟨rfl, rfl⟩ := h
        exact ⟨s, hrun, hRB, hp, hrange, fun e' he _ => by cases he; exact ⟨hact', hstep⟩⟩
      · next w1 hstep =>
        have hr1 : InRange w1 := step_inRange (by rw [hp]; exact hwf.1) hRB.r hin hstep
        obtain ⟨hp1, hsim⟩ := step_pres (by rw [hp]; exact hwf) hRB hact' hin hstep
        rcases hsim with ⟨hR1, hev⟩ | ⟨l, s1, hen, hst, hR1, hev⟩
        · exact ih w1 w' r s (hp1.trans hp) hR1 hr1 (by rw [hev]; exact hrun) h
        · rw [hp] at hen hst
          refine ih w1 w' r s1 (hp1.trans hp) hR1 hr1 ?_ h
          rw [triple_step hev]
          exact SCData.Run.step hrun hen hst

theorem checkForLeaks_notDL {os : Objs} {e : Panic} (h : os.checkForLeaks = .error e) : e ≠ .deadlock := by
  induction os with
  | nil => cases h
  | cons x xs ih =>
    cases x <;> simp only [Objs.checkForLeaks] at h <;>
      first
        | exact ih h
        | (split at h
           · cases h; simp
           · exact ih h)

end Deadlock
end LoomVerif

/-
C01 pillar 4, first half: loom's dependence tables as equations, the list of pairs it never
orders, the `Arc` pair `Inspect`/`RefDec` (finding F10: repaired, with its remainder — a single
inspection slot) and the pair for which the tables are wrong with respect to `Spec/SC` (finding F7).
-/
import LoomVerif.Proofs.DepSC
import LoomVerif.Model.Interp

namespace LoomVerif
namespace Dep

/-! ### which access slot an operation consults, which it writes -/

/-- atomics: a load consults the last store/RMW, everything else the last access of any kind -/
theorem atomic_consults (a : Atomic) (act : Action) :
    a.lastDependentAccess act = if act = .atomLoad then a.lastNonLoad else a.lastAccess := by
  cases act <;> rfl

/-- atomics: every access is recorded in `lastAccess`, stores/RMWs also in `lastNonLoad` -/
theorem atomic_records (a : Atomic) (act : Action) (pid : Nat) (v : VV) :
    (a.setLastAccess act pid v).lastAccess = some ⟨pid, v⟩ ∧
    (a.setLastAccess act pid v).lastNonLoad =
      if act = .atomLoad then a.lastNonLoad else some ⟨pid, v⟩ := by
  cases act <;> exact ⟨rfl, rfl⟩

/-- channels: `send` consults and records the last send, `recv` the last receive -/
theorem chan_consults (s : ChanSt) :
    s.lastDependentAccess .chanSend = s.lastSend ∧ s.lastDependentAccess .chanRecv = s.lastRecv :=
  ⟨rfl, rfl⟩

theorem chan_records (s : ChanSt) (pid : Nat) (v : VV) :
    s.setLastAccess .chanSend pid v = { s with lastSend := some ⟨pid, v⟩ } ∧
    s.setLastAccess .chanRecv pid v = { s with lastRecv := some ⟨pid, v⟩ } := ⟨rfl, rfl⟩

/-- `Arc`: `RefInc` consults the last inspection, `RefDec` the later (by position in the path) of the
last decrement and the last inspection, `Inspect` the last modification (increment or decrement,
whichever came last) -/
theorem arc_consults (s : ArcSt) :
    s.lastDependentAccess .arcInc = s.lastInspect ∧
    s.lastDependentAccess .arcDec =
      (match s.lastDec, s.lastInspect with
       | some d, some i => if i.pathId > d.pathId then some i else some d
       | some d, none => some d
       | none, i => i) ∧
    s.lastDependentAccess .arcInspect =
      (match s.lastMod with
       | some .inc => s.lastInc
       | some .dec => s.lastDec
       | none => none) := ⟨rfl, rfl, rfl⟩

theorem arc_records (s : ArcSt) (pid : Nat) (v : VV) :
    s.setLastAccess .arcInc pid v = { s with lastMod := some .inc, lastInc := some ⟨pid, v⟩ } ∧
    s.setLastAccess .arcDec pid v = { s with lastMod := some .dec, lastDec := some ⟨pid, v⟩ } ∧
    s.setLastAccess .arcInspect pid v = { s with lastInspect := some ⟨pid, v⟩ } :=
  ⟨rfl, rfl, rfl⟩

/-- mutex / rwlock / condvar / notify: one slot, consulted and written by every access -/
theorem opaque_kinds (os os' : Objs) (op op' : Operation) (pid : Nat) (v : VV)
    (hk : (∃ s, os[op.obj]? = some (.mutex s)) ∨ (∃ s, os[op.obj]? = some (.rwlock s)) ∨
      (∃ s, os[op.obj]? = some (.condvar s)) ∨ (∃ s, os[op.obj]? = some (.notify s)))
    (hs : os.setLastAccess op pid v = .ok os') (hobj : op'.obj = op.obj) :
    os'.lastDependentAccess op' = .ok (some ⟨pid, v⟩) := by
  have hlt : op.obj < os.length := by
    rcases hk with ⟨s, h⟩ | ⟨s, h⟩ | ⟨s, h⟩ | ⟨s, h⟩ <;> exact (List.getElem?_eq_some_iff.1 h).1
  unfold Objs.setLastAccess at hs
  unfold Objs.lastDependentAccess
  rw [hobj]
  rcases hk with ⟨s, h⟩ | ⟨s, h⟩ | ⟨s, h⟩ | ⟨s, h⟩ <;>
    (rw [h] at hs; cases hs; simp [List.getElem?_set, hlt])

/-! ### the pairs loom never orders -/

/-- an earlier access with action `x` is invisible to a later operation with action `y` on the
same object: recording `x` does not change the slot `y` consults -/
def AtomicInvisible (x y : Action) : Prop :=
  ∀ (a : Atomic) pid v, (a.setLastAccess x pid v).lastDependentAccess y = a.lastDependentAccess y
def ChanInvisible (x y : Action) : Prop :=
  ∀ (s : ChanSt) pid v, (s.setLastAccess x pid v).lastDependentAccess y = s.lastDependentAccess y
def ArcInvisible (x y : Action) : Prop :=
  ∀ (s : ArcSt) pid v, (s.setLastAccess x pid v).lastDependentAccess y = s.lastDependentAccess y

/-- the `Arc` table: `false` = the later `y` is ordered after the earlier `x` -/
def arcIndep : Action → Action → Bool
  | .arcInc, .arcInspect | .arcDec, .arcDec | .arcDec, .arcInspect | .arcInspect, .arcInc
  | .arcInspect, .arcDec => false
  | _, _ => true

theorem atomic_table (x y : Action) : AtomicInvisible x y ↔ x = .atomLoad ∧ y = .atomLoad := by
  constructor
  · intro h
    have h0 := h {} 0 VV.zero
    cases x <;> cases y <;>
      first
      | exact ⟨rfl, rfl⟩
      | (exfalso; simp [Atomic.setLastAccess, Atomic.lastDependentAccess] at h0)
  · rintro ⟨rfl, rfl⟩ a pid v; rfl

theorem chan_table (x y : Action) :
    ChanInvisible x y ↔ ¬ (x = y ∧ (x = .chanSend ∨ x = .chanRecv)) := by
  constructor
  · intro h
    have h0 := h {} 0 VV.zero
    rintro ⟨rfl, hx | hx⟩ <;> subst hx <;>
      simp [ChanSt.setLastAccess, ChanSt.lastDependentAccess] at h0
  · intro h s pid v
    cases x <;> cases y <;> first | rfl | (exfalso; exact h ⟨rfl, by simp⟩)

theorem arc_table (x y : Action) : ArcInvisible x y ↔ arcIndep x y = true := by
  constructor
  · intro h
    have h0 := h {} 0 VV.zero
    cases x <;> cases y <;>
      first
      | rfl
      | (exfalso; simp [ArcSt.setLastAccess, ArcSt.lastDependentAccess] at h0)
  · intro h s pid v
    cases x <;> cases y <;> first | rfl | exact absurd h (by decide)

/-- `Dep.independent_pairs`: the pairs of operations on one object that loom never orders
against each other, whichever comes first — atomic load/load; channel send/recv; `Arc`
inc/inc, inc/dec, inspect/inspect.  All other pairs of atomic, channel and `Arc` actions are
ordered in both directions (in particular `Inspect`/`RefDec`, after the repair of finding F10). -/
theorem independent_pairs :
    -- atomics
    (∀ x y, x ∈ [Action.atomLoad, .atomStore, .atomRmw] → y ∈ [Action.atomLoad, .atomStore, .atomRmw] →
      (AtomicInvisible x y ↔ (x, y) = (.atomLoad, .atomLoad))) ∧
    -- channels
    (∀ x y, x ∈ [Action.chanSend, .chanRecv] → y ∈ [Action.chanSend, .chanRecv] →
      (ChanInvisible x y ↔ x ≠ y)) ∧
    -- Arc
    (∀ x y, x ∈ [Action.arcInc, .arcDec, .arcInspect] → y ∈ [Action.arcInc, .arcDec, .arcInspect] →
      (ArcInvisible x y ↔ (x, y) ∈ [(Action.arcInc, Action.arcInc), (.arcInc, .arcDec),
        (.arcDec, .arcInc), (.arcInspect, .arcInspect)])) := by
  refine ⟨?_, ?_, ?_⟩
  · intro x y hx hy
    rw [atomic_table]
    simp only [Prod.mk.injEq]
  · intro x y hx hy
    rw [chan_table]
    simp only [List.mem_cons, List.not_mem_nil, or_false] at hx hy
    rcases hx with rfl | rfl <;> rcases hy with rfl | rfl <;> simp
  · intro x y hx hy
    rw [arc_table]
    simp only [List.mem_cons, List.not_mem_nil, or_false] at hx hy
    rcases hx with rfl | rfl | rfl <;> rcases hy with rfl | rfl | rfl <;> simp [arcIndep]

/-! ### (iv) finding F10 (repaired): `Inspect` then `RefDec` do not commute, and are ordered -/

/-- `T0: acount 0 | T1: adrop 1` -/
def progF10 : Prog := { cfg := {}, threads := [[.arcCount 0], [.arcDrop 1]] }

/-- both threads started, one arc with strong count 2, handles 0 and 1 -/
def stF10 : SC.St := { SC.init progF10 with
  ths := [{ started := true }, { started := true }]
  arcs := [(2, VV.zero)], handles := [(0, 0), (1, 0)] }

/-- (iv), reference side: `strong_count` (Inspect) by thread 0 and `drop` (RefDec) by thread 1 on the
same `Arc`, both enabled: the count returned depends on the order (2 if the inspection comes first, 1
otherwise).  A fact about `Spec/SC` only. -/
theorem arc_inspect_dec_not_commute :
    SC.NextOp progF10 stF10 0 (.arcCount 0) ∧ SC.NextOp progF10 stF10 1 (.arcDrop 1) ∧
    SC.arcOf stF10 0 = some 0 ∧ SC.arcOf stF10 1 = some 0 ∧
    SC.enabled progF10 stF10 0 = true ∧ SC.enabled progF10 stF10 1 = true ∧
    ((SC.step progF10 stF10 0).flatMap (fun s => SC.step progF10 s 1)).map
        (fun s => (s.th 0).rets) = [[(0, .val 2)]] ∧
    ((SC.step progF10 stF10 1).flatMap (fun s => SC.step progF10 s 0)).map
        (fun s => (s.th 0).rets) = [[(0, .val 1)]] := by
  refine ⟨⟨by decide, by decide⟩, ⟨by decide, by decide⟩, by decide, by decide, by decide,
    by decide, by decide, by decide⟩

/-- (iv), twin side, general form: what a `RefDec` consults, case by case — the recorded inspection if
it is later in the path than the last decrement (or there is no decrement), the last decrement
otherwise -/
theorem arcDec_consults (s : ArcSt) :
    (∀ i, s.lastInspect = some i → (∀ d, s.lastDec = some d → d.pathId < i.pathId) →
      s.lastDependentAccess .arcDec = some i) ∧
    (∀ d, s.lastDec = some d → (∀ i, s.lastInspect = some i → i.pathId ≤ d.pathId) →
      s.lastDependentAccess .arcDec = some d) ∧
    (s.lastInspect = none → s.lastDec = none → s.lastDependentAccess .arcDec = none) := by
  refine ⟨?_, ?_, ?_⟩
  · intro i hi hl
    unfold ArcSt.lastDependentAccess
    cases hd : s.lastDec with
    | none => simp [hi]
    | some d => simp [hi, hl d hd]
  · intro d hd hl
    unfold ArcSt.lastDependentAccess
    cases hi : s.lastInspect with
    | none => simp [hd]
    | some i => simp [hd, Nat.not_lt.2 (hl i hi)]
  · intro hi hd
    unfold ArcSt.lastDependentAccess
    simp [hi, hd]

/-- (iv), twin side: if an inspection is recorded and is later than the last decrement (if any), a
`RefDec` is compared with it -/
theorem arcDec_depends_on_inspect (s : ArcSt) (i : Access) (hi : s.lastInspect = some i)
    (hl : ∀ d, s.lastDec = some d → d.pathId < i.pathId) :
    s.lastDependentAccess .arcDec = some i :=
  (arcDec_consults s).1 i hi hl

/-- … in particular directly after `set_last_access(Inspect)` at a path position later than the last
decrement: an earlier `Inspect` is visible to a later `RefDec` -/
theorem arcDec_after_inspect (s : ArcSt) (pid : Nat) (v : VV)
    (hl : ∀ d, s.lastDec = some d → d.pathId < pid) :
    (s.setLastAccess .arcInspect pid v).lastDependentAccess .arcDec = some ⟨pid, v⟩ :=
  arcDec_depends_on_inspect _ ⟨pid, v⟩ rfl hl

theorem arc_inspect_dec_dependent : ¬ ArcInvisible .arcInspect .arcDec := by
  rw [arc_table]; decide

/-- remainder of finding F10: there is ONE inspection slot.  `set_last_access(Inspect)` overwrites the
previous inspection, so after `inspect(a); inspect(b)` the state — hence everything a later `RefDec`
(or `RefInc`) consults — does not depend on `a` at all; a decrement later than `b` is compared with
`b` only.  Witness: inspection `a` by thread 1 (clock `[0,1,0,0,0]`), inspection `b` by thread 2 (clock
`[0,0,1,0,0]`, concurrent with `a`), then a decrement by a thread whose DPOR clock `[0,0,1,1,0]` has
seen `b` but not `a`: the access returned happens-before it, so `dporMarks` adds no backtrack point,
although the decrement races with inspection `a`. -/
theorem arc_single_inspect_slot :
    (∀ (s : ArcSt) pa va pb vb,
      (s.setLastAccess .arcInspect pa va).setLastAccess .arcInspect pb vb
        = s.setLastAccess .arcInspect pb vb) ∧
    (∀ (s : ArcSt) pa va pb vb, (∀ d, s.lastDec = some d → d.pathId < pb) →
      ((s.setLastAccess .arcInspect pa va).setLastAccess .arcInspect pb vb).lastDependentAccess .arcDec
        = some ⟨pb, vb⟩) ∧
    (let va := VV.ofList [0, 1, 0, 0, 0]
     let vb := VV.ofList [0, 0, 1, 0, 0]
     let dv := VV.ofList [0, 0, 1, 1, 0]
     let s := (({} : ArcSt).setLastAccess .arcInspect 3 va).setLastAccess .arcInspect 4 vb
     va.ble vb = false ∧ vb.ble va = false ∧ va.ble dv = false ∧
     ∃ acc, s.lastDependentAccess .arcDec = some acc ∧ acc.pathId = 4 ∧
       acc.happensBefore dv = true) := by
  refine ⟨fun _ _ _ _ _ => rfl, fun s pa va pb vb hl => ?_, ?_⟩
  · exact arcDec_after_inspect _ pb vb hl
  · exact ⟨by decide, by decide, by decide, _, rfl, rfl, by decide⟩

/-! ### (v) finding F7: `try_recv` on an empty queue and `send` do not commute -/

/-- `cfg q=1 | T0: tryrecv 0 | T1: send 0 7` -/
def progF7 : Prog := { cfg := { nChans := 1 }, threads := [[.tryRecv 0], [.send 0 7]] }

def stF7 : SC.St := { SC.init progF7 with ths := [{ started := true }, { started := true }] }

/-- in the twin, `try_recv` on a channel without messages completes at once with `empty`: it
makes no `branch` call, so it is not a scheduling point and leaves the execution (path, DPOR
clocks, last accesses) untouched -/
theorem tryRecv_empty_no_branch (w : World) (c : TCtl) (q : Nat) (s : ChanSt)
    (hc : c.stage = 0) (hs : w.getChan (w.chanObj q) = .ok s) (h0 : s.msgCnt = 0) :
    w.runOp c (.tryRecv q) = .ok (w.complete .empty) ∧ (w.complete .empty).exec = w.exec := by
  refine ⟨?_, rfl⟩
  unfold World.runOp
  simp only [hc, beq_self_eq_true, if_true, hs, bind, Except.bind, h0]
  rfl

/-- (v) `try_recv` by thread 0 on an empty queue and `send` by thread 1, both enabled: thread 0
gets `empty` if it goes first and the message otherwise.  In loom the `try_recv` is not a branch
point at all (`tryRecv_empty_no_branch`). -/
theorem tryrecv_send_not_independent :
    SC.NextOp progF7 stF7 0 (.tryRecv 0) ∧ SC.NextOp progF7 stF7 1 (.send 0 7) ∧
    stF7.chan.getD 0 [] = [] ∧
    SC.enabled progF7 stF7 0 = true ∧ SC.enabled progF7 stF7 1 = true ∧
    ((SC.step progF7 stF7 0).flatMap (fun s => SC.step progF7 s 1)).map
        (fun s => (s.th 0).rets) = [[(0, .empty)]] ∧
    ((SC.step progF7 stF7 1).flatMap (fun s => SC.step progF7 s 0)).map
        (fun s => (s.th 0).rets) = [[(0, .val 7)]] := by
  refine ⟨⟨by decide, by decide⟩, ⟨by decide, by decide⟩, by decide, by decide, by decide,
    by decide, by decide⟩

end Dep
end LoomVerif

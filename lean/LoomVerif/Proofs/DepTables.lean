/-
C01 pillar 4, first half: loom's dependence tables as equations, the list of pairs it never
orders, and the two pairs for which this is wrong with respect to `Spec/SC` (findings F10, F7).
-/
import LoomVerif.Proofs.DepSC
import LoomVerif.Model.Interp

namespace LoomVerif
namespace Dep

/-! ### which access slot an operation consults, which it writes -/

/-- atomics: a load consults the last store/RMW, everything else the last access of any kind -/
theorem atomic_consults (a : Atomic) (act : Action) :
    a.lastDependentAccess act = if act = .atomLoad then a.lastNonLoad else a.lastAccess := by
  cases act <;> rfl

/-- atomics: every access is recorded in `lastAccess`, stores/RMWs also in `lastNonLoad` -/
theorem atomic_records (a : Atomic) (act : Action) (pid : Nat) (v : VV) :
    (a.setLastAccess act pid v).lastAccess = some ⟨pid, v⟩ ∧
    (a.setLastAccess act pid v).lastNonLoad =
      if act = .atomLoad then a.lastNonLoad else some ⟨pid, v⟩ := by
  cases act <;> exact ⟨rfl, rfl⟩

/-- channels: `send` consults and records the last send, `recv` the last receive -/
theorem chan_consults (s : ChanSt) :
    s.lastDependentAccess .chanSend = s.lastSend ∧ s.lastDependentAccess .chanRecv = s.lastRecv :=
  ⟨rfl, rfl⟩

theorem chan_records (s : ChanSt) (pid : Nat) (v : VV) :
    s.setLastAccess .chanSend pid v = { s with lastSend := some ⟨pid, v⟩ } ∧
    s.setLastAccess .chanRecv pid v = { s with lastRecv := some ⟨pid, v⟩ } := ⟨rfl, rfl⟩

/-- `Arc`: `RefInc` consults the last inspection, `RefDec` the last decrement, `Inspect` the
last modification (increment or decrement, whichever came last) -/
theorem arc_consults (s : ArcSt) :
    s.lastDependentAccess .arcInc = s.lastInspect ∧
    s.lastDependentAccess .arcDec = s.lastDec ∧
    s.lastDependentAccess .arcInspect =
      (match s.lastMod with
       | some .inc => s.lastInc
       | some .dec => s.lastDec
       | none => none) := ⟨rfl, rfl, rfl⟩

theorem arc_records (s : ArcSt) (pid : Nat) (v : VV) :
    s.setLastAccess .arcInc pid v = { s with lastMod := some .inc, lastInc := some ⟨pid, v⟩ } ∧
    s.setLastAccess .arcDec pid v = { s with lastMod := some .dec, lastDec := some ⟨pid, v⟩ } ∧
    s.setLastAccess .arcInspect pid v = { s with lastInspect := some ⟨pid, v⟩ } :=
  ⟨rfl, rfl, rfl⟩

/-- mutex / rwlock / condvar / notify: one slot, consulted and written by every access -/
theorem opaque_kinds (os os' : Objs) (op op' : Operation) (pid : Nat) (v : VV)
    (hk : (∃ s, os[op.obj]? = some (.mutex s)) ∨ (∃ s, os[op.obj]? = some (.rwlock s)) ∨
      (∃ s, os[op.obj]? = some (.condvar s)) ∨ (∃ s, os[op.obj]? = some (.notify s)))
    (hs : os.setLastAccess op pid v = .ok os') (hobj : op'.obj = op.obj) :
    os'.lastDependentAccess op' = .ok (some ⟨pid, v⟩) := by
  have hlt : op.obj < os.length := by
    rcases hk with ⟨s, h⟩ | ⟨s, h⟩ | ⟨s, h⟩ | ⟨s, h⟩ <;> exact (List.getElem?_eq_some_iff.1 h).1
  unfold Objs.setLastAccess at hs
  unfold Objs.lastDependentAccess
  rw [hobj]
  rcases hk with ⟨s, h⟩ | ⟨s, h⟩ | ⟨s, h⟩ | ⟨s, h⟩ <;>
    (rw [h] at hs; cases hs; simp [List.getElem?_set, hlt])

/-! ### the pairs loom never orders -/

/-- an earlier access with action `x` is invisible to a later operation with action `y` on the
same object: recording `x` does not change the slot `y` consults -/
def AtomicInvisible (x y : Action) : Prop :=
  ∀ (a : Atomic) pid v, (a.setLastAccess x pid v).lastDependentAccess y = a.lastDependentAccess y
def ChanInvisible (x y : Action) : Prop :=
  ∀ (s : ChanSt) pid v, (s.setLastAccess x pid v).lastDependentAccess y = s.lastDependentAccess y
def ArcInvisible (x y : Action) : Prop :=
  ∀ (s : ArcSt) pid v, (s.setLastAccess x pid v).lastDependentAccess y = s.lastDependentAccess y

/-- the `Arc` table: `false` = the later `y` is ordered after the earlier `x` -/
def arcIndep : Action → Action → Bool
  | .arcInc, .arcInspect | .arcDec, .arcDec | .arcDec, .arcInspect | .arcInspect, .arcInc => false
  | _, _ => true

theorem atomic_table (x y : Action) : AtomicInvisible x y ↔ x = .atomLoad ∧ y = .atomLoad := by
  constructor
  · intro h
    have h0 := h {} 0 VV.zero
    cases x <;> cases y <;>
      first
      | exact ⟨rfl, rfl⟩
      | (exfalso; simp [Atomic.setLastAccess, Atomic.lastDependentAccess] at h0)
  · rintro ⟨rfl, rfl⟩ a pid v; rfl

theorem chan_table (x y : Action) :
    ChanInvisible x y ↔ ¬ (x = y ∧ (x = .chanSend ∨ x = .chanRecv)) := by
  constructor
  · intro h
    have h0 := h {} 0 VV.zero
    rintro ⟨rfl, hx | hx⟩ <;> subst hx <;>
      simp [ChanSt.setLastAccess, ChanSt.lastDependentAccess] at h0
  · intro h s pid v
    cases x <;> cases y <;> first | rfl | (exfalso; exact h ⟨rfl, by simp⟩)

theorem arc_table (x y : Action) : ArcInvisible x y ↔ arcIndep x y = true := by
  constructor
  · intro h
    have h0 := h {} 0 VV.zero
    cases x <;> cases y <;>
      first
      | rfl
      | (exfalso; simp [ArcSt.setLastAccess, ArcSt.lastDependentAccess] at h0)
  · intro h s pid v
    cases x <;> cases y <;> first | rfl | exact absurd h (by decide)

/-- `Dep.independent_pairs`: the pairs of operations on one object that loom never orders
against each other, whichever comes first — atomic load/load; channel send/recv; `Arc`
inc/inc, inc/dec, inspect/inspect — and the one-directional case: an earlier `Inspect` is
invisible to a later `RefDec`.  All other pairs of atomic, channel and `Arc` actions are
ordered in at least one direction. -/
theorem independent_pairs :
    -- atomics
    (∀ x y, x ∈ [Action.atomLoad, .atomStore, .atomRmw] → y ∈ [Action.atomLoad, .atomStore, .atomRmw] →
      (AtomicInvisible x y ↔ (x, y) = (.atomLoad, .atomLoad))) ∧
    -- channels
    (∀ x y, x ∈ [Action.chanSend, .chanRecv] → y ∈ [Action.chanSend, .chanRecv] →
      (ChanInvisible x y ↔ x ≠ y)) ∧
    -- Arc
    (∀ x y, x ∈ [Action.arcInc, .arcDec, .arcInspect] → y ∈ [Action.arcInc, .arcDec, .arcInspect] →
      (ArcInvisible x y ↔ (x, y) ∈ [(Action.arcInc, Action.arcInc), (.arcInc, .arcDec),
        (.arcDec, .arcInc), (.arcInspect, .arcDec), (.arcInspect, .arcInspect)])) := by
  refine ⟨?_, ?_, ?_⟩
  · intro x y hx hy
    rw [atomic_table]
    simp only [Prod.mk.injEq]
  · intro x y hx hy
    rw [chan_table]
    simp only [List.mem_cons, List.not_mem_nil, or_false] at hx hy
    rcases hx with rfl | rfl <;> rcases hy with rfl | rfl <;> simp
  · intro x y hx hy
    rw [arc_table]
    simp only [List.mem_cons, List.not_mem_nil, or_false] at hx hy
    rcases hx with rfl | rfl | rfl <;> rcases hy with rfl | rfl | rfl <;> simp [arcIndep]

/-! ### (iv) finding F10: `Inspect` then `RefDec` do not commute -/

/-- `T0: acount 0 | T1: adrop 1` -/
def progF10 : Prog := { cfg := {}, threads := [[.arcCount 0], [.arcDrop 1]] }

/-- both threads started, one arc with strong count 2, handles 0 and 1 -/
def stF10 : SC.St := { SC.init progF10 with
  ths := [{ started := true }, { started := true }]
  arcs := [(2, VV.zero)], handles := [(0, 0), (1, 0)] }

/-- (iv) `strong_count` (Inspect) by thread 0 and `drop` (RefDec) by thread 1 on the same `Arc`,
both enabled: the count returned depends on the order (2 if the inspection comes first, 1
otherwise) — yet loom does not order a later `RefDec` after an earlier `Inspect`
(`ArcSt.lastDependentAccess .arcDec` ignores `lastInspect`), so the second order is never
explored from the first. -/
theorem arc_inspect_dec_not_independent :
    SC.NextOp progF10 stF10 0 (.arcCount 0) ∧ SC.NextOp progF10 stF10 1 (.arcDrop 1) ∧
    SC.arcOf stF10 0 = some 0 ∧ SC.arcOf stF10 1 = some 0 ∧
    SC.enabled progF10 stF10 0 = true ∧ SC.enabled progF10 stF10 1 = true ∧
    ((SC.step progF10 stF10 0).flatMap (fun s => SC.step progF10 s 1)).map
        (fun s => (s.th 0).rets) = [[(0, .val 2)]] ∧
    ((SC.step progF10 stF10 1).flatMap (fun s => SC.step progF10 s 0)).map
        (fun s => (s.th 0).rets) = [[(0, .val 1)]] ∧
    ArcInvisible .arcInspect .arcDec := by
  refine ⟨⟨by decide, by decide⟩, ⟨by decide, by decide⟩, by decide, by decide, by decide,
    by decide, by decide, by decide, (arc_table _ _).2 rfl⟩

/-! ### (v) finding F7: `try_recv` on an empty queue and `send` do not commute -/

/-- `cfg q=1 | T0: tryrecv 0 | T1: send 0 7` -/
def progF7 : Prog := { cfg := { nChans := 1 }, threads := [[.tryRecv 0], [.send 0 7]] }

def stF7 : SC.St := { SC.init progF7 with ths := [{ started := true }, { started := true }] }

/-- in the twin, `try_recv` on a channel without messages completes at once with `empty`: it
makes no `branch` call, so it is not a scheduling point and leaves the execution (path, DPOR
clocks, last accesses) untouched -/
theorem tryRecv_empty_no_branch (w : World) (c : TCtl) (q : Nat) (s : ChanSt)
    (hc : c.stage = 0) (hs : w.getChan (w.chanObj q) = .ok s) (h0 : s.msgCnt = 0) :
    w.runOp c (.tryRecv q) = .ok (w.complete .empty) ∧ (w.complete .empty).exec = w.exec := by
  refine ⟨?_, rfl⟩
  unfold World.runOp
  simp only [hc, beq_self_eq_true, if_true, hs, bind, Except.bind, h0]
  rfl

/-- (v) `try_recv` by thread 0 on an empty queue and `send` by thread 1, both enabled: thread 0
gets `empty` if it goes first and the message otherwise.  In loom the `try_recv` is not a branch
point at all (`tryRecv_empty_no_branch`). -/
theorem tryrecv_send_not_independent :
    SC.NextOp progF7 stF7 0 (.tryRecv 0) ∧ SC.NextOp progF7 stF7 1 (.send 0 7) ∧
    stF7.chan.getD 0 [] = [] ∧
    SC.enabled progF7 stF7 0 = true ∧ SC.enabled progF7 stF7 1 = true ∧
    ((SC.step progF7 stF7 0).flatMap (fun s => SC.step progF7 s 1)).map
        (fun s => (s.th 0).rets) = [[(0, .empty)]] ∧
    ((SC.step progF7 stF7 1).flatMap (fun s => SC.step progF7 s 0)).map
        (fun s => (s.th 0).rets) = [[(0, .val 7)]] := by
  refine ⟨⟨by decide, by decide⟩, ⟨by decide, by decide⟩, by decide, by decide, by decide,
    by decide, by decide⟩

end Dep
end LoomVerif
